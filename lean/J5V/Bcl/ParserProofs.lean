import J5V.Bcl.Parser
import J5V.Bcl.LexerProofs
import J5V.Bcl.LexLineProofs
/-!
# Walker lemmas for C11: no panic, fuel, node / diagnostic positions.

`Q` is any predicate on positions that holds for the positions of all tokens (instantiated with
`InFile src`).
-/
namespace J5V.Bcl

variable (Q : Pos → Prop)

/-- invariant of the walker state -/
structure WInv (w : W) : Prop where
  nonempty : w.prev ≠ none ∨ w.rest ≠ []
  ordered : w.rest.Pairwise (fun t u => t.end_ ≤ u.start)
  spans : ∀ t ∈ w.rest, t.start ≤ t.end_
  after : ∀ t ∈ w.rest, w.currentPos ≤ t.start
  noEof : ∀ t ∈ w.rest, t.ty ≠ .eof
  prevNoEof : ∀ l, w.prev = some l → l.ty ≠ .eof
  qCur : Q w.currentPos
  qRest : ∀ t ∈ w.rest, Q t.start ∧ Q t.end_

/-- the walker moved from `w` to `w'`, dropping the tokens `d` -/
structure WStep (w w' : W) : Prop where
  inv : WInv Q w'
  mono : w.currentPos ≤ w'.currentPos
  len : w'.rest.length ≤ w.rest.length
  drop : ∃ d, w.rest = d ++ w'.rest ∧ (∀ t ∈ d, t.end_ ≤ w'.currentPos) ∧
    w'.prev = d.getLast?.or w.prev

theorem WStep.refl {w : W} (h : WInv Q w) : WStep Q w w :=
  ⟨h, Pos.le_refl _, Nat.le_refl _, [], rfl, (fun t ht => by cases ht), rfl⟩

theorem WStep.trans {w1 w2 w3 : W} (h1 : WStep Q w1 w2) (h2 : WStep Q w2 w3) : WStep Q w1 w3 := by
  obtain ⟨d1, e1, f1, g1⟩ := h1.drop
  obtain ⟨d2, e2, f2, g2⟩ := h2.drop
  refine ⟨h2.inv, Pos.le_trans h1.mono h2.mono, Nat.le_trans h2.len h1.len, d1 ++ d2,
    by rw [e1, e2]; simp, ?_, ?_⟩
  · intro t ht
    rcases List.mem_append.mp ht with h | h
    · exact Pos.le_trans (f1 t h) h2.mono
    · exact f2 t h
  · rw [g2, g1, List.getLast?_append]
    cases d2.getLast? <;> cases d1.getLast? <;> rfl

/-- a token handed out by the walker at state `w` (a real token, or the synthesised EOF) -/
structure TokOK (lo : Pos) (t : Token) : Prop where
  lo : lo ≤ t.start
  span : t.start ≤ t.end_
  qs : Q t.start
  qe : Q t.end_

theorem TokOK.mono {lo lo' : Pos} {t : Token} (h : TokOK Q lo t) (hl : lo' ≤ lo) : TokOK Q lo' t :=
  ⟨Pos.le_trans hl h.lo, h.span, h.qs, h.qe⟩

/-- `start ≤ end`, both satisfying `Q` -/
def PosPairOK (s e : Pos) : Prop := s ≤ e ∧ Q s ∧ Q e
def Token.ok (t : Token) : Prop := PosPairOK Q t.start t.end_

theorem TokOK.tokOk {lo : Pos} {t : Token} (h : TokOK Q lo t) : Token.ok Q t := ⟨h.span, h.qs, h.qe⟩

/-- Hoare-style specification of a walker action at state `w` -/
def WSpec {α : Type} (m : WM α) (w : W) (post : α → W → Prop) : Prop :=
  WInv Q w →
    match m w with
    | .ok a w' => WStep Q w w' ∧ post a w'
    | .fail e w' => WStep Q w w' ∧ Token.ok Q e.tok
    | .panic _ => False

theorem WSpec.pure {α : Type} {a : α} {w : W} {post : α → W → Prop} (h : post a w) :
    WSpec Q (Pure.pure a : WM α) w post := fun hw => ⟨WStep.refl Q hw, h⟩

theorem WSpec.bind {α β : Type} {m : WM α} {f : α → WM β} {w : W} {P : α → W → Prop}
    {R : β → W → Prop} (h1 : WSpec Q m w P)
    (h2 : ∀ a w1, WStep Q w w1 → P a w1 → WSpec Q (f a) w1 R) : WSpec Q (m >>= f) w R := by
  intro hw
  have h1 := h1 hw
  show match WM.bind m f w with
    | .ok a w' => WStep Q w w' ∧ R a w'
    | .fail e w' => WStep Q w w' ∧ Token.ok Q e.tok
    | .panic _ => False
  unfold WM.bind
  cases hm : m w with
  | ok a w1 =>
    rw [hm] at h1
    obtain ⟨s1, p1⟩ := h1
    have h2 := h2 a w1 s1 p1 s1.inv
    simp only []
    cases hf : f a w1 with
    | ok b w2 =>
      rw [hf] at h2
      exact ⟨s1.trans Q h2.1, h2.2⟩
    | fail e w2 =>
      rw [hf] at h2
      exact ⟨s1.trans Q h2.1, h2.2⟩
    | panic s => rw [hf] at h2; exact h2
  | fail e w1 => rw [hm] at h1; exact h1
  | panic s => rw [hm] at h1; exact h1

theorem WSpec.weaken {α : Type} {m : WM α} {w : W} {P R : α → W → Prop} (h : WSpec Q m w P)
    (hpr : ∀ a w', WStep Q w w' → P a w' → R a w') : WSpec Q m w R := by
  intro hw
  have h := h hw
  cases hm : m w with
  | ok a w1 => rw [hm] at h; exact ⟨h.1, hpr a w1 h.1 h.2⟩
  | fail e w1 => rw [hm] at h; exact h
  | panic s => rw [hm] at h; exact h

theorem WSpec.getW {w : W} : WSpec Q getW w (fun a w' => a = w ∧ w' = w) :=
  fun hw => ⟨WStep.refl Q hw, rfl, rfl⟩

theorem WSpec.fail {α : Type} {e : UnexpErr} {w : W} {post : α → W → Prop}
    (h : Token.ok Q e.tok) : WSpec Q (WM.fail e : WM α) w post :=
  fun hw => ⟨WStep.refl Q hw, h⟩

/-- `popToken`: never panics under the invariant; hands out a well-placed token -/
theorem popToken_spec (w : W) :
    WSpec Q popToken w (fun t w' => TokOK Q w.currentPos t ∧ t.end_ ≤ w'.currentPos ∧
      t.ty = w.nextType ∧ (w.rest ≠ [] → w'.rest.length < w.rest.length ∧ w'.prev = some t)) := by
  intro hw
  unfold popToken
  cases hr : w.rest with
  | cons t rs =>
    simp only []
    have hmem : t ∈ w.rest := by rw [hr]; simp
    have hord := hw.ordered
    rw [hr] at hord
    have hord' := List.pairwise_cons.mp hord
    refine ⟨⟨⟨Or.inl (by simp), hord'.2, ?_, ?_, ?_, ?_, ?_, ?_⟩, ?_, ?_, ?_⟩, ?_, ?_, ?_, ?_⟩
    · intro u hu; exact hw.spans u (by rw [hr]; simp [hu])
    · intro u hu; exact hord'.1 u hu
    · intro u hu; exact hw.noEof u (by rw [hr]; simp [hu])
    · intro l hl; cases hl; exact hw.noEof t hmem
    · exact (hw.qRest t hmem).2
    · intro u hu; exact hw.qRest u (by rw [hr]; simp [hu])
    · exact Pos.le_trans (hw.after t hmem) (hw.spans t hmem)
    · simp [hr]
    · exact ⟨[t], by simp [hr], (fun u hu => by simp at hu; subst hu; exact Pos.le_refl _), rfl⟩
    · exact ⟨hw.after t hmem, hw.spans t hmem, (hw.qRest t hmem).1, (hw.qRest t hmem).2⟩
    · exact Pos.le_refl _
    · simp [W.nextType, hr]
    · intro _; simp
  | nil =>
    simp only []
    cases hp : w.prev with
    | none =>
      rcases hw.nonempty with h | h
      · exact absurd hp h
      · exact absurd hr h
    | some l =>
      simp only []
      have hne : l.ty ≠ .eof := hw.prevNoEof l hp
      simp only [hne, if_false]
      have hcur : w.currentPos = l.end_ := by simp [W.currentPos, hp]
      refine ⟨WStep.refl Q hw, ⟨?_, ?_, ?_, ?_⟩, ?_, ?_, ?_⟩
      · rw [hcur]; exact Pos.le_refl _
      · exact Pos.le_refl _
      · rw [← hcur]; exact hw.qCur
      · rw [← hcur]; exact hw.qCur
      · rw [hcur]; exact Pos.le_refl _
      · simp [W.nextType, hr]
      · intro h; exact absurd rfl h


/-! ## Well-placed nodes -/

def Span.ok (s : Span) : Prop := PosPairOK Q s.start s.end_
def Ident.ok (i : Ident) : Prop := Token.ok Q i.token ∧ Span.ok Q i.span
def Reference.ok (r : Reference) : Prop := (∀ i ∈ r.idents, Ident.ok Q i) ∧ Span.ok Q r.span

mutual
def Value.ok : Value → Prop
  | .scalar tok s => Token.ok Q tok ∧ Span.ok Q s
  | .array vs s => Value.okList vs ∧ Span.ok Q s
def Value.okList : List Value → Prop
  | [] => True
  | v :: vs => Value.ok v ∧ Value.okList vs
end

def TagValue.ok (t : TagValue) : Prop :=
  Token.ok Q t.markToken ∧ (∀ r, t.reference = some r → Reference.ok Q r) ∧
    (∀ v, t.value = some v → Value.ok Q v) ∧ Span.ok Q t.span
def Description.ok (d : Description) : Prop := (∀ t ∈ d.tokens, Token.ok Q t) ∧ Span.ok Q d.span
def CommentNode.ok (c : CommentNode) : Prop := Span.ok Q c.span
def SourceNode.ok (s : SourceNode) : Prop :=
  PosPairOK Q s.start s.end_ ∧ ∀ c, s.comment = some c → CommentNode.ok Q c
def BlockHeader.ok (h : BlockHeader) : Prop :=
  Reference.ok Q h.type ∧ (∀ t ∈ h.tags, TagValue.ok Q t) ∧ (∀ t ∈ h.qualifiers, TagValue.ok Q t) ∧
    (∀ d, h.description = some d → Description.ok Q d) ∧ SourceNode.ok Q h.src
def Assignment.ok (a : Assignment) : Prop :=
  Reference.ok Q a.key ∧ Value.ok Q a.value ∧ SourceNode.ok Q a.src
def Fragment.ok : Fragment → Prop
  | .header h => BlockHeader.ok Q h
  | .assign a => Assignment.ok Q a
  | .desc d => Description.ok Q d
  | .comment c => Token.ok Q c.token ∧ Span.ok Q c.span
  | .close c => Token.ok Q c.token ∧ Span.ok Q c.span

mutual
def Statement.ok : Statement → Prop
  | .block h body => BlockHeader.ok Q h ∧ Statement.okList body
  | .assign a => Assignment.ok Q a
  | .desc d => Description.ok Q d
def Statement.okList : List Statement → Prop
  | [] => True
  | s :: ss => Statement.ok s ∧ Statement.okList ss
end

def Diag.ok (d : Diag) : Prop := PosPairOK Q d.start d.end_

/-- `lo ≤ s ≤ e ≤ hi` -/
def Within (lo hi s e : Pos) : Prop := lo ≤ s ∧ s ≤ e ∧ e ≤ hi

theorem Within.mono {lo lo' hi hi' s e : Pos} (h : Within lo hi s e) (h1 : lo' ≤ lo) (h2 : hi ≤ hi') :
    Within lo' hi' s e := ⟨Pos.le_trans h1 h.1, h.2.1, Pos.le_trans h.2.2 h2⟩

/-- a popped token together with where the walker stands afterwards -/
def Popped (w : W) (t : Token) (w' : W) : Prop :=
  TokOK Q w.currentPos t ∧ t.end_ ≤ w'.currentPos ∧ t.ty = w.nextType ∧
    (w.rest ≠ [] → w'.rest.length < w.rest.length ∧ w'.prev = some t)

theorem Popped.within {w : W} {t : Token} {w' : W} (h : Popped Q w t w') :
    Within w.currentPos w'.currentPos t.start t.end_ := ⟨h.1.lo, h.1.span, h.2.1⟩

theorem popToken_spec' (w : W) : WSpec Q popToken w (fun t w' => Popped Q w t w') :=
  popToken_spec Q w

theorem failUnexpected_spec {α : Type} (expected : List TokenType) (w : W) (post : α → W → Prop) :
    WSpec Q (failUnexpected expected : WM α) w post := by
  unfold failUnexpected
  refine WSpec.bind Q (popToken_spec' Q w) ?_
  intro tok w1 s1 hp
  exact WSpec.fail Q hp.1.tokOk


theorem popType_spec (tt : TokenType) (w : W) :
    WSpec Q (popType tt) w (fun t w' => Popped Q w t w') := by
  unfold popType
  refine WSpec.bind Q (popToken_spec' Q w) ?_
  intro tok w1 s1 hp
  split
  · exact WSpec.fail Q hp.1.tokOk
  · exact WSpec.pure Q hp

theorem asIdent_some {t t' : Token} (h : t.asIdent = some t') :
    t'.start = t.start ∧ t'.end_ = t.end_ ∧ t'.lit = t.lit ∧ (t.ty = .ident ∨ t.ty = .bool) := by
  unfold Token.asIdent at h
  split at h
  · cases h; simp_all
  · cases h; simp_all
  · cases h

/-- an identifier lying in `[lo, hi]` -/
def IdentIn (lo hi : Pos) (i : Ident) : Prop :=
  Ident.ok Q i ∧ Within lo hi i.span.start i.span.end_

theorem popIdent_spec (w : W) :
    WSpec Q popIdent w (fun i w' => IdentIn Q w.currentPos w'.currentPos i ∧
      w'.rest.length < w.rest.length) := by
  unfold popIdent
  refine WSpec.bind Q (popToken_spec' Q w) ?_
  intro tok w1 s1 hp
  split
  · exact WSpec.fail Q hp.1.tokOk
  · rename_i t ht
    obtain ⟨e1, e2, _, hty⟩ := asIdent_some ht
    apply WSpec.pure
    have hw := hp.within
    refine ⟨⟨⟨?_, ?_⟩, ?_⟩, ?_⟩
    · show PosPairOK Q t.start t.end_
      rw [e1, e2]; exact hp.1.tokOk
    · show PosPairOK Q t.start t.end_
      rw [e1, e2]; exact hp.1.tokOk
    · show Within _ _ t.start t.end_
      rw [e1, e2]; exact hw
    · refine (hp.2.2.2 ?_).1
      intro hr
      have : w.nextType = .eof := by simp [W.nextType, hr]
      rw [← hp.2.2.1] at this
      rcases hty with h | h <;> rw [h] at this <;> cases this


theorem IdentIn.mono {lo hi hi' : Pos} {i : Ident} (h : IdentIn Q lo hi i) (h2 : hi ≤ hi') :
    IdentIn Q lo hi' i := ⟨h.1, h.2.mono (Pos.le_refl _) h2⟩

theorem newReference_of_ne_nil (acc : List Ident) (h : acc ≠ []) : ∃ r, newReference acc = some r := by
  unfold newReference
  cases acc with
  | nil => exact absurd rfl h
  | cons f as =>
    have : (f :: as).getLast? = some ((f :: as).getLast (by simp)) := List.getLast?_eq_some_getLast (by simp)
    simp only [List.head?_cons, this]
    exact ⟨_, rfl⟩

theorem newReference_finish (lo cur0 hi : Pos) (acc : List Ident) (j : Ident)
    (hacc : ∀ i ∈ acc, IdentIn Q lo cur0 i) (hj : IdentIn Q cur0 hi j) (hlo : lo ≤ cur0) :
    ∃ r, newReference (acc ++ [j]) = some r ∧ Reference.ok Q r ∧
      Within lo hi r.span.start r.span.end_ := by
  have hall : ∀ i ∈ acc ++ [j], Ident.ok Q i := by
    intro i hi
    rcases List.mem_append.mp hi with h | h
    · exact (hacc i h).1
    · simp at h; subst h; exact hj.1
  unfold newReference
  have hl : (acc ++ [j]).getLast? = some j := by simp
  cases acc with
  | nil =>
    simp only [List.nil_append, List.head?_cons, List.getLast?_singleton]
    refine ⟨_, rfl, ⟨hall, hj.1.2⟩, ?_⟩
    exact hj.2.mono hlo (Pos.le_refl _)
  | cons f as =>
    rw [hl]
    simp only [List.cons_append, List.head?_cons]
    have hf := hacc f (by simp)
    refine ⟨_, rfl, ⟨hall, ?_, hf.1.2.2.1, hj.1.2.2.2⟩, ?_⟩
    · exact Pos.le_trans hf.2.2.1 (Pos.le_trans hf.2.2.2 (Pos.le_trans hj.2.1 hj.2.2.1))
    · exact ⟨hf.2.1, Pos.le_trans hf.2.2.1 (Pos.le_trans hf.2.2.2 (Pos.le_trans hj.2.1 hj.2.2.1)),
        hj.2.2.2⟩

/-- the result of a non-monadic walker helper, in the shape of `WSpec` -/
def WRSpec {α : Type} (res : WR α) (w : W) (post : α → W → Prop) : Prop :=
  match res with
  | .ok a w' => WStep Q w w' ∧ post a w'
  | .fail e w' => WStep Q w w' ∧ Token.ok Q e.tok
  | .panic _ => False

theorem popToken_cons (prev : Option Token) (t : Token) (rs : List Token) :
    popToken ⟨prev, t :: rs⟩ = .ok t ⟨some t, rs⟩ := rfl

theorem popReferenceLoop_spec (lo : Pos) (n : Nat) :
    ∀ (rest : List Token) (acc : List Ident) (prev : Option Token), rest.length ≤ n →
      WInv Q ⟨prev, rest⟩ →
      (acc ≠ [] ∨ ∃ t rs, rest = t :: rs ∧ t.asIdent ≠ none) →
      (∀ i ∈ acc, IdentIn Q lo (W.currentPos ⟨prev, rest⟩) i) →
      lo ≤ W.currentPos ⟨prev, rest⟩ →
      WRSpec Q (popReferenceLoop acc prev rest) ⟨prev, rest⟩ (fun r w' =>
        Reference.ok Q r ∧ Within lo w'.currentPos r.span.start r.span.end_ ∧
          w'.rest.length < rest.length) := by
  induction n with
  | zero =>
    intro rest acc prev hn hw hne hacc hlo
    have : rest = [] := List.eq_nil_of_length_eq_zero (Nat.le_zero.mp hn)
    subst this
    unfold popReferenceLoop
    have hp := popToken_spec' Q ⟨prev, []⟩ hw
    cases hpt : popToken ⟨prev, []⟩ with
    | ok tok w1 =>
      rw [hpt] at hp
      simp only []
      have hacc' : acc ≠ [] := by
        rcases hne with h | ⟨t, rs, h, _⟩
        · exact h
        · cases h
      obtain ⟨r, hr⟩ := newReference_of_ne_nil acc hacc'
      rw [hr]
      exact ⟨hp.1, hp.2.1.tokOk⟩
    | fail e w1 => rw [hpt] at hp; simp only []; exact hp
    | panic s => rw [hpt] at hp; exact hp
  | succ n ih =>
    intro rest acc prev hn hw hne hacc hlo
    cases rest with
    | nil =>
      unfold popReferenceLoop
      have hp := popToken_spec' Q ⟨prev, []⟩ hw
      cases hpt : popToken ⟨prev, []⟩ with
      | ok tok w1 =>
        rw [hpt] at hp
        simp only []
        have hacc' : acc ≠ [] := by
          rcases hne with h | ⟨t, rs, h, _⟩
          · exact h
          · cases h
        obtain ⟨r, hr⟩ := newReference_of_ne_nil acc hacc'
        rw [hr]
        exact ⟨hp.1, hp.2.1.tokOk⟩
      | fail e w1 => rw [hpt] at hp; simp only []; exact hp
      | panic s => rw [hpt] at hp; exact hp
    | cons t rs =>
      have hp := popToken_spec' Q ⟨prev, t :: rs⟩ hw
      rw [popToken_cons] at hp
      obtain ⟨s1, hpop⟩ := hp
      unfold popReferenceLoop
      cases hai : t.asIdent with
      | none =>
        simp only []
        have hacc' : acc ≠ [] := by
          rcases hne with h | ⟨t', rs', h, h2⟩
          · exact h
          · cases h; exact absurd hai h2
        obtain ⟨r, hr⟩ := newReference_of_ne_nil acc hacc'
        rw [hr]
        exact ⟨s1, hpop.1.tokOk⟩
      | some it =>
        simp only []
        obtain ⟨e1, e2, _, _⟩ := asIdent_some hai
        have hj : IdentIn Q (W.currentPos ⟨prev, t :: rs⟩) (W.currentPos ⟨some t, rs⟩)
            (⟨it, it.lit, ⟨it.start, it.end_⟩⟩ : Ident) := by
          refine ⟨⟨?_, ?_⟩, ?_⟩
          · show PosPairOK Q it.start it.end_
            rw [e1, e2]; exact hpop.1.tokOk
          · show PosPairOK Q it.start it.end_
            rw [e1, e2]; exact hpop.1.tokOk
          · show Within _ _ it.start it.end_
            rw [e1, e2]; exact hpop.within
        obtain ⟨r, hr1, hr2, hr3⟩ := newReference_finish Q lo _ _ acc _ hacc hj hlo
        have hfin : WRSpec Q (match newReference (acc ++ [(⟨it, it.lit, ⟨it.start, it.end_⟩⟩ : Ident)]) with
            | none => (WR.panic "index out of range [0]" : WR Reference)
            | some r => .ok r ⟨some t, rs⟩) ⟨prev, t :: rs⟩ (fun r w' =>
              Reference.ok Q r ∧ Within lo w'.currentPos r.span.start r.span.end_ ∧
                w'.rest.length < (t :: rs).length) := by
          rw [hr1]
          exact ⟨s1, hr2, hr3, by simp⟩
        cases rs with
        | nil => simp only []; exact hfin
        | cons d rs2 =>
          simp only []
          split
          · -- a dot follows: pop it and continue
            have hp2 := popToken_spec' Q ⟨some t, d :: rs2⟩ s1.inv
            rw [popToken_cons] at hp2
            obtain ⟨s2, hpop2⟩ := hp2
            have hacc2 : ∀ i ∈ acc ++ [(⟨it, it.lit, ⟨it.start, it.end_⟩⟩ : Ident)],
                IdentIn Q lo (W.currentPos ⟨some d, rs2⟩) i := by
              intro i hi
              rcases List.mem_append.mp hi with h | h
              · exact (hacc i h).mono Q (Pos.le_trans s1.mono s2.mono)
              · simp at h; subst h
                exact ⟨hj.1, hj.2.mono hlo s2.mono⟩
            have := ih rs2 (acc ++ [(⟨it, it.lit, ⟨it.start, it.end_⟩⟩ : Ident)]) (some d)
              (by simp at hn ⊢; omega) s2.inv (Or.inl (by simp)) hacc2
              (Pos.le_trans hlo (Pos.le_trans s1.mono s2.mono))
            unfold WRSpec at this ⊢
            split at this
            · exact ⟨(s1.trans Q s2).trans Q this.1, this.2.1, this.2.2.1,
                by have := this.2.2.2; simp at this ⊢; omega⟩
            · exact ⟨(s1.trans Q s2).trans Q this.1, this.2⟩
            · exact this.elim
          · exact hfin


theorem WRSpec_to_WSpec {α : Type} {m : WM α} {w : W} {post : α → W → Prop}
    (h : WInv Q w → WRSpec Q (m w) w post) : WSpec Q m w post := by
  intro hw
  have := h hw
  unfold WRSpec at this
  exact this

/-- `popReference` when the next token is an identifier (or `true`/`false`) -/
theorem popReference_spec (w : W) (hnext : w.nextType = .ident ∨ w.nextType = .bool) :
    WSpec Q popReference w (fun r w' => Reference.ok Q r ∧
      Within w.currentPos w'.currentPos r.span.start r.span.end_ ∧
      w'.rest.length < w.rest.length) := by
  apply WRSpec_to_WSpec
  intro hw
  unfold popReference
  have hne : ∃ t rs, w.rest = t :: rs ∧ t.asIdent ≠ none := by
    cases hr : w.rest with
    | nil => simp [W.nextType, hr] at hnext
    | cons t rs =>
      refine ⟨t, rs, rfl, ?_⟩
      simp only [W.nextType, hr] at hnext
      unfold Token.asIdent
      rcases hnext with h | h <;> simp [h]
  have := popReferenceLoop_spec Q w.currentPos w.rest.length w.rest [] w.prev (Nat.le_refl _) hw
    (Or.inr hne) (fun i hi => by cases hi) (Pos.le_refl _)
  exact this

/-- the loop of `popDescription` -/
theorem popDescLoop_spec (n : Nat) : ∀ (rest : List Token) (toks : List Token) (last : Token),
    rest.length ≤ n → WInv Q ⟨some last, rest⟩ → (∀ t ∈ toks, Token.ok Q t) →
    WStep Q ⟨some last, rest⟩ (popDescLoop toks last rest).2.2 ∧
      (∀ t ∈ (popDescLoop toks last rest).1, Token.ok Q t) ∧
      (popDescLoop toks last rest).2.2.prev = some (popDescLoop toks last rest).2.1 := by
  induction n with
  | zero =>
    intro rest toks last hn hw ht
    have : rest = [] := List.eq_nil_of_length_eq_zero (Nat.le_zero.mp hn)
    subst this
    unfold popDescLoop
    exact ⟨WStep.refl Q hw, ht, rfl⟩
  | succ n ih =>
    intro rest toks last hn hw ht
    match rest with
    | [] => unfold popDescLoop; exact ⟨WStep.refl Q hw, ht, rfl⟩
    | [x] => unfold popDescLoop; exact ⟨WStep.refl Q hw, ht, rfl⟩
    | e :: d :: rs =>
      unfold popDescLoop
      split
      · have hp1 := popToken_spec' Q ⟨some last, e :: d :: rs⟩ hw
        rw [popToken_cons] at hp1
        have hp2 := popToken_spec' Q ⟨some e, d :: rs⟩ hp1.1.inv
        rw [popToken_cons] at hp2
        have := ih rs (toks ++ [d]) d (by simp at hn ⊢; omega) hp2.1.inv (by
          intro t htm
          rcases List.mem_append.mp htm with h | h
          · exact ht t h
          · simp at h; subst h; exact hp2.2.1.tokOk)
        exact ⟨(hp1.1.trans Q hp2.1).trans Q this.1, this.2⟩
      · exact ⟨WStep.refl Q hw, ht, rfl⟩

theorem popDescription_spec (w : W) (hne : w.rest ≠ []) :
    WSpec Q popDescription w (fun d w' => Description.ok Q d ∧
      Within w.currentPos w'.currentPos d.span.start d.span.end_ ∧
      w'.rest.length < w.rest.length) := by
  unfold popDescription
  refine WSpec.bind Q (popToken_spec' Q w) ?_
  intro first w1 s1 hp
  intro hw1
  obtain ⟨hlt, hprev⟩ := hp.2.2.2 hne
  have hw1' : w1 = ⟨some first, w1.rest⟩ := by
    cases w1; simp at hprev ⊢; exact hprev
  have hl := popDescLoop_spec Q w1.rest.length w1.rest [first] first (Nat.le_refl _)
    (by rw [← hw1']; exact hw1) (by intro t ht; simp at ht; subst ht; exact hp.1.tokOk)
  simp only []
  generalize popDescLoop [first] first w1.rest = res at hl ⊢
  obtain ⟨toks, last, w2⟩ := res
  simp only at hl ⊢
  obtain ⟨st, htoks, hprev2⟩ := hl
  rw [← hw1'] at st
  have hcur2 : w2.currentPos = last.end_ := by simp [W.currentPos, hprev2]
  have hqe : Q last.end_ := by rw [← hcur2]; exact st.inv.qCur
  have hle : first.end_ ≤ last.end_ := by
    rw [← hcur2]; exact Pos.le_trans hp.2.1 st.mono
  refine ⟨st, ⟨htoks, ?_, hp.1.qs, hqe⟩, ⟨hp.1.lo, ?_, ?_⟩, ?_⟩
  · exact Pos.le_trans hp.1.span hle
  · exact Pos.le_trans hp.1.span hle
  · show last.end_ ≤ w2.currentPos
    rw [hcur2]; exact Pos.le_refl _
  · have := st.len; omega


/-- a value lying in `[lo, hi]` -/
def ValueIn (lo hi : Pos) (v : Value) : Prop :=
  Value.ok Q v ∧ Within lo hi v.span.start v.span.end_

theorem Value.ok_span {v : Value} (h : Value.ok Q v) : Span.ok Q v.span := by
  cases v with
  | scalar tok sp => unfold Value.ok at h; exact h.2
  | array vs sp => unfold Value.ok at h; exact h.2

theorem Value.okList_append (a b : List Value) (ha : Value.okList Q a) (hb : Value.okList Q b) :
    Value.okList Q (a ++ b) := by
  induction a with
  | nil => exact hb
  | cons v vs ih =>
    unfold Value.okList at ha
    show Value.okList Q (v :: (vs ++ b))
    unfold Value.okList
    exact ⟨ha.1, ih ha.2⟩

theorem WSpec.of_fun {α : Type} {m : WM α} {w : W} {post : α → W → Prop}
    (h : WInv Q w → WSpec Q m w post) : WSpec Q m w post := fun hw => h hw hw

theorem WSpec.getW_bind {β : Type} {f : W → WM β} {w : W} {R : β → W → Prop}
    (h : WSpec Q (f w) w R) : WSpec Q (J5V.Bcl.getW >>= f) w R := fun hw => h hw

theorem nextType_ne_eof_rest {w : W} (h : w.nextType ≠ .eof) : w.rest ≠ [] := by
  intro hr; apply h; simp [W.nextType, hr]

theorem popValue_spec_aux (fuel : Nat) :
    (∀ w : W, 2 * w.rest.length < fuel →
      WSpec Q (popValue fuel) w (fun v w' => ValueIn Q w.currentPos w'.currentPos v ∧
        w'.rest.length < w.rest.length)) ∧
    (∀ (w : W) (opener : Token) (acc : List Value), 2 * w.rest.length + 1 < fuel →
      Value.okList Q acc → Q opener.start → opener.start ≤ w.currentPos →
      WSpec Q (popValueElems fuel opener acc) w (fun v w' => Value.ok Q v ∧
        v.span.start = opener.start ∧ v.span.end_ ≤ w'.currentPos ∧
        w'.rest.length < w.rest.length)) := by
  induction fuel with
  | zero => exact ⟨fun w h => by omega, fun w o a h => by omega⟩
  | succ fuel ih =>
    obtain ⟨ihV, ihE⟩ := ih
    constructor
    · intro w hfuel
      unfold popValue
      intro hw
      simp only []
      by_cases h1 : w.nextType = .ident
      · simp only [h1, if_true]
        refine WSpec.bind Q (popReference_spec Q w (Or.inl h1)) ?_ hw
        intro ref w1 s1 hp
        apply WSpec.pure
        obtain ⟨hr1, hr2, hr3⟩ := hp
        exact ⟨⟨⟨hr1.2, hr1.2⟩, hr2⟩, hr3⟩
      · simp only [h1, if_false]
        by_cases h2 : w.nextType.isLiteral = true
        · simp only [h2, if_true]
          refine WSpec.bind Q (popToken_spec' Q w) ?_ hw
          intro tok w1 s1 hp
          apply WSpec.pure
          have hne : w.rest ≠ [] := nextType_ne_eof_rest (by
            intro he; rw [he] at h2; cases h2)
          exact ⟨⟨⟨hp.1.tokOk, hp.1.tokOk⟩, hp.within⟩, (hp.2.2.2 hne).1⟩
        · simp only [h2, if_false]
          by_cases h3 : w.nextType = .lbrack
          · simp only [h3, if_true]
            have hne : w.rest ≠ [] := nextType_ne_eof_rest (by rw [h3]; decide)
            refine WSpec.bind Q (popToken_spec' Q w) ?_ hw
            intro opener w1 s1 hp
            apply WSpec.getW_bind
            have hlt := (hp.2.2.2 hne).1
            by_cases h4 : w1.nextType = TokenType.rbrack
            · simp only [h4, if_true]
              refine WSpec.bind Q (popToken_spec' Q w1) ?_
              intro _ w2 s2 hp2
              apply WSpec.getW_bind
              apply WSpec.pure
              have hle : opener.start ≤ w2.currentPos :=
                Pos.le_trans hp.1.span (Pos.le_trans hp.2.1 s2.mono)
              refine ⟨⟨?_, hp.1.lo, hle, Pos.le_refl _⟩, ?_⟩
              · show Value.okList Q [] ∧ _
                exact ⟨trivial, hle, hp.1.qs, s2.inv.qCur⟩
              · have := s2.len; omega
            · simp only [h4, if_false]
              have := ihE w1 opener [] (by omega) trivial hp.1.qs
                (Pos.le_trans hp.1.span hp.2.1)
              refine WSpec.weaken Q this ?_
              intro v w' st hv
              obtain ⟨hv1, hv2, hv3, hv4⟩ := hv
              refine ⟨⟨hv1, ?_⟩, by omega⟩
              rw [show v.span.start = opener.start from hv2]
              refine ⟨hp.1.lo, ?_, hv3⟩
              rw [← hv2]; exact (Value.ok_span Q hv1).1
          · simp only [h3, if_false]
            exact failUnexpected_spec Q _ w _ hw
    · intro w opener acc hfuel hacc hqo hole
      unfold popValueElems
      refine WSpec.bind Q (ihV w (by omega)) ?_
      intro value w1 s1 hv
      obtain ⟨⟨hvok, hvin⟩, hvlt⟩ := hv
      have hacc' : Value.okList Q (acc ++ [value]) :=
        Value.okList_append Q acc [value] hacc (by unfold Value.okList; exact ⟨hvok, trivial⟩)
      simp only []
      apply WSpec.getW_bind
      by_cases h1 : w1.nextType = .comma
      · simp only [h1, if_true]
        have hne : w1.rest ≠ [] := nextType_ne_eof_rest (by rw [h1]; decide)
        refine WSpec.bind Q (popToken_spec' Q w1) ?_
        intro _ w2 s2 hp2
        have hlt2 := (hp2.2.2.2 hne).1
        have := ihE w2 opener (acc ++ [value]) (by omega) hacc' hqo
          (Pos.le_trans hole (Pos.le_trans s1.mono s2.mono))
        refine WSpec.weaken Q this ?_
        intro v w' st hv'
        exact ⟨hv'.1, hv'.2.1, hv'.2.2.1, by have := hv'.2.2.2; omega⟩
      · simp only [h1, if_false]
        by_cases h2 : w1.nextType = .rbrack
        · simp only [h2, if_true]
          refine WSpec.bind Q (popToken_spec' Q w1) ?_
          intro _ w2 s2 hp2
          apply WSpec.getW_bind
          apply WSpec.pure
          have hle : opener.start ≤ w2.currentPos :=
            Pos.le_trans hole (Pos.le_trans s1.mono s2.mono)
          refine ⟨?_, rfl, Pos.le_refl _, by have := s2.len; omega⟩
          show Value.okList Q (acc ++ [value]) ∧ _
          exact ⟨hacc', hle, hqo, s2.inv.qCur⟩
        · simp only [h2, if_false]
          exact failUnexpected_spec Q _ w1 _


theorem popValue_spec (fuel : Nat) (w : W) (h : 2 * w.rest.length < fuel) :
    WSpec Q (popValue fuel) w (fun v w' => ValueIn Q w.currentPos w'.currentPos v ∧
      w'.rest.length < w.rest.length) := (popValue_spec_aux Q fuel).1 w h

theorem zero_tok_ok (hQ0 : Q ⟨0, 0⟩) : Token.ok Q Token.zero := ⟨Pos.le_refl _, hQ0, hQ0⟩

/-- a tag lying in `[lo, hi]` -/
def TagIn (lo hi : Pos) (t : TagValue) : Prop :=
  TagValue.ok Q t ∧ Within lo hi t.span.start t.span.end_

theorem popTag_spec (hQ0 : Q ⟨0, 0⟩) (fuel : Nat) (w : W) (h : 2 * w.rest.length < fuel) :
    WSpec Q (popTag fuel) w (fun t w' => TagIn Q w.currentPos w'.currentPos t ∧
      w'.rest.length < w.rest.length) := by
  unfold popTag
  apply WSpec.getW_bind
  -- the optional mark
  have hmark : WSpec Q (match w.nextType with
      | .bang => do let tok ← popToken; pure (TagMark.bang, tok)
      | .question => do let tok ← popToken; pure (TagMark.question, tok)
      | _ => pure (TagMark.none, Token.zero) : WM (TagMark × Token)) w
      (fun p w' => Token.ok Q p.2) := by
    split
    · refine WSpec.bind Q (popToken_spec' Q w) ?_
      intro tok w1 s1 hp
      exact WSpec.pure Q hp.1.tokOk
    · refine WSpec.bind Q (popToken_spec' Q w) ?_
      intro tok w1 s1 hp
      exact WSpec.pure Q hp.1.tokOk
    · exact WSpec.pure Q (zero_tok_ok Q hQ0)
  refine WSpec.bind Q hmark ?_
  intro p w1 s1 hmt
  obtain ⟨mark, markToken⟩ := p
  simp only []
  apply WSpec.getW_bind
  have hf1 : 2 * w1.rest.length < fuel := by have := s1.len; omega
  split
  · rename_i hty
    refine WSpec.bind Q (popReference_spec Q w1 (Or.inl hty)) ?_
    intro ref w2 s2 hr
    apply WSpec.pure
    obtain ⟨hr1, hr2, hr3⟩ := hr
    refine ⟨⟨⟨hmt, ?_, ?_, hr1.2⟩, hr2.mono s1.mono (Pos.le_refl _)⟩, by have := s1.len; omega⟩
    · intro r hr; cases hr; exact hr1
    · intro v hv; cases hv
  · rename_i hty
    refine WSpec.bind Q (popReference_spec Q w1 (Or.inr hty)) ?_
    intro ref w2 s2 hr
    apply WSpec.pure
    obtain ⟨hr1, hr2, hr3⟩ := hr
    refine ⟨⟨⟨hmt, ?_, ?_, hr1.2⟩, hr2.mono s1.mono (Pos.le_refl _)⟩, by have := s1.len; omega⟩
    · intro r hr; cases hr; exact hr1
    · intro v hv; cases hv
  · refine WSpec.bind Q (popValue_spec Q fuel w1 hf1) ?_
    intro v w2 s2 hv
    apply WSpec.pure
    obtain ⟨⟨hv1, hv2⟩, hv3⟩ := hv
    refine ⟨⟨⟨hmt, ?_, ?_, Value.ok_span Q hv1⟩, hv2.mono s1.mono (Pos.le_refl _)⟩,
      by have := s1.len; omega⟩
    · intro r hr; cases hr
    · intro v' hv'; cases hv'; exact hv1
  · exact failUnexpected_spec Q _ w1 _

/-- the optional trailing comment of a statement, lying in `[lo, hi]` -/
def CommentIn (lo hi : Pos) (c : Option CommentNode) : Prop :=
  ∀ x, c = some x → CommentNode.ok Q x ∧ Within lo hi x.span.start x.span.end_

theorem endStatement_spec (w : W) :
    WSpec Q endStatement w (fun c w' => CommentIn Q w.currentPos w'.currentPos c) := by
  unfold endStatement
  refine WSpec.bind Q (popToken_spec' Q w) ?_
  intro tok w1 s1 hp
  split
  · refine WSpec.bind Q (popToken_spec' Q w1) ?_
    intro tok2 w2 s2 hp2
    split
    · apply WSpec.pure
      intro x hx
      cases hx
      exact ⟨hp.1.tokOk, hp.within.mono (Pos.le_refl _) s2.mono⟩
    · exact WSpec.fail Q hp2.1.tokOk
  · split
    · apply WSpec.pure
      intro x hx; cases hx
    · exact WSpec.fail Q hp.1.tokOk

theorem walkValueAssign_spec (fuel : Nat) (ref : Reference) (app : Bool) (w : W)
    (hf : 2 * w.rest.length < fuel) (href : Reference.ok Q ref) (hle : ref.span.end_ ≤ w.currentPos) :
    WSpec Q (walkValueAssign fuel ref app) w (fun a w' => Assignment.ok Q a ∧
      a.src.start = ref.span.start ∧ a.src.end_ ≤ w'.currentPos) := by
  unfold walkValueAssign
  refine WSpec.bind Q (popType_spec Q _ w) ?_
  intro _ w1 s1 _
  refine WSpec.bind Q (popValue_spec Q fuel w1 (by have := s1.len; omega)) ?_
  intro value w2 s2 hv
  obtain ⟨⟨hv1, hv2⟩, _⟩ := hv
  refine WSpec.bind Q (endStatement_spec Q w2) ?_
  intro comment w3 s3 hc
  apply WSpec.pure
  have hsp := Value.ok_span Q hv1
  refine ⟨⟨href, hv1, ⟨?_, href.2.2.1, hsp.2.2⟩, ?_⟩, rfl, Pos.le_trans hv2.2.2 s3.mono⟩
  · exact Pos.le_trans href.2.1 (Pos.le_trans hle (Pos.le_trans s1.mono (Pos.le_trans hv2.1 hv2.2.1)))
  · intro c hcc; exact (hc c hcc).1

theorem tagsLoop_spec (hQ0 : Q ⟨0, 0⟩) (pfuel : Nat) (fuel : Nat) :
    ∀ (w : W) (acc : List TagValue), w.rest.length < fuel → 2 * w.rest.length < pfuel →
      (∀ t ∈ acc, TagValue.ok Q t) →
      WSpec Q (tagsLoop pfuel fuel acc) w (fun ts _ => ∀ t ∈ ts, TagValue.ok Q t) := by
  induction fuel with
  | zero => intro w acc h; omega
  | succ fuel ih =>
    intro w acc h1 h2 hacc
    unfold tagsLoop
    apply WSpec.getW_bind
    split
    · refine WSpec.bind Q (popTag_spec Q hQ0 pfuel w h2) ?_
      intro tag w1 s1 ht
      refine ih w1 (acc ++ [tag]) (by have := ht.2; omega) (by have := ht.2; omega) ?_
      intro t hm
      rcases List.mem_append.mp hm with h | h
      · exact hacc t h
      · simp at h; subst h; exact ht.1.1
    · exact WSpec.pure Q hacc

theorem qualsLoop_spec (hQ0 : Q ⟨0, 0⟩) (pfuel : Nat) (fuel : Nat) :
    ∀ (w : W) (acc : List TagValue), w.rest.length < fuel → 2 * w.rest.length < pfuel →
      (∀ t ∈ acc, TagValue.ok Q t) →
      WSpec Q (qualsLoop pfuel fuel acc) w (fun ts _ => ∀ t ∈ ts, TagValue.ok Q t) := by
  induction fuel with
  | zero => intro w acc h; omega
  | succ fuel ih =>
    intro w acc h1 h2 hacc
    unfold qualsLoop
    apply WSpec.getW_bind
    split
    · rename_i hcolon
      have hne : w.rest ≠ [] := nextType_ne_eof_rest (by rw [hcolon]; decide)
      refine WSpec.bind Q (popToken_spec' Q w) ?_
      intro _ w1 s1 hp
      have hlt := (hp.2.2.2 hne).1
      refine WSpec.bind Q (popTag_spec Q hQ0 pfuel w1 (by omega)) ?_
      intro tag w2 s2 ht
      refine ih w2 (acc ++ [tag]) (by have := ht.2; omega) (by have := ht.2; omega) ?_
      intro t hm
      rcases List.mem_append.mp hm with h | h
      · exact hacc t h
      · simp at h; subst h; exact ht.1.1
    · exact WSpec.pure Q hacc


/-- a fragment lying in `[lo, hi]` -/
def FragIn (lo hi : Pos) (f : Fragment) : Prop :=
  Fragment.ok Q f ∧ Within lo hi f.src.start f.src.end_

theorem walkStatement_spec (hQ0 : Q ⟨0, 0⟩) (fuel : Nat) (w : W)
    (hnext : w.nextType = .ident ∨ w.nextType = .bool)
    (hf1 : w.rest.length < fuel) (hf2 : 2 * w.rest.length < fuel) :
    WSpec Q (walkStatement fuel) w (fun f w' => FragIn Q w.currentPos w'.currentPos f ∧
      w'.rest.length < w.rest.length) := by
  unfold walkStatement
  refine WSpec.bind Q (popReference_spec Q w hnext) ?_
  intro ref w1 s1 hr
  obtain ⟨hr1, hr2, hr3⟩ := hr
  simp only []
  apply WSpec.getW_bind
  split
  · -- assignment
    refine WSpec.bind Q (walkValueAssign_spec Q fuel ref false w1 (by omega) hr1 hr2.2.2) ?_
    intro a w2 s2 ha
    apply WSpec.pure
    obtain ⟨ha1, ha2, ha3⟩ := ha
    refine ⟨⟨ha1, ?_⟩, by have := s2.len; omega⟩
    show Within _ _ a.src.start a.src.end_
    rw [ha2]
    exact ⟨hr2.1, by rw [← ha2]; exact ha1.2.2.1.1, ha3⟩
  · split
    · -- +=
      rename_i hplus
      have hne : w1.rest ≠ [] := nextType_ne_eof_rest (by rw [hplus]; decide)
      refine WSpec.bind Q (popToken_spec' Q w1) ?_
      intro _ w2 s2 hp
      apply WSpec.getW_bind
      split
      · exact failUnexpected_spec Q _ w2 _
      · refine WSpec.bind Q (walkValueAssign_spec Q fuel ref true w2
          (by have := s2.len; omega) hr1 (Pos.le_trans hr2.2.2 s2.mono)) ?_
        intro a w3 s3 ha
        apply WSpec.pure
        obtain ⟨ha1, ha2, ha3⟩ := ha
        refine ⟨⟨ha1, ?_⟩, by have := s2.len; have := s3.len; omega⟩
        show Within _ _ a.src.start a.src.end_
        rw [ha2]
        exact ⟨hr2.1, by rw [← ha2]; exact ha1.2.2.1.1, ha3⟩
    · -- block header
      refine WSpec.bind Q (tagsLoop_spec Q hQ0 fuel fuel w1 [] (by omega) (by omega)
        (fun t h => by cases h)) ?_
      intro tags w2 s2 htags
      refine WSpec.bind Q (qualsLoop_spec Q hQ0 fuel fuel w2 [] (by have := s2.len; omega)
        (by have := s2.len; omega) (fun t h => by cases h)) ?_
      intro quals w3 s3 hquals
      apply WSpec.getW_bind
      have hstart : ref.span.start ≤ w3.currentPos :=
        Pos.le_trans hr1.2.1 (Pos.le_trans hr2.2.2 (Pos.le_trans s2.mono s3.mono))
      have hlen3 : w3.rest.length < w.rest.length := by
        have := s2.len; have := s3.len; omega
      split
      · -- `{`
        refine WSpec.bind Q (popToken_spec' Q w3) ?_
        intro _ w4 s4 hp
        apply WSpec.getW_bind
        refine WSpec.bind Q (endStatement_spec Q w4) ?_
        intro comment w5 s5 hc
        apply WSpec.pure
        have hle : ref.span.start ≤ w4.currentPos := Pos.le_trans hstart s4.mono
        refine ⟨⟨⟨hr1, htags, hquals, (fun d hd => by cases hd),
          ⟨hle, hr1.2.2.1, s4.inv.qCur⟩, fun c hcc => (hc c hcc).1⟩, ?_⟩,
          by have := s4.len; have := s5.len; omega⟩
        exact ⟨hr2.1, hle, s5.mono⟩
      · -- `| description`
        refine WSpec.bind Q (popToken_spec' Q w3) ?_
        intro tok w4 s4 hp
        apply WSpec.getW_bind
        apply WSpec.pure
        have hle : ref.span.start ≤ w4.currentPos := Pos.le_trans hstart s4.mono
        refine ⟨⟨⟨hr1, htags, hquals, ?_, ⟨hle, hr1.2.2.1, s4.inv.qCur⟩, fun c hcc => by cases hcc⟩,
          ?_⟩, by have := s4.len; omega⟩
        · intro d hd
          cases hd
          refine ⟨?_, hp.1.tokOk⟩
          intro t ht
          simp at ht; subst ht; exact hp.1.tokOk
        · exact ⟨hr2.1, hle, Pos.le_refl _⟩
      · -- trailing comment
        refine WSpec.bind Q (endStatement_spec Q w3) ?_
        intro comment w4 s4 hc
        apply WSpec.pure
        refine ⟨⟨⟨hr1, htags, hquals, (fun d hd => by cases hd),
          ⟨hstart, hr1.2.2.1, s3.inv.qCur⟩, fun c hcc => (hc c hcc).1⟩, ?_⟩,
          by have := s4.len; omega⟩
        exact ⟨hr2.1, hstart, s4.mono⟩
      · -- end of line
        apply WSpec.pure
        refine ⟨⟨⟨hr1, htags, hquals, (fun d hd => by cases hd),
          ⟨hstart, hr1.2.2.1, s3.inv.qCur⟩, fun c hcc => by cases hcc⟩, ?_⟩, hlen3⟩
        exact ⟨hr2.1, hstart, Pos.le_refl _⟩
      · apply WSpec.pure
        refine ⟨⟨⟨hr1, htags, hquals, (fun d hd => by cases hd),
          ⟨hstart, hr1.2.2.1, s3.inv.qCur⟩, fun c hcc => by cases hcc⟩, ?_⟩, hlen3⟩
        exact ⟨hr2.1, hstart, Pos.le_refl _⟩
      · exact failUnexpected_spec Q _ w3 _


theorem nextFragment_spec (hQ0 : Q ⟨0, 0⟩) (fuel : Nat) (w : W) (hne : w.nextType ≠ .eof)
    (hf1 : w.rest.length < fuel) (hf2 : 2 * w.rest.length < fuel) :
    WSpec Q (nextFragment fuel) w (fun r w' =>
      (∀ f, r = some f → FragIn Q w.currentPos w'.currentPos f) ∧
      w'.rest.length < w.rest.length) := by
  have hrest : w.rest ≠ [] := nextType_ne_eof_rest hne
  unfold nextFragment
  apply WSpec.getW_bind
  split
  · rename_i h; exact absurd h hne
  · refine WSpec.bind Q (popToken_spec' Q w) ?_
    intro _ w1 s1 hp
    apply WSpec.pure
    exact ⟨fun f hf => (by cases hf), (hp.2.2.2 hrest).1⟩
  · refine WSpec.bind Q (popToken_spec' Q w) ?_
    intro tok w1 s1 hp
    apply WSpec.pure
    refine ⟨?_, (hp.2.2.2 hrest).1⟩
    intro f hf
    cases hf
    exact ⟨⟨hp.1.tokOk, hp.1.tokOk⟩, hp.within⟩
  · refine WSpec.bind Q (popToken_spec' Q w) ?_
    intro tok w1 s1 hp
    apply WSpec.pure
    refine ⟨?_, (hp.2.2.2 hrest).1⟩
    intro f hf
    cases hf
    exact ⟨⟨hp.1.tokOk, hp.1.tokOk⟩, hp.within⟩
  · refine WSpec.bind Q (popToken_spec' Q w) ?_
    intro tok w1 s1 hp
    apply WSpec.pure
    refine ⟨?_, (hp.2.2.2 hrest).1⟩
    intro f hf
    cases hf
    exact ⟨⟨hp.1.tokOk, hp.1.tokOk⟩, hp.within⟩
  · refine WSpec.bind Q (popDescription_spec Q w hrest) ?_
    intro d w1 s1 hd
    apply WSpec.pure
    refine ⟨?_, hd.2.2⟩
    intro f hf
    cases hf
    exact ⟨hd.1, hd.2.1⟩
  · rename_i hty
    refine WSpec.bind Q (walkStatement_spec Q hQ0 fuel w (Or.inl hty) hf1 hf2) ?_
    intro f w1 s1 hfr
    apply WSpec.pure
    refine ⟨?_, hfr.2⟩
    intro f' hf'
    cases hf'
    exact hfr.1
  · rename_i hty
    refine WSpec.bind Q (walkStatement_spec Q hQ0 fuel w (Or.inr hty) hf1 hf2) ?_
    intro f w1 s1 hfr
    apply WSpec.pure
    refine ⟨?_, hfr.2⟩
    intro f' hf'
    cases hf'
    exact hfr.1
  · exact failUnexpected_spec Q _ w _

/-- the skip loop of `recoverError` -/
theorem skipToEOL_spec : ∀ (rest : List Token) (prev : Option Token), WInv Q ⟨prev, rest⟩ →
    WRSpec Q (skipToEOL prev rest) ⟨prev, rest⟩ (fun _ w' =>
      (rest ≠ [] → w'.rest.length < rest.length) ∧ (rest = [] → w'.rest = [])) := by
  intro rest
  induction rest with
  | nil =>
    intro prev hw
    unfold skipToEOL
    have hp := popToken_spec' Q ⟨prev, []⟩ hw
    cases hpt : popToken ⟨prev, []⟩ with
    | ok tok w1 =>
      rw [hpt] at hp
      simp only []
      refine ⟨hp.1, fun h => absurd rfl h, fun _ => ?_⟩
      have := hp.1.len
      simp at this
      exact this
    | fail e w1 => rw [hpt] at hp; simp only []; exact hp
    | panic s => rw [hpt] at hp; exact hp
  | cons t rs ih =>
    intro prev hw
    have hp := popToken_spec' Q ⟨prev, t :: rs⟩ hw
    rw [popToken_cons] at hp
    unfold skipToEOL
    split
    · exact ⟨hp.1, fun _ => by simp, fun h => by cases h⟩
    · have := ih (some t) hp.1.inv
      unfold WRSpec at this ⊢
      split at this
      · refine ⟨hp.1.trans Q this.1, fun _ => ?_, fun h => by cases h⟩
        have h1 := this.1.len
        simp at h1 ⊢; omega
      · exact ⟨hp.1.trans Q this.1, this.2⟩
      · exact this

theorem skipToEOL_no_fail : ∀ (rest : List Token) (prev : Option Token) (e : UnexpErr) (w : W),
    skipToEOL prev rest ≠ .fail e w := by
  intro rest
  induction rest with
  | nil =>
    intro prev e w
    unfold skipToEOL popToken
    cases prev with
    | none => simp
    | some l =>
      simp only []
      by_cases h : l.ty = TokenType.eof <;> simp [h]
  | cons t rs ih =>
    intro prev e w
    unfold skipToEOL
    split
    · simp
    · exact ih _ _ _

/-- fragments in source order, each well placed, starting at or after `lo` -/
def FragChain : Pos → List Fragment → Prop
  | _, [] => True
  | lo, f :: fs => lo ≤ f.src.start ∧ f.src.start ≤ f.src.end_ ∧ Fragment.ok Q f ∧
      FragChain f.src.end_ fs

theorem FragChain.mono {lo lo' : Pos} {fs : List Fragment} (h : FragChain Q lo fs) (hl : lo' ≤ lo) :
    FragChain Q lo' fs := by
  cases fs with
  | nil => trivial
  | cons f fs => exact ⟨Pos.le_trans hl h.1, h.2⟩

theorem UnexpErr.diag_ok {e : UnexpErr} (h : Token.ok Q e.tok) : Diag.ok Q e.diag := h

/-- `walkFragments`: no panic, enough fuel, fragments in order, diagnostics well placed -/
theorem walkFragmentsLoop_spec (hQ0 : Q ⟨0, 0⟩) (ff : Bool) (pfuel : Nat) (fuel : Nat) :
    ∀ (w : W) (frags : List Fragment) (errs : List Diag), (w.rest = [] ∨ WInv Q w) →
      w.rest.length < fuel → w.rest.length < pfuel → 2 * w.rest.length < pfuel →
      match walkFragmentsLoop ff pfuel fuel w frags errs with
      | .done frags' errs' =>
        (∃ new, frags' = frags ++ new ∧ FragChain Q w.currentPos new) ∧
        (∃ newe, errs' = errs ++ newe ∧ (∀ d ∈ newe, Diag.ok Q d) ∧ (ff = true → newe = []))
      | .hadErrors errs' => ff = true ∧ ∃ d, errs' = errs ++ [d] ∧ Diag.ok Q d
      | .panic _ => False := by
  induction fuel with
  | zero => intro w frags errs _ h; omega
  | succ fuel ih =>
    intro w frags errs hw hf1 hf2 hf3
    unfold walkFragmentsLoop
    by_cases heof : w.nextType = .eof
    · simp only [heof, if_true]
      exact ⟨⟨[], by simp, trivial⟩, ⟨[], by simp, fun d h => (by cases h), fun _ => rfl⟩⟩
    · simp only [heof, if_false]
      have hrest : w.rest ≠ [] := nextType_ne_eof_rest heof
      have hinv : WInv Q w := by
        rcases hw with h | h
        · exact absurd h hrest
        · exact h
      have hnf := nextFragment_spec Q hQ0 pfuel w heof hf2 hf3 hinv
      cases hres : nextFragment pfuel w with
      | panic s => rw [hres] at hnf; exact hnf
      | ok r w1 =>
        rw [hres] at hnf
        obtain ⟨s1, hfr, hlt⟩ := hnf
        cases r with
        | none =>
          simp only []
          have := ih w1 frags errs (Or.inr s1.inv) (by omega) (by omega) (by omega)
          generalize walkFragmentsLoop ff pfuel fuel w1 frags errs = res at this ⊢
          cases res with
          | done f' e' =>
            obtain ⟨⟨new, h1, h2⟩, h3⟩ := this
            exact ⟨⟨new, h1, h2.mono Q s1.mono⟩, h3⟩
          | hadErrors e' => exact this
          | panic s => exact this
        | some f =>
          simp only []
          have hfin := hfr f rfl
          have := ih w1 (frags ++ [f]) errs (Or.inr s1.inv) (by omega) (by omega) (by omega)
          generalize walkFragmentsLoop ff pfuel fuel w1 (frags ++ [f]) errs = res at this ⊢
          cases res with
          | done f' e' =>
            obtain ⟨⟨new, h1, h2⟩, h3⟩ := this
            refine ⟨⟨f :: new, by simp [h1], ?_⟩, h3⟩
            exact ⟨hfin.2.1, hfin.2.2.1, hfin.1, h2.mono Q hfin.2.2.2⟩
          | hadErrors e' => exact this
          | panic s => exact this
      | fail e w1 =>
        rw [hres] at hnf
        obtain ⟨s1, hetok⟩ := hnf
        simp only []
        cases ff with
        | true =>
          simp only [if_true]
          exact ⟨by simp, e.diag, rfl, hetok⟩
        | false =>
          simp only [Bool.false_eq_true, if_false]
          have hsk := skipToEOL_spec Q w1.rest w1.prev s1.inv
          cases hskr : skipToEOL w1.prev w1.rest with
          | panic s => rw [hskr] at hsk; exact hsk
          | fail e2 w2 =>
            exact absurd hskr (skipToEOL_no_fail _ _ _ _)
          | ok u w2 =>
            rw [hskr] at hsk
            obtain ⟨s2, hsk1, hsk2⟩ := hsk
            simp only []
            have hlen2 : w2.rest.length < fuel := by
              by_cases h1 : w1.rest = []
              · rw [hsk2 h1]
                have : w.rest.length ≠ 0 := fun e => hrest (List.eq_nil_of_length_eq_zero e)
                simp; omega
              · have := hsk1 h1; have := s1.len; omega
            have hs2len : w2.rest.length ≤ w1.rest.length := s2.len
            have hlen2' : w2.rest.length ≤ w.rest.length := by
              have := s1.len; omega
            have := ih w2 frags (errs ++ [e.diag]) (Or.inr s2.inv) hlen2 (by omega) (by omega)
            generalize walkFragmentsLoop false pfuel fuel w2 frags (errs ++ [e.diag]) = res at this ⊢
            cases res with
            | done f' e' =>
              obtain ⟨⟨new, h1, h2⟩, ⟨newe, h3, h4, h5⟩⟩ := this
              refine ⟨⟨new, h1, h2.mono Q (Pos.le_trans s1.mono s2.mono)⟩,
                ⟨e.diag :: newe, by simp [h3], ?_, fun h => by cases h⟩⟩
              intro d hd
              rcases List.mem_cons.mp hd with h | h
              · subst h; exact hetok
              · exact h4 d h
            | hadErrors e' => exact absurd this.1 (by simp)
            | panic s => exact this

end J5V.Bcl
