import J5V.Bcl.ParseFileProofs
import J5V.Bcl.ApplyProofs
/-!
# After the last fragment only white space is left (lemmas for the full `C19_apply_eq_fmt`)

Line-level reasoning about the walker: every fragment ends on the line of the last token consumed
for it (its trailing comment and EOL are on the statement's last line).
-/
namespace J5V.Bcl

/-- line facts of the tokens the walker still has to read -/
def WLine (w : W) : Prop := LineAdj w.prev w.rest ∧ SingleLine w.rest

/-- the token read last is not an EOL -/
def PrevOk (w : W) : Prop := ∃ t, w.prev = some t ∧ t.ty ≠ .eol

theorem LineAdj_drop (d r : List Token) (p : Option Token) (h : LineAdj p (d ++ r)) :
    LineAdj (d.getLast?.or p) r := by
  induction d generalizing p with
  | nil => simpa using h
  | cons t ts ih =>
    have := ih (some t) h.2
    cases ts with
    | nil => simpa using h.2
    | cons b l =>
      have hne : (b :: l).getLast? = some ((b :: l).getLast (by simp)) :=
        List.getLast?_eq_some_getLast (by simp)
      have hne2 : (t :: b :: l).getLast? = some ((b :: l).getLast (by simp)) := by
        rw [List.getLast?_cons_cons, hne]
      rw [hne] at this
      rw [hne2]
      simpa using this

theorem WLine_step (Q : Pos → Prop) {w w' : W} (hl : WLine w) (hs : WStep Q w w') : WLine w' := by
  obtain ⟨d, e, _, g⟩ := hs.drop
  obtain ⟨h1, h2⟩ := hl
  rw [e] at h1 h2
  exact ⟨by rw [g]; exact LineAdj_drop d _ _ h1, fun t ht => h2 t (by simp [ht])⟩

theorem currentPos_of_prev {w : W} {t : Token} (h : w.prev = some t) : w.currentPos = t.end_ := by
  simp [W.currentPos, h]

variable (Q : Pos → Prop)

/-- `popToken` with its exact effect on the state -/
theorem popToken_specX (w : W) :
    WSpec Q popToken w (fun t w' => Popped Q w t w' ∧
      (∀ u rs, w.rest = u :: rs → t = u ∧ w' = ⟨some u, rs⟩) ∧
      (w.rest = [] → w' = w ∧ t.ty = .eof)) := by
  intro hw
  have h := popToken_spec' Q w hw
  unfold popToken at h ⊢
  cases hr : w.rest with
  | cons t rs =>
    rw [hr] at h
    simp only [] at h ⊢
    exact ⟨h.1, h.2, (fun u rs' e => by cases e; exact ⟨rfl, rfl⟩), (fun e => by cases e)⟩
  | nil =>
    rw [hr] at h
    simp only [] at h ⊢
    cases hp : w.prev with
    | none => rw [hp] at h; exact h
    | some l =>
      rw [hp] at h
      simp only [] at h ⊢
      by_cases he : l.ty = .eof
      · simp only [he, if_true] at h ⊢
        exact ⟨h.1, h.2, (fun u rs e => by cases e), fun _ => ⟨trivial, trivial⟩⟩
      · simp only [he, if_false] at h ⊢
        exact ⟨h.1, h.2, (fun u rs e => by cases e), fun _ => ⟨trivial, trivial⟩⟩

/-- `endStatement` stays on the line of the statement -/
theorem endStatement_line (w : W) (hl : WLine w) (hp : PrevOk w) :
    WSpec Q endStatement w (fun _ w' => w'.currentPos.line = w.currentPos.line) := by
  obtain ⟨p, hp1, hp2⟩ := hp
  have hcur := currentPos_of_prev hp1
  intro hw
  -- the first token read is on the statement's line and (comment / EOL) single-line
  have hfirst : ∀ t rs, w.rest = t :: rs → (t.ty = .comment ∨ t.ty = .eol) →
      t.end_.line = w.currentPos.line := by
    intro t rs hr hty
    have h1 := hl.1
    rw [hr] at h1
    rw [hl.2 t (by rw [hr]; simp) hty, h1.1 p hp1 hp2, hcur]
  revert hw
  unfold endStatement
  refine WSpec.bind Q (popToken_specX Q w) ?_
  intro tok w1 s1 hx
  obtain ⟨hpop, hcons, hnil⟩ := hx
  have hl1 : WLine w1 := WLine_step Q hl s1
  -- where the walker stands after the first token
  have hw1 : (tok.ty = .comment ∨ tok.ty = .eol ∨ tok.ty = .eof) →
      w1.currentPos.line = w.currentPos.line := by
    intro hty
    cases hr : w.rest with
    | nil => rw [(hnil hr).1]
    | cons t rs =>
      obtain ⟨e1, e2⟩ := hcons t rs hr
      subst e1
      rw [e2]
      show tok.end_.line = _
      rcases hty with h | h | h
      · exact hfirst tok rs hr (Or.inl h)
      · exact hfirst tok rs hr (Or.inr h)
      · exact absurd h (s1.inv.prevNoEof tok (by rw [e2]))
  split
  · rename_i hc
    refine WSpec.bind Q (popToken_specX Q w1) ?_
    intro tok2 w2 s2 hx2
    obtain ⟨hpop2, hcons2, hnil2⟩ := hx2
    split
    · rename_i hty2
      apply WSpec.pure
      rw [← hw1 (Or.inl hc)]
      cases hr1 : w1.rest with
      | nil => rw [(hnil2 hr1).1]
      | cons u us =>
        obtain ⟨e1, e2⟩ := hcons2 u us hr1
        subst e1
        rw [e2]
        show tok2.end_.line = _
        -- w1.prev = tok (a comment), so tok2 starts on its line
        have hprev1 : w1.prev = some tok := by
          cases hr : w.rest with
          | nil =>
            -- the comment was read from a non-empty list
            exfalso
            have := (hnil hr).2
            rw [hc] at this; cases this
          | cons t rs => rw [(hcons t rs hr).2, (hcons t rs hr).1]
        have h1 := hl1.1
        rw [hr1, hprev1] at h1
        have hst : tok2.start.line = tok.end_.line := h1.1 tok rfl (by rw [hc]; decide)
        rcases hty2 with h | h
        · rw [hl1.2 tok2 (by rw [hr1]; simp) (Or.inr h), hst, currentPos_of_prev hprev1]
        · exact absurd h (s2.inv.prevNoEof tok2 (by rw [e2]))
    · exact WSpec.fail Q hpop2.1.tokOk
  · split
    · rename_i hc hty
      apply WSpec.pure
      exact hw1 (Or.inr hty)
    · exact WSpec.fail Q hpop.1.tokOk


theorem WSpec.and {α : Type} {m : WM α} {w : W} {P P' : α → W → Prop} (h1 : WSpec Q m w P)
    (h2 : WSpec Q m w P') : WSpec Q m w (fun a w' => P a w' ∧ P' a w') := by
  intro hw
  have a := h1 hw
  have b := h2 hw
  cases hm : m w with
  | ok x w1 => rw [hm] at a b; exact ⟨a.1, a.2, b.2⟩
  | fail e w1 => rw [hm] at a; exact a
  | panic s => rw [hm] at a; exact a

/-- after `popToken` on a non-empty list whose head is not an EOL the previous token is not an EOL -/
theorem prevOk_of_pop {w w' : W} {t : Token}
    (hcons : ∀ u rs, w.rest = u :: rs → t = u ∧ w' = ⟨some u, rs⟩) (hty : t.ty ≠ .eol)
    (hne : w.rest ≠ []) : PrevOk w' ∧ w'.currentPos = t.end_ := by
  cases hr : w.rest with
  | nil => exact absurd hr hne
  | cons u rs =>
    obtain ⟨e1, e2⟩ := hcons u rs hr
    subst e1
    rw [e2]
    exact ⟨⟨t, rfl, hty⟩, rfl⟩

theorem newReference_end (acc : List Ident) (j : Ident) (r : Reference)
    (h : newReference (acc ++ [j]) = some r) : r.span.end_ = j.span.end_ := by
  unfold newReference at h
  have hl : (acc ++ [j]).getLast? = some j := by simp
  rw [hl] at h
  cases hh : (acc ++ [j]).head? with
  | none => rw [hh] at h; cases h
  | some f => rw [hh] at h; cases h; rfl

/-- a successful `popReference` ends on an identifier token, which is where the reference ends -/
theorem popReferenceLoop_end (n : Nat) : ∀ (rest : List Token) (acc : List Ident) (prev : Option Token),
    rest.length ≤ n → ∀ r w', popReferenceLoop acc prev rest = .ok r w' →
    ∃ t, w'.prev = some t ∧ (t.ty = .ident ∨ t.ty = .bool) ∧ r.span.end_ = t.end_ := by
  induction n with
  | zero =>
    intro rest acc prev hn r w' h
    have : rest = [] := List.eq_nil_of_length_eq_zero (Nat.le_zero.mp hn)
    subst this
    unfold popReferenceLoop at h
    split at h
    · split at h <;> cases h
    · cases h
    · cases h
  | succ n ih =>
    intro rest acc prev hn r w' h
    cases rest with
    | nil =>
      unfold popReferenceLoop at h
      split at h
      · split at h <;> cases h
      · cases h
      · cases h
    | cons t rs =>
      unfold popReferenceLoop at h
      cases hai : t.asIdent with
      | none =>
        rw [hai] at h
        simp only [] at h
        split at h <;> cases h
      | some it =>
        rw [hai] at h
        simp only [] at h
        obtain ⟨e1, e2, _, hty⟩ := asIdent_some hai
        have hfin : ∀ (rest' : List Token),
            (match newReference (acc ++ [(⟨it, it.lit, ⟨it.start, it.end_⟩⟩ : Ident)]) with
              | none => (WR.panic "index out of range [0]" : WR Reference)
              | some r => .ok r ⟨some t, rest'⟩) = .ok r w' →
            ∃ t', w'.prev = some t' ∧ (t'.ty = .ident ∨ t'.ty = .bool) ∧ r.span.end_ = t'.end_ := by
          intro rest' hh
          cases hnr : newReference (acc ++ [(⟨it, it.lit, ⟨it.start, it.end_⟩⟩ : Ident)]) with
          | none => rw [hnr] at hh; cases hh
          | some r0 =>
            rw [hnr] at hh
            cases hh
            exact ⟨t, rfl, hty, by rw [newReference_end _ _ _ hnr]; exact e2⟩
        cases rs with
        | nil => exact hfin [] h
        | cons d rs2 =>
          simp only [] at h
          split at h
          · exact ih rs2 _ (some d) (by simp at hn ⊢; omega) r w' h
          · exact hfin (d :: rs2) h

theorem WSpec.of_ok {α : Type} {m : WM α} {w : W} {P R : α → W → Prop} (h : WSpec Q m w P)
    (h2 : ∀ a w', m w = .ok a w' → P a w' → R a w') : WSpec Q m w R := by
  intro hw
  have a := h hw
  cases hm : m w with
  | ok x w1 => rw [hm] at a; exact ⟨a.1, h2 x w1 hm a.2⟩
  | fail e w1 => rw [hm] at a; exact a
  | panic s => rw [hm] at a; exact a

theorem popReference_end (w : W) (hnext : w.nextType = .ident ∨ w.nextType = .bool) :
    WSpec Q popReference w (fun r w' => PrevOk w' ∧ r.span.end_ = w'.currentPos) := by
  refine WSpec.of_ok Q (popReference_spec Q w hnext) ?_
  intro r w' hm _
  obtain ⟨t, h1, h2, h3⟩ :=
    popReferenceLoop_end w.rest.length w.rest [] w.prev (Nat.le_refl _) r w' hm
  refine ⟨⟨t, h1, ?_⟩, by rw [h3, currentPos_of_prev h1]⟩
  rcases h2 with e | e <;> rw [e] <;> decide


/-- `popToken` of a token that is not an EOL from a non-empty list -/
theorem popToken_prevOk (w : W) (hne : w.nextType ≠ .eof) (hty : w.nextType ≠ .eol) :
    WSpec Q popToken w (fun t w' => Popped Q w t w' ∧ PrevOk w' ∧ w'.currentPos = t.end_) := by
  refine WSpec.weaken Q (popToken_specX Q w) ?_
  intro t w' _ h
  obtain ⟨hp, hc, _⟩ := h
  exact ⟨hp, prevOk_of_pop hc (by rw [hp.2.2.1]; exact hty) (nextType_ne_eof_rest hne)⟩

theorem popValue_end_aux (fuel : Nat) :
    (∀ w : W, 2 * w.rest.length < fuel →
      WSpec Q (popValue fuel) w (fun v w' => PrevOk w' ∧ v.span.end_ = w'.currentPos)) ∧
    (∀ (w : W) (opener : Token) (acc : List Value), 2 * w.rest.length + 1 < fuel →
      WSpec Q (popValueElems fuel opener acc) w (fun v w' => PrevOk w' ∧
        v.span.end_ = w'.currentPos)) := by
  induction fuel with
  | zero => exact ⟨fun w h => by omega, fun w o a h => by omega⟩
  | succ fuel ih =>
    obtain ⟨ihV, ihE⟩ := ih
    constructor
    · intro w hfuel
      unfold popValue
      intro hw
      simp only []
      by_cases h1 : w.nextType = .ident
      · simp only [h1, if_true]
        refine WSpec.bind Q (popReference_end Q w (Or.inl h1)) ?_ hw
        intro ref w1 s1 hp
        exact WSpec.pure Q hp
      · simp only [h1, if_false]
        by_cases h2 : w.nextType.isLiteral = true
        · simp only [h2, if_true]
          have hne : w.nextType ≠ .eof := by intro he; rw [he] at h2; cases h2
          have hnl : w.nextType ≠ .eol := by intro he; rw [he] at h2; cases h2
          refine WSpec.bind Q (popToken_prevOk Q w hne hnl) ?_ hw
          intro tok w1 s1 hp
          exact WSpec.pure Q ⟨hp.2.1, hp.2.2.symm⟩
        · simp only [h2]
          by_cases h3 : w.nextType = .lbrack
          · simp only [h3, if_true]
            have hne : w.rest ≠ [] := nextType_ne_eof_rest (by rw [h3]; decide)
            refine WSpec.bind Q (popToken_spec' Q w) ?_ hw
            intro opener w1 s1 hp
            apply WSpec.getW_bind
            have hlt := (hp.2.2.2 hne).1
            by_cases h4 : w1.nextType = TokenType.rbrack
            · simp only [h4, if_true]
              refine WSpec.bind Q (popToken_prevOk Q w1 (by rw [h4]; decide) (by rw [h4]; decide)) ?_
              intro _ w2 s2 hp2
              apply WSpec.getW_bind
              exact WSpec.pure Q ⟨hp2.2.1, rfl⟩
            · simp only [h4, if_false]
              exact ihE w1 opener [] (by omega)
          · simp only [h3, if_false]
            exact failUnexpected_spec Q _ w _ hw
    · intro w opener acc hfuel
      unfold popValueElems
      refine WSpec.bind Q (popValue_spec Q fuel w (by omega)) ?_
      intro value w1 s1 hv
      simp only []
      apply WSpec.getW_bind
      by_cases h1 : w1.nextType = .comma
      · simp only [h1, if_true]
        have hne : w1.rest ≠ [] := nextType_ne_eof_rest (by rw [h1]; decide)
        refine WSpec.bind Q (popToken_spec' Q w1) ?_
        intro _ w2 s2 hp2
        have hlt2 := (hp2.2.2.2 hne).1
        exact ihE w2 opener (acc ++ [value]) (by have := hv.2; omega)
      · simp only [h1, if_false]
        by_cases h2 : w1.nextType = .rbrack
        · simp only [h2, if_true]
          refine WSpec.bind Q (popToken_prevOk Q w1 (by rw [h2]; decide) (by rw [h2]; decide)) ?_
          intro _ w2 s2 hp2
          apply WSpec.getW_bind
          exact WSpec.pure Q ⟨hp2.2.1, rfl⟩
        · simp only [h2, if_false]
          exact failUnexpected_spec Q _ w1 _

theorem popValue_end (fuel : Nat) (w : W) (h : 2 * w.rest.length < fuel) :
    WSpec Q (popValue fuel) w (fun v w' => PrevOk w' ∧ v.span.end_ = w'.currentPos) :=
  (popValue_end_aux Q fuel).1 w h

theorem popTag_prev (hQ0 : Q ⟨0, 0⟩) (fuel : Nat) (w : W) (h : 2 * w.rest.length < fuel) :
    WSpec Q (popTag fuel) w (fun _ w' => PrevOk w') := by
  unfold popTag
  apply WSpec.getW_bind
  have hmark : WSpec Q (match w.nextType with
      | .bang => do let tok ← popToken; pure (TagMark.bang, tok)
      | .question => do let tok ← popToken; pure (TagMark.question, tok)
      | _ => pure (TagMark.none, Token.zero) : WM (TagMark × Token)) w
      (fun _ _ => True) := by
    split
    · refine WSpec.bind Q (popToken_spec' Q w) ?_
      intro tok w1 s1 hp
      exact WSpec.pure Q trivial
    · refine WSpec.bind Q (popToken_spec' Q w) ?_
      intro tok w1 s1 hp
      exact WSpec.pure Q trivial
    · exact WSpec.pure Q trivial
  refine WSpec.bind Q hmark ?_
  intro p w1 s1 _
  obtain ⟨mark, markToken⟩ := p
  simp only []
  apply WSpec.getW_bind
  have hf1 : 2 * w1.rest.length < fuel := by have := s1.len; omega
  split
  · rename_i hty
    refine WSpec.bind Q (popReference_end Q w1 (Or.inl hty)) ?_
    intro ref w2 s2 hr
    exact WSpec.pure Q hr.1
  · rename_i hty
    refine WSpec.bind Q (popReference_end Q w1 (Or.inr hty)) ?_
    intro ref w2 s2 hr
    exact WSpec.pure Q hr.1
  · refine WSpec.bind Q (popValue_end Q fuel w1 hf1) ?_
    intro v w2 s2 hv
    exact WSpec.pure Q hv.1
  · exact failUnexpected_spec Q _ w1 _

theorem tagsLoop_prev (hQ0 : Q ⟨0, 0⟩) (pfuel : Nat) (fuel : Nat) :
    ∀ (w : W) (acc : List TagValue), w.rest.length < fuel → 2 * w.rest.length < pfuel → PrevOk w →
      WSpec Q (tagsLoop pfuel fuel acc) w (fun _ w' => PrevOk w') := by
  induction fuel with
  | zero => intro w acc h; omega
  | succ fuel ih =>
    intro w acc h1 h2 hp
    unfold tagsLoop
    apply WSpec.getW_bind
    split
    · refine WSpec.bind Q (WSpec.and Q (popTag_spec Q hQ0 pfuel w h2) (popTag_prev Q hQ0 pfuel w h2)) ?_
      intro tag w1 s1 ht
      exact ih w1 _ (by have := ht.1.2; omega) (by have := ht.1.2; omega) ht.2
    · exact WSpec.pure Q hp

theorem qualsLoop_prev (hQ0 : Q ⟨0, 0⟩) (pfuel : Nat) (fuel : Nat) :
    ∀ (w : W) (acc : List TagValue), w.rest.length < fuel → 2 * w.rest.length < pfuel → PrevOk w →
      WSpec Q (qualsLoop pfuel fuel acc) w (fun _ w' => PrevOk w') := by
  induction fuel with
  | zero => intro w acc h; omega
  | succ fuel ih =>
    intro w acc h1 h2 hp
    unfold qualsLoop
    apply WSpec.getW_bind
    split
    · rename_i hcolon
      have hne : w.rest ≠ [] := nextType_ne_eof_rest (by rw [hcolon]; decide)
      refine WSpec.bind Q (popToken_spec' Q w) ?_
      intro _ w1 s1 hpop
      have hlt := (hpop.2.2.2 hne).1
      refine WSpec.bind Q (WSpec.and Q (popTag_spec Q hQ0 pfuel w1 (by omega))
        (popTag_prev Q hQ0 pfuel w1 (by omega))) ?_
      intro tag w2 s2 ht
      exact ih w2 _ (by have := ht.1.2; omega) (by have := ht.1.2; omega) ht.2
    · exact WSpec.pure Q hp


theorem walkValueAssign_line (fuel : Nat) (ref : Reference) (app : Bool) (w : W)
    (hf : 2 * w.rest.length < fuel) (hl : WLine w) :
    WSpec Q (walkValueAssign fuel ref app) w (fun a w' => w'.currentPos.line = a.src.end_.line) := by
  unfold walkValueAssign
  refine WSpec.bind Q (popType_spec Q _ w) ?_
  intro _ w1 s1 _
  refine WSpec.bind Q (WSpec.and Q (popValue_spec Q fuel w1 (by have := s1.len; omega))
    (popValue_end Q fuel w1 (by have := s1.len; omega))) ?_
  intro value w2 s2 hv
  have hl2 : WLine w2 := WLine_step Q (WLine_step Q hl s1) s2
  refine WSpec.bind Q (endStatement_line Q w2 hl2 hv.2.1) ?_
  intro comment w3 s3 hc
  apply WSpec.pure
  show w3.currentPos.line = value.span.end_.line
  rw [hc, hv.2.2]

theorem walkStatement_line (hQ0 : Q ⟨0, 0⟩) (fuel : Nat) (w : W)
    (hnext : w.nextType = .ident ∨ w.nextType = .bool)
    (hf1 : w.rest.length < fuel) (hf2 : 2 * w.rest.length < fuel) (hl : WLine w) :
    WSpec Q (walkStatement fuel) w (fun f w' => w'.currentPos.line = f.src.end_.line) := by
  unfold walkStatement
  refine WSpec.bind Q (WSpec.and Q (popReference_spec Q w hnext) (popReference_end Q w hnext)) ?_
  intro ref w1 s1 hr
  obtain ⟨⟨_, _, hr3⟩, hrp, _⟩ := hr
  have hl1 : WLine w1 := WLine_step Q hl s1
  simp only []
  apply WSpec.getW_bind
  split
  · refine WSpec.bind Q (walkValueAssign_line Q fuel ref false w1 (by omega) hl1) ?_
    intro a w2 s2 ha
    exact WSpec.pure Q ha
  · split
    · rename_i hplus
      refine WSpec.bind Q (popToken_spec' Q w1) ?_
      intro _ w2 s2 hp
      apply WSpec.getW_bind
      split
      · exact failUnexpected_spec Q _ w2 _
      · refine WSpec.bind Q (walkValueAssign_line Q fuel ref true w2
          (by have := s2.len; omega) (WLine_step Q hl1 s2)) ?_
        intro a w3 s3 ha
        exact WSpec.pure Q ha
    · refine WSpec.bind Q (WSpec.and Q
        (tagsLoop_spec Q hQ0 fuel fuel w1 [] (by omega) (by omega) (fun t h => by cases h))
        (tagsLoop_prev Q hQ0 fuel fuel w1 [] (by omega) (by omega) hrp)) ?_
      intro tags w2 s2 htags
      have hl2 : WLine w2 := WLine_step Q hl1 s2
      refine WSpec.bind Q (WSpec.and Q
        (qualsLoop_spec Q hQ0 fuel fuel w2 [] (by have := s2.len; omega) (by have := s2.len; omega)
          (fun t h => by cases h))
        (qualsLoop_prev Q hQ0 fuel fuel w2 [] (by have := s2.len; omega)
          (by have := s2.len; omega) htags.2)) ?_
      intro quals w3 s3 hquals
      have hl3 : WLine w3 := WLine_step Q hl2 s3
      apply WSpec.getW_bind
      split
      · -- `{`
        rename_i hty
        refine WSpec.bind Q (popToken_prevOk Q w3 (by rw [hty]; decide) (by rw [hty]; decide)) ?_
        intro _ w4 s4 hp
        apply WSpec.getW_bind
        refine WSpec.bind Q (endStatement_line Q w4 (WLine_step Q hl3 s4) hp.2.1) ?_
        intro comment w5 s5 hc
        exact WSpec.pure Q hc
      · refine WSpec.bind Q (popToken_spec' Q w3) ?_
        intro tok w4 s4 hp
        apply WSpec.getW_bind
        exact WSpec.pure Q rfl
      · refine WSpec.bind Q (endStatement_line Q w3 hl3 hquals.2) ?_
        intro comment w4 s4 hc
        exact WSpec.pure Q hc
      · exact WSpec.pure Q rfl
      · exact WSpec.pure Q rfl
      · exact failUnexpected_spec Q _ w3 _

theorem popDescLoop_prev (n : Nat) : ∀ (rest toks : List Token) (last : Token), rest.length ≤ n →
    (popDescLoop toks last rest).2.2.prev = some (popDescLoop toks last rest).2.1 := by
  induction n with
  | zero =>
    intro rest toks last h
    have : rest = [] := List.eq_nil_of_length_eq_zero (Nat.le_zero.mp h)
    subst this
    rfl
  | succ n ih =>
    intro rest toks last h
    match rest with
    | [] => rfl
    | [x] => rfl
    | e :: d :: rs =>
      unfold popDescLoop
      split
      · exact ih rs _ d (by simp at h ⊢; omega)
      · rfl

theorem popDescription_end (w : W) (hne : w.rest ≠ []) :
    WSpec Q popDescription w (fun d w' => d.span.end_ = w'.currentPos) := by
  refine WSpec.of_ok Q (popDescription_spec Q w hne) ?_
  intro d w' hm _
  unfold popDescription at hm
  simp only [bind, WM.bind] at hm
  cases hp : popToken w with
  | ok first w1 =>
    rw [hp] at hm
    simp only [] at hm
    have := popDescLoop_prev w1.rest.length w1.rest [first] first (Nat.le_refl _)
    generalize popDescLoop [first] first w1.rest = res at hm this
    obtain ⟨toks, last, w2⟩ := res
    simp only [] at hm this
    cases hm
    show last.end_ = _
    rw [currentPos_of_prev this]
  | fail e w1 => rw [hp] at hm; cases hm
  | panic s => rw [hp] at hm; cases hm

/-- a fragment ends on the line where the walker stands after reading it -/
theorem nextFragment_line (hQ0 : Q ⟨0, 0⟩) (fuel : Nat) (w : W) (hne : w.nextType ≠ .eof)
    (hf1 : w.rest.length < fuel) (hf2 : 2 * w.rest.length < fuel) (hl : WLine w) :
    WSpec Q (nextFragment fuel) w (fun r w' => ∀ f, r = some f →
      w'.currentPos.line = f.src.end_.line) := by
  have hrest : w.rest ≠ [] := nextType_ne_eof_rest hne
  unfold nextFragment
  apply WSpec.getW_bind
  split
  · rename_i h; exact absurd h hne
  · refine WSpec.bind Q (popToken_spec' Q w) ?_
    intro _ w1 s1 hp
    exact WSpec.pure Q (fun f hf => by cases hf)
  · rename_i hty
    refine WSpec.bind Q (popToken_prevOk Q w hne (by rw [hty]; decide)) ?_
    intro tok w1 s1 hp
    apply WSpec.pure
    intro f hf; cases hf
    show w1.currentPos.line = tok.end_.line
    rw [hp.2.2]
  · rename_i hty
    refine WSpec.bind Q (popToken_prevOk Q w hne (by rw [hty]; decide)) ?_
    intro tok w1 s1 hp
    apply WSpec.pure
    intro f hf; cases hf
    show w1.currentPos.line = tok.end_.line
    rw [hp.2.2]
  · rename_i hty
    refine WSpec.bind Q (popToken_prevOk Q w hne (by rw [hty]; decide)) ?_
    intro tok w1 s1 hp
    apply WSpec.pure
    intro f hf; cases hf
    show w1.currentPos.line = tok.end_.line
    rw [hp.2.2]
  · refine WSpec.bind Q (popDescription_end Q w hrest) ?_
    intro d w1 s1 hd
    apply WSpec.pure
    intro f hf; cases hf
    show w1.currentPos.line = d.span.end_.line
    rw [hd]
  · rename_i hty
    refine WSpec.bind Q (walkStatement_line Q hQ0 fuel w (Or.inl hty) hf1 hf2 hl) ?_
    intro f w1 s1 hfr
    apply WSpec.pure
    intro f' hf'; cases hf'; exact hfr
  · rename_i hty
    refine WSpec.bind Q (walkStatement_line Q hQ0 fuel w (Or.inr hty) hf1 hf2 hl) ?_
    intro f w1 s1 hfr
    apply WSpec.pure
    intro f' hf'; cases hf'; exact hfr
  · exact failUnexpected_spec Q _ w _


/-- a `none` result of `nextFragment` means exactly one EOL token was read -/
theorem nextFragment_none (hQ0 : Q ⟨0, 0⟩) (fuel : Nat) (w : W) (hne : w.nextType ≠ .eof)
    (hf1 : w.rest.length < fuel) (hf2 : 2 * w.rest.length < fuel) :
    WSpec Q (nextFragment fuel) w (fun r w' => r = none →
      ∃ t, w.rest = t :: w'.rest ∧ t.ty = .eol) := by
  have hrest : w.rest ≠ [] := nextType_ne_eof_rest hne
  unfold nextFragment
  apply WSpec.getW_bind
  split
  · rename_i h; exact absurd h hne
  · rename_i hty
    refine WSpec.bind Q (popToken_specX Q w) ?_
    intro tok w1 s1 hp
    apply WSpec.pure
    intro _
    cases hr : w.rest with
    | nil => exact absurd hr hrest
    | cons u rs =>
      obtain ⟨e1, e2⟩ := hp.2.1 u rs hr
      subst e1
      rw [e2]
      exact ⟨tok, rfl, by rw [hp.1.2.2.1]; exact hty⟩
  · refine WSpec.bind Q (popToken_spec' Q w) ?_
    intro tok w1 s1 hp
    exact WSpec.pure Q (fun h => by cases h)
  · refine WSpec.bind Q (popToken_spec' Q w) ?_
    intro tok w1 s1 hp
    exact WSpec.pure Q (fun h => by cases h)
  · refine WSpec.bind Q (popToken_spec' Q w) ?_
    intro tok w1 s1 hp
    exact WSpec.pure Q (fun h => by cases h)
  · refine WSpec.bind Q (popDescription_spec Q w hrest) ?_
    intro d w1 s1 hd
    exact WSpec.pure Q (fun h => by cases h)
  · rename_i hty
    refine WSpec.bind Q (walkStatement_spec Q hQ0 fuel w (Or.inl hty) hf1 hf2) ?_
    intro f w1 s1 hfr
    exact WSpec.pure Q (fun h => by cases h)
  · rename_i hty
    refine WSpec.bind Q (walkStatement_spec Q hQ0 fuel w (Or.inr hty) hf1 hf2) ?_
    intro f w1 s1 hfr
    exact WSpec.pure Q (fun h => by cases h)
  · exact failUnexpected_spec Q _ w _

/-- **cover**: every token that is not an EOL ends on or before the last line of some fragment -/
def FragCover (toks : List Token) (frags : List Fragment) : Prop :=
  ∀ t ∈ toks, t.ty ≠ .eol → ∃ f ∈ frags, t.end_.line ≤ f.src.end_.line

theorem walkFragmentsLoop_cover (hQ0 : Q ⟨0, 0⟩) (ff : Bool) (pfuel : Nat) (fuel : Nat) :
    ∀ (w : W) (frags : List Fragment) (errs : List Diag), (w.rest = [] ∨ WInv Q w) → WLine w →
      w.rest.length < fuel → w.rest.length < pfuel → 2 * w.rest.length < pfuel →
      ∀ frags' errs', walkFragmentsLoop ff pfuel fuel w frags errs = .done frags' errs' →
        errs' = [] → ∃ new, frags' = frags ++ new ∧ FragCover w.rest new := by
  induction fuel with
  | zero => intro w frags errs _ _ h; omega
  | succ fuel ih =>
    intro w frags errs hw hl hf1 hf2 hf3 frags' errs' hres herr
    unfold walkFragmentsLoop at hres
    by_cases heof : w.nextType = .eof
    · simp only [heof, if_true] at hres
      cases hres
      refine ⟨[], by simp, ?_⟩
      intro t ht
      have : w.rest = [] := by
        cases hr : w.rest with
        | nil => rfl
        | cons u us =>
          have hinv : WInv Q w := by
            rcases hw with h | h
            · rw [hr] at h; cases h
            · exact h
          have := hinv.noEof u (by rw [hr]; simp)
          simp [W.nextType, hr] at heof
          exact absurd heof this
      rw [this] at ht; cases ht
    · simp only [heof, if_false] at hres
      have hrest : w.rest ≠ [] := nextType_ne_eof_rest heof
      have hinv : WInv Q w := by
        rcases hw with h | h
        · exact absurd h hrest
        · exact h
      have hnf := (WSpec.and Q (WSpec.and Q (nextFragment_spec Q hQ0 pfuel w heof hf2 hf3)
        (nextFragment_line Q hQ0 pfuel w heof hf2 hf3 hl))
        (nextFragment_none Q hQ0 pfuel w heof hf2 hf3)) hinv
      cases hnfr : nextFragment pfuel w with
      | panic s => rw [hnfr] at hnf; exact hnf.elim
      | fail e w1 =>
        rw [hnfr] at hres
        simp only [] at hres
        cases ff with
        | true => simp at hres
        | false =>
          simp only [Bool.false_eq_true, if_false] at hres
          -- collect-all mode after a failure: the error list is not empty at the end
          exfalso
          cases hsk : skipToEOL w1.prev w1.rest with
          | panic s => rw [hsk] at hres; cases hres
          | fail e2 w2 => rw [hsk] at hres; cases hres
          | ok u w2 =>
            rw [hsk] at hres
            simp only [] at hres
            rw [hnfr] at hnf
            have hsk' := skipToEOL_spec Q w1.rest w1.prev hnf.1.inv
            rw [hsk] at hsk'
            obtain ⟨s2, hsk1, hsk2⟩ := hsk'
            have hs2len : w2.rest.length ≤ w1.rest.length := s2.len
            have hlen2 : w2.rest.length < fuel := by
              by_cases h1 : w1.rest = []
              · rw [hsk2 h1]
                have : w.rest.length ≠ 0 := fun e => hrest (List.eq_nil_of_length_eq_zero e)
                simp; omega
              · have := hsk1 h1; have := hnf.1.len; omega
            have hlen2' : w2.rest.length ≤ w.rest.length := by have := hnf.1.len; omega
            have := walkFragmentsLoop_spec Q hQ0 false pfuel fuel w2 frags (errs ++ [e.diag])
              (Or.inr s2.inv) hlen2 (by omega) (by omega)
            rw [hres] at this
            obtain ⟨_, newe, h3, _, _⟩ := this
            rw [herr] at h3
            simp at h3
      | ok r w1 =>
        rw [hnfr] at hres hnf
        obtain ⟨s1, ⟨⟨hfr, hlt⟩, hline⟩, hnone⟩ := hnf
        obtain ⟨d, hd1, hd2, _⟩ := s1.drop
        have hl1 : WLine w1 := WLine_step Q hl s1
        cases r with
        | none =>
          simp only [] at hres
          obtain ⟨new, h1, h2⟩ := ih w1 frags errs (Or.inr s1.inv) hl1 (by omega) (by omega) (by omega)
            frags' errs' hres herr
          refine ⟨new, h1, ?_⟩
          obtain ⟨t0, ht0, hty0⟩ := hnone rfl
          intro t ht hty
          rw [ht0] at ht
          rcases List.mem_cons.mp ht with rfl | ht
          · exact absurd hty0 hty
          · exact h2 t ht hty
        | some f =>
          simp only [] at hres
          obtain ⟨new, h1, h2⟩ := ih w1 (frags ++ [f]) errs (Or.inr s1.inv) hl1 (by omega) (by omega)
            (by omega) frags' errs' hres herr
          refine ⟨f :: new, by rw [h1]; simp, ?_⟩
          intro t ht hty
          rw [hd1] at ht
          rcases List.mem_append.mp ht with ht | ht
          · refine ⟨f, by simp, ?_⟩
            rw [← hline f rfl]
            exact Pos.line_le_of_le (hd2 t ht)
          · obtain ⟨g, hg1, hg2⟩ := h2 t ht hty
            exact ⟨g, by simp [hg1], hg2⟩


/-! ## Assembly on rune sources -/

/-- one past the last line of the last fragment (0 if there is none) -/
def lastToR (frags : List Fragment) : Nat :=
  match frags.getLast? with
  | some f => f.src.end_.line + 1
  | none => 0

theorem FragChain.le_last {lo : Pos} {frags : List Fragment} (h : FragChain Q lo frags) :
    ∀ f ∈ frags, f.src.end_.line + 1 ≤ lastToR frags := by
  induction frags generalizing lo with
  | nil => intro f hf; cases hf
  | cons g gs ih =>
    intro f hf
    obtain ⟨h1, h2, h3, h4⟩ := h
    cases gs with
    | nil =>
      simp at hf; subst hf
      simp [lastToR]
    | cons g2 gs2 =>
      have hl : lastToR (g :: g2 :: gs2) = lastToR (g2 :: gs2) := by
        simp [lastToR, List.getLast?_cons_cons]
      rw [hl]
      rcases List.mem_cons.mp hf with rfl | hf
      · -- the first fragment ends before the second, which is ≤ the last
        have := ih h4 g2 (by simp)
        have hle : f.src.end_.line ≤ g2.src.end_.line :=
          Pos.line_le_of_le (Pos.le_trans h4.1 h4.2.1)
        omega
      · exact ih h4 f hf

theorem line_mem_decomp : ∀ (src : List Rune) (i : Nat) (l : List Rune),
    (splitLines src)[i]? = some l → ∀ x ∈ l, ∃ u v, src = u ++ x :: v ∧ countNL u = i := by
  intro src
  induction src with
  | nil =>
    intro i l h x hx
    cases i with
    | zero => simp [splitLines] at h; subst h; cases hx
    | succ i => simp [splitLines] at h
  | cons r rs ih =>
    intro i l h x hx
    rw [splitLines_cons] at h
    cases hs : splitLines rs with
    | nil => exact absurd hs (splitLines_ne_nil rs)
    | cons l0 ls =>
      rw [hs] at h ih
      simp only [] at h
      by_cases hr : r = cNL
      · rw [if_pos hr] at h
        cases i with
        | zero => simp at h; subst h; cases hx
        | succ i =>
          simp at h
          obtain ⟨u, v, e, c⟩ := ih i l (by simpa using h) x hx
          exact ⟨r :: u, v, by rw [e]; rfl, by simp [countNL, hr, c]; omega⟩
      · rw [if_neg hr] at h
        cases i with
        | zero =>
          simp at h; subst h
          rcases List.mem_cons.mp hx with rfl | hx
          · exact ⟨[], rs, rfl, rfl⟩
          · obtain ⟨u, v, e, c⟩ := ih 0 l0 (by simp) x hx
            exact ⟨r :: u, v, by rw [e]; rfl, by simp [countNL, hr, c]⟩
        | succ i =>
          simp at h
          obtain ⟨u, v, e, c⟩ := ih (i + 1) l (by simpa using h) x hx
          exact ⟨r :: u, v, by rw [e]; rfl, by simp [countNL, hr, c]⟩

/-- what `collectFragments` gives: the tokens, the fragment chain and the cover -/
theorem collectFragments_cover (cls : Cls) (hcls : ClsNL cls) (src : List Rune) (frags : List Fragment)
    (h : collectFragments cls src = .ok frags) :
    ∃ ts, allTokens cls true src = .toks ts ∧ FragCover ts frags ∧
      FragChain (InFile src) ⟨0, 0⟩ frags := by
  have hchain := collectFragments_spec (InFile src) cls src (fun _ h => h)
  rw [h] at hchain
  unfold collectFragments at h
  have hl := allTokens_spec cls true src
  cases hres : allTokens cls true src with
  | nofuel => rw [hres] at hl; exact hl.elim
  | errs es => rw [hres] at h; cases h
  | toks ts =>
    rw [hres] at h hl
    simp only [] at h
    refine ⟨ts, rfl, ?_, hchain⟩
    have hok := tokensOK_of_chain (InFile src) (fun _ h => h) hl
    have hlines := allTokens_lines cls hcls true src ts hres
    have hspec := walkFragments_spec (InFile src) (inFile_zero src) true ts hok
    cases hwf : walkFragments true ts with
    | panic s => rw [hwf] at h; cases h
    | hadErrors es => rw [hwf] at h; cases h
    | done fr es =>
      rw [hwf] at h hspec
      cases h
      have hes : es = [] := hspec.2.2 rfl
      unfold walkFragments at hwf
      have hw : (⟨none, ts⟩ : W).rest = [] ∨ WInv (InFile src) ⟨none, ts⟩ := by
        cases ts with
        | nil => exact Or.inl rfl
        | cons t ts' => exact Or.inr (WInv.init (InFile src) (inFile_zero src) hok (by simp))
      obtain ⟨new, h1, h2⟩ := walkFragmentsLoop_cover (InFile src) (inFile_zero src) true
        (2 * ts.length + 2) (ts.length + 1) ⟨none, ts⟩ [] [] hw hlines (by simp) (by simp; omega)
        (by simp) frags es hwf hes
      simp at h1; subst h1
      exact h2

/-- **after the last fragment only white space is left** -/
theorem trailing_blank_runes (cls : Cls) (hcls : ClsNL cls) (src : List Rune) (frags : List Fragment)
    (h : collectFragments cls src = .ok frags) (i : Nat) (l : List Rune)
    (hl : (splitLines src)[i]? = some l) (hi : lastToR frags ≤ i) :
    ∀ x ∈ l, cls.isSpace x = true := by
  intro x hx
  obtain ⟨ts, hts, hcover, hchain⟩ := collectFragments_cover cls hcls src frags h
  obtain ⟨u, v, e, c⟩ := line_mem_decomp src i l hl x hx
  have hxnl : x ≠ cNL := by
    intro e'
    have := splitLines_no_nl_mem src l (List.mem_of_getElem? hl)
    exact this (by rw [← e']; exact hx)
  rcases allTokens_cover cls true src ts hts u x v e with h1 | ⟨T, hT, hne, hline⟩
  · rcases h1 with h1 | h1
    · exact h1
    · exact absurd h1 hxnl
  · exfalso
    obtain ⟨f, hf, hle⟩ := hcover T hT hne
    have := FragChain.le_last (InFile src) hchain f hf
    rw [posAfter_eq] at hline
    simp only [] at hline
    omega

end J5V.Bcl
