import J5V.Bcl.Diff
/-! Lemmas for C19 (`fmtDiffs`): no panic and well-formed edits from well-formed fragment ranges. -/
namespace J5V.Bcl
open J5V.Go

/-- fragment line ranges: ascending from `lo`, non-overlapping, `from < to ≤ n` -/
def FragsWF (n : Nat) : Nat → List Edit → Prop
  | _, [] => True
  | lo, d :: ds => lo ≤ d.fromLine ∧ d.fromLine < d.toLine ∧ d.toLine ≤ n ∧ FragsWF n d.toLine ds

instance (n : Nat) : (lo : Nat) → (ds : List Edit) → Decidable (FragsWF n lo ds)
  | _, [] => isTrue trivial
  | lo, d :: ds =>
    have := instDecidableFragsWF n d.toLine ds
    by unfold FragsWF; exact inferInstance

/-- edits: ascending from `lo`, non-overlapping, `from ≤ to ≤ n` -/
def EditsWF (n : Nat) : Nat → List Edit → Prop
  | _, [] => True
  | lo, e :: es => lo ≤ e.fromLine ∧ e.fromLine ≤ e.toLine ∧ e.toLine ≤ n ∧ EditsWF n e.toLine es

instance (n : Nat) : (lo : Nat) → (es : List Edit) → Decidable (EditsWF n lo es)
  | _, [] => isTrue trivial
  | lo, e :: es =>
    have := instDecidableEditsWF n e.toLine es
    by unfold EditsWF; exact inferInstance

theorem EditsWF_mono {n lo lo' : Nat} {es : List Edit} (h : EditsWF n lo es) (hl : lo' ≤ lo) :
    EditsWF n lo' es := by
  cases es with
  | nil => trivial
  | cons e es => exact ⟨Nat.le_trans hl h.1, h.2⟩

theorem rangeLines_ok {lines : List (List Nat)} {a b : Nat} (h1 : a ≤ b) (h2 : b ≤ lines.length) :
    rangeLines lines a b = .ok (joinWith [cNL] ((lines.take b).drop a) ++ [cNL]) := by
  unfold rangeLines sliceLines
  have : ¬ b > lines.length := by omega
  have : ¬ a > b := by omega
  simp [*]

/-- the loop appends a well-formed list of edits that starts at `lastEnd` -/
theorem fmtDiffsLoop_spec (lines : List (List Nat)) (ds : List Edit) (lastEnd : Nat)
    (h : FragsWF lines.length lastEnd ds) (out : List Edit) :
    ∃ added, fmtDiffsLoop lines ds lastEnd out = .ok (out ++ added) ∧
      EditsWF lines.length lastEnd added := by
  induction ds generalizing lastEnd out with
  | nil => exact ⟨[], by simp [fmtDiffsLoop], trivial⟩
  | cons d ds ih =>
    obtain ⟨h1, h2, h3, h4⟩ := h
    unfold fmtDiffsLoop
    simp only [rangeLines_ok (Nat.le_of_lt h2) h3]
    by_cases hg : d.fromLine > lastEnd + 1 <;> by_cases hx :
      joinWith [cNL] (List.drop d.fromLine (List.take d.toLine lines)) ++ [cNL] = d.newText
    all_goals
      simp only [ne_eq, hg, hx, not_true_eq_false, not_false_eq_true, if_true, if_false]
      obtain ⟨added, ha, hw⟩ := ih d.toLine h4 _
      rw [ha]
    · refine ⟨⟨lastEnd, d.fromLine, [cNL]⟩ :: added, by simp, ?_⟩
      exact ⟨Nat.le_refl _, by simp only; omega, by simp only; omega,
        EditsWF_mono hw (by simp only; omega)⟩
    · refine ⟨⟨lastEnd, d.fromLine, [cNL]⟩ :: d :: added, by simp, ?_⟩
      exact ⟨Nat.le_refl _, by simp only; omega, by simp only; omega, Nat.le_refl _,
        Nat.le_of_lt h2, h3, hw⟩
    · exact ⟨added, by simp, EditsWF_mono hw (by omega)⟩
    · refine ⟨d :: added, by simp, ?_⟩
      exact ⟨h1, Nat.le_of_lt h2, h3, hw⟩

theorem fmtDiffs_spec (lines : List (List Nat)) (ds : List Edit)
    (h : FragsWF lines.length 0 ds) :
    ∃ es, fmtDiffs lines ds = .ok es ∧ EditsWF lines.length 0 es := by
  cases ds with
  | nil => exact ⟨[], rfl, trivial⟩
  | cons d ds =>
    obtain ⟨_, h2, h3, h4⟩ := h
    unfold fmtDiffs
    simp only [rangeLines_ok (Nat.le_of_lt h2) h3]
    by_cases hg : d.fromLine > 0 <;> by_cases hx :
      joinWith [cNL] (List.drop d.fromLine (List.take d.toLine lines)) ++ [cNL] = d.newText
    all_goals
      simp only [ne_eq, hg, hx, not_true_eq_false, not_false_eq_true, if_true, if_false]
      obtain ⟨added, ha, hw⟩ := fmtDiffsLoop_spec lines ds d.toLine h4 _
      rw [ha]
    · refine ⟨_, rfl, ?_⟩
      exact ⟨Nat.le_refl _, by simp only; omega, by simp only; omega,
        EditsWF_mono hw (by simp only; omega)⟩
    · refine ⟨_, rfl, ?_⟩
      exact ⟨Nat.le_refl _, by simp only; omega, by simp only; omega, Nat.le_refl _,
        Nat.le_of_lt h2, h3, hw⟩
    · refine ⟨_, rfl, ?_⟩
      simpa using EditsWF_mono hw (Nat.zero_le _)
    · refine ⟨_, rfl, ?_⟩
      exact ⟨Nat.zero_le _, Nat.le_of_lt h2, h3, hw⟩

end J5V.Bcl
