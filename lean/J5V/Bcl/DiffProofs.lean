import J5V.Bcl.Diff
/-! Lemmas for C19 (`fmtDiffs`): no panic and well-formed edits from well-formed fragment ranges. -/
namespace J5V.Bcl
open J5V.Go

/-- raw fragment line ranges as the walker produces them: `from < to ≤ n`, and each fragment starts
no earlier than the last line of the previous one (`lo` = previous `toLine`) -/
def RawWF (n : Nat) : Nat → List Edit → Prop
  | _, [] => True
  | lo, d :: ds => lo ≤ d.fromLine + 1 ∧ d.fromLine < d.toLine ∧ d.toLine ≤ n ∧ RawWF n d.toLine ds

instance (n : Nat) : (lo : Nat) → (ds : List Edit) → Decidable (RawWF n lo ds)
  | _, [] => isTrue trivial
  | lo, d :: ds =>
    have := instDecidableRawWF n d.toLine ds
    by unfold RawWF; exact inferInstance

/-- merged fragment line ranges: ascending from `lo`, non-overlapping, `from < to ≤ n` -/
def FragsWF (n : Nat) : Nat → List Edit → Prop
  | _, [] => True
  | lo, d :: ds => lo ≤ d.fromLine ∧ d.fromLine < d.toLine ∧ d.toLine ≤ n ∧ FragsWF n d.toLine ds

instance (n : Nat) : (lo : Nat) → (ds : List Edit) → Decidable (FragsWF n lo ds)
  | _, [] => isTrue trivial
  | lo, d :: ds =>
    have := instDecidableFragsWF n d.toLine ds
    by unfold FragsWF; exact inferInstance

/-- edits: ascending from `lo`, non-overlapping, `from ≤ to ≤ n` -/
def EditsWF (n : Nat) : Nat → List Edit → Prop
  | _, [] => True
  | lo, e :: es => lo ≤ e.fromLine ∧ e.fromLine ≤ e.toLine ∧ e.toLine ≤ n ∧ EditsWF n e.toLine es

instance (n : Nat) : (lo : Nat) → (es : List Edit) → Decidable (EditsWF n lo es)
  | _, [] => isTrue trivial
  | lo, e :: es =>
    have := instDecidableEditsWF n e.toLine es
    by unfold EditsWF; exact inferInstance

theorem EditsWF_mono {n lo lo' : Nat} {es : List Edit} (h : EditsWF n lo es) (hl : lo' ≤ lo) :
    EditsWF n lo' es := by
  cases es with
  | nil => trivial
  | cons e es => exact ⟨Nat.le_trans hl h.1, h.2⟩

theorem mergeInto_wf (n : Nat) (ds : List Edit) (l : Edit) (lo : Nat) (h0 : lo ≤ l.fromLine)
    (h1 : l.fromLine < l.toLine) (h2 : l.toLine ≤ n) (h : RawWF n l.toLine ds) :
    FragsWF n lo (mergeInto l ds) := by
  induction ds generalizing l lo with
  | nil => exact ⟨h0, h1, h2, trivial⟩
  | cons d ds ih =>
    obtain ⟨g1, g2, g3, g4⟩ := h
    unfold mergeInto
    split
    · apply ih
      · exact h0
      · simp only; omega
      · simp only; omega
      · have : max l.toLine d.toLine = d.toLine := by omega
        simp only [this]; exact g4
    · exact ⟨h0, h1, h2, ih d l.toLine (by omega) g2 g3 g4⟩

theorem mergeFrags_wf (n : Nat) (ds : List Edit) (h : RawWF n 0 ds) : FragsWF n 0 (mergeFrags ds) := by
  cases ds with
  | nil => trivial
  | cons d ds =>
    obtain ⟨_, g2, g3, g4⟩ := h
    exact mergeInto_wf n ds d 0 (Nat.zero_le _) g2 g3 g4

theorem rangeLines_ok {lines : List (List Nat)} {a b : Nat} (h1 : a ≤ b) (h2 : b ≤ lines.length) :
    rangeLines lines a b = .ok (joinWith [cNL] ((lines.take b).drop a) ++ [cNL]) := by
  unfold rangeLines sliceLines
  have : ¬ b > lines.length := by omega
  have : ¬ a > b := by omega
  simp [*]

theorem gapNeeded_ok {lines : List (List Nat)} {lastEnd from_ : Nat} (h : from_ < lines.length) :
    ∃ g, gapNeeded lines lastEnd from_ = .ok g := by
  unfold gapNeeded
  split
  · exact ⟨_, rfl⟩
  · split
    · have : lastEnd < lines.length := by omega
      rw [List.getElem?_eq_getElem this]
      exact ⟨_, rfl⟩
    · exact ⟨_, rfl⟩

/-- the loop appends a well-formed list of edits that starts at `lastEnd` -/
theorem fmtDiffsLoop_spec (lines : List (List Nat)) (ds : List Edit) (lastEnd : Nat)
    (h : FragsWF lines.length lastEnd ds) (out : List Edit) :
    ∃ added, fmtDiffsLoop lines ds lastEnd out = .ok (out ++ added) ∧
      EditsWF lines.length lastEnd added := by
  induction ds generalizing lastEnd out with
  | nil => exact ⟨[], by simp [fmtDiffsLoop], trivial⟩
  | cons d ds ih =>
    obtain ⟨h1, h2, h3, h4⟩ := h
    unfold fmtDiffsLoop
    obtain ⟨g, hg⟩ := gapNeeded_ok (lines := lines) (lastEnd := lastEnd) (from_ := d.fromLine)
      (by omega)
    simp only [hg, rangeLines_ok (Nat.le_of_lt h2) h3]
    cases g <;> by_cases hx :
      joinWith [cNL] (List.drop d.fromLine (List.take d.toLine lines)) ++ [cNL] = d.newText
    all_goals
      simp only [ne_eq, hx, not_true_eq_false, not_false_eq_true, if_true, if_false,
        Bool.false_eq_true]
      obtain ⟨added, ha, hw⟩ := ih d.toLine h4 _
      rw [ha]
    · exact ⟨added, by simp, EditsWF_mono hw (by omega)⟩
    · refine ⟨d :: added, by simp, ?_⟩
      exact ⟨h1, Nat.le_of_lt h2, h3, hw⟩
    · refine ⟨⟨lastEnd, d.fromLine, [cNL]⟩ :: added, by simp, ?_⟩
      exact ⟨Nat.le_refl _, by simp only; omega, by simp only; omega,
        EditsWF_mono hw (by simp only; omega)⟩
    · refine ⟨⟨lastEnd, d.fromLine, [cNL]⟩ :: d :: added, by simp, ?_⟩
      exact ⟨Nat.le_refl _, by simp only; omega, by simp only; omega, Nat.le_refl _,
        Nat.le_of_lt h2, h3, hw⟩

theorem fmtDiffsMerged_spec (lines : List (List Nat)) (ds : List Edit)
    (h : FragsWF lines.length 0 ds) :
    ∃ es, fmtDiffsMerged lines ds = .ok es ∧ EditsWF lines.length 0 es := by
  cases ds with
  | nil => exact ⟨[], rfl, trivial⟩
  | cons d ds =>
    obtain ⟨_, h2, h3, h4⟩ := h
    unfold fmtDiffsMerged
    simp only [rangeLines_ok (Nat.le_of_lt h2) h3]
    by_cases hg : d.fromLine > 0 <;> by_cases hx :
      joinWith [cNL] (List.drop d.fromLine (List.take d.toLine lines)) ++ [cNL] = d.newText
    all_goals
      simp only [ne_eq, hg, hx, not_true_eq_false, not_false_eq_true, if_true, if_false]
      obtain ⟨added, ha, hw⟩ := fmtDiffsLoop_spec lines ds d.toLine h4 _
      rw [ha]
    · refine ⟨_, rfl, ?_⟩
      exact ⟨Nat.le_refl _, by simp only; omega, by simp only; omega,
        EditsWF_mono hw (by simp only; omega)⟩
    · refine ⟨_, rfl, ?_⟩
      exact ⟨Nat.le_refl _, by simp only; omega, by simp only; omega, Nat.le_refl _,
        Nat.le_of_lt h2, h3, hw⟩
    · refine ⟨_, rfl, ?_⟩
      simpa using EditsWF_mono hw (Nat.zero_le _)
    · refine ⟨_, rfl, ?_⟩
      exact ⟨Nat.zero_le _, Nat.le_of_lt h2, h3, hw⟩

theorem fmtDiffs_spec (lines : List (List Nat)) (all : List Edit)
    (h : RawWF lines.length 0 all) :
    ∃ es, fmtDiffs lines all = .ok es ∧ EditsWF lines.length 0 es :=
  fmtDiffsMerged_spec lines _ (mergeFrags_wf _ _ h)

end J5V.Bcl
