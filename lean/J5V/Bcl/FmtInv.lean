import J5V.Bcl.Equiv
import J5V.Bcl.LexShapeProofs
/-!
# Definitions for the whole-file theorems of C09

* `ClsOK`: what the proofs need from the classifier (Go's tables satisfy it: obligation
  `C09_src_sep_class` over the dumped ASCII class table).
* `LexesTo`, `FollowOK`: one token read back (moved here from `Props/C09`).
* `LexAll`: the fuel-free description of `allTokens` (tokens up to EOF, no lexer error);
  `LexSeg`: lexing a piece of text in front of any tail.
* canonical (position-free) tokens of what the formatter prints: `canonParts`, `lineToks`,
  `fragToks`, `fileToks`; `normFrag`: the fragment obtained by reading them back.
* `PartsOK`: adjacent rendered tokens do not run into each other; `FragWF`: the shape of the
  fragments the walker produces from lexed tokens.
-/
namespace J5V.Bcl

/-! ## classifier -/

/-- the runes the formatter puts between / after tokens: space, newline, tab and the operators -/
def sepRunes : List Rune := [cSP, cNL, cTAB, 61, 123, 125, 91, 93, 46, 44, 58, 43, 33, 63]

/-- `' '` and tab are white space; separators are neither letters nor digits -/
structure ClsOK (cls : Cls) : Prop where
  spSpace : cls.isSpace cSP = true
  tabSpace : cls.isSpace cTAB = true
  sep : ∀ r ∈ sepRunes, cls.isLetter r = false ∧ cls.isDigit r = false

/-! ## one token -/

/-- lexing `src ++ rest` reads exactly one token `(ty, lit)` and stops before `rest` -/
def LexesTo (cls : Cls) (c : Cur) (src rest : List Rune) (ty : TokenType) (lit : List Rune) : Prop :=
  (nextToken cls c (src ++ rest)).err = none ∧ (nextToken cls c (src ++ rest)).tok.ty = ty ∧
    (nextToken cls c (src ++ rest)).tok.lit = lit ∧ (nextToken cls c (src ++ rest)).rest = rest

/-- what may follow the rendered token, by kind -/
def FollowOK (cls : Cls) (ty : TokenType) (rest : List Rune) : Prop :=
  match ty with
  | .regex => rest.head? ≠ some cSLASH
  | .ident | .bool => IdentStop cls rest
  | .int | .decimal => NumberStop cls rest
  | .comment | .description => LineEnd rest
  | _ => True

/-! ## the whole lex, without fuel -/

/-- `LexAll cls c rest out`: from lexer state `c` on input `rest`, `NextToken` returns the tokens
`out` without error and then EOF -/
inductive LexAll (cls : Cls) : Cur → List Rune → List Token → Prop
  | eof {c : Cur} {rest : List Rune} : (nextToken cls c rest).err = none →
      (nextToken cls c rest).tok.ty = .eof → LexAll cls c rest []
  | step {c : Cur} {rest : List Rune} {out : List Token} : (nextToken cls c rest).err = none →
      (nextToken cls c rest).tok.ty ≠ .eof →
      LexAll cls (nextToken cls c rest).cur (nextToken cls c rest).rest out →
      LexAll cls c rest ((nextToken cls c rest).tok :: out)

/-- lexing `text` in front of any `tail` yields the tokens `new` and then goes on with `tail` from
state `c'` -/
def LexSeg (cls : Cls) (c : Cur) (text tail : List Rune) (new : List Token) (c' : Cur) : Prop :=
  ∀ out, LexAll cls c' tail out → LexAll cls c (text ++ tail) (new ++ out)

/-! ## canonical tokens of the formatter's output -/

/-- the kind the lexer gives a rendered token: identifier-like literals are BOOL exactly when they
spell `true` / `false` -/
def lexTy (t : Token) : TokenType :=
  if t.ty = .ident ∨ t.ty = .bool then
    (if t.lit = litTrue ∨ t.lit = litFalse then .bool else .ident)
  else t.ty

def canonTok (t : Token) : Token := ⟨lexTy t, t.lit, ⟨0, 0⟩, ⟨0, 0⟩⟩

/-- the tokens of a rendered part list: the spaces disappear -/
def canonParts (ps : List Token) : List Token :=
  (ps.filter fun t => t.ty != .space).map canonTok

def eolTok : Token := ⟨.eol, [cNL], ⟨0, 0⟩, ⟨0, 0⟩⟩

def commentToks : Option CommentNode → List Token
  | none => []
  | some c => [⟨.comment, c.value, ⟨0, 0⟩, ⟨0, 0⟩⟩]

/-- tokens of one `singleLineTokens` line -/
def lineToks (parts : List Token) (cm : Option CommentNode) : List Token :=
  canonParts parts ++ commentToks cm ++ [eolTok]

def descTok (l : List Rune) : Token := ⟨.description, l, ⟨0, 0⟩, ⟨0, 0⟩⟩

/-- tokens of the lines of a re-flowed description -/
def descLineToks (lines : List (List Rune)) : List Token := lines.flatMap fun l => [descTok l, eolTok]

/-- the lines `doDescription` prints for a description at `indent` -/
def descLines (cls : Cls) (indent : Nat) (d : Description) : List (List Rune) :=
  let l := reformatDescription cls d.value (80 - (indent : Int) * 4)
  if l = [] then [[]] else l

/-- tokens of the text `fmtFragment` prints for a fragment -/
def fragToks (cls : Cls) (indent : Nat) : Fragment → List Token
  | .header h => lineToks (headerTokens h) h.src.comment
  | .close c => lineToks [c.token] none
  | .assign a => lineToks (assignTokens a) a.src.comment
  | .desc d => descLineToks (descLines cls indent d)
  | .comment c => lineToks [c.token] none

/-- the fragment one gets by reading `fragToks` back: the same up to positions; a stand-alone
description has been re-flowed -/
def normFrag (cls : Cls) (indent : Nat) : Fragment → Fragment
  | .desc d =>
    .desc ⟨(descLines cls indent d).map descTok, joinWith [cNL] (descLines cls indent d), Span.zero⟩
  | f => f.erase

/-- does `Fmt` put a blank line in front of a fragment starting at `fromLine`? -/
def gapBefore (lastEnd : Option Nat) (fromLine : Nat) : Bool :=
  match lastEnd with
  | some e => decide (fromLine > e)
  | none => false

/-- tokens of `fmtJoin (diffFile cls indent frags) lastEnd` -/
def fileToks (cls : Cls) : Nat → Option Nat → List Fragment → List Token
  | _, _, [] => []
  | indent, lastEnd, f :: fs =>
    (if gapBefore lastEnd (fmtFragment cls indent f).1.fromLine then [eolTok] else []) ++
      fragToks cls indent f ++ fileToks cls (fmtFragment cls indent f).2
        (some (fmtFragment cls indent f).1.toLine) fs

/-- the fragments one gets by reading `fileToks` back -/
def normFrags (cls : Cls) : Nat → List Fragment → List Fragment
  | _, [] => []
  | indent, f :: fs => normFrag cls indent f :: normFrags cls (fmtFragment cls indent f).2 fs

/-! ## rendered parts do not run into each other -/

/-- shape of the literal of a token stored in a fragment: as `TokLitWF`, except that identifiers
stored by the walker have kind IDENT also when they spell `true` / `false` (`AsIdent`) -/
def PartWF (cls : Cls) (t : Token) : Prop :=
  ((t.ty = .ident ∨ t.ty = .bool) ∧ IdentLitWF cls t.lit) ∨
  (t.ty ≠ .ident ∧ t.ty ≠ .bool ∧ (t.ty.isLiteral = true ∨ t.ty.isOperator = true) ∧ TokLitWF cls t)

/-- every part is the formatter's space token, or a well-shaped token in front of admissible text
(`tail` is what follows the whole part list) -/
def PartsOK (cls : Cls) : List Token → List Rune → Prop
  | [], _ => True
  | t :: ps, tail =>
    ((t.ty = .space ∧ t.lit = [cSP]) ∨
      (PartWF cls t ∧ FollowOK cls (lexTy t) (ps.flatMap tokenSource ++ tail))) ∧
    PartsOK cls ps tail

/-! ## the fragments the walker produces -/

def IdentWF (cls : Cls) (i : Ident) : Prop :=
  i.token.ty = .ident ∧ IdentLitWF cls i.token.lit ∧ i.value = i.token.lit

def RefWF (cls : Cls) (r : Reference) : Prop := r.idents ≠ [] ∧ ∀ i ∈ r.idents, IdentWF cls i

/-- a literal token in value position (a reference there has become a STRING token) -/
def ScalarWF (cls : Cls) (t : Token) : Prop :=
  t.ty ≠ .ident ∧ t.ty.isLiteral = true ∧ TokLitWF cls t

mutual
/-- values inside arrays: no `//` comment or description token (they end the line) -/
def ValueWF (cls : Cls) : Value → Prop
  | .scalar t _ => ScalarWF cls t ∧ t.ty ≠ .comment ∧ t.ty ≠ .description
  | .array vs _ => ValueListWF cls vs
def ValueListWF (cls : Cls) : List Value → Prop
  | [] => True
  | v :: vs => ValueWF cls v ∧ ValueListWF cls vs
end

/-- the value of an assignment: a `//` comment or description token as the value ends the line, so
there is no trailing comment then -/
def TopValueWF (cls : Cls) (v : Value) (cm : Option CommentNode) : Prop :=
  match v with
  | .scalar t _ => ScalarWF cls t ∧ ((t.ty = .comment ∨ t.ty = .description) → cm = none)
  | .array vs _ => ValueListWF cls vs

def MarkWF (cls : Cls) (t : TagValue) : Prop :=
  match t.mark with
  | .none => t.markToken = Token.zero
  | .bang => t.markToken.ty = .bang ∧ TokLitWF cls t.markToken
  | .question => t.markToken.ty = .question ∧ TokLitWF cls t.markToken

def TagWF (cls : Cls) (t : TagValue) : Prop :=
  MarkWF cls t ∧
  ((∃ r, t.reference = some r ∧ t.value = none ∧ RefWF cls r) ∨
   (∃ tok sp, t.reference = none ∧ t.value = some (.scalar tok sp) ∧ tok.ty = .string))

def CommentNodeWF (c : Option CommentNode) : Prop := ∀ cn, c = some cn → ∀ r ∈ cn.value, r ≠ cNL

def HeaderWF (cls : Cls) (h : BlockHeader) : Prop :=
  RefWF cls h.type ∧ (∀ t ∈ h.tags, TagWF cls t) ∧ (∀ t ∈ h.qualifiers, TagWF cls t) ∧
  CommentNodeWF h.src.comment ∧
  (∀ d, h.description = some d → h.isOpen = false ∧ h.src.comment = none ∧
    ∃ tok, d.tokens = [tok] ∧ tok.ty = .description ∧ TokLitWF cls tok ∧ d.value = tok.lit)

def AssignWF (cls : Cls) (a : Assignment) : Prop :=
  RefWF cls a.key ∧ TopValueWF cls a.value a.src.comment ∧ CommentNodeWF a.src.comment

def CloseWF (cls : Cls) (c : CloseBlock) : Prop := c.token.ty = .rbrace ∧ TokLitWF cls c.token

def CommentWF (cls : Cls) (c : Comment) : Prop :=
  (c.token.ty = .comment ∨ c.token.ty = .blockComment) ∧ TokLitWF cls c.token ∧ c.value = c.token.lit

/-- shape of a fragment produced by the walker from lexed tokens (`walkFragments_fragWF`) -/
def FragWF (cls : Cls) : Fragment → Prop
  | .header h => HeaderWF cls h
  | .assign a => AssignWF cls a
  | .desc _ => True
  | .comment c => CommentWF cls c
  | .close c => CloseWF cls c

/-- two stand-alone descriptions never follow each other without a blank line (they would have
been one description) -/
def DescGaps : List Fragment → Prop
  | [] => True
  | [_] => True
  | f :: g :: rest =>
    (∀ d e, f = .desc d → g = .desc e → e.span.start.line > d.span.end_.line + 1) ∧
      DescGaps (g :: rest)

end J5V.Bcl
