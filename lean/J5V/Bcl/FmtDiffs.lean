import J5V.Bcl.Fmt
import J5V.Bcl.Diff
/-!
# `Fmt` / `FmtDiffs` on a source given as bytes (core only)

Go strings are bytes: the lexer reads `[]rune(input)` while `FmtDiffs` splits and compares the
original bytes.  These wrappers are the functions the driver runs for the `fmt` and `diff` ops.
-/
namespace J5V.Bcl
open J5V.Go

def FmtFrag.toEdit (d : FmtFrag) : Edit := ⟨d.fromLine, d.toLine, encodeRunes d.newText⟩

/-- `collectFmtFragments` up to the byte form of each fragment's text -/
def fragEdits (cls : Cls) (frags : List Fragment) : List Edit :=
  (diffFile cls 0 frags).map FmtFrag.toEdit

inductive DiffOut where
  | ok (es : List Edit)
  | err
  | panic (why : String)
  deriving Repr

/-- `FmtDiffs(input)` -/
def fmtDiffsSrc (cls : Cls) (bytes : List Nat) : DiffOut :=
  match collectFragments cls (decodeRunes bytes) with
  | .panic s => .panic s
  | .err => .err
  | .ok frags =>
    match fmtDiffs (splitLines bytes) (fragEdits cls frags) with
    | .ok es => .ok es
    | .err _ => .err
    | .panic s => .panic s

/-- `Fmt(input)` with the output as bytes -/
def fmtSrc (cls : Cls) (bytes : List Nat) : Outcome (List Nat) :=
  match fmt cls (decodeRunes bytes) with
  | .ok text => .ok (encodeRunes text)
  | .err => .err "fmt"
  | .panic s => .panic s

end J5V.Bcl
