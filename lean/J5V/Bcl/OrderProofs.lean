import J5V.Bcl.ParseFileProofs
import J5V.Walker.OrderDefs
/-!
# Every `parseFile` tree is `BodyOrdered`

The specs of `ParserProofs` place every node span inside `[lo, hi]` but forget the SOURCE ORDER between the
elements of an array, between the tags and between the qualifiers of a header. Here the walker actions are
specified again (at `Q := fun _ => True`, so that the old specs can be conjoined with `WSpec.and`) with
exactly these facts, and lifted through `fragsLoop` / `closeInto` / `closeAll` / `walk` / `parseFile`.
-/
namespace J5V.Bcl
open J5V.Walker

/-- the trivial position predicate: every `Q` obligation of the old specs is `trivial` -/
abbrev QT : Pos → Prop := fun _ => True

theorem WSpec.and {Q : Pos → Prop} {α : Type} {m : WM α} {w : W} {P R : α → W → Prop}
    (h1 : WSpec Q m w P) (h2 : WSpec Q m w R) : WSpec Q m w (fun a w' => P a w' ∧ R a w') := by
  intro hw
  have a := h1 hw
  have b := h2 hw
  cases hm : m w with
  | ok x w1 => rw [hm] at a b; exact ⟨a.1, a.2, b.2⟩
  | fail e w1 => rw [hm] at a; exact a
  | panic s => rw [hm] at a; exact a

/-- appending one more span-carrying thing that starts at or after `cur`, where all earlier ones end -/
theorem inOrder_snoc {α : Type} (f : α → Span) (acc : List α) (x : α) (cur : Pos)
    (hord : InOrder (acc.map f)) (hend : ∀ u ∈ acc, (f u).end_ ≤ cur) (hx : cur ≤ (f x).start) :
    InOrder ((acc ++ [x]).map f) := by
  unfold InOrder at hord ⊢
  rw [List.map_append, List.pairwise_append]
  refine ⟨hord, by simp, ?_⟩
  intro a ha b hb
  simp only [List.map_cons, List.map_nil, List.mem_singleton] at hb
  subst hb
  obtain ⟨u, hu, rfl⟩ := List.mem_map.mp ha
  exact Pos.le_trans (hend u hu) hx

theorem valuesOrdered_nil : ValuesOrdered [] := by unfold ValuesOrdered; trivial

theorem valuesOrdered_single {v : Value} (h : ValueOrdered v) : ValuesOrdered [v] := by
  unfold ValuesOrdered; exact ⟨h, valuesOrdered_nil⟩

/-! ## Values -/

theorem popValue_ord_aux (fuel : Nat) :
    (∀ w : W, 2 * w.rest.length < fuel →
      WSpec QT (popValue fuel) w (fun v _ => ValueOrdered v)) ∧
    (∀ (w : W) (opener : Token) (acc : List Value), 2 * w.rest.length + 1 < fuel →
      opener.start ≤ w.currentPos → ValuesOrdered acc → InOrder (acc.map Value.span) →
      (∀ u ∈ acc, u.span.end_ ≤ w.currentPos) →
      WSpec QT (popValueElems fuel opener acc) w (fun v _ => ValueOrdered v)) := by
  induction fuel with
  | zero => exact ⟨fun w h => by omega, fun w o a h => by omega⟩
  | succ fuel ih =>
    obtain ⟨ihV, ihE⟩ := ih
    constructor
    · intro w hfuel
      unfold popValue
      intro hw
      simp only []
      by_cases h1 : w.nextType = .ident
      · simp only [h1, if_true]
        refine WSpec.bind QT (popReference_spec QT w (Or.inl h1)) ?_ hw
        intro ref w1 s1 hp
        apply WSpec.pure
        show ValueOrdered (Value.scalar _ _)
        unfold ValueOrdered
        exact hp.1.2.1
      · simp only [h1, if_false]
        by_cases h2 : w.nextType.isLiteral = true
        · simp only [h2, if_true]
          refine WSpec.bind QT (popToken_spec' QT w) ?_ hw
          intro tok w1 s1 hp
          apply WSpec.pure
          show ValueOrdered (Value.scalar _ _)
          unfold ValueOrdered
          exact hp.1.span
        · simp only [h2]
          by_cases h3 : w.nextType = .lbrack
          · simp only [h3, if_true]
            have hne : w.rest ≠ [] := nextType_ne_eof_rest (by rw [h3]; decide)
            refine WSpec.bind QT (popToken_spec' QT w) ?_ hw
            intro opener w1 s1 hp
            apply WSpec.getW_bind
            have hlt := (hp.2.2.2 hne).1
            by_cases h4 : w1.nextType = TokenType.rbrack
            · simp only [h4, if_true]
              refine WSpec.bind QT (popToken_spec' QT w1) ?_
              intro _ w2 s2 hp2
              apply WSpec.getW_bind
              apply WSpec.pure
              have hle : opener.start ≤ w2.currentPos :=
                Pos.le_trans hp.1.span (Pos.le_trans hp.2.1 s2.mono)
              show ValueOrdered (Value.array [] _)
              unfold ValueOrdered
              exact ⟨hle, valuesOrdered_nil, List.Pairwise.nil⟩
            · simp only [h4, if_false]
              exact ihE w1 opener [] (by omega) (Pos.le_trans hp.1.span hp.2.1) valuesOrdered_nil
                List.Pairwise.nil (fun u hu => by cases hu)
          · simp only [h3, if_false]
            exact failUnexpected_spec QT _ w _ hw
    · intro w opener acc hfuel hole hacc hord hend
      unfold popValueElems
      refine WSpec.bind QT ((popValue_spec QT fuel w (by omega)).and (ihV w (by omega))) ?_
      intro value w1 s1 hv
      obtain ⟨⟨⟨hvok, hvin⟩, hvlt⟩, hvord⟩ := hv
      have hacc' : ValuesOrdered (acc ++ [value]) := hacc.append (valuesOrdered_single hvord)
      have hord' : InOrder ((acc ++ [value]).map Value.span) :=
        inOrder_snoc Value.span acc value w.currentPos hord hend hvin.1
      have hend' : ∀ u ∈ acc ++ [value], u.span.end_ ≤ w1.currentPos := by
        intro u hu
        rcases List.mem_append.mp hu with h | h
        · exact Pos.le_trans (hend u h) s1.mono
        · simp at h; subst h; exact hvin.2.2
      simp only []
      apply WSpec.getW_bind
      by_cases h1 : w1.nextType = .comma
      · simp only [h1, if_true]
        have hne : w1.rest ≠ [] := nextType_ne_eof_rest (by rw [h1]; decide)
        refine WSpec.bind QT (popToken_spec' QT w1) ?_
        intro _ w2 s2 hp2
        have hlt2 := (hp2.2.2.2 hne).1
        exact ihE w2 opener (acc ++ [value]) (by omega)
          (Pos.le_trans hole (Pos.le_trans s1.mono s2.mono)) hacc' hord'
          (fun u hu => Pos.le_trans (hend' u hu) s2.mono)
      · simp only [h1, if_false]
        by_cases h2 : w1.nextType = .rbrack
        · simp only [h2, if_true]
          refine WSpec.bind QT (popToken_spec' QT w1) ?_
          intro _ w2 s2 hp2
          apply WSpec.getW_bind
          apply WSpec.pure
          have hle : opener.start ≤ w2.currentPos :=
            Pos.le_trans hole (Pos.le_trans s1.mono s2.mono)
          show ValueOrdered (Value.array (acc ++ [value]) _)
          unfold ValueOrdered
          exact ⟨hle, hacc', hord'⟩
        · simp only [h2, if_false]
          exact failUnexpected_spec QT _ w1 _

/-- `popValue`: the value is `ValueOrdered` (array elements in source order, at every depth) -/
theorem popValue_ord (fuel : Nat) (w : W) (h : 2 * w.rest.length < fuel) :
    WSpec QT (popValue fuel) w (fun v _ => ValueOrdered v) := (popValue_ord_aux fuel).1 w h

/-! ## Tags and qualifiers -/

theorem tagsLoop_ord (pfuel : Nat) (fuel : Nat) :
    ∀ (w : W) (acc : List TagValue), w.rest.length < fuel → 2 * w.rest.length < pfuel →
      InOrder (acc.map (·.span)) → (∀ t ∈ acc, t.span.end_ ≤ w.currentPos) →
      WSpec QT (tagsLoop pfuel fuel acc) w (fun ts _ => InOrder (ts.map (·.span))) := by
  induction fuel with
  | zero => intro w acc h; omega
  | succ fuel ih =>
    intro w acc h1 h2 hord hend
    unfold tagsLoop
    apply WSpec.getW_bind
    split
    · refine WSpec.bind QT (popTag_spec QT trivial pfuel w h2) ?_
      intro tag w1 s1 ht
      refine ih w1 (acc ++ [tag]) (by have := ht.2; omega) (by have := ht.2; omega)
        (inOrder_snoc (·.span) acc tag w.currentPos hord hend ht.1.2.1) ?_
      intro t hm
      rcases List.mem_append.mp hm with h | h
      · exact Pos.le_trans (hend t h) s1.mono
      · simp at h; subst h; exact ht.1.2.2.2
    · exact WSpec.pure QT hord

theorem qualsLoop_ord (pfuel : Nat) (fuel : Nat) :
    ∀ (w : W) (acc : List TagValue), w.rest.length < fuel → 2 * w.rest.length < pfuel →
      InOrder (acc.map (·.span)) → (∀ t ∈ acc, t.span.end_ ≤ w.currentPos) →
      WSpec QT (qualsLoop pfuel fuel acc) w (fun ts _ => InOrder (ts.map (·.span))) := by
  induction fuel with
  | zero => intro w acc h; omega
  | succ fuel ih =>
    intro w acc h1 h2 hord hend
    unfold qualsLoop
    apply WSpec.getW_bind
    split
    · rename_i hcolon
      have hne : w.rest ≠ [] := nextType_ne_eof_rest (by rw [hcolon]; decide)
      refine WSpec.bind QT (popToken_spec' QT w) ?_
      intro _ w1 s1 hp
      have hlt := (hp.2.2.2 hne).1
      refine WSpec.bind QT (popTag_spec QT trivial pfuel w1 (by omega)) ?_
      intro tag w2 s2 ht
      refine ih w2 (acc ++ [tag]) (by have := ht.2; omega) (by have := ht.2; omega)
        (inOrder_snoc (·.span) acc tag w.currentPos hord hend (Pos.le_trans s1.mono ht.1.2.1)) ?_
      intro t hm
      rcases List.mem_append.mp hm with h | h
      · exact Pos.le_trans (hend t h) (Pos.le_trans s1.mono s2.mono)
      · simp at h; subst h; exact ht.1.2.2.2
    · exact WSpec.pure QT hord

/-! ## Statements and fragments -/

/-- the order facts the old `Fragment.ok` does not give -/
def FragExtra : Fragment → Prop
  | .header h => InOrder (h.tags.map (·.span)) ∧ InOrder (h.qualifiers.map (·.span))
  | .assign a => ValueOrdered a.value
  | _ => True

theorem walkValueAssign_ord (fuel : Nat) (ref : Reference) (app : Bool) (w : W)
    (hf : 2 * w.rest.length < fuel) :
    WSpec QT (walkValueAssign fuel ref app) w (fun a _ => ValueOrdered a.value) := by
  unfold walkValueAssign
  refine WSpec.bind QT (popType_spec QT _ w) ?_
  intro _ w1 s1 _
  refine WSpec.bind QT (popValue_ord fuel w1 (by have := s1.len; omega)) ?_
  intro value w2 s2 hv
  refine WSpec.bind QT (endStatement_spec QT w2) ?_
  intro comment w3 s3 hc
  apply WSpec.pure
  exact hv

theorem walkStatement_ord (fuel : Nat) (w : W)
    (hnext : w.nextType = .ident ∨ w.nextType = .bool)
    (hf1 : w.rest.length < fuel) (hf2 : 2 * w.rest.length < fuel) :
    WSpec QT (walkStatement fuel) w (fun f _ => FragExtra f) := by
  unfold walkStatement
  refine WSpec.bind QT (popReference_spec QT w hnext) ?_
  intro ref w1 s1 hr
  obtain ⟨hr1, hr2, hr3⟩ := hr
  simp only []
  apply WSpec.getW_bind
  split
  · -- assignment
    refine WSpec.bind QT (walkValueAssign_ord fuel ref false w1 (by omega)) ?_
    intro a w2 s2 ha
    apply WSpec.pure
    exact ha
  · split
    · -- +=
      refine WSpec.bind QT (popToken_spec' QT w1) ?_
      intro _ w2 s2 hp
      apply WSpec.getW_bind
      split
      · exact failUnexpected_spec QT _ w2 _
      · refine WSpec.bind QT (walkValueAssign_ord fuel ref true w2 (by have := s2.len; omega)) ?_
        intro a w3 s3 ha
        apply WSpec.pure
        exact ha
    · -- block header
      refine WSpec.bind QT (tagsLoop_ord fuel fuel w1 [] (by have := hf1; omega) (by omega)
        List.Pairwise.nil (fun t h => by cases h)) ?_
      intro tags w2 s2 htags
      refine WSpec.bind QT (qualsLoop_ord fuel fuel w2 [] (by have := s2.len; omega)
        (by have := s2.len; omega) List.Pairwise.nil (fun t h => by cases h)) ?_
      intro quals w3 s3 hquals
      apply WSpec.getW_bind
      split
      · -- `{`
        refine WSpec.bind QT (popToken_spec' QT w3) ?_
        intro _ w4 s4 hp
        apply WSpec.getW_bind
        refine WSpec.bind QT (endStatement_spec QT w4) ?_
        intro comment w5 s5 hc
        apply WSpec.pure
        exact ⟨htags, hquals⟩
      · -- `| description`
        refine WSpec.bind QT (popToken_spec' QT w3) ?_
        intro tok w4 s4 hp
        apply WSpec.getW_bind
        apply WSpec.pure
        exact ⟨htags, hquals⟩
      · -- trailing comment
        refine WSpec.bind QT (endStatement_spec QT w3) ?_
        intro comment w4 s4 hc
        apply WSpec.pure
        exact ⟨htags, hquals⟩
      · -- end of line
        apply WSpec.pure
        exact ⟨htags, hquals⟩
      · apply WSpec.pure
        exact ⟨htags, hquals⟩
      · exact failUnexpected_spec QT _ w3 _

theorem nextFragment_ord (fuel : Nat) (w : W) (hne : w.nextType ≠ .eof)
    (hf1 : w.rest.length < fuel) (hf2 : 2 * w.rest.length < fuel) :
    WSpec QT (nextFragment fuel) w (fun r _ => ∀ f, r = some f → FragExtra f) := by
  have hrest : w.rest ≠ [] := nextType_ne_eof_rest hne
  unfold nextFragment
  apply WSpec.getW_bind
  split
  · rename_i h; exact absurd h hne
  · refine WSpec.bind QT (popToken_spec' QT w) ?_
    intro _ w1 s1 hp
    apply WSpec.pure
    intro f hf; cases hf
  · refine WSpec.bind QT (popToken_spec' QT w) ?_
    intro tok w1 s1 hp
    apply WSpec.pure
    intro f hf; cases hf; trivial
  · refine WSpec.bind QT (popToken_spec' QT w) ?_
    intro tok w1 s1 hp
    apply WSpec.pure
    intro f hf; cases hf; trivial
  · refine WSpec.bind QT (popToken_spec' QT w) ?_
    intro tok w1 s1 hp
    apply WSpec.pure
    intro f hf; cases hf; trivial
  · refine WSpec.bind QT (popDescription_spec QT w hrest) ?_
    intro d w1 s1 hd
    apply WSpec.pure
    intro f hf; cases hf; trivial
  · rename_i hty
    refine WSpec.bind QT (walkStatement_ord fuel w (Or.inl hty) hf1 hf2) ?_
    intro f w1 s1 hfr
    apply WSpec.pure
    intro f' hf'; cases hf'; exact hfr
  · rename_i hty
    refine WSpec.bind QT (walkStatement_ord fuel w (Or.inr hty) hf1 hf2) ?_
    intro f w1 s1 hfr
    apply WSpec.pure
    intro f' hf'; cases hf'; exact hfr
  · exact failUnexpected_spec QT _ w _

/-! ## From `ok` (every node span `start ≤ end_`) and the extra order facts to the `Ordered` predicates -/

theorem Reference.ok_idents_ord {r : Reference} (h : Reference.ok QT r) :
    ∀ i, i ∈ r.idents → SpanOrd i.span := fun i hi => (h.1 i hi).2.1

theorem TagValue.ok_ord {t : TagValue} (h : TagValue.ok QT t) : TagOrdered t :=
  ⟨h.2.2.2.1, fun ref hr => Reference.ok_idents_ord (h.2.1 ref hr)⟩

theorem BlockHeader.ok_ord {h : BlockHeader} (hok : BlockHeader.ok QT h)
    (ht : InOrder (h.tags.map (·.span))) (hq : InOrder (h.qualifiers.map (·.span))) :
    HeaderOrdered h where
  typeIdents := Reference.ok_idents_ord hok.1
  tags := fun t htm => TagValue.ok_ord (hok.2.1 t htm)
  tagsInOrder := ht
  qualifiers := fun t htm => TagValue.ok_ord (hok.2.2.1 t htm)
  qualifiersInOrder := hq
  description := fun d hd => (hok.2.2.2.1 d hd).2.1
  src := hok.2.2.2.2.1.1

theorem Assignment.ok_ord {a : Assignment} (hok : Assignment.ok QT a) (hv : ValueOrdered a.value) :
    StmtOrdered (.assign a) := by
  unfold StmtOrdered
  exact ⟨hok.2.2.1.1, Reference.ok_idents_ord hok.1, hv⟩

/-- what a fragment contributes to the tree is ordered -/
def FragOrdered : Fragment → Prop
  | .header h => HeaderOrdered h
  | .assign a => StmtOrdered (.assign a)
  | .desc d => SpanOrd d.span
  | _ => True

theorem FragOrdered.of_ok {f : Fragment} (hok : Fragment.ok QT f) (hx : FragExtra f) : FragOrdered f := by
  cases f with
  | header h => exact BlockHeader.ok_ord hok hx.1 hx.2
  | assign a => exact Assignment.ok_ord hok hx
  | desc d => exact hok.2.1
  | comment c => trivial
  | close c => trivial

/-- `nextFragment`: the old placement facts together with `FragOrdered` -/
theorem nextFragment_full (fuel : Nat) (w : W) (hne : w.nextType ≠ .eof)
    (hf1 : w.rest.length < fuel) (hf2 : 2 * w.rest.length < fuel) :
    WSpec QT (nextFragment fuel) w (fun r w' =>
      (∀ f, r = some f → FragOrdered f) ∧ w'.rest.length < w.rest.length) := by
  refine WSpec.weaken QT ((nextFragment_spec QT trivial fuel w hne hf1 hf2).and
    (nextFragment_ord fuel w hne hf1 hf2)) ?_
  intro r w' _ h
  exact ⟨fun f hf => FragOrdered.of_ok (h.1.1 f hf).1 (h.2 f hf), h.1.2⟩

/-- `walkFragments`: every fragment produced is `FragOrdered` -/
theorem walkFragmentsLoop_ord (ff : Bool) (pfuel : Nat) (fuel : Nat) :
    ∀ (w : W) (frags : List Fragment) (errs : List Diag), (w.rest = [] ∨ WInv QT w) →
      w.rest.length < fuel → w.rest.length < pfuel → 2 * w.rest.length < pfuel →
      (∀ f ∈ frags, FragOrdered f) →
      match walkFragmentsLoop ff pfuel fuel w frags errs with
      | .done frags' _ => ∀ f ∈ frags', FragOrdered f
      | _ => True := by
  induction fuel with
  | zero => intro w frags errs _ h; omega
  | succ fuel ih =>
    intro w frags errs hw hf1 hf2 hf3 hfr0
    unfold walkFragmentsLoop
    by_cases heof : w.nextType = .eof
    · simp only [heof, if_true]
      exact hfr0
    · simp only [heof, if_false]
      have hrest : w.rest ≠ [] := nextType_ne_eof_rest heof
      have hinv : WInv QT w := by
        rcases hw with h | h
        · exact absurd h hrest
        · exact h
      have hnf := nextFragment_full pfuel w heof hf2 hf3 hinv
      cases hres : nextFragment pfuel w with
      | panic s => trivial
      | ok r w1 =>
        rw [hres] at hnf
        obtain ⟨s1, hfr, hlt⟩ := hnf
        cases r with
        | none =>
          simp only []
          exact ih w1 frags errs (Or.inr s1.inv) (by omega) (by omega) (by omega) hfr0
        | some f =>
          simp only []
          refine ih w1 (frags ++ [f]) errs (Or.inr s1.inv) (by omega) (by omega) (by omega) ?_
          intro x hx
          rcases List.mem_append.mp hx with h | h
          · exact hfr0 x h
          · simp at h; subst h; exact hfr x rfl
      | fail e w1 =>
        rw [hres] at hnf
        obtain ⟨s1, hetok⟩ := hnf
        simp only []
        cases ff with
        | true => simp only [if_true]
        | false =>
          simp only [Bool.false_eq_true, if_false]
          have hsk := skipToEOL_spec QT w1.rest w1.prev s1.inv
          cases hskr : skipToEOL w1.prev w1.rest with
          | panic s => trivial
          | fail e2 w2 => trivial
          | ok u w2 =>
            rw [hskr] at hsk
            obtain ⟨s2, hsk1, hsk2⟩ := hsk
            simp only []
            have hlen2 : w2.rest.length < fuel := by
              by_cases h1 : w1.rest = []
              · rw [hsk2 h1]
                have : w.rest.length ≠ 0 := fun e => hrest (List.eq_nil_of_length_eq_zero e)
                simp; omega
              · have := hsk1 h1; have := s1.len; omega
            have hs2len : w2.rest.length ≤ w1.rest.length := s2.len
            have hlen2' : w2.rest.length ≤ w.rest.length := by
              have := s1.len; omega
            exact ih w2 frags (errs ++ [e.diag]) (Or.inr s2.inv) hlen2 (by omega) (by omega) hfr0

theorem walkFragments_ord (ff : Bool) (tokens : List Token) (h : TokensOK QT tokens) :
    match walkFragments ff tokens with
    | .done frags _ => ∀ f ∈ frags, FragOrdered f
    | _ => True := by
  unfold walkFragments
  have hw : (⟨none, tokens⟩ : W).rest = [] ∨ WInv QT ⟨none, tokens⟩ := by
    cases tokens with
    | nil => exact Or.inl rfl
    | cons t ts => exact Or.inr (WInv.init QT trivial h (by simp))
  exact walkFragmentsLoop_ord ff (2 * tokens.length + 2) (tokens.length + 1)
    ⟨none, tokens⟩ [] [] hw (by simp) (by simp; omega) (by simp) (fun f hf => by cases hf)

/-! ## `fragmentsToFile` -/

def OpenBlock.ord (b : OpenBlock) : Prop := HeaderOrdered b.hdr ∧ BodyOrdered b.stmts

theorem bodyOrdered_nil : BodyOrdered [] := by unfold BodyOrdered; trivial

theorem block_ord {h : BlockHeader} {body : List Statement} (hh : HeaderOrdered h)
    (hb : BodyOrdered body) : StmtOrdered (.block h body) := by
  unfold StmtOrdered; exact ⟨hh, hb⟩

theorem closeInto_ord (root : List Statement) (hroot : BodyOrdered root) :
    ∀ (stack : List OpenBlock) (blk : Statement), StmtOrdered blk →
      (∀ b ∈ stack, OpenBlock.ord b) → BodyOrdered (closeInto root blk stack) := by
  intro stack
  induction stack with
  | nil => intro blk hb _; exact hroot.snoc hb
  | cons p rest ih =>
    intro blk hb hs
    unfold closeInto
    have hp := hs p (by simp)
    exact ih _ (block_ord hp.1 (hp.2.snoc hb)) (fun b hbm => hs b (by simp [hbm]))

theorem closeAll_ord (root : List Statement) (hroot : BodyOrdered root)
    (stack : List OpenBlock) (hs : ∀ b ∈ stack, OpenBlock.ord b) :
    BodyOrdered (closeAll root stack) := by
  cases stack with
  | nil => exact hroot
  | cons b rest =>
    unfold closeAll
    have hb := hs b (by simp)
    exact closeInto_ord root hroot rest _ (block_ord hb.1 hb.2) (fun x hx => hs x (by simp [hx]))

theorem fragsLoop_ord : ∀ (frags : List Fragment) (root : List Statement) (stack : List OpenBlock)
    (errs : List Diag), (∀ f ∈ frags, FragOrdered f) → BodyOrdered root →
    (∀ b ∈ stack, OpenBlock.ord b) →
    BodyOrdered (fragsLoop frags root stack errs).1 ∧
      (∀ b ∈ (fragsLoop frags root stack errs).2.1, OpenBlock.ord b) := by
  intro frags
  induction frags with
  | nil => intro root stack errs _ h1 h2; exact ⟨h1, h2⟩
  | cons f fs ih =>
    intro root stack errs hf hroot hstack
    have hfs : ∀ f ∈ fs, FragOrdered f := fun x hx => hf x (by simp [hx])
    have hf0 := hf f (by simp)
    -- adding a finished statement to the innermost open block (or the root)
    have hadd : ∀ s, StmtOrdered s →
        BodyOrdered (match stack with
          | [] => (root ++ [s], ([] : List OpenBlock))
          | b :: rest => (root, ⟨b.hdr, b.stmts ++ [s]⟩ :: rest)).1 ∧
        ∀ b ∈ (match stack with
          | [] => (root ++ [s], ([] : List OpenBlock))
          | b :: rest => (root, ⟨b.hdr, b.stmts ++ [s]⟩ :: rest)).2, OpenBlock.ord b := by
      intro s hs
      cases stack with
      | nil => exact ⟨hroot.snoc hs, fun b hb => by cases hb⟩
      | cons b rest =>
        refine ⟨hroot, ?_⟩
        intro x hx
        rcases List.mem_cons.mp hx with rfl | hx
        · have hb := hstack b (by simp)
          exact ⟨hb.1, hb.2.snoc hs⟩
        · exact hstack x (by simp [hx])
    unfold fragsLoop
    cases f with
    | header h =>
      simp only []
      split
      · apply ih _ _ _ hfs hroot _
        intro b hb
        rcases List.mem_cons.mp hb with rfl | hb
        · exact ⟨hf0, bodyOrdered_nil⟩
        · exact hstack b hb
      · have := hadd (.block h []) (block_ord hf0 bodyOrdered_nil)
        exact ih _ _ _ hfs this.1 this.2
    | assign a =>
      simp only []
      have := hadd (.assign a) hf0
      exact ih _ _ _ hfs this.1 this.2
    | desc d =>
      simp only []
      have := hadd (.desc d) (by unfold StmtOrdered; exact hf0)
      exact ih _ _ _ hfs this.1 this.2
    | comment c => exact ih _ _ _ hfs hroot hstack
    | close c =>
      simp only []
      cases stack with
      | nil =>
        simp only []
        exact ih _ _ _ hfs hroot hstack
      | cons b rest =>
        simp only []
        have hb := hstack b (by simp)
        cases rest with
        | nil =>
          simp only []
          exact ih _ _ _ hfs (hroot.snoc (block_ord hb.1 hb.2)) (fun x hx => by cases hx)
        | cons p rest' =>
          simp only []
          have hp := hstack p (by simp)
          apply ih _ _ _ hfs hroot _
          intro x hx
          rcases List.mem_cons.mp hx with rfl | hx
          · exact ⟨hp.1, hp.2.snoc (block_ord hb.1 hb.2)⟩
          · exact hstack x (by simp [hx])

theorem fragmentsToFile_ord (frags : List Fragment) (hf : ∀ f ∈ frags, FragOrdered f) :
    BodyOrdered (fragmentsToFile frags).body := by
  have := fragsLoop_ord frags [] [] [] hf bodyOrdered_nil (fun b hb => by cases hb)
  unfold fragmentsToFile
  generalize fragsLoop frags [] [] [] = res at this ⊢
  obtain ⟨root, stack, errs⟩ := res
  simp only at this ⊢
  exact closeAll_ord root this.1 stack this.2

/-! ## `walk`, `parseFile` -/

theorem walk_ord (ff : Bool) (tokens : List Token) (h : TokensOK QT tokens) :
    match walk ff tokens with
    | .tree f => BodyOrdered f.body
    | _ => True := by
  unfold walk
  have := walkFragments_ord ff tokens h
  generalize walkFragments ff tokens = res at this ⊢
  cases res with
  | panic s => trivial
  | hadErrors es => trivial
  | done frags es =>
    simp only []
    by_cases hne : es ≠ []
    · rw [if_pos hne]; trivial
    · rw [if_neg hne]
      by_cases hne2 : (fragmentsToFile frags).errors ≠ []
      · rw [if_pos hne2]; trivial
      · rw [if_neg hne2]; exact fragmentsToFile_ord frags this

/-- **every tree `ParseFile` returns is `BodyOrdered`** -/
theorem parseFile_bodyOrdered (cls : Cls) (src : List Rune) (ff : Bool) (f : File)
    (h : parseFile cls src ff = .tree f) : J5V.Walker.BodyOrdered f.body := by
  unfold parseFile at h
  have hl := allTokens_spec cls ff src
  cases hres : allTokens cls ff src with
  | nofuel => rw [hres] at h; cases h
  | errs es => rw [hres] at h; cases h
  | toks ts =>
    rw [hres] at hl h
    simp only [] at h
    have := walk_ord ff ts (tokensOK_of_chain QT (fun _ _ => trivial) hl)
    rw [h] at this
    exact this

end J5V.Bcl
