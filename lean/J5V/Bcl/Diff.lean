import J5V.Go.Outcome
import J5V.Bcl.Basic
/-!
# FmtDiffs model (core only) — mirrors `FmtDiffs`, `lineSet.rangeLines` of
`/repo/internal/bcl/internal/parser/fmt.go` and the LSP application of the edits built in
`/repo/internal/bcl/genlsp/format.go`.

The alphabet is `Nat` symbols with `10` the newline: Go works on the *bytes* of the document here
(`strings.Split(input, "\n")`, `existing != diff.NewText`), so the driver instantiates symbols with
bytes (the formatter's rune text UTF-8-encoded).  Nothing in this file depends on what the symbols
are, so every theorem about it holds for bytes and for runes alike.
-/
namespace J5V.Bcl
open J5V.Go

/-- `FmtDiff` -/
structure Edit where
  fromLine : Nat
  toLine : Nat
  newText : List Nat
  deriving DecidableEq, Repr, Inhabited

/-- `ls.lines[from:to]`: panics unless `from ≤ to ≤ len` (Go: `to ≤ cap`, and `strings.Split`
returns a slice with `cap = len`) -/
def sliceLines (lines : List (List Nat)) (from_ to : Nat) : Outcome (List (List Nat)) :=
  if to > lines.length then .panic "slice bounds out of range [:to] with capacity len"
  else if from_ > to then .panic "slice bounds out of range [from:to]"
  else .ok ((lines.take to).drop from_)

/-- `rangeLines(from, to)` = `strings.Join(lines[from:to], "\n") + "\n"` -/
def rangeLines (lines : List (List Nat)) (from_ to : Nat) : Outcome (List Nat) :=
  match sliceLines lines from_ to with
  | .ok ls => .ok (joinWith [cNL] ls ++ [cNL])
  | .err e => .err e
  | .panic w => .panic w

/-- the merge pass of `FmtDiffs`: a fragment starting before the previous (merged) one ends is
folded into it.  `l` is `merged[last]`; what precedes it in `merged` is already emitted. -/
def mergeInto (l : Edit) : List Edit → List Edit
  | [] => [l]
  | d :: ds =>
    if d.fromLine < l.toLine then
      mergeInto ⟨l.fromLine, max l.toLine d.toLine, l.newText ++ d.newText⟩ ds
    else l :: mergeInto d ds

def mergeFrags : List Edit → List Edit
  | [] => []
  | d :: ds => mergeInto d ds

/-- the gap test: `FromLine > lastEnd+1 || (FromLine == lastEnd+1 && lines[lastEnd] != "")`;
`lines[lastEnd]` is an index expression -/
def gapNeeded (lines : List (List Nat)) (lastEnd fromLine : Nat) : Outcome Bool :=
  if fromLine > lastEnd + 1 then .ok true
  else if fromLine = lastEnd + 1 then
    match lines[lastEnd]? with
    | none => .panic "index out of range"
    | some l => .ok (l ≠ [])
  else .ok false

/-- the loop of `FmtDiffs` after the first fragment (`lastEnd` is a line number from here on) -/
def fmtDiffsLoop (lines : List (List Nat)) : List Edit → Nat → List Edit → Outcome (List Edit)
  | [], _, out => .ok out
  | d :: ds, lastEnd, out =>
    match gapNeeded lines lastEnd d.fromLine with
    | .panic w => .panic w
    | .err e => .err e
    | .ok gap =>
      let out1 := if gap then out ++ [⟨lastEnd, d.fromLine, [cNL]⟩] else out
      match rangeLines lines d.fromLine d.toLine with
      | .panic w => .panic w
      | .err e => .err e
      | .ok existing =>
        let out2 := if existing ≠ d.newText then out1 ++ [d] else out1
        fmtDiffsLoop lines ds d.toLine out2

/-- the edit loop of `FmtDiffs` over the merged fragments -/
def fmtDiffsMerged (lines : List (List Nat)) : List Edit → Outcome (List Edit)
  | [] => .ok []
  | d :: ds =>
    let out1 := if d.fromLine > 0 then [⟨0, d.fromLine, []⟩] else []
    match rangeLines lines d.fromLine d.toLine with
    | .panic w => .panic w
    | .err e => .err e
    | .ok existing =>
      let out2 := if existing ≠ d.newText then out1 ++ [d] else out1
      fmtDiffsLoop lines ds d.toLine out2

/-- `FmtDiffs` given the source lines and the fragments of `collectFmtFragments` -/
def fmtDiffs (lines : List (List Nat)) (all : List Edit) : Outcome (List Edit) :=
  fmtDiffsMerged lines (mergeFrags all)

/-! ## Applying edits (LSP `TextEdit`s with `character = 0`)

All edits refer to the original document.  Edit `(from, to, text)` replaces the range
`[off from, off to)` where `off k` is the offset of the start of line `k`, and `off k = len doc` for
`k ≥ lineCount`. -/

/-- offset of the start of line `k` in `joinWith "\n" lines` -/
def lineOffset (lines : List (List Nat)) (k : Nat) : Nat :=
  if k ≥ lines.length then (joinWith [cNL] lines).length
  else ((lines.take k).map (fun l => l.length + 1)).sum

/-- apply ascending, non-overlapping edits; `cursor` = offset up to which the document has been
copied or replaced -/
def applyFrom (doc : List Nat) (lines : List (List Nat)) : Nat → List Edit → List Nat
  | cursor, [] => doc.drop cursor
  | cursor, e :: es =>
    ((doc.take (lineOffset lines e.fromLine)).drop cursor) ++ e.newText ++
      applyFrom doc lines (lineOffset lines e.toLine) es

def applyEdits (lines : List (List Nat)) (es : List Edit) : List Nat :=
  applyFrom (joinWith [cNL] lines) lines 0 es


/-! ## The formatter's text over the same fragments, and "equal up to trailing blank lines" -/

/-- the joining loop of `Fmt` over byte-level fragments (same as `fmtJoin` on rune text) -/
def joinFrags : List Edit → Option Nat → List Nat
  | [], _ => []
  | d :: ds, lastEnd =>
    (match lastEnd with
     | some e => if d.fromLine > e then [cNL] else []
     | none => []) ++ d.newText ++ joinFrags ds (some d.toLine)

/-- drop trailing lines that are blank (`blank` decides "empty or whitespace-only") -/
def stripTrailing (blank : List Nat → Bool) (ls : List (List Nat)) : List (List Nat) :=
  (ls.reverse.dropWhile blank).reverse

/-- equal up to trailing blank lines and a final newline -/
def EqT (blank : List Nat → Bool) (a b : List Nat) : Prop :=
  stripTrailing blank (splitLines a) = stripTrailing blank (splitLines b)

end J5V.Bcl
