import J5V.Bcl.Parser
import J5V.Bcl.Utf8
/-!
# BCL formatter model (core only) — mirrors `/repo/internal/bcl/internal/parser/fmt.go`
(`Fmt`, `collectFmtFragments`, `fmter`, `tokenSource`, …) and `description.go`
(`reformatDescription`).  Text is a list of runes; byte lengths (`len(string)`) are `byteLen`.
-/
namespace J5V.Bcl

/-- `FmtDiff` (fragment form): `FromLine`, `ToLine` (exclusive), `NewText` -/
structure FmtFrag where
  fromLine : Nat
  toLine : Nat
  newText : List Rune
  deriving DecidableEq, Repr, Inhabited

/-- `quoteString(lit)`: the inverse of `lexString` — a backslash before `\\`, `"` and newline -/
def quoteString (lit : List Rune) : List Rune :=
  [cQUOTE] ++ lit.flatMap (fun r => if r = cBSL ∨ r = cQUOTE ∨ r = cNL then [cBSL, r] else [r]) ++
    [cQUOTE]

/-- `strings.ReplaceAll(lit, "/", "//")` -/
def doubleSlashes (lit : List Rune) : List Rune :=
  lit.flatMap fun r => if r = cSLASH then [cSLASH, cSLASH] else [r]

/-- `tokenSource(tok)` -/
def tokenSource (tok : Token) : List Rune :=
  match tok.ty with
  | .string => quoteString tok.lit
  | .regex => [cSLASH] ++ doubleSlashes tok.lit ++ [cSLASH]
  | .description => [cPIPE, cSP] ++ tok.lit
  | .comment => [cSLASH, cSLASH] ++ tok.lit
  | .blockComment => [cSLASH, cSTAR] ++ tok.lit ++ [cSTAR, cSLASH]
  | _ => tok.lit

/-- `referenceTokens(r)` -/
def referenceTokens (r : Reference) : List Token :=
  match r.idents with
  | [] => []
  | i :: is => i.token :: is.flatMap fun p => [newToken .dot [cDOT], p.token]

mutual
/-- `valueTokens(v)` -/
def valueTokens : Value → List Token
  | .scalar tok _ => [tok]
  | .array vs _ => [newToken .lbrack [91]] ++ valueListTokens true vs ++ [newToken .rbrack [93]]
def valueListTokens (first : Bool) : List Value → List Token
  | [] => []
  | v :: vs =>
    (if first then [] else [newToken .comma [44], newToken .space [cSP]]) ++ valueTokens v ++
      valueListTokens false vs
end

/-- `tagString(v)` -/
def tagTokens (v : TagValue) : List Token :=
  (if v.mark ≠ .none then [v.markToken, newToken .space [cSP]] else []) ++
  (match v.value with
   | some (.scalar tok _) => [tok]
   | some (.array _ _) => [Token.zero]     -- `v.Value.token` of an array value: the zero token
   | none => []) ++
  (match v.reference with
   | some r => referenceTokens r
   | none => [])

def tabs (n : Nat) : List Rune := List.replicate n cTAB

/-- `inlineComment(src.Comment)` -/
def inlineComment : Option CommentNode → List Rune
  | none => []
  | some c => [cSP, cSLASH, cSLASH] ++ c.value

/-- `singleLineTokens(src, parts...)` -/
def singleLineFrag (indent : Nat) (src : SourceNode) (parts : List Token) : FmtFrag :=
  ⟨src.start.line, src.end_.line + 1,
    tabs indent ++ (parts.flatMap tokenSource ++ inlineComment src.comment) ++ [cNL]⟩

/-- `strings.Split(s, sep)` for a one-rune separator -/
def splitOn (sep : Rune) : List Rune → List (List Rune)
  | [] => [[]]
  | r :: rs =>
    match splitOn sep rs with
    | [] => [[]]   -- unreachable
    | l :: ls => if r = sep then [] :: l :: ls else (r :: l) :: ls

/-- `strings.Fields(s)`: maximal runs of non-space runes.  `cur` is the word being read. -/
def fieldsAux (cls : Cls) : List Rune → List Rune → List (List Rune)
  | [], cur => if cur = [] then [] else [cur]
  | r :: rs, cur =>
    if cls.isSpace r then (if cur = [] then fieldsAux cls rs [] else cur :: fieldsAux cls rs [])
    else fieldsAux cls rs (cur ++ [r])

def fields (cls : Cls) (s : List Rune) : List (List Rune) := fieldsAux cls s []

/-- `strings.TrimRight(s, " ")` -/
def trimRightSpaces (s : List Rune) : List Rune := (s.reverse.dropWhile (· = cSP)).reverse

/-- state of `reformatDescription`'s loop -/
structure RDState where
  out : List (List Rune)
  pend : List Rune
  lastWasEmpty : Bool

/-- the inner word loop -/
def rdWords (maxWidth : Int) : List (List Rune) → List (List Rune) → List Rune →
    List (List Rune) × List Rune
  | [], out, pend => (out, pend)
  | word :: ws, out, pend =>
    if pend = [] then rdWords maxWidth ws out word
    else if ((byteLen pend + byteLen word : Nat) : Int) > maxWidth then
      rdWords maxWidth ws (out ++ [pend]) word
    else rdWords maxWidth ws out (pend ++ [cSP] ++ word)

def rdLines (cls : Cls) (maxWidth : Int) : List (List Rune) → RDState → RDState
  | [], st => st
  | line :: ls, st =>
    if line.all cls.isSpace then        -- `strings.TrimSpace(line) == ""`
      let out1 := if st.pend ≠ [] then st.out ++ [st.pend] else st.out
      let out2 := if !st.lastWasEmpty ∧ out1 ≠ [] then out1 ++ [[]] else out1
      rdLines cls maxWidth ls ⟨out2, [], true⟩
    else
      let (out, pend) := rdWords maxWidth (fields cls line) st.out st.pend
      rdLines cls maxWidth ls ⟨out, pend, false⟩

/-- `reformatDescription(input, maxWidth)` -/
def reformatDescription (cls : Cls) (input : List Rune) (maxWidth : Int) : List (List Rune) :=
  let st := rdLines cls maxWidth (splitOn cNL input) ⟨[], [], false⟩
  if st.pend ≠ [] then st.out ++ [st.pend] else st.out

/-- `multiLineToken(src, prefix, lines)` -/
def multiLineFrag (indent : Nat) (span : Span) (pfx : List Rune) (lines : List (List Rune)) :
    FmtFrag :=
  let fullPrefix := tabs indent ++ pfx
  ⟨span.start.line, span.end_.line + 1,
    joinWith [cNL] (lines.map fun part => trimRightSpaces (fullPrefix ++ part)) ++ [cNL]⟩

/-- `doBlockHeader`'s token list -/
def headerTokens (b : BlockHeader) : List Token :=
  referenceTokens b.type ++
  b.tags.flatMap (fun t => newToken .space [cSP] :: tagTokens t) ++
  b.qualifiers.flatMap (fun t => newToken .colon [58] :: tagTokens t) ++
  (if b.isOpen then [newToken .space [cSP], newToken .lbrace [123]] else []) ++
  (match b.description with
   | some d => newToken .space [cSP] :: d.tokens
   | none => [])

/-- `doAssignment`'s token list -/
def assignTokens (a : Assignment) : List Token :=
  referenceTokens a.key ++
  (if a.append then
    [newToken .space [cSP], newToken .plus [43], newToken .assign [61], newToken .space [cSP]]
   else [newToken .space [cSP], newToken .assign [61], newToken .space [cSP]]) ++
  valueTokens a.value

/-- one step of `fmter.diffFile`: the fragment's edit and the new indent -/
def fmtFragment (cls : Cls) (indent : Nat) : Fragment → FmtFrag × Nat
  | .header h => (singleLineFrag indent h.src (headerTokens h), if h.isOpen then indent + 1 else indent)
  | .close c =>
    let indent' := indent - 1        -- `p.indent--; if p.indent < 0 { p.indent = 0 }`
    (singleLineFrag indent' ⟨c.span.start, c.span.end_, none⟩ [c.token], indent')
  | .assign a => (singleLineFrag indent a.src (assignTokens a), indent)
  | .desc d =>
    let linesOut := reformatDescription cls d.value (80 - (indent : Int) * 4)
    -- a description without text keeps its marker (fix 528f326)
    (multiLineFrag indent d.span [cPIPE, cSP] (if linesOut = [] then [[]] else linesOut), indent)
  | .comment c => (singleLineFrag indent ⟨c.span.start, c.span.end_, none⟩ [c.token], indent)

/-- `fmter.diffFile(fragments)` -/
def diffFile (cls : Cls) : Nat → List Fragment → List FmtFrag
  | _, [] => []
  | indent, f :: fs => let (d, i) := fmtFragment cls indent f; d :: diffFile cls i fs

/-- outcome of `collectFmtFragments` -/
inductive FragsOut where
  | ok (frags : List Fragment)
  | err
  | panic (why : String)
  deriving Repr

/-- the lexer + walker part of `collectFmtFragments(input)` (both fail-fast) -/
def collectFragments (cls : Cls) (src : List Rune) : FragsOut :=
  match allTokens cls true src with
  | .nofuel => .panic "lexer fuel"
  | .errs _ => .err
  | .toks ts =>
    match walkFragments true ts with
    | .panic s => .panic s
    | .hadErrors _ => .err
    | .done frags _ => .ok frags

/-- the joining loop of `Fmt` -/
def fmtJoin : List FmtFrag → Option Nat → List Rune
  | [], _ => []
  | d :: ds, lastEnd =>
    (match lastEnd with
     | some e => if d.fromLine > e then [cNL] else []
     | none => []) ++ d.newText ++ fmtJoin ds (some d.toLine)

inductive FmtOut where
  | ok (text : List Rune)
  | err
  | panic (why : String)
  deriving Repr

/-- `Fmt(input)` -/
def fmt (cls : Cls) (src : List Rune) : FmtOut :=
  match collectFragments cls src with
  | .panic s => .panic s
  | .err => .err
  | .ok frags => .ok (fmtJoin (diffFile cls 0 frags) none)

end J5V.Bcl
