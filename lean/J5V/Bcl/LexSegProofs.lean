import J5V.Bcl.FmtInv
import J5V.Bcl.LexerProofs
/-!
# The lexer reads back the text the formatter prints (`LexAll` / `LexSeg` lemmas for C09)

* A. algebra of `LexAll` / `LexSeg`: `LexAll.allTokens`, `LexAll.congr`, `LexSeg.nil`,
  `LexSeg.append`, `LexSeg.skip`, `LexSeg.token`, `LexSeg.eol`;
* B. a rendered part list: `LexSeg.parts`;
* C. a `singleLineTokens` line: `LexSeg.singleLine`;
* D. a re-flowed description: `LexSeg.descFrag`.
-/
namespace J5V.Bcl

/-! ## A. `LexAll` / `LexSeg` algebra -/

/-- the token loop on a `LexAll` input returns its tokens (any fuel above the input length) -/
theorem LexAll.loop {cls : Cls} (ff : Bool) {c : Cur} {rest : List Rune} {out : List Token}
    (h : LexAll cls c rest out) :
    ∀ (fuel : Nat) (toks : List Token), rest.length < fuel →
      allTokensLoop cls ff fuel c rest toks [] = .toks (toks ++ out) := by
  induction h with
  | eof he hty =>
    intro fuel toks hf
    cases fuel with
    | zero => omega
    | succ fuel =>
      unfold allTokensLoop
      simp only [he, hty, if_true, List.isEmpty_nil, List.append_nil]
  | @step c rest out he hty _ ih =>
    intro fuel toks hf
    cases fuel with
    | zero => omega
    | succ fuel =>
      have hlen : (nextToken cls c rest).rest.length < fuel := by
        cases rest with
        | nil => exact absurd rfl hty
        | cons r rs =>
          have := nextToken_progress cls c r rs
          omega
      unfold allTokensLoop
      simp only [he, hty, if_false]
      rw [ih fuel (toks ++ [(nextToken cls c (rest)).tok]) hlen]
      simp

theorem LexAll.allTokens {cls : Cls} {src : List Rune} {out : List Token} (ff : Bool)
    (h : LexAll cls Cur.init src out) : allTokens cls ff src = .toks out := by
  unfold J5V.Bcl.allTokens
  rw [LexAll.loop ff h (src.length + 2) [] (by omega)]
  simp

/-- `LexAll` only depends on the value of `nextToken` -/
theorem LexAll.congr {cls : Cls} {c c' : Cur} {rest rest' : List Rune} {out : List Token}
    (e : nextToken cls c rest = nextToken cls c' rest') (h : LexAll cls c rest out) :
    LexAll cls c' rest' out := by
  cases h with
  | eof he hty =>
    rw [e] at he hty
    exact .eof he hty
  | step he hty hrest =>
    rw [e] at he hty hrest ⊢
    exact .step he hty hrest

theorem LexAll.congr_iff {cls : Cls} {c c' : Cur} {rest rest' : List Rune} {out : List Token}
    (e : nextToken cls c rest = nextToken cls c' rest') :
    LexAll cls c rest out ↔ LexAll cls c' rest' out :=
  ⟨LexAll.congr e, LexAll.congr e.symm⟩

theorem LexSeg.nil {cls : Cls} {c : Cur} {tail : List Rune} : LexSeg cls c [] tail [] c := by
  intro out h
  simpa using h

theorem LexSeg.append {cls : Cls} {c c1 c2 : Cur} {t1 t2 tail : List Rune} {n1 n2 : List Token}
    (h1 : LexSeg cls c t1 (t2 ++ tail) n1 c1) (h2 : LexSeg cls c1 t2 tail n2 c2) :
    LexSeg cls c (t1 ++ t2) tail (n1 ++ n2) c2 := by
  intro out h
  have := h1 (n2 ++ out) (h2 out h)
  simpa only [List.append_assoc] using this

theorem LexSeg.skip {cls : Cls} {c c' : Cur} {r : Rune} {text tail : List Rune} {new : List Token}
    (hs : cls.isSpace r = true) (hr : r = cSP ∨ r = cTAB)
    (h : LexSeg cls (c.adv r) text tail new c') : LexSeg cls c (r :: text) tail new c' := by
  intro out ho
  have h1 := h out ho
  have e : nextToken cls c (r :: (text ++ tail)) = nextToken cls (c.adv r) (text ++ tail) := by
    rcases hr with rfl | rfl
    · exact nextToken_skip_space cls c cSP hs (by decide) (by decide) (by decide) (by decide)
        (by decide) _
    · exact nextToken_skip_space cls c cTAB hs (by decide) (by decide) (by decide) (by decide)
        (by decide) _
  exact LexAll.congr e.symm h1

/-- leading tabs are skipped -/
theorem LexSeg.skipTabs {cls : Cls} (hcls : ClsOK cls) (n : Nat) (c : Cur) :
    ∃ c1, ∀ (text tail : List Rune) (new : List Token) (c' : Cur),
      LexSeg cls c1 text tail new c' → LexSeg cls c (tabs n ++ text) tail new c' := by
  induction n generalizing c with
  | zero => exact ⟨c, fun text tail new c' h => by simpa [tabs] using h⟩
  | succ n ih =>
    obtain ⟨c1, h1⟩ := ih (c.adv cTAB)
    refine ⟨c1, fun text tail new c' h => ?_⟩
    have : tabs (n + 1) ++ text = cTAB :: (tabs n ++ text) := by
      simp [tabs, List.replicate_succ]
    rw [this]
    exact LexSeg.skip hcls.tabSpace (Or.inr rfl) (h1 text tail new c' h)

/-- one `nextToken` step that stops in front of `tail` is a one-token segment -/
theorem LexSeg.ofStep {cls : Cls} {c : Cur} {text tail : List Rune}
    (he : (nextToken cls c (text ++ tail)).err = none)
    (hty : (nextToken cls c (text ++ tail)).tok.ty ≠ .eof)
    (hrest : (nextToken cls c (text ++ tail)).rest = tail) :
    LexSeg cls c text tail [(nextToken cls c (text ++ tail)).tok]
      (nextToken cls c (text ++ tail)).cur := by
  intro out h
  have h' : LexAll cls (nextToken cls c (text ++ tail)).cur (nextToken cls c (text ++ tail)).rest
      out := by
    rw [hrest]; exact h
  exact LexAll.step he hty h'

theorem LexSeg.ofLexesTo {cls : Cls} {c : Cur} {text tail : List Rune} {ty : TokenType}
    {lit : List Rune} (h : LexesTo cls c text tail ty lit) (hne : ty ≠ .eof) :
    ∃ tok c', tok.ty = ty ∧ tok.lit = lit ∧ LexSeg cls c text tail [tok] c' := by
  obtain ⟨h1, h2, h3, h4⟩ := h
  exact ⟨_, _, h2, h3, LexSeg.ofStep h1 (by rw [h2]; exact hne) h4⟩

/-! ### one token: `tokenSource` is read back (all kinds, as `C09_token_inv`) -/

theorem lexesTo_string (cls : Cls) (c : Cur) (tok : Token) (h : tok.ty = .string)
    (rest : List Rune) : LexesTo cls c (tokenSource tok) rest .string tok.lit := by
  unfold tokenSource LexesTo
  rw [h]
  obtain ⟨s, hs, h1, h2, h3, h4⟩ := nextToken_string cls c tok.lit rest
  subst hs
  exact ⟨h1, h2, h3, h4⟩

theorem lexesTo_regex (cls : Cls) (c : Cur) (tok : Token) (h : tok.ty = .regex)
    (hwf : RegexLitWF tok.lit) (rest : List Rune) (hrest : rest.head? ≠ some cSLASH) :
    LexesTo cls c (tokenSource tok) rest .regex tok.lit := by
  unfold tokenSource LexesTo
  rw [h]
  obtain ⟨s, hs, h1, h2, h3, h4⟩ := nextToken_regex cls c tok.lit rest hwf hrest
  subst hs
  simp only [List.append_assoc] at h1 h2 h3 h4 ⊢
  exact ⟨h1, h2, h3, h4⟩

theorem lexesTo_identlike (cls : Cls) (c : Cur) (tok : Token)
    (h : tok.ty = .ident ∨ tok.ty = .bool) (hwf : IdentLitWF cls tok.lit) (rest : List Rune)
    (hstop : IdentStop cls rest) :
    LexesTo cls c (tokenSource tok) rest
      (if tok.lit = litTrue ∨ tok.lit = litFalse then .bool else .ident) tok.lit := by
  have : tokenSource tok = tok.lit := by
    unfold tokenSource; rcases h with h | h <;> rw [h]
  rw [this]
  exact nextToken_identlike cls c tok.lit rest hwf hstop

theorem ite_some_cases {p : Prop} [Decidable p] {a ty : TokenType} {e : Option TokenType}
    (h : (if p then some a else e) = some ty) : a = ty ∨ e = some ty := by
  by_cases hp : p
  · rw [if_pos hp] at h; exact Or.inl (Option.some.inj h)
  · rw [if_neg hp] at h; exact Or.inr h

theorem operatorOf_isOperator {r : Rune} {ty : TokenType} (h : operatorOf r = some ty) :
    ty.isOperator = true := by
  unfold operatorOf at h
  repeat (rcases ite_some_cases h with rfl | h; rfl)
  cases h

theorem lexesTo_operator (cls : Cls) (c : Cur) (tok : Token) (r : Rune)
    (hop : operatorOf r = some tok.ty) (hl : tok.lit = [r]) (rest : List Rune) :
    LexesTo cls c (tokenSource tok) rest tok.ty tok.lit := by
  have hop' : tok.ty.isOperator = true := operatorOf_isOperator hop
  have : tokenSource tok = tok.lit := by
    unfold tokenSource
    cases hty : tok.ty <;> rw [hty] at hop' <;> first | rfl | cases hop'
  rw [this, hl]
  exact nextToken_operator cls c r tok.ty hop rest

/-- the kind the lexer gives a rendered part is never EOF -/
theorem PartWF.lexTy_ne_eof {cls : Cls} {t : Token} (hwf : PartWF cls t) : lexTy t ≠ .eof := by
  unfold lexTy
  rcases hwf with ⟨hty, _⟩ | ⟨hni, hnb, hkind, _⟩
  · rw [if_pos hty]; split <;> simp
  · rw [if_neg (by simp [hni, hnb])]
    intro h
    rw [h] at hkind
    simp [TokenType.isLiteral, TokenType.isOperator] at hkind

/-- a rendered part is never the formatter's space token -/
theorem PartWF.ty_ne_space {cls : Cls} {t : Token} (hwf : PartWF cls t) : t.ty ≠ .space := by
  rcases hwf with ⟨hty, _⟩ | ⟨_, _, hkind, _⟩
  · rcases hty with h | h <;> rw [h] <;> simp
  · intro h
    rw [h] at hkind
    simp [TokenType.isLiteral, TokenType.isOperator] at hkind

/-- **the lexer inverts `tokenSource`** for every well-shaped part in front of admissible text -/
theorem PartWF.lexesTo {cls : Cls} (hcls : ClsOK cls) (c : Cur) {t : Token} (hwf : PartWF cls t)
    (rest : List Rune) (hf : FollowOK cls (lexTy t) rest) :
    LexesTo cls c (tokenSource t) rest (lexTy t) t.lit := by
  rcases hwf with ⟨hid, hlit⟩ | ⟨hni, hnb, hkind, hwf⟩
  · have hl : lexTy t = if t.lit = litTrue ∨ t.lit = litFalse then .bool else .ident := by
      unfold lexTy; rw [if_pos hid]
    rw [hl] at hf ⊢
    have hstop : IdentStop cls rest := by
      split at hf <;> exact hf
    exact lexesTo_identlike cls c t hid hlit rest hstop
  · have hl : lexTy t = t.ty := by
      unfold lexTy; rw [if_neg (by simp [hni, hnb])]
    rw [hl] at hf ⊢
    unfold TokLitWF at hwf
    unfold FollowOK at hf
    cases hty : t.ty <;> rw [hty] at hwf hf hkind <;> simp only [] at hwf hf
    case string => exact lexesTo_string cls c t hty rest
    case regex => exact lexesTo_regex cls c t hty hwf rest hf
    case ident => exact absurd hty hni
    case bool => exact absurd hty hnb
    case int =>
      obtain ⟨r, ds, h1, h2, h3⟩ := hwf
      have : tokenSource t = t.lit := by unfold tokenSource; rw [hty]
      rw [this, h1]
      exact nextToken_int cls c r ds rest h2 h3 hf
    case decimal =>
      obtain ⟨r, ds, fs, h1, h2, h3, h4, h5⟩ := hwf
      have : tokenSource t = t.lit := by unfold tokenSource; rw [hty]
      rw [this, h1]
      exact nextToken_decimal cls c r ds fs rest h2 h3 h4 h5 hf
    case comment =>
      unfold tokenSource; rw [hty]
      exact nextToken_comment cls c t.lit rest hwf hf
    case blockComment =>
      unfold tokenSource; rw [hty]
      exact nextToken_blockComment cls c t.lit rest hwf
    case description =>
      unfold tokenSource; rw [hty]
      exact nextToken_description cls hcls.spSpace c t.lit rest hwf.1 hwf.2 hf
    case assign | lbrace | rbrace | lbrack | rbrack | dot | comma | colon | plus | bang | question =>
      obtain ⟨r, h1, h2⟩ := hwf
      have := lexesTo_operator cls c t r (by rw [hty]; exact h1) h2 rest
      rwa [hty] at this
    all_goals simp [TokenType.isLiteral, TokenType.isOperator] at hkind

theorem erase_eq_canonTok {tok t : Token} (h1 : tok.ty = lexTy t) (h2 : tok.lit = t.lit) :
    tok.erase = canonTok t := by
  unfold Token.erase canonTok
  rw [h1, h2]

theorem LexSeg.token {cls : Cls} (hcls : ClsOK cls) (c : Cur) (t : Token) (hwf : PartWF cls t)
    (tail : List Rune) (hf : FollowOK cls (lexTy t) tail) :
    ∃ tok c', tok.erase = canonTok t ∧ LexSeg cls c (tokenSource t) tail [tok] c' := by
  obtain ⟨tok, c', h1, h2, h3⟩ :=
    LexSeg.ofLexesTo (PartWF.lexesTo hcls c hwf tail hf) hwf.lexTy_ne_eof
  exact ⟨tok, c', erase_eq_canonTok h1 h2, h3⟩

/-- a newline is read as the EOL token -/
theorem nextToken_eol (cls : Cls) (c : Cur) (rest : List Rune) :
    nextToken cls c (cNL :: rest) =
      ⟨mkTok .eol [cNL] (c.adv cNL).pos (c.adv cNL).pos, none, c.adv cNL, rest⟩ := by
  unfold nextToken
  have h0 : operatorOf cNL = none := by decide
  have h1 : ¬ (cNL = cSLASH) := by decide
  have h2 : ¬ (cNL = cQUOTE) := by decide
  have h3 : ¬ (cNL = cPIPE) := by decide
  simp only [h0, h1, h2, h3, if_false, if_true]

theorem LexSeg.eol {cls : Cls} (c : Cur) (tail : List Rune) :
    ∃ tok c', tok.erase = eolTok ∧ LexSeg cls c [cNL] tail [tok] c' := by
  have h : LexesTo cls c [cNL] tail .eol [cNL] := by
    unfold LexesTo
    show (nextToken cls c (cNL :: tail)).err = none ∧ _
    rw [nextToken_eol]
    exact ⟨rfl, rfl, rfl, rfl⟩
  obtain ⟨tok, c', h1, h2, h3⟩ := LexSeg.ofLexesTo h (by decide)
  refine ⟨tok, c', ?_, h3⟩
  unfold Token.erase eolTok
  rw [h1, h2]

/-! ## B. a rendered part list -/

theorem canonParts_cons_space {t : Token} (ps : List Token) (h : t.ty = .space) :
    canonParts (t :: ps) = canonParts ps := by
  unfold canonParts
  rw [List.filter_cons_of_neg (by simp [h])]

theorem canonParts_cons {t : Token} (ps : List Token) (h : t.ty ≠ .space) :
    canonParts (t :: ps) = canonTok t :: canonParts ps := by
  unfold canonParts
  rw [List.filter_cons_of_pos (by simp [h]), List.map_cons]

theorem LexSeg.parts {cls : Cls} (hcls : ClsOK cls) :
    ∀ (ps : List Token) (c : Cur) (tail : List Rune), PartsOK cls ps tail →
      ∃ new c', new.map Token.erase = canonParts ps ∧
        LexSeg cls c (ps.flatMap tokenSource) tail new c' := by
  intro ps
  induction ps with
  | nil =>
    intro c tail _
    exact ⟨[], c, rfl, by simpa using LexSeg.nil⟩
  | cons t ps ih =>
    intro c tail hp
    obtain ⟨ht, hps⟩ := hp
    rw [List.flatMap_cons]
    rcases ht with ⟨hty, hlit⟩ | ⟨hwf, hf⟩
    · -- the formatter's space: skipped
      have hsrc : tokenSource t = [cSP] := by
        unfold tokenSource; rw [hty]; exact hlit
      obtain ⟨new, c', h1, h2⟩ := ih (c.adv cSP) tail hps
      refine ⟨new, c', by rw [h1, canonParts_cons_space ps hty], ?_⟩
      rw [hsrc]
      exact LexSeg.skip hcls.spSpace (Or.inl rfl) h2
    · obtain ⟨tok, c1, h1, h2⟩ := LexSeg.token hcls c t hwf _ hf
      obtain ⟨new, c', h3, h4⟩ := ih c1 tail hps
      refine ⟨[tok] ++ new, c', ?_, LexSeg.append h2 h4⟩
      rw [canonParts_cons ps hwf.ty_ne_space, List.map_append, h3]
      simp [h1]

/-! ## C. a whole `singleLineTokens` line -/

/-- the trailing comment of a line (or nothing) in front of the newline -/
theorem LexSeg.trailingComment {cls : Cls} (hcls : ClsOK cls) (cm : Option CommentNode)
    (hcm : CommentNodeWF cm) (c : Cur) (tail : List Rune) :
    ∃ new c', new.map Token.erase = commentToks cm ∧
      LexSeg cls c (inlineComment cm) (cNL :: tail) new c' := by
  cases cm with
  | none => exact ⟨[], c, rfl, LexSeg.nil⟩
  | some cn =>
    have hv : ∀ r ∈ cn.value, r ≠ cNL := hcm cn rfl
    have hl : LexesTo cls (c.adv cSP) ([cSLASH, cSLASH] ++ cn.value) (cNL :: tail) .comment
        cn.value :=
      nextToken_comment cls (c.adv cSP) cn.value (cNL :: tail) hv (Or.inr rfl)
    obtain ⟨tok, c', h1, h2, h3⟩ := LexSeg.ofLexesTo hl (by decide)
    refine ⟨[tok], c', ?_, ?_⟩
    · simp only [List.map_cons, List.map_nil, commentToks, Token.erase, h1, h2]
    · show LexSeg cls c (cSP :: ([cSLASH, cSLASH] ++ cn.value)) (cNL :: tail) [tok] c'
      exact LexSeg.skip hcls.spSpace (Or.inl rfl) h3

theorem LexSeg.singleLine {cls : Cls} (hcls : ClsOK cls) (indent : Nat) (src : SourceNode)
    (parts : List Token) (c : Cur) (tail : List Rune) (hcm : CommentNodeWF src.comment)
    (hp : PartsOK cls parts (inlineComment src.comment ++ cNL :: tail)) :
    ∃ new c', new.map Token.erase = lineToks parts src.comment ∧
      LexSeg cls c (singleLineFrag indent src parts).newText tail new c' := by
  obtain ⟨c1, htabs⟩ := LexSeg.skipTabs hcls indent c
  obtain ⟨n1, c2, e1, s1⟩ := LexSeg.parts hcls parts c1 _ hp
  obtain ⟨n2, c3, e2, s2⟩ := LexSeg.trailingComment hcls src.comment hcm c2 tail
  obtain ⟨tok, c4, e3, s3⟩ := LexSeg.eol (cls := cls) c3 tail
  have s2' : LexSeg cls c2 (inlineComment src.comment) ([cNL] ++ tail) n2 c3 := s2
  have s23 := LexSeg.append s2' s3
  have s1' : LexSeg cls c1 (parts.flatMap tokenSource)
      ((inlineComment src.comment ++ [cNL]) ++ tail) n1 c2 := by
    simpa only [List.append_assoc, List.singleton_append] using s1
  have s123 := LexSeg.append s1' s23
  refine ⟨n1 ++ (n2 ++ [tok]), c4, ?_, ?_⟩
  · unfold lineToks
    simp only [List.map_append, List.map_cons, List.map_nil, e1, e2, e3, List.append_assoc]
  · have := htabs _ tail _ c4 s123
    show LexSeg cls c (tabs indent ++ (parts.flatMap tokenSource ++
      inlineComment src.comment) ++ [cNL]) tail _ c4
    simpa only [List.append_assoc] using this

/-! ## D. a re-flowed description -/

/-- lines joined by newlines plus a final newline: every line followed by a newline -/
theorem joinWith_nl_map {α : Type} (f : α → List Rune) : ∀ (xs : List α), xs ≠ [] →
    joinWith [cNL] (xs.map f) ++ [cNL] = xs.flatMap (fun x => f x ++ [cNL])
  | [], h => absurd rfl h
  | [a], _ => by simp [joinWith]
  | a :: b :: rest, _ => by
    have ih := joinWith_nl_map f (b :: rest) (by simp)
    simp only [List.map_cons, joinWith, List.flatMap_cons, List.append_assoc] at ih ⊢
    rw [ih]

theorem trimRightSpaces_concat (s : List Rune) (x : Rune) (hx : x ≠ cSP) :
    trimRightSpaces (s ++ [x]) = s ++ [x] := by
  simp [trimRightSpaces, hx]

theorem trimRightSpaces_concat_sp (s : List Rune) (x : Rune) (hx : x ≠ cSP) :
    trimRightSpaces (s ++ [x, cSP]) = s ++ [x] := by
  simp [trimRightSpaces, List.dropWhile, hx]

/-- shape of a printed description line: no newline, no white space at either end -/
structure DescLineOK (cls : Cls) (l : List Rune) : Prop where
  noNL : ∀ r ∈ l, r ≠ cNL
  head : ∀ r, l.head? = some r → cls.isSpace r = false
  last : ∀ r, l.getLast? = some r → cls.isSpace r = false

theorem DescLineOK.nil (cls : Cls) : DescLineOK cls [] where
  noNL := by intro r h; cases h
  head := by intro r h; simp at h
  last := by intro r h; simp at h

theorem renderLine_last (P : Rune → Prop) : ∀ (ws : List (List Rune)),
    (∀ w ∈ ws, w ≠ [] ∧ ∀ r ∈ w, P r) → ∀ r, (renderLine ws).getLast? = some r → P r
  | [], _, r, h => by simp [renderLine, joinWith] at h
  | [a], hw, r, h => by
    have e : renderLine [a] = a := by simp [renderLine, joinWith]
    rw [e] at h
    exact (hw a (by simp)).2 r (List.mem_of_getLast? h)
  | a :: b :: rest, hw, r, h => by
    have e : renderLine (a :: b :: rest) = a ++ [cSP] ++ renderLine (b :: rest) := by
      simp [renderLine, joinWith]
    have hne : renderLine (b :: rest) ≠ [] := by
      intro e0
      have := (renderLine_eq_nil (b :: rest) (fun w hw' => (hw w (by simp [hw'])).1)).mp e0
      cases this
    rw [e, List.getLast?_append] at h
    cases hl : (renderLine (b :: rest)).getLast? with
    | none => exact absurd (List.getLast?_eq_none_iff.mp hl) hne
    | some y =>
      rw [hl] at h
      simp at h
      subst h
      exact renderLine_last P (b :: rest) (fun w hw' => hw w (by simp [hw'])) y hl

theorem renderLine_head (P : Rune → Prop) (ws : List (List Rune))
    (hw : ∀ w ∈ ws, w ≠ [] ∧ ∀ r ∈ w, P r) : ∀ r, (renderLine ws).head? = some r → P r := by
  intro r h
  cases ws with
  | nil => simp [renderLine, joinWith] at h
  | cons a as =>
    obtain ⟨hne, hP⟩ := hw a (by simp)
    cases a with
    | nil => exact absurd rfl hne
    | cons x a' =>
      have : (renderLine ((x :: a') :: as)).head? = some x := by
        cases as with
        | nil => simp [renderLine, joinWith]
        | cons b rest => simp [renderLine, joinWith]
      rw [this] at h
      have hx : x = r := by simpa using h
      subst hx
      exact hP x (by simp)

theorem renderLine_descLineOK (cls : Cls) (ws : List (List Rune))
    (h : ∀ w ∈ ws, w ≠ [] ∧ DescWord cls w) : DescLineOK cls (renderLine ws) := by
  have hnl := renderLine_no_nl ws (fun w hw => (h w hw).2.2)
  have hw : ∀ w ∈ ws, w ≠ [] ∧ ∀ r ∈ w, cls.isSpace r = false :=
    fun w hw => ⟨(h w hw).1, (h w hw).2.1⟩
  exact ⟨fun r hr e => hnl (e ▸ hr), renderLine_head _ ws hw, renderLine_last _ ws hw⟩

/-- the lines `doDescription` prints: at least one, each of the printed shape -/
theorem descLines_ok (cls : Cls) (indent : Nat) (d : Description) :
    descLines cls indent d ≠ [] ∧ ∀ l ∈ descLines cls indent d, DescLineOK cls l := by
  unfold descLines
  simp only []
  rw [reformat_eq_layout]
  obtain ⟨linesW, h1, h2, _⟩ :=
    layout_rep cls (80 - (indent : Int) * 4) _ (items_desc_words cls d.value)
  rw [h1]
  split
  · refine ⟨by simp, fun l hl => ?_⟩
    have : l = [] := by simpa using hl
    subst this
    exact DescLineOK.nil cls
  · rename_i hne
    refine ⟨hne, fun l hl => ?_⟩
    obtain ⟨ws, hws, rfl⟩ := List.mem_map.mp hl
    exact renderLine_descLineOK cls ws (h2 ws hws)

/-- what is printed for a line: the empty line loses the space after the marker, nothing else is
trimmed -/
theorem printed_nil (indent : Nat) :
    trimRightSpaces ((tabs indent ++ [cPIPE, cSP]) ++ []) = tabs indent ++ [cPIPE] := by
  rw [List.append_nil]
  exact trimRightSpaces_concat_sp (tabs indent) cPIPE (by decide)

theorem printed_ne {cls : Cls} (hcls : ClsOK cls) (indent : Nat) {l : List Rune} (hl : l ≠ [])
    (hok : DescLineOK cls l) :
    trimRightSpaces ((tabs indent ++ [cPIPE, cSP]) ++ l) = (tabs indent ++ [cPIPE, cSP]) ++ l := by
  rcases List.eq_nil_or_concat l with h | ⟨l', x, h⟩
  · exact absurd h hl
  · rw [List.concat_eq_append] at h
    subst h
    have hx : x ≠ cSP := by
      intro e
      have := hok.last x List.getLast?_concat
      rw [e, hcls.spSpace] at this
      cases this
    rw [← List.append_assoc]
    exact trimRightSpaces_concat _ x hx

/-- `|` directly in front of the newline: a DESCRIPTION token with the empty literal -/
theorem lexesTo_description_empty (cls : Cls) (c : Cur) (rest : List Rune) :
    LexesTo cls c [cPIPE] (cNL :: rest) .description [] := by
  have hd : lexDescriptionLine cls (c.adv cPIPE) (cNL :: rest) =
      ⟨[], c.adv cPIPE, cNL :: rest, none⟩ := by
    simp [lexDescriptionLine, skipWhitespace, lexLineLoop]
  have hn : nextToken cls c (cPIPE :: cNL :: rest) =
      litStep .description (c.adv cPIPE).pos ⟨[], c.adv cPIPE, cNL :: rest, none⟩ := by
    unfold nextToken
    have h0 : operatorOf cPIPE = none := by decide
    have h1 : ¬ (cPIPE = cSLASH) := by decide
    have h2 : ¬ (cPIPE = cQUOTE) := by decide
    simp only [h0, h1, h2, if_false, if_true, hd]
  unfold LexesTo
  simp only [List.cons_append, List.nil_append]
  rw [hn]
  exact ⟨rfl, rfl, rfl, rfl⟩

theorem erase_eq_descTok {tok : Token} {l : List Rune} (h1 : tok.ty = .description)
    (h2 : tok.lit = l) : tok.erase = descTok l := by
  unfold Token.erase descTok
  rw [h1, h2]

/-- one printed description line with its newline -/
theorem LexSeg.descLine {cls : Cls} (hcls : ClsOK cls) (indent : Nat) (l : List Rune)
    (hok : DescLineOK cls l) (c : Cur) (tail : List Rune) :
    ∃ new c', new.map Token.erase = [descTok l, eolTok] ∧
      LexSeg cls c (trimRightSpaces ((tabs indent ++ [cPIPE, cSP]) ++ l) ++ [cNL]) tail new c' := by
  obtain ⟨c1, htabs⟩ := LexSeg.skipTabs hcls indent c
  by_cases hl : l = []
  · subst hl
    rw [printed_nil]
    obtain ⟨tok, c2, h1, h2, s1⟩ :=
      LexSeg.ofLexesTo (lexesTo_description_empty cls c1 tail) (by decide)
    obtain ⟨tok2, c3, e2, s2⟩ := LexSeg.eol (cls := cls) c2 tail
    have s1' : LexSeg cls c1 [cPIPE] ([cNL] ++ tail) [tok] c2 := s1
    have e1 : tok.erase = descTok _ := erase_eq_descTok h1 h2
    refine ⟨[tok] ++ [tok2], c3, ?_, ?_⟩
    · simp only [List.map_cons, List.map_nil, List.cons_append, List.nil_append, e1, e2]
    · have := htabs _ tail _ c3 (LexSeg.append s1' s2)
      simpa only [List.append_assoc] using this
  · rw [printed_ne hcls indent hl hok]
    have hlx : LexesTo cls c1 ([cPIPE, cSP] ++ l) (cNL :: tail) .description l :=
      nextToken_description cls hcls.spSpace c1 l (cNL :: tail) hok.noNL hok.head (Or.inr rfl)
    obtain ⟨tok, c2, h1, h2, s1⟩ := LexSeg.ofLexesTo hlx (by decide)
    obtain ⟨tok2, c3, e2, s2⟩ := LexSeg.eol (cls := cls) c2 tail
    have s1' : LexSeg cls c1 ([cPIPE, cSP] ++ l) ([cNL] ++ tail) [tok] c2 := s1
    have e1 : tok.erase = descTok _ := erase_eq_descTok h1 h2
    refine ⟨[tok] ++ [tok2], c3, ?_, ?_⟩
    · simp only [List.map_cons, List.map_nil, List.cons_append, List.nil_append, e1, e2]
    · have := htabs _ tail _ c3 (LexSeg.append s1' s2)
      simpa only [List.append_assoc] using this

/-- all printed description lines, each with its newline -/
theorem LexSeg.descLinesAux {cls : Cls} (hcls : ClsOK cls) (indent : Nat) :
    ∀ (lines : List (List Rune)), (∀ l ∈ lines, DescLineOK cls l) → ∀ (c : Cur) (tail : List Rune),
      ∃ new c', new.map Token.erase = descLineToks lines ∧
        LexSeg cls c (lines.flatMap fun l =>
          trimRightSpaces ((tabs indent ++ [cPIPE, cSP]) ++ l) ++ [cNL]) tail new c' := by
  intro lines
  induction lines with
  | nil =>
    intro _ c tail
    exact ⟨[], c, rfl, by simpa using LexSeg.nil⟩
  | cons l ls ih =>
    intro hok c tail
    obtain ⟨n1, c1, e1, s1⟩ := LexSeg.descLine hcls indent l (hok l (by simp)) c
      ((ls.flatMap fun l => trimRightSpaces ((tabs indent ++ [cPIPE, cSP]) ++ l) ++ [cNL]) ++ tail)
    obtain ⟨n2, c2, e2, s2⟩ := ih (fun x hx => hok x (by simp [hx])) c1 tail
    refine ⟨n1 ++ n2, c2, ?_, ?_⟩
    · rw [List.map_append, e1, e2]
      simp [descLineToks]
    · rw [List.flatMap_cons]
      exact LexSeg.append s1 s2

theorem LexSeg.descFrag {cls : Cls} (hcls : ClsOK cls) (indent : Nat) (d : Description)
    (span : Span) (c : Cur) (tail : List Rune) :
    ∃ new c', new.map Token.erase = descLineToks (descLines cls indent d) ∧
      LexSeg cls c (multiLineFrag indent span [cPIPE, cSP] (descLines cls indent d)).newText tail
        new c' := by
  obtain ⟨hne, hok⟩ := descLines_ok cls indent d
  have htext : (multiLineFrag indent span [cPIPE, cSP] (descLines cls indent d)).newText =
      (descLines cls indent d).flatMap fun l =>
        trimRightSpaces ((tabs indent ++ [cPIPE, cSP]) ++ l) ++ [cNL] := by
    unfold multiLineFrag
    exact joinWith_nl_map _ _ hne
  rw [htext]
  exact LexSeg.descLinesAux hcls indent _ hok c tail

end J5V.Bcl
