import J5V.Bcl.DiffProofs
import J5V.Bcl.PosLines
/-!
# Applying the edits of `FmtDiffs` gives the formatter's text (lemmas for `C19_apply_eq_fmt`)

Line-level view: `cat ls` is the text of the lines `ls`, each terminated by `\n`; `seg L a b` is the
text of lines `a … b-1`.
-/
namespace J5V.Bcl
open J5V.Go

def cat (ls : List (List Nat)) : List Nat := ls.flatMap (fun l => l ++ [cNL])

@[simp] theorem cat_nil : cat [] = [] := rfl
@[simp] theorem cat_cons (l : List Nat) (ls : List (List Nat)) : cat (l :: ls) = l ++ [cNL] ++ cat ls := by
  simp [cat]
theorem cat_append (a b : List (List Nat)) : cat (a ++ b) = cat a ++ cat b := by
  simp [cat]

theorem joinWith_nl_cat : ∀ (ls : List (List Nat)), ls ≠ [] → joinWith [cNL] ls ++ [cNL] = cat ls
  | [], h => absurd rfl h
  | [a], _ => by simp [joinWith]
  | a :: b :: rest, _ => by
    have ih := joinWith_nl_cat (b :: rest) (by simp)
    simp only [joinWith, cat_cons] at ih ⊢
    simp only [List.append_assoc] at ih ⊢
    rw [ih]

/-- text of lines `a … b-1` -/
def seg (L : List (List Nat)) (a b : Nat) : List Nat := cat ((L.drop a).take (b - a))

theorem seg_self (L : List (List Nat)) (a : Nat) : seg L a a = [] := by simp [seg]

theorem seg_split (L : List (List Nat)) {a b c : Nat} (h1 : a ≤ b) (h2 : b ≤ c) :
    seg L a c = seg L a b ++ seg L b c := by
  unfold seg
  have : c - a = (b - a) + (c - b) := by omega
  rw [this, List.take_add, cat_append, List.drop_drop]
  have : a + (b - a) = b := by omega
  rw [this]

theorem seg_single (L : List (List Nat)) {a : Nat} (h : a < L.length) :
    seg L a (a + 1) = L[a] ++ [cNL] := by
  unfold seg
  have : a + 1 - a = 1 := by omega
  rw [this, List.drop_eq_getElem_cons h]
  simp only [List.take_succ_cons, List.take_zero, cat_cons, cat_nil, List.append_nil]

theorem seg_drop (L : List (List Nat)) (a : Nat) : cat (L.drop a) = seg L a L.length := by
  unfold seg
  rw [List.take_of_length_le]
  simp

/-- `rangeLines` is the text of the lines -/
theorem rangeLines_seg {L : List (List Nat)} {a b : Nat} (h1 : a < b) (h2 : b ≤ L.length) :
    rangeLines L a b = .ok (seg L a b) := by
  rw [rangeLines_ok (Nat.le_of_lt h1) h2]
  congr 1
  unfold seg
  rw [List.drop_take]
  apply joinWith_nl_cat
  intro h
  have := congrArg List.length h
  simp at this
  omega

/-! ## The edit loop without accumulator -/

def gapB (L : List (List Nat)) (lastEnd from_ : Nat) : Bool :=
  decide (from_ > lastEnd + 1) || (decide (from_ = lastEnd + 1) && decide (L.getD lastEnd [] ≠ []))

def loopEdits (L : List (List Nat)) : List Edit → Nat → List Edit
  | [], _ => []
  | d :: ds, lastEnd =>
    (if gapB L lastEnd d.fromLine then [(⟨lastEnd, d.fromLine, [cNL]⟩ : Edit)] else []) ++
    (if seg L d.fromLine d.toLine ≠ d.newText then [d] else []) ++ loopEdits L ds d.toLine

theorem gapNeeded_eq {L : List (List Nat)} {lastEnd from_ : Nat} (h : from_ < L.length) :
    gapNeeded L lastEnd from_ = .ok (gapB L lastEnd from_) := by
  unfold gapNeeded gapB
  by_cases h1 : from_ > lastEnd + 1
  · simp [h1]
  · simp only [h1, if_false, decide_false, Bool.false_or]
    by_cases h2 : from_ = lastEnd + 1
    · have hl : lastEnd < L.length := by omega
      simp only [h2, if_true, decide_true, Bool.true_and]
      rw [List.getElem?_eq_getElem hl]
      simp [List.getD, List.getElem?_eq_getElem hl]
    · simp [h2]

theorem fmtDiffsLoop_eq (L : List (List Nat)) (ds : List Edit) (lastEnd : Nat)
    (h : FragsWF L.length lastEnd ds) (out : List Edit) :
    fmtDiffsLoop L ds lastEnd out = .ok (out ++ loopEdits L ds lastEnd) := by
  induction ds generalizing lastEnd out with
  | nil => simp [fmtDiffsLoop, loopEdits]
  | cons d ds ih =>
    obtain ⟨h1, h2, h3, h4⟩ := h
    unfold fmtDiffsLoop loopEdits
    rw [gapNeeded_eq (by omega), rangeLines_seg h2 h3]
    simp only []
    rw [ih d.toLine h4]
    congr 1
    cases gapB L lastEnd d.fromLine <;> by_cases hx : seg L d.fromLine d.toLine = d.newText <;>
      simp [hx]

/-! ## Applying edits line-wise -/

/-- the document (every line `\n`-terminated) with the edits applied, from line `c` on -/
def applyLines (L : List (List Nat)) : Nat → List Edit → List Nat
  | c, [] => seg L c L.length
  | c, e :: es => seg L c e.fromLine ++ e.newText ++ applyLines L e.toLine es

/-- end line of the last fragment -/
def lastTo : List Edit → Nat → Nat
  | [], lo => lo
  | d :: ds, _ => lastTo ds d.toLine

theorem applyLines_loop (L : List (List Nat)) :
    ∀ (ds : List Edit) (lastEnd c : Nat), FragsWF L.length lastEnd ds → c ≤ lastEnd →
      lastEnd ≤ L.length →
      applyLines L c (loopEdits L ds lastEnd) =
        seg L c lastEnd ++ joinFrags ds (some lastEnd) ++ seg L (lastTo ds lastEnd) L.length := by
  intro ds
  induction ds with
  | nil =>
    intro lastEnd c _ hc hl
    simp only [loopEdits, applyLines, joinFrags, lastTo, List.append_nil]
    exact seg_split L hc hl
  | cons d ds ih =>
    intro lastEnd c hwf hc hl
    obtain ⟨h1, h2, h3, h4⟩ := hwf
    simp only [loopEdits, joinFrags, lastTo]
    have ihto := fun c' (hc' : c' ≤ d.toLine) => ih d.toLine c' h4 hc' h3
    -- the text between `lastEnd` and the fragment
    have hgapText : gapB L lastEnd d.fromLine = false →
        seg L lastEnd d.fromLine = (if d.fromLine > lastEnd then [cNL] else []) := by
      intro hg
      unfold gapB at hg
      simp only [Bool.or_eq_false_iff, decide_eq_false_iff_not, Bool.and_eq_false_iff] at hg
      obtain ⟨g1, g2⟩ := hg
      by_cases he : d.fromLine = lastEnd
      · rw [he, seg_self]; simp
      · have he2 : d.fromLine = lastEnd + 1 := by omega
        have hll : lastEnd < L.length := by omega
        rcases g2 with g2 | g2
        · exact absurd he2 g2
        · have : L[lastEnd] = [] := by
            simp only [ne_eq, Decidable.not_not] at g2
            simpa [List.getD, List.getElem?_eq_getElem hll] using g2
          rw [he2, seg_single L hll, this]
          simp
    have hgapTrue : gapB L lastEnd d.fromLine = true → d.fromLine > lastEnd := by
      intro hg
      unfold gapB at hg
      simp only [Bool.or_eq_true, decide_eq_true_eq, Bool.and_eq_true] at hg
      rcases hg with g | ⟨g, _⟩ <;> omega
    cases hg : gapB L lastEnd d.fromLine <;>
      by_cases hx : seg L d.fromLine d.toLine = d.newText
    · -- no gap edit, fragment unchanged
      simp only [hx, ne_eq, not_true_eq_false, if_false, List.nil_append, Bool.false_eq_true]
      have e1 : seg L c d.toLine = seg L c lastEnd ++ seg L lastEnd d.toLine :=
        seg_split L hc (by omega)
      have e2 : seg L lastEnd d.toLine = seg L lastEnd d.fromLine ++ seg L d.fromLine d.toLine :=
        seg_split L h1 (Nat.le_of_lt h2)
      rw [ihto c (by omega), e1, e2, hgapText hg, hx]
      simp [List.append_assoc]
    · -- no gap edit, fragment replaced
      simp only [hx, ne_eq, not_false_eq_true, if_true, List.nil_append, Bool.false_eq_true, if_false,
        List.singleton_append, applyLines]
      have e1 : seg L c d.fromLine = seg L c lastEnd ++ seg L lastEnd d.fromLine :=
        seg_split L hc h1
      rw [ihto d.toLine (Nat.le_refl _), seg_self, e1, hgapText hg]
      simp [List.append_assoc]
    · -- gap edit, fragment unchanged
      have hgt := hgapTrue hg
      simp only [hx, ne_eq, not_true_eq_false, if_false, if_true, List.append_nil,
        List.singleton_append, applyLines, hgt]
      rw [ihto d.fromLine (Nat.le_of_lt h2), hx]
      simp [List.append_assoc]
    · -- gap edit, fragment replaced
      have hgt := hgapTrue hg
      simp only [hx, ne_eq, not_false_eq_true, if_true, List.singleton_append, List.cons_append,
        List.nil_append, applyLines, hgt]
      rw [ihto d.toLine (Nat.le_refl _), seg_self, seg_self]
      simp [List.append_assoc]


/-- the edits of the merged list, without accumulator -/
def mergedEdits (L : List (List Nat)) : List Edit → List Edit
  | [] => []
  | d :: ds =>
    (if d.fromLine > 0 then [(⟨0, d.fromLine, []⟩ : Edit)] else []) ++
    (if seg L d.fromLine d.toLine ≠ d.newText then [d] else []) ++ loopEdits L ds d.toLine

theorem fmtDiffsMerged_eq (L : List (List Nat)) (M : List Edit) (h : FragsWF L.length 0 M) :
    fmtDiffsMerged L M = .ok (mergedEdits L M) := by
  cases M with
  | nil => rfl
  | cons d ds =>
    obtain ⟨_, h2, h3, h4⟩ := h
    simp only [fmtDiffsMerged, mergedEdits]
    rw [rangeLines_seg h2 h3]
    simp only []
    rw [fmtDiffsLoop_eq L ds d.toLine h4]
    congr 1
    by_cases hg : d.fromLine > 0 <;> by_cases hx : seg L d.fromLine d.toLine = d.newText <;>
      simp [hg, hx]

theorem applyLines_merged (L : List (List Nat)) (M : List Edit) (h : FragsWF L.length 0 M) :
    applyLines L 0 (mergedEdits L M) = joinFrags M none ++ seg L (lastTo M 0) L.length := by
  cases M with
  | nil => simp [mergedEdits, applyLines, joinFrags, lastTo]
  | cons d ds =>
    obtain ⟨_, h2, h3, h4⟩ := h
    have ihto := fun c' (hc' : c' ≤ d.toLine) => applyLines_loop L ds d.toLine c' h4 hc' h3
    simp only [mergedEdits, joinFrags, lastTo, List.nil_append]
    by_cases hg : d.fromLine > 0 <;> by_cases hx : seg L d.fromLine d.toLine = d.newText
    · simp only [hg, hx, ne_eq, not_true_eq_false, if_true, if_false, List.append_nil,
        List.singleton_append, applyLines, seg_self, List.nil_append]
      rw [ihto d.fromLine (Nat.le_of_lt h2), hx]
    · simp only [hg, hx, ne_eq, not_false_eq_true, if_true, List.singleton_append, List.cons_append,
        List.nil_append, applyLines, seg_self]
      rw [ihto d.toLine (Nat.le_refl _), seg_self]
      simp [List.append_assoc]
    · have h0 : d.fromLine = 0 := by omega
      simp only [hg, hx, ne_eq, not_true_eq_false, if_false, List.nil_append]
      rw [ihto 0 (Nat.zero_le _), ← hx, h0]
    · have h0 : d.fromLine = 0 := by omega
      simp only [hg, hx, ne_eq, not_false_eq_true, if_true, if_false, List.nil_append,
        List.singleton_append, applyLines]
      rw [ihto d.toLine (Nat.le_refl _), seg_self, h0, seg_self]
      simp [List.append_assoc]

/-! ## The merge pass does not change the formatter's text -/

def gapText (p : Option Nat) (from_ : Nat) : List Nat :=
  match p with
  | some e => if from_ > e then [cNL] else []
  | none => []

theorem joinFrags_cons (d : Edit) (ds : List Edit) (p : Option Nat) :
    joinFrags (d :: ds) p = gapText p d.fromLine ++ d.newText ++ joinFrags ds (some d.toLine) := by
  cases p <;> rfl

theorem joinFrags_mergeInto (n : Nat) : ∀ (ds : List Edit) (l : Edit) (p : Option Nat),
    RawWF n l.toLine ds →
    joinFrags (mergeInto l ds) p = gapText p l.fromLine ++ l.newText ++ joinFrags ds (some l.toLine) ∧
    ∀ lo, lastTo (mergeInto l ds) lo = lastTo ds l.toLine := by
  intro ds
  induction ds with
  | nil => intro l p _; simp [mergeInto, joinFrags_cons, joinFrags, lastTo]
  | cons d ds ih =>
    intro l p h
    obtain ⟨g1, g2, g3, g4⟩ := h
    unfold mergeInto
    split
    · rename_i hlt
      have hmax : max l.toLine d.toLine = d.toLine := by omega
      obtain ⟨i1, i2⟩ := ih ⟨l.fromLine, max l.toLine d.toLine, l.newText ++ d.newText⟩ p
        (by simp only [hmax]; exact g4)
      refine ⟨?_, ?_⟩
      · rw [i1, joinFrags_cons d ds]
        have : gapText (some l.toLine) d.fromLine = [] := by
          simp only [gapText]; rw [if_neg (by omega)]
        simp only [this, hmax, List.nil_append, List.append_assoc]
      · intro lo; rw [i2 lo]; simp only [hmax, lastTo]
    · rename_i hge
      obtain ⟨i1, i2⟩ := ih d (some l.toLine) g4
      refine ⟨?_, ?_⟩
      · rw [joinFrags_cons l, i1, joinFrags_cons d ds]
      · intro lo; simp only [lastTo]; exact i2 _

theorem joinFrags_mergeFrags (n : Nat) (all : List Edit) (h : RawWF n 0 all) :
    joinFrags (mergeFrags all) none = joinFrags all none ∧
      lastTo (mergeFrags all) 0 = lastTo all 0 := by
  cases all with
  | nil => exact ⟨rfl, rfl⟩
  | cons d ds =>
    obtain ⟨_, _, _, g4⟩ := h
    obtain ⟨i1, i2⟩ := joinFrags_mergeInto n ds d none g4
    exact ⟨by rw [mergeFrags, i1, joinFrags_cons], by rw [mergeFrags, i2 0]; rfl⟩

/-- what `FmtDiffs` returns, and what applying it line-wise gives -/
theorem fmtDiffs_applyLines (L : List (List Nat)) (all : List Edit) (h : RawWF L.length 0 all) :
    ∃ es, fmtDiffs L all = .ok es ∧
      applyLines L 0 es = joinFrags all none ++ seg L (lastTo all 0) L.length := by
  have hm := mergeFrags_wf L.length all h
  refine ⟨mergedEdits L (mergeFrags all), fmtDiffsMerged_eq L _ hm, ?_⟩
  rw [applyLines_merged L _ hm, (joinFrags_mergeFrags _ all h).1, (joinFrags_mergeFrags _ all h).2]


/-! ## Byte offsets (LSP) versus line indices -/

theorem sum_len_cat (ls : List (List Nat)) :
    (ls.map (fun l => l.length + 1)).sum = (cat ls).length := by
  induction ls with
  | nil => rfl
  | cons l ls ih => simp [ih]; omega

theorem doc_split : ∀ (L : List (List Nat)) (k : Nat), k < L.length →
    joinWith [cNL] L = cat (L.take k) ++ joinWith [cNL] (L.drop k)
  | L, 0, _ => by simp
  | [], k + 1, h => by simp at h
  | [a], k + 1, h => by simp at h
  | a :: b :: rest, k + 1, h => by
    have ih := doc_split (b :: rest) k (by simp at h ⊢; omega)
    simp only [joinWith, List.take_succ_cons, List.drop_succ_cons, cat_cons]
    rw [ih]
    simp [List.append_assoc]

theorem take_take_seg (L : List (List Nat)) {c k : Nat} (h : c ≤ k) :
    cat (L.take k) = cat (L.take c) ++ seg L c k := by
  unfold seg
  have : k = c + (k - c) := by omega
  conv => lhs; rw [this, List.take_add, cat_append]

theorem lineOffset_lt (L : List (List Nat)) {k : Nat} (h : k < L.length) :
    lineOffset L k = (cat (L.take k)).length := by
  unfold lineOffset
  rw [if_neg (by omega), sum_len_cat]

theorem lineOffset_ge (L : List (List Nat)) {k : Nat} (h : k ≥ L.length) :
    lineOffset L k = (joinWith [cNL] L).length := by
  unfold lineOffset
  rw [if_pos h]

/-- the document text between the starts of lines `c ≤ k < n` -/
theorem doc_take_drop (L : List (List Nat)) {c k : Nat} (hc : c ≤ k) (hk : k < L.length) :
    ((joinWith [cNL] L).take (lineOffset L k)).drop (lineOffset L c) = seg L c k := by
  rw [lineOffset_lt L hk, lineOffset_lt L (by omega), doc_split L k hk, List.take_left,
    take_take_seg L hc, List.drop_left]

theorem doc_drop (L : List (List Nat)) {c : Nat} (hc : c < L.length) :
    (joinWith [cNL] L).drop (lineOffset L c) ++ [cNL] = seg L c L.length := by
  rw [lineOffset_lt L hc]
  conv => lhs; rw [doc_split L c hc, List.drop_left]
  rw [joinWith_nl_cat _ (by
    intro h
    have := congrArg List.length h
    simp at this; omega), seg_drop]

theorem applyFrom_lines (L : List (List Nat)) :
    ∀ (es : List Edit) (c : Nat), c ≤ L.length → EditsWF L.length c es →
      (∀ e ∈ es, e.fromLine < L.length) →
      applyFrom (joinWith [cNL] L) L (lineOffset L c) es ++
        (if lastTo es c < L.length then [cNL] else []) = applyLines L c es := by
  intro es
  induction es with
  | nil =>
    intro c hc _ _
    show (joinWith [cNL] L).drop (lineOffset L c) ++ (if c < L.length then [cNL] else []) =
      seg L c L.length
    by_cases h : c < L.length
    · rw [if_pos h, doc_drop L h]
    · have : c = L.length := by omega
      subst this
      rw [if_neg h, lineOffset_ge L (Nat.le_refl _), seg_self]
      simp
  | cons e es ih =>
    intro c hc hwf hlt
    obtain ⟨h1, h2, h3, h4⟩ := hwf
    have hf := hlt e (by simp)
    show ((joinWith [cNL] L).take (lineOffset L e.fromLine)).drop (lineOffset L c) ++ e.newText ++
        applyFrom (joinWith [cNL] L) L (lineOffset L e.toLine) es ++
        (if lastTo es e.toLine < L.length then [cNL] else []) =
      seg L c e.fromLine ++ e.newText ++ applyLines L e.toLine es
    rw [doc_take_drop L h1 hf, List.append_assoc, ih e.toLine h3 h4 (fun x hx => hlt x (by simp [hx]))]

/-! ## Lines of a text -/

theorem splitLines_cons (r : Nat) (rs : List Nat) : splitLines (r :: rs) =
    (match splitLines rs with
     | [] => [[]]
     | l :: ls => if r = cNL then [] :: l :: ls else (r :: l) :: ls) := rfl

theorem splitLines_append_nl (a b : List Nat) :
    splitLines (a ++ cNL :: b) = splitLines a ++ splitLines b := by
  induction a with
  | nil =>
    show splitLines (cNL :: b) = _
    rw [splitLines_cons]
    cases hb : splitLines b with
    | nil => exact absurd hb (splitLines_ne_nil b)
    | cons l ls => simp [splitLines]
  | cons r a ih =>
    show splitLines (r :: (a ++ cNL :: b)) = splitLines (r :: a) ++ _
    rw [splitLines_cons, splitLines_cons, ih]
    cases ha : splitLines a with
    | nil => exact absurd ha (splitLines_ne_nil a)
    | cons l ls =>
      simp only [List.cons_append]
      split <;> simp

theorem splitLines_no_nl (l : List Nat) (h : cNL ∉ l) : splitLines l = [l] := by
  induction l with
  | nil => rfl
  | cons r l ih =>
    have hr : r ≠ cNL := fun e => h (by simp [e])
    have hl : cNL ∉ l := fun e => h (by simp [e])
    rw [splitLines_cons, ih hl]
    simp [hr]

theorem splitLines_cat (B : List (List Nat)) (h : ∀ l ∈ B, cNL ∉ l) :
    splitLines (cat B) = B ++ [[]] := by
  induction B with
  | nil => rfl
  | cons l B ih =>
    rw [cat_cons, List.append_assoc]
    show splitLines (l ++ cNL :: cat B) = _
    rw [splitLines_append_nl, splitLines_no_nl l (h l (by simp)),
      ih (fun x hx => h x (by simp [hx]))]
    simp

theorem splitLines_snoc_nl (x : List Nat) : splitLines (x ++ [cNL]) = splitLines x ++ [[]] := by
  rw [splitLines_append_nl]; rfl

theorem dropWhile_append_all {α : Type} (p : α → Bool) (a b : List α) (h : ∀ x ∈ a, p x = true) :
    (a ++ b).dropWhile p = b.dropWhile p := by
  induction a with
  | nil => rfl
  | cons x a ih =>
    simp only [List.cons_append, List.dropWhile_cons, h x (by simp), if_true]
    exact ih (fun y hy => h y (by simp [hy]))

theorem stripTrailing_append_blank (blank : List Nat → Bool) (ls B : List (List Nat))
    (h : ∀ l ∈ B, blank l = true) : stripTrailing blank (ls ++ B) = stripTrailing blank ls := by
  unfold stripTrailing
  rw [List.reverse_append, dropWhile_append_all blank _ _ (by simpa using h)]

theorem splitLines_no_nl_mem (s : List Nat) : ∀ l ∈ splitLines s, cNL ∉ l := by
  induction s with
  | nil => intro l hl; simp [splitLines] at hl; subst hl; simp
  | cons r s ih =>
    rw [splitLines_cons]
    cases hs : splitLines s with
    | nil => exact absurd hs (splitLines_ne_nil s)
    | cons l0 ls =>
      rw [hs] at ih
      simp only []
      by_cases hr : r = cNL
      · simp only [hr, if_true]
        intro l hl
        rcases List.mem_cons.mp hl with rfl | hl
        · simp
        · exact ih l hl
      · simp only [hr, if_false]
        intro l hl
        rcases List.mem_cons.mp hl with rfl | hl
        · have := ih l0 (by simp)
          simp only [List.mem_cons, not_or]
          exact ⟨fun e => hr e.symm, this⟩
        · exact ih l (by simp [hl])

theorem joinFrags_ends (all : List Edit) (hne : all ≠ []) (p : Option Nat)
    (h : ∀ d ∈ all, ∃ x, d.newText = x ++ [cNL]) : ∃ y, joinFrags all p = y ++ [cNL] := by
  induction all generalizing p with
  | nil => exact absurd rfl hne
  | cons d ds ih =>
    rw [joinFrags_cons]
    cases ds with
    | nil =>
      obtain ⟨x, hx⟩ := h d (by simp)
      exact ⟨gapText p d.fromLine ++ x, by simp [joinFrags, hx]⟩
    | cons d2 ds2 =>
      obtain ⟨y, hy⟩ := ih (by simp) (some d.toLine) (fun x hx => h x (by simp [hx]))
      exact ⟨gapText p d.fromLine ++ d.newText ++ y, by rw [hy]; simp⟩

theorem mergedEdits_from_lt (L : List (List Nat)) (M : List Edit) (h : FragsWF L.length 0 M) :
    ∀ e ∈ mergedEdits L M, e.fromLine < L.length := by
  have loop : ∀ (ds : List Edit) (lastEnd : Nat), FragsWF L.length lastEnd ds →
      ∀ e ∈ loopEdits L ds lastEnd, e.fromLine < L.length := by
    intro ds
    induction ds with
    | nil => intro _ _ e he; simp [loopEdits] at he
    | cons d ds ih =>
      intro lastEnd hw e he
      obtain ⟨h1, h2, h3, h4⟩ := hw
      simp only [loopEdits, List.mem_append] at he
      rcases he with (he | he) | he
      · split at he
        · simp at he; subst he; simp only; omega
        · cases he
      · split at he
        · simp at he; subst he; omega
        · cases he
      · exact ih d.toLine h4 e he
  cases M with
  | nil => intro e he; simp [mergedEdits] at he
  | cons d ds =>
    obtain ⟨_, h2, h3, h4⟩ := h
    intro e he
    simp only [mergedEdits, List.mem_append] at he
    rcases he with (he | he) | he
    · split at he
      · simp at he; subst he; simp only; omega
      · cases he
    · split at he
      · simp at he; subst he; omega
      · cases he
    · exact loop ds d.toLine h4 e he

/-- **Applying the edits gives the formatter's text up to trailing blank lines**, for any source lines
and fragment list with well-formed ranges, provided the lines after the last fragment are blank. -/
theorem apply_eqT (blank : List Nat → Bool) (hb : blank [] = true) (L : List (List Nat))
    (hL : L ≠ []) (hnl : ∀ l ∈ L, cNL ∉ l) (all : List Edit) (h : RawWF L.length 0 all)
    (hends : ∀ d ∈ all, ∃ x, d.newText = x ++ [cNL])
    (htrail : ∀ l ∈ L.drop (lastTo all 0), blank l = true) :
    ∃ es, fmtDiffs L all = .ok es ∧ EqT blank (applyEdits L es) (joinFrags all none) := by
  have hm := mergeFrags_wf L.length all h
  obtain ⟨es, he, hal⟩ := fmtDiffs_applyLines L all h
  refine ⟨es, he, ?_⟩
  have hes : es = mergedEdits L (mergeFrags all) := by
    have := fmtDiffsMerged_eq L _ hm
    unfold fmtDiffs at he
    rw [this] at he
    cases he; rfl
  obtain ⟨es', he', hwf⟩ := fmtDiffs_spec L all h
  rw [he] at he'
  cases he'
  have hlt : ∀ e ∈ es, e.fromLine < L.length := by
    rw [hes]; exact mergedEdits_from_lt L _ hm
  have hF := applyFrom_lines L es 0 (Nat.zero_le _) hwf hlt
  have h0 : lineOffset L 0 = 0 := by
    have : 0 < L.length := List.length_pos_iff.mpr hL
    rw [lineOffset_lt L this]; simp
  rw [h0, hal] at hF
  -- `applyEdits L es ++ X = joinFrags all none ++ cat (trailing lines)`
  have hseg : seg L (lastTo all 0) L.length = cat (L.drop (lastTo all 0)) := (seg_drop L _).symm
  rw [hseg] at hF
  have hBnl : ∀ l ∈ L.drop (lastTo all 0), cNL ∉ l := fun l hl => hnl l (List.mem_of_mem_drop hl)
  unfold EqT
  -- left side: dropping the optional final newline
  have hleft : stripTrailing blank (splitLines (applyEdits L es)) =
      stripTrailing blank (splitLines (joinFrags all none ++ cat (L.drop (lastTo all 0)))) := by
    rw [← hF]
    unfold applyEdits
    split
    · rw [splitLines_snoc_nl, stripTrailing_append_blank blank _ [[]] (by simpa using hb)]
    · simp
  rw [hleft]
  by_cases hall : all = []
  · subst hall
    simp only [joinFrags, List.nil_append]
    rw [splitLines_cat _ hBnl]
    have : stripTrailing blank (L.drop (lastTo [] 0) ++ [[]]) = stripTrailing blank [] := by
      have := stripTrailing_append_blank blank [] (L.drop (lastTo [] 0) ++ [[]]) (by
        intro l hl
        rcases List.mem_append.mp hl with h1 | h1
        · exact htrail l h1
        · simp at h1; subst h1; exact hb)
      simpa using this
    rw [this]
    show _ = stripTrailing blank [[]]
    have := stripTrailing_append_blank blank [] [[]] (by simpa using hb)
    simpa using this.symm
  · obtain ⟨y, hy⟩ := joinFrags_ends all hall none hends
    rw [hy, List.append_assoc]
    show stripTrailing blank (splitLines (y ++ cNL :: cat (L.drop (lastTo all 0)))) = _
    rw [splitLines_append_nl, splitLines_cat _ hBnl, splitLines_snoc_nl, ← List.append_assoc,
      stripTrailing_append_blank blank _ [[]] (by simpa using hb),
      stripTrailing_append_blank blank _ _ htrail,
      stripTrailing_append_blank blank _ [[]] (by simpa using hb)]

end J5V.Bcl
