import J5V.Bcl.DiffProofs
/-!
# Applying the edits of `FmtDiffs` gives the formatter's text (lemmas for `C19_apply_eq_fmt`)

Line-level view: `cat ls` is the text of the lines `ls`, each terminated by `\n`; `seg L a b` is the
text of lines `a … b-1`.
-/
namespace J5V.Bcl
open J5V.Go

def cat (ls : List (List Nat)) : List Nat := ls.flatMap (fun l => l ++ [cNL])

@[simp] theorem cat_nil : cat [] = [] := rfl
@[simp] theorem cat_cons (l : List Nat) (ls : List (List Nat)) : cat (l :: ls) = l ++ [cNL] ++ cat ls := by
  simp [cat]
theorem cat_append (a b : List (List Nat)) : cat (a ++ b) = cat a ++ cat b := by
  simp [cat]

theorem joinWith_nl_cat : ∀ (ls : List (List Nat)), ls ≠ [] → joinWith [cNL] ls ++ [cNL] = cat ls
  | [], h => absurd rfl h
  | [a], _ => by simp [joinWith]
  | a :: b :: rest, _ => by
    have ih := joinWith_nl_cat (b :: rest) (by simp)
    simp only [joinWith, cat_cons] at ih ⊢
    simp only [List.append_assoc] at ih ⊢
    rw [ih]

/-- text of lines `a … b-1` -/
def seg (L : List (List Nat)) (a b : Nat) : List Nat := cat ((L.drop a).take (b - a))

theorem seg_self (L : List (List Nat)) (a : Nat) : seg L a a = [] := by simp [seg]

theorem seg_split (L : List (List Nat)) {a b c : Nat} (h1 : a ≤ b) (h2 : b ≤ c) :
    seg L a c = seg L a b ++ seg L b c := by
  unfold seg
  have : c - a = (b - a) + (c - b) := by omega
  rw [this, List.take_add, cat_append, List.drop_drop]
  have : a + (b - a) = b := by omega
  rw [this]

theorem seg_single (L : List (List Nat)) {a : Nat} (h : a < L.length) :
    seg L a (a + 1) = L[a] ++ [cNL] := by
  unfold seg
  have : a + 1 - a = 1 := by omega
  rw [this, List.drop_eq_getElem_cons h]
  simp

theorem seg_drop (L : List (List Nat)) (a : Nat) : cat (L.drop a) = seg L a L.length := by
  unfold seg
  rw [List.take_of_length_le]
  simp

/-- `rangeLines` is the text of the lines -/
theorem rangeLines_seg {L : List (List Nat)} {a b : Nat} (h1 : a < b) (h2 : b ≤ L.length) :
    rangeLines L a b = .ok (seg L a b) := by
  rw [rangeLines_ok (Nat.le_of_lt h1) h2]
  congr 1
  unfold seg
  rw [List.drop_take]
  apply joinWith_nl_cat
  intro h
  have := congrArg List.length h
  simp at this
  omega

/-! ## The edit loop without accumulator -/

def gapB (L : List (List Nat)) (lastEnd from_ : Nat) : Bool :=
  decide (from_ > lastEnd + 1) || (decide (from_ = lastEnd + 1) && decide (L.getD lastEnd [] ≠ []))

def loopEdits (L : List (List Nat)) : List Edit → Nat → List Edit
  | [], _ => []
  | d :: ds, lastEnd =>
    (if gapB L lastEnd d.fromLine then [(⟨lastEnd, d.fromLine, [cNL]⟩ : Edit)] else []) ++
    (if seg L d.fromLine d.toLine ≠ d.newText then [d] else []) ++ loopEdits L ds d.toLine

theorem gapNeeded_eq {L : List (List Nat)} {lastEnd from_ : Nat} (h : from_ < L.length) :
    gapNeeded L lastEnd from_ = .ok (gapB L lastEnd from_) := by
  unfold gapNeeded gapB
  by_cases h1 : from_ > lastEnd + 1
  · simp [h1]
  · simp only [h1, if_false, decide_false, Bool.false_or]
    by_cases h2 : from_ = lastEnd + 1
    · have hl : lastEnd < L.length := by omega
      simp only [h2, if_true, decide_true, Bool.true_and]
      rw [List.getElem?_eq_getElem hl]
      simp [List.getD, List.getElem?_eq_getElem hl]
    · simp [h2]

theorem fmtDiffsLoop_eq (L : List (List Nat)) (ds : List Edit) (lastEnd : Nat)
    (h : FragsWF L.length lastEnd ds) (out : List Edit) :
    fmtDiffsLoop L ds lastEnd out = .ok (out ++ loopEdits L ds lastEnd) := by
  induction ds generalizing lastEnd out with
  | nil => simp [fmtDiffsLoop, loopEdits]
  | cons d ds ih =>
    obtain ⟨h1, h2, h3, h4⟩ := h
    unfold fmtDiffsLoop loopEdits
    rw [gapNeeded_eq (by omega), rangeLines_seg h2 h3]
    simp only []
    rw [ih d.toLine h4]
    congr 1
    cases gapB L lastEnd d.fromLine <;> by_cases hx : seg L d.fromLine d.toLine = d.newText <;>
      simp [hx]

/-! ## Applying edits line-wise -/

/-- the document (every line `\n`-terminated) with the edits applied, from line `c` on -/
def applyLines (L : List (List Nat)) : Nat → List Edit → List Nat
  | c, [] => seg L c L.length
  | c, e :: es => seg L c e.fromLine ++ e.newText ++ applyLines L e.toLine es

/-- end line of the last fragment -/
def lastTo : List Edit → Nat → Nat
  | [], lo => lo
  | d :: ds, _ => lastTo ds d.toLine

theorem applyLines_loop (L : List (List Nat)) :
    ∀ (ds : List Edit) (lastEnd c : Nat), FragsWF L.length lastEnd ds → c ≤ lastEnd →
      lastEnd ≤ L.length →
      applyLines L c (loopEdits L ds lastEnd) =
        seg L c lastEnd ++ joinFrags ds (some lastEnd) ++ seg L (lastTo ds lastEnd) L.length := by
  intro ds
  induction ds with
  | nil =>
    intro lastEnd c _ hc hl
    simp only [loopEdits, applyLines, joinFrags, lastTo, List.append_nil]
    exact seg_split L hc hl
  | cons d ds ih =>
    intro lastEnd c hwf hc hl
    obtain ⟨h1, h2, h3, h4⟩ := hwf
    simp only [loopEdits, joinFrags, lastTo]
    have ihto := fun c' (hc' : c' ≤ d.toLine) => ih d.toLine c' h4 hc' h3
    -- the text between `lastEnd` and the fragment
    have hgapText : gapB L lastEnd d.fromLine = false →
        seg L lastEnd d.fromLine = (if d.fromLine > lastEnd then [cNL] else []) := by
      intro hg
      unfold gapB at hg
      simp only [Bool.or_eq_false_iff, decide_eq_false_iff_not, Bool.and_eq_false_iff] at hg
      obtain ⟨g1, g2⟩ := hg
      by_cases he : d.fromLine = lastEnd
      · rw [he, seg_self]; simp
      · have he2 : d.fromLine = lastEnd + 1 := by omega
        have hll : lastEnd < L.length := by omega
        rcases g2 with g2 | g2
        · exact absurd he2 g2
        · have : L[lastEnd] = [] := by
            simp only [ne_eq, Decidable.not_not] at g2
            simpa [List.getD, List.getElem?_eq_getElem hll] using g2
          rw [he2, seg_single L hll, this]
          simp
    have hgapTrue : gapB L lastEnd d.fromLine = true → d.fromLine > lastEnd := by
      intro hg
      unfold gapB at hg
      simp only [Bool.or_eq_true, decide_eq_true_eq, Bool.and_eq_true] at hg
      rcases hg with g | ⟨g, _⟩ <;> omega
    cases hg : gapB L lastEnd d.fromLine <;>
      by_cases hx : seg L d.fromLine d.toLine = d.newText
    · -- no gap edit, fragment unchanged
      simp only [hx, ne_eq, not_true_eq_false, if_false, List.nil_append, Bool.false_eq_true]
      have e1 : seg L c d.toLine = seg L c lastEnd ++ seg L lastEnd d.toLine :=
        seg_split L hc (by omega)
      have e2 : seg L lastEnd d.toLine = seg L lastEnd d.fromLine ++ seg L d.fromLine d.toLine :=
        seg_split L h1 (Nat.le_of_lt h2)
      rw [ihto c (by omega), e1, e2, hgapText hg, hx]
      simp [List.append_assoc]
    · -- no gap edit, fragment replaced
      simp only [hx, ne_eq, not_false_eq_true, if_true, List.nil_append, Bool.false_eq_true, if_false,
        List.singleton_append, applyLines]
      have e1 : seg L c d.fromLine = seg L c lastEnd ++ seg L lastEnd d.fromLine :=
        seg_split L hc h1
      rw [ihto d.toLine (Nat.le_refl _), seg_self, e1, hgapText hg]
      simp [List.append_assoc]
    · -- gap edit, fragment unchanged
      have hgt := hgapTrue hg
      simp only [hx, ne_eq, not_true_eq_false, if_false, if_true, List.append_nil,
        List.singleton_append, applyLines, hgt]
      rw [ihto d.fromLine (Nat.le_of_lt h2), hx]
      simp [List.append_assoc]
    · -- gap edit, fragment replaced
      have hgt := hgapTrue hg
      simp only [hx, ne_eq, not_false_eq_true, if_true, List.singleton_append, List.cons_append,
        List.nil_append, applyLines, hgt]
      rw [ihto d.toLine (Nat.le_refl _), seg_self, seg_self]
      simp [List.append_assoc]

end J5V.Bcl
