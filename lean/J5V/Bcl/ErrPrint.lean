import J5V.Go.Outcome
import J5V.Bcl.Utf8
/-!
# Diagnostic rendering model (core only) — mirrors `/repo/internal/bcl/errpos/print.go`
(`humanString`, `HumanString`, `tabsToSpaces`, `replaceRunes`) and `Point/Position.String`,
`isEmpty` of `errpos/errors.go`.

Source lines are **byte** lists (`strings.Split(fileData, "\n")`); columns coming from the parser are
in **runes**, and `humanString` uses them as byte indices: `len(errLine)`, `errLine[:startCol-1]` are
byte operations, `tabsToSpaces`/`replaceRunes` re-decode.  Line/column/context values are arbitrary
`Int`s.  Every index and slice expression has an explicit `.panic` arm.
Only position-dependent output is modelled (`err.Ctx = nil`, `err.Err = nil`, no filename).
-/
namespace J5V.Bcl
open J5V.Go

structure IPoint where
  line : Int
  col : Int
  deriving DecidableEq, Repr, Inhabited

structure IPosition where
  start : IPoint
  end_ : IPoint
  deriving DecidableEq, Repr, Inhabited

def IPoint.isEmpty (p : IPoint) : Bool := p.line < 0 && p.col < 0
/-- `Position.isEmpty` with `Filename == nil` -/
def IPosition.isEmpty (p : IPosition) : Bool := p.start.isEmpty && p.end_.isEmpty

def asciiOf (s : String) : List Nat := s.toList.map Char.toNat

/-- `%d` -/
def fmtD (i : Int) : List Nat :=
  if i < 0 then 45 :: asciiOf (toString i.natAbs) else asciiOf (toString i.toNat)

/-- `%03d` (zero padding to width 3, the sign counts) -/
def fmt03D (i : Int) : List Nat :=
  if i < 0 then
    let d := asciiOf (toString i.natAbs)
    45 :: (List.replicate (2 - d.length) 48 ++ d)
  else
    let d := asciiOf (toString i.toNat)
    List.replicate (3 - d.length) 48 ++ d

/-- `Position.String()` without filename -/
def IPosition.string (p : IPosition) : List Nat :=
  if p.start.isEmpty then [] else fmtD (p.start.line + 1) ++ [58] ++ fmtD (p.start.col + 1)

/-- `replaceRunes(s, cb)` -/
def replaceRunes (s : List Nat) (cb : Rune → List Nat) : List Nat := (decodeRunes s).flatMap cb

def tabsToSpaces (s : List Nat) : List Nat :=
  replaceRunes s fun r => if r = cTAB then [32, 32] else encodeRune r

/-- the context loop: `for lineNum := startLine - context; lineNum < startLine; lineNum++`,
iterations with `lineNum < 1` skipped.  `k` counts the remaining candidate line numbers
`startLine - k … startLine - 1`. -/
def contextLoop (lines : List (List Nat)) (startLine : Int) : Nat → Outcome (List Nat)
  | 0 => .ok []
  | k + 1 =>
    let lineNum : Int := startLine - (k + 1 : Nat)
    if lineNum < 1 then contextLoop lines startLine k
    else
      match lines[(lineNum - 1).toNat]? with
      | none => .panic "index out of range"
      | some line =>
        match contextLoop lines startLine k with
        | .ok rest =>
          .ok (asciiOf "  > " ++ fmt03D lineNum ++ asciiOf ": " ++ tabsToSpaces line ++ [10] ++ rest)
        | o => o

/-- the closure inside `humanString` (everything before `Context:` / `Message:`) -/
def humanString (pos : Option IPosition) (lines : List (List Nat)) (context : Int) :
    Outcome (List Nat) :=
  match pos with
  | none => .ok (asciiOf "<no position information>\n")
  | some p =>
    if p.isEmpty then .ok (asciiOf "<no position information>\n")
    else
      let o1 := asciiOf "Position: " ++ p.string ++ [10]
      if p.start.isEmpty then .ok o1
      else
        let o2 := o1 ++ asciiOf "LIT: " ++ fmtD p.start.line ++ [32] ++ fmtD p.start.col ++ [10]
        let startLine : Int := p.start.line + 1
        let startCol : Int := p.start.col + 1
        let len : Int := lines.length
        if startLine > len then
          .ok (o2 ++ asciiOf "<line " ++ fmtD startLine ++ asciiOf " out of range (len " ++
            fmtD len ++ asciiOf ") - a>\n")
        else
          match contextLoop lines startLine context.toNat with
          | .panic w => .panic w
          | .err e => .err e
          | .ok ctx =>
            let o3 := o2 ++ ctx
            if startLine > len ∨ startLine < 1 then
              .ok (o3 ++ asciiOf "<line " ++ fmtD startLine ++ asciiOf " out of range (len " ++
                fmtD len ++ asciiOf ") - b>\n")
            else
              match lines[(startLine - 1).toNat]? with
              | none => .panic "index out of range"
              | some errLine =>
                let pfx := asciiOf "  > " ++ fmt03D startLine
                let o4 := o3 ++ pfx ++ asciiOf ": " ++ tabsToSpaces errLine ++ [10]
                let errLine' :=
                  if startCol = (errLine.length : Int) + 1 then errLine ++ [32] else errLine
                let marks := List.replicate pfx.length 62 ++ asciiOf ": "
                if startCol < 1 ∨ startCol > (errLine'.length : Int) then
                  .ok (o4 ++ marks ++ asciiOf "<column " ++ fmtD startCol ++
                    asciiOf " out of range>\n" ++ [10])
                else
                  -- errLine[:startCol-1]
                  let hi := (startCol - 1).toNat
                  if hi > errLine'.length then .panic "slice bounds out of range"
                  else
                    let errCol := replaceRunes (errLine'.take hi) fun r =>
                      if r = cTAB then [32, 32] else [32]
                    .ok (o4 ++ marks ++ errCol ++ asciiOf "^\n")

/-- the loop of `HumanString`: one rendered block per error, `-----` between them -/
def humanStringParts (lines : List (List Nat)) (context : Int) :
    List (Option IPosition) → Bool → Outcome (List (List Nat))
  | [], _ => .ok []
  | e :: es, first =>
    match humanString e lines context with
    | .panic w => .panic w
    | .err t => .err t
    | .ok s =>
      match humanStringParts lines context es false with
      | .ok rest => .ok ((if first then [] else [asciiOf "-----"]) ++ [s] ++ rest)
      | o => o

/-- `ErrorsWithSource.HumanString(contextLines)` -/
def humanStringAll (errs : List (Option IPosition)) (lines : List (List Nat)) (context : Int) :
    Outcome (List Nat) :=
  match errs with
  | [] => .ok (asciiOf "<ErrorsWithWource[]>")
  | _ =>
    match humanStringParts lines context errs true with
    | .ok parts => .ok (joinWith [10] parts)
    | .err t => .err t
    | .panic w => .panic w

end J5V.Bcl
