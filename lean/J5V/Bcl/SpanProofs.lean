import J5V.Bcl.FragWFProofs
/-!
# Where a fragment starts and ends, relative to the walker (`nextFragment_span`)

For one successful round `nextFragment fuel w = .ok (some f) w'` of the fragment loop:
* START: `f.src.start` is the start of the first token of `w.rest`;
* END LINE: the walker stands (`w'.currentPos`) on the line where the fragment ends;
* PREV: the token read last is an EOL only after an assignment, an open header, or a header with a
  trailing comment (only `endStatement` reads an EOL).

* a token has been read (`w'.prev ≠ none`).

The proofs use the partial-correctness triples `WP` and the invariant `WI` of `FragWFProofs`.
`WI (LineP cls) LineR w` alone is not enough for END LINE: an EOF token *in the token list* that
spans several lines is a counterexample (`nextFragment_span_counterexample`), so
`nextFragment_span` also asks that such tokens are on one line (`nextFragment_span_noEof`: that
there are none, as in a lexed token list).
-/
namespace J5V.Bcl

/-! ## `popToken`, exactly -/

theorem popToken_okWP (w : W) :
    WP popToken w (fun t w' => (∃ rs, w.rest = t :: rs ∧ w' = ⟨some t, rs⟩) ∨
      (w.rest = [] ∧ w' = w ∧ t.ty = .eof)) := fun _ _ h => popToken_ok h

/-- `popToken` when a token is left: that token is read -/
theorem popToken_head {w : W} (hne : w.nextType ≠ .eof) :
    WP popToken w (fun t w' => (∃ rs, w.rest = t :: rs ∧ w' = ⟨some t, rs⟩) ∧
      t.ty = w.nextType) := by
  intro t w' h
  obtain ⟨p, rest⟩ := w
  rcases popToken_ok h with ⟨rs, h1, h2⟩ | ⟨h1, _, _⟩
  · simp only at h1; subst h1
    exact ⟨⟨rs, rfl, h2⟩, rfl⟩
  · simp only at h1; subst h1
    exact absurd (nextType_nil p) hne

/-- if the token read last is not an EOL, nothing is claimed about "the EOL read last" -/
theorem PrevOk.elim {w : W} (h : PrevOk w) {X : Prop} (e : Token) (he : w.prev = some e)
    (hty : e.ty = .eol) : X := by
  obtain ⟨t, h1, h2⟩ := h
  rw [h1] at he; cases he
  exact absurd hty h2

/-! ## references: where they start and end -/

/-- start of the reference made of `acc` followed by an identifier starting at `d` -/
def refStart (acc : List Ident) (d : Pos) : Pos :=
  match acc with
  | [] => d
  | a :: _ => a.span.start

theorem refStart_append (acc : List Ident) (i : Ident) (d : Pos) :
    refStart (acc ++ [i]) d = refStart acc i.span.start := by
  cases acc <;> rfl

theorem newReference_start (a : Ident) (l : List Ident) (r : Reference)
    (h : newReference (a :: l) = some r) : r.span.start = a.span.start := by
  unfold newReference at h
  have hh : (a :: l).head? = some a := rfl
  rw [hh] at h
  cases hl : (a :: l).getLast? with
  | none => rw [hl] at h; cases h
  | some x => rw [hl] at h; cases h; rfl

theorem newReference_refStart (acc : List Ident) (i : Ident) (r : Reference)
    (h : newReference (acc ++ [i]) = some r) : r.span.start = refStart acc i.span.start := by
  cases acc with
  | nil => exact newReference_start i [] r h
  | cons a as => exact newReference_start a (as ++ [i]) r h

/-- a successful `popReference` starts at the first token (or at the first identifier read
before) -/
theorem popReferenceLoop_start (n : Nat) :
    ∀ (rest : List Token) (acc : List Ident) (prev : Option Token),
    rest.length ≤ n → ∀ r w', popReferenceLoop acc prev rest = .ok r w' →
    ∃ t ts, rest = t :: ts ∧ r.span.start = refStart acc t.start := by
  induction n with
  | zero =>
    intro rest acc prev hn r w' h
    have : rest = [] := List.eq_nil_of_length_eq_zero (Nat.le_zero.mp hn)
    subst this
    unfold popReferenceLoop at h
    split at h
    · split at h <;> cases h
    · cases h
    · cases h
  | succ n ih =>
    intro rest acc prev hn r w' h
    cases rest with
    | nil =>
      unfold popReferenceLoop at h
      split at h
      · split at h <;> cases h
      · cases h
      · cases h
    | cons t rs =>
      refine ⟨t, rs, rfl, ?_⟩
      unfold popReferenceLoop at h
      cases hai : t.asIdent with
      | none =>
        rw [hai] at h
        simp only [] at h
        split at h <;> cases h
      | some it =>
        rw [hai] at h
        simp only [] at h
        obtain ⟨e1, _, _, _⟩ := asIdent_some hai
        have hfin : ∀ (rest' : List Token),
            (match newReference (acc ++ [(⟨it, it.lit, ⟨it.start, it.end_⟩⟩ : Ident)]) with
              | none => (WR.panic "index out of range [0]" : WR Reference)
              | some r => .ok r ⟨some t, rest'⟩) = .ok r w' →
            r.span.start = refStart acc t.start := by
          intro rest' hh
          cases hnr : newReference (acc ++ [(⟨it, it.lit, ⟨it.start, it.end_⟩⟩ : Ident)]) with
          | none => rw [hnr] at hh; cases hh
          | some r0 =>
            rw [hnr] at hh
            cases hh
            rw [newReference_refStart _ _ _ hnr]
            show refStart acc it.start = refStart acc t.start
            rw [e1]
        cases rs with
        | nil => exact hfin [] h
        | cons d rs2 =>
          simp only [] at h
          split at h
          · obtain ⟨t2, ts2, _, h2⟩ := ih rs2 _ (some d) (by simp at hn ⊢; omega) r w' h
            rw [h2, refStart_append]
            show refStart acc it.start = refStart acc t.start
            rw [e1]
          · exact hfin (d :: rs2) h

/-- `popReference`: the reference starts at the first token, ends where the walker then stands, and
the token read last is an identifier (not an EOL) -/
theorem popReference_span (w : W) :
    WP popReference w (fun r w' => (∃ t ts, w.rest = t :: ts ∧ r.span.start = t.start) ∧
      PrevOk w' ∧ w'.currentPos = r.span.end_) := by
  intro r w' h
  obtain ⟨t, ts, h1, h2⟩ :=
    popReferenceLoop_start w.rest.length w.rest [] w.prev (Nat.le_refl _) r w' h
  obtain ⟨u, u1, u2, u3⟩ :=
    popReferenceLoop_end w.rest.length w.rest [] w.prev (Nat.le_refl _) r w' h
  refine ⟨⟨t, ts, h1, h2⟩, ⟨u, u1, ?_⟩, by rw [u3, currentPos_of_prev u1]⟩
  rcases u2 with e | e <;> rw [e] <;> decide

/-! ## values: where they end -/

theorem popValue_span_aux (fuel : Nat) :
    (∀ w : W, WP (popValue fuel) w (fun v w' => PrevOk w' ∧ w'.currentPos = v.span.end_)) ∧
    (∀ (w : W) (opener : Token) (acc : List Value),
      WP (popValueElems fuel opener acc) w
        (fun v w' => PrevOk w' ∧ w'.currentPos = v.span.end_)) := by
  induction fuel with
  | zero =>
    constructor
    · intro w; unfold popValue; exact WP.panic
    · intro w o a; unfold popValueElems; exact WP.panic
  | succ fuel ih =>
    obtain ⟨ihV, ihE⟩ := ih
    constructor
    · intro w
      unfold popValue
      intro v w' e
      simp only [] at e
      by_cases h1 : w.nextType = .ident
      · rw [if_pos h1] at e
        revert v w'
        refine WP.bind (popReference_span w) ?_
        intro ref w1 hr
        exact WP.pure ⟨hr.2.1, hr.2.2⟩
      · rw [if_neg h1] at e
        by_cases h2 : w.nextType.isLiteral = true
        · rw [if_pos h2] at e
          revert v w'
          have hne : w.nextType ≠ .eof := by intro he; rw [he] at h2; cases h2
          refine WP.bind (popToken_head hne) ?_
          intro tok w1 hp
          obtain ⟨⟨rs, _, hw1⟩, hty⟩ := hp
          apply WP.pure
          subst hw1
          exact ⟨⟨tok, rfl, by rw [hty]; intro he; rw [he] at h2; cases h2⟩, rfl⟩
        · rw [if_neg h2] at e
          by_cases h3 : w.nextType = .lbrack
          · rw [if_pos h3] at e
            revert v w'
            refine WP.bind (P := fun _ _ => True) WP.true ?_
            intro opener w1 _
            apply WP.getW_bind
            by_cases h4 : w1.nextType = TokenType.rbrack
            · simp only [h4, if_true]
              refine WP.bind (popToken_head (by rw [h4]; decide)) ?_
              intro tk w2 hp2
              apply WP.getW_bind
              apply WP.pure
              obtain ⟨⟨rs, _, hw2⟩, hty⟩ := hp2
              subst hw2
              exact ⟨⟨tk, rfl, by rw [hty, h4]; decide⟩, rfl⟩
            · simp only [h4, if_false]
              exact ihE w1 opener []
          · rw [if_neg h3] at e
            revert v w'
            exact failUnexpected_wp _ w _
    · intro w opener acc
      unfold popValueElems
      refine WP.bind (P := fun _ _ => True) WP.true ?_
      intro value w1 _
      simp only []
      apply WP.getW_bind
      by_cases h1 : w1.nextType = .comma
      · simp only [h1, if_true]
        refine WP.bind (P := fun _ _ => True) WP.true ?_
        intro _ w2 _
        exact ihE w2 opener (acc ++ [value])
      · simp only [h1, if_false]
        by_cases h2 : w1.nextType = .rbrack
        · simp only [h2, if_true]
          refine WP.bind (popToken_head (by rw [h2]; decide)) ?_
          intro tk w2 hp2
          apply WP.getW_bind
          apply WP.pure
          obtain ⟨⟨rs, _, hw2⟩, hty⟩ := hp2
          subst hw2
          exact ⟨⟨tk, rfl, by rw [hty, h2]; decide⟩, rfl⟩
        · simp only [h2, if_false]
          exact failUnexpected_wp _ _ _

/-- `popValue`: the value ends where the walker then stands, and the token read last is not an
EOL -/
theorem popValue_span (fuel : Nat) (w : W) :
    WP (popValue fuel) w (fun v w' => PrevOk w' ∧ w'.currentPos = v.span.end_) :=
  (popValue_span_aux fuel).1 w

/-! ## tags -/

theorem popTag_prevOk (fuel : Nat) (w : W) : WP (popTag fuel) w (fun _ w' => PrevOk w') := by
  unfold popTag
  apply WP.getW_bind
  refine WP.bind (P := fun _ _ => True) WP.true ?_
  intro p w1 _
  obtain ⟨mark, markToken⟩ := p
  simp only []
  apply WP.getW_bind
  split
  · refine WP.bind (popReference_span w1) ?_
    intro ref w2 hr
    exact WP.pure hr.2.1
  · refine WP.bind (popReference_span w1) ?_
    intro ref w2 hr
    exact WP.pure hr.2.1
  · refine WP.bind (popValue_span fuel w1) ?_
    intro v w2 hv
    exact WP.pure hv.1
  · exact failUnexpected_wp _ _ _

theorem tagsLoop_prevOk (pfuel : Nat) (fuel : Nat) :
    ∀ (w : W) (acc : List TagValue), PrevOk w →
    WP (tagsLoop pfuel fuel acc) w (fun _ w' => PrevOk w') := by
  induction fuel with
  | zero => intro w acc _; unfold tagsLoop; exact WP.panic
  | succ fuel ih =>
    intro w acc hp
    unfold tagsLoop
    apply WP.getW_bind
    split
    · refine WP.bind (popTag_prevOk pfuel w) ?_
      intro tag w1 ht
      exact ih w1 _ ht
    · exact WP.pure hp

theorem qualsLoop_prevOk (pfuel : Nat) (fuel : Nat) :
    ∀ (w : W) (acc : List TagValue), PrevOk w →
    WP (qualsLoop pfuel fuel acc) w (fun _ w' => PrevOk w') := by
  induction fuel with
  | zero => intro w acc _; unfold qualsLoop; exact WP.panic
  | succ fuel ih =>
    intro w acc hp
    unfold qualsLoop
    apply WP.getW_bind
    split
    · refine WP.bind (P := fun _ _ => True) WP.true ?_
      intro _ w1 _
      refine WP.bind (popTag_prevOk pfuel w1) ?_
      intro tag w2 ht
      exact ih w2 _ ht
    · exact WP.pure hp

/-! ## the end of a statement stays on its line -/

/-- COMMENT, EOL and EOF tokens are on one line -/
def EndLineTok (t : Token) : Prop :=
  (t.ty = .comment ∨ t.ty = .eol ∨ t.ty = .eof) → t.end_.line = t.start.line

section Walker
variable {cls : Cls} {P : Token → Prop}

/-- `endStatement` after a token that is not an EOL: the walker stays on the line, and a COMMENT
token is returned -/
theorem endStatement_span (hS : ∀ t, P t → EndLineTok t) {w : W} (hw : WI P LineR w)
    (hp : PrevOk w) :
    WP endStatement w (fun c w' => w'.currentPos.line = w.currentPos.line ∧
      (w.nextType = .comment → c ≠ none) ∧ ∃ p, w'.prev = some p) := by
  obtain ⟨p0, hp1, hp2⟩ := hp
  obtain ⟨pv, rest⟩ := w
  simp only at hp1; subst hp1
  unfold endStatement
  refine WP.bind (popToken_okWP _) ?_
  intro tok w1 hx
  have h1 : (tok.ty = .comment ∨ tok.ty = .eol ∨ tok.ty = .eof) →
      w1.currentPos.line = p0.end_.line := by
    intro hty
    rcases hx with ⟨rs, e1, e2⟩ | ⟨_, e2, _⟩
    · simp only at e1; subst e1; subst e2
      show tok.end_.line = p0.end_.line
      rw [hS tok (hw.1 tok (by simp)) hty]
      exact (hw.2.1 p0 rfl).2.1 hp2
    · subst e2; rfl
  have hs1 : ∃ p, w1.prev = some p := by
    rcases hx with ⟨rs, _, e2⟩ | ⟨_, e2, _⟩
    · subst e2; exact ⟨tok, rfl⟩
    · subst e2; exact ⟨p0, rfl⟩
  have hnt : tok.ty ≠ .comment → (⟨some p0, rest⟩ : W).nextType ≠ .comment := by
    intro hne
    rcases hx with ⟨rs, e1, _⟩ | ⟨e1, _, _⟩
    · simp only at e1; subst e1; exact hne
    · simp only at e1; subst e1; intro h; cases h
  split
  · rename_i hc
    refine WP.bind (popToken_okWP _) ?_
    intro tok2 w2 hx2
    split
    · rename_i hty2
      apply WP.pure
      have hs2 : ∃ p, w2.prev = some p := by
        rcases hx2 with ⟨rs2, _, f2⟩ | ⟨_, f2, _⟩
        · subst f2; exact ⟨tok2, rfl⟩
        · subst f2; exact hs1
      refine ⟨?_, (fun _ h => by cases h), hs2⟩
      show w2.currentPos.line = p0.end_.line
      rw [← h1 (Or.inl hc)]
      rcases hx with ⟨rs, e1, e2⟩ | ⟨_, _, e3⟩
      · simp only at e1; subst e1; subst e2
        rcases hx2 with ⟨rs2, f1, f2⟩ | ⟨_, f2, _⟩
        · simp only at f1; subst f1; subst f2
          show tok2.end_.line = tok.end_.line
          have hw1 := hw.tail
          rw [hS tok2 (hw1.1 tok2 (by simp)) (Or.inr hty2)]
          exact (hw1.2.1 tok rfl).2.1 (by rw [hc]; decide)
        · subst f2; rfl
      · rw [hc] at e3; cases e3
    · exact WP.fail
  · rename_i hc
    split
    · rename_i hty
      exact WP.pure ⟨h1 (Or.inr hty), fun h => absurd h (hnt hc), hs1⟩
    · exact WP.fail

theorem walkValueAssign_span (H : Hyp cls P LineR) (hS : ∀ t, P t → EndLineTok t) (fuel : Nat)
    (ref : Reference) (app : Bool) {w : W} (hw : WI P LineR w) :
    WP (walkValueAssign fuel ref app) w (fun a w' => a.src.start = ref.span.start ∧
      w'.currentPos.line = a.src.end_.line ∧ ∃ p, w'.prev = some p) := by
  unfold walkValueAssign
  refine WP.bind (popType_wp H .assign hw) ?_
  intro _ w1 hw1
  refine WP.bind ((popValue_wp H fuel hw1).and (popValue_span fuel w1)) ?_
  intro value w2 hv
  refine WP.bind (endStatement_span hS hv.1.1 hv.2.1) ?_
  intro comment w3 hc
  apply WP.pure
  refine ⟨rfl, ?_, hc.2.2⟩
  show w3.currentPos.line = value.span.end_.line
  rw [hc.1, hv.2.2]

/-- what `nextFragment_span` says of a fragment `f` read from `w`, arriving at `w'` -/
def SpanPost (w : W) (f : Fragment) (w' : W) : Prop :=
  (∃ t ts, w.rest = t :: ts ∧ f.src.start = t.start) ∧
  w'.currentPos.line = f.src.end_.line ∧
  (∀ e, w'.prev = some e → e.ty = .eol →
    (∃ a, f = .assign a) ∨
      (∃ hd, f = .header hd ∧ (hd.isOpen = true ∨ hd.src.comment ≠ none))) ∧
  (∃ p, w'.prev = some p)

theorem PrevOk.some {w : W} (h : PrevOk w) : ∃ p, w.prev = some p := by
  obtain ⟨t, ht, _⟩ := h
  exact ⟨t, ht⟩

theorem walkStatement_span (H : Hyp cls P LineR) (hS : ∀ t, P t → EndLineTok t) (fuel : Nat)
    {w : W} (hw : WI P LineR w) :
    WP (walkStatement fuel) w (fun f w' => SpanPost w f w') := by
  unfold walkStatement
  refine WP.bind ((popReference_wp H hw).and (popReference_span w)) ?_
  intro ref w1 hr
  obtain ⟨⟨hw1, _⟩, hst, hpo1, hcp1⟩ := hr
  simp only []
  apply WP.getW_bind
  by_cases h1 : w1.nextType = .assign
  · simp only [h1, if_true]
    refine WP.bind (walkValueAssign_span H hS fuel ref false hw1) ?_
    intro a w2 ha
    apply WP.pure
    refine ⟨?_, ha.2.1, (fun _ _ _ => Or.inl ⟨a, rfl⟩), ha.2.2⟩
    obtain ⟨t, ts, e1, e2⟩ := hst
    exact ⟨t, ts, e1, by show a.src.start = t.start; rw [ha.1, e2]⟩
  · simp only [h1, if_false]
    by_cases h2 : w1.nextType = .plus
    · simp only [h2, if_true]
      refine WP.bind (popToken_wp H hw1) ?_
      intro _ w2 hp
      apply WP.getW_bind
      split
      · exact failUnexpected_wp _ _ _
      · refine WP.bind (walkValueAssign_span H hS fuel ref true hp.1) ?_
        intro a w3 ha
        apply WP.pure
        refine ⟨?_, ha.2.1, (fun _ _ _ => Or.inl ⟨a, rfl⟩), ha.2.2⟩
        obtain ⟨t, ts, e1, e2⟩ := hst
        exact ⟨t, ts, e1, by show a.src.start = t.start; rw [ha.1, e2]⟩
    · simp only [h2, if_false]
      refine WP.bind ((tagsLoop_wp H fuel fuel w1 [] hw1 (fun t ht => by cases ht)).and
        (tagsLoop_prevOk fuel fuel w1 [] hpo1)) ?_
      intro tags w2 ht
      refine WP.bind ((qualsLoop_wp H fuel fuel w2 [] ht.1.1 (fun t ht => by cases ht)).and
        (qualsLoop_prevOk fuel fuel w2 [] ht.2)) ?_
      intro quals w3 hq
      apply WP.getW_bind
      split
      · -- `{`
        rename_i hty
        refine WP.bind ((popToken_wp H hq.1.1).and
          (popToken_head (by rw [hty]; decide))) ?_
        intro tk w4 hp
        apply WP.getW_bind
        have hpo4 : PrevOk w4 := by
          obtain ⟨⟨rs, _, e⟩, hty4⟩ := hp.2
          subst e
          exact ⟨tk, rfl, by rw [hty4, hty]; decide⟩
        refine WP.bind (endStatement_span hS hp.1.1 hpo4) ?_
        intro comment w5 hc
        apply WP.pure
        exact ⟨hst, hc.1, (fun _ _ _ => Or.inr ⟨_, rfl, Or.inl rfl⟩), hc.2.2⟩
      · -- a description
        rename_i hty
        refine WP.bind (popToken_head (by rw [hty]; decide)) ?_
        intro tok w4 hp
        apply WP.getW_bind
        apply WP.pure
        obtain ⟨⟨rs, _, e⟩, hty4⟩ := hp
        subst e
        refine ⟨hst, rfl, ?_, ⟨tok, rfl⟩⟩
        intro e he hte
        cases he
        rw [hty4, hty] at hte
        cases hte
      · -- a trailing comment
        rename_i hty
        refine WP.bind (endStatement_span hS hq.1.1 hq.2) ?_
        intro comment w4 hc
        apply WP.pure
        exact ⟨hst, hc.1, (fun _ _ _ => Or.inr ⟨_, rfl, Or.inr (hc.2.1 hty)⟩), hc.2.2⟩
      · apply WP.pure
        exact ⟨hst, rfl, (fun e he hte => hq.2.elim e he hte), hq.2.some⟩
      · apply WP.pure
        exact ⟨hst, rfl, (fun e he hte => hq.2.elim e he hte), hq.2.some⟩
      · exact failUnexpected_wp _ _ _

theorem nextFragment_span_wp (H : Hyp cls P LineR) (hS : ∀ t, P t → EndLineTok t) (fuel : Nat)
    {w : W} (hw : WI P LineR w) :
    WP (nextFragment fuel) w (fun r w' => ∀ f, r = some f → SpanPost w f w') := by
  unfold nextFragment
  apply WP.getW_bind
  split
  · refine WP.bind (P := fun _ _ => True) WP.true ?_
    intro _ w1 _
    exact WP.pure (fun f h => by cases h)
  · refine WP.bind (P := fun _ _ => True) WP.true ?_
    intro _ w1 _
    exact WP.pure (fun f h => by cases h)
  · rename_i hty
    refine WP.bind (popToken_head (by rw [hty]; decide)) ?_
    intro tok w1 hp
    apply WP.pure
    intro f h; cases h
    obtain ⟨⟨rs, e0, e⟩, hty1⟩ := hp
    subst e
    refine ⟨⟨tok, rs, e0, rfl⟩, rfl, ?_, ⟨tok, rfl⟩⟩
    intro e he hte
    cases he
    rw [hty1, hty] at hte
    cases hte
  · rename_i hty
    refine WP.bind (popToken_head (by rw [hty]; decide)) ?_
    intro tok w1 hp
    apply WP.pure
    intro f h; cases h
    obtain ⟨⟨rs, e0, e⟩, hty1⟩ := hp
    subst e
    refine ⟨⟨tok, rs, e0, rfl⟩, rfl, ?_, ⟨tok, rfl⟩⟩
    intro e he hte
    cases he
    rw [hty1, hty] at hte
    cases hte
  · rename_i hty
    refine WP.bind (popToken_head (by rw [hty]; decide)) ?_
    intro tok w1 hp
    apply WP.pure
    intro f h; cases h
    obtain ⟨⟨rs, e0, e⟩, hty1⟩ := hp
    subst e
    refine ⟨⟨tok, rs, e0, rfl⟩, rfl, ?_, ⟨tok, rfl⟩⟩
    intro e he hte
    cases he
    rw [hty1, hty] at hte
    cases hte
  · rename_i hty
    refine WP.bind (P := fun d w1 => DescRead w d w1)
      (fun d w1 h => popDescription_exact h hty) ?_
    intro d w1 hd
    apply WP.pure
    intro f h; cases h
    obtain ⟨first, rs, e0, _, e1, tl, t1, t2, t3, _⟩ := hd
    refine ⟨⟨first, rs, e0, e1⟩, ?_, ?_, ⟨tl, t1⟩⟩
    · show w1.currentPos.line = d.span.end_.line
      rw [currentPos_of_prev t1, t3]
    · intro e he hte
      rw [t1] at he; cases he
      rw [t2] at hte
      cases hte
  · refine WP.bind (walkStatement_span H hS fuel hw) ?_
    intro f w1 hf
    apply WP.pure
    intro f' h; cases h
    exact hf
  · refine WP.bind (walkStatement_span H hS fuel hw) ?_
    intro f w1 hf
    apply WP.pure
    intro f' h; cases h
    exact hf
  · exact failUnexpected_wp _ _ _

end Walker

/-! ## the invariant of the fragment loop -/

/-- the token predicate of the line invariant, plus: a (real) EOF token is on one line -/
def LinePE (cls : Cls) (t : Token) : Prop :=
  LineP cls t ∧ (t.ty = .eof → t.end_.line = t.start.line)

theorem hyp_linesE (cls : Cls) : Hyp cls (LinePE cls) LineR :=
  ⟨fun _ h => h.1.1, fun _ _ h => h.1⟩

theorem linePE_endLineTok (cls : Cls) (t : Token) (h : LinePE cls t) : EndLineTok t := by
  intro hty
  rcases hty with e | e | e
  · exact h.1.2 (Or.inl e)
  · exact h.1.2 (Or.inr e)
  · exact h.2 e

/-- **span of a fragment**.  The extra hypothesis `hE` (every EOF token *in the token list* is on
one line; in particular: the list has no EOF token, as for lexed tokens) is needed: see
`nextFragment_span_counterexample`. -/
theorem nextFragment_span (cls : Cls) (fuel : Nat) {w w' : W} {f : Fragment}
    (hw : WI (LineP cls) LineR w)
    (hE : ∀ t ∈ w.rest, t.ty = .eof → t.end_.line = t.start.line)
    (h : nextFragment fuel w = .ok (some f) w') :
    (∃ t ts, w.rest = t :: ts ∧ f.src.start = t.start) ∧
    w'.currentPos.line = f.src.end_.line ∧
    (∀ e, w'.prev = some e → e.ty = .eol →
      (∃ a, f = .assign a) ∨
        (∃ hd, f = .header hd ∧ (hd.isOpen = true ∨ hd.src.comment ≠ none))) ∧
    (∃ p, w'.prev = some p) :=
  nextFragment_span_wp (hyp_linesE cls) (linePE_endLineTok cls) fuel
    (w := w) ⟨fun t ht => ⟨hw.1 t ht, hE t ht⟩, hw.2⟩ (some f) w' h f rfl

/-- `nextFragment_span` for a token list without EOF tokens (what the lexer produces) -/
theorem nextFragment_span_noEof (cls : Cls) (fuel : Nat) {w w' : W} {f : Fragment}
    (hw : WI (LineP cls) LineR w) (hne : ∀ t ∈ w.rest, t.ty ≠ .eof)
    (h : nextFragment fuel w = .ok (some f) w') :
    (∃ t ts, w.rest = t :: ts ∧ f.src.start = t.start) ∧
    w'.currentPos.line = f.src.end_.line ∧
    (∀ e, w'.prev = some e → e.ty = .eol →
      (∃ a, f = .assign a) ∨
        (∃ hd, f = .header hd ∧ (hd.isOpen = true ∨ hd.src.comment ≠ none))) ∧
    (∃ p, w'.prev = some p) :=
  nextFragment_span cls fuel hw (fun t ht e => absurd e (hne t ht)) h

/-- the extra hypotheses are kept by a round of the fragment loop (whatever it returns) -/
theorem nextFragment_keeps_noEof (cls : Cls) (fuel : Nat) {w w' : W} {r : Option Fragment}
    (hw : WI (LineP cls) LineR w) (hne : ∀ t ∈ w.rest, t.ty ≠ .eof)
    (h : nextFragment fuel w = .ok r w') : ∀ t ∈ w'.rest, t.ty ≠ .eof := by
  have H : Hyp cls (fun t => LineP cls t ∧ t.ty ≠ .eof) LineR :=
    ⟨fun _ h => h.1.1, fun _ _ h => h.1⟩
  have := nextFragment_wp H fuel (w := w) ⟨fun t ht => ⟨hw.1 t ht, hne t ht⟩, hw.2⟩ r w' h
  exact fun t ht => (this.1.1 t ht).2

theorem nextFragment_keeps_eofLine (cls : Cls) (fuel : Nat) {w w' : W} {r : Option Fragment}
    (hw : WI (LineP cls) LineR w)
    (hE : ∀ t ∈ w.rest, t.ty = .eof → t.end_.line = t.start.line)
    (h : nextFragment fuel w = .ok r w') :
    ∀ t ∈ w'.rest, t.ty = .eof → t.end_.line = t.start.line := by
  have := nextFragment_wp (hyp_linesE cls) fuel (w := w)
    ⟨fun t ht => ⟨hw.1 t ht, hE t ht⟩, hw.2⟩ r w' h
  exact fun t ht => (this.1.1 t ht).2

/-! ## after a fragment a token has been read (needs no hypothesis on the tokens) -/

theorem popToken_prevSome (w : W) : WP popToken w (fun _ w' => ∃ p, w'.prev = some p) := by
  intro t w' h
  obtain ⟨p, rest⟩ := w
  rcases popToken_ok h with ⟨rs, _, h2⟩ | ⟨h1, h2, _⟩
  · subst h2; exact ⟨t, rfl⟩
  · simp only at h1; subst h1; subst h2
    cases p with
    | none =>
      have e : popToken ⟨none, []⟩ = .panic "index out of range [-1]" := rfl
      rw [e] at h; cases h
    | some l => exact ⟨l, rfl⟩

theorem endStatement_prevSome (w : W) :
    WP endStatement w (fun _ w' => ∃ p, w'.prev = some p) := by
  unfold endStatement
  refine WP.bind (popToken_prevSome w) ?_
  intro tok w1 h1
  split
  · refine WP.bind (popToken_prevSome w1) ?_
    intro tok2 w2 h2
    split
    · exact WP.pure h2
    · exact WP.fail
  · split
    · exact WP.pure h1
    · exact WP.fail

theorem walkValueAssign_prevSome (fuel : Nat) (ref : Reference) (app : Bool) (w : W) :
    WP (walkValueAssign fuel ref app) w (fun _ w' => ∃ p, w'.prev = some p) := by
  unfold walkValueAssign
  refine WP.bind (P := fun _ _ => True) WP.true ?_
  intro _ w1 _
  refine WP.bind (P := fun _ _ => True) WP.true ?_
  intro value w2 _
  refine WP.bind (endStatement_prevSome w2) ?_
  intro comment w3 hc
  exact WP.pure hc

theorem walkStatement_prevSome (fuel : Nat) (w : W) :
    WP (walkStatement fuel) w (fun _ w' => ∃ p, w'.prev = some p) := by
  unfold walkStatement
  refine WP.bind (popReference_span w) ?_
  intro ref w1 hr
  simp only []
  apply WP.getW_bind
  by_cases h1 : w1.nextType = .assign
  · simp only [h1, if_true]
    refine WP.bind (walkValueAssign_prevSome fuel ref false w1) ?_
    intro a w2 ha
    exact WP.pure ha
  · simp only [h1, if_false]
    by_cases h2 : w1.nextType = .plus
    · simp only [h2, if_true]
      refine WP.bind (P := fun _ _ => True) WP.true ?_
      intro _ w2 _
      apply WP.getW_bind
      split
      · exact failUnexpected_wp _ _ _
      · refine WP.bind (walkValueAssign_prevSome fuel ref true w2) ?_
        intro a w3 ha
        exact WP.pure ha
    · simp only [h2, if_false]
      refine WP.bind (tagsLoop_prevOk fuel fuel w1 [] hr.2.1) ?_
      intro tags w2 ht
      refine WP.bind (qualsLoop_prevOk fuel fuel w2 [] ht) ?_
      intro quals w3 hq
      apply WP.getW_bind
      split
      · refine WP.bind (P := fun _ _ => True) WP.true ?_
        intro _ w4 _
        apply WP.getW_bind
        refine WP.bind (endStatement_prevSome w4) ?_
        intro comment w5 hc
        exact WP.pure hc
      · refine WP.bind (popToken_prevSome w3) ?_
        intro tok w4 hp
        apply WP.getW_bind
        exact WP.pure hp
      · refine WP.bind (endStatement_prevSome w3) ?_
        intro comment w4 hc
        exact WP.pure hc
      · exact WP.pure hq.some
      · exact WP.pure hq.some
      · exact failUnexpected_wp _ _ _

/-- after a fragment has been read, a token has been read -/
theorem nextFragment_prev_some (fuel : Nat) {w w' : W} {f : Fragment}
    (h : nextFragment fuel w = .ok (some f) w') : ∃ p, w'.prev = some p := by
  have key : WP (nextFragment fuel) w (fun r w' => ∀ f, r = some f → ∃ p, w'.prev = some p) := by
    unfold nextFragment
    apply WP.getW_bind
    split
    · refine WP.bind (P := fun _ _ => True) WP.true ?_
      intro _ w1 _
      exact WP.pure (fun f h => by cases h)
    · refine WP.bind (P := fun _ _ => True) WP.true ?_
      intro _ w1 _
      exact WP.pure (fun f h => by cases h)
    · refine WP.bind (popToken_prevSome w) ?_
      intro tok w1 hp
      exact WP.pure (fun _ _ => hp)
    · refine WP.bind (popToken_prevSome w) ?_
      intro tok w1 hp
      exact WP.pure (fun _ _ => hp)
    · refine WP.bind (popToken_prevSome w) ?_
      intro tok w1 hp
      exact WP.pure (fun _ _ => hp)
    · rename_i hty
      refine WP.bind (P := fun d w1 => DescRead w d w1)
        (fun d w1 h => popDescription_exact h hty) ?_
      intro d w1 hd
      obtain ⟨_, _, _, _, _, tl, t1, _⟩ := hd
      exact WP.pure (fun _ _ => ⟨tl, t1⟩)
    · refine WP.bind (walkStatement_prevSome fuel w) ?_
      intro f w1 hf
      exact WP.pure (fun _ _ => hf)
    · refine WP.bind (walkStatement_prevSome fuel w) ?_
      intro f w1 hf
      exact WP.pure (fun _ _ => hf)
    · exact failUnexpected_wp _ _ _
  exact key (some f) w' h f rfl

/-! ## why `hE` is needed

`WI (LineP cls) LineR w` says nothing about the end of an EOF token that is *in the token list*
(`TokLitWF` is `True` for it, `LineP` asks one line only of COMMENT and EOL tokens).
`endStatement` reads such a token as the end of the statement, so the walker then stands at its
end — which may be on a later line than the statement. -/

namespace SpanCex

/-- every rune is a letter -/
def cls : Cls := ⟨fun _ => false, fun _ => false, fun _ => true, fun _ => true⟩

/-- `a` at 0:0–0:1 -/
def tA : Token := ⟨.ident, [97], ⟨0, 0⟩, ⟨0, 1⟩⟩
/-- `{` at 0:2–0:3 -/
def tL : Token := ⟨.lbrace, [123], ⟨0, 2⟩, ⟨0, 3⟩⟩
/-- an EOF token from 0:3 to 5:0 -/
def tE : Token := ⟨.eof, [], ⟨0, 3⟩, ⟨5, 0⟩⟩

def w0 : W := ⟨none, [tA, tL, tE]⟩

theorem wi : WI (LineP cls) LineR w0 := by
  refine ⟨?_, ?_⟩
  · intro t ht
    have ht' : t = tA ∨ t = tL ∨ t = tE := by simpa [w0] using ht
    rcases ht' with e | e | e <;> subst e
    · refine ⟨?_, fun h => by rcases h with h | h <;> cases h⟩
      show IdentLitWF cls [97] ∧ ¬ (([97] : List Rune) = litTrue ∨ ([97] : List Rune) = litFalse)
      refine ⟨⟨by decide, ?_, fun r hr => by cases hr⟩, by decide⟩
      intro r hr
      have : r = 97 := by simpa using hr.symm
      subst this
      exact ⟨by decide, by decide, by decide, by decide, by decide, rfl, rfl, rfl⟩
    · refine ⟨?_, fun h => by rcases h with h | h <;> cases h⟩
      exact ⟨123, by decide, rfl⟩
    · exact ⟨trivial, fun h => by rcases h with h | h <;> cases h⟩
  · refine ⟨fun t h => (by cases h), ⟨fun t h => ?_, ⟨fun t h => ?_, trivial⟩⟩⟩
    · cases h
      refine ⟨?_, fun _ => rfl, ?_⟩
      · intro hl
        rcases hl with hl | hl <;> cases hl
      · intro hl
        cases hl
    · cases h
      refine ⟨?_, fun _ => rfl, ?_⟩
      · intro hl
        rcases hl with hl | hl <;> cases hl
      · intro hl
        cases hl

/-- the header `a {` ends on line 0, the walker stands on line 5 -/
theorem run : ∃ f w', nextFragment 1 w0 = .ok (some f) w' ∧ f.src.end_.line = 0 ∧
    w'.currentPos.line = 5 := ⟨_, _, rfl, rfl, rfl⟩

end SpanCex

/-- `nextFragment_span` without `hE` is false -/
theorem nextFragment_span_counterexample :
    ¬ (∀ (cls : Cls) (fuel : Nat) (w w' : W) (f : Fragment), WI (LineP cls) LineR w →
      nextFragment fuel w = .ok (some f) w' → w'.currentPos.line = f.src.end_.line) := by
  intro hall
  obtain ⟨f, w', h1, h2, h3⟩ := SpanCex.run
  have := hall SpanCex.cls 1 SpanCex.w0 w' f SpanCex.wi h1
  rw [h2, h3] at this
  cases this

end J5V.Bcl
