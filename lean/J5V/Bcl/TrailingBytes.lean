import J5V.Bcl.FmtDiffProofs
import J5V.Bcl.TrailingProofs
/-!
# `TrailingBlank` holds for every source (given `\n` is neither a letter nor a digit)
-/
namespace J5V.Bcl

theorem lastTo_diffFile (cls : Cls) : ∀ (frags : List Fragment) (indent lo : Nat),
    lastTo ((diffFile cls indent frags).map FmtFrag.toEdit) lo =
      (match frags.getLast? with
       | some f => f.src.end_.line + 1
       | none => lo) := by
  intro frags
  induction frags with
  | nil => intro indent lo; rfl
  | cons f fs ih =>
    intro indent lo
    obtain ⟨_, e2⟩ := fmtFragment_lines cls indent f
    unfold diffFile
    generalize fmtFragment cls indent f = res at e2
    obtain ⟨d, i⟩ := res
    simp only [List.map_cons, lastTo] at e2 ⊢
    rw [ih i]
    cases fs with
    | nil => simp [FmtFrag.toEdit, e2]
    | cons g gs =>
      have hne : (g :: gs).getLast? = some ((g :: gs).getLast (by simp)) :=
        List.getLast?_eq_some_getLast (by simp)
      rw [List.getLast?_cons_cons, hne]

theorem lastTo_fragEdits (cls : Cls) (frags : List Fragment) :
    lastTo (fragEdits cls frags) 0 = lastToR frags := by
  unfold fragEdits lastToR
  exact lastTo_diffFile cls frags 0 0

/-- **the lines after the last fragment are blank**, for every source -/
theorem trailingBlank_all (cls : Cls) (hcls : ClsNL cls) (bytes : List Nat) : TrailingBlank cls bytes := by
  intro frags hc l hl
  rw [lastTo_fragEdits] at hl
  obtain ⟨k, hk⟩ := List.mem_iff_getElem?.mp hl
  rw [List.getElem?_drop] at hk
  have hsplit := splitLines_decodeRunes bytes.length bytes (Nat.le_refl _)
  have hline : (splitLines (decodeRunes bytes))[lastToR frags + k]? = some (decodeRunes l) := by
    rw [hsplit, List.getElem?_map, hk]; rfl
  have := trailing_blank_runes cls hcls (decodeRunes bytes) frags hc _ _ hline (Nat.le_add_right _ _)
  unfold blankLine
  exact List.all_eq_true.mpr this

end J5V.Bcl
