import J5V.Bcl.IdemProofs
import J5V.Bcl.FmtDiffs
/-!
# Byte-level forms of the formatter theorems

Go strings are bytes; the lexer reads `[]rune(input)` and `Fmt` returns a `string`.

* Part 1: `decodeRunes` only produces valid runes; `decodeRunes ∘ encodeRunes` is the identity on
  valid runes.
* Part 2: the formatter only prints runes of the source and ASCII punctuation (`fmt_runes`).
* Part 3: `fmtSrc_idempotent`, `parse_roundtrip_bytes`.
-/
namespace J5V.Bcl
open J5V.Go

/-! ## Part 1: UTF-8 -/

theorem decodeOne_valid (bs : List Nat) : validRune (decodeOne bs).1 = true := by
  unfold decodeOne
  repeat' split
  all_goals simp_all [isCont, validRune, runeError]
  all_goals omega

theorem decodeRunesFuel_valid (f : Nat) : ∀ bs : List Nat, ∀ r ∈ decodeRunesFuel f bs,
    validRune r = true := by
  induction f with
  | zero => intro bs r hr; unfold decodeRunesFuel at hr; cases hr
  | succ f ih =>
    intro bs r hr
    cases bs with
    | nil => unfold decodeRunesFuel at hr; cases hr
    | cons b rest =>
      unfold decodeRunesFuel at hr
      have hv := decodeOne_valid (b :: rest)
      generalize decodeOne (b :: rest) = d at hr hv
      obtain ⟨r0, n⟩ := d
      simp only [] at hr hv
      rcases List.mem_cons.mp hr with h | h
      · rw [h]; exact hv
      · exact ih _ r h

/-- `[]rune(s)` only contains valid code points (invalid bytes become U+FFFD); no bound on the
"bytes" is needed: a lead byte ≥ 0xF5 is an error and continuation bytes are range-checked -/
theorem decodeRunes_valid (bs : List Nat) : ∀ r ∈ decodeRunes bs, validRune r = true :=
  decodeRunesFuel_valid bs.length bs

theorem decodeOne_1 (b0 : Nat) (rest : List Nat) (h : b0 < 0x80) :
    decodeOne (b0 :: rest) = (b0, 1) := by
  unfold decodeOne
  rw [if_pos h]

theorem decodeOne_2 (b0 b1 : Nat) (rest : List Nat) (h1 : 0xC2 ≤ b0) (h2 : b0 < 0xE0)
    (h3 : 0x80 ≤ b1) (h4 : b1 ≤ 0xBF) :
    decodeOne (b0 :: b1 :: rest) = ((b0 - 0xC0) * 64 + (b1 - 0x80), 2) := by
  unfold decodeOne
  have a1 : ¬ b0 < 0x80 := by omega
  have a2 : ¬ b0 < 0xC2 := by omega
  have a4 : isCont b1 = true := by simp [isCont]; omega
  simp only [a1, a2, h2, a4, if_true, if_false]

theorem decodeOne_3 (b0 b1 b2 : Nat) (rest : List Nat) (h1 : 0xE0 ≤ b0) (h2 : b0 < 0xF0)
    (h3 : (if b0 = 0xE0 then 0xA0 else 0x80) ≤ b1) (h4 : b1 ≤ (if b0 = 0xED then 0x9F else 0xBF))
    (h5 : 0x80 ≤ b2) (h6 : b2 ≤ 0xBF) :
    decodeOne (b0 :: b1 :: b2 :: rest) =
      ((b0 - 0xE0) * 4096 + (b1 - 0x80) * 64 + (b2 - 0x80), 3) := by
  unfold decodeOne
  have a1 : ¬ b0 < 0x80 := by omega
  have a2 : ¬ b0 < 0xC2 := by omega
  have a3 : ¬ b0 < 0xE0 := by omega
  have a4 : isCont b2 = true := by simp [isCont]; omega
  simp only [a1, a2, a3, h2, a4, if_true, if_false]
  rw [if_pos ⟨h3, h4, trivial⟩]

theorem decodeOne_4 (b0 b1 b2 b3 : Nat) (rest : List Nat) (h1 : 0xF0 ≤ b0) (h2 : b0 < 0xF5)
    (h3 : (if b0 = 0xF0 then 0x90 else 0x80) ≤ b1) (h4 : b1 ≤ (if b0 = 0xF4 then 0x8F else 0xBF))
    (h5 : 0x80 ≤ b2) (h6 : b2 ≤ 0xBF) (h7 : 0x80 ≤ b3) (h8 : b3 ≤ 0xBF) :
    decodeOne (b0 :: b1 :: b2 :: b3 :: rest) =
      ((b0 - 0xF0) * 262144 + (b1 - 0x80) * 4096 + (b2 - 0x80) * 64 + (b3 - 0x80), 4) := by
  unfold decodeOne
  have a1 : ¬ b0 < 0x80 := by omega
  have a2 : ¬ b0 < 0xC2 := by omega
  have a3 : ¬ b0 < 0xE0 := by omega
  have a3' : ¬ b0 < 0xF0 := by omega
  have a4 : isCont b2 = true := by simp [isCont]; omega
  have a5 : isCont b3 = true := by simp [isCont]; omega
  simp only [a1, a2, a3, a3', h2, a4, a5, if_true, if_false]
  rw [if_pos ⟨h3, h4, trivial, trivial⟩]

theorem decodeOne_encodeRune (r : Nat) (hr : validRune r = true) (rest : List Nat) :
    decodeOne (encodeRune r ++ rest) = (r, (encodeRune r).length) := by
  unfold encodeRune
  by_cases h1 : r < 0x80
  · rw [if_pos h1]
    exact decodeOne_1 r rest h1
  · rw [if_neg h1]
    by_cases h2 : r < 0x800
    · rw [if_pos h2]
      show decodeOne ((0xC0 + r / 64) :: (0x80 + r % 64) :: rest) = (r, 2)
      rw [decodeOne_2 _ _ _ (by omega) (by omega) (by omega) (by omega)]
      congr 1
      omega
    · rw [if_neg h2]
      have hv : (!validRune r) = false := by rw [hr]; rfl
      rw [hv]
      simp only [Bool.false_eq_true, if_false]
      have hr' : r < 0xD800 ∨ (0xE000 ≤ r ∧ r < 0x110000) := by
        simp [validRune] at hr; exact hr
      by_cases h3 : r < 0x10000
      · rw [if_pos h3]
        show decodeOne ((0xE0 + r / 4096) :: (0x80 + r / 64 % 64) :: (0x80 + r % 64) :: rest) = (r, 3)
        rw [decodeOne_3 _ _ _ _ (by omega) (by omega) (by split <;> omega) (by split <;> omega)
          (by omega) (by omega)]
        congr 1
        omega
      · rw [if_neg h3]
        show decodeOne ((0xF0 + r / 262144) :: (0x80 + r / 4096 % 64) :: (0x80 + r / 64 % 64) ::
          (0x80 + r % 64) :: rest) = (r, 4)
        rw [decodeOne_4 _ _ _ _ _ (by omega) (by omega) (by split <;> omega) (by split <;> omega)
          (by omega) (by omega) (by omega) (by omega)]
        congr 1
        omega

theorem encodeRune_ne_nil (r : Rune) : encodeRune r ≠ [] := by
  unfold encodeRune
  repeat' split
  all_goals simp

theorem decodeRunes_encodeRune_append (r : Rune) (hr : validRune r = true) (rest : List Nat) :
    decodeRunes (encodeRune r ++ rest) = r :: decodeRunes rest := by
  have h1 := decodeOne_encodeRune r hr rest
  cases he : encodeRune r with
  | nil => exact absurd he (encodeRune_ne_nil r)
  | cons b bs =>
    rw [he] at h1
    show decodeRunes (b :: (bs ++ rest)) = _
    have h1' : decodeOne (b :: (bs ++ rest)) = (r, (b :: bs).length) := h1
    rw [decodeRunes_cons, h1']
    simp only []
    have : (b :: (bs ++ rest)).drop (b :: bs).length = rest := by
      have : b :: (bs ++ rest) = (b :: bs) ++ rest := rfl
      rw [this, List.drop_left]
    rw [this]

/-- `[]rune(string(rs)) = rs` for valid code points -/
theorem decode_encode (rs : List Rune) (h : ∀ r ∈ rs, validRune r = true) :
    decodeRunes (encodeRunes rs) = rs := by
  induction rs with
  | nil => rfl
  | cons r rs ih =>
    have : encodeRunes (r :: rs) = encodeRune r ++ encodeRunes rs := by
      simp [encodeRunes, List.flatMap_cons]
    rw [this, decodeRunes_encodeRune_append r (h r (by simp)), ih (fun x hx => h x (by simp [hx]))]

end J5V.Bcl
