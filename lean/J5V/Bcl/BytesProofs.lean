import J5V.Bcl.IdemProofs
import J5V.Bcl.FmtDiffs
/-!
# Byte-level forms of the formatter theorems

Go strings are bytes; the lexer reads `[]rune(input)` and `Fmt` returns a `string`.

* Part 1: `decodeRunes` only produces valid runes; `decodeRunes ∘ encodeRunes` is the identity on
  valid runes.
* Part 2: the formatter only prints runes of the source and ASCII punctuation (`fmt_runes`).
* Part 3: `fmtSrc_idempotent`, `parse_roundtrip_bytes`.
-/
namespace J5V.Bcl
open J5V.Go

/-! ## Part 1: UTF-8 -/

theorem validRune_iff (r : Nat) :
    validRune r = true ↔ (r < 0xD800 ∨ (0xE000 ≤ r ∧ r < 0x110000)) := by
  unfold validRune; simp

theorem decodeOne_valid (bs : List Nat) : validRune (decodeOne bs).1 = true := by
  rw [validRune_iff]
  unfold decodeOne
  repeat' split
  all_goals simp_all [isCont, runeError]
  all_goals (try omega)
  all_goals split
  all_goals dsimp only
  all_goals omega

theorem decodeRunesFuel_valid (f : Nat) : ∀ bs : List Nat, ∀ r ∈ decodeRunesFuel f bs,
    validRune r = true := by
  induction f with
  | zero => intro bs r hr; unfold decodeRunesFuel at hr; cases hr
  | succ f ih =>
    intro bs r hr
    cases bs with
    | nil => unfold decodeRunesFuel at hr; cases hr
    | cons b rest =>
      unfold decodeRunesFuel at hr
      have hv := decodeOne_valid (b :: rest)
      generalize decodeOne (b :: rest) = d at hr hv
      obtain ⟨r0, n⟩ := d
      simp only [] at hr hv
      rcases List.mem_cons.mp hr with h | h
      · rw [h]; exact hv
      · exact ih _ r h

/-- `[]rune(s)` only contains valid code points (invalid bytes become U+FFFD); no bound on the
"bytes" is needed: a lead byte ≥ 0xF5 is an error and continuation bytes are range-checked -/
theorem decodeRunes_valid (bs : List Nat) : ∀ r ∈ decodeRunes bs, validRune r = true :=
  decodeRunesFuel_valid bs.length bs

theorem decodeOne_1 (b0 : Nat) (rest : List Nat) (h : b0 < 0x80) :
    decodeOne (b0 :: rest) = (b0, 1) := by
  unfold decodeOne
  simp only [h, if_true]

theorem decodeOne_2 (b0 b1 : Nat) (rest : List Nat) (h1 : 0xC2 ≤ b0) (h2 : b0 < 0xE0)
    (h3 : 0x80 ≤ b1) (h4 : b1 ≤ 0xBF) :
    decodeOne (b0 :: b1 :: rest) = ((b0 - 0xC0) * 64 + (b1 - 0x80), 2) := by
  unfold decodeOne
  have a1 : ¬ b0 < 0x80 := by omega
  have a2 : ¬ b0 < 0xC2 := by omega
  have a4 : isCont b1 = true := by simp [isCont]; omega
  simp only [a1, a2, h2, a4, if_true, if_false]

theorem decodeOne_3 (b0 b1 b2 : Nat) (rest : List Nat) (h1 : 0xE0 ≤ b0) (h2 : b0 < 0xF0)
    (h3 : (if b0 = 0xE0 then 0xA0 else 0x80) ≤ b1) (h4 : b1 ≤ (if b0 = 0xED then 0x9F else 0xBF))
    (h5 : 0x80 ≤ b2) (h6 : b2 ≤ 0xBF) :
    decodeOne (b0 :: b1 :: b2 :: rest) =
      ((b0 - 0xE0) * 4096 + (b1 - 0x80) * 64 + (b2 - 0x80), 3) := by
  unfold decodeOne
  have a1 : ¬ b0 < 0x80 := by omega
  have a2 : ¬ b0 < 0xC2 := by omega
  have a3 : ¬ b0 < 0xE0 := by omega
  have a4 : isCont b2 = true := by simp [isCont]; omega
  simp only [a1, a2, a3, h2, a4, if_true, if_false]
  rw [if_pos ⟨h3, h4, trivial⟩]

theorem decodeOne_4 (b0 b1 b2 b3 : Nat) (rest : List Nat) (h1 : 0xF0 ≤ b0) (h2 : b0 < 0xF5)
    (h3 : (if b0 = 0xF0 then 0x90 else 0x80) ≤ b1) (h4 : b1 ≤ (if b0 = 0xF4 then 0x8F else 0xBF))
    (h5 : 0x80 ≤ b2) (h6 : b2 ≤ 0xBF) (h7 : 0x80 ≤ b3) (h8 : b3 ≤ 0xBF) :
    decodeOne (b0 :: b1 :: b2 :: b3 :: rest) =
      ((b0 - 0xF0) * 262144 + (b1 - 0x80) * 4096 + (b2 - 0x80) * 64 + (b3 - 0x80), 4) := by
  unfold decodeOne
  have a1 : ¬ b0 < 0x80 := by omega
  have a2 : ¬ b0 < 0xC2 := by omega
  have a3 : ¬ b0 < 0xE0 := by omega
  have a3' : ¬ b0 < 0xF0 := by omega
  have a4 : isCont b2 = true := by simp [isCont]; omega
  have a5 : isCont b3 = true := by simp [isCont]; omega
  simp only [a1, a2, a3, a3', h2, a4, a5, if_true, if_false]
  rw [if_pos ⟨h3, h4, trivial, trivial⟩]

theorem decodeOne_encodeRune (r : Nat) (hr : validRune r = true) (rest : List Nat) :
    decodeOne (encodeRune r ++ rest) = (r, (encodeRune r).length) := by
  unfold encodeRune
  by_cases h1 : r < 0x80
  · rw [if_pos h1]
    exact decodeOne_1 r rest h1
  · rw [if_neg h1]
    by_cases h2 : r < 0x800
    · rw [if_pos h2]
      show decodeOne ((0xC0 + r / 64) :: (0x80 + r % 64) :: rest) = (r, 2)
      rw [decodeOne_2 _ _ _ (by omega) (by omega) (by omega) (by omega)]
      have e : (0xC0 + r / 64 - 0xC0) * 64 + (0x80 + r % 64 - 0x80) = r := by omega
      rw [e]
    · rw [if_neg h2]
      have hv : (!validRune r) = false := by rw [hr]; rfl
      rw [hv]
      simp only [Bool.false_eq_true, if_false]
      have hr' := (validRune_iff r).mp hr
      by_cases h3 : r < 0x10000
      · rw [if_pos h3]
        show decodeOne ((0xE0 + r / 4096) :: (0x80 + r / 64 % 64) :: (0x80 + r % 64) :: rest) = (r, 3)
        rw [decodeOne_3 _ _ _ _ (by omega) (by omega) (by split <;> omega) (by split <;> omega)
          (by omega) (by omega)]
        have e : (0xE0 + r / 4096 - 0xE0) * 4096 + (0x80 + r / 64 % 64 - 0x80) * 64 +
            (0x80 + r % 64 - 0x80) = r := by omega
        rw [e]
      · rw [if_neg h3]
        show decodeOne ((0xF0 + r / 262144) :: (0x80 + r / 4096 % 64) :: (0x80 + r / 64 % 64) ::
          (0x80 + r % 64) :: rest) = (r, 4)
        rw [decodeOne_4 _ _ _ _ _ (by omega) (by omega) (by split <;> omega) (by split <;> omega)
          (by omega) (by omega) (by omega) (by omega)]
        have e : (0xF0 + r / 262144 - 0xF0) * 262144 + (0x80 + r / 4096 % 64 - 0x80) * 4096 +
            (0x80 + r / 64 % 64 - 0x80) * 64 + (0x80 + r % 64 - 0x80) = r := by omega
        rw [e]

theorem encodeRune_ne_nil (r : Rune) : encodeRune r ≠ [] := by
  unfold encodeRune
  repeat' split
  all_goals simp

theorem decodeRunes_encodeRune_append (r : Rune) (hr : validRune r = true) (rest : List Nat) :
    decodeRunes (encodeRune r ++ rest) = r :: decodeRunes rest := by
  have h1 := decodeOne_encodeRune r hr rest
  cases he : encodeRune r with
  | nil => exact absurd he (encodeRune_ne_nil r)
  | cons b bs =>
    rw [he] at h1
    show decodeRunes (b :: (bs ++ rest)) = _
    have h1' : decodeOne (b :: (bs ++ rest)) = (r, (b :: bs).length) := h1
    rw [decodeRunes_cons, h1']
    simp only []
    have : (b :: (bs ++ rest)).drop (b :: bs).length = rest := by
      have : b :: (bs ++ rest) = (b :: bs) ++ rest := rfl
      rw [this, List.drop_left]
    rw [this]

/-- `[]rune(string(rs)) = rs` for valid code points -/
theorem decode_encode (rs : List Rune) (h : ∀ r ∈ rs, validRune r = true) :
    decodeRunes (encodeRunes rs) = rs := by
  induction rs with
  | nil => rfl
  | cons r rs ih =>
    have : encodeRunes (r :: rs) = encodeRune r ++ encodeRunes rs := by
      simp [encodeRunes, List.flatMap_cons]
    rw [this, decodeRunes_encodeRune_append r (h r (by simp)), ih (fun x hx => h x (by simp [hx]))]

/-! ## Part 2: the formatter prints runes of the source and ASCII punctuation -/

/-- the runes the formatter (and the lexer's literals) insert -/
def fmtConsts : List Rune :=
  [cNL, cTAB, cSP, cQUOTE, cBSL, cSLASH, cSTAR, cPIPE, cDOT, 61, 123, 125, 91, 93, 44, 58, 43, 33, 63]

/-- every rune of `l` satisfies `P` -/
def RunesP (P : Rune → Prop) (l : List Rune) : Prop := ∀ r ∈ l, P r

/-- `P` holds for the inserted constants (record form of `∀ r ∈ fmtConsts, P r`) -/
structure PConsts (P : Rune → Prop) : Prop where
  nl : P cNL
  tab : P cTAB
  sp : P cSP
  quote : P cQUOTE
  bsl : P cBSL
  slash : P cSLASH
  star : P cSTAR
  pipe : P cPIPE
  dot : P cDOT
  assign : P 61
  lbrace : P 123
  lbrack : P 91
  rbrack : P 93
  comma : P 44
  colon : P 58
  plus : P 43

theorem PConsts.of_list {P : Rune → Prop} (h : ∀ r ∈ fmtConsts, P r) : PConsts P := by
  constructor <;> exact h _ (by simp [fmtConsts])

section Runes
variable {P : Rune → Prop}

theorem RunesP.nil : RunesP P [] := fun _ h => by cases h

theorem RunesP.cons {a : Rune} {l : List Rune} (ha : P a) (hl : RunesP P l) : RunesP P (a :: l) := by
  intro r hr
  rcases List.mem_cons.mp hr with h | h
  · rw [h]; exact ha
  · exact hl r h

theorem RunesP.head {a : Rune} {l : List Rune} (h : RunesP P (a :: l)) : P a := h a (by simp)

theorem RunesP.tail {a : Rune} {l : List Rune} (h : RunesP P (a :: l)) : RunesP P l :=
  fun r hr => h r (List.mem_cons_of_mem _ hr)

theorem RunesP.append {a b : List Rune} (ha : RunesP P a) (hb : RunesP P b) : RunesP P (a ++ b) := by
  intro r hr
  rcases List.mem_append.mp hr with h | h
  · exact ha r h
  · exact hb r h

theorem RunesP.snoc {l : List Rune} {a : Rune} (hl : RunesP P l) (ha : P a) : RunesP P (l ++ [a]) :=
  hl.append (RunesP.cons ha RunesP.nil)

theorem RunesP.flatMap {l : List Rune} {f : Rune → List Rune} (hl : RunesP P l)
    (hf : ∀ r, P r → RunesP P (f r)) : RunesP P (l.flatMap f) := by
  intro x hx
  obtain ⟨r, hr, hxr⟩ := List.mem_flatMap.mp hx
  exact hf r (hl r hr) x hxr

theorem RunesP.drop {l : List Rune} (n : Nat) (h : RunesP P l) : RunesP P (l.drop n) :=
  fun r hr => h r (List.mem_of_mem_drop hr)

theorem joinWith_runes {sep : List Rune} (hs : RunesP P sep) : ∀ (ls : List (List Rune)),
    (∀ l ∈ ls, RunesP P l) → RunesP P (joinWith sep ls)
  | [], _ => RunesP.nil
  | [a], h => by unfold joinWith; exact h a (by simp)
  | a :: b :: rest, h => by
    unfold joinWith
    exact ((h a (by simp)).append hs).append
      (joinWith_runes hs (b :: rest) (fun l hl => h l (List.mem_cons_of_mem _ hl)))

/-! ### lexer -/

/-- literal and remaining input of a lexing routine only hold `P` runes -/
structure LitP (P : Rune → Prop) (x : LitRes) : Prop where
  lit : RunesP P x.lit
  rest : RunesP P x.rest

theorem lexLineLoop_runes (c : Cur) (lit rest : List Rune) (h1 : RunesP P lit) (h2 : RunesP P rest) :
    LitP P (lexLineLoop c lit rest) := by
  induction rest generalizing c lit with
  | nil => unfold lexLineLoop; exact ⟨h1, RunesP.nil⟩
  | cons r rs ih =>
    unfold lexLineLoop
    split
    · exact ⟨h1, h2⟩
    · exact ih _ _ (h1.snoc h2.head) h2.tail

theorem lexLineComment_runes (c : Cur) (rest : List Rune) (h2 : RunesP P rest) :
    LitP P (lexLineComment c rest) := by
  cases rest with
  | nil => unfold lexLineComment; exact ⟨RunesP.nil, RunesP.nil⟩
  | cons r rs => unfold lexLineComment; exact lexLineLoop_runes _ _ _ RunesP.nil h2.tail

theorem lexBlockLoop_runes (c : Cur) (txt rest : List Rune) (h1 : RunesP P txt) (h2 : RunesP P rest) :
    LitP P (lexBlockLoop c txt rest) := by
  induction rest generalizing c txt with
  | nil => unfold lexBlockLoop; exact ⟨h1, RunesP.nil⟩
  | cons r rs ih =>
    unfold lexBlockLoop
    split
    · exact ⟨h1, h2.tail.drop 1⟩
    · exact ih _ _ (h1.snoc h2.head) h2.tail

theorem lexBlockComment_runes (c : Cur) (rest : List Rune) (h2 : RunesP P rest) :
    LitP P (lexBlockComment c rest) := by
  cases rest with
  | nil => unfold lexBlockComment; exact lexBlockLoop_runes _ _ _ RunesP.nil RunesP.nil
  | cons r rs => unfold lexBlockComment; exact lexBlockLoop_runes _ _ _ RunesP.nil h2.tail

theorem lexStringLoop_runes_aux (n : Nat) : ∀ (c : Cur) (lit rest : List Rune), rest.length ≤ n →
    RunesP P lit → RunesP P rest → LitP P (lexStringLoop c lit rest) := by
  induction n with
  | zero =>
    intro c lit rest hn h1 h2
    have : rest = [] := List.eq_nil_of_length_eq_zero (Nat.le_zero.mp hn)
    subst this
    unfold lexStringLoop
    exact ⟨RunesP.nil, RunesP.nil⟩
  | succ n ih =>
    intro c lit rest hn h1 h2
    cases rest with
    | nil => unfold lexStringLoop; exact ⟨RunesP.nil, RunesP.nil⟩
    | cons r rs =>
      unfold lexStringLoop
      simp only []
      by_cases q1 : r = cQUOTE
      · rw [if_pos q1]; exact ⟨h1, h2.tail⟩
      · rw [if_neg q1]
        by_cases q2 : r = cNL
        · rw [if_pos q2]; exact ⟨RunesP.nil, h2.tail⟩
        · rw [if_neg q2]
          by_cases q3 : r = cBSL
          · rw [if_pos q3]
            cases rs with
            | nil => exact ⟨RunesP.nil, RunesP.nil⟩
            | cons e rs2 =>
              simp only []
              split
              · exact ih _ _ rs2 (by simp at hn ⊢; omega) (h1.snoc h2.tail.head) h2.tail.tail
              · exact ⟨RunesP.nil, h2.tail⟩
          · rw [if_neg q3]
            exact ih _ _ rs (by simp at hn ⊢; omega) (h1.snoc h2.head) h2.tail

theorem lexRegexLoop_runes_aux (hc : PConsts P) (n : Nat) : ∀ (c : Cur) (lit rest : List Rune),
    rest.length ≤ n → RunesP P lit → RunesP P rest → LitP P (lexRegexLoop c lit rest) := by
  induction n with
  | zero =>
    intro c lit rest hn h1 h2
    have : rest = [] := List.eq_nil_of_length_eq_zero (Nat.le_zero.mp hn)
    subst this
    unfold lexRegexLoop
    exact ⟨RunesP.nil, RunesP.nil⟩
  | succ n ih =>
    intro c lit rest hn h1 h2
    cases rest with
    | nil => unfold lexRegexLoop; exact ⟨RunesP.nil, RunesP.nil⟩
    | cons r rs =>
      unfold lexRegexLoop
      simp only []
      by_cases q2 : r = cNL
      · rw [if_pos q2]; exact ⟨RunesP.nil, h2.tail⟩
      · rw [if_neg q2]
        by_cases q3 : r = cSLASH
        · rw [if_pos q3]
          cases rs with
          | nil => exact ⟨h1, RunesP.nil⟩
          | cons e rs2 =>
            simp only []
            split
            · exact ih _ _ rs2 (by simp at hn ⊢; omega) (h1.snoc hc.slash) h2.tail.tail
            · exact ⟨h1, h2.tail⟩
        · rw [if_neg q3]
          exact ih _ _ rs (by simp at hn ⊢; omega) (h1.snoc h2.head) h2.tail

theorem skipWhitespace_runes (cls : Cls) (c : Cur) (rest : List Rune) (h : RunesP P rest) :
    RunesP P (skipWhitespace cls c rest).2 := by
  induction rest generalizing c with
  | nil => unfold skipWhitespace; exact RunesP.nil
  | cons r rs ih =>
    unfold skipWhitespace
    split
    · exact ih _ h.tail
    · exact h

theorem lexDescriptionLine_runes (cls : Cls) (c : Cur) (rest : List Rune) (h : RunesP P rest) :
    LitP P (lexDescriptionLine cls c rest) := by
  have hs := skipWhitespace_runes cls c rest h
  unfold lexDescriptionLine
  generalize skipWhitespace cls c rest = sw at hs
  obtain ⟨c1, rest1⟩ := sw
  exact lexLineLoop_runes _ _ _ RunesP.nil hs

theorem lexIdentLoop_runes (cls : Cls) (c : Cur) (lit rest : List Rune) (h1 : RunesP P lit)
    (h2 : RunesP P rest) : LitP P (lexIdentLoop cls c lit rest) := by
  induction rest generalizing c lit with
  | nil => unfold lexIdentLoop; exact ⟨h1, RunesP.nil⟩
  | cons r rs ih =>
    unfold lexIdentLoop
    split
    · exact ih _ _ (h1.snoc h2.head) h2.tail
    · exact ⟨h1, h2⟩

theorem lexNumberLoop_runes (hc : PConsts P) (cls : Cls) (c : Cur) (ty : TokenType)
    (lit : List Rune) (sd : Bool) (rest : List Rune) (h1 : RunesP P lit) (h2 : RunesP P rest) :
    RunesP P (lexNumberLoop cls c ty lit sd rest).lit ∧
      RunesP P (lexNumberLoop cls c ty lit sd rest).rest := by
  induction rest generalizing c ty lit sd with
  | nil => unfold lexNumberLoop; exact ⟨h1, RunesP.nil⟩
  | cons r rs ih =>
    unfold lexNumberLoop
    by_cases d1 : cls.isDigit r = true
    · rw [if_pos d1]; exact ih _ _ _ _ (h1.snoc h2.head) h2.tail
    · rw [if_neg d1]
      by_cases d2 : r = cDOT
      · rw [if_pos d2]
        split
        · exact ⟨h1, h2⟩
        · exact ih _ _ _ _ (h1.snoc hc.dot) h2.tail
      · rw [if_neg d2]; exact ⟨h1, h2⟩

theorem litStep_runes (ty : TokenType) (p : Pos) (x : LitRes) (h : LitP P x) :
    RunesP P (litStep ty p x).tok.lit ∧ RunesP P (litStep ty p x).rest := by
  unfold litStep
  split
  · exact ⟨RunesP.nil, h.rest⟩
  · exact ⟨h.lit, h.rest⟩

theorem nextToken_runes (hc : PConsts P) (cls : Cls) (c : Cur) (rest : List Rune)
    (h : RunesP P rest) :
    RunesP P (nextToken cls c rest).tok.lit ∧ RunesP P (nextToken cls c rest).rest := by
  induction rest generalizing c with
  | nil => unfold nextToken; exact ⟨RunesP.nil, RunesP.nil⟩
  | cons r rs ih =>
    have hr : P r := h.head
    have hrs : RunesP P rs := h.tail
    unfold nextToken
    simp only []
    split
    · exact ⟨RunesP.cons hr RunesP.nil, hrs⟩
    · by_cases h1 : r = cSLASH
      · rw [if_pos h1]
        by_cases h2 : rs.head? = some cSLASH
        · rw [if_pos h2]; exact litStep_runes _ _ _ (lexLineComment_runes _ _ hrs)
        · rw [if_neg h2]
          by_cases h3 : rs.head? = some cSTAR
          · rw [if_pos h3]; exact litStep_runes _ _ _ (lexBlockComment_runes _ _ hrs)
          · rw [if_neg h3]
            exact litStep_runes _ _ _ (lexRegexLoop_runes_aux hc _ _ _ _ (Nat.le_refl _) RunesP.nil hrs)
      · rw [if_neg h1]
        by_cases h2 : r = cQUOTE
        · rw [if_pos h2]
          exact litStep_runes _ _ _ (lexStringLoop_runes_aux _ _ _ _ (Nat.le_refl _) RunesP.nil hrs)
        · rw [if_neg h2]
          by_cases h3 : r = cPIPE
          · rw [if_pos h3]; exact litStep_runes _ _ _ (lexDescriptionLine_runes cls _ _ hrs)
          · rw [if_neg h3]
            by_cases h4 : r = cNL
            · rw [if_pos h4]; exact ⟨RunesP.cons hr RunesP.nil, hrs⟩
            · rw [if_neg h4]
              by_cases h5 : cls.isSpace r = true
              · rw [if_pos h5]; exact ih _ hrs
              · rw [if_neg h5]
                by_cases h6 : cls.isDigit r = true
                · rw [if_pos h6]
                  have hn := lexNumberLoop_runes hc cls (c.adv r) .int [r] false rs
                    (RunesP.cons hr RunesP.nil) hrs
                  split <;> exact hn
                · rw [if_neg h6]
                  by_cases h7 : cls.isLetter r = true
                  · rw [if_pos h7]
                    have hi := lexIdentLoop_runes cls (c.adv r) [r] rs (RunesP.cons hr RunesP.nil) hrs
                    simp only [asKeyword]
                    split <;> exact ⟨hi.lit, hi.rest⟩
                  · rw [if_neg h7]; exact ⟨RunesP.nil, hrs⟩

/-- literals only hold `P` runes -/
def TokP (P : Rune → Prop) (t : Token) : Prop := RunesP P t.lit

theorem allTokensLoop_runes (hc : PConsts P) (cls : Cls) (ff : Bool) :
    ∀ (fuel : Nat) (c : Cur) (rest : List Rune) (toks : List Token) (errs : List LexErr)
      (out : List Token), allTokensLoop cls ff fuel c rest toks errs = .toks out →
      RunesP P rest → (∀ t ∈ toks, TokP P t) → ∀ t ∈ out, TokP P t := by
  intro fuel
  induction fuel with
  | zero => intro c rest toks errs out h; unfold allTokensLoop at h; cases h
  | succ fuel ih =>
    intro c rest toks errs out h hr ht
    unfold allTokensLoop at h
    simp only [] at h
    have hn := nextToken_runes hc cls c rest hr
    have ht' : ∀ t ∈ toks ++ [(nextToken cls c rest).tok], TokP P t :=
      forall_mem_append_single ht hn.1
    split at h
    · split at h
      · cases h
      · split at h
        · cases h
        · exact ih _ _ _ _ _ h hn.2 ht'
    · split at h
      · split at h
        · cases h; exact ht
        · cases h
      · exact ih _ _ _ _ _ h hn.2 ht'

theorem allTokens_runes (hc : PConsts P) (cls : Cls) (ff : Bool) (src : List Rune) (ts : List Token)
    (hsrc : RunesP P src) (h : allTokens cls ff src = .toks ts) : ∀ t ∈ ts, TokP P t :=
  allTokensLoop_runes hc cls ff _ _ _ _ _ _ h hsrc (fun t ht => by cases ht)

/-! ### walker -/

def ToksP (P : Rune → Prop) (ts : List Token) : Prop := ∀ t ∈ ts, TokP P t

theorem ToksP.nil : ToksP P [] := fun _ h => by cases h

theorem ToksP.cons {a : Token} {l : List Token} (ha : TokP P a) (hl : ToksP P l) :
    ToksP P (a :: l) := by
  intro r hr
  rcases List.mem_cons.mp hr with h | h
  · rw [h]; exact ha
  · exact hl r h

theorem ToksP.append {a b : List Token} (ha : ToksP P a) (hb : ToksP P b) : ToksP P (a ++ b) := by
  intro r hr
  rcases List.mem_append.mp hr with h | h
  · exact ha r h
  · exact hb r h

theorem ToksP.flatMap {α : Type} {l : List α} {f : α → List Token}
    (hf : ∀ x ∈ l, ToksP P (f x)) : ToksP P (l.flatMap f) := by
  intro t ht
  obtain ⟨x, hx, htx⟩ := List.mem_flatMap.mp ht
  exact hf x hx t htx

theorem tokP_new (ty : TokenType) {lit : List Rune} (h : RunesP P lit) : TokP P (newToken ty lit) := h

def IdentP (P : Rune → Prop) (i : Ident) : Prop := TokP P i.token ∧ RunesP P i.value

def RefP (P : Rune → Prop) (r : Reference) : Prop := ∀ i ∈ r.idents, IdentP P i

mutual
def ValueP (P : Rune → Prop) : Value → Prop
  | .scalar t _ => TokP P t
  | .array vs _ => ValueListP P vs
def ValueListP (P : Rune → Prop) : List Value → Prop
  | [] => True
  | v :: vs => ValueP P v ∧ ValueListP P vs
end

def TagP (P : Rune → Prop) (t : TagValue) : Prop :=
  TokP P t.markToken ∧ (∀ r, t.reference = some r → RefP P r) ∧ (∀ v, t.value = some v → ValueP P v)

def DescP (P : Rune → Prop) (d : Description) : Prop := ToksP P d.tokens ∧ RunesP P d.value

def CommentP (P : Rune → Prop) (c : Option CommentNode) : Prop := ∀ cn, c = some cn → RunesP P cn.value

def HeaderP (P : Rune → Prop) (h : BlockHeader) : Prop :=
  RefP P h.type ∧ (∀ t ∈ h.tags, TagP P t) ∧ (∀ t ∈ h.qualifiers, TagP P t) ∧
    (∀ d, h.description = some d → DescP P d) ∧ CommentP P h.src.comment

def AssignP (P : Rune → Prop) (a : Assignment) : Prop :=
  RefP P a.key ∧ ValueP P a.value ∧ CommentP P a.src.comment

/-- every rune stored in the fragment (token literals, identifier values, description and comment
values) satisfies `P` -/
def FragRunes (P : Rune → Prop) : Fragment → Prop
  | .header h => HeaderP P h
  | .assign a => AssignP P a
  | .desc d => DescP P d
  | .comment c => TokP P c.token ∧ RunesP P c.value
  | .close c => TokP P c.token

/-- walker state: the remaining tokens and the token read last only hold `P` runes -/
def WSt (P : Rune → Prop) (w : W) : Prop := ToksP P w.rest ∧ (∀ t, w.prev = some t → TokP P t)

theorem WSt.tail {p : Option Token} {t : Token} {rs : List Token} (h : WSt P ⟨p, t :: rs⟩) :
    WSt P ⟨some t, rs⟩ :=
  ⟨fun x hx => h.1 x (List.mem_cons_of_mem _ hx), fun x hx => by cases hx; exact h.1 _ (by simp)⟩

theorem popToken_runes {w : W} (hw : WSt P w) :
    WP popToken w (fun t w' => WSt P w' ∧ TokP P t) := by
  intro t w' h
  obtain ⟨p, rest⟩ := w
  unfold popToken at h
  cases rest with
  | cons u rs =>
    simp only [] at h
    cases h
    exact ⟨hw.tail, hw.1 _ (by simp)⟩
  | nil =>
    simp only [] at h
    cases p with
    | none => simp only [] at h; cases h
    | some l =>
      simp only [] at h
      split at h
      · cases h; exact ⟨hw, hw.2 _ rfl⟩
      · cases h; exact ⟨hw, RunesP.nil⟩

theorem asIdent_tokP {t it : Token} (ht : TokP P t) (h : t.asIdent = some it) : TokP P it := by
  unfold Token.asIdent at h
  split at h
  · cases h; exact ht
  · cases h; exact ht
  · cases h

theorem popReferenceLoop_runes (n : Nat) :
    ∀ (rest : List Token) (acc : List Ident) (prev : Option Token),
    rest.length ≤ n → (∀ i ∈ acc, IdentP P i) → WSt P ⟨prev, rest⟩ →
    ∀ r w', popReferenceLoop acc prev rest = .ok r w' → WSt P w' ∧ RefP P r := by
  induction n with
  | zero =>
    intro rest acc prev hn _ _ r w' h
    have : rest = [] := List.eq_nil_of_length_eq_zero (Nat.le_zero.mp hn)
    subst this
    unfold popReferenceLoop at h
    split at h
    · split at h <;> cases h
    · cases h
    · cases h
  | succ n ih =>
    intro rest acc prev hn hacc hw r w' h
    cases rest with
    | nil =>
      unfold popReferenceLoop at h
      split at h
      · split at h <;> cases h
      · cases h
      · cases h
    | cons t rs =>
      unfold popReferenceLoop at h
      cases hai : t.asIdent with
      | none =>
        rw [hai] at h
        simp only [] at h
        split at h <;> cases h
      | some it =>
        rw [hai] at h
        simp only [] at h
        have hit : TokP P it := asIdent_tokP (hw.1 t (by simp)) hai
        have hid : IdentP P ⟨it, it.lit, ⟨it.start, it.end_⟩⟩ := ⟨hit, hit⟩
        have hacc' : ∀ i ∈ acc ++ [(⟨it, it.lit, ⟨it.start, it.end_⟩⟩ : Ident)], IdentP P i :=
          forall_mem_append_single hacc hid
        have hfin : ∀ (rest' : List Token), WSt P ⟨some t, rest'⟩ →
            (match newReference (acc ++ [(⟨it, it.lit, ⟨it.start, it.end_⟩⟩ : Ident)]) with
              | none => (WR.panic "index out of range [0]" : WR Reference)
              | some r => .ok r ⟨some t, rest'⟩) = .ok r w' →
            WSt P w' ∧ RefP P r := by
          intro rest' hw' hh
          cases hnr : newReference (acc ++ [(⟨it, it.lit, ⟨it.start, it.end_⟩⟩ : Ident)]) with
          | none => rw [hnr] at hh; cases hh
          | some r0 =>
            rw [hnr] at hh
            cases hh
            have hi := newReference_idents hnr
            refine ⟨hw', ?_⟩
            intro i hi'
            rw [hi] at hi'
            exact hacc' i hi'
        cases rs with
        | nil => exact hfin [] hw.tail h
        | cons d rs2 =>
          simp only [] at h
          split at h
          · exact ih rs2 _ (some d) (by simp at hn ⊢; omega) hacc' hw.tail.tail r w' h
          · exact hfin (d :: rs2) hw.tail h

theorem popReference_runes {w : W} (hw : WSt P w) :
    WP popReference w (fun r w' => WSt P w' ∧ RefP P r) := by
  intro r w' h
  exact popReferenceLoop_runes w.rest.length w.rest [] w.prev (Nat.le_refl _)
    (fun i hi => by cases hi) hw r w' h

theorem refString_runes (hc : PConsts P) {r : Reference} (h : RefP P r) : RunesP P r.string := by
  unfold Reference.string
  refine joinWith_runes (RunesP.cons hc.dot RunesP.nil) _ ?_
  intro l hl
  obtain ⟨i, hi, rfl⟩ := List.mem_map.mp hl
  exact (h i hi).2

theorem popDescLoop_runes (n : Nat) : ∀ (rest toks : List Token) (last : Token), rest.length ≤ n →
    ToksP P toks → WSt P ⟨some last, rest⟩ →
    ToksP P (popDescLoop toks last rest).1 ∧ WSt P (popDescLoop toks last rest).2.2 := by
  induction n with
  | zero =>
    intro rest toks last h ht hw
    have : rest = [] := List.eq_nil_of_length_eq_zero (Nat.le_zero.mp h)
    subst this
    exact ⟨ht, hw⟩
  | succ n ih =>
    intro rest toks last h ht hw
    match rest with
    | [] => exact ⟨ht, hw⟩
    | [x] => exact ⟨ht, hw⟩
    | e :: d :: rs =>
      unfold popDescLoop
      split
      · exact ih rs _ d (by simp at h ⊢; omega)
          (ht.append (ToksP.cons (hw.1 d (by simp)) ToksP.nil)) hw.tail.tail
      · exact ⟨ht, hw⟩

theorem popDescription_runes (hc : PConsts P) {w : W} (hw : WSt P w) :
    WP popDescription w (fun d w' => WSt P w' ∧ DescP P d) := by
  unfold popDescription
  refine WP.bind (popToken_runes hw) ?_
  intro first w1 h1 d w' hm
  have hm' : (match popDescLoop [first] first w1.rest with
    | (toks, last, w2) => WR.ok (mkDescription toks first last) w2) = WR.ok d w' := hm
  have := popDescLoop_runes (P := P) w1.rest.length w1.rest [first] first (Nat.le_refl _)
    (ToksP.cons h1.2 ToksP.nil) ⟨h1.1.1, fun t ht => by cases ht; exact h1.2⟩
  generalize popDescLoop [first] first w1.rest = res at hm' this
  obtain ⟨toks, last, w2⟩ := res
  simp only [] at hm' this
  cases hm'
  refine ⟨this.2, this.1, ?_⟩
  show RunesP P (joinWith [cNL] (toks.map (·.lit)))
  refine joinWith_runes (RunesP.cons hc.nl RunesP.nil) _ ?_
  intro l hl
  obtain ⟨t, ht, rfl⟩ := List.mem_map.mp hl
  exact this.1 t ht

theorem valueListP_append : ∀ (a : List Value) (v : Value), ValueListP P a →
    ValueP P v → ValueListP P (a ++ [v])
  | [], v, _, hv => by
    show ValueListP P [v]
    unfold ValueListP
    exact ⟨hv, by unfold ValueListP; trivial⟩
  | x :: xs, v, ha, hv => by
    unfold ValueListP at ha
    show ValueListP P (x :: (xs ++ [v]))
    unfold ValueListP
    exact ⟨ha.1, valueListP_append xs v ha.2 hv⟩

theorem popValue_runes_aux (hc : PConsts P) (fuel : Nat) :
    (∀ w : W, WSt P w → WP (popValue fuel) w (fun v w' => WSt P w' ∧ ValueP P v)) ∧
    (∀ (w : W) (opener : Token) (acc : List Value), WSt P w → ValueListP P acc →
      WP (popValueElems fuel opener acc) w (fun v w' => WSt P w' ∧ ValueP P v)) := by
  induction fuel with
  | zero =>
    constructor
    · intro w _; unfold popValue; exact WP.panic
    · intro w o a _ _; unfold popValueElems; exact WP.panic
  | succ fuel ih =>
    obtain ⟨ihV, ihE⟩ := ih
    constructor
    · intro w hw
      unfold popValue
      intro v w' e
      simp only [] at e
      by_cases h1 : w.nextType = .ident
      · rw [if_pos h1] at e
        revert v w'
        refine WP.bind (popReference_runes hw) ?_
        intro ref w1 hr
        apply WP.pure
        refine ⟨hr.1, ?_⟩
        unfold ValueP
        exact refString_runes hc hr.2
      · rw [if_neg h1] at e
        by_cases h2 : w.nextType.isLiteral = true
        · rw [if_pos h2] at e
          revert v w'
          refine WP.bind (popToken_runes hw) ?_
          intro tok w1 hp
          apply WP.pure
          refine ⟨hp.1, ?_⟩
          unfold ValueP
          exact hp.2
        · rw [if_neg h2] at e
          by_cases h3 : w.nextType = .lbrack
          · rw [if_pos h3] at e
            revert v w'
            refine WP.bind (popToken_runes hw) ?_
            intro opener w1 hp
            apply WP.getW_bind
            by_cases h4 : w1.nextType = TokenType.rbrack
            · simp only [h4, if_true]
              refine WP.bind (popToken_runes hp.1) ?_
              intro _ w2 hp2
              apply WP.getW_bind
              apply WP.pure
              refine ⟨hp2.1, ?_⟩
              unfold ValueP ValueListP
              trivial
            · simp only [h4, if_false]
              exact ihE w1 opener [] hp.1 (by unfold ValueListP; trivial)
          · rw [if_neg h3] at e
            revert v w'
            exact failUnexpected_wp _ w _
    · intro w opener acc hw hacc
      unfold popValueElems
      refine WP.bind (ihV w hw) ?_
      intro value w1 hv
      obtain ⟨hw1, hval⟩ := hv
      simp only []
      apply WP.getW_bind
      by_cases h1 : w1.nextType = .comma
      · simp only [h1, if_true]
        refine WP.bind (popToken_runes hw1) ?_
        intro _ w2 hp
        exact ihE w2 opener (acc ++ [value]) hp.1 (valueListP_append _ _ hacc hval)
      · simp only [h1, if_false]
        by_cases h2 : w1.nextType = .rbrack
        · simp only [h2, if_true]
          refine WP.bind (popToken_runes hw1) ?_
          intro _ w2 hp
          apply WP.getW_bind
          apply WP.pure
          refine ⟨hp.1, ?_⟩
          unfold ValueP
          exact valueListP_append _ _ hacc hval
        · simp only [h2, if_false]
          exact failUnexpected_wp _ _ _

theorem popValue_runes (hc : PConsts P) (fuel : Nat) {w : W} (hw : WSt P w) :
    WP (popValue fuel) w (fun v w' => WSt P w' ∧ ValueP P v) :=
  (popValue_runes_aux hc fuel).1 w hw

theorem popTag_runes (hc : PConsts P) (fuel : Nat) {w : W} (hw : WSt P w) :
    WP (popTag fuel) w (fun t w' => WSt P w' ∧ TagP P t) := by
  unfold popTag
  apply WP.getW_bind
  have hmark : WP (match w.nextType with
      | .bang => do let tok ← popToken; pure (TagMark.bang, tok)
      | .question => do let tok ← popToken; pure (TagMark.question, tok)
      | _ => pure (TagMark.none, Token.zero) : WM (TagMark × Token)) w
      (fun p w' => WSt P w' ∧ TokP P p.2) := by
    split
    · refine WP.bind (popToken_runes hw) ?_
      intro tok w1 hp
      exact WP.pure ⟨hp.1, hp.2⟩
    · refine WP.bind (popToken_runes hw) ?_
      intro tok w1 hp
      exact WP.pure ⟨hp.1, hp.2⟩
    · exact WP.pure ⟨hw, RunesP.nil⟩
  refine WP.bind hmark ?_
  intro p w1 hm
  obtain ⟨mark, markToken⟩ := p
  obtain ⟨hw1, hmk⟩ := hm
  simp only []
  apply WP.getW_bind
  split
  · refine WP.bind (popReference_runes hw1) ?_
    intro ref w2 hr
    exact WP.pure ⟨hr.1, hmk, (fun r h => by cases h; exact hr.2), (fun v h => by cases h)⟩
  · refine WP.bind (popReference_runes hw1) ?_
    intro ref w2 hr
    exact WP.pure ⟨hr.1, hmk, (fun r h => by cases h; exact hr.2), (fun v h => by cases h)⟩
  · refine WP.bind (popValue_runes hc fuel hw1) ?_
    intro v w2 hv
    exact WP.pure ⟨hv.1, hmk, (fun r h => by cases h), (fun v' h => by cases h; exact hv.2)⟩
  · exact failUnexpected_wp _ _ _

theorem endStatement_runes {w : W} (hw : WSt P w) :
    WP endStatement w (fun c w' => WSt P w' ∧ CommentP P c) := by
  unfold endStatement
  refine WP.bind (popToken_runes hw) ?_
  intro tok w1 hp
  split
  · refine WP.bind (popToken_runes hp.1) ?_
    intro tok2 w2 hp2
    split
    · apply WP.pure
      refine ⟨hp2.1, ?_⟩
      intro cn hcn
      cases hcn
      exact hp.2
    · exact WP.fail
  · split
    · exact WP.pure ⟨hp.1, fun cn h => by cases h⟩
    · exact WP.fail

theorem popType_runes (tt : TokenType) {w : W} (hw : WSt P w) :
    WP (popType tt) w (fun _ w' => WSt P w') := by
  unfold popType
  refine WP.bind (popToken_runes hw) ?_
  intro tok w1 hp
  split
  · exact WP.fail
  · exact WP.pure hp.1

theorem walkValueAssign_runes (hc : PConsts P) (fuel : Nat) (ref : Reference) (app : Bool) {w : W}
    (hw : WSt P w) (href : RefP P ref) :
    WP (walkValueAssign fuel ref app) w (fun a w' => WSt P w' ∧ AssignP P a) := by
  unfold walkValueAssign
  refine WP.bind (popType_runes .assign hw) ?_
  intro _ w1 hw1
  refine WP.bind (popValue_runes hc fuel hw1) ?_
  intro value w2 hv
  refine WP.bind (endStatement_runes hv.1) ?_
  intro comment w3 hcm
  apply WP.pure
  exact ⟨hcm.1, href, hv.2, hcm.2⟩

theorem tagsLoop_runes (hc : PConsts P) (pfuel : Nat) (fuel : Nat) :
    ∀ (w : W) (acc : List TagValue), WSt P w → (∀ t ∈ acc, TagP P t) →
    WP (tagsLoop pfuel fuel acc) w (fun ts w' => WSt P w' ∧ ∀ t ∈ ts, TagP P t) := by
  induction fuel with
  | zero => intro w acc _ _; unfold tagsLoop; exact WP.panic
  | succ fuel ih =>
    intro w acc hw hacc
    unfold tagsLoop
    apply WP.getW_bind
    split
    · refine WP.bind (popTag_runes hc pfuel hw) ?_
      intro tag w1 ht
      exact ih w1 _ ht.1 (forall_mem_append_single hacc ht.2)
    · exact WP.pure ⟨hw, hacc⟩

theorem qualsLoop_runes (hc : PConsts P) (pfuel : Nat) (fuel : Nat) :
    ∀ (w : W) (acc : List TagValue), WSt P w → (∀ t ∈ acc, TagP P t) →
    WP (qualsLoop pfuel fuel acc) w (fun ts w' => WSt P w' ∧ ∀ t ∈ ts, TagP P t) := by
  induction fuel with
  | zero => intro w acc _ _; unfold qualsLoop; exact WP.panic
  | succ fuel ih =>
    intro w acc hw hacc
    unfold qualsLoop
    apply WP.getW_bind
    split
    · refine WP.bind (popToken_runes hw) ?_
      intro _ w1 hp
      refine WP.bind (popTag_runes hc pfuel hp.1) ?_
      intro tag w2 ht
      exact ih w2 _ ht.1 (forall_mem_append_single hacc ht.2)
    · exact WP.pure ⟨hw, hacc⟩

theorem commentP_none : CommentP P none := fun cn h => by cases h

theorem walkStatement_runes (hc : PConsts P) (fuel : Nat) {w : W} (hw : WSt P w) :
    WP (walkStatement fuel) w (fun f w' => WSt P w' ∧ FragRunes P f) := by
  unfold walkStatement
  refine WP.bind (popReference_runes hw) ?_
  intro ref w1 hr
  obtain ⟨hw1, href⟩ := hr
  simp only []
  apply WP.getW_bind
  by_cases h1 : w1.nextType = .assign
  · simp only [h1, if_true]
    refine WP.bind (walkValueAssign_runes hc fuel ref false hw1 href) ?_
    intro a w2 ha
    exact WP.pure ⟨ha.1, ha.2⟩
  · simp only [h1, if_false]
    by_cases h2 : w1.nextType = .plus
    · simp only [h2, if_true]
      refine WP.bind (popToken_runes hw1) ?_
      intro _ w2 hp
      apply WP.getW_bind
      split
      · exact failUnexpected_wp _ _ _
      · refine WP.bind (walkValueAssign_runes hc fuel ref true hp.1 href) ?_
        intro a w3 ha
        exact WP.pure ⟨ha.1, ha.2⟩
    · simp only [h2, if_false]
      refine WP.bind (tagsLoop_runes hc fuel fuel w1 [] hw1 (fun t ht => by cases ht)) ?_
      intro tags w2 ht
      refine WP.bind (qualsLoop_runes hc fuel fuel w2 [] ht.1 (fun t ht => by cases ht)) ?_
      intro quals w3 hq
      apply WP.getW_bind
      split
      · refine WP.bind (popToken_runes hq.1) ?_
        intro _ w4 hp
        apply WP.getW_bind
        refine WP.bind (endStatement_runes hp.1) ?_
        intro comment w5 hcm
        apply WP.pure
        refine ⟨hcm.1, ?_⟩
        show HeaderP P _
        exact ⟨href, ht.2, hq.2, (fun d h => by cases h), hcm.2⟩
      · refine WP.bind (popToken_runes hq.1) ?_
        intro tok w4 hp
        apply WP.getW_bind
        apply WP.pure
        refine ⟨hp.1, ?_⟩
        show HeaderP P _
        refine ⟨href, ht.2, hq.2, ?_, commentP_none⟩
        intro d hd
        cases hd
        exact ⟨ToksP.cons hp.2 ToksP.nil, hp.2⟩
      · refine WP.bind (endStatement_runes hq.1) ?_
        intro comment w4 hcm
        apply WP.pure
        refine ⟨hcm.1, ?_⟩
        show HeaderP P _
        exact ⟨href, ht.2, hq.2, (fun d h => by cases h), hcm.2⟩
      · apply WP.pure
        refine ⟨hq.1, ?_⟩
        show HeaderP P _
        exact ⟨href, ht.2, hq.2, (fun d h => by cases h), commentP_none⟩
      · apply WP.pure
        refine ⟨hq.1, ?_⟩
        show HeaderP P _
        exact ⟨href, ht.2, hq.2, (fun d h => by cases h), commentP_none⟩
      · exact failUnexpected_wp _ _ _

theorem nextFragment_runes (hc : PConsts P) (fuel : Nat) {w : W} (hw : WSt P w) :
    WP (nextFragment fuel) w (fun r w' => WSt P w' ∧ ∀ f, r = some f → FragRunes P f) := by
  unfold nextFragment
  apply WP.getW_bind
  split
  · refine WP.bind (popToken_runes hw) ?_
    intro _ w1 hp
    exact WP.pure ⟨hp.1, fun f h => by cases h⟩
  · refine WP.bind (popToken_runes hw) ?_
    intro _ w1 hp
    exact WP.pure ⟨hp.1, fun f h => by cases h⟩
  · refine WP.bind (popToken_runes hw) ?_
    intro tok w1 hp
    apply WP.pure
    refine ⟨hp.1, ?_⟩
    intro f h; cases h
    exact hp.2
  · refine WP.bind (popToken_runes hw) ?_
    intro tok w1 hp
    apply WP.pure
    refine ⟨hp.1, ?_⟩
    intro f h; cases h
    exact ⟨hp.2, hp.2⟩
  · refine WP.bind (popToken_runes hw) ?_
    intro tok w1 hp
    apply WP.pure
    refine ⟨hp.1, ?_⟩
    intro f h; cases h
    exact ⟨hp.2, hp.2⟩
  · refine WP.bind (popDescription_runes hc hw) ?_
    intro d w1 hd
    apply WP.pure
    refine ⟨hd.1, ?_⟩
    intro f h; cases h
    exact hd.2
  · refine WP.bind (walkStatement_runes hc fuel hw) ?_
    intro f w1 hf
    apply WP.pure
    refine ⟨hf.1, ?_⟩
    intro f' h; cases h
    exact hf.2
  · refine WP.bind (walkStatement_runes hc fuel hw) ?_
    intro f w1 hf
    apply WP.pure
    refine ⟨hf.1, ?_⟩
    intro f' h; cases h
    exact hf.2
  · exact failUnexpected_wp _ _ _

theorem walkFragmentsLoop_runes (hc : PConsts P) (pfuel : Nat) (fuel : Nat) :
    ∀ (w : W) (frags : List Fragment) (errs : List Diag), WSt P w →
    (∀ f ∈ frags, FragRunes P f) → ∀ out errs',
    walkFragmentsLoop true pfuel fuel w frags errs = .done out errs' →
      ∀ f ∈ out, FragRunes P f := by
  induction fuel with
  | zero => intro w frags errs _ _ out errs' h; unfold walkFragmentsLoop at h; cases h
  | succ fuel ih =>
    intro w frags errs hw hfr out errs' h
    unfold walkFragmentsLoop at h
    split at h
    · cases h; exact hfr
    · cases hnf : nextFragment pfuel w with
      | panic s => rw [hnf] at h; cases h
      | fail e w1 => rw [hnf] at h; simp at h
      | ok r w1 =>
        rw [hnf] at h
        have hn := nextFragment_runes hc pfuel hw r w1 hnf
        cases r with
        | none => exact ih w1 frags errs hn.1 hfr out errs' h
        | some f =>
          exact ih w1 (frags ++ [f]) errs hn.1 (forall_mem_append_single hfr (hn.2 f rfl)) out errs' h

/-- the fragments read from a source of `P` runes only store `P` runes -/
theorem collectFragments_runes (hc : PConsts P) (cls : Cls) (src : List Rune) (frags : List Fragment)
    (hsrc : RunesP P src) (h : collectFragments cls src = .ok frags) :
    ∀ f ∈ frags, FragRunes P f := by
  unfold collectFragments at h
  cases hts : allTokens cls true src with
  | nofuel => rw [hts] at h; cases h
  | errs es => rw [hts] at h; cases h
  | toks ts =>
    rw [hts] at h
    simp only [] at h
    cases hwf : walkFragments true ts with
    | panic s => rw [hwf] at h; cases h
    | hadErrors es => rw [hwf] at h; cases h
    | done out es =>
      rw [hwf] at h
      cases h
      unfold walkFragments at hwf
      exact walkFragmentsLoop_runes hc _ _ ⟨none, ts⟩ [] []
        ⟨allTokens_runes hc cls true src ts hsrc hts, fun t ht => by cases ht⟩
        (fun f hf => by cases hf) _ _ hwf

/-! ### formatter -/

theorem quoteString_runes (hc : PConsts P) {lit : List Rune} (h : RunesP P lit) :
    RunesP P (quoteString lit) := by
  unfold quoteString
  refine ((RunesP.cons hc.quote RunesP.nil).append (h.flatMap ?_)).append
    (RunesP.cons hc.quote RunesP.nil)
  intro r hr
  split
  · exact RunesP.cons hc.bsl (RunesP.cons hr RunesP.nil)
  · exact RunesP.cons hr RunesP.nil

theorem doubleSlashes_runes (hc : PConsts P) {lit : List Rune} (h : RunesP P lit) :
    RunesP P (doubleSlashes lit) := by
  unfold doubleSlashes
  refine h.flatMap ?_
  intro r hr
  split
  · exact RunesP.cons hc.slash (RunesP.cons hc.slash RunesP.nil)
  · exact RunesP.cons hr RunesP.nil

theorem tokenSource_runes (hc : PConsts P) {t : Token} (h : TokP P t) : RunesP P (tokenSource t) := by
  unfold tokenSource
  split
  · exact quoteString_runes hc h
  · exact ((RunesP.cons hc.slash RunesP.nil).append (doubleSlashes_runes hc h)).append
      (RunesP.cons hc.slash RunesP.nil)
  · exact (RunesP.cons hc.pipe (RunesP.cons hc.sp RunesP.nil)).append h
  · exact (RunesP.cons hc.slash (RunesP.cons hc.slash RunesP.nil)).append h
  · exact ((RunesP.cons hc.slash (RunesP.cons hc.star RunesP.nil)).append h).append
      (RunesP.cons hc.star (RunesP.cons hc.slash RunesP.nil))
  · exact h

theorem flatMap_tokenSource_runes (hc : PConsts P) {ts : List Token} (h : ToksP P ts) :
    RunesP P (ts.flatMap tokenSource) := by
  intro x hx
  obtain ⟨t, ht, hxt⟩ := List.mem_flatMap.mp hx
  exact tokenSource_runes hc (h t ht) x hxt

theorem referenceTokens_toks (hc : PConsts P) {r : Reference} (h : RefP P r) :
    ToksP P (referenceTokens r) := by
  unfold referenceTokens
  unfold RefP at h
  generalize r.idents = ids at h
  cases ids with
  | nil => exact ToksP.nil
  | cons i is =>
    simp only []
    refine ToksP.cons (h i (by simp)).1 (ToksP.flatMap ?_)
    intro p hp
    exact ToksP.cons (tokP_new .dot (RunesP.cons hc.dot RunesP.nil))
      (ToksP.cons (h p (List.mem_cons_of_mem _ hp)).1 ToksP.nil)

mutual
theorem valueTokens_toks (hc : PConsts P) : (v : Value) → ValueP P v → ToksP P (valueTokens v)
  | .scalar t _, h => by
    simp only [ValueP] at h
    simp only [valueTokens]
    exact ToksP.cons h ToksP.nil
  | .array vs _, h => by
    simp only [ValueP] at h
    simp only [valueTokens]
    exact ((ToksP.cons (tokP_new .lbrack (RunesP.cons hc.lbrack RunesP.nil)) ToksP.nil).append
      (valueListTokens_toks hc true vs h)).append
      (ToksP.cons (tokP_new .rbrack (RunesP.cons hc.rbrack RunesP.nil)) ToksP.nil)
theorem valueListTokens_toks (hc : PConsts P) (first : Bool) :
    (vs : List Value) → ValueListP P vs → ToksP P (valueListTokens first vs)
  | [], _ => by simp only [valueListTokens]; exact ToksP.nil
  | v :: vs, h => by
    simp only [ValueListP] at h
    simp only [valueListTokens]
    refine (ToksP.append ?_ (valueTokens_toks hc v h.1)).append (valueListTokens_toks hc false vs h.2)
    cases first with
    | true => exact ToksP.nil
    | false =>
      exact ToksP.cons (tokP_new .comma (RunesP.cons hc.comma RunesP.nil))
        (ToksP.cons (tokP_new .space (RunesP.cons hc.sp RunesP.nil)) ToksP.nil)
end

theorem tagTokens_toks (hc : PConsts P) {v : TagValue} (h : TagP P v) : ToksP P (tagTokens v) := by
  unfold tagTokens
  refine (ToksP.append ?_ ?_).append ?_
  · split
    · exact ToksP.cons h.1 (ToksP.cons (tokP_new .space (RunesP.cons hc.sp RunesP.nil)) ToksP.nil)
    · exact ToksP.nil
  · split
    · rename_i tok sp heq
      have := h.2.2 _ heq
      simp only [ValueP] at this
      exact ToksP.cons this ToksP.nil
    · exact ToksP.cons RunesP.nil ToksP.nil
    · exact ToksP.nil
  · split
    · rename_i r heq
      exact referenceTokens_toks hc (h.2.1 r heq)
    · exact ToksP.nil

theorem headerTokens_toks (hc : PConsts P) {b : BlockHeader} (h : HeaderP P b) :
    ToksP P (headerTokens b) := by
  unfold headerTokens
  obtain ⟨h1, h2, h3, h4, _⟩ := h
  refine ((((referenceTokens_toks hc h1).append ?_).append ?_).append ?_).append ?_
  · exact ToksP.flatMap (fun t ht =>
      ToksP.cons (tokP_new .space (RunesP.cons hc.sp RunesP.nil)) (tagTokens_toks hc (h2 t ht)))
  · exact ToksP.flatMap (fun t ht =>
      ToksP.cons (tokP_new .colon (RunesP.cons hc.colon RunesP.nil)) (tagTokens_toks hc (h3 t ht)))
  · split
    · exact ToksP.cons (tokP_new .space (RunesP.cons hc.sp RunesP.nil))
        (ToksP.cons (tokP_new .lbrace (RunesP.cons hc.lbrace RunesP.nil)) ToksP.nil)
    · exact ToksP.nil
  · split
    · rename_i d heq
      exact ToksP.cons (tokP_new .space (RunesP.cons hc.sp RunesP.nil)) (h4 d heq).1
    · exact ToksP.nil

theorem assignTokens_toks (hc : PConsts P) {a : Assignment} (h : AssignP P a) :
    ToksP P (assignTokens a) := by
  unfold assignTokens
  refine ((referenceTokens_toks hc h.1).append ?_).append (valueTokens_toks hc _ h.2.1)
  have hsp : TokP P (newToken .space [cSP]) := tokP_new .space (RunesP.cons hc.sp RunesP.nil)
  have has : TokP P (newToken .assign [61]) := tokP_new .assign (RunesP.cons hc.assign RunesP.nil)
  have hpl : TokP P (newToken .plus [43]) := tokP_new .plus (RunesP.cons hc.plus RunesP.nil)
  split
  · exact ToksP.cons hsp (ToksP.cons hpl (ToksP.cons has (ToksP.cons hsp ToksP.nil)))
  · exact ToksP.cons hsp (ToksP.cons has (ToksP.cons hsp ToksP.nil))

theorem inlineComment_runes (hc : PConsts P) {c : Option CommentNode} (h : CommentP P c) :
    RunesP P (inlineComment c) := by
  cases c with
  | none => exact RunesP.nil
  | some cn =>
    exact (RunesP.cons hc.sp (RunesP.cons hc.slash (RunesP.cons hc.slash RunesP.nil))).append
      (h cn rfl)

theorem tabs_runes (hc : PConsts P) (n : Nat) : RunesP P (tabs n) := by
  intro r hr
  unfold tabs at hr
  rw [List.eq_of_mem_replicate hr]
  exact hc.tab

theorem singleLineFrag_runes (hc : PConsts P) (indent : Nat) (src : SourceNode) (parts : List Token)
    (hp : ToksP P parts) (hcm : CommentP P src.comment) :
    RunesP P (singleLineFrag indent src parts).newText := by
  show RunesP P (tabs indent ++ (parts.flatMap tokenSource ++ inlineComment src.comment) ++ [cNL])
  exact ((tabs_runes hc indent).append ((flatMap_tokenSource_runes hc hp).append
    (inlineComment_runes hc hcm))).append (RunesP.cons hc.nl RunesP.nil)

/-- every line of the list only holds `P` runes -/
def LinesP (P : Rune → Prop) (ls : List (List Rune)) : Prop := ∀ l ∈ ls, RunesP P l

theorem LinesP.nil : LinesP P [] := fun _ h => by cases h

theorem LinesP.cons {a : List Rune} {l : List (List Rune)} (ha : RunesP P a) (hl : LinesP P l) :
    LinesP P (a :: l) := by
  intro r hr
  rcases List.mem_cons.mp hr with h | h
  · rw [h]; exact ha
  · exact hl r h

theorem LinesP.snoc {a : List Rune} {l : List (List Rune)} (hl : LinesP P l) (ha : RunesP P a) :
    LinesP P (l ++ [a]) := forall_mem_append_single hl ha

theorem LinesP.ite {c : Prop} [Decidable c] {a b : List (List Rune)} (ha : LinesP P a)
    (hb : LinesP P b) : LinesP P (if c then a else b) := by
  split
  · exact ha
  · exact hb

theorem fieldsAux_runes (cls : Cls) : ∀ (rs cur : List Rune), RunesP P rs → RunesP P cur →
    LinesP P (fieldsAux cls rs cur) := by
  intro rs
  induction rs with
  | nil =>
    intro cur _ hcur
    unfold fieldsAux
    split
    · exact LinesP.nil
    · exact LinesP.cons hcur LinesP.nil
  | cons r rs ih =>
    intro cur hrs hcur
    unfold fieldsAux
    split
    · split
      · exact ih [] hrs.tail RunesP.nil
      · exact LinesP.cons hcur (ih [] hrs.tail RunesP.nil)
    · exact ih _ hrs.tail (hcur.snoc hrs.head)

theorem fields_runes (cls : Cls) {s : List Rune} (h : RunesP P s) : LinesP P (fields cls s) :=
  fieldsAux_runes cls s [] h RunesP.nil

theorem rdWords_runes (hc : PConsts P) (maxWidth : Int) : ∀ (ws out : List (List Rune))
    (pend : List Rune), LinesP P ws → LinesP P out → RunesP P pend →
    LinesP P (rdWords maxWidth ws out pend).1 ∧ RunesP P (rdWords maxWidth ws out pend).2 := by
  intro ws
  induction ws with
  | nil => intro out pend _ ho hp; unfold rdWords; exact ⟨ho, hp⟩
  | cons word ws ih =>
    intro out pend hws ho hp
    have hw : RunesP P word := hws word (by simp)
    have hws' : LinesP P ws := fun l hl => hws l (List.mem_cons_of_mem _ hl)
    unfold rdWords
    split
    · exact ih out word hws' ho hw
    · split
      · exact ih _ word hws' (ho.snoc hp) hw
      · exact ih out _ hws' ho ((hp.append (RunesP.cons hc.sp RunesP.nil)).append hw)

theorem rdLines_runes (hc : PConsts P) (cls : Cls) (maxWidth : Int) : ∀ (ls : List (List Rune))
    (st : RDState), LinesP P ls → LinesP P st.out → RunesP P st.pend →
    LinesP P (rdLines cls maxWidth ls st).out ∧ RunesP P (rdLines cls maxWidth ls st).pend := by
  intro ls
  induction ls with
  | nil => intro st _ ho hp; unfold rdLines; exact ⟨ho, hp⟩
  | cons line ls ih =>
    intro st hls ho hp
    have hl : RunesP P line := hls line (by simp)
    have hls' : LinesP P ls := fun l hl => hls l (List.mem_cons_of_mem _ hl)
    unfold rdLines
    split
    · have ho1 : LinesP P (if st.pend ≠ [] then st.out ++ [st.pend] else st.out) := by
        split
        · exact ho.snoc hp
        · exact ho
      simp only []
      refine ih _ hls' ?_ RunesP.nil
      exact LinesP.ite (ho1.snoc RunesP.nil) ho1
    · have hw := rdWords_runes hc maxWidth (fields cls line) st.out st.pend (fields_runes cls hl) ho hp
      generalize rdWords maxWidth (fields cls line) st.out st.pend = res at hw
      obtain ⟨out, pend⟩ := res
      exact ih _ hls' hw.1 hw.2

theorem splitOn_runes (sep : Rune) : ∀ (s : List Rune), RunesP P s → LinesP P (splitOn sep s) := by
  intro s
  induction s with
  | nil => intro _; unfold splitOn; exact LinesP.cons RunesP.nil LinesP.nil
  | cons r rs ih =>
    intro h
    have ih' := ih h.tail
    unfold splitOn
    generalize splitOn sep rs = res at ih'
    cases res with
    | nil => exact LinesP.cons RunesP.nil LinesP.nil
    | cons l ls =>
      simp only []
      split
      · exact LinesP.cons RunesP.nil ih'
      · exact LinesP.cons (RunesP.cons h.head (ih' l (by simp)))
          (fun x hx => ih' x (List.mem_cons_of_mem _ hx))

theorem reformatDescription_runes (hc : PConsts P) (cls : Cls) (input : List Rune) (maxWidth : Int)
    (h : RunesP P input) : LinesP P (reformatDescription cls input maxWidth) := by
  unfold reformatDescription
  have hst := rdLines_runes hc cls maxWidth (splitOn cNL input) ⟨[], [], false⟩
    (splitOn_runes cNL input h) LinesP.nil RunesP.nil
  generalize rdLines cls maxWidth (splitOn cNL input) ⟨[], [], false⟩ = st at hst
  simp only []
  split
  · exact hst.1.snoc hst.2
  · exact hst.1

theorem trimRightSpaces_runes {s : List Rune} (h : RunesP P s) : RunesP P (trimRightSpaces s) := by
  intro r hr
  unfold trimRightSpaces at hr
  have h1 := List.mem_reverse.mp hr
  have h2 := (List.dropWhile_sublist _).subset h1
  exact h r (List.mem_reverse.mp h2)

theorem multiLineFrag_runes (hc : PConsts P) (indent : Nat) (span : Span) (pfx : List Rune)
    (lines : List (List Rune)) (hpfx : RunesP P pfx) (hl : LinesP P lines) :
    RunesP P (multiLineFrag indent span pfx lines).newText := by
  show RunesP P (joinWith [cNL] (lines.map fun part => trimRightSpaces (tabs indent ++ pfx ++ part))
    ++ [cNL])
  refine (joinWith_runes (RunesP.cons hc.nl RunesP.nil) _ ?_).append (RunesP.cons hc.nl RunesP.nil)
  intro l hlm
  obtain ⟨part, hp, rfl⟩ := List.mem_map.mp hlm
  exact trimRightSpaces_runes (((tabs_runes hc indent).append hpfx).append (hl part hp))

theorem fmtFragment_runes (hc : PConsts P) (cls : Cls) (indent : Nat) (f : Fragment)
    (h : FragRunes P f) : RunesP P (fmtFragment cls indent f).1.newText := by
  cases f with
  | header b =>
    show RunesP P (singleLineFrag indent b.src (headerTokens b)).newText
    have hb : HeaderP P b := h
    exact singleLineFrag_runes hc _ _ _ (headerTokens_toks hc hb) hb.2.2.2.2
  | assign a =>
    show RunesP P (singleLineFrag indent a.src (assignTokens a)).newText
    have ha : AssignP P a := h
    exact singleLineFrag_runes hc _ _ _ (assignTokens_toks hc ha) ha.2.2
  | desc d =>
    have hd : DescP P d := h
    unfold fmtFragment
    simp only []
    refine multiLineFrag_runes hc _ _ _ _ (RunesP.cons hc.pipe (RunesP.cons hc.sp RunesP.nil)) ?_
    split
    · exact LinesP.cons RunesP.nil LinesP.nil
    · exact reformatDescription_runes hc cls _ _ hd.2
  | comment c =>
    have hcm : TokP P c.token ∧ RunesP P c.value := h
    show RunesP P (singleLineFrag indent ⟨c.span.start, c.span.end_, none⟩ [c.token]).newText
    exact singleLineFrag_runes hc _ _ _ (ToksP.cons hcm.1 ToksP.nil) commentP_none
  | close c =>
    have hcl : TokP P c.token := h
    show RunesP P (singleLineFrag (indent - 1) ⟨c.span.start, c.span.end_, none⟩ [c.token]).newText
    exact singleLineFrag_runes hc _ _ _ (ToksP.cons hcl ToksP.nil) commentP_none

theorem diffFile_runes (hc : PConsts P) (cls : Cls) : ∀ (frags : List Fragment) (indent : Nat),
    (∀ f ∈ frags, FragRunes P f) → ∀ d ∈ diffFile cls indent frags, RunesP P d.newText := by
  intro frags
  induction frags with
  | nil => intro indent _ d hd; unfold diffFile at hd; cases hd
  | cons f fs ih =>
    intro indent h d hd
    unfold diffFile at hd
    have hf := fmtFragment_runes hc cls indent f (h f (by simp))
    generalize fmtFragment cls indent f = res at hd hf
    obtain ⟨d0, i⟩ := res
    simp only [] at hd hf
    rcases List.mem_cons.mp hd with e | e
    · rw [e]; exact hf
    · exact ih i (fun x hx => h x (List.mem_cons_of_mem _ hx)) d e

theorem fmtJoin_runes (hc : PConsts P) : ∀ (ds : List FmtFrag) (le : Option Nat),
    (∀ d ∈ ds, RunesP P d.newText) → RunesP P (fmtJoin ds le) := by
  intro ds
  induction ds with
  | nil => intro le _; unfold fmtJoin; exact RunesP.nil
  | cons d ds ih =>
    intro le h
    unfold fmtJoin
    refine (RunesP.append ?_ (h d (by simp))).append
      (ih _ (fun x hx => h x (List.mem_cons_of_mem _ hx)))
    split
    · split
      · exact RunesP.cons hc.nl RunesP.nil
      · exact RunesP.nil
    · exact RunesP.nil

end Runes

/-- **Part 2**: `Fmt` only prints runes of its input and the punctuation `fmtConsts` -/
theorem fmt_runes (cls : Cls) (P : Rune → Prop) (hP : ∀ r ∈ fmtConsts, P r) (src out : List Rune)
    (hsrc : ∀ r ∈ src, P r) (h : fmt cls src = .ok out) : ∀ r ∈ out, P r := by
  have hc := PConsts.of_list hP
  unfold fmt at h
  cases hcf : collectFragments cls src with
  | panic s => rw [hcf] at h; cases h
  | err => rw [hcf] at h; cases h
  | ok frags =>
    rw [hcf] at h
    cases h
    exact fmtJoin_runes hc _ none
      (diffFile_runes hc cls frags 0 (collectFragments_runes hc cls src frags hsrc hcf))

/-! ## Part 3: byte-level corollaries -/

theorem validRune_consts : ∀ r ∈ fmtConsts, validRune r = true := by decide

/-- what `fmtSrc` returns is the encoding of what `fmt` returns on the decoded source -/
theorem fmtSrc_ok_inv (cls : Cls) (bytes out : List Nat) (h : fmtSrc cls bytes = .ok out) :
    ∃ text, fmt cls (decodeRunes bytes) = .ok text ∧ out = encodeRunes text := by
  unfold fmtSrc at h
  cases hf : fmt cls (decodeRunes bytes) with
  | ok text => rw [hf] at h; cases h; exact ⟨text, rfl, rfl⟩
  | err => rw [hf] at h; cases h
  | panic s => rw [hf] at h; cases h

/-- the text `Fmt` prints for a decoded source survives `string(…)` / `[]rune(…)` -/
theorem decode_encode_fmt (cls : Cls) (bytes : List Nat) (text : List Rune)
    (h : fmt cls (decodeRunes bytes) = .ok text) : decodeRunes (encodeRunes text) = text :=
  decode_encode text (fmt_runes cls (fun r => validRune r = true) validRune_consts _ _
    (decodeRunes_valid bytes) h)

/-- `Fmt` is idempotent on byte strings -/
theorem fmtSrc_idempotent (cls : Cls) (hcls : ClsOK cls) (bytes out : List Nat)
    (h : fmtSrc cls bytes = .ok out) : fmtSrc cls out = .ok out := by
  obtain ⟨text, hf, rfl⟩ := fmtSrc_ok_inv cls bytes out h
  have hd := decode_encode_fmt cls bytes text hf
  have hi := fmt_idempotent cls hcls _ _ hf
  unfold fmtSrc
  rw [hd, hi]

/-- a source that parses is formatted to a source that parses to an equivalent tree, on bytes -/
theorem parse_roundtrip_bytes (cls : Cls) (hcls : ClsOK cls) (bytes : List Nat) (ff : Bool) (f : File)
    (h : parseFile cls (decodeRunes bytes) ff = .tree f) :
    ∃ out, fmtSrc cls bytes = .ok out ∧
      ∃ f', parseFile cls (decodeRunes out) ff = .tree f' ∧ File.equiv cls f' f := by
  obtain ⟨text, hf, f', hp, he⟩ := parse_roundtrip cls hcls _ ff f h
  have hd := decode_encode_fmt cls bytes text hf
  refine ⟨encodeRunes text, ?_, f', ?_, he⟩
  · unfold fmtSrc; rw [hf]
  · rw [hd]; exact hp

end J5V.Bcl
