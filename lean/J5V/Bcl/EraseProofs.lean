import J5V.Bcl.Equiv
/-!
# The walker commutes with position erasure

The walker never branches on a position, it only copies them.  So running any walker function on
the erased state gives the erased result.  Final theorems: `walkFragments_erase`,
`fragmentsToFile_erase`, `walk_erase`.
-/
namespace J5V.Bcl

/-! ## helpers -/

theorem Value.eraseList_eq_map (vs : List Value) : Value.eraseList vs = vs.map Value.erase := by
  induction vs with
  | nil => simp [Value.eraseList]
  | cons v vs ih => simp [Value.eraseList, ih]

theorem Statement.eraseList_eq_map (ss : List Statement) :
    Statement.eraseList ss = ss.map Statement.erase := by
  induction ss with
  | nil => simp [Statement.eraseList]
  | cons s ss ih => simp [Statement.eraseList, ih]

@[simp] theorem Token.erase_ty (t : Token) : t.erase.ty = t.ty := rfl
@[simp] theorem Token.erase_lit (t : Token) : t.erase.lit = t.lit := rfl
@[simp] theorem Token.erase_start (t : Token) : t.erase.start = ⟨0, 0⟩ := rfl
@[simp] theorem Token.erase_end (t : Token) : t.erase.end_ = ⟨0, 0⟩ := rfl

@[simp] theorem W.erase_prev (w : W) : w.erase.prev = w.prev.map Token.erase := rfl
@[simp] theorem W.erase_rest (w : W) : w.erase.rest = w.rest.map Token.erase := rfl

@[simp] theorem W.erase_nextType (w : W) : w.erase.nextType = w.nextType := by
  cases w with | mk p r => cases r <;> rfl

@[simp] theorem W.erase_peekType1 (w : W) : w.erase.peekType1 = w.peekType1 := by
  cases w with | mk p r =>
  cases r with
  | nil => rfl
  | cons a r => cases r <;> rfl

@[simp] theorem W.erase_currentPos (w : W) : w.erase.currentPos = ⟨0, 0⟩ := by
  cases w with | mk p r => cases p <;> rfl

theorem Token.erase_asIdent (t : Token) : t.erase.asIdent = t.asIdent.map Token.erase := by
  cases t with | mk ty lit s e =>
  cases ty <;> rfl

@[simp] theorem Reference.erase_string (r : Reference) : r.erase.string = r.string := by
  simp [Reference.string, Reference.erase, Ident.erase, Function.comp_def]

@[simp] theorem Reference.erase_span (r : Reference) : r.erase.span = Span.zero := rfl

@[simp] theorem Value.erase_span (v : Value) : v.erase.span = Span.zero := by
  cases v <;> rfl

theorem newReference_erase (acc : List Ident) :
    newReference (acc.map Ident.erase) = (newReference acc).map Reference.erase := by
  unfold newReference
  cases acc with
  | nil => rfl
  | cons a as =>
    simp only [List.map_cons, List.head?_cons]
    rw [← List.map_cons, List.getLast?_map]
    cases h : (a :: as).getLast? with
    | none => simp at h
    | some l => simp [Reference.erase, Ident.erase, Span.zero]

@[simp] theorem Fragment.erase_src (f : Fragment) : f.erase.src = f.src.erase := by
  cases f <;> simp [Fragment.erase, Fragment.src, SourceNode.erase, BlockHeader.erase,
    Assignment.erase, Description.erase, Comment.erase, CloseBlock.erase, Span.zero]

@[simp] theorem UnexpErr.erase_diag (e : UnexpErr) : e.erase.diag = e.diag.erase := rfl

/-! ## the relation "erased run = erasure of the run" -/

/-- `m'` on the erased state computes the erasure (by `g` on values) of what `m` computes -/
def ERel {α : Type} (g : α → α) (m' m : WM α) : Prop := ∀ w : W, m' w.erase = (m w).erase g

theorem ERel.pure {α : Type} {g : α → α} {a' a : α} (h : a' = g a) :
    ERel g (Pure.pure a' : WM α) (Pure.pure a) := by
  intro w; subst h; rfl

theorem ERel.fail {α : Type} {g : α → α} {e' e : UnexpErr} (h : e' = e.erase) :
    ERel g (WM.fail e' : WM α) (WM.fail e) := by
  intro w; subst h; rfl

theorem ERel.panic {α : Type} {g : α → α} (s : String) :
    ERel g (WM.panic s : WM α) (WM.panic s) := by
  intro w; rfl

theorem ERel.getW : ERel W.erase getW getW := by
  intro w; rfl

theorem ERel.bind {α β : Type} (gα : α → α) {gβ : β → β} {m' m : WM α} {k' k : α → WM β}
    (hm : ERel gα m' m) (hk : ∀ a, ERel gβ (k' (gα a)) (k a)) :
    ERel gβ (m' >>= k') (m >>= k) := by
  intro w
  show WM.bind m' k' w.erase = (WM.bind m k w).erase gβ
  unfold WM.bind
  rw [hm w]
  cases h : m w with
  | ok a w1 => simp only [WR.erase]; exact hk a w1
  | fail e w1 => rfl
  | panic s => rfl

/-- the form asked for: a bind lemma at one state -/
theorem bind_erase {α β : Type} (gα : α → α) (gβ : β → β) (m : WM α) (k : α → WM β) (w : W)
    (hm : m w.erase = (m w).erase gα)
    (hk : ∀ a w1, k (gα a) w1.erase = (k a w1).erase gβ) :
    (m >>= fun a => k a) w.erase = ((m >>= k) w).erase gβ := by
  show WM.bind m k w.erase = (WM.bind m k w).erase gβ
  unfold WM.bind
  rw [hm]
  cases h : m w with
  | ok a w1 => simp only [WR.erase]; exact hk a w1
  | fail e w1 => rfl
  | panic s => rfl

theorem ERel.ite {α : Type} {g : α → α} {c : Prop} [Decidable c] {a' a b' b : WM α}
    (ha : ERel g a' a) (hb : ERel g b' b) : ERel g (if c then a' else b') (if c then a else b) := by
  split
  · exact ha
  · exact hb

/-! ## walker functions -/

theorem popToken_erase : ERel Token.erase popToken popToken := by
  intro w
  cases w with | mk p r =>
  cases r with
  | cons t rs => rfl
  | nil =>
    cases p with
    | none => rfl
    | some l =>
      simp only [popToken, W.erase, List.map_nil, Option.map_some, Token.erase_ty]
      split <;> rfl

theorem failUnexpected_erase {α : Type} (g : α → α) (ex : List TokenType) :
    ERel g (failUnexpected ex : WM α) (failUnexpected ex) := by
  unfold failUnexpected
  exact ERel.bind Token.erase popToken_erase (fun tok => ERel.fail rfl)

theorem popType_erase (tt : TokenType) : ERel Token.erase (popType tt) (popType tt) := by
  unfold popType
  refine ERel.bind Token.erase popToken_erase (fun tok => ?_)
  simp only [Token.erase_ty]
  exact ERel.ite (ERel.fail rfl) (ERel.pure rfl)

theorem popIdent_erase : ERel Ident.erase popIdent popIdent := by
  unfold popIdent
  refine ERel.bind Token.erase popToken_erase (fun tok => ?_)
  rw [Token.erase_asIdent]
  cases h : tok.asIdent with
  | none => exact ERel.fail rfl
  | some t => exact ERel.pure rfl

theorem popReferenceLoop_erase : ∀ (ts : List Token) (acc : List Ident) (prev : Option Token),
    popReferenceLoop (acc.map Ident.erase) (prev.map Token.erase) (ts.map Token.erase) =
      (popReferenceLoop acc prev ts).erase Reference.erase
  | [], acc, prev => by
    have h := popToken_erase ⟨prev, []⟩
    simp only [W.erase, List.map_nil] at h
    simp only [popReferenceLoop, List.map_nil, h, newReference_erase]
    cases popToken ⟨prev, []⟩ with
    | ok tok w1 => cases newReference acc <;> rfl
    | fail e w1 => rfl
    | panic s => rfl
  | t :: rs, acc, prev => by
    simp only [popReferenceLoop, List.map_cons, Token.erase_asIdent]
    cases hi : t.asIdent with
    | none =>
      simp only [Option.map_none, newReference_erase]
      cases newReference acc <;> rfl
    | some it =>
      simp only [Option.map_some]
      have hacc : acc.map Ident.erase ++
          [(⟨it.erase, it.erase.lit, ⟨it.erase.start, it.erase.end_⟩⟩ : Ident)]
          = (acc ++ [(⟨it, it.lit, ⟨it.start, it.end_⟩⟩ : Ident)]).map Ident.erase := by
        simp [Ident.erase, Span.zero]
      rw [hacc]
      match rs with
      | [] =>
        simp only [List.map_nil, newReference_erase]
        cases newReference (acc ++ [(⟨it, it.lit, ⟨it.start, it.end_⟩⟩ : Ident)]) <;> rfl
      | d :: rs2 =>
        simp only [List.map_cons, Token.erase_ty]
        by_cases hd : d.ty = .dot
        · simp only [hd, if_true]
          exact popReferenceLoop_erase rs2 _ (some d)
        · simp only [hd, if_false, newReference_erase]
          cases newReference (acc ++ [(⟨it, it.lit, ⟨it.start, it.end_⟩⟩ : Ident)]) <;> rfl

theorem popReference_erase : ERel Reference.erase popReference popReference := by
  intro w
  exact popReferenceLoop_erase w.rest [] w.prev

theorem popDescLoop_erase (toks : List Token) (last : Token) (ts : List Token) :
    popDescLoop (toks.map Token.erase) last.erase (ts.map Token.erase) =
      (((popDescLoop toks last ts).1).map Token.erase, ((popDescLoop toks last ts).2.1).erase,
        ((popDescLoop toks last ts).2.2).erase) := by
  induction toks, last, ts using popDescLoop.induct with
  | case1 toks last e d rs h ih =>
    simp only [popDescLoop, List.map_cons, Token.erase_ty, h, and_self, if_true]
    have := ih
    simp only [List.map_append, List.map_cons, List.map_nil] at this
    exact this
  | case2 toks last e d rs h =>
    simp only [popDescLoop, List.map_cons, Token.erase_ty, h, if_false]
    rfl
  | case3 rs toks last h =>
    cases rs with
    | nil => rfl
    | cons a rs =>
      cases rs with
      | nil => rfl
      | cons b rs => exact absurd rfl (h a b rs)

theorem mkDescription_erase (toks : List Token) (first last : Token) :
    mkDescription (toks.map Token.erase) first.erase last.erase =
      (mkDescription toks first last).erase := by
  simp [mkDescription, Description.erase, Span.zero, Function.comp_def]

theorem popDescription_erase : ERel Description.erase popDescription popDescription := by
  unfold popDescription
  refine ERel.bind Token.erase popToken_erase (fun first => ?_)
  intro w
  have h := popDescLoop_erase [first] first w.rest
  simp only [List.map_cons, List.map_nil] at h
  simp only [W.erase_rest, h, WR.erase, mkDescription_erase]

theorem popValue_popValueElems_erase (fuel : Nat) :
    ERel Value.erase (popValue fuel) (popValue fuel) ∧
    ∀ (opener : Token) (acc : List Value),
      ERel Value.erase (popValueElems fuel opener.erase (acc.map Value.erase))
        (popValueElems fuel opener acc) := by
  induction fuel with
  | zero =>
    refine ⟨?_, fun opener acc => ?_⟩
    · simp only [popValue]; exact ERel.panic _
    · simp only [popValueElems]; exact ERel.panic _
  | succ fuel ih =>
    obtain ⟨ihV, ihE⟩ := ih
    refine ⟨?_, fun opener acc => ?_⟩
    · intro w
      simp only [popValue, W.erase_nextType]
      by_cases h1 : w.nextType = .ident
      · simp only [h1, if_true]
        refine ERel.bind Reference.erase popReference_erase (fun ref => ?_) w
        exact ERel.pure (by simp [Value.erase, Span.zero, Token.erase])
      · simp only [h1, if_false]
        by_cases h2 : w.nextType.isLiteral = true
        · simp only [h2, if_true]
          refine ERel.bind Token.erase popToken_erase (fun tok => ?_) w
          exact ERel.pure (by simp [Value.erase, Span.zero])
        · simp only [h2]
          by_cases h3 : w.nextType = .lbrack
          · simp only [h3, if_true]
            refine ERel.bind Token.erase popToken_erase (fun opener => ?_) w
            refine ERel.bind W.erase ERel.getW (fun w1 => ?_)
            simp only [W.erase_nextType]
            refine ERel.ite ?_ ?_
            · refine ERel.bind Token.erase popToken_erase (fun _ => ?_)
              refine ERel.bind W.erase ERel.getW (fun w2 => ?_)
              exact ERel.pure (by simp [Value.erase, Value.eraseList, Span.zero])
            · exact ihE opener []
          · simp only [h3, if_false]
            exact failUnexpected_erase _ _ w
    · simp only [popValueElems]
      refine ERel.bind Value.erase ihV (fun value => ?_)
      refine ERel.bind W.erase ERel.getW (fun w1 => ?_)
      simp only [W.erase_nextType]
      have hacc : acc.map Value.erase ++ [value.erase] = (acc ++ [value]).map Value.erase := by simp
      refine ERel.ite ?_ (ERel.ite ?_ ?_)
      · refine ERel.bind Token.erase popToken_erase (fun _ => ?_)
        rw [hacc]
        exact ihE opener _
      · refine ERel.bind Token.erase popToken_erase (fun _ => ?_)
        refine ERel.bind W.erase ERel.getW (fun w2 => ?_)
        exact ERel.pure (by simp [Value.erase, Value.eraseList_eq_map, Span.zero])
      · exact failUnexpected_erase _ _

theorem popValue_erase (fuel : Nat) : ERel Value.erase (popValue fuel) (popValue fuel) :=
  (popValue_popValueElems_erase fuel).1

theorem popValueElems_erase (fuel : Nat) (opener : Token) (acc : List Value) :
    ERel Value.erase (popValueElems fuel opener.erase (acc.map Value.erase))
      (popValueElems fuel opener acc) :=
  (popValue_popValueElems_erase fuel).2 opener acc

theorem popTag_erase (fuel : Nat) : ERel TagValue.erase (popTag fuel) (popTag fuel) := by
  unfold popTag
  refine ERel.bind W.erase ERel.getW (fun w0 => ?_)
  simp only [W.erase_nextType]
  refine ERel.bind (fun p : TagMark × Token => (p.1, p.2.erase)) ?_ (fun p => ?_)
  · split
    · exact ERel.bind Token.erase popToken_erase (fun tok => ERel.pure rfl)
    · exact ERel.bind Token.erase popToken_erase (fun tok => ERel.pure rfl)
    · exact ERel.pure rfl
  · obtain ⟨mark, tok⟩ := p
    simp only []
    refine ERel.bind W.erase ERel.getW (fun w1 => ?_)
    simp only [W.erase_nextType]
    split
    · exact ERel.bind Reference.erase popReference_erase (fun ref => ERel.pure rfl)
    · exact ERel.bind Reference.erase popReference_erase (fun ref => ERel.pure rfl)
    · refine ERel.bind Value.erase (popValue_erase fuel) (fun v => ERel.pure ?_)
      simp [TagValue.erase]
    · exact failUnexpected_erase _ _

theorem endStatement_erase :
    ERel (Option.map CommentNode.erase) endStatement endStatement := by
  unfold endStatement
  refine ERel.bind Token.erase popToken_erase (fun tok => ?_)
  simp only [Token.erase_ty]
  refine ERel.ite ?_ (ERel.ite (ERel.pure rfl) (ERel.fail rfl))
  refine ERel.bind Token.erase popToken_erase (fun tok2 => ?_)
  simp only [Token.erase_ty]
  exact ERel.ite (ERel.pure rfl) (ERel.fail rfl)

theorem walkValueAssign_erase (fuel : Nat) (ref : Reference) (append : Bool) :
    ERel Assignment.erase (walkValueAssign fuel ref.erase append)
      (walkValueAssign fuel ref append) := by
  unfold walkValueAssign
  refine ERel.bind Token.erase (popType_erase _) (fun _ => ?_)
  refine ERel.bind Value.erase (popValue_erase fuel) (fun value => ?_)
  refine ERel.bind (Option.map CommentNode.erase) endStatement_erase (fun comment => ?_)
  exact ERel.pure (by simp [Assignment.erase, SourceNode.erase, Span.zero])

theorem tagsLoop_erase (pfuel fuel : Nat) (acc : List TagValue) :
    ERel (List.map TagValue.erase) (tagsLoop pfuel fuel (acc.map TagValue.erase))
      (tagsLoop pfuel fuel acc) := by
  induction fuel generalizing acc with
  | zero => simp only [tagsLoop]; exact ERel.panic _
  | succ fuel ih =>
    simp only [tagsLoop]
    refine ERel.bind W.erase ERel.getW (fun w => ?_)
    simp only [W.erase_nextType]
    refine ERel.ite ?_ (ERel.pure rfl)
    refine ERel.bind TagValue.erase (popTag_erase pfuel) (fun tag => ?_)
    have h := ih (acc ++ [tag])
    simp only [List.map_append, List.map_cons, List.map_nil] at h
    exact h

theorem qualsLoop_erase (pfuel fuel : Nat) (acc : List TagValue) :
    ERel (List.map TagValue.erase) (qualsLoop pfuel fuel (acc.map TagValue.erase))
      (qualsLoop pfuel fuel acc) := by
  induction fuel generalizing acc with
  | zero => simp only [qualsLoop]; exact ERel.panic _
  | succ fuel ih =>
    simp only [qualsLoop]
    refine ERel.bind W.erase ERel.getW (fun w => ?_)
    simp only [W.erase_nextType]
    refine ERel.ite ?_ (ERel.pure rfl)
    refine ERel.bind Token.erase popToken_erase (fun _ => ?_)
    refine ERel.bind TagValue.erase (popTag_erase pfuel) (fun q => ?_)
    have h := ih (acc ++ [q])
    simp only [List.map_append, List.map_cons, List.map_nil] at h
    exact h

theorem walkStatement_erase (fuel : Nat) :
    ERel Fragment.erase (walkStatement fuel) (walkStatement fuel) := by
  unfold walkStatement
  refine ERel.bind Reference.erase popReference_erase (fun ref => ?_)
  refine ERel.bind W.erase ERel.getW (fun w => ?_)
  simp only [W.erase_nextType]
  refine ERel.ite ?_ (ERel.ite ?_ ?_)
  · exact ERel.bind Assignment.erase (walkValueAssign_erase fuel ref false)
      (fun a => ERel.pure rfl)
  · refine ERel.bind Token.erase popToken_erase (fun _ => ?_)
    refine ERel.bind W.erase ERel.getW (fun w1 => ?_)
    simp only [W.erase_nextType]
    refine ERel.ite (failUnexpected_erase _ _) ?_
    exact ERel.bind Assignment.erase (walkValueAssign_erase fuel ref true)
      (fun a => ERel.pure rfl)
  · have ht := tagsLoop_erase fuel fuel []
    have hq := qualsLoop_erase fuel fuel []
    simp only [List.map_nil] at ht hq
    refine ERel.bind (List.map TagValue.erase) ht (fun tags => ?_)
    refine ERel.bind (List.map TagValue.erase) hq (fun quals => ?_)
    refine ERel.bind W.erase ERel.getW (fun w2 => ?_)
    simp only [W.erase_nextType]
    split
    · refine ERel.bind Token.erase popToken_erase (fun _ => ?_)
      refine ERel.bind W.erase ERel.getW (fun w3 => ?_)
      refine ERel.bind (Option.map CommentNode.erase) endStatement_erase (fun comment => ?_)
      exact ERel.pure (by simp [Fragment.erase, BlockHeader.erase, SourceNode.erase, Span.zero])
    · refine ERel.bind Token.erase popToken_erase (fun tok => ?_)
      refine ERel.bind W.erase ERel.getW (fun w3 => ?_)
      exact ERel.pure (by
        simp [Fragment.erase, BlockHeader.erase, SourceNode.erase, Description.erase, Span.zero])
    · refine ERel.bind (Option.map CommentNode.erase) endStatement_erase (fun comment => ?_)
      exact ERel.pure (by simp [Fragment.erase, BlockHeader.erase, SourceNode.erase, Span.zero])
    · exact ERel.pure (by simp [Fragment.erase, BlockHeader.erase, SourceNode.erase, Span.zero])
    · exact ERel.pure (by simp [Fragment.erase, BlockHeader.erase, SourceNode.erase, Span.zero])
    · exact failUnexpected_erase _ _

theorem nextFragment_erase (fuel : Nat) :
    ERel (Option.map Fragment.erase) (nextFragment fuel) (nextFragment fuel) := by
  unfold nextFragment
  refine ERel.bind W.erase ERel.getW (fun w => ?_)
  simp only [W.erase_nextType]
  split
  · exact ERel.bind Token.erase popToken_erase (fun _ => ERel.pure rfl)
  · exact ERel.bind Token.erase popToken_erase (fun _ => ERel.pure rfl)
  · exact ERel.bind Token.erase popToken_erase (fun tok => ERel.pure rfl)
  · exact ERel.bind Token.erase popToken_erase (fun tok => ERel.pure rfl)
  · exact ERel.bind Token.erase popToken_erase (fun tok => ERel.pure rfl)
  · exact ERel.bind Description.erase popDescription_erase (fun d => ERel.pure rfl)
  · exact ERel.bind Fragment.erase (walkStatement_erase fuel) (fun f => ERel.pure rfl)
  · exact ERel.bind Fragment.erase (walkStatement_erase fuel) (fun f => ERel.pure rfl)
  · exact failUnexpected_erase _ _

theorem skipToEOL_erase : ∀ (ts : List Token) (prev : Option Token),
    skipToEOL (prev.map Token.erase) (ts.map Token.erase) =
      (skipToEOL prev ts).erase (fun u => u)
  | [], prev => by
    have h := popToken_erase ⟨prev, []⟩
    simp only [W.erase, List.map_nil] at h
    simp only [skipToEOL, List.map_nil, h]
    cases popToken ⟨prev, []⟩ <;> rfl
  | t :: rs, prev => by
    simp only [skipToEOL, List.map_cons, Token.erase_ty]
    by_cases h : t.ty = .eol ∨ t.ty = .eof
    · simp only [h, if_true]; rfl
    · simp only [h, if_false]
      exact skipToEOL_erase rs (some t)

theorem walkFragmentsLoop_erase (ff : Bool) (pfuel fuel : Nat) (w : W) (frags : List Fragment)
    (errs : List Diag) :
    walkFragmentsLoop ff pfuel fuel w.erase (frags.map Fragment.erase) (errs.map Diag.erase) =
      (walkFragmentsLoop ff pfuel fuel w frags errs).erase := by
  induction fuel generalizing w frags errs with
  | zero => rfl
  | succ fuel ih =>
    simp only [walkFragmentsLoop, W.erase_nextType]
    by_cases h0 : w.nextType = .eof
    · simp only [h0, if_true]; rfl
    · simp only [h0, if_false]
      rw [nextFragment_erase pfuel w]
      cases hn : nextFragment pfuel w with
      | panic s => rfl
      | ok o w1 =>
        cases o with
        | none => exact ih w1 frags errs
        | some f =>
          have h := ih w1 (frags ++ [f]) errs
          simp only [List.map_append, List.map_cons, List.map_nil] at h
          exact h
      | fail e w1 =>
        simp only [WR.erase, UnexpErr.erase_diag]
        have herr : errs.map Diag.erase ++ [e.diag.erase] = (errs ++ [e.diag]).map Diag.erase := by
          simp
        rw [herr]
        cases ff with
        | true => rfl
        | false =>
          simp only [Bool.false_eq_true, if_false, W.erase_prev, W.erase_rest,
            skipToEOL_erase w1.rest w1.prev]
          cases skipToEOL w1.prev w1.rest with
          | panic s => rfl
          | fail e2 w2 => rfl
          | ok u w2 => exact ih w2 frags _

theorem walkFragments_erase (ff : Bool) (ts : List Token) :
    walkFragments ff (ts.map Token.erase) = (walkFragments ff ts).erase := by
  unfold walkFragments
  rw [List.length_map]
  exact walkFragmentsLoop_erase ff _ _ ⟨none, ts⟩ [] []

/-! ## fragmentsToFile -/

/-- erasure of an open block of `fragmentsToFile` -/
def OpenBlock.erase (b : OpenBlock) : OpenBlock := ⟨b.hdr.erase, b.stmts.map Statement.erase⟩

@[simp] theorem Statement.erase_block (h : BlockHeader) (body : List Statement) :
    (Statement.block h body).erase = .block h.erase (body.map Statement.erase) := by
  simp [Statement.erase, Statement.eraseList_eq_map]

theorem closeInto_erase (root : List Statement) (blk : Statement) (stack : List OpenBlock) :
    closeInto (root.map Statement.erase) blk.erase (stack.map OpenBlock.erase) =
      (closeInto root blk stack).map Statement.erase := by
  induction stack generalizing blk with
  | nil => simp [closeInto]
  | cons p rest ih =>
    simp only [closeInto, List.map_cons]
    rw [← ih]
    simp [OpenBlock.erase]

theorem closeAll_erase (root : List Statement) (stack : List OpenBlock) :
    closeAll (root.map Statement.erase) (stack.map OpenBlock.erase) =
      (closeAll root stack).map Statement.erase := by
  cases stack with
  | nil => rfl
  | cons b rest =>
    simp only [closeAll, List.map_cons]
    rw [← closeInto_erase]
    simp [OpenBlock.erase]

theorem fragsLoop_erase (fs : List Fragment) (root : List Statement) (stack : List OpenBlock)
    (errs : List Diag) :
    fragsLoop (fs.map Fragment.erase) (root.map Statement.erase) (stack.map OpenBlock.erase)
        (errs.map Diag.erase) =
      ((fragsLoop fs root stack errs).1.map Statement.erase,
        (fragsLoop fs root stack errs).2.1.map OpenBlock.erase,
        (fragsLoop fs root stack errs).2.2.map Diag.erase) := by
  induction fs generalizing root stack errs with
  | nil => rfl
  | cons f fs ih =>
    cases f with
    | header h =>
      simp only [List.map_cons, Fragment.erase, fragsLoop]
      have hopen : h.erase.isOpen = h.isOpen := rfl
      rw [hopen]
      cases ho : h.isOpen with
      | true =>
        simp only [if_true]
        rw [← ih]
        simp [OpenBlock.erase]
      | false =>
        simp only [Bool.false_eq_true, if_false]
        cases stack with
        | nil =>
          simp only [List.map_nil]
          rw [← ih]
          simp
        | cons b rest =>
          simp only [List.map_cons]
          rw [← ih]
          simp [OpenBlock.erase]
    | assign a =>
      simp only [List.map_cons, Fragment.erase, fragsLoop]
      cases stack with
      | nil =>
        simp only [List.map_nil]
        rw [← ih]
        simp [Statement.erase]
      | cons b rest =>
        simp only [List.map_cons]
        rw [← ih]
        simp [OpenBlock.erase, Statement.erase]
    | desc d =>
      simp only [List.map_cons, Fragment.erase, fragsLoop]
      cases stack with
      | nil =>
        simp only [List.map_nil]
        rw [← ih]
        simp [Statement.erase]
      | cons b rest =>
        simp only [List.map_cons]
        rw [← ih]
        simp [OpenBlock.erase, Statement.erase]
    | comment c =>
      simp only [List.map_cons, Fragment.erase, fragsLoop]
      exact ih root stack errs
    | close c =>
      simp only [List.map_cons, Fragment.erase, fragsLoop]
      cases stack with
      | nil =>
        simp only [List.map_nil]
        rw [← ih]
        simp [Diag.erase, CloseBlock.erase, Span.zero]
      | cons b rest =>
        cases rest with
        | nil =>
          simp only [List.map_cons, List.map_nil]
          rw [← ih]
          simp [OpenBlock.erase]
        | cons p rest' =>
          simp only [List.map_cons]
          rw [← ih]
          simp [OpenBlock.erase]

theorem fragmentsToFile_erase (frags : List Fragment) :
    fragmentsToFile (frags.map Fragment.erase) = (fragmentsToFile frags).erase := by
  unfold fragmentsToFile
  have h := fragsLoop_erase frags [] [] []
  simp only [List.map_nil] at h
  rw [h]
  generalize fragsLoop frags [] [] [] = r
  obtain ⟨root, stack, errs⟩ := r
  simp only [File.erase, Statement.eraseList_eq_map, closeAll_erase, List.getLast?_map]
  congr 1
  cases stack with
  | nil => rfl
  | cons b rest =>
    cases frags.getLast? with
    | none => rfl
    | some last => simp [Diag.erase, SourceNode.erase]

theorem walk_erase (ff : Bool) (ts : List Token) :
    walk ff (ts.map Token.erase) = (walk ff ts).erase := by
  unfold walk
  rw [walkFragments_erase]
  cases walkFragments ff ts with
  | panic s => rfl
  | hadErrors es => rfl
  | done frags es =>
    simp only [WalkOut.erase, fragmentsToFile_erase]
    cases es with
    | cons e es => rfl
    | nil =>
      simp only [List.map_nil, ne_eq, not_true_eq_false, if_false]
      cases hf : (fragmentsToFile frags).errors with
      | nil => simp [File.erase, hf, ParseOut.erase]
      | cons d ds => simp [File.erase, hf, ParseOut.erase]

end J5V.Bcl
