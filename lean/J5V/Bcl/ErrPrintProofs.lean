import J5V.Bcl.ErrPrint
/-! Lemmas for `C11_render_total`: `humanString` never reaches a `.panic` arm. -/
namespace J5V.Bcl
open J5V.Go

theorem contextLoop_no_panic (lines : List (List Nat)) (startLine : Int)
    (h : startLine ≤ (lines.length : Int)) (k : Nat) :
    ∃ out, contextLoop lines startLine k = .ok out := by
  induction k with
  | zero => exact ⟨[], rfl⟩
  | succ k ih =>
    obtain ⟨rest, hrest⟩ := ih
    unfold contextLoop
    simp only []
    split
    · exact ⟨rest, hrest⟩
    · rename_i hge
      have hlt : (startLine - ((k + 1 : Nat) : Int) - 1).toNat < lines.length := by omega
      rw [List.getElem?_eq_getElem hlt]
      simp only [hrest]
      exact ⟨_, rfl⟩

theorem humanString_no_panic (pos : Option IPosition) (lines : List (List Nat)) (context : Int) :
    ∃ out, humanString pos lines context = .ok out := by
  unfold humanString
  split
  · exact ⟨_, rfl⟩
  · rename_i p
    split
    · exact ⟨_, rfl⟩
    · split
      · exact ⟨_, rfl⟩
      · simp only []
        split
        · exact ⟨_, rfl⟩
        · rename_i hle
          obtain ⟨ctx, hctx⟩ := contextLoop_no_panic lines (p.start.line + 1) (by omega) context.toNat
          rw [hctx]
          simp only []
          split
          · exact ⟨_, rfl⟩
          · rename_i hin
            have hlt : (p.start.line + 1 - 1).toNat < lines.length := by omega
            rw [List.getElem?_eq_getElem hlt]
            simp only []
            generalize hel : lines[(p.start.line + 1 - 1).toNat] = errLine
            by_cases hc : p.start.col + 1 = (errLine.length : Int) + 1
            · simp only [hc, if_true]
              split
              · exact ⟨_, rfl⟩
              · split
                · rename_i h1 h2
                  exfalso
                  simp only [List.length_append, List.length_cons, List.length_nil] at h1 h2
                  omega
                · exact ⟨_, rfl⟩
            · simp only [hc, if_false]
              split
              · exact ⟨_, rfl⟩
              · split
                · rename_i h1 h2
                  exfalso
                  omega
                · exact ⟨_, rfl⟩

theorem humanStringParts_no_panic (lines : List (List Nat)) (context : Int)
    (errs : List (Option IPosition)) (first : Bool) :
    ∃ out, humanStringParts lines context errs first = .ok out := by
  induction errs generalizing first with
  | nil => exact ⟨[], rfl⟩
  | cons e es ih =>
    obtain ⟨s, hs⟩ := humanString_no_panic e lines context
    obtain ⟨rest, hrest⟩ := ih false
    unfold humanStringParts
    rw [hs]; simp only [hrest]
    exact ⟨_, rfl⟩

theorem humanStringAll_no_panic (errs : List (Option IPosition)) (lines : List (List Nat))
    (context : Int) : ∃ out, humanStringAll errs lines context = .ok out := by
  unfold humanStringAll
  split
  · exact ⟨_, rfl⟩
  · obtain ⟨parts, hp⟩ := humanStringParts_no_panic lines context errs true
    rw [hp]
    exact ⟨_, rfl⟩

end J5V.Bcl
