import J5V.Bcl.Basic
/-!
# The Unicode classifier table shipped by the harness (`$VERIF_UNICODE_TBL`, PROTOCOL-bcl.md §1) — core only.
Shared by the drivers `drv_bcl` and `drv_walker`.
-/
namespace J5V.Bcl

structure Tbl where
  space : Array (Nat × Nat)
  digit : Array (Nat × Nat)
  letter : Array (Nat × Nat)
  print : Array (Nat × Nat)

partial def inRanges (a : Array (Nat × Nat)) (r : Nat) : Bool :=
  let rec go (lo hi : Nat) : Bool :=
    if lo ≥ hi then false
    else
      let mid := (lo + hi) / 2
      let (l, h) := a[mid]!
      if r < l then go lo mid else if r > h then go (mid + 1) hi else true
  go 0 a.size

def Tbl.cls (t : Tbl) : Cls :=
  ⟨inRanges t.space, inRanges t.digit, inRanges t.letter, inRanges t.print⟩

def parseRanges (ls : List String) (n : Nat) : Option (Array (Nat × Nat) × List String) :=
  let rec go : Nat → List String → Array (Nat × Nat) → Option (Array (Nat × Nat) × List String)
    | 0, ls, acc => some (acc, ls)
    | k + 1, l :: ls, acc =>
      match l.splitOn " " with
      | [a, b] => match a.toNat?, b.toNat? with
        | some x, some y => go k ls (acc.push (x, y))
        | _, _ => none
      | _ => none
    | _ + 1, [], _ => none
  go n ls #[]

def parseClass (name : String) (ls : List String) : Option (Array (Nat × Nat) × List String) :=
  match ls with
  | h :: rest =>
    match h.splitOn " " with
    | [nm, n] => if nm == name then n.toNat?.bind (parseRanges rest) else none
    | _ => none
  | [] => none

def parseTbl (content : String) : Option Tbl := do
  let ls := (content.splitOn "\n").map (fun (l : String) => l.trimAscii.toString)
  match ls with
  | hdr :: rest =>
    if !hdr.startsWith "j5v-unicode-tbl 1" then none
    let (sp, r1) ← parseClass "space" rest
    let (dg, r2) ← parseClass "digit" r1
    let (lt, r3) ← parseClass "letter" r2
    let (pr, r4) ← parseClass "print" r3
    match r4 with
    | e :: _ => if e == "end" then some ⟨sp, dg, lt, pr⟩ else none
    | [] => none
  | [] => none

/-- path of the table: `$VERIF_UNICODE_TBL` if set and non-empty, else `/verif/.work/unicode.tbl` -/
def loadTbl : IO (Option Tbl) := do
  let env ← IO.getEnv "VERIF_UNICODE_TBL"
  let path := match env with
    | some p => if p.isEmpty then "/verif/.work/unicode.tbl" else p
    | none => "/verif/.work/unicode.tbl"
  (do
    let content ← IO.FS.readFile path
    pure (parseTbl content)) <|> pure none

end J5V.Bcl
