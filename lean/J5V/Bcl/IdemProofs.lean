import J5V.Bcl.PreserveProofs
import J5V.Bcl.SpanProofs
import J5V.Bcl.IdemTextProofs
/-!
# Formatting twice changes nothing (lemmas for `C09_idempotent`)

The text printed for the fragments read back from the formatter's output is the text printed for the
original fragments (IdemTextProofs).  What remains is the blank-line decision between consecutive fragments:
`loop_real` runs the fragment loop over the real tokens of the output (whose erasure is `fileToks`), following
the known erased run step by step (`nextFragment_mirror`), and computes the line numbers of the fragments
read back from the line facts of lexed tokens (`WI (LineP cls) LineR`) and `nextFragment_span`.
-/
namespace J5V.Bcl

theorem nextFragment_eol_real (fuel : Nat) (prev : Option Token) (t : Token) (rest : List Token)
    (h : t.ty = .eol) : nextFragment fuel ⟨prev, t :: rest⟩ = .ok none ⟨some t, rest⟩ := by
  unfold nextFragment
  rw [getW_bind']
  have hnt : (⟨prev, t :: rest⟩ : W).nextType = .eol := h
  rw [hnt]
  simp only []
  rw [bind_eq_of_ok (popToken_cons' _ _ _)]
  rfl

/-- how the end of the previous fragment (`le` in the source, `le'` in the output) is tied to the walker state:
in the output the last token read is the previous fragment's EOL -/
def Link (le le' : Option Nat) (w : W) : Prop :=
  match le with
  | none => le' = none
  | some _ => ∃ e, w.prev = some e ∧ e.ty = .eol ∧ le' = some (e.end_.line + 1)

theorem erase_eq_eolTok {t : Token} (h : t.erase = eolTok) : t.ty = .eol := by
  have := congrArg Token.ty h
  simpa [Token.erase, eolTok] using this

theorem gapBefore_same (L : Nat) : gapBefore (some (L + 1)) (L + 1) = false := by
  simp [gapBefore]

theorem gapBefore_next (L : Nat) : gapBefore (some (L + 1)) (L + 2) = true := by
  simp [gapBefore]

theorem gapBefore_true_some {le : Option Nat} {n : Nat} (h : gapBefore le n = true) : ∃ l, le = some l := by
  cases le with
  | none => simp [gapBefore] at h
  | some l => exact ⟨l, rfl⟩

/-- the fragment loop over the real tokens of a formatted file: the fragments read back have the normal form
as erasure and the same blank-line decisions as the original fragments -/
theorem loop_real (cls : Cls) (pf : Nat) : ∀ (frags : List Fragment) (indent : Nat) (le le' : Option Nat)
    (w : W) (acc : List Fragment) (fuel : Nat) (out : List Fragment),
    (∀ f ∈ frags, FragWF cls f) → DescGaps frags → WI (LineP cls) LineR w →
    (∀ t ∈ w.rest, t.ty ≠ .eof) →
    w.rest.map Token.erase = fileToks cls indent le frags →
    2 * (fileToks cls indent le frags).length ≤ pf → (fileToks cls indent le frags).length < fuel →
    Link le le' w →
    walkFragmentsLoop true pf fuel w acc [] = .done out [] →
    ∃ new, out = acc ++ new ∧ new.map Fragment.erase = normFrags cls indent frags ∧
      gapsOf le' new = gapsOf le frags := by
  intro frags
  induction frags with
  | nil =>
    intro indent le le' w acc fuel out _ _ _ _ hshape _ hf _ hloop
    have hrest : w.rest = [] := by simpa [fileToks] using hshape
    obtain ⟨f', rfl⟩ : ∃ f', fuel = f' + 1 := ⟨fuel - 1, by omega⟩
    rw [loop_eof (by simp [W.nextType, hrest])] at hloop
    cases hloop
    exact ⟨[], by simp, rfl, rfl⟩
  | cons f fs ih =>
    intro indent le le' w acc fuel out hwf hg hWI hne hshape hpf hf hlink hloop
    have hwf_f := hwf f (by simp)
    have hwf_fs : ∀ g ∈ fs, FragWF cls g := fun g hg' => hwf g (by simp [hg'])
    have hg_fs : DescGaps fs := by
      cases fs with
      | nil => trivial
      | cons g gs => exact hg.2
    rw [fileToks_cons] at hshape hpf hf
    obtain ⟨hfrom, hto⟩ := fmtFragment_lines cls indent f
    generalize hR : fileToks cls (fmtFragment cls indent f).2
      (some (fmtFragment cls indent f).1.toLine) fs = R at hshape hpf hf
    have hdesc : ∀ d, f = .desc d → headTy R ≠ some .description := by
      intro d hd
      subst hd
      rw [← hR]
      exact fileToks_after_desc cls indent d fs hwf_fs hg
    obtain ⟨x, xs, ex, hxs, _⟩ := fragToks_head cls indent f hwf_f
    have hT2 : 2 ≤ (fragToks cls indent f).length := by
      rw [ex]
      cases xs with
      | nil => exact absurd rfl hxs
      | cons y ys => simp
    -- from the state in front of the fragment's tokens
    have main : ∀ (w1 : W) (fuel1 : Nat), WI (LineP cls) LineR w1 → (∀ t ∈ w1.rest, t.ty ≠ .eof) →
        w1.rest.map Token.erase = fragToks cls indent f ++ R →
        (fragToks cls indent f).length + R.length < fuel1 →
        (∀ t ts, w1.rest = t :: ts → gapBefore le' t.start.line = gapBefore le f.src.start.line) →
        walkFragmentsLoop true pf fuel1 w1 acc [] = .done out [] →
        ∃ new, out = acc ++ new ∧ new.map Fragment.erase = normFrags cls indent (f :: fs) ∧
          gapsOf le' new = gapsOf le (f :: fs) := by
      intro w1 fuel1 hWI1 hne1 hshape1 hf1 hstart hloop1
      obtain ⟨prev', rest', hn, _, hr⟩ := nextFragment_frag cls pf indent f hwf_f
        (w1.prev.map Token.erase) (PZ_erase _) R hdesc
        (by simp only [List.length_append] at hpf; omega)
      have he : w1.erase = ⟨w1.prev.map Token.erase, fragToks cls indent f ++ R⟩ := by
        simp [W.erase, hshape1]
      rw [← he] at hn
      obtain ⟨x', w2, hx, hxe, hwe⟩ := nextFragment_mirror pf _ _ _ hn
      cases x' with
      | none => simp at hxe
      | some f' =>
        simp only [Option.map_some, Option.some.injEq] at hxe
        obtain ⟨⟨t, ts, hrest1, hst⟩, hend, hprevEol, ⟨p, hp⟩⟩ :=
          nextFragment_span_noEof cls pf hWI1 hne1 hx
        have hWI2 : WI (LineP cls) LineR w2 := (nextFragment_wp (hyp_lines cls) pf hWI1 _ _ hx).1
        have hne2 := nextFragment_keeps_noEof cls pf hWI1 hne1 hx
        obtain ⟨f1, rfl⟩ : ∃ f1, fuel1 = f1 + 1 := ⟨fuel1 - 1, by omega⟩
        rw [loop_ok_some (nextFragment_some_ne_eof hx) hx] at hloop1
        have hw2p : w2.prev.map Token.erase = prev' := by
          have := congrArg W.prev hwe; simpa [W.erase] using this
        have hw2r : w2.rest.map Token.erase = rest' := by
          have := congrArg W.rest hwe; simpa [W.erase] using this
        have hcur : w2.currentPos = p.end_ := by simp [W.currentPos, hp]
        have hRlen : 2 * R.length ≤ pf := by simp only [List.length_append] at hpf; omega
        -- the head of the gap lists
        have hhead : gapBefore le' f'.src.start.line = gapBefore le f.src.start.line := by
          rw [hst]; exact hstart t ts hrest1
        -- finishing from a state `w3` behind the fragment's EOL `e2`
        have finish : ∀ (w3 : W) (fuel3 : Nat) (e2 : Token), WI (LineP cls) LineR w3 →
            (∀ t ∈ w3.rest, t.ty ≠ .eof) → w3.rest.map Token.erase = R → R.length < fuel3 →
            w3.prev = some e2 → e2.ty = .eol → e2.end_.line = f'.src.end_.line →
            walkFragmentsLoop true pf fuel3 w3 (acc ++ [f']) [] = .done out [] →
            ∃ new, out = acc ++ new ∧ new.map Fragment.erase = normFrags cls indent (f :: fs) ∧
              gapsOf le' new = gapsOf le (f :: fs) := by
          intro w3 fuel3 e2 hWI3 hne3 hshape3 hf3 hp3 he2 hl2 hloop3
          obtain ⟨new2, ho, hn2, hg2⟩ := ih (fmtFragment cls indent f).2
            (some (fmtFragment cls indent f).1.toLine) (some (f'.src.end_.line + 1)) w3
            (acc ++ [f']) fuel3 out hwf_fs hg_fs hWI3 hne3 (by rw [hR]; exact hshape3)
            (by rw [hR]; exact hRlen) (by rw [hR]; exact hf3)
            ⟨e2, hp3, he2, by rw [hl2]⟩ hloop3
          refine ⟨f' :: new2, by rw [ho]; simp, ?_, ?_⟩
          · simp only [List.map_cons, normFrags, hxe, hn2]
          · simp only [gapsOf, hhead]
            rw [hg2, hto]
        rcases hr with ⟨rfl, hpe⟩ | ⟨rfl, hno⟩
        · -- the EOL was read by `endStatement`
          rw [hpe] at hw2p
          have hpe2 : p.erase = eolTok := by
            rw [hp] at hw2p; simpa using hw2p
          exact finish w2 f1 p hWI2 hne2 hw2r (by omega) hp (erase_eq_eolTok hpe2)
            (by rw [← hend, hcur]) hloop1
        · -- the EOL is the next token
          obtain ⟨e2, rs2, hw2rest, he2e, hrs2⟩ : ∃ e2 rs2, w2.rest = e2 :: rs2 ∧ e2.erase = eolTok ∧
              rs2.map Token.erase = R := by
            cases hw2 : w2.rest with
            | nil => rw [hw2] at hw2r; simp at hw2r
            | cons a as =>
              rw [hw2] at hw2r
              simp only [List.map_cons, List.cons.injEq] at hw2r
              exact ⟨a, as, rfl, hw2r.1, hw2r.2⟩
          have he2 : e2.ty = .eol := erase_eq_eolTok he2e
          -- the last token read is not an EOL
          have hpne : p.ty ≠ .eol := by
            intro hpe
            rcases hprevEol p hp hpe with ⟨a, ha⟩ | ⟨hd, hhd, hopen⟩
            · subst ha
              cases f <;> simp [normFrag, Fragment.erase] at hxe
              exact hno.1 _ rfl
            · subst hhd
              cases f with
              | header h =>
                simp only [normFrag, Fragment.erase, Fragment.header.injEq] at hxe
                obtain ⟨ho, hc⟩ := hno.2 h rfl
                have h1 : hd.isOpen = h.isOpen := by
                  have := congrArg BlockHeader.isOpen hxe; simpa [BlockHeader.erase] using this
                have h2 : hd.src.comment.map CommentNode.erase = h.src.comment.map CommentNode.erase := by
                  have := congrArg (fun b => b.src.comment) hxe
                  simpa [BlockHeader.erase, SourceNode.erase] using this
                rcases hopen with q | q
                · rw [h1, ho] at q; cases q
                · apply q
                  rw [hc] at h2
                  cases hcm : hd.src.comment with
                  | none => rfl
                  | some c => rw [hcm] at h2; simp at h2
              | assign _ => simp [normFrag, Fragment.erase] at hxe
              | desc _ => simp [normFrag, Fragment.erase] at hxe
              | comment _ => simp [normFrag, Fragment.erase] at hxe
              | close _ => simp [normFrag, Fragment.erase] at hxe
          have hw2eq : w2 = ⟨some p, e2 :: rs2⟩ := by
            cases w2; simp at hp hw2rest; simp [hp, hw2rest]
          rw [hw2eq] at hWI2 hne2 hloop1
          have hrel : LineR p e2 := hWI2.2.1 p rfl
          have hline : e2.end_.line = f'.src.end_.line := by
            have h1 : e2.start.line = p.end_.line := hrel.2.1 hpne
            have h2 : e2.end_.line = e2.start.line := (hWI2.1 e2 (by simp)).2 (Or.inr he2)
            rw [h2, h1, ← hend, hcur]
          obtain ⟨f2, rfl⟩ : ∃ f2, f1 = f2 + 1 := ⟨f1 - 1, by omega⟩
          rw [loop_ok_none (by simp [W.nextType, he2]) (nextFragment_eol_real pf _ e2 rs2 he2)] at hloop1
          exact finish ⟨some e2, rs2⟩ f2 e2 (WI.tail hWI2) (fun t ht => hne2 t (by simp [ht])) hrs2
            (by omega) rfl he2 hline hloop1
    -- the blank line in front of the fragment
    cases hgp : gapBefore le (fmtFragment cls indent f).1.fromLine with
    | false =>
      rw [hgp] at hshape hf
      simp only [Bool.false_eq_true, if_false, List.nil_append, List.length_append] at hshape hf
      refine main w fuel hWI hne hshape hf ?_ hloop
      intro t ts hrest
      rw [← hfrom, hgp]
      cases le with
      | none =>
        have : le' = none := hlink
        rw [this]; rfl
      | some l =>
        obtain ⟨e, hpe, hee, hle'⟩ := hlink
        have hw : w = ⟨some e, t :: ts⟩ := by cases w; simp at hpe hrest; simp [hpe, hrest]
        rw [hw] at hWI
        have hrel : LineR e t := hWI.2.1 e rfl
        rw [hle', hrel.2.2 hee]
        exact gapBefore_same _
    | true =>
      rw [hgp] at hshape hf
      simp only [if_true, List.cons_append, List.nil_append, List.length_cons, List.length_append]
        at hshape hf
      obtain ⟨l, hl⟩ := gapBefore_true_some hgp
      subst hl
      obtain ⟨e, hpe, hee, hle'⟩ := hlink
      obtain ⟨eg, rest1, hwrest, hege, hrest1⟩ : ∃ eg rest1, w.rest = eg :: rest1 ∧ eg.erase = eolTok ∧
          rest1.map Token.erase = fragToks cls indent f ++ R := by
        cases hw : w.rest with
        | nil => rw [hw] at hshape; simp at hshape
        | cons a as =>
          rw [hw] at hshape
          simp only [List.map_cons, List.cons.injEq] at hshape
          exact ⟨a, as, rfl, hshape.1, hshape.2⟩
      have heg : eg.ty = .eol := erase_eq_eolTok hege
      have hw : w = ⟨some e, eg :: rest1⟩ := by cases w; simp at hpe hwrest; simp [hpe, hwrest]
      rw [hw] at hWI hne hloop
      have hrel : LineR e eg := hWI.2.1 e rfl
      have hegl : eg.end_.line = e.end_.line + 1 := by
        have h1 : eg.start.line = e.end_.line + 1 := hrel.2.2 hee
        have h2 : eg.end_.line = eg.start.line := (hWI.1 eg (by simp)).2 (Or.inr heg)
        rw [h2, h1]
      obtain ⟨f1, rfl⟩ : ∃ f1, fuel = f1 + 1 := ⟨fuel - 1, by omega⟩
      rw [loop_ok_none (by simp [W.nextType, heg]) (nextFragment_eol_real pf _ eg rest1 heg)] at hloop
      refine main ⟨some eg, rest1⟩ f1 (WI.tail hWI) (fun t ht => hne t (by simp [ht])) hrest1
        (by omega) ?_ hloop
      intro t ts hrest
      rw [← hfrom, hgp]
      have hWI' := WI.tail hWI
      simp only [] at hrest
      rw [hrest] at hWI'
      have hrel2 : LineR eg t := hWI'.2.1 eg rfl
      rw [hle', hrel2.2.2 heg, hegl]
      exact gapBefore_next _

theorem fmt_ok_inv (cls : Cls) (src out : List Rune) (h : fmt cls src = .ok out) :
    ∃ frags, collectFragments cls src = .ok frags ∧ out = fmtJoin (diffFile cls 0 frags) none := by
  unfold fmt at h
  cases hc : collectFragments cls src with
  | panic s => rw [hc] at h; cases h
  | err => rw [hc] at h; cases h
  | ok frags =>
    rw [hc] at h
    cases h
    exact ⟨frags, rfl, rfl⟩

/-- the line facts of the tokens of an error-free lex -/
theorem allTokens_WI (cls : Cls) (hcls : ClsNL cls) (src : List Rune) (ts : List Token)
    (hts : allTokens cls true src = .toks ts) :
    WI (LineP cls) LineR ⟨none, ts⟩ ∧ ∀ t ∈ ts, t.ty ≠ .eof := by
  obtain ⟨hadj, hsingle⟩ := allTokens_lines cls hcls true src ts hts
  refine ⟨⟨fun t ht => ⟨allTokens_tokwf cls true src ts hts t ht, hsingle t ht⟩,
    AdjChain.and _ _ (allTokens_eolAfter cls true src ts hts)
      (AdjChain.and _ _ (adjChain_of_lineAdj _ _ hadj) (allTokens_eolNext cls hcls true src ts hts))⟩, ?_⟩
  have hspec := allTokens_spec cls true src
  rw [hts] at hspec
  exact fun t ht => ((TokChain.props hspec).2 t ht).2.2.2.2

/-- **formatting the formatter's output changes nothing** -/
theorem fmt_idempotent (cls : Cls) (hcls : ClsOK cls) (src out : List Rune)
    (h : fmt cls src = .ok out) : fmt cls out = .ok out := by
  obtain ⟨frags, hcf, rfl⟩ := fmt_ok_inv cls src out h
  have hwf := collectFragments_fragWF cls src frags hcf
  have hgaps := collectFragments_descGaps cls hcls.clsNL src frags hcf
  obtain ⟨_, ts', frags', hts', hshape, hwk', hnorm⟩ := fmt_roundtrip cls hcls src frags hcf
  obtain ⟨hWI, hne⟩ := allTokens_WI cls hcls.clsNL _ ts' hts'
  have hlen : (fileToks cls 0 none frags).length = ts'.length := by rw [← hshape]; simp
  have hwk := hwk'
  unfold walkFragments at hwk
  obtain ⟨new, hnew, _, hg⟩ := loop_real cls (2 * ts'.length + 2) frags 0 none none ⟨none, ts'⟩ []
    (ts'.length + 1) frags' hwf hgaps hWI hne hshape (by omega) (by omega) rfl hwk
  simp only [List.nil_append] at hnew
  subst hnew
  have hcf' := collectFragments_of cls _ ts' frags' [] hts' hwk'
  have : fmt cls (fmtJoin (diffFile cls 0 frags) none) = .ok (fmtJoin (diffFile cls 0 frags') none) := by
    simp [fmt, hcf']
  rw [this, fmtJoin_congr cls frags' frags 0 none none hnorm hcls.spSpace hg]

end J5V.Bcl
