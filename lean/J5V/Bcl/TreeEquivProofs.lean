import J5V.Bcl.Equiv
/-!
# `fragmentsToFile` respects the position-free equivalence (C09)

`fragmentsToFile` only looks at the constructor of each fragment and at `isOpen` of headers, so
`Fragment.equivList`-related fragment lists give `File.equiv`-related trees, and the error list is
empty on one side iff it is empty on the other.

Also: reflexivity / symmetry / transitivity of `DescEquiv`, `Fragment.equiv(List)`,
`Statement.equiv(List)`, `File.equiv`, and a few characterisations.
-/
namespace J5V.Bcl

/-! ## `DescEquiv` -/

theorem DescEquiv.refl (cls : Cls) (d : Description) : DescEquiv cls d d := rfl

theorem DescEquiv.symm {cls : Cls} {d e : Description} (h : DescEquiv cls d e) :
    DescEquiv cls e d := Eq.symm h

theorem DescEquiv.trans {cls : Cls} {d e f : Description} (h : DescEquiv cls d e)
    (k : DescEquiv cls e f) : DescEquiv cls d f := Eq.trans h k

/-! ## `Fragment.equiv` -/

theorem Fragment.equiv_refl (cls : Cls) (f : Fragment) : Fragment.equiv cls f f := by
  cases f <;> simp [Fragment.equiv, DescEquiv.refl]

theorem Fragment.equiv_symm {cls : Cls} {f g : Fragment} (h : Fragment.equiv cls f g) :
    Fragment.equiv cls g f := by
  cases f <;> cases g <;> simp only [Fragment.equiv] at h ⊢
  all_goals first | exact h.symm | exact DescEquiv.symm h

theorem Fragment.equiv_trans {cls : Cls} {f g k : Fragment} (h : Fragment.equiv cls f g)
    (h' : Fragment.equiv cls g k) : Fragment.equiv cls f k := by
  cases f <;> cases g <;> simp only [Fragment.equiv] at h <;>
    cases k <;> simp only [Fragment.equiv] at h' ⊢
  all_goals first | exact h.trans h' | exact DescEquiv.trans h h'

theorem Fragment.equivList_refl (cls : Cls) (fs : List Fragment) :
    Fragment.equivList cls fs fs := by
  induction fs with
  | nil => simp [Fragment.equivList]
  | cons f fs ih => exact ⟨Fragment.equiv_refl cls f, ih⟩

theorem Fragment.equivList_symm {cls : Cls} {fs gs : List Fragment}
    (h : Fragment.equivList cls fs gs) : Fragment.equivList cls gs fs := by
  induction fs generalizing gs with
  | nil => cases gs <;> simp_all [Fragment.equivList]
  | cons f fs ih =>
    cases gs with
    | nil => simp [Fragment.equivList] at h
    | cons g gs => exact ⟨Fragment.equiv_symm h.1, ih h.2⟩

theorem Fragment.equivList_trans {cls : Cls} {fs gs ks : List Fragment}
    (h : Fragment.equivList cls fs gs) (h' : Fragment.equivList cls gs ks) :
    Fragment.equivList cls fs ks := by
  induction fs generalizing gs ks with
  | nil =>
    cases gs with
    | nil => exact h'
    | cons g gs => simp [Fragment.equivList] at h
  | cons f fs ih =>
    cases gs with
    | nil => simp [Fragment.equivList] at h
    | cons g gs =>
      cases ks with
      | nil => simp [Fragment.equivList] at h'
      | cons k ks => exact ⟨Fragment.equiv_trans h.1 h'.1, ih h.2 h'.2⟩

theorem Fragment.equivList_length {cls : Cls} {fs gs : List Fragment}
    (h : Fragment.equivList cls fs gs) : fs.length = gs.length := by
  induction fs generalizing gs with
  | nil => cases gs <;> simp_all [Fragment.equivList]
  | cons f fs ih =>
    cases gs with
    | nil => simp [Fragment.equivList] at h
    | cons g gs => simp [ih h.2]

/-! ## `Statement.equiv` -/

theorem Statement.equivList_nil (cls : Cls) : Statement.equivList cls [] [] := by
  simp [Statement.equivList]

theorem Statement.equivList_cons_iff (cls : Cls) (s t : Statement) (ss ts : List Statement) :
    Statement.equivList cls (s :: ss) (t :: ts) ↔
      Statement.equiv cls s t ∧ Statement.equivList cls ss ts := by
  simp [Statement.equivList]

theorem Statement.equivList_nil_cons (cls : Cls) (t : Statement) (ts : List Statement) :
    ¬ Statement.equivList cls [] (t :: ts) := by
  simp [Statement.equivList]

theorem Statement.equivList_cons_nil (cls : Cls) (s : Statement) (ss : List Statement) :
    ¬ Statement.equivList cls (s :: ss) [] := by
  simp [Statement.equivList]

theorem Statement.equiv_block_iff (cls : Cls) (h k : BlockHeader) (b c : List Statement) :
    Statement.equiv cls (.block h b) (.block k c) ↔
      h.erase = k.erase ∧ Statement.equivList cls b c := by
  simp [Statement.equiv]

mutual
theorem Statement.equiv_refl (cls : Cls) : ∀ s : Statement, Statement.equiv cls s s
  | .block h b => (Statement.equiv_block_iff cls h h b b).2 ⟨rfl, Statement.equivList_refl cls b⟩
  | .assign a => by simp [Statement.equiv]
  | .desc d => by simp [Statement.equiv, DescEquiv.refl]
theorem Statement.equivList_refl (cls : Cls) : ∀ ss : List Statement, Statement.equivList cls ss ss
  | [] => Statement.equivList_nil cls
  | s :: ss => (Statement.equivList_cons_iff cls s s ss ss).2
      ⟨Statement.equiv_refl cls s, Statement.equivList_refl cls ss⟩
end

mutual
theorem Statement.equiv_symm (cls : Cls) :
    ∀ s t : Statement, Statement.equiv cls s t → Statement.equiv cls t s
  | .block h b, t, hh => by
    cases t with
    | block k c =>
      rw [Statement.equiv_block_iff] at hh ⊢
      exact ⟨hh.1.symm, Statement.equivList_symm cls b c hh.2⟩
    | assign _ => simp [Statement.equiv] at hh
    | desc _ => simp [Statement.equiv] at hh
  | .assign a, t, hh => by
    cases t <;> simp only [Statement.equiv] at hh ⊢
    exact hh.symm
  | .desc d, t, hh => by
    cases t <;> simp only [Statement.equiv] at hh ⊢
    exact DescEquiv.symm hh
theorem Statement.equivList_symm (cls : Cls) :
    ∀ ss ts : List Statement, Statement.equivList cls ss ts → Statement.equivList cls ts ss
  | [], ts, hh => by
    cases ts with
    | nil => exact hh
    | cons t ts => exact absurd hh (Statement.equivList_nil_cons cls t ts)
  | s :: ss, ts, hh => by
    cases ts with
    | nil => exact absurd hh (Statement.equivList_cons_nil cls s ss)
    | cons t ts =>
      rw [Statement.equivList_cons_iff] at hh ⊢
      exact ⟨Statement.equiv_symm cls s t hh.1, Statement.equivList_symm cls ss ts hh.2⟩
end

mutual
theorem Statement.equiv_trans (cls : Cls) :
    ∀ s t u : Statement, Statement.equiv cls s t → Statement.equiv cls t u →
      Statement.equiv cls s u
  | .block h b, t, u, h1, h2 => by
    cases t with
    | block k c =>
      cases u with
      | block l d =>
        rw [Statement.equiv_block_iff] at h1 h2 ⊢
        exact ⟨h1.1.trans h2.1, Statement.equivList_trans cls b c d h1.2 h2.2⟩
      | assign _ => simp [Statement.equiv] at h2
      | desc _ => simp [Statement.equiv] at h2
    | assign _ => simp [Statement.equiv] at h1
    | desc _ => simp [Statement.equiv] at h1
  | .assign a, t, u, h1, h2 => by
    cases t <;> simp only [Statement.equiv] at h1
    cases u <;> simp only [Statement.equiv] at h2 ⊢
    exact h1.trans h2
  | .desc d, t, u, h1, h2 => by
    cases t <;> simp only [Statement.equiv] at h1
    cases u <;> simp only [Statement.equiv] at h2 ⊢
    exact DescEquiv.trans h1 h2
theorem Statement.equivList_trans (cls : Cls) :
    ∀ ss ts us : List Statement, Statement.equivList cls ss ts → Statement.equivList cls ts us →
      Statement.equivList cls ss us
  | [], ts, us, h1, h2 => by
    cases ts with
    | nil => exact h2
    | cons t ts => exact absurd h1 (Statement.equivList_nil_cons cls t ts)
  | s :: ss, ts, us, h1, h2 => by
    cases ts with
    | nil => exact absurd h1 (Statement.equivList_cons_nil cls s ss)
    | cons t ts =>
      cases us with
      | nil => exact absurd h2 (Statement.equivList_cons_nil cls t ts)
      | cons u us =>
        rw [Statement.equivList_cons_iff] at h1 h2 ⊢
        exact ⟨Statement.equiv_trans cls s t u h1.1 h2.1,
          Statement.equivList_trans cls ss ts us h1.2 h2.2⟩
end

theorem File.equiv_refl (cls : Cls) (f : File) : File.equiv cls f f :=
  Statement.equivList_refl cls f.body

theorem File.equiv_symm {cls : Cls} {f g : File} (h : File.equiv cls f g) : File.equiv cls g f :=
  Statement.equivList_symm cls _ _ h

theorem File.equiv_trans {cls : Cls} {f g k : File} (h : File.equiv cls f g)
    (h' : File.equiv cls g k) : File.equiv cls f k :=
  Statement.equivList_trans cls _ _ _ h h'

/-! ## characterisations -/

theorem Statement.equivList_length {cls : Cls} {ss ts : List Statement}
    (h : Statement.equivList cls ss ts) : ss.length = ts.length := by
  induction ss generalizing ts with
  | nil =>
    cases ts with
    | nil => rfl
    | cons t ts => exact absurd h (Statement.equivList_nil_cons cls t ts)
  | cons s ss ih =>
    cases ts with
    | nil => exact absurd h (Statement.equivList_cons_nil cls s ss)
    | cons t ts =>
      rw [Statement.equivList_cons_iff] at h
      simp [ih h.2]

theorem Statement.equivList_append {cls : Cls} {a b a2 b2 : List Statement}
    (h : Statement.equivList cls a b) (h2 : Statement.equivList cls a2 b2) :
    Statement.equivList cls (a ++ a2) (b ++ b2) := by
  induction a generalizing b with
  | nil =>
    cases b with
    | nil => exact h2
    | cons t ts => exact absurd h (Statement.equivList_nil_cons cls t ts)
  | cons s ss ih =>
    cases b with
    | nil => exact absurd h (Statement.equivList_cons_nil cls s ss)
    | cons t ts =>
      rw [Statement.equivList_cons_iff] at h
      rw [List.cons_append, List.cons_append, Statement.equivList_cons_iff]
      exact ⟨h.1, ih h.2⟩

theorem Statement.equivList_singleton {cls : Cls} {s t : Statement} :
    Statement.equivList cls [s] [t] ↔ Statement.equiv cls s t := by
  rw [Statement.equivList_cons_iff]
  exact ⟨fun h => h.1, fun h => ⟨h, Statement.equivList_nil cls⟩⟩

theorem Statement.equivList_snoc {cls : Cls} {a b : List Statement} {s t : Statement}
    (h : Statement.equivList cls a b) (hs : Statement.equiv cls s t) :
    Statement.equivList cls (a ++ [s]) (b ++ [t]) :=
  Statement.equivList_append h (Statement.equivList_singleton.2 hs)

theorem Statement.equivList_snoc_iff {cls : Cls} {a b : List Statement} {s t : Statement} :
    Statement.equivList cls (a ++ [s]) (b ++ [t]) ↔
      Statement.equivList cls a b ∧ Statement.equiv cls s t := by
  refine ⟨fun h => ?_, fun h => Statement.equivList_snoc h.1 h.2⟩
  induction a generalizing b with
  | nil =>
    cases b with
    | nil => exact ⟨Statement.equivList_nil cls, Statement.equivList_singleton.1 h⟩
    | cons t' ts =>
      rw [List.nil_append, List.cons_append, Statement.equivList_cons_iff] at h
      cases ts with
      | nil => exact absurd h.2 (Statement.equivList_nil_cons cls _ _)
      | cons _ _ => exact absurd h.2 (Statement.equivList_nil_cons cls _ _)
  | cons s' ss ih =>
    cases b with
    | nil =>
      rw [List.nil_append, List.cons_append, Statement.equivList_cons_iff] at h
      cases ss with
      | nil => exact absurd h.2 (Statement.equivList_cons_nil cls _ _)
      | cons _ _ => exact absurd h.2 (Statement.equivList_cons_nil cls _ _)
    | cons t' ts =>
      rw [List.cons_append, List.cons_append, Statement.equivList_cons_iff] at h
      have := ih h.2
      exact ⟨(Statement.equivList_cons_iff cls _ _ _ _).2 ⟨h.1, this.1⟩, this.2⟩

theorem BlockHeader.isOpen_eq_of_erase_eq {h k : BlockHeader} (e : h.erase = k.erase) :
    h.isOpen = k.isOpen := by
  have := congrArg BlockHeader.isOpen e
  simpa only [BlockHeader.erase] using this

/-! ## the stack of open blocks -/

/-- open-block stacks of the same shape with related headers and bodies -/
def StackRel (cls : Cls) : List OpenBlock → List OpenBlock → Prop
  | [], [] => True
  | b :: s, c :: t =>
    b.hdr.erase = c.hdr.erase ∧ Statement.equivList cls b.stmts c.stmts ∧ StackRel cls s t
  | _, _ => False

theorem StackRel.nil (cls : Cls) : StackRel cls [] [] := by simp [StackRel]

theorem StackRel.cons_iff (cls : Cls) (b c : OpenBlock) (s t : List OpenBlock) :
    StackRel cls (b :: s) (c :: t) ↔
      b.hdr.erase = c.hdr.erase ∧ Statement.equivList cls b.stmts c.stmts ∧ StackRel cls s t := by
  simp [StackRel]

theorem StackRel.not_nil_cons (cls : Cls) (c : OpenBlock) (t : List OpenBlock) :
    ¬ StackRel cls [] (c :: t) := by simp [StackRel]

theorem StackRel.not_cons_nil (cls : Cls) (b : OpenBlock) (s : List OpenBlock) :
    ¬ StackRel cls (b :: s) [] := by simp [StackRel]

theorem StackRel.refl (cls : Cls) (s : List OpenBlock) : StackRel cls s s := by
  induction s with
  | nil => exact StackRel.nil cls
  | cons b s ih => exact (StackRel.cons_iff cls b b s s).2 ⟨rfl, Statement.equivList_refl cls _, ih⟩

theorem StackRel.eq_nil_iff {cls : Cls} {s t : List OpenBlock} (h : StackRel cls s t) :
    s = [] ↔ t = [] := by
  cases s <;> cases t <;> simp_all [StackRel]

theorem closeInto_equiv {cls : Cls} {s t : List OpenBlock} (hs : StackRel cls s t) :
    ∀ {r r' : List Statement} {blk blk' : Statement}, Statement.equivList cls r r' →
      Statement.equiv cls blk blk' →
      Statement.equivList cls (closeInto r blk s) (closeInto r' blk' t) := by
  induction s generalizing t with
  | nil =>
    cases t with
    | nil => intro r r' blk blk' hr hb; exact Statement.equivList_snoc hr hb
    | cons c t => exact absurd hs (StackRel.not_nil_cons cls c t)
  | cons b s ih =>
    cases t with
    | nil => exact absurd hs (StackRel.not_cons_nil cls b s)
    | cons c t =>
      intro r r' blk blk' hr hb
      rw [StackRel.cons_iff] at hs
      simp only [closeInto]
      exact ih hs.2.2 hr
        ((Statement.equiv_block_iff cls _ _ _ _).2 ⟨hs.1, Statement.equivList_snoc hs.2.1 hb⟩)

theorem closeAll_equiv {cls : Cls} {s t : List OpenBlock} (hs : StackRel cls s t)
    {r r' : List Statement} (hr : Statement.equivList cls r r') :
    Statement.equivList cls (closeAll r s) (closeAll r' t) := by
  cases s with
  | nil =>
    cases t with
    | nil => exact hr
    | cons c t => exact absurd hs (StackRel.not_nil_cons cls c t)
  | cons b s =>
    cases t with
    | nil => exact absurd hs (StackRel.not_cons_nil cls b s)
    | cons c t =>
      rw [StackRel.cons_iff] at hs
      simp only [closeAll]
      exact closeInto_equiv hs.2.2 hr ((Statement.equiv_block_iff cls _ _ _ _).2 ⟨hs.1, hs.2.1⟩)

/-! ## one step of `fragsLoop` -/

/-- `add` of `fragsLoop`: append a statement to the innermost open block (or to the root) -/
def addStmt (root : List Statement) (stack : List OpenBlock) (s : Statement) :
    List Statement × List OpenBlock :=
  match stack with
  | [] => (root ++ [s], [])
  | b :: rest => (root, ⟨b.hdr, b.stmts ++ [s]⟩ :: rest)

/-- what `fragsLoop` does with one fragment -/
def fragStep (f : Fragment) (root : List Statement) (stack : List OpenBlock) (errs : List Diag) :
    List Statement × List OpenBlock × List Diag :=
  match f with
  | .header h =>
    if h.isOpen then (root, ⟨h, []⟩ :: stack, errs)
    else ((addStmt root stack (.block h [])).1, (addStmt root stack (.block h [])).2, errs)
  | .assign a => ((addStmt root stack (.assign a)).1, (addStmt root stack (.assign a)).2, errs)
  | .desc d => ((addStmt root stack (.desc d)).1, (addStmt root stack (.desc d)).2, errs)
  | .comment _ => (root, stack, errs)
  | .close c =>
    match stack with
    | [] => (root, [], errs ++ [⟨c.span.start, c.span.end_, .unexpectedClose⟩])
    | b :: rest =>
      ((addStmt root rest (.block b.hdr b.stmts)).1, (addStmt root rest (.block b.hdr b.stmts)).2,
        errs)

theorem fragsLoop_cons (f : Fragment) (fs : List Fragment) (root : List Statement)
    (stack : List OpenBlock) (errs : List Diag) :
    fragsLoop (f :: fs) root stack errs =
      fragsLoop fs (fragStep f root stack errs).1 (fragStep f root stack errs).2.1
        (fragStep f root stack errs).2.2 := by
  cases f with
  | header h =>
    cases stack <;> simp only [fragsLoop, fragStep, addStmt] <;> split <;> rfl
  | assign a => cases stack <;> simp only [fragsLoop, fragStep, addStmt]
  | desc d => cases stack <;> simp only [fragsLoop, fragStep, addStmt]
  | comment c => simp only [fragsLoop, fragStep]
  | close c =>
    cases stack with
    | nil => simp only [fragsLoop, fragStep]
    | cons b rest => cases rest <;> simp only [fragsLoop, fragStep, addStmt]

/-- the relation between two runs of `fragsLoop` -/
def StateRel (cls : Cls) (p q : List Statement × List OpenBlock × List Diag) : Prop :=
  Statement.equivList cls p.1 q.1 ∧ StackRel cls p.2.1 q.2.1 ∧ (p.2.2 = [] ↔ q.2.2 = [])

theorem addStmt_rel {cls : Cls} {r r' : List Statement} {s s' : List OpenBlock}
    {x y : Statement} (hr : Statement.equivList cls r r') (hs : StackRel cls s s')
    (hx : Statement.equiv cls x y) :
    Statement.equivList cls (addStmt r s x).1 (addStmt r' s' y).1 ∧
      StackRel cls (addStmt r s x).2 (addStmt r' s' y).2 := by
  cases s with
  | nil =>
    cases s' with
    | nil => exact ⟨Statement.equivList_snoc hr hx, StackRel.nil cls⟩
    | cons c t => exact absurd hs (StackRel.not_nil_cons cls c t)
  | cons b s =>
    cases s' with
    | nil => exact absurd hs (StackRel.not_cons_nil cls b s)
    | cons c t =>
      rw [StackRel.cons_iff] at hs
      exact ⟨hr, (StackRel.cons_iff cls _ _ _ _).2
        ⟨hs.1, Statement.equivList_snoc hs.2.1 hx, hs.2.2⟩⟩

theorem fragStep_rel {cls : Cls} {f g : Fragment} (hf : Fragment.equiv cls f g)
    {r r' : List Statement} {s s' : List OpenBlock} {e e' : List Diag}
    (hr : Statement.equivList cls r r') (hs : StackRel cls s s') (he : e = [] ↔ e' = []) :
    StateRel cls (fragStep f r s e) (fragStep g r' s' e') := by
  cases f <;> cases g <;> simp only [Fragment.equiv] at hf
  case header.header h k =>
    have ho := BlockHeader.isOpen_eq_of_erase_eq hf
    simp only [fragStep, ho]
    split
    · exact ⟨hr, (StackRel.cons_iff cls _ _ _ _).2 ⟨hf, Statement.equivList_nil cls, hs⟩, he⟩
    · have := addStmt_rel (x := .block h []) (y := .block k []) hr hs
        ((Statement.equiv_block_iff cls _ _ _ _).2 ⟨hf, Statement.equivList_nil cls⟩)
      exact ⟨this.1, this.2, he⟩
  case assign.assign a b =>
    have := addStmt_rel (x := .assign a) (y := .assign b) hr hs
      (by simp only [Statement.equiv]; exact hf)
    exact ⟨this.1, this.2, he⟩
  case desc.desc d d' =>
    have := addStmt_rel (x := .desc d) (y := .desc d') hr hs
      (by simp only [Statement.equiv]; exact hf)
    exact ⟨this.1, this.2, he⟩
  case comment.comment c d => exact ⟨hr, hs, he⟩
  case close.close c d =>
    cases s with
    | nil =>
      cases s' with
      | nil =>
        refine ⟨hr, StackRel.nil cls, ?_⟩
        simp [fragStep]
      | cons c t => exact absurd hs (StackRel.not_nil_cons cls c t)
    | cons b s =>
      cases s' with
      | nil => exact absurd hs (StackRel.not_cons_nil cls b s)
      | cons c t =>
        rw [StackRel.cons_iff] at hs
        have := addStmt_rel (x := .block b.hdr b.stmts) (y := .block c.hdr c.stmts) hr hs.2.2
          ((Statement.equiv_block_iff cls _ _ _ _).2 ⟨hs.1, hs.2.1⟩)
        exact ⟨this.1, this.2, he⟩

theorem fragsLoop_rel {cls : Cls} {fs gs : List Fragment} (h : Fragment.equivList cls fs gs) :
    ∀ {r r' : List Statement} {s s' : List OpenBlock} {e e' : List Diag},
      Statement.equivList cls r r' → StackRel cls s s' → (e = [] ↔ e' = []) →
      StateRel cls (fragsLoop fs r s e) (fragsLoop gs r' s' e') := by
  induction fs generalizing gs with
  | nil =>
    cases gs with
    | nil => intro r r' s s' e e' hr hs he; exact ⟨hr, hs, he⟩
    | cons g gs => simp [Fragment.equivList] at h
  | cons f fs ih =>
    cases gs with
    | nil => simp [Fragment.equivList] at h
    | cons g gs =>
      intro r r' s s' e e' hr hs he
      have hstep := fragStep_rel h.1 hr hs he
      rw [fragsLoop_cons, fragsLoop_cons]
      exact ih h.2 hstep.1 hstep.2.1 hstep.2.2

/-! ## `fragmentsToFile` -/

theorem fragmentsToFile_eq (fs : List Fragment) :
    fragmentsToFile fs =
      ⟨closeAll (fragsLoop fs [] [] []).1 (fragsLoop fs [] [] []).2.1,
        match (fragsLoop fs [] [] []).2.1, fs.getLast? with
        | _ :: _, some last =>
          (fragsLoop fs [] [] []).2.2 ++ [⟨last.src.start, last.src.end_, .unclosedBlock⟩]
        | _, _ => (fragsLoop fs [] [] []).2.2⟩ := rfl

theorem fragmentsToFile_equiv (cls : Cls) (fs gs : List Fragment)
    (h : Fragment.equivList cls fs gs) :
    File.equiv cls (fragmentsToFile fs) (fragmentsToFile gs) ∧
      ((fragmentsToFile fs).errors = [] ↔ (fragmentsToFile gs).errors = []) := by
  have hrel := fragsLoop_rel h (Statement.equivList_nil cls) (StackRel.nil cls)
    (Iff.rfl : ([] : List Diag) = [] ↔ ([] : List Diag) = [])
  obtain ⟨hr, hs, he⟩ := hrel
  rw [fragmentsToFile_eq fs, fragmentsToFile_eq gs]
  refine ⟨closeAll_equiv hs hr, ?_⟩
  simp only []
  cases fs with
  | nil =>
    cases gs with
    | nil => simp [fragsLoop]
    | cons g gs => simp [Fragment.equivList] at h
  | cons f fs =>
    cases gs with
    | nil => simp [Fragment.equivList] at h
    | cons g gs =>
      rw [List.getLast?_eq_some_getLast (List.cons_ne_nil f fs),
        List.getLast?_eq_some_getLast (List.cons_ne_nil g gs)]
      generalize fragsLoop (f :: fs) [] [] [] = p at hr hs he ⊢
      generalize fragsLoop (g :: gs) [] [] [] = q at hr hs he ⊢
      obtain ⟨r, s, e⟩ := p
      obtain ⟨r', s', e'⟩ := q
      simp only [] at hr hs he ⊢
      cases s with
      | nil =>
        cases s' with
        | nil => exact he
        | cons c t => exact absurd hs (StackRel.not_nil_cons cls c t)
      | cons b s =>
        cases s' with
        | nil => exact absurd hs (StackRel.not_cons_nil cls b s)
        | cons c t => simp

end J5V.Bcl
