import J5V.Bcl.LexerProofs
import J5V.Bcl.LexShapeProofs
import J5V.Bcl.PosLines
/-!
# Line numbers of tokens: a token starts on the line the lexer stands on; after a token that is not an
EOL the lexer still stands on the token's last line; `//` comments and EOLs are single-line.
(Needs: `\n` is neither a letter nor a digit for the classifier.)
-/
namespace J5V.Bcl

/-- `\n` is neither a letter nor a digit (true of Go's tables; an identifier or number never contains it) -/
def ClsNL (cls : Cls) : Prop := cls.isLetter cNL = false ∧ cls.isDigit cNL = false

def Cur.SameLine (c : Cur) : Prop := c.nxt.line = c.pos.line

theorem adv_sameLine (c : Cur) {r : Rune} (h : r ≠ cNL) : (c.adv r).SameLine := by
  unfold Cur.SameLine Cur.adv; simp [h]

theorem adv_nxt_line (c : Cur) {r : Rune} (h : r ≠ cNL) : (c.adv r).nxt.line = c.nxt.line := by
  unfold Cur.adv; simp [h]

theorem advEOF_sameLine (c : Cur) : c.advEOF.SameLine := rfl
theorem advEOF_nxt_line (c : Cur) : c.advEOF.nxt.line = c.nxt.line := rfl

/-- kept by a routine that only consumes non-newline runes -/
def KeepsLine (c c' : Cur) : Prop := c.SameLine → (c'.SameLine ∧ c'.nxt.line = c.nxt.line)

theorem KeepsLine.refl (c : Cur) : KeepsLine c c := fun h => ⟨h, rfl⟩
theorem KeepsLine.adv (c : Cur) {r : Rune} (h : r ≠ cNL) {c' : Cur} (k : KeepsLine (c.adv r) c') :
    c.SameLine → (c'.SameLine ∧ c'.nxt.line = c.nxt.line) := by
  intro _
  obtain ⟨h1, h2⟩ := k (adv_sameLine c h)
  exact ⟨h1, by rw [h2, adv_nxt_line c h]⟩

theorem lexLineLoop_keeps (c : Cur) (acc rest : List Rune) : KeepsLine c (lexLineLoop c acc rest).cur := by
  induction rest generalizing c acc with
  | nil => exact KeepsLine.refl c
  | cons r rs ih =>
    unfold lexLineLoop
    split
    · exact KeepsLine.refl c
    · rename_i hr
      exact KeepsLine.adv c hr (ih _ _)

theorem skipWhitespace_line (cls : Cls) (c : Cur) (rest : List Rune) :
    KeepsLine c (skipWhitespace cls c rest).1 := by
  induction rest generalizing c with
  | nil => exact KeepsLine.refl c
  | cons r rs ih =>
    unfold skipWhitespace
    split
    · rename_i hr
      exact KeepsLine.adv c hr.2 (ih _)
    · exact KeepsLine.refl c

theorem lexIdentLoop_line (cls : Cls) (hcls : ClsNL cls) (c : Cur) (acc rest : List Rune) :
    KeepsLine c (lexIdentLoop cls c acc rest).cur := by
  induction rest generalizing c acc with
  | nil => exact KeepsLine.refl c
  | cons r rs ih =>
    unfold lexIdentLoop
    split
    · rename_i hr
      have hnl : r ≠ cNL := by
        intro e; subst e
        rcases hr with h | h | h
        · rw [hcls.1] at h; cases h
        · rw [hcls.2] at h; cases h
        · exact absurd h (by decide)
      exact KeepsLine.adv c hnl (ih _ _)
    · exact KeepsLine.refl c

theorem lexNumberLoop_line (cls : Cls) (hcls : ClsNL cls) (c : Cur) (ty : TokenType) (acc : List Rune)
    (sd : Bool) (rest : List Rune) : KeepsLine c (lexNumberLoop cls c ty acc sd rest).cur := by
  induction rest generalizing c ty acc sd with
  | nil => exact KeepsLine.refl c
  | cons r rs ih =>
    unfold lexNumberLoop
    split
    · rename_i hr
      have hnl : r ≠ cNL := by intro e; subst e; rw [hcls.2] at hr; cases hr
      exact KeepsLine.adv c hnl (ih _ _ _ _)
    · split
      · rename_i hd
        have hnl : r ≠ cNL := by rw [hd]; decide
        split
        · exact KeepsLine.refl c
        · exact KeepsLine.adv c hnl (ih _ _ _ _)
      · exact KeepsLine.refl c

theorem lexBlockLoop_sameLine (c : Cur) (txt rest : List Rune) : (lexBlockLoop c txt rest).cur.SameLine := by
  induction rest generalizing c txt with
  | nil => exact advEOF_sameLine c
  | cons r rs ih =>
    unfold lexBlockLoop
    split
    · exact adv_sameLine _ (by decide)
    · exact ih _ _

theorem lexStringLoop_sameLine_aux (n : Nat) : ∀ (c : Cur) (lit rest : List Rune), rest.length ≤ n →
    (lexStringLoop c lit rest).err = none → (lexStringLoop c lit rest).cur.SameLine := by
  induction n with
  | zero =>
    intro c lit rest h he
    have : rest = [] := List.eq_nil_of_length_eq_zero (Nat.le_zero.mp h)
    subst this
    unfold lexStringLoop at he; cases he
  | succ n ih =>
    intro c lit rest h he
    cases rest with
    | nil => unfold lexStringLoop at he; cases he
    | cons r rs =>
      have hrs : rs.length ≤ n := by simpa using h
      unfold lexStringLoop at he ⊢
      simp only [] at he ⊢
      by_cases h1 : r = cQUOTE
      · rw [if_pos h1]; exact adv_sameLine c (by rw [h1]; decide)
      · rw [if_neg h1] at he ⊢
        by_cases h2 : r = cNL
        · rw [if_pos h2] at he; cases he
        · rw [if_neg h2] at he ⊢
          by_cases h3 : r = cBSL
          · rw [if_pos h3] at he ⊢
            cases rs with
            | nil => simp at he
            | cons e rs2 =>
              simp only [] at he ⊢
              by_cases h4 : e = cBSL ∨ e = cNL ∨ e = cQUOTE
              · rw [if_pos h4] at he ⊢
                exact ih _ _ rs2 (by simp at hrs; omega) he
              · rw [if_neg h4] at he; cases he
          · rw [if_neg h3] at he ⊢
            exact ih _ _ rs hrs he

theorem lexStringLoop_sameLine (c : Cur) (lit rest : List Rune)
    (he : (lexStringLoop c lit rest).err = none) : (lexStringLoop c lit rest).cur.SameLine :=
  lexStringLoop_sameLine_aux rest.length c lit rest (Nat.le_refl _) he

theorem lexRegexLoop_sameLine_aux (n : Nat) : ∀ (c : Cur) (lit rest : List Rune), rest.length ≤ n →
    (lexRegexLoop c lit rest).err = none → (lexRegexLoop c lit rest).cur.SameLine := by
  induction n with
  | zero =>
    intro c lit rest h he
    have : rest = [] := List.eq_nil_of_length_eq_zero (Nat.le_zero.mp h)
    subst this
    unfold lexRegexLoop at he; cases he
  | succ n ih =>
    intro c lit rest h he
    cases rest with
    | nil => unfold lexRegexLoop at he; cases he
    | cons r rs =>
      have hrs : rs.length ≤ n := by simpa using h
      unfold lexRegexLoop at he ⊢
      simp only [] at he ⊢
      by_cases h1 : r = cNL
      · rw [if_pos h1] at he; cases he
      · rw [if_neg h1] at he ⊢
        by_cases h2 : r = cSLASH
        · rw [if_pos h2] at he ⊢
          cases rs with
          | nil => exact adv_sameLine c h1
          | cons e rs2 =>
            simp only [] at he ⊢
            by_cases h3 : e = cSLASH
            · rw [if_pos h3] at he ⊢
              exact ih _ _ rs2 (by simp at hrs; omega) he
            · rw [if_neg h3]; exact adv_sameLine c h1
        · rw [if_neg h2] at he ⊢
          exact ih _ _ rs hrs he

theorem lexRegexLoop_sameLine (c : Cur) (lit rest : List Rune)
    (he : (lexRegexLoop c lit rest).err = none) : (lexRegexLoop c lit rest).cur.SameLine :=
  lexRegexLoop_sameLine_aux rest.length c lit rest (Nat.le_refl _) he


/-- line facts of one `NextToken` step -/
structure StepLines (c : Cur) (s : LexStep) : Prop where
  start : s.tok.start.line = c.nxt.line
  after : s.tok.ty ≠ .eol → s.cur.nxt.line = s.tok.end_.line
  single : (s.tok.ty = .comment ∨ s.tok.ty = .eol) → s.tok.end_.line = s.tok.start.line

theorem litStep_lines (c : Cur) (r : Rune) (hr : r ≠ cNL) (ty : TokenType) (hty : ty ≠ .eol)
    (lr : LitRes) (he : (litStep ty (c.adv r).pos lr).err = none) (hs : lr.cur.SameLine)
    (hsingle : ty = .comment → lr.cur.nxt.line = (c.adv r).nxt.line) :
    StepLines c (litStep ty (c.adv r).pos lr) := by
  obtain ⟨hle, ht⟩ := litStep_tok_none _ _ _ he
  have hcur : (litStep ty (c.adv r).pos lr).cur = lr.cur := (litStep_fields _ _ _).1
  refine ⟨?_, ?_, ?_⟩
  · rw [ht]; rfl
  · intro _; rw [hcur, ht]; exact hs
  · intro h
    rw [ht] at h ⊢
    simp only at h ⊢
    rcases h with h | h
    · show lr.cur.pos.line = c.nxt.line
      rw [← hs, hsingle h, adv_nxt_line c hr]
    · exact absurd h hty

theorem nextToken_lines (cls : Cls) (hcls : ClsNL cls) (c : Cur) (rest : List Rune)
    (he : (nextToken cls c rest).err = none) : StepLines c (nextToken cls c rest) := by
  induction rest generalizing c with
  | nil => unfold nextToken; exact ⟨rfl, fun _ => rfl, fun _ => rfl⟩
  | cons r rs ih =>
    unfold nextToken at he ⊢
    simp only [] at he ⊢
    split
    · rename_i op hop
      have hr : r ≠ cNL := by
        intro e
        have h0 : operatorOf cNL = none := by decide
        rw [e, h0] at hop; cases hop
      exact ⟨rfl, fun _ => adv_sameLine c hr, fun _ => rfl⟩
    · rename_i hop
      simp only [hop] at he
      by_cases h1 : r = cSLASH
      · have hr : r ≠ cNL := by rw [h1]; decide
        rw [if_pos h1] at he ⊢
        by_cases h2 : rs.head? = some cSLASH
        · rw [if_pos h2] at he ⊢
          cases rs with
          | nil => simp at h2
          | cons r2 rs2 =>
            have hr2 : r2 ≠ cNL := by
              have : r2 = cSLASH := by simpa using h2
              rw [this]; decide
            have hk := KeepsLine.adv (c.adv r) hr2 (lexLineLoop_keeps ((c.adv r).adv r2) [] rs2)
              (adv_sameLine c hr)
            exact litStep_lines c r hr .comment (by decide) _ he hk.1 (fun _ => hk.2)
        · rw [if_neg h2] at he ⊢
          by_cases h3 : rs.head? = some cSTAR
          · rw [if_pos h3] at he ⊢
            cases rs with
            | nil => simp at h3
            | cons r2 rs2 =>
              exact litStep_lines c r hr .blockComment (by decide) _ he
                (lexBlockLoop_sameLine _ _ _) (fun h => by cases h)
          · rw [if_neg h3] at he ⊢
            obtain ⟨hle, _⟩ := litStep_tok_none _ _ _ he
            exact litStep_lines c r hr .regex (by decide) _ he
              (lexRegexLoop_sameLine _ _ _ hle) (fun h => by cases h)
      · rw [if_neg h1] at he ⊢
        by_cases h2 : r = cQUOTE
        · have hr : r ≠ cNL := by rw [h2]; decide
          rw [if_pos h2] at he ⊢
          obtain ⟨hle, _⟩ := litStep_tok_none _ _ _ he
          exact litStep_lines c r hr .string (by decide) _ he
            (lexStringLoop_sameLine _ _ _ hle) (fun h => by cases h)
        · rw [if_neg h2] at he ⊢
          by_cases h3 : r = cPIPE
          · have hr : r ≠ cNL := by rw [h3]; decide
            rw [if_pos h3] at he ⊢
            have hk : (lexDescriptionLine cls (c.adv r) rs).cur.SameLine := by
              unfold lexDescriptionLine
              have h1 := skipWhitespace_line cls (c.adv r) rs (adv_sameLine c hr)
              generalize skipWhitespace cls (c.adv r) rs = sw at h1
              obtain ⟨c1, rest1⟩ := sw
              exact (lexLineLoop_keeps c1 [] rest1 h1.1).1
            exact litStep_lines c r hr .description (by decide) _ he hk (fun h => by cases h)
          · rw [if_neg h3] at he ⊢
            by_cases h4 : r = cNL
            · rw [if_pos h4] at he ⊢
              exact ⟨rfl, fun h => absurd rfl h, fun _ => rfl⟩
            · rw [if_neg h4] at he ⊢
              by_cases h5 : cls.isSpace r = true
              · rw [if_pos h5] at he ⊢
                obtain ⟨i1, i2, i3⟩ := ih (c.adv r) he
                exact ⟨by rw [i1, adv_nxt_line c h4], i2, i3⟩
              · rw [if_neg h5] at he ⊢
                by_cases h6 : cls.isDigit r = true
                · rw [if_pos h6] at he ⊢
                  have hk := lexNumberLoop_line cls hcls (c.adv r) .int [r] false rs (adv_sameLine c h4)
                  cases hne : (lexNumberLoop cls (c.adv r) TokenType.int [r] false rs).err with
                  | some e => rw [hne] at he; simp at he
                  | none =>
                    simp only [hne]
                    exact ⟨rfl, fun _ => hk.1, fun h => by
                      rcases h with h | h
                      · have := (lexNumberLoop_lit cls (c.adv r) [r] rs false .int hne).1 rfl
                        rcases this with ⟨_, e1, _⟩ | ⟨_, _, e1, _⟩ <;> simp [mkTok, e1] at h
                      · have := (lexNumberLoop_lit cls (c.adv r) [r] rs false .int hne).1 rfl
                        rcases this with ⟨_, e1, _⟩ | ⟨_, _, e1, _⟩ <;> simp [mkTok, e1] at h⟩
                · rw [if_neg h6] at he ⊢
                  by_cases h7 : cls.isLetter r = true
                  · rw [if_pos h7] at he ⊢
                    have hk := lexIdentLoop_line cls hcls (c.adv r) [r] rs (adv_sameLine c h4)
                    simp only [asKeyword] at he ⊢
                    split
                    · exact ⟨rfl, fun _ => hk.1, fun h => by simp [mkTok] at h⟩
                    · exact ⟨rfl, fun _ => hk.1, fun h => by simp [mkTok] at h⟩
                  · rw [if_neg h7] at he
                    simp at he


/-! ## What an EOL / EOF result says about the consumed text -/

def AllSpace (cls : Cls) (ws : List Rune) : Prop := ∀ r ∈ ws, cls.isSpace r = true ∧ r ≠ cNL

theorem operatorOf_ne_eol {r : Rune} {op : TokenType} (h : operatorOf r = some op) :
    op ≠ .eol ∧ op ≠ .eof := by
  unfold operatorOf at h
  repeat' split at h
  all_goals first | (cases h; exact ⟨by decide, by decide⟩) | (cases h)

theorem litStep_ty (ty : TokenType) (p : Pos) (lr : LitRes) (h : (litStep ty p lr).err = none) :
    (litStep ty p lr).tok.ty = ty := by
  rw [(litStep_tok_none ty p lr h).2]

/-- an EOL token is a newline preceded by skipped white space; an EOF token means only white space
was left -/
theorem nextToken_eol_eof (cls : Cls) (c : Cur) (rest : List Rune)
    (he : (nextToken cls c rest).err = none) :
    ((nextToken cls c rest).tok.ty = .eol →
      ∃ ws, AllSpace cls ws ∧ rest = ws ++ cNL :: (nextToken cls c rest).rest) ∧
    ((nextToken cls c rest).tok.ty = .eof → AllSpace cls rest ∧ (nextToken cls c rest).rest = []) := by
  induction rest generalizing c with
  | nil =>
    unfold nextToken
    exact ⟨(fun h => by simp [mkTok] at h), fun _ => ⟨(fun r hr => by cases hr), rfl⟩⟩
  | cons r rs ih =>
    unfold nextToken at he ⊢
    simp only [] at he ⊢
    split
    · rename_i op hop
      obtain ⟨o1, o2⟩ := operatorOf_ne_eol hop
      exact ⟨fun h => absurd h o1, fun h => absurd h o2⟩
    · rename_i hop
      simp only [hop] at he
      by_cases h1 : r = cSLASH
      · rw [if_pos h1] at he ⊢
        by_cases h2 : rs.head? = some cSLASH
        · rw [if_pos h2] at he ⊢
          rw [litStep_ty _ _ _ he]
          exact ⟨(fun h => by cases h), (fun h => by cases h)⟩
        · rw [if_neg h2] at he ⊢
          by_cases h3 : rs.head? = some cSTAR
          · rw [if_pos h3] at he ⊢
            rw [litStep_ty _ _ _ he]
            exact ⟨(fun h => by cases h), (fun h => by cases h)⟩
          · rw [if_neg h3] at he ⊢
            rw [litStep_ty _ _ _ he]
            exact ⟨(fun h => by cases h), (fun h => by cases h)⟩
      · rw [if_neg h1] at he ⊢
        by_cases h2 : r = cQUOTE
        · rw [if_pos h2] at he ⊢
          rw [litStep_ty _ _ _ he]
          exact ⟨(fun h => by cases h), (fun h => by cases h)⟩
        · rw [if_neg h2] at he ⊢
          by_cases h3 : r = cPIPE
          · rw [if_pos h3] at he ⊢
            rw [litStep_ty _ _ _ he]
            exact ⟨(fun h => by cases h), (fun h => by cases h)⟩
          · rw [if_neg h3] at he ⊢
            by_cases h4 : r = cNL
            · rw [if_pos h4] at he ⊢
              exact ⟨fun _ => ⟨[], (fun x hx => by cases hx), by rw [h4]; rfl⟩,
                (fun h => by simp [mkTok] at h)⟩
            · rw [if_neg h4] at he ⊢
              by_cases h5 : cls.isSpace r = true
              · rw [if_pos h5] at he ⊢
                obtain ⟨i1, i2⟩ := ih (c.adv r) he
                refine ⟨fun h => ?_, fun h => ?_⟩
                · obtain ⟨ws, w1, w2⟩ := i1 h
                  refine ⟨r :: ws, ?_, congrArg (List.cons r) w2⟩
                  intro x hx
                  rcases List.mem_cons.mp hx with rfl | hx
                  · exact ⟨h5, h4⟩
                  · exact w1 x hx
                · obtain ⟨w1, w2⟩ := i2 h
                  refine ⟨?_, w2⟩
                  intro x hx
                  rcases List.mem_cons.mp hx with rfl | hx
                  · exact ⟨h5, h4⟩
                  · exact w1 x hx
              · rw [if_neg h5] at he ⊢
                by_cases h6 : cls.isDigit r = true
                · rw [if_pos h6] at he ⊢
                  cases hne : (lexNumberLoop cls (c.adv r) TokenType.int [r] false rs).err with
                  | some e => rw [hne] at he; simp at he
                  | none =>
                    simp only [hne]
                    have := (lexNumberLoop_lit cls (c.adv r) [r] rs false .int hne).1 rfl
                    rcases this with ⟨_, e1, _⟩ | ⟨_, _, e1, _⟩ <;>
                      exact ⟨(fun h => by simp [mkTok, e1] at h), (fun h => by simp [mkTok, e1] at h)⟩
                · rw [if_neg h6] at he ⊢
                  by_cases h7 : cls.isLetter r = true
                  · rw [if_pos h7] at he ⊢
                    simp only [asKeyword]
                    split <;> exact ⟨(fun h => by simp [mkTok] at h), (fun h => by simp [mkTok] at h)⟩
                  · rw [if_neg h7] at he
                    simp at he

/-! ## Lifting to `AllTokens` -/

/-- consecutive tokens: after a token that is not an EOL the next token starts on its last line -/
def LineAdj : Option Token → List Token → Prop
  | _, [] => True
  | p, u :: us => (∀ t, p = some t → t.ty ≠ .eol → u.start.line = t.end_.line) ∧ LineAdj (some u) us

def SingleLine (ts : List Token) : Prop :=
  ∀ t ∈ ts, (t.ty = .comment ∨ t.ty = .eol) → t.end_.line = t.start.line

theorem allTokensLoop_lines (cls : Cls) (hcls : ClsNL cls) (ff : Bool) :
    ∀ (fuel : Nat) (c : Cur) (rest : List Rune) (toks : List Token) (errs : List LexErr)
      (out : List Token) (pt : Option Token),
      (∀ t, pt = some t → t.ty ≠ .eol → c.nxt.line = t.end_.line) →
      allTokensLoop cls ff fuel c rest toks errs = .toks out →
      ∃ new, out = toks ++ new ∧ LineAdj pt new ∧ SingleLine new := by
  intro fuel
  induction fuel with
  | zero => intro c rest toks errs out pt _ h; unfold allTokensLoop at h; cases h
  | succ fuel ih =>
    intro c rest toks errs out pt hpt h
    unfold allTokensLoop at h
    simp only [] at h
    cases hse : (nextToken cls c rest).err with
    | some e =>
      rw [hse] at h
      simp only [] at h
      split at h
      · cases h
      · split at h
        · cases h
        · exact (allTokensLoop_toks_no_errs cls ff _ _ _ _ _ _ h (by simp)).elim
    | none =>
      rw [hse] at h
      simp only [] at h
      have hl := nextToken_lines cls hcls c rest hse
      split at h
      · split at h
        · cases h; exact ⟨[], by simp, trivial, (fun t ht => by cases ht)⟩
        · cases h
      · obtain ⟨new, h1, h2, h3⟩ := ih _ _ _ _ _ (some (nextToken cls c rest).tok)
          (fun t ht hty => by cases ht; exact hl.after hty) h
        refine ⟨(nextToken cls c rest).tok :: new, by rw [h1]; simp, ⟨?_, h2⟩, ?_⟩
        · intro t ht hty
          rw [hl.start, hpt t ht hty]
        · intro t ht
          rcases List.mem_cons.mp ht with rfl | ht
          · exact hl.single
          · exact h3 t ht

theorem allTokens_lines (cls : Cls) (hcls : ClsNL cls) (ff : Bool) (src : List Rune) (ts : List Token)
    (h : allTokens cls ff src = .toks ts) : LineAdj none ts ∧ SingleLine ts := by
  obtain ⟨new, h1, h2, h3⟩ := allTokensLoop_lines cls hcls ff _ _ _ _ _ _ none
    (fun t ht => by cases ht) h
  simp at h1; subst h1
  exact ⟨h2, h3⟩


/-! ## Coverage: every rune that is not white space lies inside a token that is not an EOL -/

/-- the runes of the prefix `p` are white space / newlines, or lie in a non-EOL token of `toks` that
ends on the same or a later line -/
def Cover (cls : Cls) (toks : List Token) (p : List Rune) : Prop :=
  ∀ u x v, p = u ++ x :: v → (cls.isSpace x = true ∨ x = cNL) ∨
    ∃ T ∈ toks, T.ty ≠ .eol ∧ (posAfter u).line ≤ T.end_.line

theorem Cover.mono {cls : Cls} {toks toks' : List Token} {p : List Rune} (h : Cover cls toks p)
    (hs : ∀ t ∈ toks, t ∈ toks') : Cover cls toks' p := by
  intro u x v e
  rcases h u x v e with h1 | ⟨T, hT, h2⟩
  · exact Or.inl h1
  · exact Or.inr ⟨T, hs T hT, h2⟩

/-- extend coverage by a consumed chunk `pre` -/
theorem Cover.append {cls : Cls} {toks : List Token} {p pre : List Rune} (h : Cover cls toks p)
    (hpre : ∀ u x v, pre = u ++ x :: v → (cls.isSpace x = true ∨ x = cNL) ∨
      ∃ T ∈ toks, T.ty ≠ .eol ∧ (posAfter (p ++ u)).line ≤ T.end_.line) :
    Cover cls toks (p ++ pre) := by
  intro u x v e
  have e' : p ++ pre = (u ++ [x]) ++ v := by rw [e]; simp
  rcases List.append_eq_append_iff.mp e' with ⟨t, h1, h2⟩ | ⟨t, h1, h2⟩
  · -- u ++ [x] = p ++ t  and  pre = t ++ v
    cases ht : t.reverse with
    | nil =>
      have : t = [] := by simpa using ht
      subst this
      exact h u x [] (by simpa using h1.symm)
    | cons y ys =>
      have ht' : t = ys.reverse ++ [y] := by
        have := congrArg List.reverse ht; simpa using this
      rw [ht', ← List.append_assoc] at h1
      have hx : u = p ++ ys.reverse ∧ x = y := by
        have := List.append_inj' h1 rfl
        exact ⟨this.1, by simpa using this.2⟩
      obtain ⟨hu, hxy⟩ := hx
      subst hxy
      rw [hu]
      exact hpre ys.reverse x v (by rw [h2, ht']; simp)
  · -- p = (u ++ [x]) ++ t
    exact h u x t (by rw [h1]; simp)

theorem prefix_of_len_le {α : Type} {a b s : List α} (ha : a <+: s) (hb : b <+: s)
    (h : a.length ≤ b.length) : a <+: b := List.prefix_of_prefix_length_le ha hb h

theorem allTokensLoop_cover (cls : Cls) (ff : Bool) (src : List Rune) :
    ∀ (fuel : Nat) (c : Cur) (rest : List Rune) (toks : List Token) (errs : List LexErr)
      (out : List Token) (p0 : List Rune), src = p0 ++ rest → (rest ≠ [] → c.nxt = posAfter p0) →
      Cover cls toks p0 → allTokensLoop cls ff fuel c rest toks errs = .toks out →
      Cover cls out src := by
  intro fuel
  induction fuel with
  | zero => intro c rest toks errs out p0 _ _ _ h; unfold allTokensLoop at h; cases h
  | succ fuel ih =>
    intro c rest toks errs out p0 hsrc hnxt hcov h
    unfold allTokensLoop at h
    simp only [] at h
    cases hse : (nextToken cls c rest).err with
    | some e =>
      rw [hse] at h
      simp only [] at h
      split at h
      · cases h
      · split at h
        · cases h
        · exact (allTokensLoop_toks_no_errs cls ff _ _ _ _ _ _ h (by simp)).elim
    | none =>
      rw [hse] at h
      simp only [] at h
      obtain ⟨heol, heof⟩ := nextToken_eol_eof cls c rest hse
      obtain ⟨pre, a, b, e1, ab, bpre, ha, hcur, htok, _⟩ := nextToken_spec cls c rest
      split at h
      · -- EOF: only white space was left
        rename_i hty
        have hout : out = toks := by
          split at h <;> first | (cases h; rfl) | (cases h)
        obtain ⟨hall, _⟩ := heof hty
        rw [hout, hsrc]
        apply hcov.append
        intro u x v e
        exact Or.inl (Or.inl (hall x (by rw [e]; simp)).1)
      · rename_i hty
        have hsrc' : src = (p0 ++ pre) ++ (nextToken cls c rest).rest := by
          rw [hsrc]; conv => lhs; rw [e1]
          simp
        have hrest : rest ≠ [] := by
          intro e; subst e
          exact hty (nextToken_nil cls c).2
        have hnxt0 := hnxt hrest
        have hnxt' : (nextToken cls c rest).rest ≠ [] →
            (nextToken cls c rest).cur.nxt = posAfter (p0 ++ pre) := by
          intro hne
          rcases hcur with ⟨_, _, g3⟩ | ⟨g1, _, _⟩
          · rw [g3, advs_nxt, hnxt0, posAfter_append]
          · exact absurd g1 hne
        apply ih _ _ _ _ _ (p0 ++ pre) hsrc' hnxt' _ h
        apply (hcov.mono (fun t ht => by simp [ht])).append
        intro u x v e
        by_cases hE : (nextToken cls c rest).tok.ty = .eol
        · -- an EOL: skipped white space and the newline
          obtain ⟨ws, w1, w2⟩ := heol hE
          have : pre = ws ++ [cNL] := by
            have h3 : pre ++ (nextToken cls c rest).rest = (ws ++ [cNL]) ++ (nextToken cls c rest).rest := by
              rw [← e1, List.append_assoc]; exact w2
            exact List.append_cancel_right h3
          have hx : x ∈ ws ++ [cNL] := by rw [← this, e]; simp
          rcases List.mem_append.mp hx with h1 | h1
          · exact Or.inl (Or.inl (w1 x h1).1)
          · exact Or.inl (Or.inr (by simpa using h1))
        · by_cases hua : u.length < a.length
          · -- inside the skipped white space
            have hxa : x ∈ a := by
              have hap : a <+: pre := ab.trans bpre
              obtain ⟨t, ht⟩ := hap
              have : a ++ t = u ++ x :: v := by rw [ht, e]
              have h4 := List.append_eq_append_iff.mp this
              rcases h4 with ⟨t', g1, g2⟩ | ⟨t', g1, g2⟩
              · have : t'.length = 0 ∨ t'.length > 0 := by omega
                have hl := congrArg List.length g1
                simp at hl
                omega
              · cases t' with
                | nil => simp at g1; rw [g1] at hua; simp at hua
                | cons y ys =>
                  simp at g2
                  rw [g1, g2.1]; simp
            exact Or.inl (Or.inl (ha x hxa).1)
          · -- inside the token
            refine Or.inr ⟨(nextToken cls c rest).tok, by simp, hE, ?_⟩
            rw [(htok hse).2, hnxt0, posAfter_append]
            apply Pos.line_le_of_le
            apply posAfter_mono
            have hb : (p0 ++ b) <+: src := by
              rw [hsrc']
              obtain ⟨t, rfl⟩ := bpre
              exact ⟨t ++ (nextToken cls c rest).rest, by simp⟩
            have hu : (p0 ++ u) <+: src := by
              rw [hsrc', e]
              exact ⟨x :: v ++ (nextToken cls c rest).rest, by simp⟩
            apply prefix_of_len_le hu hb
            have hlen : pre.length = u.length + 1 + v.length := by rw [e]; simp; omega
            rcases hcur with ⟨_, g2, _⟩ | ⟨_, _, g3⟩
            · simp; omega
            · rw [g3]; simp; omega

theorem allTokens_cover (cls : Cls) (ff : Bool) (src : List Rune) (ts : List Token)
    (h : allTokens cls ff src = .toks ts) : Cover cls ts src :=
  allTokensLoop_cover cls ff src _ _ _ _ _ _ [] rfl (fun _ => rfl)
    (fun u x v e => by simp at e) h

end J5V.Bcl
