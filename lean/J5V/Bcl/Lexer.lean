import J5V.Bcl.Basic
/-!
# BCL lexer model (core only) — mirrors `/repo/internal/bcl/internal/parser/lexer.go`

Go keeps `(line, column, isEOL, offset, ch)` and `next()` moves them.  Here the input still to be
read is a list (`rest = data[offset:]`), `Cur.pos` is `getPosition()` (the position of `l.ch`) and
`Cur.nxt` is the position the next call of `next()` will assign: `(line+1, 0)` when `isEOL`, else
`(line, column+1)`.  Go starts with `column = -1`, i.e. `nxt = (0,0)`; `getPosition()` is never
called before the first `next()` (every entry point starts with `l.next()`).

Every loop of the Go lexer that reads with `next()`/`peek()` is a structural recursion over the
remaining input; only the token loop of `AllTokens` takes fuel (`len + 2`), and
`allTokens_fuel_enough` (LexerProofs) shows it is never exhausted.
-/
namespace J5V.Bcl

structure Cur where
  pos : Pos
  nxt : Pos
  deriving DecidableEq, Repr, Inhabited

/-- `NewLexer`: line 0, column -1 -/
def Cur.init : Cur := ⟨⟨0, 0⟩, ⟨0, 0⟩⟩

/-- `next()` reading rune `r` -/
def Cur.adv (c : Cur) (r : Rune) : Cur :=
  ⟨c.nxt, if r = cNL then ⟨c.nxt.line + 1, 0⟩ else ⟨c.nxt.line, c.nxt.col + 1⟩⟩

/-- `next()` at `offset >= len(data)`: `ch = EOF`, the column still moves -/
def Cur.advEOF (c : Cur) : Cur := ⟨c.nxt, ⟨c.nxt.line, c.nxt.col + 1⟩⟩

inductive LexErrKind where
  | unexpectedEOF | eolInString | eolInRegex | invalidEscape | secondDot | unexpectedChar
  deriving DecidableEq, Repr, Inhabited

/-- `l.errf(...)`: Start = End = current position -/
structure LexErr where
  pos : Pos
  kind : LexErrKind
  deriving DecidableEq, Repr, Inhabited

/-- result of one lexing routine: literal, lexer position state, remaining input, error -/
structure LitRes where
  lit : List Rune
  cur : Cur
  rest : List Rune
  err : Option LexErr := none
  deriving Repr

/-- `lexLineComment` after the second `/` was consumed: read up to (not including) `\n`/EOF -/
def lexLineLoop (c : Cur) (lit : List Rune) : List Rune → LitRes
  | [] => ⟨lit, c, [], none⟩
  | r :: rs => if r = cNL then ⟨lit, c, r :: rs, none⟩ else lexLineLoop (c.adv r) (lit ++ [r]) rs

/-- `lexLineComment`: `c` is at the first `/`, `rest` starts with the second `/` -/
def lexLineComment (c : Cur) : List Rune → LitRes
  | [] => ⟨[], c.advEOF, [], none⟩           -- not reached: caller peeked '/'
  | r :: rs => lexLineLoop (c.adv r) [] rs

/-- the loop of `lexBlockComment` -/
def lexBlockLoop (c : Cur) (txt : List Rune) : List Rune → LitRes
  | [] => ⟨txt, c.advEOF, [], none⟩          -- `l.ch == EOF`: unterminated comment is accepted
  | r :: rs =>
    if r = cSTAR ∧ rs.head? = some cSLASH then ⟨txt, (c.adv r).adv cSLASH, rs.drop 1, none⟩
    else lexBlockLoop (c.adv r) (txt ++ [r]) rs

def lexBlockComment (c : Cur) : List Rune → LitRes
  | [] => lexBlockLoop c.advEOF [] []         -- not reached: caller peeked '*'
  | r :: rs => lexBlockLoop (c.adv r) [] rs

/-- `lexString` (with `lexEscape` inlined): `c` is at the opening quote -/
def lexStringLoop (c : Cur) (lit : List Rune) : List Rune → LitRes
  | [] => ⟨[], c.advEOF, [], some ⟨c.advEOF.pos, .unexpectedEOF⟩⟩
  | r :: rs =>
    let c1 := c.adv r
    if r = cQUOTE then ⟨lit, c1, rs, none⟩
    else if r = cNL then ⟨[], c1, rs, some ⟨c1.pos, .eolInString⟩⟩
    else if r = cBSL then
      match rs with
      | [] => ⟨[], c1, [], some ⟨c1.pos, .invalidEscape⟩⟩
      | e :: rs2 =>
        if e = cBSL ∨ e = cNL ∨ e = cQUOTE then lexStringLoop (c1.adv e) (lit ++ [e]) rs2
        else ⟨[], c1, e :: rs2, some ⟨c1.pos, .invalidEscape⟩⟩
    else lexStringLoop c1 (lit ++ [r]) rs

/-- `lexRegex`: `c` is at the opening `/`; `//` is an escaped `/` -/
def lexRegexLoop (c : Cur) (lit : List Rune) : List Rune → LitRes
  | [] => ⟨[], c.advEOF, [], some ⟨c.advEOF.pos, .unexpectedEOF⟩⟩
  | r :: rs =>
    let c1 := c.adv r
    if r = cNL then ⟨[], c1, rs, some ⟨c1.pos, .eolInRegex⟩⟩
    else if r = cSLASH then
      match rs with
      | [] => ⟨lit, c1, [], none⟩
      | e :: rs2 =>
        if e = cSLASH then lexRegexLoop (c1.adv e) (lit ++ [cSLASH]) rs2
        else ⟨lit, c1, e :: rs2, none⟩
    else lexRegexLoop c1 (lit ++ [r]) rs

/-- `skipWhitespace`: spaces other than `\n` -/
def skipWhitespace (cls : Cls) (c : Cur) : List Rune → Cur × List Rune
  | [] => (c, [])
  | r :: rs =>
    if cls.isSpace r = true ∧ r ≠ cNL then skipWhitespace cls (c.adv r) rs else (c, r :: rs)

/-- `lexDescriptionLine`: `c` is at the `|` -/
def lexDescriptionLine (cls : Cls) (c : Cur) (rest : List Rune) : LitRes :=
  let (c1, rest1) := skipWhitespace cls c rest
  lexLineLoop c1 [] rest1

/-- the loop of `lexIdent` -/
def lexIdentLoop (cls : Cls) (c : Cur) (lit : List Rune) : List Rune → LitRes
  | [] => ⟨lit, c, [], none⟩
  | r :: rs =>
    if cls.isLetter r = true ∨ cls.isDigit r = true ∨ r = cUS then
      lexIdentLoop cls (c.adv r) (lit ++ [r]) rs
    else ⟨lit, c, r :: rs, none⟩

/-- result of `lexNumber`: the token (returned even with the error), state, error -/
structure NumRes where
  ty : TokenType
  lit : List Rune
  cur : Cur
  rest : List Rune
  err : Option LexErr
  deriving Repr

/-- the loop of `lexNumber` -/
def lexNumberLoop (cls : Cls) (c : Cur) (ty : TokenType) (lit : List Rune) (seenDot : Bool) :
    List Rune → NumRes
  | [] => ⟨ty, lit, c, [], none⟩
  | r :: rs =>
    if cls.isDigit r = true then lexNumberLoop cls (c.adv r) ty (lit ++ [r]) seenDot rs
    else if r = cDOT then
      if seenDot then ⟨ty, lit, c, r :: rs, some ⟨c.pos, .secondDot⟩⟩
      else lexNumberLoop cls (c.adv r) .decimal (lit ++ [cDOT]) true rs
    else ⟨ty, lit, c, r :: rs, none⟩

/-- result of `NextToken` -/
structure LexStep where
  tok : Token
  err : Option LexErr
  cur : Cur
  rest : List Rune
  deriving Repr

/-- `asKeyword`: the keyword table is empty (`keyword_beg+1 = keyword_end`). -/
def asKeyword (_lit : List Rune) : Option TokenType := none

def mkTok (ty : TokenType) (lit : List Rune) (s e : Pos) : Token := ⟨ty, lit, s, e⟩

def litStep (ty : TokenType) (startPos : Pos) (r : LitRes) : LexStep :=
  match r.err with
  | some e => ⟨Token.zero, some e, r.cur, r.rest⟩
  | none => ⟨mkTok ty r.lit startPos r.cur.pos, none, r.cur, r.rest⟩

/-- `NextToken` -/
def nextToken (cls : Cls) (c : Cur) : List Rune → LexStep
  | [] => let c1 := c.advEOF; ⟨mkTok .eof [] c1.pos c1.pos, none, c1, []⟩
  | r :: rs =>
    let c1 := c.adv r
    match operatorOf r with
    | some op => ⟨mkTok op [r] c1.pos c1.pos, none, c1, rs⟩
    | none =>
      if r = cSLASH then
        if rs.head? = some cSLASH then litStep .comment c1.pos (lexLineComment c1 rs)
        else if rs.head? = some cSTAR then litStep .blockComment c1.pos (lexBlockComment c1 rs)
        else litStep .regex c1.pos (lexRegexLoop c1 [] rs)
      else if r = cQUOTE then litStep .string c1.pos (lexStringLoop c1 [] rs)
      else if r = cPIPE then litStep .description c1.pos (lexDescriptionLine cls c1 rs)
      else if r = cNL then ⟨mkTok .eol [r] c1.pos c1.pos, none, c1, rs⟩
      else if cls.isSpace r = true then nextToken cls c1 rs
      else if cls.isDigit r = true then
        let n := lexNumberLoop cls c1 .int [r] false rs
        match n.err with
        | some e => ⟨mkTok n.ty n.lit c1.pos c1.pos, some e, n.cur, n.rest⟩
        | none => ⟨mkTok n.ty n.lit c1.pos n.cur.pos, none, n.cur, n.rest⟩
      else if cls.isLetter r = true then
        let i := lexIdentLoop cls c1 [r] rs
        match asKeyword i.lit with
        | some kw => ⟨mkTok kw [] c1.pos i.cur.pos, none, i.cur, i.rest⟩
        | none =>
          if i.lit = litTrue ∨ i.lit = litFalse then
            ⟨mkTok .bool i.lit c1.pos i.cur.pos, none, i.cur, i.rest⟩
          else ⟨mkTok .ident i.lit c1.pos i.cur.pos, none, i.cur, i.rest⟩
      else ⟨Token.zero, some ⟨c1.pos, .unexpectedChar⟩, c1, rs⟩

/-- what `AllTokens` returns: `(tokens, true)`, or `(nil, false)` with `l.Errors`. `nofuel` is the
model's "did not terminate"; `allTokens_fuel_enough` proves it is never produced. -/
inductive LexOut where
  | toks (ts : List Token)
  | errs (es : List LexErr)
  | nofuel
  deriving Repr

/-- `AllTokens(failFast)` -/
def allTokensLoop (cls : Cls) (failFast : Bool) :
    Nat → Cur → List Rune → List Token → List LexErr → LexOut
  | 0, _, _, _, _ => .nofuel
  | fuel + 1, c, rest, toks, errs =>
    let s := nextToken cls c rest
    match s.err with
    | some e =>
      if failFast then .errs (errs ++ [e])
      else if s.tok.ty = .eof then .errs (errs ++ [e])      -- not reached: error tokens are never EOF
      else allTokensLoop cls failFast fuel s.cur s.rest (toks ++ [s.tok]) (errs ++ [e])
    | none =>
      if s.tok.ty = .eof then (if errs.isEmpty then .toks toks else .errs errs)
      else allTokensLoop cls failFast fuel s.cur s.rest (toks ++ [s.tok]) errs

def allTokens (cls : Cls) (failFast : Bool) (src : List Rune) : LexOut :=
  allTokensLoop cls failFast (src.length + 2) Cur.init src [] []

end J5V.Bcl
