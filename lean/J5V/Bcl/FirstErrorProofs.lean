import J5V.Bcl.ParseFileProofs
/-!
# Collect-all mode reports the fail-fast diagnostic first (lemmas for `C11_first_error`)
-/
namespace J5V.Bcl

/-- the state after one `nextToken` from a clean state is again usable by `allTokensLoop_spec` -/
theorem nextToken_next_state (cls : Cls) (src p0 : List Rune) (c : Cur) (r : Rune) (rs : List Rune)
    (hsrc : src = p0 ++ r :: rs) (hnxt : c.nxt = posAfter p0) :
    (nextToken cls c (r :: rs)).rest.length < (r :: rs).length ∧
    ∃ p1, ((nextToken cls c (r :: rs)).rest ≠ [] →
      src = p1 ++ (nextToken cls c (r :: rs)).rest ∧
        (nextToken cls c (r :: rs)).cur.nxt = posAfter p1) := by
  obtain ⟨pre, a, b, e1, ab, bpre, _, hcur, htok, herr⟩ := nextToken_spec cls c (r :: rs)
  generalize nextToken cls c (r :: rs) = s at *
  constructor
  · rcases hcur with ⟨g1, _, _⟩ | ⟨g1, _⟩
    · have : (r :: rs).length = pre.length + s.rest.length := by rw [e1]; simp
      have : pre.length ≠ 0 := fun e => g1 (List.eq_nil_of_length_eq_zero e)
      omega
    · rw [g1]; simp
  · refine ⟨p0 ++ pre, ?_⟩
    intro hne
    rcases hcur with ⟨_, _, g3⟩ | ⟨g1, _⟩
    · refine ⟨by rw [hsrc, e1]; simp, ?_⟩
      rw [g3, advs_nxt, hnxt, posAfter_append]
    · exact absurd g1 hne

/-- agreement of the two lexing modes -/
def LexAgree : LexOut → LexOut → Prop
  | .toks a, .toks b => a = b
  | .errs a, .errs b => ∃ e more, a = [e] ∧ b = e :: more
  | _, _ => False

theorem allTokensLoop_agree (cls : Cls) (src : List Rune) :
    ∀ (fuel : Nat) (c : Cur) (rest : List Rune) (toks : List Token) (p0 : List Rune),
      rest.length < fuel → (rest ≠ [] → src = p0 ++ rest ∧ c.nxt = posAfter p0) →
      LexAgree (allTokensLoop cls true fuel c rest toks []) (allTokensLoop cls false fuel c rest toks [])
    := by
  intro fuel
  induction fuel with
  | zero => intro c rest toks p0 h; omega
  | succ fuel ih =>
    intro c rest toks p0 hfuel hclean
    cases rest with
    | nil =>
      unfold allTokensLoop
      obtain ⟨h1, h2⟩ := nextToken_nil cls c
      simp only [h1, h2, if_true, List.isEmpty_nil]
      exact rfl
    | cons r rs =>
      obtain ⟨hsrc, hnxt⟩ := hclean (by simp)
      obtain ⟨hlen, p1, hcl⟩ := nextToken_next_state cls src p0 c r rs hsrc hnxt
      have hlen' : (nextToken cls c (r :: rs)).rest.length < fuel := by
        simp at hfuel hlen ⊢; omega
      unfold allTokensLoop
      simp only []
      generalize nextToken cls c (r :: rs) = s at *
      cases hse : s.err with
      | some e =>
        simp only [if_true, Bool.false_eq_true, if_false, List.nil_append]
        by_cases hty : s.tok.ty = .eof
        · simp only [hty, if_true]
          exact ⟨e, [], rfl, rfl⟩
        · simp only [hty, if_false]
          have := allTokensLoop_spec cls false src fuel s.cur s.rest (toks ++ [s.tok]) [e] p1 hlen' hcl
          generalize allTokensLoop cls false fuel s.cur s.rest (toks ++ [s.tok]) [e] = res at this ⊢
          cases res with
          | toks out => exact absurd this.1 (by simp)
          | errs out =>
            obtain ⟨new, hn, _⟩ := this
            exact ⟨e, new, rfl, by simpa using hn⟩
          | nofuel => exact this
      | none =>
        simp only []
        by_cases hty : s.tok.ty = .eof
        · simp only [hty, if_true, List.isEmpty_nil]
          exact rfl
        · simp only [hty, if_false]
          exact ih s.cur s.rest (toks ++ [s.tok]) p1 hlen' hcl

theorem allTokens_agree (cls : Cls) (src : List Rune) :
    LexAgree (allTokens cls true src) (allTokens cls false src) := by
  unfold allTokens
  exact allTokensLoop_agree cls src _ _ _ _ [] (by omega) (fun _ => ⟨rfl, rfl⟩)


/-- agreement of the two walking modes -/
def WalkAgree : WalkOut → WalkOut → Prop
  | .done f1 e1, .done f0 e0 => f1 = f0 ∧ e1 = [] ∧ e0 = []
  | .hadErrors e1, .done _ e0 => ∃ d more, e1 = [d] ∧ e0 = d :: more
  | _, _ => False

theorem walkFragmentsLoop_agree (Q : Pos → Prop) (hQ0 : Q ⟨0, 0⟩) (pfuel : Nat) (fuel : Nat) :
    ∀ (w : W) (frags : List Fragment), (w.rest = [] ∨ WInv Q w) →
      w.rest.length < fuel → w.rest.length < pfuel → 2 * w.rest.length < pfuel →
      WalkAgree (walkFragmentsLoop true pfuel fuel w frags [])
        (walkFragmentsLoop false pfuel fuel w frags []) := by
  induction fuel with
  | zero => intro w frags _ h; omega
  | succ fuel ih =>
    intro w frags hw hf1 hf2 hf3
    unfold walkFragmentsLoop
    by_cases heof : w.nextType = .eof
    · simp only [heof, if_true]
      exact ⟨rfl, rfl, rfl⟩
    · simp only [heof, if_false]
      have hrest : w.rest ≠ [] := nextType_ne_eof_rest heof
      have hinv : WInv Q w := by
        rcases hw with h | h
        · exact absurd h hrest
        · exact h
      have hnf := nextFragment_spec Q hQ0 pfuel w heof hf2 hf3 hinv
      cases hres : nextFragment pfuel w with
      | panic s => rw [hres] at hnf; exact hnf.elim
      | ok r w1 =>
        rw [hres] at hnf
        obtain ⟨s1, hfr, hlt⟩ := hnf
        cases r with
        | none =>
          simp only []
          exact ih w1 frags (Or.inr s1.inv) (by omega) (by omega) (by omega)
        | some f =>
          simp only []
          exact ih w1 (frags ++ [f]) (Or.inr s1.inv) (by omega) (by omega) (by omega)
      | fail e w1 =>
        rw [hres] at hnf
        obtain ⟨s1, hetok⟩ := hnf
        simp only [if_true, Bool.false_eq_true, if_false, List.nil_append]
        have hsk := skipToEOL_spec Q w1.rest w1.prev s1.inv
        cases hskr : skipToEOL w1.prev w1.rest with
        | panic s => rw [hskr] at hsk; exact hsk.elim
        | fail e2 w2 => exact absurd hskr (skipToEOL_no_fail _ _ _ _)
        | ok u w2 =>
          rw [hskr] at hsk
          obtain ⟨s2, hsk1, hsk2⟩ := hsk
          simp only []
          have hs2len : w2.rest.length ≤ w1.rest.length := s2.len
          have hlen2 : w2.rest.length < fuel := by
            by_cases h1 : w1.rest = []
            · rw [hsk2 h1]
              have : w.rest.length ≠ 0 := fun e => hrest (List.eq_nil_of_length_eq_zero e)
              simp; omega
            · have := hsk1 h1; have := s1.len; omega
          have hlen2' : w2.rest.length ≤ w.rest.length := by
            have := s1.len; omega
          have := walkFragmentsLoop_spec Q hQ0 false pfuel fuel w2 frags [e.diag] (Or.inr s2.inv)
            hlen2 (by omega) (by omega)
          generalize walkFragmentsLoop false pfuel fuel w2 frags [e.diag] = res at this ⊢
          cases res with
          | done f' e' =>
            obtain ⟨_, ⟨newe, h3, _, _⟩⟩ := this
            exact ⟨e.diag, newe, rfl, by simpa using h3⟩
          | hadErrors e' => exact absurd this.1 (by simp)
          | panic s => exact this.elim

/-- agreement of the two parse modes: same tree, or errors with the same first diagnostic -/
def ParseAgree : ParseOut → ParseOut → Prop
  | .tree f1, .tree f0 => f1.body = f0.body ∧ f1.errors = f0.errors
  | .errors e1, .errors e0 => e1 ≠ [] ∧ e0.head? = e1.head?
  | _, _ => False

theorem walk_agree (Q : Pos → Prop) (hQ0 : Q ⟨0, 0⟩) (tokens : List Token) (h : TokensOK Q tokens) :
    ParseAgree (walk true tokens) (walk false tokens) := by
  unfold walk walkFragments
  have hw : (⟨none, tokens⟩ : W).rest = [] ∨ WInv Q ⟨none, tokens⟩ := by
    cases tokens with
    | nil => exact Or.inl rfl
    | cons t ts => exact Or.inr (WInv.init Q hQ0 h (by simp))
  have := walkFragmentsLoop_agree Q hQ0 (2 * tokens.length + 2) (tokens.length + 1)
    ⟨none, tokens⟩ [] hw (by simp) (by simp; omega) (by simp)
  generalize walkFragmentsLoop true (2 * tokens.length + 2) (tokens.length + 1) ⟨none, tokens⟩ [] [] = r1
    at this ⊢
  generalize walkFragmentsLoop false (2 * tokens.length + 2) (tokens.length + 1) ⟨none, tokens⟩ [] [] = r0
    at this ⊢
  cases r1 with
  | done f1 e1 =>
    cases r0 with
    | done f0 e0 =>
      obtain ⟨rfl, rfl, rfl⟩ := this
      simp only []
      rw [if_neg (by simp)]
      by_cases hne : (fragmentsToFile f1).errors ≠ []
      · rw [if_pos hne]; exact ⟨hne, rfl⟩
      · rw [if_neg hne]; exact ⟨rfl, rfl⟩
    | hadErrors e0 => exact this.elim
    | panic s => exact this.elim
  | hadErrors e1 =>
    cases r0 with
    | done f0 e0 =>
      obtain ⟨d, more, rfl, rfl⟩ := this
      simp only []
      rw [if_pos (by simp)]
      exact ⟨by simp, rfl⟩
    | hadErrors e0 => exact this.elim
    | panic s => exact this.elim
  | panic s => exact this.elim

theorem parseFile_agree (cls : Cls) (src : List Rune) :
    ParseAgree (parseFile cls src true) (parseFile cls src false) := by
  unfold parseFile
  have ha := allTokens_agree cls src
  have h1 := allTokens_spec cls true src
  cases hr1 : allTokens cls true src with
  | nofuel => rw [hr1] at h1; exact h1.elim
  | errs es1 =>
    rw [hr1] at ha
    cases hr0 : allTokens cls false src with
    | errs es0 =>
      rw [hr0] at ha
      obtain ⟨e, more, rfl, rfl⟩ := ha
      exact ⟨by simp, rfl⟩
    | toks t0 => rw [hr0] at ha; exact ha.elim
    | nofuel => rw [hr0] at ha; exact ha.elim
  | toks t1 =>
    rw [hr1] at ha h1
    cases hr0 : allTokens cls false src with
    | errs es0 => rw [hr0] at ha; exact ha.elim
    | toks t0 =>
      rw [hr0] at ha
      have : t1 = t0 := ha
      subst this
      exact walk_agree (InFile src) (inFile_zero src) t1 (tokensOK_of_chain (InFile src) (fun _ h => h) h1)
    | nofuel => rw [hr0] at ha; exact ha.elim

end J5V.Bcl
