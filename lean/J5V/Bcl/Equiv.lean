import J5V.Bcl.Fmt
import J5V.Bcl.DescProofs
/-!
# Position-free view of tokens, fragments and trees (definitions for C09)

`erase` sets every position of a node to `0:0` and keeps everything else (types, literals, marks,
nesting, values, comments).  Two trees denote the same document when their erasures are equal —
except that stand-alone descriptions (`Statement.desc` / `Fragment.desc`, the ones the formatter
re-flows) are compared as word / paragraph-break sequences (`DescEquiv`).
-/
namespace J5V.Bcl

def Span.zero : Span := ⟨⟨0, 0⟩, ⟨0, 0⟩⟩

def Token.erase (t : Token) : Token := ⟨t.ty, t.lit, ⟨0, 0⟩, ⟨0, 0⟩⟩

def Ident.erase (i : Ident) : Ident := ⟨i.token.erase, i.value, Span.zero⟩

def Reference.erase (r : Reference) : Reference := ⟨r.idents.map Ident.erase, Span.zero⟩

mutual
def Value.erase : Value → Value
  | .scalar tok _ => .scalar tok.erase Span.zero
  | .array vs _ => .array (Value.eraseList vs) Span.zero
def Value.eraseList : List Value → List Value
  | [] => []
  | v :: vs => v.erase :: Value.eraseList vs
end

def TagValue.erase (t : TagValue) : TagValue :=
  ⟨t.mark, t.markToken.erase, t.reference.map Reference.erase, t.value.map Value.erase, Span.zero⟩

def Description.erase (d : Description) : Description :=
  ⟨d.tokens.map Token.erase, d.value, Span.zero⟩

def CommentNode.erase (c : CommentNode) : CommentNode := ⟨c.value, Span.zero⟩

def SourceNode.erase (s : SourceNode) : SourceNode :=
  ⟨⟨0, 0⟩, ⟨0, 0⟩, s.comment.map CommentNode.erase⟩

def BlockHeader.erase (h : BlockHeader) : BlockHeader :=
  ⟨h.type.erase, h.tags.map TagValue.erase, h.qualifiers.map TagValue.erase,
    h.description.map Description.erase, h.isOpen, h.src.erase⟩

def Assignment.erase (a : Assignment) : Assignment :=
  ⟨a.key.erase, a.value.erase, a.append, a.src.erase⟩

def CloseBlock.erase (c : CloseBlock) : CloseBlock := ⟨c.token.erase, Span.zero⟩

def Comment.erase (c : Comment) : Comment := ⟨c.token.erase, c.value, Span.zero⟩

def Fragment.erase : Fragment → Fragment
  | .header h => .header h.erase
  | .assign a => .assign a.erase
  | .desc d => .desc d.erase
  | .comment c => .comment c.erase
  | .close c => .close c.erase

mutual
def Statement.erase : Statement → Statement
  | .block h body => .block h.erase (Statement.eraseList body)
  | .assign a => .assign a.erase
  | .desc d => .desc d.erase
def Statement.eraseList : List Statement → List Statement
  | [] => []
  | s :: ss => s.erase :: Statement.eraseList ss
end

def Diag.erase (d : Diag) : Diag := ⟨⟨0, 0⟩, ⟨0, 0⟩, d.kind⟩

def File.erase (f : File) : File := ⟨Statement.eraseList f.body, f.errors.map Diag.erase⟩

/-! walker state and results -/

def W.erase (w : W) : W := ⟨w.prev.map Token.erase, w.rest.map Token.erase⟩

def UnexpErr.erase (e : UnexpErr) : UnexpErr := ⟨e.tok.erase, e.expected⟩

def WR.erase {α : Type} (g : α → α) : WR α → WR α
  | .ok a w => .ok (g a) w.erase
  | .fail e w => .fail e.erase w.erase
  | .panic s => .panic s

def WalkOut.erase : WalkOut → WalkOut
  | .done frags errors => .done (frags.map Fragment.erase) (errors.map Diag.erase)
  | .hadErrors errors => .hadErrors (errors.map Diag.erase)
  | .panic s => .panic s

def ParseOut.erase : ParseOut → ParseOut
  | .tree f => .tree f.erase
  | .errors es => .errors (es.map Diag.erase)
  | .panic s => .panic s

/-! ## "Denotes the same document" -/

/-- descriptions with the same words and paragraph breaks -/
def DescEquiv (cls : Cls) (d e : Description) : Prop :=
  canon (itemsOf cls (splitOn cNL d.value)) = canon (itemsOf cls (splitOn cNL e.value))

/-- fragments equal up to positions; stand-alone descriptions up to re-flowing -/
def Fragment.equiv (cls : Cls) : Fragment → Fragment → Prop
  | .desc d, .desc e => DescEquiv cls d e
  | .header h, .header k => h.erase = k.erase
  | .assign a, .assign b => a.erase = b.erase
  | .comment c, .comment d => c.erase = d.erase
  | .close c, .close d => c.erase = d.erase
  | _, _ => False

def Fragment.equivList (cls : Cls) : List Fragment → List Fragment → Prop
  | [], [] => True
  | f :: fs, g :: gs => Fragment.equiv cls f g ∧ Fragment.equivList cls fs gs
  | _, _ => False

mutual
/-- statements (recursively, with their bodies) equal up to positions; stand-alone descriptions
up to re-flowing -/
def Statement.equiv (cls : Cls) : Statement → Statement → Prop
  | .block h b, .block k c => h.erase = k.erase ∧ Statement.equivList cls b c
  | .assign a, .assign b => a.erase = b.erase
  | .desc d, .desc e => DescEquiv cls d e
  | _, _ => False
def Statement.equivList (cls : Cls) : List Statement → List Statement → Prop
  | [], [] => True
  | s :: ss, t :: ts => Statement.equiv cls s t ∧ Statement.equivList cls ss ts
  | _, _ => False
end

/-- files denoting the same document -/
def File.equiv (cls : Cls) (f g : File) : Prop := Statement.equivList cls f.body g.body

end J5V.Bcl
