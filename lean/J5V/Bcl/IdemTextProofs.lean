import J5V.Bcl.PreserveProofs
import J5V.Bcl.FmtDiffProofs
/-!
# The text the formatter prints does not depend on positions (lemmas for C09, idempotence)

* `fmtFragment_erase`: the printed text and the new indent of a fragment are those of its erasure;
* `fmtFragment_of_norm`: a fragment whose erasure is the normal form of `f` prints the same text as
  `f` at the same indent (re-flowing a re-flowed description prints the same lines:
  `reformat_stable`);
* `fmtFragment_lines` (in `FmtDiffProofs`, imported here): the line range of a fragment's edit;
* `fmtJoin_congr`: `fmtJoin` depends on the texts and on the gap decisions (`gapsOf`) only.
-/
namespace J5V.Bcl

/-! ## tokens -/

theorem tokenSource_erase (t : Token) : tokenSource t.erase = tokenSource t := rfl

theorem newToken_erase (ty : TokenType) (lit : List Rune) : (newToken ty lit).erase = newToken ty lit :=
  rfl

theorem Token.zero_erase : Token.zero.erase = Token.zero := rfl

theorem flatMap_tokenSource_erase (ps : List Token) :
    (ps.map Token.erase).flatMap tokenSource = ps.flatMap tokenSource := by
  induction ps with
  | nil => rfl
  | cons p ps ih => simp only [List.map_cons, List.flatMap_cons, ih, tokenSource_erase]

theorem dotIdents_erase (is : List Ident) :
    (is.map Ident.erase).flatMap (fun p => [newToken .dot [cDOT], p.token]) =
      (is.flatMap fun p => [newToken .dot [cDOT], p.token]).map Token.erase := by
  induction is with
  | nil => rfl
  | cons p ps ih =>
    simp only [List.map_cons, List.flatMap_cons, List.map_append, ih]
    rfl

theorem referenceTokens_erase (r : Reference) :
    referenceTokens r.erase = (referenceTokens r).map Token.erase := by
  obtain ⟨ids, sp⟩ := r
  cases ids with
  | nil => rfl
  | cons i is =>
    show i.erase.token :: (is.map Ident.erase).flatMap (fun p => [newToken .dot [cDOT], p.token]) =
      (i.token :: is.flatMap fun p => [newToken .dot [cDOT], p.token]).map Token.erase
    rw [dotIdents_erase]
    rfl

mutual
theorem valueTokens_erase : ∀ v : Value, valueTokens v.erase = (valueTokens v).map Token.erase
  | .scalar tok _ => by simp only [Value.erase, valueTokens, List.map_cons, List.map_nil]
  | .array vs _ => by
    simp only [Value.erase, valueTokens, List.map_append, valueListTokens_erase true vs]
    rfl
theorem valueListTokens_erase (first : Bool) : ∀ vs : List Value,
    valueListTokens first (Value.eraseList vs) = (valueListTokens first vs).map Token.erase
  | [] => by simp only [Value.eraseList, valueListTokens, List.map_nil]
  | v :: vs => by
    simp only [Value.eraseList, valueListTokens, List.map_append, valueTokens_erase v,
      valueListTokens_erase false vs]
    cases first <;> rfl
end

theorem tagTokens_erase (t : TagValue) : tagTokens t.erase = (tagTokens t).map Token.erase := by
  obtain ⟨mark, mt, ref, val, sp⟩ := t
  simp only [TagValue.erase, tagTokens, List.map_append]
  congr 1
  · congr 1
    · cases mark <;> rfl
    · cases val with
      | none => rfl
      | some v =>
        cases v with
        | scalar tok s => simp only [Option.map_some, Value.erase, List.map_cons, List.map_nil]
        | array vs s =>
          simp only [Option.map_some, Value.erase, List.map_cons, List.map_nil, Token.zero_erase]
  · cases ref with
    | none => rfl
    | some r => simp only [Option.map_some, referenceTokens_erase]

theorem tagsFlat_erase (sep : Token) (hsep : sep.erase = sep) (ts : List TagValue) :
    (ts.map TagValue.erase).flatMap (fun t => sep :: tagTokens t) =
      (ts.flatMap fun t => sep :: tagTokens t).map Token.erase := by
  induction ts with
  | nil => rfl
  | cons t ts ih =>
    simp only [List.map_cons, List.flatMap_cons, List.map_append, ih, tagTokens_erase, hsep,
      List.cons_append]

theorem headerTokens_erase (h : BlockHeader) :
    headerTokens h.erase = (headerTokens h).map Token.erase := by
  obtain ⟨ty, tags, quals, desc, isOpen, src⟩ := h
  simp only [BlockHeader.erase, headerTokens, List.map_append, referenceTokens_erase,
    tagsFlat_erase _ (newToken_erase _ _)]
  congr 1
  · congr 1
    cases isOpen <;> rfl
  · cases desc with
    | none => rfl
    | some d => rfl

theorem assignTokens_erase (a : Assignment) :
    assignTokens a.erase = (assignTokens a).map Token.erase := by
  obtain ⟨key, value, app, src⟩ := a
  simp only [Assignment.erase, assignTokens, List.map_append, referenceTokens_erase,
    valueTokens_erase]
  congr 2
  cases app <;> rfl

theorem inlineComment_erase (cm : Option CommentNode) :
    inlineComment (cm.map CommentNode.erase) = inlineComment cm := by
  cases cm <;> rfl

/-! ## one fragment -/

/-- the printed text and the new indent of a fragment do not depend on its positions -/
theorem fmtFragment_erase (cls : Cls) (indent : Nat) (f : Fragment) :
    (fmtFragment cls indent f.erase).1.newText = (fmtFragment cls indent f).1.newText ∧
      (fmtFragment cls indent f.erase).2 = (fmtFragment cls indent f).2 := by
  cases f with
  | header h =>
    refine ⟨?_, rfl⟩
    show tabs indent ++ ((headerTokens h.erase).flatMap tokenSource ++
        inlineComment (h.src.comment.map CommentNode.erase)) ++ [cNL] =
      tabs indent ++ ((headerTokens h).flatMap tokenSource ++ inlineComment h.src.comment) ++ [cNL]
    rw [headerTokens_erase, flatMap_tokenSource_erase, inlineComment_erase]
  | assign a =>
    refine ⟨?_, rfl⟩
    show tabs indent ++ ((assignTokens a.erase).flatMap tokenSource ++
        inlineComment (a.src.comment.map CommentNode.erase)) ++ [cNL] =
      tabs indent ++ ((assignTokens a).flatMap tokenSource ++ inlineComment a.src.comment) ++ [cNL]
    rw [assignTokens_erase, flatMap_tokenSource_erase, inlineComment_erase]
  | desc d => exact ⟨rfl, rfl⟩
  | comment c => exact ⟨rfl, rfl⟩
  | close c => exact ⟨rfl, rfl⟩

/-- the lines printed for a description whose text is the re-flowed text of `d` are the lines of `d` -/
theorem descLines_of_joined (cls : Cls) (hsp : cls.isSpace cSP = true) (indent : Nat)
    (d' d : Description) (hv : d'.value = joinWith [cNL] (descLines cls indent d)) :
    descLines cls indent d' = descLines cls indent d := by
  have hr : reformatDescription cls d'.value (80 - (indent : Int) * 4) =
      reformatDescription cls d.value (80 - (indent : Int) * 4) := by
    rw [hv, joinWith_descLines]
    exact reformat_stable cls hsp d.value _
  unfold descLines
  simp only [hr]

/-- a fragment whose erasure is the normal form of `f` prints the same text as `f` -/
theorem fmtFragment_of_norm (cls : Cls) (hsp : cls.isSpace cSP = true) (indent : Nat)
    (f' f : Fragment) (h : f'.erase = normFrag cls indent f) :
    (fmtFragment cls indent f').1.newText = (fmtFragment cls indent f).1.newText ∧
      (fmtFragment cls indent f').2 = (fmtFragment cls indent f).2 := by
  have plain : f'.erase = f.erase →
      (fmtFragment cls indent f').1.newText = (fmtFragment cls indent f).1.newText ∧
        (fmtFragment cls indent f').2 = (fmtFragment cls indent f).2 := by
    intro he
    have h1 := fmtFragment_erase cls indent f'
    have h2 := fmtFragment_erase cls indent f
    rw [he] at h1
    exact ⟨h1.1.symm.trans h2.1, h1.2.symm.trans h2.2⟩
  cases f with
  | desc d =>
    cases f' with
    | desc d' =>
      simp only [normFrag, Fragment.erase, Fragment.desc.injEq, Description.erase] at h
      have hv : d'.value = joinWith [cNL] (descLines cls indent d) := by
        have := congrArg Description.value h
        simpa using this
      have hl := descLines_of_joined cls hsp indent d' d hv
      refine ⟨?_, rfl⟩
      show (multiLineFrag indent d'.span [cPIPE, cSP] (descLines cls indent d')).newText =
        (multiLineFrag indent d.span [cPIPE, cSP] (descLines cls indent d)).newText
      rw [hl]
      rfl
    | header _ => simp [normFrag, Fragment.erase] at h
    | assign _ => simp [normFrag, Fragment.erase] at h
    | comment _ => simp [normFrag, Fragment.erase] at h
    | close _ => simp [normFrag, Fragment.erase] at h
  | header k => exact plain h
  | assign b => exact plain h
  | comment c => exact plain h
  | close c => exact plain h

/-! ## the whole file -/

/-- the blank-line decisions of `Fmt` on a list of fragments -/
def gapsOf : Option Nat → List Fragment → List Bool
  | _, [] => []
  | lastEnd, f :: fs =>
    gapBefore lastEnd f.src.start.line :: gapsOf (some (f.src.end_.line + 1)) fs

/-- `fmtJoin` depends on the printed texts and on the gap decisions only -/
theorem fmtJoin_congr (cls : Cls) : ∀ (fs' fs : List Fragment) (indent : Nat) (le' le : Option Nat),
    (normShape : fs'.map Fragment.erase = normFrags cls indent fs) → cls.isSpace cSP = true →
    gapsOf le' fs' = gapsOf le fs →
    fmtJoin (diffFile cls indent fs') le' = fmtJoin (diffFile cls indent fs) le := by
  intro fs' fs
  induction fs generalizing fs' with
  | nil =>
    intro indent le' le h _ _
    cases fs' with
    | nil => rfl
    | cons a as => simp [normFrags] at h
  | cons f fs ih =>
    intro indent le' le h hsp hg
    cases fs' with
    | nil => simp [normFrags] at h
    | cons f' fs' =>
      simp only [normFrags, List.map_cons, List.cons.injEq] at h
      simp only [gapsOf, List.cons.injEq] at hg
      obtain ⟨ht, hi⟩ := fmtFragment_of_norm cls hsp indent f' f h.1
      obtain ⟨l1, l2⟩ := fmtFragment_lines cls indent f
      obtain ⟨l1', l2'⟩ := fmtFragment_lines cls indent f'
      rw [diffFile_cons, diffFile_cons, fmtJoin_cons, fmtJoin_cons, ht, hi, l1, l2, l1', l2', hg.1,
        ih fs' (fmtFragment cls indent f).2 _ _ h.2 hsp hg.2]

end J5V.Bcl
