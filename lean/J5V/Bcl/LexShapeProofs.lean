import J5V.Bcl.FmtProofs
/-!
# The literals the lexer produces have the shapes `tokenSource` is inverted on
(so the hypotheses of the `C09_token_inv_*` theorems are met by every lexed token)
-/
namespace J5V.Bcl

/-- shape of a token's literal, by kind -/
def TokLitWF (cls : Cls) (t : Token) : Prop :=
  match t.ty with
  | .regex => RegexLitWF t.lit
  | .comment => ∀ r ∈ t.lit, r ≠ cNL
  | .blockComment => NoCloser t.lit
  | .description => (∀ r ∈ t.lit, r ≠ cNL) ∧ (∀ r, t.lit.head? = some r → cls.isSpace r = false)
  | .ident => IdentLitWF cls t.lit ∧ ¬ (t.lit = litTrue ∨ t.lit = litFalse)
  | .bool => IdentLitWF cls t.lit ∧ (t.lit = litTrue ∨ t.lit = litFalse)
  | .int => ∃ r ds, t.lit = r :: ds ∧ DigitHead cls r ∧ ∀ x ∈ ds, cls.isDigit x = true
  | .decimal => ∃ r ds fs, t.lit = r :: ds ++ cDOT :: fs ∧ DigitHead cls r ∧
      (∀ x ∈ ds, cls.isDigit x = true) ∧ (∀ x ∈ fs, cls.isDigit x = true) ∧ cls.isDigit cDOT = false
  | .eol => t.lit = [cNL]
  | .assign | .lbrace | .rbrace | .lbrack | .rbrack | .dot | .comma | .colon | .plus | .bang
  | .question => ∃ r, operatorOf r = some t.ty ∧ t.lit = [r]
  | _ => True

theorem lexLineLoop_lit (c : Cur) (acc rest : List Rune) :
    ∃ body, (lexLineLoop c acc rest).lit = acc ++ body ∧ ∀ r ∈ body, r ≠ cNL := by
  induction rest generalizing c acc with
  | nil => exact ⟨[], by simp [lexLineLoop], fun r h => by cases h⟩
  | cons r rs ih =>
    unfold lexLineLoop
    split
    · exact ⟨[], by simp, fun r h => by cases h⟩
    · rename_i hr
      obtain ⟨body, h1, h2⟩ := ih (c.adv r) (acc ++ [r])
      refine ⟨r :: body, by rw [h1]; simp, ?_⟩
      intro x hx
      rcases List.mem_cons.mp hx with rfl | hx
      · exact hr
      · exact h2 x hx

theorem NoCloser_cons {a : Rune} {l : List Rune} (h1 : ¬ (a = cSTAR ∧ l.head? = some cSLASH))
    (h2 : NoCloser l) : NoCloser (a :: l) := by
  cases l with
  | nil => trivial
  | cons b rest => exact ⟨by simpa using h1, h2⟩

theorem lexBlockLoop_lit (c : Cur) (acc rest : List Rune) :
    ∃ body, (lexBlockLoop c acc rest).lit = acc ++ body ∧ NoCloser body ∧
      (∀ r, body.head? = some r → rest.head? = some r) := by
  induction rest generalizing c acc with
  | nil => exact ⟨[], by simp [lexBlockLoop], trivial, fun r h => by cases h⟩
  | cons r rs ih =>
    unfold lexBlockLoop
    split
    · exact ⟨[], by simp, trivial, fun r h => by cases h⟩
    · rename_i hr
      obtain ⟨body, h1, h2, h3⟩ := ih (c.adv r) (acc ++ [r])
      refine ⟨r :: body, by rw [h1]; simp, ?_, fun x hx => by simpa using hx⟩
      apply NoCloser_cons _ h2
      intro ⟨e1, e2⟩
      exact hr ⟨e1, h3 _ e2⟩

theorem lexRegexLoop_lit_aux (n : Nat) : ∀ (c : Cur) (acc rest : List Rune), rest.length ≤ n →
    (lexRegexLoop c acc rest).err = none →
    ∃ body, (lexRegexLoop c acc rest).lit = acc ++ body ∧ (∀ r ∈ body, r ≠ cNL) := by
  induction n with
  | zero =>
    intro c acc rest h he
    have : rest = [] := List.eq_nil_of_length_eq_zero (Nat.le_zero.mp h)
    subst this
    unfold lexRegexLoop at he
    cases he
  | succ n ih =>
    intro c acc rest h he
    cases rest with
    | nil => unfold lexRegexLoop at he; cases he
    | cons r rs =>
      have hrs : rs.length ≤ n := by simpa using h
      unfold lexRegexLoop at he ⊢
      simp only [] at he ⊢
      split
      · rename_i hr; rw [if_pos hr] at he; cases he
      · rename_i hr
        rw [if_neg hr] at he
        split
        · rename_i hs
          rw [if_pos hs] at he
          split
          · exact ⟨[], by simp, fun r h => by cases h⟩
          · rename_i e rs2
            have hrs2 : rs2.length ≤ n := by simp at hrs; omega
            simp only [] at he
            split
            · rename_i hes
              rw [if_pos hes] at he
              obtain ⟨body, h1, h2⟩ := ih _ _ rs2 hrs2 he
              refine ⟨cSLASH :: body, by rw [h1]; simp, ?_⟩
              intro x hx
              rcases List.mem_cons.mp hx with rfl | hx
              · decide
              · exact h2 x hx
            · exact ⟨[], by simp, fun r h => by cases h⟩
        · rename_i hs
          rw [if_neg hs] at he
          obtain ⟨body, h1, h2⟩ := ih _ _ rs hrs he
          refine ⟨r :: body, by rw [h1]; simp, ?_⟩
          intro x hx
          rcases List.mem_cons.mp hx with rfl | hx
          · exact hr
          · exact h2 x hx

theorem lexRegexLoop_lit (c : Cur) (acc rest : List Rune) (he : (lexRegexLoop c acc rest).err = none) :
    ∃ body, (lexRegexLoop c acc rest).lit = acc ++ body ∧ (∀ r ∈ body, r ≠ cNL) :=
  lexRegexLoop_lit_aux rest.length c acc rest (Nat.le_refl _) he

/-- a regex read after `/` whose next rune is neither `/` nor `*` starts with that rune -/
theorem lexRegex_wf (c : Cur) (rest : List Rune) (h1 : rest.head? ≠ some cSLASH)
    (h2 : rest.head? ≠ some cSTAR) (he : (lexRegexLoop c [] rest).err = none) :
    RegexLitWF (lexRegexLoop c [] rest).lit := by
  cases rest with
  | nil => unfold lexRegexLoop at he; cases he
  | cons r rs =>
    have hr1 : r ≠ cSLASH := by simpa using h1
    have hr2 : r ≠ cSTAR := by simpa using h2
    unfold lexRegexLoop at he ⊢
    simp only [] at he ⊢
    by_cases hnl : r = cNL
    · rw [if_pos hnl] at he; cases he
    · rw [if_neg hnl, if_neg hr1] at he ⊢
      obtain ⟨body, hb1, hb2⟩ := lexRegexLoop_lit _ _ _ he
      rw [hb1]
      refine ⟨⟨r, body, by simp, hr1, hr2⟩, ?_⟩
      intro x hx
      simp at hx
      rcases hx with rfl | hx
      · exact hnl
      · exact hb2 x hx

theorem skipWhitespace_head (cls : Cls) (c : Cur) (rest : List Rune) :
    ∀ r, (skipWhitespace cls c rest).2.head? = some r → ¬ (cls.isSpace r = true ∧ r ≠ cNL) := by
  induction rest generalizing c with
  | nil => intro r h; simp [skipWhitespace] at h
  | cons x rs ih =>
    unfold skipWhitespace
    split
    · exact ih _
    · rename_i hx
      intro r h
      simp at h
      subst h
      exact hx

theorem lexLineLoop_head (c : Cur) (rest : List Rune) :
    ∀ r, (lexLineLoop c [] rest).lit.head? = some r → rest.head? = some r ∧ r ≠ cNL := by
  intro r h
  cases rest with
  | nil => simp [lexLineLoop] at h
  | cons x rs =>
    unfold lexLineLoop at h
    split at h
    · simp at h
    · rename_i hx
      obtain ⟨body, hb, _⟩ := lexLineLoop_lit (c.adv x) ([] ++ [x]) rs
      rw [hb] at h
      simp at h
      subst h
      exact ⟨rfl, hx⟩

theorem lexIdentLoop_lit (cls : Cls) (c : Cur) (acc rest : List Rune) :
    ∃ body, (lexIdentLoop cls c acc rest).lit = acc ++ body ∧
      ∀ r ∈ body, cls.isLetter r = true ∨ cls.isDigit r = true ∨ r = cUS := by
  induction rest generalizing c acc with
  | nil => exact ⟨[], by simp [lexIdentLoop], fun r h => by cases h⟩
  | cons r rs ih =>
    unfold lexIdentLoop
    split
    · rename_i hr
      obtain ⟨body, h1, h2⟩ := ih (c.adv r) (acc ++ [r])
      refine ⟨r :: body, by rw [h1]; simp, ?_⟩
      intro x hx
      rcases List.mem_cons.mp hx with rfl | hx
      · exact hr
      · exact h2 x hx
    · exact ⟨[], by simp, fun r h => by cases h⟩

/-- shape of the number loop's result -/
theorem lexNumberLoop_lit (cls : Cls) (c : Cur) (acc rest : List Rune) :
    ∀ (sd : Bool) (ty : TokenType), (lexNumberLoop cls c ty acc sd rest).err = none →
    (sd = false →
      (∃ ds, (lexNumberLoop cls c ty acc sd rest).ty = ty ∧
        (lexNumberLoop cls c ty acc sd rest).lit = acc ++ ds ∧ ∀ x ∈ ds, cls.isDigit x = true) ∨
      (∃ ds fs, (lexNumberLoop cls c ty acc sd rest).ty = .decimal ∧
        (lexNumberLoop cls c ty acc sd rest).lit = acc ++ ds ++ cDOT :: fs ∧
        (∀ x ∈ ds, cls.isDigit x = true) ∧ (∀ x ∈ fs, cls.isDigit x = true) ∧
        cls.isDigit cDOT = false)) ∧
    (sd = true →
      ∃ fs, (lexNumberLoop cls c ty acc sd rest).ty = ty ∧
        (lexNumberLoop cls c ty acc sd rest).lit = acc ++ fs ∧ ∀ x ∈ fs, cls.isDigit x = true) := by
  induction rest generalizing c acc with
  | nil =>
    intro sd ty _
    exact ⟨fun _ => Or.inl ⟨[], rfl, by simp [lexNumberLoop], fun x h => by cases h⟩,
      fun _ => ⟨[], rfl, by simp [lexNumberLoop], fun x h => by cases h⟩⟩
  | cons r rs ih =>
    intro sd ty he
    unfold lexNumberLoop at he ⊢
    by_cases hd : cls.isDigit r = true
    · rw [if_pos hd] at he ⊢
      obtain ⟨i1, i2⟩ := ih (c.adv r) (acc ++ [r]) sd ty he
      constructor
      · intro hs
        rcases i1 hs with ⟨ds, e1, e2, e3⟩ | ⟨ds, fs, e1, e2, e3, e4, e5⟩
        · refine Or.inl ⟨r :: ds, e1, by rw [e2]; simp, ?_⟩
          intro x hx
          rcases List.mem_cons.mp hx with rfl | hx
          · exact hd
          · exact e3 x hx
        · refine Or.inr ⟨r :: ds, fs, e1, by rw [e2]; simp, ?_, e4, e5⟩
          intro x hx
          rcases List.mem_cons.mp hx with rfl | hx
          · exact hd
          · exact e3 x hx
      · intro hs
        obtain ⟨fs, e1, e2, e3⟩ := i2 hs
        refine ⟨r :: fs, e1, by rw [e2]; simp, ?_⟩
        intro x hx
        rcases List.mem_cons.mp hx with rfl | hx
        · exact hd
        · exact e3 x hx
    · rw [if_neg hd] at he ⊢
      by_cases hdot : r = cDOT
      · rw [if_pos hdot] at he ⊢
        cases sd with
        | true => simp at he
        | false =>
          simp only [Bool.false_eq_true, if_false] at he ⊢
          obtain ⟨_, i2⟩ := ih (c.adv r) (acc ++ [cDOT]) true .decimal he
          obtain ⟨fs, e1, e2, e3⟩ := i2 rfl
          have hdd : cls.isDigit cDOT = false := by rw [← hdot]; simpa using hd
          exact ⟨fun _ => Or.inr ⟨[], fs, e1, by rw [e2]; simp, (fun x h => by cases h), e3, hdd⟩,
            fun h => by cases h⟩
      · rw [if_neg hdot] at he ⊢
        exact ⟨fun _ => Or.inl ⟨[], rfl, by simp, fun x h => by cases h⟩,
          fun _ => ⟨[], rfl, by simp, fun x h => by cases h⟩⟩


theorem operatorOf_isOp {r : Rune} {ty : TokenType} (h : operatorOf r = some ty) :
    TokLitWF cls ⟨ty, [r], p, q⟩ := by
  have hex : ∃ r', operatorOf r' = some ty ∧ [r] = [r'] := ⟨r, h, rfl⟩
  unfold operatorOf at h
  repeat' split at h
  all_goals first | (cases h; unfold TokLitWF; exact hex) | (cases h)

theorem litStep_tok_none (ty : TokenType) (p : Pos) (lr : LitRes) (h : (litStep ty p lr).err = none) :
    lr.err = none ∧ (litStep ty p lr).tok = ⟨ty, lr.lit, p, lr.cur.pos⟩ := by
  unfold litStep at h ⊢
  cases he : lr.err with
  | none => simp [mkTok]
  | some e => rw [he] at h; simp at h

/-- every token `NextToken` returns without error has a literal of the shape of its kind -/
theorem nextToken_tokwf (cls : Cls) (c : Cur) (rest : List Rune)
    (he : (nextToken cls c rest).err = none) : TokLitWF cls (nextToken cls c rest).tok := by
  induction rest generalizing c with
  | nil => unfold nextToken; exact trivial
  | cons r rs ih =>
    unfold nextToken at he ⊢
    simp only [] at he ⊢
    split
    · rename_i op hop
      exact operatorOf_isOp hop
    · rename_i hop
      simp only [hop] at he
      by_cases h1 : r = cSLASH
      · rw [if_pos h1] at he ⊢
        by_cases h2 : rs.head? = some cSLASH
        · rw [if_pos h2] at he ⊢
          obtain ⟨_, ht⟩ := litStep_tok_none _ _ _ he
          rw [ht]
          show ∀ x ∈ (lexLineComment (c.adv r) rs).lit, x ≠ cNL
          cases rs with
          | nil => simp at h2
          | cons r2 rs2 =>
            obtain ⟨body, hb, hn⟩ := lexLineLoop_lit ((c.adv r).adv r2) [] rs2
            unfold lexLineComment
            rw [hb]; simpa using hn
        · rw [if_neg h2] at he ⊢
          by_cases h3 : rs.head? = some cSTAR
          · rw [if_pos h3] at he ⊢
            obtain ⟨_, ht⟩ := litStep_tok_none _ _ _ he
            rw [ht]
            show NoCloser (lexBlockComment (c.adv r) rs).lit
            cases rs with
            | nil => simp at h3
            | cons r2 rs2 =>
              obtain ⟨body, hb, hn, _⟩ := lexBlockLoop_lit ((c.adv r).adv r2) [] rs2
              unfold lexBlockComment
              rw [hb]; simpa using hn
          · rw [if_neg h3] at he ⊢
            obtain ⟨hle, ht⟩ := litStep_tok_none _ _ _ he
            rw [ht]
            exact lexRegex_wf _ _ h2 h3 hle
      · rw [if_neg h1] at he ⊢
        by_cases h2 : r = cQUOTE
        · rw [if_pos h2] at he ⊢
          obtain ⟨_, ht⟩ := litStep_tok_none _ _ _ he
          rw [ht]; exact trivial
        · rw [if_neg h2] at he ⊢
          by_cases h3 : r = cPIPE
          · rw [if_pos h3] at he ⊢
            obtain ⟨_, ht⟩ := litStep_tok_none _ _ _ he
            rw [ht]
            show (∀ x ∈ (lexDescriptionLine cls (c.adv r) rs).lit, x ≠ cNL) ∧
              ∀ x, (lexDescriptionLine cls (c.adv r) rs).lit.head? = some x → cls.isSpace x = false
            unfold lexDescriptionLine
            have hsk := skipWhitespace_head cls (c.adv r) rs
            generalize skipWhitespace cls (c.adv r) rs = sw at hsk
            obtain ⟨c1, rest1⟩ := sw
            simp only [] at hsk ⊢
            obtain ⟨body, hb, hn⟩ := lexLineLoop_lit c1 [] rest1
            refine ⟨by rw [hb]; simpa using hn, ?_⟩
            intro x hx
            obtain ⟨e1, e2⟩ := lexLineLoop_head c1 rest1 x hx
            have := hsk x e1
            cases hs : cls.isSpace x with
            | false => rfl
            | true => exact absurd ⟨hs, e2⟩ this
          · rw [if_neg h3] at he ⊢
            by_cases h4 : r = cNL
            · rw [if_pos h4] at he ⊢
              show [r] = [cNL]
              rw [h4]
            · rw [if_neg h4] at he ⊢
              by_cases h5 : cls.isSpace r = true
              · rw [if_pos h5] at he ⊢
                exact ih _ he
              · rw [if_neg h5] at he ⊢
                have h5' : cls.isSpace r = false := by simpa using h5
                by_cases h6 : cls.isDigit r = true
                · rw [if_pos h6] at he ⊢
                  have hhead : DigitHead cls r := ⟨hop, h1, h2, h3, h4, h5', h6⟩
                  cases hne : (lexNumberLoop cls (c.adv r) TokenType.int [r] false rs).err with
                  | some e => rw [hne] at he; simp at he
                  | none =>
                    simp only [hne]
                    obtain ⟨i1, _⟩ := lexNumberLoop_lit cls (c.adv r) [r] rs false .int hne
                    rcases i1 rfl with ⟨ds, e1, e2, e3⟩ | ⟨ds, fs, e1, e2, e3, e4, e5⟩
                    · show TokLitWF cls ⟨_, _, _, _⟩
                      unfold TokLitWF
                      simp only [mkTok, e1]
                      exact ⟨r, ds, by rw [e2]; rfl, hhead, e3⟩
                    · show TokLitWF cls ⟨_, _, _, _⟩
                      unfold TokLitWF
                      simp only [mkTok, e1]
                      exact ⟨r, ds, fs, by rw [e2]; simp, hhead, e3, e4, e5⟩
                · rw [if_neg h6] at he ⊢
                  have h6' : cls.isDigit r = false := by simpa using h6
                  by_cases h7 : cls.isLetter r = true
                  · rw [if_pos h7] at he ⊢
                    have hhead : IdentHead cls r := ⟨hop, h1, h2, h3, h4, h5', h6', h7⟩
                    obtain ⟨body, hb1, hb2⟩ := lexIdentLoop_lit cls (c.adv r) [r] rs
                    have hwf : IdentLitWF cls (lexIdentLoop cls (c.adv r) [r] rs).lit := by
                      rw [hb1]
                      exact ⟨by simp, fun x hx => by
                        have : x = r := by simpa using hx.symm
                        subst this; exact hhead, by simpa using hb2⟩
                    simp only [asKeyword] at he ⊢
                    by_cases hb : (lexIdentLoop cls (c.adv r) [r] rs).lit = litTrue ∨
                        (lexIdentLoop cls (c.adv r) [r] rs).lit = litFalse
                    · rw [if_pos hb]
                      show TokLitWF cls ⟨_, _, _, _⟩
                      unfold TokLitWF
                      exact ⟨hwf, hb⟩
                    · rw [if_neg hb]
                      show TokLitWF cls ⟨_, _, _, _⟩
                      unfold TokLitWF
                      exact ⟨hwf, hb⟩
                  · rw [if_neg h7] at he
                    simp at he


/-- with an error already recorded the loop never returns tokens -/
theorem allTokensLoop_toks_no_errs (cls : Cls) (ff : Bool) :
    ∀ (fuel : Nat) (c : Cur) (rest : List Rune) (toks : List Token) (errs : List LexErr)
      (out : List Token), allTokensLoop cls ff fuel c rest toks errs = .toks out → errs ≠ [] → False := by
  intro fuel
  induction fuel with
  | zero => intro c rest toks errs out h; unfold allTokensLoop at h; cases h
  | succ fuel ih =>
    intro c rest toks errs out h hne
    unfold allTokensLoop at h
    simp only [] at h
    split at h
    · split at h
      · cases h
      · split at h
        · cases h
        · exact ih _ _ _ _ _ h (by simp)
    · split at h
      · split at h
        · rename_i he
          cases errs with
          | nil => exact hne rfl
          | cons x xs => simp at he
        · cases h
      · exact ih _ _ _ _ _ h hne

theorem allTokensLoop_tokwf (cls : Cls) (ff : Bool) :
    ∀ (fuel : Nat) (c : Cur) (rest : List Rune) (toks : List Token) (errs : List LexErr)
      (out : List Token), allTokensLoop cls ff fuel c rest toks errs = .toks out →
      (∀ t ∈ toks, TokLitWF cls t) → ∀ t ∈ out, TokLitWF cls t := by
  intro fuel
  induction fuel with
  | zero => intro c rest toks errs out h; unfold allTokensLoop at h; cases h
  | succ fuel ih =>
    intro c rest toks errs out h htoks
    unfold allTokensLoop at h
    simp only [] at h
    cases hse : (nextToken cls c rest).err with
    | some e =>
      rw [hse] at h
      simp only [] at h
      split at h
      · cases h
      · split at h
        · cases h
        · exact (allTokensLoop_toks_no_errs cls ff _ _ _ _ _ _ h (by simp)).elim
    | none =>
      rw [hse] at h
      simp only [] at h
      split at h
      · split at h
        · cases h; exact htoks
        · cases h
      · apply ih _ _ _ _ _ h
        intro t' ht'
        rcases List.mem_append.mp ht' with h1 | h1
        · exact htoks t' h1
        · simp at h1; subst h1
          exact nextToken_tokwf cls c rest hse

/-- every token of an error-free lex has a literal of the shape of its kind -/
theorem allTokens_tokwf (cls : Cls) (ff : Bool) (src : List Rune) (ts : List Token)
    (h : allTokens cls ff src = .toks ts) : ∀ t ∈ ts, TokLitWF cls t :=
  allTokensLoop_tokwf cls ff _ _ _ _ _ _ h (fun t ht => by cases ht)

end J5V.Bcl
