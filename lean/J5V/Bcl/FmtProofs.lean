import J5V.Bcl.Fmt
/-! Lemmas for C09: `tokenSource` is inverted by the lexer (string and regex bodies). -/
namespace J5V.Bcl

/-- reading `quoteString`'s body gives the literal back -/
theorem lexStringLoop_quote (lit : List Rune) (c : Cur) (acc rest : List Rune) :
    ∃ c', lexStringLoop c acc
      (lit.flatMap (fun r => if r = cBSL ∨ r = cQUOTE ∨ r = cNL then [cBSL, r] else [r]) ++
        cQUOTE :: rest) = ⟨acc ++ lit, c', rest, none⟩ := by
  induction lit generalizing c acc with
  | nil =>
    simp only [List.flatMap_nil, List.nil_append, List.append_nil]
    unfold lexStringLoop
    simp
  | cons r lit ih =>
    simp only [List.flatMap_cons]
    by_cases h : r = cBSL ∨ r = cQUOTE ∨ r = cNL
    · simp only [h, if_true, List.cons_append, List.nil_append]
      unfold lexStringLoop
      have h1 : ¬ (cBSL = cQUOTE) := by decide
      have h2 : ¬ (cBSL = cNL) := by decide
      simp only [h1, h2, if_false, if_true]
      have h3 : r = cBSL ∨ r = cNL ∨ r = cQUOTE := by
        rcases h with h | h | h <;> simp [h]
      simp only [h3, if_true]
      obtain ⟨c', hc⟩ := ih ((c.adv cBSL).adv r) (acc ++ [r])
      exact ⟨c', by rw [hc]; simp⟩
    · simp only [h, if_false, List.cons_append, List.nil_append]
      unfold lexStringLoop
      have h1 : ¬ r = cQUOTE := fun e => h (Or.inr (Or.inl e))
      have h2 : ¬ r = cNL := fun e => h (Or.inr (Or.inr e))
      have h3 : ¬ r = cBSL := fun e => h (Or.inl e)
      simp only [h1, h2, h3, if_false]
      obtain ⟨c', hc⟩ := ih (c.adv r) (acc ++ [r])
      exact ⟨c', by rw [hc]; simp⟩

/-- reading `doubleSlashes lit` followed by the closing `/` gives the literal back, provided the
literal has no newline and what follows the closing `/` is not another `/` -/
theorem lexRegexLoop_double (lit : List Rune) (hnl : ∀ r ∈ lit, r ≠ cNL) (c : Cur)
    (acc rest : List Rune) (hrest : rest.head? ≠ some cSLASH) :
    ∃ c', lexRegexLoop c acc (doubleSlashes lit ++ cSLASH :: rest) = ⟨acc ++ lit, c', rest, none⟩ := by
  induction lit generalizing c acc with
  | nil =>
    simp only [doubleSlashes, List.flatMap_nil, List.nil_append, List.append_nil]
    unfold lexRegexLoop
    have h1 : ¬ (cSLASH = cNL) := by decide
    simp only [h1, if_false, if_true]
    cases rest with
    | nil => exact ⟨_, rfl⟩
    | cons e rs =>
      have : ¬ e = cSLASH := by
        intro h; apply hrest; simp [h]
      simp only [this, if_false]
      exact ⟨_, rfl⟩
  | cons r lit ih =>
    have hr : r ≠ cNL := hnl r (by simp)
    have hl : ∀ r ∈ lit, r ≠ cNL := fun x hx => hnl x (by simp [hx])
    simp only [doubleSlashes, List.flatMap_cons]
    by_cases h : r = cSLASH
    · subst h
      simp only [if_true, List.cons_append, List.nil_append]
      unfold lexRegexLoop
      have h1 : ¬ (cSLASH = cNL) := by decide
      simp only [h1, if_false, if_true]
      obtain ⟨c', hc⟩ := ih hl ((c.adv cSLASH).adv cSLASH) (acc ++ [cSLASH])
      simp only [doubleSlashes] at hc
      exact ⟨c', by rw [hc]; simp⟩
    · simp only [h, if_false, List.cons_append, List.nil_append]
      unfold lexRegexLoop
      simp only [hr, h, if_false]
      obtain ⟨c', hc⟩ := ih hl (c.adv r) (acc ++ [r])
      simp only [doubleSlashes] at hc
      exact ⟨c', by rw [hc]; simp⟩

end J5V.Bcl

namespace J5V.Bcl

theorem quoteString_eq (lit : List Rune) : quoteString lit =
    cQUOTE :: (lit.flatMap (fun r => if r = cBSL ∨ r = cQUOTE ∨ r = cNL then [cBSL, r] else [r]) ++
      [cQUOTE]) := by
  simp [quoteString]

/-- the lexer reads `tokenSource` of a STRING token back as the same STRING literal -/
theorem nextToken_string (cls : Cls) (c : Cur) (lit rest : List Rune) :
    ∃ s, nextToken cls c (quoteString lit ++ rest) = s ∧ s.err = none ∧ s.tok.ty = .string ∧
      s.tok.lit = lit ∧ s.rest = rest := by
  refine ⟨_, rfl, ?_⟩
  rw [quoteString_eq]
  simp only [List.cons_append, List.append_assoc, List.nil_append]
  unfold nextToken
  have h0 : operatorOf cQUOTE = none := by decide
  have h1 : ¬ (cQUOTE = cSLASH) := by decide
  simp only [h0, h1, if_false, if_true]
  obtain ⟨c', hc⟩ := lexStringLoop_quote lit (c.adv cQUOTE) [] rest
  rw [hc]
  simp [litStep, mkTok]

/-- regex literals as the lexer produces them: non-empty, not starting with `/` or `*` (those
sources are comments), no newline -/
def RegexLitWF (lit : List Rune) : Prop :=
  (∃ r rs, lit = r :: rs ∧ r ≠ cSLASH ∧ r ≠ cSTAR) ∧ ∀ r ∈ lit, r ≠ cNL

/-- the lexer reads `tokenSource` of a REGEX token back as the same REGEX literal -/
theorem nextToken_regex (cls : Cls) (c : Cur) (lit rest : List Rune) (hwf : RegexLitWF lit)
    (hrest : rest.head? ≠ some cSLASH) :
    ∃ s, nextToken cls c ([cSLASH] ++ doubleSlashes lit ++ [cSLASH] ++ rest) = s ∧ s.err = none ∧
      s.tok.ty = .regex ∧ s.tok.lit = lit ∧ s.rest = rest := by
  refine ⟨_, rfl, ?_⟩
  obtain ⟨⟨r, rs, rfl, hr1, hr2⟩, hnl⟩ := hwf
  simp only [List.cons_append, List.append_assoc, List.nil_append]
  unfold nextToken
  have h0 : operatorOf cSLASH = none := by decide
  have hd : (doubleSlashes (r :: rs) ++ cSLASH :: rest).head? = some r := by
    simp [doubleSlashes, hr1]
  have hd1 : ¬ (some r = some cSLASH) := by simpa using hr1
  have hd2 : ¬ (some r = some cSTAR) := by simpa using hr2
  simp only [h0, if_true, hd, hd1, hd2, if_false]
  obtain ⟨c', hc⟩ := lexRegexLoop_double (r :: rs) hnl (c.adv cSLASH) [] rest hrest
  rw [hc]
  simp [litStep, mkTok]

end J5V.Bcl
