import J5V.Bcl.Fmt
/-! Lemmas for C09: `tokenSource` is inverted by the lexer (string and regex bodies). -/
namespace J5V.Bcl

/-- reading `quoteString`'s body gives the literal back -/
theorem lexStringLoop_quote (lit : List Rune) (c : Cur) (acc rest : List Rune) :
    ∃ c', lexStringLoop c acc
      (lit.flatMap (fun r => if r = cBSL ∨ r = cQUOTE ∨ r = cNL then [cBSL, r] else [r]) ++
        cQUOTE :: rest) = ⟨acc ++ lit, c', rest, none⟩ := by
  induction lit generalizing c acc with
  | nil =>
    simp only [List.flatMap_nil, List.nil_append, List.append_nil]
    unfold lexStringLoop
    simp
  | cons r lit ih =>
    simp only [List.flatMap_cons]
    by_cases h : r = cBSL ∨ r = cQUOTE ∨ r = cNL
    · simp only [h, if_true, List.cons_append, List.nil_append]
      unfold lexStringLoop
      have h1 : ¬ (cBSL = cQUOTE) := by decide
      have h2 : ¬ (cBSL = cNL) := by decide
      simp only [h1, h2, if_false, if_true]
      have h3 : r = cBSL ∨ r = cNL ∨ r = cQUOTE := by
        rcases h with h | h | h <;> simp [h]
      simp only [h3, if_true]
      obtain ⟨c', hc⟩ := ih ((c.adv cBSL).adv r) (acc ++ [r])
      exact ⟨c', by rw [hc]; simp⟩
    · simp only [h, if_false, List.cons_append, List.nil_append]
      unfold lexStringLoop
      have h1 : ¬ r = cQUOTE := fun e => h (Or.inr (Or.inl e))
      have h2 : ¬ r = cNL := fun e => h (Or.inr (Or.inr e))
      have h3 : ¬ r = cBSL := fun e => h (Or.inl e)
      simp only [h1, h2, h3, if_false]
      obtain ⟨c', hc⟩ := ih (c.adv r) (acc ++ [r])
      exact ⟨c', by rw [hc]; simp⟩

/-- reading `doubleSlashes lit` followed by the closing `/` gives the literal back, provided the
literal has no newline and what follows the closing `/` is not another `/` -/
theorem lexRegexLoop_double (lit : List Rune) (hnl : ∀ r ∈ lit, r ≠ cNL) (c : Cur)
    (acc rest : List Rune) (hrest : rest.head? ≠ some cSLASH) :
    ∃ c', lexRegexLoop c acc (doubleSlashes lit ++ cSLASH :: rest) = ⟨acc ++ lit, c', rest, none⟩ := by
  induction lit generalizing c acc with
  | nil =>
    simp only [doubleSlashes, List.flatMap_nil, List.nil_append, List.append_nil]
    unfold lexRegexLoop
    have h1 : ¬ (cSLASH = cNL) := by decide
    simp only [h1, if_false, if_true]
    cases rest with
    | nil => exact ⟨_, rfl⟩
    | cons e rs =>
      have : ¬ e = cSLASH := by
        intro h; apply hrest; simp [h]
      simp only [this, if_false]
      exact ⟨_, rfl⟩
  | cons r lit ih =>
    have hr : r ≠ cNL := hnl r (by simp)
    have hl : ∀ r ∈ lit, r ≠ cNL := fun x hx => hnl x (by simp [hx])
    simp only [doubleSlashes, List.flatMap_cons]
    by_cases h : r = cSLASH
    · subst h
      simp only [if_true, List.cons_append, List.nil_append]
      unfold lexRegexLoop
      have h1 : ¬ (cSLASH = cNL) := by decide
      simp only [h1, if_false, if_true]
      obtain ⟨c', hc⟩ := ih hl ((c.adv cSLASH).adv cSLASH) (acc ++ [cSLASH])
      simp only [doubleSlashes] at hc
      exact ⟨c', by rw [hc]; simp⟩
    · simp only [h, if_false, List.cons_append, List.nil_append]
      unfold lexRegexLoop
      simp only [hr, h, if_false]
      obtain ⟨c', hc⟩ := ih hl (c.adv r) (acc ++ [r])
      simp only [doubleSlashes] at hc
      exact ⟨c', by rw [hc]; simp⟩

end J5V.Bcl

namespace J5V.Bcl

theorem quoteString_eq (lit : List Rune) : quoteString lit =
    cQUOTE :: (lit.flatMap (fun r => if r = cBSL ∨ r = cQUOTE ∨ r = cNL then [cBSL, r] else [r]) ++
      [cQUOTE]) := by
  simp [quoteString]

/-- the lexer reads `tokenSource` of a STRING token back as the same STRING literal -/
theorem nextToken_string (cls : Cls) (c : Cur) (lit rest : List Rune) :
    ∃ s, nextToken cls c (quoteString lit ++ rest) = s ∧ s.err = none ∧ s.tok.ty = .string ∧
      s.tok.lit = lit ∧ s.rest = rest := by
  refine ⟨_, rfl, ?_⟩
  rw [quoteString_eq]
  simp only [List.cons_append, List.append_assoc, List.nil_append]
  unfold nextToken
  have h0 : operatorOf cQUOTE = none := by decide
  have h1 : ¬ (cQUOTE = cSLASH) := by decide
  simp only [h0, h1, if_false, if_true]
  obtain ⟨c', hc⟩ := lexStringLoop_quote lit (c.adv cQUOTE) [] rest
  rw [hc]
  simp [litStep, mkTok]

/-- regex literals as the lexer produces them: non-empty, not starting with `/` or `*` (those
sources are comments), no newline -/
def RegexLitWF (lit : List Rune) : Prop :=
  (∃ r rs, lit = r :: rs ∧ r ≠ cSLASH ∧ r ≠ cSTAR) ∧ ∀ r ∈ lit, r ≠ cNL

/-- the lexer reads `tokenSource` of a REGEX token back as the same REGEX literal -/
theorem nextToken_regex (cls : Cls) (c : Cur) (lit rest : List Rune) (hwf : RegexLitWF lit)
    (hrest : rest.head? ≠ some cSLASH) :
    ∃ s, nextToken cls c ([cSLASH] ++ doubleSlashes lit ++ [cSLASH] ++ rest) = s ∧ s.err = none ∧
      s.tok.ty = .regex ∧ s.tok.lit = lit ∧ s.rest = rest := by
  refine ⟨_, rfl, ?_⟩
  obtain ⟨⟨r, rs, rfl, hr1, hr2⟩, hnl⟩ := hwf
  simp only [List.cons_append, List.append_assoc, List.nil_append]
  unfold nextToken
  have h0 : operatorOf cSLASH = none := by decide
  have hd : (doubleSlashes (r :: rs) ++ cSLASH :: rest).head? = some r := by
    simp [doubleSlashes, hr1]
  have hd1 : ¬ (some r = some cSLASH) := by simpa using hr1
  have hd2 : ¬ (some r = some cSTAR) := by simpa using hr2
  simp only [h0, if_true, hd, hd1, hd2, if_false]
  obtain ⟨c', hc⟩ := lexRegexLoop_double (r :: rs) hnl (c.adv cSLASH) [] rest hrest
  rw [hc]
  simp [litStep, mkTok]


/-! ## The other token kinds -/

/-- `rest` does not continue an identifier -/
def IdentStop (cls : Cls) (rest : List Rune) : Prop :=
  ∀ r, rest.head? = some r → ¬ (cls.isLetter r = true ∨ cls.isDigit r = true ∨ r = cUS)

theorem lexIdentLoop_run_lit (cls : Cls) (body : List Rune)
    (hbody : ∀ r ∈ body, cls.isLetter r = true ∨ cls.isDigit r = true ∨ r = cUS)
    (c : Cur) (acc rest : List Rune) (hstop : IdentStop cls rest) :
    ∃ c', lexIdentLoop cls c acc (body ++ rest) = ⟨acc ++ body, c', rest, none⟩ := by
  induction body generalizing c acc with
  | nil =>
    simp only [List.nil_append, List.append_nil]
    cases rest with
    | nil => exact ⟨c, rfl⟩
    | cons r rs =>
      unfold lexIdentLoop
      rw [if_neg (hstop r rfl)]
      exact ⟨c, rfl⟩
  | cons r body ih =>
    simp only [List.cons_append]
    unfold lexIdentLoop
    rw [if_pos (hbody r (by simp))]
    obtain ⟨c', hc⟩ := ih (fun x hx => hbody x (by simp [hx])) (c.adv r) (acc ++ [r])
    exact ⟨c', by rw [hc]; simp⟩

/-- the first rune of an identifier / keyword-like literal as the lexer requires it -/
structure IdentHead (cls : Cls) (r : Rune) : Prop where
  notOp : operatorOf r = none
  notSlash : r ≠ cSLASH
  notQuote : r ≠ cQUOTE
  notPipe : r ≠ cPIPE
  notNL : r ≠ cNL
  notSpace : cls.isSpace r = false
  notDigit : cls.isDigit r = false
  letter : cls.isLetter r = true

/-- an identifier-like literal (IDENT, or BOOL when it spells `true` / `false`) -/
structure IdentLitWF (cls : Cls) (lit : List Rune) : Prop where
  ne : lit ≠ []
  head : ∀ r, lit.head? = some r → IdentHead cls r
  body : ∀ r ∈ lit.tail, cls.isLetter r = true ∨ cls.isDigit r = true ∨ r = cUS

theorem nextToken_identlike (cls : Cls) (c : Cur) (lit rest : List Rune) (hwf : IdentLitWF cls lit)
    (hstop : IdentStop cls rest) :
    (nextToken cls c (lit ++ rest)).err = none ∧
      (nextToken cls c (lit ++ rest)).tok.ty =
        (if lit = litTrue ∨ lit = litFalse then TokenType.bool else TokenType.ident) ∧
      (nextToken cls c (lit ++ rest)).tok.lit = lit ∧ (nextToken cls c (lit ++ rest)).rest = rest := by
  cases lit with
  | nil => exact absurd rfl hwf.ne
  | cons r body =>
    have hh := hwf.head r rfl
    have hb := hwf.body
    simp only [List.tail_cons] at hb
    obtain ⟨c', hc⟩ := lexIdentLoop_run_lit cls body hb (c.adv r) [r] rest hstop
    simp only [List.cons_append]
    unfold nextToken
    simp only [hh.notOp, hh.notSlash, hh.notQuote, hh.notPipe, hh.notNL, hh.notSpace, hh.notDigit,
      hh.letter, if_false, if_true, Bool.false_eq_true, hc, asKeyword, List.singleton_append]
    split <;> simp_all [mkTok]

/-- `rest` does not continue a number -/
def NumberStop (cls : Cls) (rest : List Rune) : Prop :=
  ∀ r, rest.head? = some r → cls.isDigit r = false ∧ r ≠ cDOT

theorem lexNumberLoop_digits (cls : Cls) (ds : List Rune) (hds : ∀ r ∈ ds, cls.isDigit r = true)
    (c : Cur) (ty : TokenType) (acc : List Rune) (sd : Bool) (rest : List Rune) :
    ∃ c', lexNumberLoop cls c ty acc sd (ds ++ rest) = lexNumberLoop cls c' ty (acc ++ ds) sd rest := by
  induction ds generalizing c acc with
  | nil => exact ⟨c, by simp⟩
  | cons r ds ih =>
    simp only [List.cons_append]
    obtain ⟨c', hc⟩ := ih (fun x hx => hds x (by simp [hx])) (c.adv r) (acc ++ [r])
    refine ⟨c', ?_⟩
    conv => lhs; unfold lexNumberLoop
    rw [if_pos (hds r (by simp)), hc]
    simp

theorem lexNumberLoop_stop (cls : Cls) (c : Cur) (ty : TokenType) (acc : List Rune) (sd : Bool)
    (rest : List Rune) (hstop : NumberStop cls rest) :
    lexNumberLoop cls c ty acc sd rest = ⟨ty, acc, c, rest, none⟩ := by
  cases rest with
  | nil => rfl
  | cons r rs =>
    obtain ⟨h1, h2⟩ := hstop r rfl
    unfold lexNumberLoop
    simp [h1, h2]

/-- the first rune of a number literal as the lexer requires it -/
structure DigitHead (cls : Cls) (r : Rune) : Prop where
  notOp : operatorOf r = none
  notSlash : r ≠ cSLASH
  notQuote : r ≠ cQUOTE
  notPipe : r ≠ cPIPE
  notNL : r ≠ cNL
  notSpace : cls.isSpace r = false
  digit : cls.isDigit r = true

theorem nextToken_int (cls : Cls) (c : Cur) (r : Rune) (ds rest : List Rune) (hh : DigitHead cls r)
    (hds : ∀ x ∈ ds, cls.isDigit x = true) (hstop : NumberStop cls rest) :
    (nextToken cls c (r :: ds ++ rest)).err = none ∧
      (nextToken cls c (r :: ds ++ rest)).tok.ty = .int ∧
      (nextToken cls c (r :: ds ++ rest)).tok.lit = r :: ds ∧
      (nextToken cls c (r :: ds ++ rest)).rest = rest := by
  obtain ⟨c', hc⟩ := lexNumberLoop_digits cls ds hds (c.adv r) .int [r] false rest
  simp only [List.cons_append]
  unfold nextToken
  simp only [hh.notOp, hh.notSlash, hh.notQuote, hh.notPipe, hh.notNL, hh.notSpace, hh.digit,
    if_false, if_true, Bool.false_eq_true, hc, lexNumberLoop_stop cls c' _ _ _ rest hstop]
  simp [mkTok]

theorem nextToken_decimal (cls : Cls) (c : Cur) (r : Rune) (ds fs rest : List Rune)
    (hh : DigitHead cls r) (hds : ∀ x ∈ ds, cls.isDigit x = true)
    (hfs : ∀ x ∈ fs, cls.isDigit x = true) (hdot : cls.isDigit cDOT = false)
    (hstop : NumberStop cls rest) :
    (nextToken cls c (r :: ds ++ cDOT :: fs ++ rest)).err = none ∧
      (nextToken cls c (r :: ds ++ cDOT :: fs ++ rest)).tok.ty = .decimal ∧
      (nextToken cls c (r :: ds ++ cDOT :: fs ++ rest)).tok.lit = r :: ds ++ cDOT :: fs ∧
      (nextToken cls c (r :: ds ++ cDOT :: fs ++ rest)).rest = rest := by
  obtain ⟨c1, hc1⟩ := lexNumberLoop_digits cls ds hds (c.adv r) .int [r] false (cDOT :: fs ++ rest)
  obtain ⟨c2, hc2⟩ := lexNumberLoop_digits cls fs hfs (c1.adv cDOT) .decimal ([r] ++ ds ++ [cDOT]) true rest
  have e : r :: ds ++ cDOT :: fs ++ rest = r :: (ds ++ (cDOT :: fs ++ rest)) := by simp
  rw [e]
  unfold nextToken
  simp only [hh.notOp, hh.notSlash, hh.notQuote, hh.notPipe, hh.notNL, hh.notSpace, hh.digit,
    if_false, if_true, Bool.false_eq_true, hc1]
  have hstep : lexNumberLoop cls c1 .int ([r] ++ ds) false (cDOT :: fs ++ rest) =
      lexNumberLoop cls (c1.adv cDOT) .decimal ([r] ++ ds ++ [cDOT]) true (fs ++ rest) := by
    show lexNumberLoop cls c1 .int ([r] ++ ds) false (cDOT :: (fs ++ rest)) = _
    conv => lhs; unfold lexNumberLoop
    simp [hdot]
  rw [hstep, hc2, lexNumberLoop_stop cls c2 _ _ _ rest hstop]
  simp [mkTok]

/-- `rest` ends the line: empty or starting with a newline -/
def LineEnd (rest : List Rune) : Prop := rest = [] ∨ rest.head? = some cNL

theorem lexLineLoop_line (body : List Rune) (hbody : ∀ r ∈ body, r ≠ cNL) (c : Cur)
    (acc rest : List Rune) (hend : LineEnd rest) :
    ∃ c', lexLineLoop c acc (body ++ rest) = ⟨acc ++ body, c', rest, none⟩ := by
  induction body generalizing c acc with
  | nil =>
    simp only [List.nil_append, List.append_nil]
    cases rest with
    | nil => exact ⟨c, rfl⟩
    | cons r rs =>
      have : r = cNL := by
        rcases hend with h | h
        · cases h
        · simpa using h
      unfold lexLineLoop
      rw [if_pos this]
      exact ⟨c, rfl⟩
  | cons r body ih =>
    simp only [List.cons_append]
    unfold lexLineLoop
    rw [if_neg (hbody r (by simp))]
    obtain ⟨c', hc⟩ := ih (fun x hx => hbody x (by simp [hx])) (c.adv r) (acc ++ [r])
    exact ⟨c', by rw [hc]; simp⟩

/-- `// lit` in front of an end of line lexes back to the COMMENT token -/
theorem nextToken_comment (cls : Cls) (c : Cur) (lit rest : List Rune) (hlit : ∀ r ∈ lit, r ≠ cNL)
    (hend : LineEnd rest) :
    (nextToken cls c ([cSLASH, cSLASH] ++ lit ++ rest)).err = none ∧
      (nextToken cls c ([cSLASH, cSLASH] ++ lit ++ rest)).tok.ty = .comment ∧
      (nextToken cls c ([cSLASH, cSLASH] ++ lit ++ rest)).tok.lit = lit ∧
      (nextToken cls c ([cSLASH, cSLASH] ++ lit ++ rest)).rest = rest := by
  obtain ⟨c', hc⟩ := lexLineLoop_line lit hlit ((c.adv cSLASH).adv cSLASH) [] rest hend
  simp only [List.cons_append, List.nil_append, List.append_assoc]
  unfold nextToken
  have h0 : operatorOf cSLASH = none := by decide
  simp only [h0, if_true, List.head?_cons, lexLineComment, hc]
  simp [litStep, mkTok]

/-- no `*/` inside the literal -/
def NoCloser : List Rune → Prop
  | [] => True
  | [_] => True
  | a :: b :: rest => ¬ (a = cSTAR ∧ b = cSLASH) ∧ NoCloser (b :: rest)

instance instDecidableNoCloser : (l : List Rune) → Decidable (NoCloser l)
  | [] => isTrue trivial
  | [_] => isTrue trivial
  | a :: b :: rest => by
    have := instDecidableNoCloser (b :: rest)
    unfold NoCloser
    exact inferInstance

theorem lexBlockLoop_body : ∀ (lit : List Rune), NoCloser lit → ∀ (c : Cur) (acc rest : List Rune),
    ∃ c', lexBlockLoop c acc (lit ++ cSTAR :: cSLASH :: rest) = ⟨acc ++ lit, c', rest, none⟩
  | [], _, c, acc, rest => by
    simp only [List.nil_append, List.append_nil]
    unfold lexBlockLoop
    simp
  | [a], _, c, acc, rest => by
    show ∃ c', lexBlockLoop c acc (a :: cSTAR :: cSLASH :: rest) = _
    unfold lexBlockLoop
    have : ¬ (a = cSTAR ∧ (cSTAR :: cSLASH :: rest).head? = some cSLASH) := by
      simp; intro _; decide
    rw [if_neg this]
    obtain ⟨c', hc⟩ := lexBlockLoop_body [] trivial (c.adv a) (acc ++ [a]) rest
    simp only [List.nil_append, List.append_nil] at hc
    exact ⟨c', by rw [hc]⟩
  | a :: b :: lit, h, c, acc, rest => by
    obtain ⟨h1, h2⟩ := h
    show ∃ c', lexBlockLoop c acc (a :: (b :: lit ++ cSTAR :: cSLASH :: rest)) = _
    unfold lexBlockLoop
    have : ¬ (a = cSTAR ∧ (b :: lit ++ cSTAR :: cSLASH :: rest).head? = some cSLASH) := by
      simpa using h1
    rw [if_neg this]
    obtain ⟨c', hc⟩ := lexBlockLoop_body (b :: lit) h2 (c.adv a) (acc ++ [a]) rest
    exact ⟨c', by rw [hc]; simp⟩

/-- `/* lit */` lexes back to the BLOCK_COMMENT token -/
theorem nextToken_blockComment (cls : Cls) (c : Cur) (lit rest : List Rune) (hlit : NoCloser lit) :
    (nextToken cls c ([cSLASH, cSTAR] ++ lit ++ [cSTAR, cSLASH] ++ rest)).err = none ∧
      (nextToken cls c ([cSLASH, cSTAR] ++ lit ++ [cSTAR, cSLASH] ++ rest)).tok.ty = .blockComment ∧
      (nextToken cls c ([cSLASH, cSTAR] ++ lit ++ [cSTAR, cSLASH] ++ rest)).tok.lit = lit ∧
      (nextToken cls c ([cSLASH, cSTAR] ++ lit ++ [cSTAR, cSLASH] ++ rest)).rest = rest := by
  obtain ⟨c', hc⟩ := lexBlockLoop_body lit hlit ((c.adv cSLASH).adv cSTAR) [] rest
  simp only [List.cons_append, List.nil_append, List.append_assoc]
  unfold nextToken
  have h0 : operatorOf cSLASH = none := by decide
  have h1 : ¬ ((some cSTAR : Option Rune) = some cSLASH) := by decide
  simp only [h0, if_true, List.head?_cons, h1, if_false, lexBlockComment, hc]
  simp [litStep, mkTok]

/-- `| lit` in front of an end of line lexes back to the DESCRIPTION token, provided the literal does
not start with white space (the lexer strips it) and `' '` is white space for the classifier -/
theorem nextToken_description (cls : Cls) (hsp : cls.isSpace cSP = true) (c : Cur)
    (lit rest : List Rune) (hlit : ∀ r ∈ lit, r ≠ cNL)
    (hhead : ∀ r, lit.head? = some r → cls.isSpace r = false) (hend : LineEnd rest) :
    (nextToken cls c ([cPIPE, cSP] ++ lit ++ rest)).err = none ∧
      (nextToken cls c ([cPIPE, cSP] ++ lit ++ rest)).tok.ty = .description ∧
      (nextToken cls c ([cPIPE, cSP] ++ lit ++ rest)).tok.lit = lit ∧
      (nextToken cls c ([cPIPE, cSP] ++ lit ++ rest)).rest = rest := by
  simp only [List.cons_append, List.nil_append, List.append_assoc]
  unfold nextToken
  have h0 : operatorOf cPIPE = none := by decide
  have h1 : ¬ (cPIPE = cSLASH) := by decide
  have h2 : ¬ (cPIPE = cQUOTE) := by decide
  simp only [h0, h1, h2, if_false, if_true]
  -- skipWhitespace reads exactly the one space
  have hskip : skipWhitespace cls (c.adv cPIPE) (cSP :: (lit ++ rest)) =
      ((c.adv cPIPE).adv cSP, lit ++ rest) := by
    unfold skipWhitespace
    have : cls.isSpace cSP = true ∧ cSP ≠ cNL := ⟨hsp, by decide⟩
    rw [if_pos this]
    cases hl : lit ++ rest with
    | nil => rfl
    | cons r rs =>
      unfold skipWhitespace
      have : ¬ (cls.isSpace r = true ∧ r ≠ cNL) := by
        cases lit with
        | nil =>
          simp only [List.nil_append] at hl
          rcases hend with h | h
          · rw [h] at hl; cases hl
          · rw [hl] at h; simp at h; simp [h]
        | cons a as =>
          simp only [List.cons_append] at hl
          cases hl
          have := hhead r rfl
          simp [this]
      rw [if_neg this]
  obtain ⟨c', hc⟩ := lexLineLoop_line lit hlit ((c.adv cPIPE).adv cSP) [] rest hend
  simp only [lexDescriptionLine, hskip, hc]
  simp [litStep, mkTok]

/-- an operator character lexes to its operator token -/
theorem nextToken_operator (cls : Cls) (c : Cur) (r : Rune) (ty : TokenType)
    (h : operatorOf r = some ty) (rest : List Rune) :
    (nextToken cls c (r :: rest)).err = none ∧ (nextToken cls c (r :: rest)).tok.ty = ty ∧
      (nextToken cls c (r :: rest)).tok.lit = [r] ∧ (nextToken cls c (r :: rest)).rest = rest := by
  unfold nextToken
  simp [h, mkTok]

/-- white space (other than a newline) before a token is skipped -/
theorem nextToken_skip_space (cls : Cls) (c : Cur) (r : Rune) (hs : cls.isSpace r = true)
    (hop : operatorOf r = none) (h1 : r ≠ cSLASH) (h2 : r ≠ cQUOTE) (h3 : r ≠ cPIPE) (h4 : r ≠ cNL)
    (rest : List Rune) : nextToken cls c (r :: rest) = nextToken cls (c.adv r) rest := by
  conv => lhs; unfold nextToken
  simp [hop, h1, h2, h3, h4, hs]

end J5V.Bcl
