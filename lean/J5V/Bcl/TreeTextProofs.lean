import J5V.Bcl.TreeText
import J5V.Bcl.PreserveProofs
import J5V.Bcl.FlattenProofs
/-!
# Printing a well-formed BCL tree and parsing the text gives the tree back (up to positions)

`tree_text_roundtrip`: for every classifier with `ClsOK`, every blank-line rule and every statement list with
`BodyTextOK`, `parseFile cls (renderFile gap body) ff` is a tree whose erased body is the erased `body`.
Route: the text lexes to the canonical tokens `fileToks` of the fragments placed on their lines (plus the
final EOL), the walker reads those back (`loop_fileToks_trail`), erasure transports the result to the real
tokens, `fragmentsToFile` inverts the flattening (FlattenProofs).
-/
namespace J5V.Bcl

/-! ## the flattened fragments are well formed -/

theorem fragWF_atLine (cls : Cls) (L : Nat) (f : Fragment) : FragWF cls (f.atLine L) ↔ FragWF cls f := by
  cases f <;> rfl

theorem closeFrag_wf (cls : Cls) : FragWF cls (.close closeFrag) :=
  ⟨rfl, ⟨125, rfl, rfl⟩⟩

/-- well formed and not a stand-alone description -/
def GoodFrag (cls : Cls) (f : Fragment) : Prop := FragWF cls f ∧ ∀ d, f ≠ .desc d

mutual
theorem flatStmt_good (cls : Cls) (gap : GapRule) : (s : Statement) → (g : Bool) → StmtTextOK cls s →
    ∀ x ∈ flatStmt gap g s, GoodFrag cls x.2
  | .block h body, g, hok => by
    unfold StmtTextOK at hok
    unfold flatStmt
    intro x hx
    simp only [List.mem_cons, List.mem_append] at hx
    rcases hx with rfl | hx | hx
    · exact ⟨hok.1, fun d hd => by cases hd⟩
    · exact flatBody_good cls gap body (some h) none hok.2.2 x hx
    · split at hx
      · simp at hx; subst hx
        exact ⟨closeFrag_wf cls, fun d hd => by cases hd⟩
      · cases hx
  | .assign a, g, hok => by
    unfold StmtTextOK at hok
    unfold flatStmt
    intro x hx
    simp at hx; subst hx
    exact ⟨hok, fun d hd => by cases hd⟩
  | .desc d, g, hok => by
    unfold StmtTextOK at hok
    exact hok.elim
theorem flatBody_good (cls : Cls) (gap : GapRule) : (body : List Statement) → (parent : Option BlockHeader) →
    (prev : Option Statement) → BodyTextOK cls body → ∀ x ∈ flatBody gap parent prev body, GoodFrag cls x.2
  | [], _, _, _ => by
    unfold flatBody
    intro x hx; cases hx
  | s :: rest, parent, prev, hok => by
    unfold BodyTextOK at hok
    unfold flatBody
    intro x hx
    rcases List.mem_append.mp hx with hx | hx
    · exact flatStmt_good cls gap s _ hok.1 x hx
    · exact flatBody_good cls gap rest parent (some s) hok.2 x hx
end

theorem place_good (cls : Cls) : ∀ (gfs : List (Bool × Fragment)) (L : Nat),
    (∀ x ∈ gfs, GoodFrag cls x.2) → ∀ f ∈ place L gfs, GoodFrag cls f := by
  intro gfs
  induction gfs with
  | nil => intro L _ f hf; cases hf
  | cons x rest ih =>
    intro L h f hf
    obtain ⟨g, f0⟩ := x
    simp only [place, List.mem_cons] at hf
    rcases hf with rfl | hf
    · have := h (g, f0) (by simp)
      refine ⟨(fragWF_atLine cls _ f0).mpr this.1, ?_⟩
      intro d hd
      cases f0 <;> simp [Fragment.atLine] at hd
      exact this.2 _ rfl
    · exact ih _ (fun y hy => h y (by simp [hy])) f hf

theorem descGaps_of_noDesc : ∀ (fs : List Fragment), (∀ f ∈ fs, ∀ d, f ≠ .desc d) → DescGaps fs
  | [], _ => trivial
  | [_], _ => trivial
  | f :: g :: rest, h => by
    refine ⟨fun d e hd _ => absurd hd (h f (by simp) d), ?_⟩
    exact descGaps_of_noDesc (g :: rest) (fun x hx => h x (by simp [hx]))

theorem normFrag_noDesc (cls : Cls) (indent : Nat) (f : Fragment) (h : ∀ d, f ≠ .desc d) :
    normFrag cls indent f = f.erase := by
  cases f with
  | desc d => exact absurd rfl (h d)
  | _ => rfl

theorem normFrags_noDesc (cls : Cls) : ∀ (fs : List Fragment) (indent : Nat),
    (∀ f ∈ fs, ∀ d, f ≠ .desc d) → normFrags cls indent fs = fs.map Fragment.erase := by
  intro fs
  induction fs with
  | nil => intro _ _; rfl
  | cons f rest ih =>
    intro indent h
    simp only [normFrags, List.map_cons]
    rw [normFrag_noDesc cls indent f (h f (by simp)), ih _ (fun x hx => h x (by simp [hx]))]

theorem erase_atLine (L : Nat) (f : Fragment) : (f.atLine L).erase = f.erase := by
  cases f <;> rfl

theorem place_map_erase : ∀ (gfs : List (Bool × Fragment)) (L : Nat),
    (place L gfs).map Fragment.erase = gfs.map (fun x => x.2.erase) := by
  intro gfs
  induction gfs with
  | nil => intro _; rfl
  | cons x rest ih =>
    intro L
    obtain ⟨g, f⟩ := x
    simp only [place, List.map_cons, erase_atLine, ih]

/-! ## lexing the rendered fragments -/

theorem LexSeg.skipSpaces {cls : Cls} (hcls : ClsOK cls) (n : Nat) (c : Cur) :
    ∃ c1, ∀ (text tail : List Rune) (new : List Token) (c' : Cur),
      LexSeg cls c1 text tail new c' → LexSeg cls c (spaces n ++ text) tail new c' := by
  induction n generalizing c with
  | zero => exact ⟨c, fun text tail new c' h => by simpa [spaces] using h⟩
  | succ n ih =>
    obtain ⟨c1, h1⟩ := ih (c.adv cSP)
    refine ⟨c1, fun text tail new c' h => ?_⟩
    have : spaces (n + 1) ++ text = cSP :: (spaces n ++ text) := by
      simp [spaces, List.replicate_succ]
    rw [this]
    exact LexSeg.skip hcls.spSpace (Or.inl rfl) (h1 text tail new c' h)

theorem fragText_eq (cls : Cls) (f : Fragment) (h : ∀ d, f ≠ .desc d) :
    fragText f = (fmtFragment cls 0 f).1.newText := by
  cases f with
  | desc d => exact absurd rfl (h d)
  | _ => rfl

theorem fragToks_indep (cls : Cls) (i L : Nat) (f : Fragment) (h : ∀ d, f ≠ .desc d) :
    fragToks cls i (f.atLine L) = fragToks cls 0 f := by
  cases f with
  | desc d => exact absurd rfl (h d)
  | _ => rfl

theorem fmtFragment_atLine (cls : Cls) (i L : Nat) (f : Fragment) :
    (fmtFragment cls i (f.atLine L)).1.fromLine = L ∧ (fmtFragment cls i (f.atLine L)).1.toLine = L + 1 := by
  cases f <;> exact ⟨rfl, rfl⟩

theorem gapBefore_place (L : Nat) (g : Bool) :
    gapBefore (some L) (if g then L + 1 else L) = g := by
  cases g <;> simp [gapBefore]

/-- the rendered fragments lex to the canonical tokens of the placed fragments -/
theorem lexSeg_renderFrags (cls : Cls) (hcls : ClsOK cls) : ∀ (gfs : List (Bool × Fragment)) (ind i L : Nat)
    (c : Cur) (tail : List Rune), (∀ x ∈ gfs, GoodFrag cls x.2) →
    ∃ new c', new.map Token.erase = fileToks cls i (some L) (place L gfs) ∧
      LexSeg cls c (renderFrags ind gfs) tail new c' := by
  intro gfs
  induction gfs with
  | nil =>
    intro ind i L c tail _
    exact ⟨[], c, rfl, LexSeg.nil⟩
  | cons x rest ih =>
    intro ind i L c tail hgood
    obtain ⟨g, f⟩ := x
    have hf := hgood (g, f) (by simp)
    have hrest : ∀ y ∈ rest, GoodFrag cls y.2 := fun y hy => hgood y (by simp [hy])
    simp only [renderFrags, place]
    rw [fileToks_cons]
    obtain ⟨hfrom, hto⟩ := fmtFragment_atLine cls i (if g then L + 1 else L) f
    rw [hfrom, hto, gapBefore_place, fragToks_indep cls i _ f hf.2]
    have key : ∀ (here next : Nat), ∃ new c', new.map Token.erase =
          (if g = true then [eolTok] else []) ++ (fragToks cls 0 f ++
            fileToks cls (fmtFragment cls i (f.atLine (if g then L + 1 else L))).2
              (some ((if g then L + 1 else L) + 1)) (place ((if g then L + 1 else L) + 1) rest)) ∧
        LexSeg cls c ((if g = true then [cNL] else []) ++ (spaces (2 * here) ++ fragText f) ++
          renderFrags next rest) tail new c' := by
      intro here next
      -- the gap newline
      have gapSeg : ∀ (c0 : Cur) (tl : List Rune), ∃ n0 c1,
          n0.map Token.erase = (if g = true then [eolTok] else []) ∧
          LexSeg cls c0 (if g = true then [cNL] else []) tl n0 c1 := by
        intro c0 tl
        cases g with
        | false => exact ⟨[], c0, rfl, LexSeg.nil⟩
        | true =>
          obtain ⟨tok, c1, e, s⟩ := LexSeg.eol (cls := cls) c0 tl
          exact ⟨[tok], c1, by simp [e], s⟩
      obtain ⟨n0, c1, e0, s0⟩ := gapSeg c ((spaces (2 * here) ++ (fmtFragment cls 0 f).1.newText ++
        renderFrags next rest) ++ tail)
      obtain ⟨c2, hsp⟩ := LexSeg.skipSpaces hcls (2 * here) c1
      obtain ⟨n1, c3, e1, s1⟩ := lexSeg_fragment cls hcls 0 f hf.1 c2 (renderFrags next rest ++ tail)
      obtain ⟨n2, c4, e2, s2⟩ := ih next (fmtFragment cls i (f.atLine (if g then L + 1 else L))).2
        ((if g then L + 1 else L) + 1) c3 tail hrest
      refine ⟨n0 ++ (n1 ++ n2), c4, by simp [e0, e1, e2], ?_⟩
      rw [fragText_eq cls f hf.2]
      have s1' := hsp _ _ _ _ s1
      have s12 : LexSeg cls c1 ((spaces (2 * here) ++ (fmtFragment cls 0 f).1.newText) ++ renderFrags next rest)
          tail (n1 ++ n2) c4 := LexSeg.append s1' s2
      have := LexSeg.append s0 s12
      simpa [List.append_assoc] using this
    obtain ⟨new, c', e, sg⟩ := key _ _
    exact ⟨new, c', e, by simpa [List.append_assoc] using sg⟩

/-! ## the walker on the canonical tokens followed by blank lines -/

theorem loop_eols (pf : Nat) : ∀ (k : Nat) (prev : Option Token) (acc : List Fragment) (fuel : Nat), k < fuel →
    walkFragmentsLoop true pf fuel ⟨prev, List.replicate k eolTok⟩ acc [] = .done acc [] := by
  intro k
  induction k with
  | zero =>
    intro prev acc fuel hf
    obtain ⟨f', rfl⟩ : ∃ f', fuel = f' + 1 := ⟨fuel - 1, by omega⟩
    exact loop_eof (by simp [W.nextType])
  | succ k ih =>
    intro prev acc fuel hf
    obtain ⟨f', rfl⟩ : ∃ f', fuel = f' + 1 := ⟨fuel - 1, by omega⟩
    rw [List.replicate_succ, loop_ok_none (by simp [W.nextType, eolTok]) (nextFragment_eol pf prev _)]
    exact ih _ _ _ (by omega)

theorem headTy_append_eols (R : List Token) (k : Nat) (h : headTy R ≠ some .description) :
    headTy (R ++ List.replicate k eolTok) ≠ some .description := by
  cases R with
  | cons x xs => simpa using h
  | nil =>
    cases k with
    | zero => simp
    | succ k => simp [List.replicate_succ, eolTok]

theorem loop_fileToks_trail (cls : Cls) (pf : Nat) (k : Nat) : ∀ (frags : List Fragment) (indent : Nat)
    (lastEnd : Option Nat) (prev : Option Token) (acc : List Fragment) (fuel : Nat),
    (∀ f ∈ frags, FragWF cls f) → DescGaps frags → PZ prev →
    2 * ((fileToks cls indent lastEnd frags).length + k) ≤ pf →
    (fileToks cls indent lastEnd frags).length + k < fuel →
    walkFragmentsLoop true pf fuel ⟨prev, fileToks cls indent lastEnd frags ++ List.replicate k eolTok⟩ acc [] =
      .done (acc ++ normFrags cls indent frags) [] := by
  intro frags
  induction frags with
  | nil =>
    intro indent lastEnd prev acc fuel _ _ _ _ hf
    simp only [fileToks, List.nil_append, normFrags, List.append_nil, List.length_nil, Nat.zero_add] at hf ⊢
    exact loop_eols pf k prev acc fuel hf
  | cons f fs ih =>
    intro indent lastEnd prev acc fuel hwf hg hpz hpf hf
    have hwf_f := hwf f (by simp)
    have hwf_fs : ∀ g ∈ fs, FragWF cls g := fun g hg' => hwf g (by simp [hg'])
    have hg_fs : DescGaps fs := by
      cases fs with
      | nil => trivial
      | cons g gs => exact hg.2
    rw [fileToks_cons] at hpf hf ⊢
    generalize hR : fileToks cls (fmtFragment cls indent f).2
      (some (fmtFragment cls indent f).1.toLine) fs = R at hpf hf ⊢
    obtain ⟨x, xs, ex, hxs, _⟩ := fragToks_head cls indent f hwf_f
    have hT2 : 2 ≤ (fragToks cls indent f).length := by
      rw [ex]
      cases xs with
      | nil => exact absurd rfl hxs
      | cons y ys => simp
    have hdesc : ∀ d, f = .desc d → headTy (R ++ List.replicate k eolTok) ≠ some .description := by
      intro d hd
      subst hd
      apply headTy_append_eols
      rw [← hR]
      exact fileToks_after_desc cls indent d fs hwf_fs hg
    have main : ∀ (prev1 : Option Token) (fuel1 : Nat), PZ prev1 →
        (fragToks cls indent f).length + (R.length + k) < fuel1 →
        walkFragmentsLoop true pf fuel1 ⟨prev1, fragToks cls indent f ++ (R ++ List.replicate k eolTok)⟩ acc [] =
          .done (acc ++ normFrags cls indent (f :: fs)) [] := by
      intro prev1 fuel1 hpz1 hf1
      obtain ⟨prev', rest', hn, hpz', hr⟩ := nextFragment_frag cls pf indent f hwf_f prev1 hpz1
        (R ++ List.replicate k eolTok) hdesc (by simp only [List.length_append] at hpf; omega)
      obtain ⟨f1, rfl⟩ : ∃ f1, fuel1 = f1 + 1 := ⟨fuel1 - 1, by omega⟩
      rw [loop_ok_some (nextFragment_some_ne_eof hn) hn]
      have hRlen : 2 * (R.length + k) ≤ pf := by simp only [List.length_append] at hpf; omega
      rcases hr with ⟨rfl, _⟩ | ⟨rfl, _⟩
      · rw [← hR]
        rw [ih _ _ prev' (acc ++ [normFrag cls indent f]) f1 hwf_fs hg_fs hpz'
          (by rw [hR]; exact hRlen) (by rw [hR]; omega)]
        simp [normFrags]
      · obtain ⟨f2, rfl⟩ : ∃ f2, f1 = f2 + 1 := ⟨f1 - 1, by omega⟩
        rw [loop_ok_none (by simp [W.nextType, eolTok]) (nextFragment_eol pf prev' _)]
        rw [← hR]
        rw [ih _ _ (some eolTok) (acc ++ [normFrag cls indent f]) f2 hwf_fs hg_fs (PZ_some rfl)
          (by rw [hR]; exact hRlen) (by rw [hR]; omega)]
        simp [normFrags]
    cases hgp : gapBefore lastEnd (fmtFragment cls indent f).1.fromLine with
    | false =>
      rw [hgp] at hf
      simp only [Bool.false_eq_true, if_false, List.nil_append, List.length_append, List.append_assoc] at hf ⊢
      exact main prev fuel hpz (by omega)
    | true =>
      rw [hgp] at hf
      simp only [if_true, List.cons_append, List.nil_append, List.length_cons, List.length_append,
        List.append_assoc] at hf ⊢
      obtain ⟨f1, rfl⟩ : ∃ f1, fuel = f1 + 1 := ⟨fuel - 1, by omega⟩
      rw [loop_ok_none (by simp [W.nextType, eolTok]) (nextFragment_eol pf prev _)]
      exact main (some eolTok) f1 (PZ_some rfl) (by omega)

/-! ## assembly -/

/-- **Printing a well-formed statement list and parsing the text gives the list back, up to positions.** -/
theorem tree_text_roundtrip (cls : Cls) (hcls : ClsOK cls) (gap : GapRule) (body : List Statement)
    (hok : BodyTextOK cls body) (ff : Bool) :
    ∃ t, parseFile cls (renderFile gap body) ff = .tree t ∧
      Statement.eraseList t.body = Statement.eraseList body := by
  have hgood := flatBody_good cls gap body none none hok
  generalize hgfs : flatBody gap none none body = gfs at hgood
  have hP := place_good cls gfs 0 hgood
  -- lexing
  obtain ⟨new, c', enew, seg⟩ := lexSeg_renderFrags cls hcls gfs 0 0 0 Cur.init [cNL] hgood
  obtain ⟨tok, c'', etok, segE⟩ := LexSeg.eol (cls := cls) c' []
  have hnil : LexAll cls c'' [] [] := by
    have := nextToken_nil cls c''
    exact LexAll.eof this.1 this.2
  have hlex : LexAll cls Cur.init (renderFile gap body) (new ++ [tok]) := by
    have h1 := segE [] hnil
    have h2 := seg ([tok] ++ []) h1
    unfold renderFile
    rw [hgfs]
    simpa using h2
  have hall := LexAll.allTokens true hlex
  have hmap : (new ++ [tok]).map Token.erase =
      fileToks cls 0 (some 0) (place 0 gfs) ++ List.replicate 1 eolTok := by
    simp [enew, etok]
  -- walking the canonical tokens
  have hnoDesc : ∀ f ∈ place 0 gfs, ∀ d, f ≠ .desc d := fun f hf => (hP f hf).2
  have hloop := loop_fileToks_trail cls (2 * (new ++ [tok]).length + 2) 1 (place 0 gfs) 0 (some 0) none []
    ((new ++ [tok]).length + 1) (fun f hf => (hP f hf).1) (descGaps_of_noDesc _ hnoDesc) PZ_none
    (by
      have : (new ++ [tok]).length = (fileToks cls 0 (some 0) (place 0 gfs)).length + 1 := by
        have := congrArg List.length hmap; simpa using this
      omega)
    (by
      have : (new ++ [tok]).length = (fileToks cls 0 (some 0) (place 0 gfs)).length + 1 := by
        have := congrArg List.length hmap; simpa using this
      omega)
  have hwalkE : walkFragments true ((new ++ [tok]).map Token.erase) =
      .done (gfs.map fun x => x.2.erase) [] := by
    unfold walkFragments
    have hl : ((new ++ [tok]).map Token.erase).length = (new ++ [tok]).length := by simp
    rw [hl, hmap, hloop, normFrags_noDesc cls _ 0 hnoDesc, place_map_erase]
    rfl
  have hwe := walkFragments_erase true (new ++ [tok])
  rw [hwalkE] at hwe
  cases hw : walkFragments true (new ++ [tok]) with
  | hadErrors es => rw [hw] at hwe; simp [WalkOut.erase] at hwe
  | panic w => rw [hw] at hwe; simp [WalkOut.erase] at hwe
  | done fr es =>
    rw [hw] at hwe
    simp only [WalkOut.erase, WalkOut.done.injEq] at hwe
    have hes : es = [] := List.map_eq_nil_of hwe.2.symm
    subst hes
    -- the tree
    have hflat := fragmentsToFile_flatBody gap body hok.shapeOK
    rw [hgfs] at hflat
    have hfile : (fragmentsToFile fr).erase = (⟨body, []⟩ : File).erase := by
      rw [← fragmentsToFile_erase, ← hwe.1, ← hflat, ← fragmentsToFile_erase]
      simp [List.map_map, Function.comp_def]
    have herr : (fragmentsToFile fr).errors = [] := by
      have := congrArg File.errors hfile
      simp only [File.erase] at this
      exact List.map_eq_nil_of this
    have hbody : Statement.eraseList (fragmentsToFile fr).body = Statement.eraseList body := by
      have := congrArg File.body hfile
      simpa [File.erase] using this
    have hp := parseFile_true_of cls _ (new ++ [tok]) fr hall hw herr
    obtain ⟨t, ht, htb⟩ := parseFile_tree_false cls _ ff _ hp
    exact ⟨t, ht, by rw [htb]; exact hbody⟩

end J5V.Bcl
