/-!
# BCL model: runes, positions, tokens (core only)

Mirrors `/repo/internal/bcl/internal/parser/token.go` and `errpos.Point`.

* A Go `rune` is a `Nat` (code point).  The lexer works on `[]rune(data)`, so positions are in
  runes.  The end-of-input marker `lexerEofChr = -1` is `Option.none` wherever Go compares with it.
* `unicode.IsSpace / IsDigit / IsLetter` and `strconv.IsPrint` are the fields of the parameter
  `Cls`; every theorem holds for every classifier (the driver loads the real tables).
-/
namespace J5V.Bcl

abbrev Rune := Nat

/-- the classifier parameter (`unicode.IsSpace`, `unicode.IsDigit`, `unicode.IsLetter`,
`strconv.IsPrint`). -/
structure Cls where
  isSpace : Rune → Bool
  isDigit : Rune → Bool
  isLetter : Rune → Bool
  isPrint : Rune → Bool

/-! rune constants -/
abbrev cNL : Rune := 10      -- '\n'
abbrev cTAB : Rune := 9      -- '\t'
abbrev cSP : Rune := 32      -- ' '
abbrev cQUOTE : Rune := 34   -- '"'
abbrev cSTAR : Rune := 42    -- '*'
abbrev cDOT : Rune := 46     -- '.'
abbrev cSLASH : Rune := 47   -- '/'
abbrev cBSL : Rune := 92     -- '\\'
abbrev cUS : Rune := 95      -- '_'
abbrev cPIPE : Rune := 124   -- '|'

/-- `errpos.Point` (0-based line and column, in runes). -/
structure Pos where
  line : Nat
  col : Nat
  deriving DecidableEq, Repr, Inhabited

/-- lexicographic order on positions: "start not after end" -/
def Pos.le (p q : Pos) : Prop := p.line < q.line ∨ (p.line = q.line ∧ p.col ≤ q.col)
instance : LE Pos := ⟨Pos.le⟩
instance (p q : Pos) : Decidable (p ≤ q) := by unfold LE.le instLEPos Pos.le; exact inferInstance
def Pos.lt (p q : Pos) : Prop := p.line < q.line ∨ (p.line = q.line ∧ p.col < q.col)
instance : LT Pos := ⟨Pos.lt⟩
instance (p q : Pos) : Decidable (p < q) := by unfold LT.lt instLTPos Pos.lt; exact inferInstance

inductive TokenType where
  | invalid | eof | eol | space
  | ident | string | regex | int | decimal | bool | comment | blockComment | description
  | assign | lbrace | rbrace | lbrack | rbrack | dot | comma | colon | plus | bang | question
  | anyLiteral
  deriving DecidableEq, Repr, Inhabited

namespace TokenType

/-- `literal_beg < tok && tok < literal_end` -/
def isLiteral : TokenType → Bool
  | ident | string | regex | int | decimal | bool | comment | blockComment | description => true
  | _ => false

def isOperator : TokenType → Bool
  | assign | lbrace | rbrace | lbrack | rbrack | dot | comma | colon | plus | bang | question => true
  | _ => false

def canStartTag : TokenType → Bool
  | ident | string | regex | bang | question | bool => true
  | _ => false

/-- canonical name on the line protocol (= Go's `TokenType.String()` for named types) -/
def name : TokenType → String
  | invalid => "INVALID" | eof => "EOF" | eol => "EOL" | space => "SPACE"
  | ident => "IDENT" | string => "STRING" | regex => "REGEX" | int => "INT" | decimal => "DECIMAL"
  | bool => "BOOL" | comment => "COMMENT" | blockComment => "BLOCK_COMMENT"
  | description => "DESCRIPTION"
  | assign => "=" | lbrace => "{" | rbrace => "}" | lbrack => "[" | rbrack => "]" | dot => "."
  | comma => "," | colon => ":" | plus => "+" | bang => "!" | question => "?"
  | anyLiteral => "<Literal>"

end TokenType

/-- the `operators` map built in `init()` from the operator names. -/
def operatorOf (r : Rune) : Option TokenType :=
  if r = 61 then some .assign        -- =
  else if r = 123 then some .lbrace  -- {
  else if r = 125 then some .rbrace  -- }
  else if r = 91 then some .lbrack   -- [
  else if r = 93 then some .rbrack   -- ]
  else if r = 46 then some .dot      -- .
  else if r = 44 then some .comma    -- ,
  else if r = 58 then some .colon    -- :
  else if r = 43 then some .plus     -- +
  else if r = 33 then some .bang     -- !
  else if r = 63 then some .question -- ?
  else none

structure Token where
  ty : TokenType
  lit : List Rune
  start : Pos
  end_ : Pos
  deriving DecidableEq, Repr, Inhabited

/-- Go's zero `Token{}` -/
def Token.zero : Token := ⟨.invalid, [], ⟨0, 0⟩, ⟨0, 0⟩⟩

/-- `newToken(ty, value)` of fmt.go: no position -/
def newToken (ty : TokenType) (lit : List Rune) : Token := ⟨ty, lit, ⟨0, 0⟩, ⟨0, 0⟩⟩

/-- `true` / `false` as rune lists -/
def litTrue : List Rune := [116, 114, 117, 101]
def litFalse : List Rune := [102, 97, 108, 115, 101]

/-- `strings.Split(s, "\n")` on rune lists (always at least one line). -/
def splitLines : List Rune → List (List Rune)
  | [] => [[]]
  | r :: rs =>
    match splitLines rs with
    | [] => [[]]   -- unreachable
    | l :: ls => if r = cNL then [] :: l :: ls else (r :: l) :: ls

/-- `strings.Join(parts, sep)` -/
def joinWith (sep : List Rune) : List (List Rune) → List Rune
  | [] => []
  | [a] => a
  | a :: b :: rest => a ++ sep ++ joinWith sep (b :: rest)

/-- UTF-8 length of a rune as Go's `len(string(r))` (invalid code points become U+FFFD, 3 bytes). -/
def utf8Len (r : Rune) : Nat :=
  if r < 0x80 then 1 else if r < 0x800 then 2
  else if 0xD800 ≤ r ∧ r < 0xE000 then 3
  else if r < 0x10000 then 3 else if r < 0x110000 then 4 else 3

def byteLen (s : List Rune) : Nat := (s.map utf8Len).sum

end J5V.Bcl

namespace J5V.Bcl
/-- a concrete classifier (the ASCII restriction of Go's tables) used only by non-vacuity examples
and counterexample witnesses -/
def asciiCls : Cls where
  isSpace r := (9 ≤ r && r ≤ 13) || r == 32
  isDigit r := 48 ≤ r && r ≤ 57
  isLetter r := (65 ≤ r && r ≤ 90) || (97 ≤ r && r ≤ 122)
  isPrint r := 32 ≤ r && r < 127

/-- ASCII string literal to runes / bytes (examples only) -/
def ofAscii (s : String) : List Nat := s.toList.map Char.toNat
end J5V.Bcl
