import J5V.Bcl.FmtDiffs
import J5V.Bcl.DiffProofs
import J5V.Bcl.ParseFileProofs
import J5V.Bcl.Utf8Proofs
/-!
# The fragment ranges `FmtDiffs` works on are well-formed (`RawWF`) for every source
(derived from the parser's position invariants).
-/
namespace J5V.Bcl

theorem fmtFragment_lines (cls : Cls) (indent : Nat) (f : Fragment) :
    (fmtFragment cls indent f).1.fromLine = f.src.start.line ∧
      (fmtFragment cls indent f).1.toLine = f.src.end_.line + 1 := by
  cases f <;> exact ⟨rfl, rfl⟩

theorem diffFile_rawWF (cls : Cls) (src : List Rune) (n : Nat)
    (hn : n = (splitLines src).length) :
    ∀ (frags : List Fragment) (indent : Nat) (p : Pos) (lo : Nat), lo ≤ p.line + 1 →
      FragChain (InFileLC src) p frags →
      RawWF n lo ((diffFile cls indent frags).map FmtFrag.toEdit) := by
  intro frags
  induction frags with
  | nil => intro indent p lo _ _; trivial
  | cons f fs ih =>
    intro indent p lo hlo hch
    obtain ⟨h1, h2, h3, h4⟩ := hch
    obtain ⟨e1, e2⟩ := fmtFragment_lines cls indent f
    unfold diffFile
    generalize fmtFragment cls indent f = res at e1 e2
    obtain ⟨d, i⟩ := res
    simp only [List.map_cons] at e1 e2 ⊢
    have hsrc := Fragment.src_ok (InFileLC src) h3
    refine ⟨?_, ?_, ?_, ?_⟩
    · show lo ≤ d.fromLine + 1
      rw [e1]; have := Pos.line_le_of_le h1; omega
    · show d.fromLine < d.toLine
      rw [e1, e2]; have := Pos.line_le_of_le h2; omega
    · show d.toLine ≤ n
      rw [e2, hn]; have := hsrc.2.2.1; omega
    · show RawWF n d.toLine _
      rw [e2]
      exact ih i f.src.end_ _ (Nat.le_refl _) h4

/-- for every source the collected fragment ranges satisfy `RawWF` w.r.t. `strings.Split(input, "\n")` -/
theorem fragEdits_rawWF (cls : Cls) (bytes : List Nat) (frags : List Fragment)
    (h : collectFragments cls (decodeRunes bytes) = .ok frags) :
    RawWF (splitLines bytes).length 0 (fragEdits cls frags) := by
  have hc := collectFragments_spec (InFileLC (decodeRunes bytes)) cls (decodeRunes bytes)
    (fun _ h => h.toLC)
  rw [h] at hc
  unfold fragEdits
  exact diffFile_rawWF cls (decodeRunes bytes) _ (lineCount_decodeRunes bytes).symm frags 0 ⟨0, 0⟩ 0
    (Nat.zero_le _) hc

end J5V.Bcl
