import J5V.Bcl.FmtDiffs
import J5V.Bcl.DiffProofs
import J5V.Bcl.ParseFileProofs
import J5V.Bcl.Utf8Proofs
import J5V.Bcl.ApplyProofs
/-!
# The fragment ranges `FmtDiffs` works on are well-formed (`RawWF`) for every source
(derived from the parser's position invariants).
-/
namespace J5V.Bcl

theorem fmtFragment_lines (cls : Cls) (indent : Nat) (f : Fragment) :
    (fmtFragment cls indent f).1.fromLine = f.src.start.line ∧
      (fmtFragment cls indent f).1.toLine = f.src.end_.line + 1 := by
  cases f <;> exact ⟨rfl, rfl⟩

theorem diffFile_rawWF (cls : Cls) (src : List Rune) (n : Nat)
    (hn : n = (splitLines src).length) :
    ∀ (frags : List Fragment) (indent : Nat) (p : Pos) (lo : Nat), lo ≤ p.line + 1 →
      FragChain (InFileLC src) p frags →
      RawWF n lo ((diffFile cls indent frags).map FmtFrag.toEdit) := by
  intro frags
  induction frags with
  | nil => intro indent p lo _ _; trivial
  | cons f fs ih =>
    intro indent p lo hlo hch
    obtain ⟨h1, h2, h3, h4⟩ := hch
    obtain ⟨e1, e2⟩ := fmtFragment_lines cls indent f
    unfold diffFile
    generalize fmtFragment cls indent f = res at e1 e2
    obtain ⟨d, i⟩ := res
    simp only [List.map_cons] at e1 e2 ⊢
    have hsrc := Fragment.src_ok (InFileLC src) h3
    refine ⟨?_, ?_, ?_, ?_⟩
    · show lo ≤ d.fromLine + 1
      rw [e1]; have := Pos.line_le_of_le h1; omega
    · show d.fromLine < d.toLine
      rw [e1, e2]; have := Pos.line_le_of_le h2; omega
    · show d.toLine ≤ n
      rw [e2, hn]; have := hsrc.2.2.1; omega
    · show RawWF n d.toLine _
      rw [e2]
      exact ih i f.src.end_ _ (Nat.le_refl _) h4

/-- for every source the collected fragment ranges satisfy `RawWF` w.r.t. `strings.Split(input, "\n")` -/
theorem fragEdits_rawWF (cls : Cls) (bytes : List Nat) (frags : List Fragment)
    (h : collectFragments cls (decodeRunes bytes) = .ok frags) :
    RawWF (splitLines bytes).length 0 (fragEdits cls frags) := by
  have hc := collectFragments_spec (InFileLC (decodeRunes bytes)) cls (decodeRunes bytes)
    (fun _ h => h.toLC)
  rw [h] at hc
  unfold fragEdits
  exact diffFile_rawWF cls (decodeRunes bytes) _ (lineCount_decodeRunes bytes).symm frags 0 ⟨0, 0⟩ 0
    (Nat.zero_le _) hc


/-! ## `Fmt`'s output is the join of the byte-level fragments; every fragment text ends in `\n` -/

theorem encodeRunes_append (a b : List Rune) : encodeRunes (a ++ b) = encodeRunes a ++ encodeRunes b := by
  simp [encodeRunes]

theorem encodeRunes_nl : encodeRunes [cNL] = [cNL] := by decide

theorem encode_fmtJoin (ds : List FmtFrag) (p : Option Nat) :
    encodeRunes (fmtJoin ds p) = joinFrags (ds.map FmtFrag.toEdit) p := by
  induction ds generalizing p with
  | nil => rfl
  | cons d ds ih =>
    simp only [fmtJoin, List.map_cons, joinFrags, encodeRunes_append, ih]
    congr 1
    congr 1
    cases p with
    | none => rfl
    | some e =>
      show encodeRunes (if d.fromLine > e then [cNL] else []) = if d.fromLine > e then [cNL] else []
      split
      · exact encodeRunes_nl
      · rfl

theorem fmtFragment_ends (cls : Cls) (indent : Nat) (f : Fragment) :
    ∃ x, (fmtFragment cls indent f).1.newText = x ++ [cNL] := by
  cases f <;> exact ⟨_, rfl⟩

theorem fragEdits_ends (cls : Cls) (frags : List Fragment) :
    ∀ d ∈ fragEdits cls frags, ∃ x, d.newText = x ++ [cNL] := by
  unfold fragEdits
  generalize (0 : Nat) = indent
  induction frags generalizing indent with
  | nil => intro d hd; simp [diffFile] at hd
  | cons f fs ih =>
    intro d hd
    unfold diffFile at hd
    obtain ⟨x, hx⟩ := fmtFragment_ends cls indent f
    generalize fmtFragment cls indent f = res at hd hx
    obtain ⟨e, i⟩ := res
    simp only [List.map_cons, List.mem_cons] at hd
    rcases hd with rfl | hd
    · refine ⟨encodeRunes x, ?_⟩
      show encodeRunes e.newText = _
      rw [hx, encodeRunes_append, encodeRunes_nl]
    · exact ih i d hd

/-- a source line is blank: empty or whitespace-only (as runes) -/
def blankLine (cls : Cls) (l : List Nat) : Bool := (decodeRunes l).all cls.isSpace

theorem blankLine_nil (cls : Cls) : blankLine cls [] = true := rfl

/-- the lines after the last fragment are blank (what is left of the file is white space) -/
def TrailingBlank (cls : Cls) (bytes : List Nat) : Prop :=
  ∀ frags, collectFragments cls (decodeRunes bytes) = .ok frags →
    ∀ l ∈ (splitLines bytes).drop (lastTo (fragEdits cls frags) 0), blankLine cls l = true

/-- applying the edits of `FmtDiffs` to the document gives `Fmt`'s output up to trailing blank lines -/
theorem fmtDiffs_apply_eq_fmt (cls : Cls) (bytes : List Nat) (ht : TrailingBlank cls bytes)
    (out : List Nat) (hfmt : fmtSrc cls bytes = .ok out) :
    ∃ es, fmtDiffsSrc cls bytes = .ok es ∧
      EqT (blankLine cls) (applyEdits (splitLines bytes) es) out := by
  unfold fmtSrc fmt at hfmt
  unfold fmtDiffsSrc
  cases hc : collectFragments cls (decodeRunes bytes) with
  | panic s => rw [hc] at hfmt; cases hfmt
  | err => rw [hc] at hfmt; cases hfmt
  | ok frags =>
    rw [hc] at hfmt
    simp only [] at hfmt
    have hout : out = joinFrags (fragEdits cls frags) none := by
      cases hfmt
      exact encode_fmtJoin _ none
    obtain ⟨es, he, heq⟩ := apply_eqT (blankLine cls) (blankLine_nil cls) (splitLines bytes)
      (splitLines_ne_nil bytes) (splitLines_no_nl_mem bytes) (fragEdits cls frags)
      (fragEdits_rawWF cls bytes frags hc) (fragEdits_ends cls frags) (ht frags hc)
    simp only [he]
    exact ⟨es, rfl, by rw [hout]; exact heq⟩

/-- the document the edits are applied to is the source itself -/
theorem joinWith_splitLines (bs : List Nat) : joinWith [cNL] (splitLines bs) = bs := by
  induction bs with
  | nil => rfl
  | cons r rs ih =>
    rw [splitLines_cons]
    cases hs : splitLines rs with
    | nil => exact absurd hs (splitLines_ne_nil rs)
    | cons l ls =>
      rw [hs] at ih
      simp only []
      by_cases hr : r = cNL
      · simp only [hr, if_true]
        show [] ++ [cNL] ++ joinWith [cNL] (l :: ls) = _
        rw [ih]; rfl
      · simp only [hr, if_false]
        cases ls with
        | nil => simp only [joinWith] at ih ⊢; rw [ih]
        | cons l2 ls2 =>
          simp only [joinWith] at ih ⊢
          rw [← ih]; simp

end J5V.Bcl
