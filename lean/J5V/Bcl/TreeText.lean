import J5V.Bcl.FmtInv
/-!
# Printing a BCL syntax tree as text, two spaces per level (definitions; core only)

`flatBody gap` flattens a statement list to the fragment list the BCL walker reads it from (header, body,
closing brace), each fragment with a flag "a blank line is printed in front of it" decided by the rule `gap`
(parent block header, previous statement of the same body, the statement). `renderFrags` prints the
fragments: every fragment on its own line(s), indented by two spaces per open block, the token text of
`Fmt` (`headerTokens` / `assignTokens` / `tokenSource`: single spaces between tokens, `type:qualifier`,
`! tag`, `[a, b]`, strings quoted with `\\` before `"` and `\\`). `renderFile` adds the final blank line.
The plain style of the harness printer `j5sgen.PrintFile` is `renderFile plainGap (toBcl ast)`
(`J5V/Walker/PrintText.lean`), checked on every op of the stream `walker.print`.
-/
namespace J5V.Bcl

def spaces (n : Nat) : List Rune := List.replicate n cSP

/-- the closing brace fragment -/
def closeFrag : CloseBlock := ⟨⟨.rbrace, [125], ⟨0, 0⟩, ⟨0, 0⟩⟩, ⟨⟨0, 0⟩, ⟨0, 0⟩⟩⟩

/-- blank line in front of a statement? (parent block header, previous statement in the body, statement) -/
abbrev GapRule := Option BlockHeader → Option Statement → Statement → Bool

mutual
/-- fragments of a statement; `g` = blank line in front of it -/
def flatStmt (gap : GapRule) (g : Bool) : Statement → List (Bool × Fragment)
  | .block h body =>
    (g, .header h) :: (flatBody gap (some h) none body ++
      (if h.isOpen then [(false, Fragment.close closeFrag)] else []))
  | .assign a => [(g, .assign a)]
  | .desc d => [(g, .desc d)]
def flatBody (gap : GapRule) (parent : Option BlockHeader) (prev : Option Statement) :
    List Statement → List (Bool × Fragment)
  | [] => []
  | s :: rest => flatStmt gap (gap parent prev s) s ++ flatBody gap parent (some s) rest
end

/-- the lines of one fragment without indentation (the text `Fmt` prints at indent 0; stand-alone
descriptions do not occur in the trees printed here) -/
def fragText (f : Fragment) : List Rune := (fmtFragment asciiCls 0 f).1.newText

/-- the fragments as text: optional blank line, two spaces per open block, the fragment's text -/
def renderFrags : Nat → List (Bool × Fragment) → List Rune
  | _, [] => []
  | ind, (g, f) :: rest =>
    let here := match f with
      | .close _ => ind - 1
      | _ => ind
    let next := match f with
      | .header h => if h.isOpen then ind + 1 else ind
      | .close _ => ind - 1
      | _ => ind
    (if g then [cNL] else []) ++ (spaces (2 * here) ++ fragText f) ++ renderFrags next rest

/-- the text of a file: its statements, then one blank line -/
def renderFile (gap : GapRule) (body : List Statement) : List Rune :=
  renderFrags 0 (flatBody gap none none body) ++ [cNL]

/-! ## what the round-trip theorem needs from the tree -/

mutual
/-- every header / assignment has the shape the BCL walker produces (`HeaderWF` / `AssignWF`: identifier
literals, tags, literal values …), a block without `{` has no body, there is no stand-alone description -/
def StmtTextOK (cls : Cls) : Statement → Prop
  | .block h body => HeaderWF cls h ∧ (h.isOpen = false → body = []) ∧ BodyTextOK cls body
  | .assign a => AssignWF cls a
  | .desc _ => False
def BodyTextOK (cls : Cls) : List Statement → Prop
  | [] => True
  | s :: rest => StmtTextOK cls s ∧ BodyTextOK cls rest
end

/-- a fragment moved to line `L` (all other position data zero): positions only decide where `Fmt` puts
blank lines -/
def Fragment.atLine (L : Nat) : Fragment → Fragment
  | .header h => .header { h with src := ⟨⟨L, 0⟩, ⟨L, 0⟩, h.src.comment⟩ }
  | .assign a => .assign { a with src := ⟨⟨L, 0⟩, ⟨L, 0⟩, a.src.comment⟩ }
  | .desc d => .desc { d with span := ⟨⟨L, 0⟩, ⟨L, 0⟩⟩ }
  | .comment c => .comment { c with span := ⟨⟨L, 0⟩, ⟨L, 0⟩⟩ }
  | .close c => .close { c with span := ⟨⟨L, 0⟩, ⟨L, 0⟩⟩ }

/-- the fragments placed on the lines they are printed on (`L` = the next free line) -/
def place : Nat → List (Bool × Fragment) → List Fragment
  | _, [] => []
  | L, (g, f) :: rest =>
    let L' := if g then L + 1 else L
    f.atLine L' :: place (L' + 1) rest

end J5V.Bcl
