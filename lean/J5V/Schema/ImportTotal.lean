import J5V.Schema.Export
/-!
# The importer never panics — on **any** source API (C15, hardening)

`PackageSetFromSourceAPI` used to dereference an absent `ArrayField.items`,
`MapField.item_schema` or `ObjectProperty.schema`; with the nil check in `schemaFromDesc` these
are errors, and no `.panic` arm of the model is reachable any more: the two `unreachable` arms
follow a call of `objectFromDesc` / `oneofFromDesc`, which only ever return an object / oneof root.
-/
namespace J5V.Schema
open J5V.Go

def NoPanic {α} (o : Outcome α) : Prop := ∀ w, o ≠ .panic w

theorem scalarFromDesc_np (tag : STag) (fmt : Nat) (pay : String) : NoPanic (scalarFromDesc tag fmt pay) := by
  intro w
  unfold scalarFromDesc
  repeat' split
  all_goals simp

theorem objectFromDesc_shape (pkg : String) (o : DObject) (r : SRoot)
    (h : objectFromDesc pkg o = .ok r) : ∃ p n d e a ps, r = .object p n d e a ps := by
  cases o with
  | mk name description entity anyMember props =>
    rw [objectFromDesc] at h
    split at h
    · cases h; exact ⟨_, _, _, _, _, _, rfl⟩
    · cases h
    · cases h

theorem oneofFromDesc_shape (pkg : String) (o : DOneof) (r : SRoot)
    (h : oneofFromDesc pkg o = .ok r) : ∃ p n d ps, r = .oneof p n d ps := by
  cases o with
  | mk name description props =>
    rw [oneofFromDesc] at h
    split at h
    · cases h; exact ⟨_, _, _, _, rfl⟩
    · cases h
    · cases h

mutual
theorem fieldFromDesc_np (pkg : String) : (d : DField) → NoPanic (fieldFromDesc pkg d)
  | .unset => by intro w; simp [fieldFromDesc]
  | .scalar tag fmt pay => by rw [fieldFromDesc]; exact scalarFromDesc_np tag fmt pay
  | .any _ _ _ => by intro w; simp [fieldFromDesc]
  | .objectRef _ _ _ _ _ => by intro w; simp [fieldFromDesc]
  | .objectInline o _ _ _ _ => by
    intro w
    rw [fieldFromDesc]
    have hnp := objectFromDesc_np pkg o
    split
    · simp
    · rename_i r hne hr
      obtain ⟨p, n, d, e, a, ps, rfl⟩ := objectFromDesc_shape pkg o r hr
      exact absurd rfl (hne p n d e a ps)
    · simp
    · rename_i w' hw'; exact absurd hw' (hnp w')
  | .objectNone _ _ _ _ => by intro w; simp [fieldFromDesc]
  | .oneofRef _ _ _ _ => by intro w; simp [fieldFromDesc]
  | .oneofInline o _ _ _ => by
    intro w
    rw [fieldFromDesc]
    have hnp := oneofFromDesc_np pkg o
    split
    · simp
    · rename_i r hne hr
      obtain ⟨p, n, d, ps, rfl⟩ := oneofFromDesc_shape pkg o r hr
      exact absurd rfl (hne p n d ps)
    · simp
    · rename_i w' hw'; exact absurd hw' (hnp w')
  | .oneofNone _ _ _ => by intro w; simp [fieldFromDesc]
  | .enumRef _ _ _ _ => by intro w; simp [fieldFromDesc]
  | .enumInline _ _ _ _ => by intro w; simp [fieldFromDesc]
  | .enumNone _ _ _ => by intro w; simp [fieldFromDesc]
  | .array none _ _ => by intro w; simp [fieldFromDesc]
  | .array (some items) _ _ => by
    intro w
    rw [fieldFromDesc]
    have hnp := fieldFromDesc_np pkg items
    split
    · simp
    · simp
    · rename_i w' hw'; exact absurd hw' (hnp w')
  | .map none _ _ _ => by intro w; simp [fieldFromDesc]
  | .map (some item) _ _ _ => by
    intro w
    rw [fieldFromDesc]
    have hnp := fieldFromDesc_np pkg item
    split
    · simp
    · simp
    · rename_i w' hw'; exact absurd hw' (hnp w')
theorem propFromDesc_np (pkg : String) : (p : DProp) → NoPanic (propFromDesc pkg p)
  | .mk _ _ _ _ _ none => by intro w; simp [propFromDesc]
  | .mk _ _ _ _ _ (some schema) => by
    intro w
    rw [propFromDesc]
    have hnp := fieldFromDesc_np pkg schema
    split
    · simp
    · simp
    · rename_i w' hw'; exact absurd hw' (hnp w')
theorem propsFromDesc_np (pkg : String) : (ps : List DProp) → NoPanic (propsFromDesc pkg ps)
  | [] => by intro w; simp [propsFromDesc]
  | p :: ps => by
    intro w
    rw [propsFromDesc]
    have h1 := propFromDesc_np pkg p
    have h2 := propsFromDesc_np pkg ps
    split
    · split
      · simp
      · simp
      · rename_i w' hw'; exact absurd hw' (h2 w')
    · simp
    · rename_i w' hw'; exact absurd hw' (h1 w')
theorem objectFromDesc_np (pkg : String) : (o : DObject) → NoPanic (objectFromDesc pkg o)
  | .mk _ _ _ _ props => by
    intro w
    rw [objectFromDesc]
    have hnp := propsFromDesc_np pkg props
    split
    · simp
    · simp
    · rename_i w' hw'; exact absurd hw' (hnp w')
theorem oneofFromDesc_np (pkg : String) : (o : DOneof) → NoPanic (oneofFromDesc pkg o)
  | .mk _ _ props => by
    intro w
    rw [oneofFromDesc]
    have hnp := propsFromDesc_np pkg props
    split
    · simp
    · simp
    · rename_i w' hw'; exact absurd hw' (hnp w')
end

theorem rootFromDesc_np (pkg : String) (d : DRoot) : NoPanic (rootFromDesc pkg d) := by
  cases d with
  | object o => exact objectFromDesc_np pkg o
  | oneof o => exact oneofFromDesc_np pkg o
  | enum e => intro w; simp [rootFromDesc]
  | unset => intro w; simp [rootFromDesc]

theorem buildSchema_np (env : Env) (p k : String) (d : DRoot) : NoPanic (buildSchema env p k d) := by
  intro w
  unfold buildSchema
  simp only
  have hnp := rootFromDesc_np p d
  split
  · simp
  · split
    · simp
    · simp
    · rename_i w' hw'; exact absurd hw' (hnp w')

theorem buildSchemas_np (env : Env) (p : String) (l : List (String × DRoot)) :
    NoPanic (buildSchemas env p l) := by
  induction l generalizing env with
  | nil => intro w; simp [buildSchemas]
  | cons x xs ih =>
    obtain ⟨k, d⟩ := x
    intro w
    rw [buildSchemas]
    split
    · exact ih _ w
    · simp
    · rename_i w' hw'; exact absurd hw' (buildSchema_np env p k d w')

theorem buildPackages_np (env : Env) (api : Api) : NoPanic (buildPackages env api) := by
  induction api generalizing env with
  | nil => intro w; simp [buildPackages]
  | cons x xs ih =>
    obtain ⟨p, schemas⟩ := x
    intro w
    rw [buildPackages]
    split
    · exact ih _ w
    · simp
    · rename_i w' hw'; exact absurd hw' (buildSchemas_np _ p schemas w')

theorem linkWalk_np (env : Env) (seen : List String) (stack : List SRef) :
    NoPanic (linkWalk env seen stack) := by
  induction seen, stack using linkWalk.induct env with
  | case1 seen => intro w; simp [linkWalk]
  | case2 seen ref rest hreg hl =>
    intro w
    rw [linkWalk]
    simp only [hreg, ↓reduceDIte]
    split
    · simp
    · rename_i e h; rw [hl] at h; cases h
  | case3 seen ref rest hreg e hl ht =>
    intro w
    rw [linkWalk]
    simp only [hreg, ↓reduceDIte]
    split
    · simp
    · rename_i e' h'
      have : e' = e := by rw [hl] at h'; cases h'; rfl
      subst this
      split
      · simp
      · rename_i r h2; rw [ht] at h2; cases h2
  | case4 seen ref rest hreg e hl r ht hs ih =>
    intro w
    rw [linkWalk]
    simp only [hreg, ↓reduceDIte]
    split
    · rename_i h; rw [hl] at h; cases h
    · rename_i e' h'
      have : e' = e := by rw [hl] at h'; cases h'; rfl
      subst this
      split
      · rename_i h2; rw [ht] at h2; cases h2
      · rename_i r' h2
        have : r' = r := by rw [ht] at h2; cases h2; rfl
        subst this
        simp only [hs, ↓reduceDIte]
        exact ih w
  | case5 seen ref rest hreg e hl r ht hs ih =>
    intro w
    rw [linkWalk]
    simp only [hreg, ↓reduceDIte]
    split
    · rename_i h; rw [hl] at h; cases h
    · rename_i e' h'
      have : e' = e := by rw [hl] at h'; cases h'; rfl
      subst this
      split
      · rename_i h2; rw [ht] at h2; cases h2
      · rename_i r' h2
        have : r' = r := by rw [ht] at h2; cases h2; rfl
        subst this
        simp only [hs, Bool.false_eq_true, ↓reduceDIte]
        exact ih w
  | case6 seen ref rest hreg => intro w; rw [linkWalk]; simp [hreg]

theorem assertAll_np (env : Env) (ps : List String) : NoPanic (assertAll env ps) := by
  induction ps with
  | nil => intro w; simp [assertAll]
  | cons p ps ih =>
    intro w
    rw [assertAll]
    split
    · exact ih w
    · simp
    · rename_i w' hw'
      exact absurd hw' (linkWalk_np env [] _ w')

/-- **`PackageSetFromSourceAPI` never panics**, whatever source API it is given -/
theorem packageSetFromSourceAPI_np (api : Api) : NoPanic (packageSetFromSourceAPI api) := by
  intro w
  unfold packageSetFromSourceAPI
  split
  · rename_i env henv
    split
    · simp
    · simp
    · rename_i w' hw'; exact absurd hw' (assertAll_np env env.pkgs w')
  · simp
  · rename_i w' hw'; exact absurd hw' (buildPackages_np Env.empty api w')

end J5V.Schema
