import J5V.Schema.Reader
/-!
# Lemmas for C18: the reader never panics on a linked descriptor set whose enum names are free
-/
namespace J5V.Schema.Reader
open J5V.Go J5V.Schema

def enumRoot : Option RRoot → Bool
  | some (.enum _ _ _ _) => true
  | _ => false

/-- (p, k) is the schema name of an enum of the set -/
def isEnumKey (ds : DescSet) (p k : String) : Bool := ds.enums.any fun en => en.pkg == p && en.split == k

/-- no message and no oneof shares its schema name with an enum (the part of "no name collision"
that the reader's unchecked `ref.To.(*EnumSchema)` depends on) -/
def enumNamesFree (ds : DescSet) : Bool :=
  ds.msgs.all fun m => !isEnumKey ds m.pkg m.split && m.oneofs.all fun o => !isEnumKey ds m.pkg o.split

/-- what `protodesc` guarantees about a field's type: a message / enum kind comes with its
descriptor, the descriptor is in the set (for messages: unless the reader never looks it up), an
enum has at least one value -/
def targetLinked (ds : DescSet) (kind : PKind) (t : Target) : Bool :=
  match kind with
  | .message =>
    match t with
    | .msg full _ _ => !needsLookup full || (ds.msg? full).isSome
    | _ => false
  | .enum =>
    match t with
    | .enum full _ _ =>
      match ds.enum? full with
      | some en => !en.values.isEmpty
      | none => false
    | _ => false
  | _ => true

def fieldLinked (ds : DescSet) (f : FieldD) : Bool :=
  match f.card with
  | .map =>
    match f.mapVal with
    | some (vk, vt, _) => targetLinked ds vk vt
    | none => false
  | _ => targetLinked ds f.kind f.target

/-- the set is linked (trusted: protodesc / protoregistry) -/
def linked (ds : DescSet) : Bool :=
  (ds.msgs.all fun m => m.fields.all (fieldLinked ds)) &&
  (ds.topMsgs.all fun full => (ds.msg? full).isSome) &&
  (ds.allMsgs.all fun full => (ds.msg? full).isSome) &&
  (ds.topEnums.all fun full =>
    match ds.enum? full with
    | some en => !en.values.isEmpty
    | none => false)

/-- the entry registered under an enum's schema name holds an enum schema -/
def RegOK (ds : DescSet) (reg : Reg) : Prop :=
  ∀ p k, isEnumKey ds p k = true → ∀ e, reg.find p k = some e → enumRoot e.to = true

def opSafe (ds : DescSet) : RegOp → Bool
  | .add p k _ => !isEnumKey ds p k
  | .set p k r => !isEnumKey ds p k || enumRoot (some r)
  | .link p k _ r => !isEnumKey ds p k || enumRoot (some r)

theorem Reg.find_pred (reg : Reg) (p k : String) (e : REntry) (h : reg.find p k = some e) :
    e.pkg = p ∧ e.key = k := by
  unfold Reg.find at h
  have := List.find?_some h
  simpa using this

theorem Reg.find_append (reg : Reg) (x : REntry) (p k : String) :
    Reg.find (reg ++ [x]) p k =
      match reg.find p k with
      | some e => some e
      | none => if x.pkg == p && x.key == k then some x else none := by
  unfold Reg.find
  rw [List.find?_append]
  cases List.find? (fun e => e.pkg == p && e.key == k) reg with
  | some e => rfl
  | none =>
    simp only [List.find?_cons, List.find?_nil, Option.none_or]
    cases (x.pkg == p && x.key == k) <;> rfl

theorem Reg.find_map_set (reg : Reg) (p0 k0 : String) (root : RRoot) (p k : String) :
    Reg.find (reg.map fun e => if e.pkg == p0 && e.key == k0 then { e with to := some root } else e) p k
      = (reg.find p k).map fun e => if e.pkg == p0 && e.key == k0 then { e with to := some root } else e := by
  unfold Reg.find
  rw [List.find?_map]
  have hcomp : ((fun e : REntry => e.pkg == p && e.key == k) ∘ fun e : REntry =>
      if e.pkg == p0 && e.key == k0 then { e with to := some root } else e) =
      (fun e : REntry => e.pkg == p && e.key == k) := by
    funext e
    simp only [Function.comp]
    split <;> rfl
  rw [hcomp]

theorem RegOK.apply {ds : DescSet} {reg : Reg} (h : RegOK ds reg) (op : RegOp)
    (hs : opSafe ds op = true) : RegOK ds (reg.apply op) := by
  intro p k hk e he
  cases op with
  | add p0 k0 src =>
    simp only [Reg.apply] at he
    split at he
    · exact h p k hk e he
    · rw [Reg.find_append] at he
      cases hf : reg.find p k with
      | some e' => rw [hf] at he; cases he; exact h p k hk _ hf
      | none =>
        rw [hf] at he
        simp only at he
        split at he
        · rename_i hm
          simp only [Bool.and_eq_true, beq_iff_eq] at hm
          obtain ⟨rfl, rfl⟩ := hm
          simp [opSafe, hk] at hs
        · cases he
  | set p0 k0 r =>
    simp only [Reg.apply] at he
    rw [Reg.find_map_set] at he
    cases hf : reg.find p k with
    | none => rw [hf] at he; cases he
    | some e' =>
      rw [hf] at he
      simp only [Option.map_some, Option.some.injEq] at he
      obtain ⟨hp, hkk⟩ := Reg.find_pred reg p k e' hf
      by_cases hm : (e'.pkg == p0 && e'.key == k0) = true
      · simp only [hm, ↓reduceIte] at he
        subst he
        simp only [Bool.and_eq_true, beq_iff_eq] at hm
        obtain ⟨h1, h2⟩ := hm
        rw [hp] at h1; rw [hkk] at h2
        subst h1; subst h2
        simpa [opSafe, hk] using hs
      · simp only [hm, Bool.false_eq_true, ↓reduceIte] at he
        subst he
        exact h p k hk _ hf
  | link p0 k0 src r =>
    simp only [Reg.apply] at he
    split at he
    · exact h p k hk e he
    · rw [Reg.find_append] at he
      cases hf : reg.find p k with
      | some e' => rw [hf] at he; cases he; exact h p k hk _ hf
      | none =>
        rw [hf] at he
        simp only at he
        split at he
        · rename_i hm
          simp only [Bool.and_eq_true, beq_iff_eq] at hm
          obtain ⟨rfl, rfl⟩ := hm
          cases he
          simpa [opSafe, hk] using hs
        · cases he

theorem RegOK.applyAll {ds : DescSet} {reg : Reg} (h : RegOK ds reg) (ops : List RegOp)
    (hs : ops.all (opSafe ds) = true) : RegOK ds (reg.applyAll ops) := by
  induction ops generalizing reg with
  | nil => exact h
  | cons op ops ih =>
    simp only [List.all_cons, Bool.and_eq_true] at hs
    simp only [Reg.applyAll, List.foldl_cons]
    exact ih (h.apply op hs.1) hs.2

theorem RegOK.nil (ds : DescSet) : RegOK ds [] := by
  intro p k _ e he
  simp [Reg.find] at he

/-! ## the local builders never panic (on linked input, with a sound registry) -/

theorem numRules_noPanic (e : Ext) (g : String) (w : String) : numRules e g ≠ .panic w := by
  unfold numRules
  repeat' split
  all_goals simp

theorem stringValidate_noPanic (v : Option Validate) (w : String) : stringValidate v ≠ .panic w := by
  unfold stringValidate
  repeat' split
  all_goals simp

theorem stringForeignKey_noPanic (f : Option String) (sw fk : String) (w : String) :
    stringForeignKey f sw fk ≠ .panic w := by
  unfold stringForeignKey
  repeat' split
  all_goals simp

theorem stringOpenText_noPanic (sw : String) (f : Option String) (k : Option KeySum) (w : String) :
    stringOpenText sw f k ≠ .panic w := by
  unfold stringOpenText
  repeat' split
  all_goals simp

theorem stringKind_noPanic (like : Bool) (k : Option J5Sum) (w : String) :
    stringKind like k ≠ .panic w := by
  unfold stringKind
  repeat' split
  all_goals simp

theorem buildString_noPanic (e : Ext) (key : Option KeySum) (w : String) :
    buildString e key ≠ .panic w := by
  unfold buildString
  apply bind_noPanic (stringValidate_noPanic _)
  intro a _
  apply bind_noPanic (stringForeignKey_noPanic _ _ _)
  intro f2 _
  apply bind_noPanic (stringOpenText_noPanic _ _ _)
  intro _ _
  exact stringKind_noPanic _ _

theorem buildScalar_noPanic (kind : PKind) (e : Ext) (key : Option KeySum) (w : String) :
    buildScalar kind e key ≠ .panic w := by
  unfold buildScalar
  split
  · exact map_noPanic (buildString_noPanic e key) w
  · simp
  all_goals first
    | exact map_noPanic (numRules_noPanic e _) w
    | simp

theorem wktSchema_noPanic (full : String) (e : Ext) (w : String) : wktSchema full e ≠ .panic w := by
  unfold wktSchema
  repeat' split
  all_goals simp

theorem wktSchema_none (full : String) (e : Ext) (h : wktSchema full e = .ok none) :
    isWkt full = false := by
  unfold wktSchema at h
  unfold isWkt
  repeat' split at h
  all_goals first
    | cases h
    | skip
  simp_all

theorem findPSM_noPanic (m : Msg) (w : String) : findPSM m ≠ .panic w := by
  unfold findPSM
  simp only
  repeat' split
  all_goals simp

theorem enumRules_noPanic (o : List (String × Int)) (a b : List Int) (w : String) :
    enumRules o a b ≠ .panic w := by
  unfold enumRules
  repeat' split
  all_goals simp

theorem buildEnum_noPanic (en : EnumD) (h : en.values.isEmpty = false) (w : String) :
    buildEnum en ≠ .panic w := by
  unfold buildEnum
  split
  · rename_i hv; simp [hv] at h
  · split <;> simp

theorem buildEnum_enumRoot (en : EnumD) (r : RRoot) (h : buildEnum en = .ok r) :
    enumRoot (some r) = true := by
  unfold buildEnum at h
  split at h
  · cases h
  · split at h
    · cases h
    · cases h; rfl

theorem enum?_mem (ds : DescSet) (full : String) (en : EnumD) (h : ds.enum? full = some en) :
    en ∈ ds.enums := by
  unfold DescSet.enum? at h
  exact List.mem_of_find?_eq_some h

theorem msg?_mem (ds : DescSet) (full : String) (m : Msg) (h : ds.msg? full = some m) :
    m ∈ ds.msgs := by
  unfold DescSet.msg? at h
  exact List.mem_of_find?_eq_some h

theorem isEnumKey_of_mem (ds : DescSet) (en : EnumD) (h : en ∈ ds.enums) :
    isEnumKey ds en.pkg en.split = true := by
  unfold isEnumKey
  simp only [List.any_eq_true, Bool.and_eq_true, beq_iff_eq]
  exact ⟨en, h, rfl, rfl⟩

/-- after `enumTarget` the reference's target is an enum schema (given a sound registry) -/
theorem enumTarget_spec (ds : DescSet) (reg : Reg) (full : String) (en : EnumD)
    (hreg : RegOK ds reg) (hen : en ∈ ds.enums) (hv : en.values.isEmpty = false) :
    (∀ w, enumTarget reg full en ≠ .panic w) ∧
    ∀ to ops, enumTarget reg full en = .ok (to, ops) →
      enumRoot to = true ∧ ops.all (opSafe ds) = true := by
  unfold enumTarget
  split
  · rename_i ent hf
    refine ⟨by simp, ?_⟩
    intro to ops h
    cases h
    exact ⟨hreg _ _ (isEnumKey_of_mem ds en hen) ent hf, rfl⟩
  · refine ⟨map_noPanic (buildEnum_noPanic en hv), ?_⟩
    intro to ops h
    obtain ⟨r, hr, hx⟩ := map_eq_ok h
    cases hx
    have := buildEnum_enumRoot en r hr
    refine ⟨this, ?_⟩
    simp only [List.all_cons, List.all_nil, Bool.and_true, opSafe]
    simp [this]

theorem enumCheck_noPanic (to : Option RRoot) (vt : VType) (h : enumRoot to = true) (w : String) :
    enumCheck to vt ≠ .panic w := by
  unfold enumCheck
  split
  · split
    · exact enumRules_noPanic _ _ _ w
    · rename_i r hne
      cases r with
      | enum a b c d => exact absurd rfl (hne a b c d)
      | object a b c d e => simp [enumRoot] at h
      | oneof a b c => simp [enumRoot] at h
    · simp [enumRoot] at h
  · simp

theorem buildEnumField_spec (ds : DescSet) (reg : Reg) (full : String) (e : Ext)
    (hreg : RegOK ds reg)
    (hl : (match ds.enum? full with | some en => !en.values.isEmpty | none => false) = true) :
    (∀ w, buildEnumField ds reg full e ≠ .panic w) ∧
    ∀ f ops, buildEnumField ds reg full e = .ok (f, ops) → ops.all (opSafe ds) = true := by
  unfold buildEnumField
  cases hen : ds.enum? full with
  | none => simp [hen] at hl
  | some en =>
    simp only [hen] at hl
    have hv : en.values.isEmpty = false := by simpa using hl
    have hmem := enum?_mem ds full en hen
    obtain ⟨hnp, hspec⟩ := enumTarget_spec ds reg full en hreg hmem hv
    simp only
    constructor
    · apply bind_noPanic hnp
      intro a ha
      obtain ⟨to, ops⟩ := a
      exact map_noPanic (enumCheck_noPanic to _ (hspec to ops ha).1)
    · intro f ops h
      obtain ⟨⟨to, ops'⟩, ha, h2⟩ := bind_eq_ok h
      obtain ⟨_, _, hx⟩ := map_eq_ok h2
      cases hx
      exact (hspec to ops' ha).2

theorem referenceMessage_spec (ds : DescSet) (reg : Reg) (full : String) (fl : Bool)
    (hfree : enumNamesFree ds = true) (hl : (!needsLookup full || (ds.msg? full).isSome) = true)
    (hw : isWkt full = false) :
    (∀ w, referenceMessage ds reg full fl ≠ .panic w) ∧
    ∀ b, referenceMessage ds reg full fl = .ok b → b.ops.all (opSafe ds) = true := by
  unfold referenceMessage
  split
  · exact ⟨by simp, by intro b h; cases h⟩
  · rename_i hg
    have hsome : (ds.msg? full).isSome = true := by
      simp only [needsLookup, hw, Bool.not_false, Bool.true_and, Bool.not_not, Bool.or_eq_true] at hl
      rcases hl with h | h
      · exact absurd h hg
      · exact h
    cases hm : ds.msg? full with
    | none => simp [hm] at hsome
    | some m =>
      simp only
      have hmem := msg?_mem ds full m hm
      have hk : isEnumKey ds m.pkg m.split = false := by
        unfold enumNamesFree at hfree
        have := List.all_eq_true.mp hfree m hmem
        simp only [Bool.and_eq_true, Bool.not_eq_eq_eq_not, Bool.not_true] at this
        exact this.1
      constructor
      · intro w; split <;> simp
      · intro b h
        split at h
        · cases h; rfl
        · cases h
          simp [opSafe, hk]

theorem buildMessageField_spec (ds : DescSet) (reg : Reg) (full : String) (e : Ext)
    (hfree : enumNamesFree ds = true) (hl : (!needsLookup full || (ds.msg? full).isSome) = true) :
    (∀ w, buildMessageField ds reg full e ≠ .panic w) ∧
    ∀ b, buildMessageField ds reg full e = .ok b → b.ops.all (opSafe ds) = true := by
  unfold buildMessageField
  simp only
  constructor
  · apply bind_noPanic (wktSchema_noPanic full e)
    intro a ha
    cases a with
    | some f => simp
    | none => exact (referenceMessage_spec ds reg full _ hfree hl (wktSchema_none full e ha)).1
  · intro b h
    obtain ⟨a, ha, h2⟩ := bind_eq_ok h
    cases a with
    | some f => cases h2; rfl
    | none => exact (referenceMessage_spec ds reg full _ hfree hl (wktSchema_none full e ha)).2 b h2

theorem buildSchema_spec (ds : DescSet) (reg : Reg) (kind : PKind) (t : Target) (e : Ext)
    (key : Option KeySum) (hreg : RegOK ds reg) (hfree : enumNamesFree ds = true)
    (hl : targetLinked ds kind t = true) :
    (∀ w, buildSchema ds reg kind t e key ≠ .panic w) ∧
    ∀ b, buildSchema ds reg kind t e key = .ok b → b.ops.all (opSafe ds) = true := by
  unfold buildSchema
  unfold targetLinked at hl
  split
  · -- message
    simp only at hl
    split
    · rename_i full p k
      simp only at hl
      exact buildMessageField_spec ds reg full e hfree hl
    · rename_i hne
      split at hl
      · rename_i full p k; exact absurd rfl (hne full p k)
      · cases hl
  · -- enum
    simp only at hl
    split
    · rename_i full p k
      simp only at hl
      obtain ⟨hnp, hops⟩ := buildEnumField_spec ds reg full e hreg hl
      constructor
      · exact map_noPanic hnp
      · intro b h
        obtain ⟨⟨f, ops⟩, ha, hx⟩ := map_eq_ok h
        cases hx
        exact hops f ops ha
    · rename_i hne
      split at hl
      · rename_i full p k; exact absurd rfl (hne full p k)
      · cases hl
  · constructor
    · exact map_noPanic (buildScalar_noPanic kind e key)
    · intro b h
      obtain ⟨⟨tag, fmt⟩, _, hx⟩ := map_eq_ok h
      cases hx; rfl

theorem propertyPlan_spec (ds : DescSet) (f : FieldD) (hl : fieldLinked ds f = true) :
    (∀ w, propertyPlan f ≠ .panic w) ∧
    ∀ kind t e key mk, propertyPlan f = .ok (kind, t, e, key, mk) → targetLinked ds kind t = true := by
  unfold propertyPlan
  unfold fieldLinked at hl
  cases hc : f.card with
  | list =>
    simp only [hc] at hl ⊢
    refine ⟨by simp, ?_⟩
    intro kind t e key mk h
    cases h
    exact hl
  | single =>
    simp only [hc] at hl ⊢
    refine ⟨by simp, ?_⟩
    intro kind t e key mk h
    cases h
    exact hl
  | map =>
    simp only [hc] at hl ⊢
    split
    · exact ⟨by simp, by intro _ _ _ _ _ h; cases h⟩
    · cases hmv : f.mapVal with
      | none => simp [hmv] at hl
      | some x =>
        obtain ⟨vk, vt, vkey⟩ := x
        simp only [hmv] at hl ⊢
        refine ⟨by simp, ?_⟩
        intro kind t e key mk h
        cases h
        exact hl

theorem buildProperty_spec (ds : DescSet) (reg : Reg) (f : FieldD) (hreg : RegOK ds reg)
    (hfree : enumNamesFree ds = true) (hl : fieldLinked ds f = true) :
    (∀ w, buildProperty ds reg f ≠ .panic w) ∧
    ∀ prop b, buildProperty ds reg f = .ok (prop, b) → b.ops.all (opSafe ds) = true := by
  unfold buildProperty
  obtain ⟨hnp, hplan⟩ := propertyPlan_spec ds f hl
  constructor
  · apply bind_noPanic hnp
    intro a ha
    obtain ⟨kind, t, e, key, mk⟩ := a
    exact map_noPanic (buildSchema_spec ds reg kind t e key hreg hfree (hplan _ _ _ _ _ ha)).1
  · intro prop b h
    obtain ⟨⟨kind, t, e, key, mk⟩, ha, h2⟩ := bind_eq_ok h
    obtain ⟨b', hb', hx⟩ := map_eq_ok h2
    cases hx
    exact (buildSchema_spec ds reg kind t e key hreg hfree (hplan _ _ _ _ _ ha)).2 b hb'

/-! ## frames and the machine -/

def FrameOK (ds : DescSet) (fr : Frame) : Prop :=
  fr.msg ∈ ds.msgs ∧ (∀ f ∈ fr.rest, f ∈ fr.msg.fields) ∧ (∀ x ∈ fr.expose, x.2.1 ∈ fr.msg.oneofs)

def Good (ds : DescSet) (st : St) : Prop := RegOK ds st.reg ∧ ∀ fr ∈ st.stack, FrameOK ds fr

theorem msgKey_free (ds : DescSet) (hfree : enumNamesFree ds = true) (m : Msg) (hm : m ∈ ds.msgs) :
    isEnumKey ds m.pkg m.split = false ∧ ∀ o ∈ m.oneofs, isEnumKey ds m.pkg o.split = false := by
  unfold enumNamesFree at hfree
  have := List.all_eq_true.mp hfree m hm
  simp only [Bool.and_eq_true, Bool.not_eq_eq_eq_not, Bool.not_true, List.all_eq_true] at this
  exact this

theorem exposeOneofs_spec (ds : DescSet) (m : Msg) (hm : m ∈ ds.msgs)
    (hfree : enumNamesFree ds = true) (os : List OneofD) (hos : ∀ o ∈ os, o ∈ m.oneofs) (reg : Reg)
    (i : Nat) :
    (∀ w, exposeOneofs m reg i os ≠ .panic w) ∧
    ∀ ex ops, exposeOneofs m reg i os = .ok (ex, ops) →
      ops.all (opSafe ds) = true ∧ ∀ x ∈ ex, x.2.1 ∈ m.oneofs := by
  induction os generalizing reg i with
  | nil =>
    simp only [exposeOneofs]
    refine ⟨by simp, ?_⟩
    intro ex ops h; cases h; simp
  | cons o os ih =>
    have hos' : ∀ o' ∈ os, o' ∈ m.oneofs := fun o' h => hos o' (List.mem_cons_of_mem _ h)
    have ho : o ∈ m.oneofs := hos o (List.mem_cons_self ..)
    unfold exposeOneofs
    split
    · exact ih hos' reg (i + 1)
    · split
      · exact ⟨by simp, by intro _ _ h; cases h⟩
      · simp only
        obtain ⟨hnp, hok⟩ := ih hos'
          (reg.apply (.link m.pkg o.split (m.full ++ "." ++ o.name) (.oneof m.pkg o.split []))) (i + 1)
        constructor
        · intro w
          split <;> simp_all
        · intro ex ops h
          split at h
          · rename_i ex' ops' hrec
            obtain ⟨h1, h2⟩ := hok ex' ops' hrec
            cases h
            constructor
            · simp only [List.all_cons, Bool.and_eq_true]
              refine ⟨?_, h1⟩
              simp [opSafe, (msgKey_free ds hfree m hm).2 o ho]
            · intro x hx
              rcases List.mem_cons.mp hx with rfl | hx'
              · exact ho
              · exact h2 x hx'
          · cases h
          · cases h

theorem enter_spec (ds : DescSet) (m : Msg) (hm : m ∈ ds.msgs) (hfree : enumNamesFree ds = true)
    (reg : Reg) :
    (∀ w, enter m reg ≠ .panic w) ∧
    ∀ fr ops, enter m reg = .ok (fr, ops) → ops.all (opSafe ds) = true ∧ FrameOK ds fr := by
  unfold enter
  obtain ⟨hnp, hok⟩ := exposeOneofs_spec ds m hm hfree m.oneofs (fun _ h => h) reg 0
  constructor
  · intro w
    split <;> simp_all
  · intro fr ops h
    split at h
    · rename_i ex ops' hex
      obtain ⟨h1, h2⟩ := hok ex ops' hex
      cases h
      exact ⟨h1, hm, fun _ h => h, h2⟩
    · cases h
    · cases h

theorem finish_spec (ds : DescSet) (fr : Frame) (hfr : FrameOK ds fr)
    (hfree : enumNamesFree ds = true) :
    (∀ w, finish fr ≠ .panic w) ∧ ∀ ops, finish fr = .ok ops → ops.all (opSafe ds) = true := by
  obtain ⟨hm, _, hex⟩ := hfr
  obtain ⟨hk, hko⟩ := msgKey_free ds hfree fr.msg hm
  have hexpose : (fr.expose.map fun (x : Nat × OneofD × List RProp) =>
      RegOp.set fr.msg.pkg x.2.1.split (.oneof fr.msg.pkg x.2.1.split x.2.2)).all (opSafe ds) = true := by
    simp only [List.all_map, List.all_eq_true]
    intro x hx
    simp [Function.comp, opSafe, hko _ (hex x hx)]
  unfold finish
  split
  · exact ⟨by simp, by intro _ h; cases h⟩
  · split
    · exact ⟨by simp, by intro _ h; cases h⟩
    · split
      · exact ⟨by simp, by intro _ h; cases h⟩
      · split
        · exact ⟨by simp, by intro _ h; cases h⟩
        · simp only
          split
          · refine ⟨by simp, ?_⟩
            intro ops h
            cases h
            simp only [List.all_append, Bool.and_eq_true]
            exact ⟨hexpose, by simp [opSafe, hk]⟩
          · constructor
            · intro w
              have := findPSM_noPanic fr.msg
              split <;> simp_all
            · intro ops h
              split at h
              · cases h
              · cases h
              · cases h
                simp only [List.all_append, Bool.and_eq_true]
                exact ⟨hexpose, by simp [opSafe, hk]⟩

theorem place_frameOK (ds : DescSet) (fr : Frame) (f : FieldD) (prop : RProp)
    (h : FrameOK ds fr) : FrameOK ds (place fr f prop) := by
  obtain ⟨h1, h2, h3⟩ := h
  unfold place
  simp only
  split
  · exact ⟨h1, h2, h3⟩
  · have hmap : ∀ i : Nat, ∀ x ∈ (fr.expose.map fun (x : Nat × OneofD × List RProp) =>
        if x.1 == i then (x.1, x.2.1, x.2.2 ++ [prop]) else (x.1, x.2.1, x.2.2)), x.2.1 ∈ fr.msg.oneofs := by
      intro i x hx
      obtain ⟨y, hy, rfl⟩ := List.mem_map.mp hx
      split <;> exact h3 y hy
    split
    · exact ⟨h1, h2, hmap _⟩
    · exact ⟨h1, h2, hmap _⟩

/-- one transition from a good state does not crash and leads to a good state -/
theorem step_safe (ds : DescSet) (hl : linked ds = true) (hfree : enumNamesFree ds = true) (st : St)
    (hg : Good ds st) :
    (∀ w, step ds st ≠ .crash w) ∧ (∀ st', step ds st = .cont st' → Good ds st') ∧
    (∀ reg, step ds st = .done reg → RegOK ds reg) := by
  obtain ⟨hreg, hframes⟩ := hg
  unfold step
  split
  · refine ⟨?_, ?_, ?_⟩
    · intro w; simp
    · intro st' h; cases h
    · intro reg h; cases h; exact hreg
  · rename_i fr below hstack
    have hfr : FrameOK ds fr := hframes fr (by simp [hstack])
    have hbelow : ∀ fr' ∈ below, FrameOK ds fr' := fun fr' h => hframes fr' (by simp [hstack, h])
    split
    · -- finish
      obtain ⟨hnp, hops⟩ := finish_spec ds fr hfr hfree
      refine ⟨?_, ?_, ?_⟩
      · intro w; split <;> simp_all
      · intro st' h
        split at h
        · rename_i ops hfin
          cases h
          exact ⟨hreg.applyAll ops (hops ops hfin), hbelow⟩
        · cases h
        · cases h
      · intro reg h; split at h <;> cases h
    · rename_i f fs hrest
      have hf : f ∈ fr.msg.fields := hfr.2.1 f (by simp [hrest])
      have hfl : fieldLinked ds f = true := by
        unfold linked at hl
        simp only [Bool.and_eq_true, List.all_eq_true] at hl
        exact hl.1.1.1 fr.msg hfr.1 f hf
      obtain ⟨hnp, hops⟩ := buildProperty_spec ds st.reg f hreg hfree hfl
      have hfr' : ∀ prop, FrameOK ds (place { fr with rest := fs } f prop) := by
        intro prop
        apply place_frameOK
        refine ⟨hfr.1, ?_, hfr.2.2⟩
        intro g hg
        exact hfr.2.1 g (by simp [hrest, hg])
      refine ⟨?_, ?_, ?_⟩
      · intro w
        split
        · simp
        · rename_i w' hb; exact absurd hb (hnp w')
        · rename_i prop b hb
          simp only
          split
          · simp
          · rename_i m hpush
            have hm := (buildProperty_push ds st.reg f prop b m hb hpush).1
            have := (enter_spec ds m hm hfree (st.reg.applyAll b.ops)).1
            split <;> simp_all
      · intro st' h
        split at h
        · cases h
        · cases h
        · rename_i prop b hb
          have hreg' : RegOK ds (st.reg.applyAll b.ops) := hreg.applyAll b.ops (hops prop b hb)
          simp only at h
          split at h
          · cases h
            refine ⟨hreg', ?_⟩
            intro fr' hfr''
            rcases List.mem_cons.mp hfr'' with rfl | hb'
            · exact hfr' prop
            · exact hbelow fr' hb'
          · rename_i m hpush
            have hm := (buildProperty_push ds st.reg f prop b m hb hpush).1
            obtain ⟨_, hent⟩ := enter_spec ds m hm hfree (st.reg.applyAll b.ops)
            split at h
            · rename_i child ops hchild
              cases h
              obtain ⟨hsafe, hchildOK⟩ := hent child ops hchild
              refine ⟨hreg'.applyAll ops hsafe, ?_⟩
              intro fr' hfr''
              rcases List.mem_cons.mp hfr'' with rfl | hb'
              · exact hchildOK
              · rcases List.mem_cons.mp hb' with rfl | hb''
                · exact hfr' prop
                · exact hbelow fr' hb''
            · cases h
            · cases h
      · intro reg h
        split at h
        · cases h
        · cases h
        · simp only at h
          split at h
          · cases h
          · split at h <;> cases h

theorem run_done (ds : DescSet) (st : St) (reg : Reg) (h : step ds st = .done reg) :
    run ds st = .ok reg := by
  rw [run.eq_1]; split <;> simp_all

theorem run_fail (ds : DescSet) (st : St) (e : String) (h : step ds st = .fail e) :
    run ds st = .err e := by
  rw [run.eq_1]; split <;> simp_all

theorem run_crash (ds : DescSet) (st : St) (w : String) (h : step ds st = .crash w) :
    run ds st = .panic w := by
  rw [run.eq_1]; split <;> simp_all

theorem run_cont (ds : DescSet) (st st' : St) (h : step ds st = .cont st') :
    run ds st = run ds st' := by
  rw [run.eq_1]; split <;> simp_all

/-- from a good state the machine never panics, and a result is a sound registry -/
theorem run_safe (ds : DescSet) (hl : linked ds = true) (hfree : enumNamesFree ds = true) (st : St) :
    Good ds st → (∀ w, run ds st ≠ .panic w) ∧ (∀ reg, run ds st = .ok reg → RegOK ds reg) := by
  induction st using run.induct ds with
  | case1 x reg h =>
    intro hg
    rw [run_done ds x reg h]
    refine ⟨by simp, ?_⟩
    intro reg' h'; cases h'
    exact (step_safe ds hl hfree x hg).2.2 reg h
  | case2 x e h =>
    intro _
    rw [run_fail ds x e h]
    exact ⟨by simp, by intro _ h'; cases h'⟩
  | case3 x w h =>
    intro hg
    exact absurd h ((step_safe ds hl hfree x hg).1 w)
  | case4 x st' h ih =>
    intro hg
    rw [run_cont ds x st' h]
    exact ih ((step_safe ds hl hfree x hg).2.1 st' h)

theorem buildMessage_safe (ds : DescSet) (hl : linked ds = true) (hfree : enumNamesFree ds = true)
    (reg : Reg) (m : Msg) (hm : m ∈ ds.msgs) (hreg : RegOK ds reg) :
    (∀ w, buildMessage ds reg m ≠ .panic w) ∧ (∀ reg', buildMessage ds reg m = .ok reg' → RegOK ds reg') := by
  unfold buildMessage
  simp only
  have hk := (msgKey_free ds hfree m hm).1
  have hreg1 : RegOK ds (reg.apply (.add m.pkg m.split m.full)) :=
    hreg.apply _ (by simp [opSafe, hk])
  obtain ⟨hnp, hent⟩ := enter_spec ds m hm hfree (reg.apply (.add m.pkg m.split m.full))
  split
  · rename_i fr ops hen
    obtain ⟨hsafe, hfr⟩ := hent fr ops hen
    apply run_safe ds hl hfree
    refine ⟨hreg1.applyAll ops hsafe, ?_⟩
    intro fr' h
    simp only [List.mem_singleton] at h
    subst h
    exact hfr
  · exact ⟨by simp, by intro _ h; cases h⟩
  · rename_i w hen
    exact absurd hen (hnp w)

theorem messageSchema_safe (ds : DescSet) (hl : linked ds = true) (hfree : enumNamesFree ds = true)
    (reg : Reg) (m : Msg) (hm : m ∈ ds.msgs) (hreg : RegOK ds reg) :
    (∀ w, messageSchema ds reg m ≠ .panic w) ∧ (∀ reg', messageSchema ds reg m = .ok reg' → RegOK ds reg') := by
  unfold messageSchema
  split
  · split
    · refine ⟨by simp, ?_⟩
      intro reg' h; cases h; exact hreg
    · exact ⟨by simp, by intro _ h; cases h⟩
  · exact buildMessage_safe ds hl hfree reg m hm hreg

theorem messagesLoop_safe (ds : DescSet) (hl : linked ds = true) (hfree : enumNamesFree ds = true)
    (names : List String) (hn : ∀ full ∈ names, (ds.msg? full).isSome = true) (reg : Reg)
    (hreg : RegOK ds reg) :
    (∀ w, messagesLoop ds reg names ≠ .panic w) ∧
    (∀ reg', messagesLoop ds reg names = .ok reg' → RegOK ds reg') := by
  induction names generalizing reg with
  | nil =>
    simp only [messagesLoop]
    refine ⟨by simp, ?_⟩
    intro reg' h; cases h; exact hreg
  | cons full rest ih =>
    have hfull := hn full (List.mem_cons_self ..)
    have hrest : ∀ f ∈ rest, (ds.msg? f).isSome = true := fun f h => hn f (List.mem_cons_of_mem _ h)
    unfold messagesLoop
    cases hm : ds.msg? full with
    | none => simp [hm] at hfull
    | some m =>
      simp only
      obtain ⟨hnp, hok⟩ := messageSchema_safe ds hl hfree reg m (msg?_mem ds full m hm) hreg
      split
      · rename_i reg' hms
        exact ih hrest reg' (hok reg' hms)
      · exact ⟨by simp, by intro _ h; cases h⟩
      · rename_i w hms
        exact absurd hms (hnp w)

theorem enumsLoop_safe (ds : DescSet) (names : List String)
    (hn : ∀ full ∈ names, (match ds.enum? full with | some en => !en.values.isEmpty | none => false) = true)
    (reg : Reg) (hreg : RegOK ds reg) :
    (∀ w, enumsLoop ds reg names ≠ .panic w) ∧
    (∀ reg', enumsLoop ds reg names = .ok reg' → RegOK ds reg') := by
  induction names generalizing reg with
  | nil =>
    simp only [enumsLoop]
    refine ⟨by simp, ?_⟩
    intro reg' h; cases h; exact hreg
  | cons full rest ih =>
    have hfull := hn full (List.mem_cons_self ..)
    have hrest := fun f (h : f ∈ rest) => hn f (List.mem_cons_of_mem _ h)
    unfold enumsLoop
    cases hen : ds.enum? full with
    | none => simp [hen] at hfull
    | some en =>
      simp only [hen] at hfull
      have hv : en.values.isEmpty = false := by simpa using hfull
      simp only
      split
      · exact ih hrest reg hreg
      · split
        · rename_i r hb
          apply ih hrest
          apply hreg.apply
          simp [opSafe, buildEnum_enumRoot en r hb]
        · exact ⟨by simp, by intro _ h; cases h⟩
        · rename_i w hb
          exact absurd hb (buildEnum_noPanic en hv w)

theorem schemaSetFromFiles_safe (ds : DescSet) (hl : linked ds = true)
    (hfree : enumNamesFree ds = true) :
    (∀ w, schemaSetFromFiles ds ≠ .panic w) ∧
    (∀ reg, schemaSetFromFiles ds = .ok reg → RegOK ds reg) := by
  have hl' := hl
  unfold linked at hl'
  simp only [Bool.and_eq_true, List.all_eq_true] at hl'
  obtain ⟨⟨⟨_, htop⟩, _⟩, htopE⟩ := hl'
  obtain ⟨hnp, hok⟩ := messagesLoop_safe ds hl hfree ds.topMsgs htop [] (RegOK.nil ds)
  unfold schemaSetFromFiles
  split
  · rename_i reg hm
    exact enumsLoop_safe ds ds.topEnums htopE reg (hok reg hm)
  · exact ⟨by simp, by intro _ h; cases h⟩
  · rename_i w hm
    exact absurd hm (hnp w)

/-- `SchemaCache.Schema` keeps the cache sound and does not panic -/
theorem cacheSchema_safe (ds : DescSet) (hl : linked ds = true) (hfree : enumNamesFree ds = true)
    (reg : Reg) (m : Msg) (hm : m ∈ ds.msgs) (hreg : RegOK ds reg) :
    (∀ w, (cacheSchema ds reg m).1 ≠ .panic w) ∧ RegOK ds (cacheSchema ds reg m).2 := by
  obtain ⟨hnp, hok⟩ := messageSchema_safe ds hl hfree reg m hm hreg
  unfold cacheSchema
  split
  · rename_i reg' h
    exact ⟨by simp, hok reg' h⟩
  · exact ⟨by simp, hreg⟩
  · rename_i w h
    exact absurd h (hnp w)

/-! ## a fuel-bounded evaluator, for `decide`-able examples

`run` is defined by well-founded recursion, which the kernel does not unfold. `runN` is the same
loop with a step budget; whenever it finishes it agrees with `run` (`runN_sound`), so concrete
witnesses can be evaluated by `decide`. It is used for examples and counterexamples only. -/

def runN (ds : DescSet) : Nat → St → Option (Outcome Reg)
  | 0, _ => none
  | n + 1, st =>
    match step ds st with
    | .done reg => some (.ok reg)
    | .fail e => some (.err e)
    | .crash w => some (.panic w)
    | .cont st' => runN ds n st'

theorem runN_sound (ds : DescSet) (n : Nat) (st : St) (r : Outcome Reg)
    (h : runN ds n st = some r) : run ds st = r := by
  induction n generalizing st with
  | zero => cases h
  | succ n ih =>
    unfold runN at h
    split at h
    · rename_i reg hs; cases h; exact run_done ds st reg hs
    · rename_i e hs; cases h; exact run_fail ds st e hs
    · rename_i w hs; cases h; exact run_crash ds st w hs
    · rename_i st' hs; rw [run_cont ds st st' hs]; exact ih st' h

def buildMessageN (ds : DescSet) (n : Nat) (reg : Reg) (m : Msg) : Option (Outcome Reg) :=
  let reg1 := reg.apply (.add m.pkg m.split m.full)
  match enter m reg1 with
  | .ok (fr, ops) => runN ds n ⟨reg1.applyAll ops, [fr]⟩
  | .err x => some (.err x)
  | .panic w => some (.panic w)

theorem buildMessageN_sound (ds : DescSet) (n : Nat) (reg : Reg) (m : Msg) (r : Outcome Reg)
    (h : buildMessageN ds n reg m = some r) : buildMessage ds reg m = r := by
  unfold buildMessageN at h
  unfold buildMessage
  simp only at h ⊢
  split at h
  · rename_i fr ops he; simp only [he]; exact runN_sound ds n _ r h
  · rename_i x he; simp only [he]; cases h; rfl
  · rename_i w he; simp only [he]; cases h; rfl

def messageSchemaN (ds : DescSet) (n : Nat) (reg : Reg) (m : Msg) : Option (Outcome Reg) :=
  match reg.find m.pkg m.split with
  | some e =>
    match e.to with
    | some _ => some (.ok reg)
    | none => some (.err "unlinked ref")
  | none => buildMessageN ds n reg m

theorem messageSchemaN_sound (ds : DescSet) (n : Nat) (reg : Reg) (m : Msg) (r : Outcome Reg)
    (h : messageSchemaN ds n reg m = some r) : messageSchema ds reg m = r := by
  unfold messageSchemaN at h
  unfold messageSchema
  split at h
  · rename_i e hf
    simp only [hf]
    split at h
    · rename_i x hx; simp only [hx]; cases h; rfl
    · rename_i hx; simp only [hx]; cases h; rfl
  · rename_i hf
    simp only [hf]
    exact buildMessageN_sound ds n reg m r h

def messagesLoopN (ds : DescSet) (n : Nat) (reg : Reg) : List String → Option (Outcome Reg)
  | [] => some (.ok reg)
  | full :: rest =>
    match ds.msg? full with
    | none => some (.panic "message descriptor not in the set")
    | some m =>
      match messageSchemaN ds n reg m with
      | some (.ok reg') => messagesLoopN ds n reg' rest
      | some (.err x) => some (.err x)
      | some (.panic w) => some (.panic w)
      | none => none

theorem messagesLoopN_sound (ds : DescSet) (n : Nat) (names : List String) (reg : Reg)
    (r : Outcome Reg) (h : messagesLoopN ds n reg names = some r) : messagesLoop ds reg names = r := by
  induction names generalizing reg with
  | nil => simp only [messagesLoopN] at h; cases h; rfl
  | cons full rest ih =>
    unfold messagesLoopN at h
    unfold messagesLoop
    split at h
    · rename_i hm; simp only [hm]; cases h; rfl
    · rename_i m hm
      simp only [hm]
      split at h
      · rename_i reg' hs
        rw [messageSchemaN_sound ds n reg m _ hs]
        exact ih reg' h
      · rename_i x hs
        rw [messageSchemaN_sound ds n reg m _ hs]
        cases h; rfl
      · rename_i w hs
        rw [messageSchemaN_sound ds n reg m _ hs]
        cases h; rfl
      · cases h

def schemaSetFromFilesN (ds : DescSet) (n : Nat) : Option (Outcome Reg) :=
  match messagesLoopN ds n [] ds.topMsgs with
  | some (.ok reg) => some (enumsLoop ds reg ds.topEnums)
  | some (.err x) => some (.err x)
  | some (.panic w) => some (.panic w)
  | none => none

theorem schemaSetFromFilesN_sound (ds : DescSet) (n : Nat) (r : Outcome Reg)
    (h : schemaSetFromFilesN ds n = some r) : schemaSetFromFiles ds = r := by
  unfold schemaSetFromFilesN at h
  unfold schemaSetFromFiles
  split at h
  · rename_i reg hs; rw [messagesLoopN_sound ds n _ _ _ hs]; cases h; rfl
  · rename_i x hs; rw [messagesLoopN_sound ds n _ _ _ hs]; cases h; rfl
  · rename_i w hs; rw [messagesLoopN_sound ds n _ _ _ hs]; cases h; rfl
  · cases h

end J5V.Schema.Reader
