import J5V.Schema.Reader
/-!
# Lemmas for C18: the reader never panics on a linked descriptor set

Invariants of the package set while the reader runs (`RegOK`):
* every entry is the one found under its own name (names are registered once);
* an entry registered for an enum descriptor (`src`) holds an enum schema.
Frames own the names they registered (`Owns`): the entry under the message's name, and under the
name of each exposed oneof, was registered for exactly that descriptor — `RefSchema.claim`
(af1da62) turns every other case into an error before anything is built.
-/
namespace J5V.Schema.Reader
open J5V.Go J5V.Schema

def enumRoot : Option RRoot → Bool
  | some (.enum _ _ _ _) => true
  | _ => false

/-- `src` is the full name of an enum of the set -/
def srcIsEnum (ds : DescSet) (src : String) : Bool := ds.enums.any fun en => en.full == src

/-- what `protodesc` guarantees about a field's type: a message / enum kind comes with its
descriptor, the descriptor is in the set (for messages: unless the reader never looks it up), an
enum has at least one value -/
def targetLinked (ds : DescSet) (kind : PKind) (t : Target) : Bool :=
  match kind with
  | .message =>
    match t with
    | .msg full _ _ => !needsLookup full || (ds.msg? full).isSome
    | _ => false
  | .enum =>
    match t with
    | .enum full _ _ =>
      match ds.enum? full with
      | some en => !en.values.isEmpty
      | none => false
    | _ => false
  | _ => true

def fieldLinked (ds : DescSet) (f : FieldD) : Bool :=
  match f.card with
  | .map =>
    match f.mapVal with
    | some (vk, vt, _) => targetLinked ds vk vt
    | none => false
  | _ => targetLinked ds f.kind f.target

/-- the core of `linked` (trusted: protodesc / protoregistry): field types resolve, enums are not
empty, the listed top-level names exist, and full names are unique across kinds (no message and no
oneof has the full name of an enum) -/
def linkedBase (ds : DescSet) : Bool :=
  (ds.msgs.all fun m => m.fields.all (fieldLinked ds)) &&
  (ds.topMsgs.all fun full => (ds.msg? full).isSome) &&
  (ds.allMsgs.all fun full => (ds.msg? full).isSome) &&
  (ds.topEnums.all fun full =>
    match ds.enum? full with
    | some en => !en.values.isEmpty
    | none => false) &&
  (ds.msgs.all fun m => !srcIsEnum ds m.full &&
    m.oneofs.all fun o => !srcIsEnum ds (m.full ++ "." ++ o.name)) &&
  (ds.msgs.all fun m => (ds.msg? m.full).isSome)

theorem Reg.find_pred (reg : Reg) (p k : String) (e : REntry) (h : reg.find p k = some e) :
    e.pkg = p ∧ e.key = k := by
  unfold Reg.find at h
  have := List.find?_some h
  simpa using this

theorem Reg.find_append (reg : Reg) (x : REntry) (p k : String) :
    Reg.find (reg ++ [x]) p k =
      match reg.find p k with
      | some e => some e
      | none => if x.pkg == p && x.key == k then some x else none := by
  unfold Reg.find
  rw [List.find?_append]
  cases List.find? (fun e => e.pkg == p && e.key == k) reg with
  | some e => rfl
  | none =>
    simp only [List.find?_cons, List.find?_nil, Option.none_or]
    cases (x.pkg == p && x.key == k) <;> rfl

theorem Reg.find_map_set (reg : Reg) (p0 k0 : String) (root : RRoot) (p k : String) :
    Reg.find (reg.map fun e => if e.pkg == p0 && e.key == k0 then { e with to := some root } else e) p k
      = (reg.find p k).map fun e => if e.pkg == p0 && e.key == k0 then { e with to := some root } else e := by
  unfold Reg.find
  rw [List.find?_map]
  have hcomp : ((fun e : REntry => e.pkg == p && e.key == k) ∘ fun e : REntry =>
      if e.pkg == p0 && e.key == k0 then { e with to := some root } else e) =
      (fun e : REntry => e.pkg == p && e.key == k) := by
    funext e
    simp only [Function.comp]
    split <;> rfl
  rw [hcomp]


/-! ## the registry invariant -/

/-- every entry is the one found under its own name -/
def Found (reg : Reg) : Prop := ∀ e ∈ reg, reg.find e.pkg e.key = some e

def RegOK (ds : DescSet) (reg : Reg) : Prop :=
  Found reg ∧ ∀ e ∈ reg, srcIsEnum ds e.src = true → enumRoot e.to = true

/-- an update keeps the invariant -/
def opSafe (ds : DescSet) (reg : Reg) : RegOp → Prop
  | .add _ _ src => srcIsEnum ds src = false
  | .link _ _ src r => srcIsEnum ds src = false ∨ enumRoot (some r) = true
  | .set p k r => enumRoot (some r) = true ∨ ∀ e, reg.find p k = some e → srcIsEnum ds e.src = false

def opsSafe (ds : DescSet) : Reg → List RegOp → Prop
  | _, [] => True
  | reg, op :: ops => opSafe ds reg op ∧ opsSafe ds (reg.apply op) ops

theorem Found.append {reg : Reg} (h : Found reg) (x : REntry) (hx : reg.find x.pkg x.key = none) :
    Found (reg ++ [x]) := by
  intro e he
  rw [Reg.find_append]
  rcases List.mem_append.mp he with he' | he'
  · rw [h e he']
  · simp only [List.mem_singleton] at he'
    subst he'
    simp [hx]

theorem Found.set {reg : Reg} (h : Found reg) (p k : String) (r : RRoot) :
    Found (reg.map fun e => if e.pkg == p && e.key == k then { e with to := some r } else e) := by
  intro e he
  obtain ⟨e0, he0, rfl⟩ := List.mem_map.mp he
  have hk : (if e0.pkg == p && e0.key == k then { e0 with to := some r } else e0).pkg = e0.pkg ∧
      (if e0.pkg == p && e0.key == k then { e0 with to := some r } else e0).key = e0.key := by
    split <;> exact ⟨rfl, rfl⟩
  rw [hk.1, hk.2, Reg.find_map_set, h e0 he0]
  rfl

theorem RegOK.apply {ds : DescSet} {reg : Reg} (h : RegOK ds reg) (op : RegOp)
    (hs : opSafe ds reg op) : RegOK ds (reg.apply op) := by
  obtain ⟨hfound, henum⟩ := h
  cases op with
  | add p k src =>
    simp only [Reg.apply]
    split
    · exact ⟨hfound, henum⟩
    · rename_i hhas
      have hnone : reg.find p k = none := by
        cases hf : reg.find p k with
        | none => rfl
        | some x => simp [Reg.has, hf] at hhas
      refine ⟨hfound.append ⟨p, k, none, src⟩ hnone, ?_⟩
      intro e he hse
      rcases List.mem_append.mp he with he' | he'
      · exact henum e he' hse
      · simp only [List.mem_singleton] at he'
        subst he'
        simp only [opSafe] at hs
        simp [hs] at hse
  | set p k r =>
    simp only [Reg.apply]
    refine ⟨hfound.set p k r, ?_⟩
    intro e he hse
    obtain ⟨e0, he0, rfl⟩ := List.mem_map.mp he
    by_cases hm : (e0.pkg == p && e0.key == k) = true
    · simp only [hm, ↓reduceIte] at hse ⊢
      simp only [opSafe] at hs
      rcases hs with hs | hs
      · exact hs
      · simp only [Bool.and_eq_true, beq_iff_eq] at hm
        have hf := hfound e0 he0
        rw [hm.1, hm.2] at hf
        have := hs e0 hf
        simp [this] at hse
    · simp only [hm, Bool.false_eq_true, ↓reduceIte] at hse ⊢
      exact henum e0 he0 hse
  | link p k src r =>
    simp only [Reg.apply]
    split
    · exact ⟨hfound, henum⟩
    · rename_i hhas
      have hnone : reg.find p k = none := by
        cases hf : reg.find p k with
        | none => rfl
        | some x => simp [Reg.has, hf] at hhas
      refine ⟨hfound.append ⟨p, k, some r, src⟩ hnone, ?_⟩
      intro e he hse
      rcases List.mem_append.mp he with he' | he'
      · exact henum e he' hse
      · simp only [List.mem_singleton] at he'
        subst he'
        simp only [opSafe] at hs
        rcases hs with hs | hs
        · simp [hs] at hse
        · exact hs

theorem RegOK.applyAll {ds : DescSet} {reg : Reg} (h : RegOK ds reg) (ops : List RegOp)
    (hs : opsSafe ds reg ops) : RegOK ds (reg.applyAll ops) := by
  induction ops generalizing reg with
  | nil => exact h
  | cons op ops ih =>
    simp only [Reg.applyAll, List.foldl_cons]
    exact ih (h.apply op hs.1) hs.2

theorem RegOK.nil (ds : DescSet) : RegOK ds [] :=
  ⟨(by intro e he; cases he), (by intro e he; cases he)⟩

/-- updates whose safety does not depend on the registry -/
def opFree (ds : DescSet) : RegOp → Prop
  | .add _ _ src => srcIsEnum ds src = false
  | .link _ _ src r => srcIsEnum ds src = false ∨ enumRoot (some r) = true
  | .set _ _ r => enumRoot (some r) = true

theorem opsSafe_of_free (ds : DescSet) (reg : Reg) (ops : List RegOp)
    (h : ∀ op ∈ ops, opFree ds op) : opsSafe ds reg ops := by
  induction ops generalizing reg with
  | nil => trivial
  | cons op ops ih =>
    refine ⟨?_, ih _ (fun o ho => h o (List.mem_cons_of_mem _ ho))⟩
    have := h op (List.mem_cons_self ..)
    cases op with
    | add p k src => exact this
    | link p k src r => exact this
    | set p k r => exact Or.inl this

/-! ## owning a name -/

/-- the name (p, k) is registered, and for the descriptor `src` -/
def Owns (reg : Reg) (p k src : String) : Prop := ∃ e, reg.find p k = some e ∧ e.src = src

theorem Owns.apply {reg : Reg} {p k src : String} (h : Owns reg p k src) (op : RegOp) :
    Owns (reg.apply op) p k src := by
  obtain ⟨e, hf, hs⟩ := h
  cases op with
  | add p0 k0 s0 =>
    simp only [Reg.apply]
    split
    · exact ⟨e, hf, hs⟩
    · exact ⟨e, by rw [Reg.find_append, hf], hs⟩
  | set p0 k0 r =>
    simp only [Reg.apply]
    refine ⟨_, by rw [Reg.find_map_set, hf]; rfl, ?_⟩
    simp only
    split <;> exact hs
  | link p0 k0 s0 r =>
    simp only [Reg.apply]
    split
    · exact ⟨e, hf, hs⟩
    · exact ⟨e, by rw [Reg.find_append, hf], hs⟩

theorem Owns.applyAll {reg : Reg} {p k src : String} (h : Owns reg p k src) (ops : List RegOp) :
    Owns (reg.applyAll ops) p k src := by
  induction ops generalizing reg with
  | nil => exact h
  | cons op ops ih => simp only [Reg.applyAll, List.foldl_cons]; exact ih (h.apply op)

theorem Owns.add_new (reg : Reg) (p k src : String) (h : reg.find p k = none) :
    Owns (reg.apply (.add p k src)) p k src := by
  simp only [Reg.apply, Reg.has, h, Option.isSome_none, Bool.false_eq_true, ↓reduceIte]
  exact ⟨⟨p, k, none, src⟩, by rw [Reg.find_append, h]; simp, rfl⟩

theorem Owns.link_new (reg : Reg) (p k src : String) (r : RRoot) (h : reg.find p k = none) :
    Owns (reg.apply (.link p k src r)) p k src := by
  simp only [Reg.apply, Reg.has, h, Option.isSome_none, Bool.false_eq_true, ↓reduceIte]
  exact ⟨⟨p, k, some r, src⟩, by rw [Reg.find_append, h]; simp, rfl⟩

/-- a `set` under a name owned for a non-enum descriptor is safe, whatever was applied before -/
theorem opSafe_set_owned (ds : DescSet) (reg : Reg) (p k src : String) (r : RRoot)
    (h : Owns reg p k src) (hs : srcIsEnum ds src = false) : opSafe ds reg (.set p k r) := by
  obtain ⟨e, hf, he⟩ := h
  refine Or.inr ?_
  intro e' hf'
  rw [hf] at hf'
  cases hf'
  rw [he]; exact hs

/-! ## the local builders never panic (on linked input, with a sound registry) -/

theorem numRules_noPanic (e : Ext) (g : String) (w : String) : numRules e g ≠ .panic w := by
  unfold numRules
  repeat' split
  all_goals simp

theorem stringValidate_noPanic (v : Option Validate) (own : Bool) (w : String) :
    stringValidate v own ≠ .panic w := by
  unfold stringValidate
  repeat' split
  all_goals simp

theorem stringForeignKey_noPanic (f : Option String) (sw fk : String) (w : String) :
    stringForeignKey f sw fk ≠ .panic w := by
  unfold stringForeignKey
  repeat' split
  all_goals simp

theorem stringOpenText_noPanic (sw : String) (f : Option String) (k : Option KeySum) (w : String) :
    stringOpenText sw f k ≠ .panic w := by
  unfold stringOpenText
  repeat' split
  all_goals simp

theorem stringKind_noPanic (like : Bool) (k : Option J5Sum) (w : String) :
    stringKind like k ≠ .panic w := by
  unfold stringKind
  repeat' split
  all_goals simp

theorem buildString_noPanic (e : Ext) (key : Option KeySum) (w : String) :
    buildString e key ≠ .panic w := by
  unfold buildString
  apply bind_noPanic (stringValidate_noPanic _ _)
  intro a _
  apply bind_noPanic (stringForeignKey_noPanic _ _ _)
  intro f2 _
  apply bind_noPanic (stringOpenText_noPanic _ _ _)
  intro _ _
  exact stringKind_noPanic _ _

theorem buildScalar_noPanic (kind : PKind) (e : Ext) (key : Option KeySum) (w : String) :
    buildScalar kind e key ≠ .panic w := by
  unfold buildScalar
  split
  · exact map_noPanic (buildString_noPanic e key) w
  · simp
  all_goals first
    | exact map_noPanic (numRules_noPanic e _) w
    | simp

theorem wktSchema_noPanic (full : String) (e : Ext) (w : String) : wktSchema full e ≠ .panic w := by
  unfold wktSchema
  repeat' split
  all_goals simp

theorem wktSchema_none (full : String) (e : Ext) (h : wktSchema full e = .ok none) :
    isWkt full = false := by
  unfold wktSchema at h
  unfold isWkt
  repeat' split at h
  all_goals first
    | cases h
    | skip
  simp_all

theorem findPSM_noPanic (m : Msg) (w : String) : findPSM m ≠ .panic w := by
  unfold findPSM
  simp only
  repeat' split
  all_goals simp

theorem enumRules_noPanic (o : List (String × Int)) (a b : List Int) (w : String) :
    enumRules o a b ≠ .panic w := by
  unfold enumRules
  repeat' split
  all_goals simp

theorem buildEnum_noPanic (en : EnumD) (h : en.values.isEmpty = false) (w : String) :
    buildEnum en ≠ .panic w := by
  unfold buildEnum
  split
  · rename_i hv; simp [hv] at h
  · split <;> simp

theorem buildEnum_enumRoot (en : EnumD) (r : RRoot) (h : buildEnum en = .ok r) :
    enumRoot (some r) = true := by
  unfold buildEnum at h
  split at h
  · cases h
  · split at h
    · cases h
    · cases h; rfl

theorem enum?_mem (ds : DescSet) (full : String) (en : EnumD) (h : ds.enum? full = some en) :
    en ∈ ds.enums := by
  unfold DescSet.enum? at h
  exact List.mem_of_find?_eq_some h

theorem msg?_mem (ds : DescSet) (full : String) (m : Msg) (h : ds.msg? full = some m) :
    m ∈ ds.msgs := by
  unfold DescSet.msg? at h
  exact List.mem_of_find?_eq_some h

theorem srcIsEnum_of_mem (ds : DescSet) (en : EnumD) (h : en ∈ ds.enums) :
    srcIsEnum ds en.full = true := by
  unfold srcIsEnum
  simp only [List.any_eq_true, beq_iff_eq]
  exact ⟨en, h, rfl⟩

theorem linked_names (ds : DescSet) (hl : linkedBase ds = true) (m : Msg) (hm : m ∈ ds.msgs) :
    srcIsEnum ds m.full = false ∧ ∀ o ∈ m.oneofs, srcIsEnum ds (m.full ++ "." ++ o.name) = false := by
  unfold linkedBase at hl
  simp only [Bool.and_eq_true, List.all_eq_true] at hl
  have := hl.1.2 m hm
  simp only [Bool.not_eq_eq_eq_not, Bool.not_true] at this
  exact this

theorem mem_of_find (reg : Reg) (p k : String) (e : REntry) (h : reg.find p k = some e) : e ∈ reg := by
  unfold Reg.find at h
  exact List.mem_of_find?_eq_some h

/-- after `enumTarget` the reference's target is an enum schema (given a sound registry) -/
theorem enumTarget_spec (ds : DescSet) (reg : Reg) (full : String) (en : EnumD)
    (hreg : RegOK ds reg) (hen : en ∈ ds.enums) (hv : en.values.isEmpty = false) :
    (∀ w, enumTarget reg full en ≠ .panic w) ∧
    ∀ to ops, enumTarget reg full en = .ok (to, ops) →
      enumRoot to = true ∧ ∀ op ∈ ops, opFree ds op := by
  unfold enumTarget
  split
  · rename_i ent hf
    constructor
    · intro w; split <;> simp
    · intro to ops h
      split at h
      · cases h
      · rename_i hsrc
        cases h
        have hsrc' : ent.src = en.full := by simpa using hsrc
        refine ⟨hreg.2 ent (mem_of_find reg _ _ ent hf) ?_, by intro op hop; cases hop⟩
        rw [hsrc']; exact srcIsEnum_of_mem ds en hen
  · refine ⟨map_noPanic (buildEnum_noPanic en hv), ?_⟩
    intro to ops h
    obtain ⟨r, hr, hx⟩ := map_eq_ok h
    cases hx
    have := buildEnum_enumRoot en r hr
    refine ⟨this, ?_⟩
    intro op hop
    simp only [List.mem_singleton] at hop
    subst hop
    exact Or.inr this

theorem enumCheck_noPanic (to : Option RRoot) (vt : VType) (h : enumRoot to = true) (w : String) :
    enumCheck to vt ≠ .panic w := by
  unfold enumCheck
  split
  · split
    · exact enumRules_noPanic _ _ _ w
    · rename_i r hne
      cases r with
      | enum a b c d => exact absurd rfl (hne a b c d)
      | object a b c d e => simp [enumRoot] at h
      | oneof a b c => simp [enumRoot] at h
    · simp [enumRoot] at h
  · simp

theorem buildEnumField_spec (ds : DescSet) (reg : Reg) (full : String) (e : Ext)
    (hreg : RegOK ds reg)
    (hl : (match ds.enum? full with | some en => !en.values.isEmpty | none => false) = true) :
    (∀ w, buildEnumField ds reg full e ≠ .panic w) ∧
    ∀ f ops, buildEnumField ds reg full e = .ok (f, ops) → ∀ op ∈ ops, opFree ds op := by
  unfold buildEnumField
  cases hen : ds.enum? full with
  | none => simp [hen] at hl
  | some en =>
    simp only [hen] at hl
    have hv : en.values.isEmpty = false := by simpa using hl
    have hmem := enum?_mem ds full en hen
    obtain ⟨hnp, hspec⟩ := enumTarget_spec ds reg full en hreg hmem hv
    simp only
    constructor
    · apply bind_noPanic hnp
      intro a ha
      obtain ⟨to, ops⟩ := a
      exact map_noPanic (enumCheck_noPanic to _ (hspec to ops ha).1)
    · intro f ops h
      obtain ⟨⟨to, ops'⟩, ha, h2⟩ := bind_eq_ok h
      obtain ⟨_, _, hx⟩ := map_eq_ok h2
      cases hx
      exact (hspec to ops' ha).2

theorem referenceMessage_spec (ds : DescSet) (reg : Reg) (full : String) (fl : Bool)
    (hlk : linkedBase ds = true) (hl : (!needsLookup full || (ds.msg? full).isSome) = true)
    (hw : isWkt full = false) :
    (∀ w, referenceMessage ds reg full fl ≠ .panic w) ∧
    ∀ b, referenceMessage ds reg full fl = .ok b → ∀ op ∈ b.ops, opFree ds op := by
  unfold referenceMessage
  split
  · exact ⟨by simp, by intro b h; cases h⟩
  · rename_i hg
    have hsome : (ds.msg? full).isSome = true := by
      simp only [needsLookup, hw, Bool.not_false, Bool.true_and, Bool.not_not, Bool.or_eq_true] at hl
      rcases hl with h | h
      · exact absurd h hg
      · exact h
    cases hm : ds.msg? full with
    | none => simp [hm] at hsome
    | some m =>
      simp only
      have hmem := msg?_mem ds full m hm
      have hk := (linked_names ds hlk m hmem).1
      constructor
      · intro w
        split
        · split <;> simp
        · simp
      · intro b h
        split at h
        · split at h
          · cases h
          · cases h; intro op hop; cases hop
        · cases h
          intro op hop
          simp only [List.mem_singleton] at hop
          subst hop
          exact hk

theorem buildMessageField_spec (ds : DescSet) (reg : Reg) (full : String) (e : Ext)
    (hlk : linkedBase ds = true) (hl : (!needsLookup full || (ds.msg? full).isSome) = true) :
    (∀ w, buildMessageField ds reg full e ≠ .panic w) ∧
    ∀ b, buildMessageField ds reg full e = .ok b → ∀ op ∈ b.ops, opFree ds op := by
  unfold buildMessageField
  simp only
  constructor
  · apply bind_noPanic (wktSchema_noPanic full e)
    intro a ha
    cases a with
    | some f => simp
    | none => exact (referenceMessage_spec ds reg full _ hlk hl (wktSchema_none full e ha)).1
  · intro b h
    obtain ⟨a, ha, h2⟩ := bind_eq_ok h
    cases a with
    | some f => cases h2; intro op hop; cases hop
    | none => exact (referenceMessage_spec ds reg full _ hlk hl (wktSchema_none full e ha)).2 b h2

theorem buildSchema_spec (ds : DescSet) (reg : Reg) (kind : PKind) (t : Target) (e : Ext)
    (key : Option KeySum) (hreg : RegOK ds reg) (hlk : linkedBase ds = true)
    (hl : targetLinked ds kind t = true) :
    (∀ w, buildSchema ds reg kind t e key ≠ .panic w) ∧
    ∀ b, buildSchema ds reg kind t e key = .ok b → ∀ op ∈ b.ops, opFree ds op := by
  unfold buildSchema
  unfold targetLinked at hl
  split
  · -- message
    simp only at hl
    split
    · rename_i full p k
      simp only at hl
      exact buildMessageField_spec ds reg full e hlk hl
    · rename_i hne
      split at hl
      · rename_i full p k; exact absurd rfl (hne full p k)
      · cases hl
  · -- enum
    simp only at hl
    split
    · rename_i full p k
      simp only at hl
      obtain ⟨hnp, hops⟩ := buildEnumField_spec ds reg full e hreg hl
      constructor
      · exact map_noPanic hnp
      · intro b h
        obtain ⟨⟨f, ops⟩, ha, hx⟩ := map_eq_ok h
        cases hx
        exact hops f ops ha
    · rename_i hne
      split at hl
      · rename_i full p k; exact absurd rfl (hne full p k)
      · cases hl
  · constructor
    · exact map_noPanic (buildScalar_noPanic kind e key)
    · intro b h
      obtain ⟨⟨tag, fmt⟩, _, hx⟩ := map_eq_ok h
      cases hx
      intro op hop; cases hop

theorem propertyPlan_spec (ds : DescSet) (f : FieldD) (hl : fieldLinked ds f = true) :
    (∀ w, propertyPlan f ≠ .panic w) ∧
    ∀ kind t e key mk, propertyPlan f = .ok (kind, t, e, key, mk) → targetLinked ds kind t = true := by
  unfold propertyPlan
  unfold fieldLinked at hl
  cases hc : f.card with
  | list =>
    simp only [hc] at hl ⊢
    refine ⟨by simp, ?_⟩
    intro kind t e key mk h
    cases h
    exact hl
  | single =>
    simp only [hc] at hl ⊢
    refine ⟨by simp, ?_⟩
    intro kind t e key mk h
    cases h
    exact hl
  | map =>
    simp only [hc] at hl ⊢
    split
    · exact ⟨by simp, by intro _ _ _ _ _ h; cases h⟩
    · cases hmv : f.mapVal with
      | none => simp [hmv] at hl
      | some x =>
        obtain ⟨vk, vt, vkey⟩ := x
        simp only [hmv] at hl ⊢
        refine ⟨by simp, ?_⟩
        intro kind t e key mk h
        cases h
        exact hl

theorem buildProperty_spec (ds : DescSet) (reg : Reg) (f : FieldD) (hreg : RegOK ds reg)
    (hlk : linkedBase ds = true) (hl : fieldLinked ds f = true) :
    (∀ w, buildProperty ds reg f ≠ .panic w) ∧
    ∀ prop b, buildProperty ds reg f = .ok (prop, b) → ∀ op ∈ b.ops, opFree ds op := by
  unfold buildProperty
  obtain ⟨hnp, hplan⟩ := propertyPlan_spec ds f hl
  constructor
  · apply bind_noPanic hnp
    intro a ha
    obtain ⟨kind, t, e, key, mk⟩ := a
    exact map_noPanic (buildSchema_spec ds reg kind t e key hreg hlk (hplan _ _ _ _ _ ha)).1
  · intro prop b h
    obtain ⟨kind, t, e, key, mk, ha, hb', _⟩ := buildProperty_ok h
    exact (buildSchema_spec ds reg kind t e key hreg hlk (hplan _ _ _ _ _ ha)).2 b hb'

/-- the message pushed by a field owns its name after the field's updates -/
theorem buildProperty_push_owns (ds : DescSet) (reg : Reg) (f : FieldD) (prop : RProp) (b : Built)
    (m : Msg) (h : buildProperty ds reg f = .ok (prop, b)) (hp : b.push = some m) :
    Owns (reg.applyAll b.ops) m.pkg m.split m.full := by
  obtain ⟨kind, t, e, key, mk, _, hb, _⟩ := buildProperty_ok h
  unfold buildSchema at hb
  split at hb
  · split at hb
    · unfold buildMessageField at hb
      simp only at hb
      obtain ⟨w, _, hw⟩ := bind_eq_ok hb
      split at hw
      · cases hw; cases hp
      · unfold referenceMessage at hw
        split at hw
        · cases hw
        · split at hw
          · cases hw
          · simp only at hw
            split at hw
            · split at hw
              · cases hw
              · cases hw; cases hp
            · rename_i hfind
              cases hw
              simp only [Option.some.injEq] at hp
              subst hp
              simp only [Reg.applyAll, List.foldl_cons, List.foldl_nil]
              exact Owns.add_new reg _ _ _ hfind
    · cases hb
  · split at hb
    · obtain ⟨x, _, hx⟩ := map_eq_ok hb
      subst hx; cases hp
    · cases hb
  · obtain ⟨x, _, hx⟩ := map_eq_ok hb
    subst hx; cases hp

/-! ## frames and the machine -/

def FrameOK (ds : DescSet) (fr : Frame) : Prop :=
  fr.msg ∈ ds.msgs ∧ (∀ f ∈ fr.rest, f ∈ fr.msg.fields) ∧ (∀ x ∈ fr.expose, x.2.1 ∈ fr.msg.oneofs)

/-- the frame owns the names it will link at the end -/
def FrameOwns (reg : Reg) (fr : Frame) : Prop :=
  Owns reg fr.msg.pkg fr.msg.split fr.msg.full ∧
  ∀ x ∈ fr.expose, Owns reg fr.msg.pkg x.2.1.split (fr.msg.full ++ "." ++ x.2.1.name)

theorem FrameOwns.applyAll {reg : Reg} {fr : Frame} (h : FrameOwns reg fr) (ops : List RegOp) :
    FrameOwns (reg.applyAll ops) fr :=
  ⟨h.1.applyAll ops, fun x hx => (h.2 x hx).applyAll ops⟩

def Good (ds : DescSet) (st : St) : Prop :=
  RegOK ds st.reg ∧ ∀ fr ∈ st.stack, FrameOK ds fr ∧ FrameOwns st.reg fr

theorem exposeOneofs_spec (ds : DescSet) (m : Msg) (hm : m ∈ ds.msgs) (hlk : linkedBase ds = true)
    (os : List OneofD) (hos : ∀ o ∈ os, o ∈ m.oneofs) (reg : Reg) (i : Nat) :
    (∀ w, exposeOneofs m reg i os ≠ .panic w) ∧
    ∀ ex ops, exposeOneofs m reg i os = .ok (ex, ops) →
      (∀ op ∈ ops, opFree ds op) ∧ (∀ x ∈ ex, x.2.1 ∈ m.oneofs) ∧
      (∀ x ∈ ex, Owns (reg.applyAll ops) m.pkg x.2.1.split (m.full ++ "." ++ x.2.1.name)) := by
  induction os generalizing reg i with
  | nil =>
    simp only [exposeOneofs]
    refine ⟨by simp, ?_⟩
    intro ex ops h; cases h
    exact ⟨(by intro op hop; cases hop), (by intro x hx; cases hx), (by intro x hx; cases hx)⟩
  | cons o os ih =>
    have hos' : ∀ o' ∈ os, o' ∈ m.oneofs := fun o' h => hos o' (List.mem_cons_of_mem _ h)
    have ho : o ∈ m.oneofs := hos o (List.mem_cons_self ..)
    unfold exposeOneofs
    split
    · exact ih hos' reg (i + 1)
    · split
      · exact ⟨by simp, by intro _ _ h; cases h⟩
      · rename_i hhas
        have hnone : reg.find m.pkg o.split = none := by
          cases hf : reg.find m.pkg o.split with
          | none => rfl
          | some x => simp [Reg.has, hf] at hhas
        simp only
        obtain ⟨hnp, hok⟩ := ih hos'
          (reg.apply (.link m.pkg o.split (m.full ++ "." ++ o.name) (.oneof m.pkg o.split []))) (i + 1)
        constructor
        · intro w
          split <;> simp_all
        · intro ex ops h
          split at h
          · rename_i ex' ops' hrec
            obtain ⟨h1, h2, h3⟩ := hok ex' ops' hrec
            cases h
            refine ⟨?_, ?_, ?_⟩
            · intro op hop
              rcases List.mem_cons.mp hop with rfl | hop'
              · exact Or.inl ((linked_names ds hlk m hm).2 o ho)
              · exact h1 op hop'
            · intro x hx
              rcases List.mem_cons.mp hx with rfl | hx'
              · exact ho
              · exact h2 x hx'
            · intro x hx
              simp only [Reg.applyAll, List.foldl_cons]
              rcases List.mem_cons.mp hx with rfl | hx'
              · exact (Owns.link_new reg _ _ _ _ hnone).applyAll ops'
              · exact h3 x hx'
          · cases h
          · cases h

theorem enter_spec (ds : DescSet) (m : Msg) (hm : m ∈ ds.msgs) (hlk : linkedBase ds = true)
    (reg : Reg) (hown : Owns reg m.pkg m.split m.full) :
    (∀ w, enter m reg ≠ .panic w) ∧
    ∀ fr ops, enter m reg = .ok (fr, ops) →
      (∀ op ∈ ops, opFree ds op) ∧ FrameOK ds fr ∧ FrameOwns (reg.applyAll ops) fr := by
  unfold enter
  obtain ⟨hnp, hok⟩ := exposeOneofs_spec ds m hm hlk m.oneofs (fun _ h => h) reg 0
  constructor
  · intro w
    split <;> simp_all
  · intro fr ops h
    split at h
    · rename_i ex ops' hex
      obtain ⟨h1, h2, h3⟩ := hok ex ops' hex
      cases h
      exact ⟨h1, ⟨hm, fun _ h => h, h2⟩, hown.applyAll _, h3⟩
    · cases h
    · cases h

/-- the updates of `finish` are safe one after the other: each name is owned by the frame -/
theorem setsSafe (ds : DescSet) (reg : Reg) (ops : List RegOp)
    (h : ∀ op ∈ ops, ∃ p k r src, op = .set p k r ∧ Owns reg p k src ∧ srcIsEnum ds src = false) :
    opsSafe ds reg ops := by
  induction ops generalizing reg with
  | nil => trivial
  | cons op ops ih =>
    obtain ⟨p, k, r, src, rfl, hown, hs⟩ := h _ (List.mem_cons_self ..)
    refine ⟨opSafe_set_owned ds reg p k src r hown hs, ih _ ?_⟩
    intro op' hop'
    obtain ⟨p', k', r', src', rfl, hown', hs'⟩ := h op' (List.mem_cons_of_mem _ hop')
    exact ⟨p', k', r', src', rfl, hown'.apply _, hs'⟩

theorem finish_spec (ds : DescSet) (reg : Reg) (fr : Frame) (hfr : FrameOK ds fr)
    (hown : FrameOwns reg fr) (hlk : linkedBase ds = true) :
    (∀ w, finish fr ≠ .panic w) ∧ ∀ ops, finish fr = .ok ops → opsSafe ds reg ops := by
  obtain ⟨hm, _, hex⟩ := hfr
  obtain ⟨hk, hko⟩ := linked_names ds hlk fr.msg hm
  have hexpose : ∀ op ∈ (fr.expose.map fun (x : Nat × OneofD × List RProp) =>
      RegOp.set fr.msg.pkg x.2.1.split (.oneof fr.msg.pkg x.2.1.split x.2.2)),
      ∃ p k r src, op = .set p k r ∧ Owns reg p k src ∧ srcIsEnum ds src = false := by
    intro op hop
    obtain ⟨x, hx, rfl⟩ := List.mem_map.mp hop
    exact ⟨_, _, _, _, rfl, hown.2 x hx, hko _ (hex x hx)⟩
  have hall : ∀ root, ∀ op ∈ (fr.expose.map fun (x : Nat × OneofD × List RProp) =>
      RegOp.set fr.msg.pkg x.2.1.split (.oneof fr.msg.pkg x.2.1.split x.2.2)) ++
      [RegOp.set fr.msg.pkg fr.msg.split root],
      ∃ p k r src, op = .set p k r ∧ Owns reg p k src ∧ srcIsEnum ds src = false := by
    intro root op hop
    rcases List.mem_append.mp hop with h1 | h1
    · exact hexpose op h1
    · simp only [List.mem_singleton] at h1
      subst h1
      exact ⟨_, _, _, _, rfl, hown.1, hk⟩
  unfold finish
  split
  · exact ⟨by simp, by intro _ h; cases h⟩
  · split
    · exact ⟨by simp, by intro _ h; cases h⟩
    · split
      · exact ⟨by simp, by intro _ h; cases h⟩
      · split
        · exact ⟨by simp, by intro _ h; cases h⟩
        · simp only
          split
          · refine ⟨by simp, ?_⟩
            intro ops h
            cases h
            exact setsSafe ds reg _ (hall _)
          · constructor
            · intro w
              have := findPSM_noPanic fr.msg
              split <;> simp_all
            · intro ops h
              split at h
              · cases h
              · cases h
              · cases h
                exact setsSafe ds reg _ (hall _)

theorem place_frameOK (ds : DescSet) (fr : Frame) (f : FieldD) (prop : RProp)
    (h : FrameOK ds fr) : FrameOK ds (place fr f prop) := by
  obtain ⟨h1, h2, h3⟩ := h
  unfold place
  simp only
  split
  · exact ⟨h1, h2, h3⟩
  · have hmap : ∀ i : Nat, ∀ x ∈ (fr.expose.map fun (x : Nat × OneofD × List RProp) =>
        if x.1 == i then (x.1, x.2.1, x.2.2 ++ [prop]) else (x.1, x.2.1, x.2.2)), x.2.1 ∈ fr.msg.oneofs := by
      intro i x hx
      obtain ⟨y, hy, rfl⟩ := List.mem_map.mp hx
      split <;> exact h3 y hy
    split
    · exact ⟨h1, h2, hmap _⟩
    · exact ⟨h1, h2, hmap _⟩

theorem place_owns (reg : Reg) (fr : Frame) (f : FieldD) (prop : RProp) (h : FrameOwns reg fr) :
    FrameOwns reg (place fr f prop) := by
  obtain ⟨h1, h2⟩ := h
  unfold place
  simp only
  split
  · exact ⟨h1, h2⟩
  · have hmap : ∀ i : Nat, ∀ x ∈ (fr.expose.map fun (x : Nat × OneofD × List RProp) =>
        if x.1 == i then (x.1, x.2.1, x.2.2 ++ [prop]) else (x.1, x.2.1, x.2.2)),
        Owns reg fr.msg.pkg x.2.1.split (fr.msg.full ++ "." ++ x.2.1.name) := by
      intro i x hx
      obtain ⟨y, hy, rfl⟩ := List.mem_map.mp hx
      split <;> exact h2 y hy
    split
    · exact ⟨h1, hmap _⟩
    · exact ⟨h1, hmap _⟩

/-- one transition from a good state does not crash and leads to a good state -/
theorem step_safe (ds : DescSet) (hl : linkedBase ds = true) (st : St) (hg : Good ds st) :
    (∀ w, step ds st ≠ .crash w) ∧ (∀ st', step ds st = .cont st' → Good ds st') ∧
    (∀ reg, step ds st = .done reg → RegOK ds reg) := by
  obtain ⟨hreg, hframes⟩ := hg
  unfold step
  split
  · refine ⟨?_, ?_, ?_⟩
    · intro w; simp
    · intro st' h; cases h
    · intro reg h; cases h; exact hreg
  · rename_i fr below hstack
    have hfr := hframes fr (by simp [hstack])
    have hbelow : ∀ fr' ∈ below, FrameOK ds fr' ∧ FrameOwns st.reg fr' :=
      fun fr' h => hframes fr' (by simp [hstack, h])
    split
    · -- finish
      obtain ⟨hnp, hops⟩ := finish_spec ds st.reg fr hfr.1 hfr.2 hl
      refine ⟨?_, ?_, ?_⟩
      · intro w; split <;> simp_all
      · intro st' h
        split at h
        · rename_i ops hfin
          cases h
          exact ⟨hreg.applyAll ops (hops ops hfin),
            fun fr' h' => ⟨(hbelow fr' h').1, (hbelow fr' h').2.applyAll ops⟩⟩
        · cases h
        · cases h
      · intro reg h; split at h <;> cases h
    · rename_i f fs hrest
      have hf : f ∈ fr.msg.fields := hfr.1.2.1 f (by simp [hrest])
      have hfl : fieldLinked ds f = true := by
        have hl' := hl
        unfold linkedBase at hl'
        simp only [Bool.and_eq_true, List.all_eq_true] at hl'
        exact hl'.1.1.1.1.1 fr.msg hfr.1.1 f hf
      obtain ⟨hnp, hops⟩ := buildProperty_spec ds st.reg f hreg hl hfl
      have hfrOK : ∀ prop, FrameOK ds (place { fr with rest := fs } f prop) := by
        intro prop
        apply place_frameOK
        refine ⟨hfr.1.1, ?_, hfr.1.2.2⟩
        intro g hg
        exact hfr.1.2.1 g (by simp [hrest, hg])
      have hfrOwns : ∀ prop, FrameOwns st.reg (place { fr with rest := fs } f prop) :=
        fun prop => place_owns st.reg _ f prop hfr.2
      refine ⟨?_, ?_, ?_⟩
      · intro w
        split
        · simp
        · rename_i w' hb; exact absurd hb (hnp w')
        · rename_i prop b hb
          simp only
          split
          · simp
          · rename_i m hpush
            have hm := (buildProperty_push ds st.reg f prop b m hb hpush).1
            have hown := buildProperty_push_owns ds st.reg f prop b m hb hpush
            have := (enter_spec ds m hm hl (st.reg.applyAll b.ops) hown).1
            split <;> simp_all
      · intro st' h
        split at h
        · cases h
        · cases h
        · rename_i prop b hb
          have hreg' : RegOK ds (st.reg.applyAll b.ops) :=
            hreg.applyAll b.ops (opsSafe_of_free ds _ _ (hops prop b hb))
          simp only at h
          split at h
          · cases h
            refine ⟨hreg', ?_⟩
            intro fr' hfr''
            rcases List.mem_cons.mp hfr'' with rfl | hb'
            · exact ⟨hfrOK prop, (hfrOwns prop).applyAll _⟩
            · exact ⟨(hbelow fr' hb').1, (hbelow fr' hb').2.applyAll _⟩
          · rename_i m hpush
            have hm := (buildProperty_push ds st.reg f prop b m hb hpush).1
            have hown := buildProperty_push_owns ds st.reg f prop b m hb hpush
            obtain ⟨_, hent⟩ := enter_spec ds m hm hl (st.reg.applyAll b.ops) hown
            split at h
            · rename_i child ops hchild
              cases h
              obtain ⟨hsafe, hchildOK, hchildOwns⟩ := hent child ops hchild
              refine ⟨hreg'.applyAll ops (opsSafe_of_free ds _ _ hsafe), ?_⟩
              intro fr' hfr''
              rcases List.mem_cons.mp hfr'' with rfl | hb'
              · exact ⟨hchildOK, hchildOwns⟩
              · rcases List.mem_cons.mp hb' with rfl | hb''
                · exact ⟨hfrOK prop, ((hfrOwns prop).applyAll _).applyAll _⟩
                · exact ⟨(hbelow fr' hb'').1, ((hbelow fr' hb'').2.applyAll _).applyAll _⟩
            · cases h
            · cases h
      · intro reg h
        split at h
        · cases h
        · cases h
        · simp only at h
          split at h
          · cases h
          · split at h <;> cases h

theorem run_done (ds : DescSet) (st : St) (reg : Reg) (h : step ds st = .done reg) :
    run ds st = .ok reg := by
  rw [run.eq_1]; split <;> simp_all

theorem run_fail (ds : DescSet) (st : St) (e : String) (h : step ds st = .fail e) :
    run ds st = .err e := by
  rw [run.eq_1]; split <;> simp_all

theorem run_crash (ds : DescSet) (st : St) (w : String) (h : step ds st = .crash w) :
    run ds st = .panic w := by
  rw [run.eq_1]; split <;> simp_all

theorem run_cont (ds : DescSet) (st st' : St) (h : step ds st = .cont st') :
    run ds st = run ds st' := by
  rw [run.eq_1]; split <;> simp_all

/-- from a good state the machine never panics, and a result is a sound registry -/
theorem run_safe (ds : DescSet) (hl : linkedBase ds = true) (st : St) :
    Good ds st → (∀ w, run ds st ≠ .panic w) ∧ (∀ reg, run ds st = .ok reg → RegOK ds reg) := by
  induction st using run.induct ds with
  | case1 x reg h =>
    intro hg
    rw [run_done ds x reg h]
    refine ⟨by simp, ?_⟩
    intro reg' h'; cases h'
    exact (step_safe ds hl x hg).2.2 reg h
  | case2 x e h =>
    intro _
    rw [run_fail ds x e h]
    exact ⟨by simp, by intro _ h'; cases h'⟩
  | case3 x w h =>
    intro hg
    exact absurd h ((step_safe ds hl x hg).1 w)
  | case4 x st' h ih =>
    intro hg
    rw [run_cont ds x st' h]
    exact ih ((step_safe ds hl x hg).2.1 st' h)

theorem buildMessage_safe (ds : DescSet) (hl : linkedBase ds = true) (reg : Reg) (m : Msg)
    (hm : m ∈ ds.msgs) (hreg : RegOK ds reg) (hnone : reg.find m.pkg m.split = none) :
    (∀ w, buildMessage ds reg m ≠ .panic w) ∧ (∀ reg', buildMessage ds reg m = .ok reg' → RegOK ds reg') := by
  unfold buildMessage
  simp only
  have hk := (linked_names ds hl m hm).1
  have hreg1 : RegOK ds (reg.apply (.add m.pkg m.split m.full)) := hreg.apply _ hk
  have hown := Owns.add_new reg m.pkg m.split m.full hnone
  obtain ⟨hnp, hent⟩ := enter_spec ds m hm hl (reg.apply (.add m.pkg m.split m.full)) hown
  split
  · rename_i fr ops hen
    obtain ⟨hsafe, hfr, hfo⟩ := hent fr ops hen
    apply run_safe ds hl
    refine ⟨hreg1.applyAll ops (opsSafe_of_free ds _ _ hsafe), ?_⟩
    intro fr' h
    simp only [List.mem_singleton] at h
    subst h
    exact ⟨hfr, hfo⟩
  · exact ⟨by simp, by intro _ h; cases h⟩
  · rename_i w hen
    exact absurd hen (hnp w)

theorem messageSchema_safe (ds : DescSet) (hl : linkedBase ds = true) (reg : Reg) (m : Msg)
    (hm : m ∈ ds.msgs) (hreg : RegOK ds reg) :
    (∀ w, messageSchema ds reg m ≠ .panic w) ∧ (∀ reg', messageSchema ds reg m = .ok reg' → RegOK ds reg') := by
  unfold messageSchema
  split
  · split
    · exact ⟨by simp, by intro _ h; cases h⟩
    · split
      · refine ⟨by simp, ?_⟩
        intro reg' h; cases h; exact hreg
      · exact ⟨by simp, by intro _ h; cases h⟩
  · rename_i hnone
    exact buildMessage_safe ds hl reg m hm hreg hnone

theorem messagesLoop_safe (ds : DescSet) (hl : linkedBase ds = true)
    (names : List String) (hn : ∀ full ∈ names, (ds.msg? full).isSome = true) (reg : Reg)
    (hreg : RegOK ds reg) :
    (∀ w, messagesLoop ds reg names ≠ .panic w) ∧
    (∀ reg', messagesLoop ds reg names = .ok reg' → RegOK ds reg') := by
  induction names generalizing reg with
  | nil =>
    simp only [messagesLoop]
    refine ⟨by simp, ?_⟩
    intro reg' h; cases h; exact hreg
  | cons full rest ih =>
    have hfull := hn full (List.mem_cons_self ..)
    have hrest : ∀ f ∈ rest, (ds.msg? f).isSome = true := fun f h => hn f (List.mem_cons_of_mem _ h)
    unfold messagesLoop
    cases hm : ds.msg? full with
    | none => simp [hm] at hfull
    | some m =>
      simp only
      obtain ⟨hnp, hok⟩ := messageSchema_safe ds hl reg m (msg?_mem ds full m hm) hreg
      split
      · rename_i reg' hms
        exact ih hrest reg' (hok reg' hms)
      · exact ⟨by simp, by intro _ h; cases h⟩
      · rename_i w hms
        exact absurd hms (hnp w)

theorem enumsLoop_safe (ds : DescSet) (names : List String)
    (hn : ∀ full ∈ names, (match ds.enum? full with | some en => !en.values.isEmpty | none => false) = true)
    (reg : Reg) (hreg : RegOK ds reg) :
    (∀ w, enumsLoop ds reg names ≠ .panic w) ∧
    (∀ reg', enumsLoop ds reg names = .ok reg' → RegOK ds reg') := by
  induction names generalizing reg with
  | nil =>
    simp only [enumsLoop]
    refine ⟨by simp, ?_⟩
    intro reg' h; cases h; exact hreg
  | cons full rest ih =>
    have hfull := hn full (List.mem_cons_self ..)
    have hrest := fun f (h : f ∈ rest) => hn f (List.mem_cons_of_mem _ h)
    unfold enumsLoop
    cases hen : ds.enum? full with
    | none => simp [hen] at hfull
    | some en =>
      simp only [hen] at hfull
      have hv : en.values.isEmpty = false := by simpa using hfull
      simp only
      split
      · split
        · exact ⟨by simp, by intro _ h; cases h⟩
        · exact ih hrest reg hreg
      · split
        · rename_i r hb
          apply ih hrest
          apply hreg.apply
          exact Or.inr (buildEnum_enumRoot en r hb)
        · exact ⟨by simp, by intro _ h; cases h⟩
        · rename_i w hb
          exact absurd hb (buildEnum_noPanic en hv w)

/-! ## a fuel-bounded evaluator, for `decide`-able examples

`run` is defined by well-founded recursion, which the kernel does not unfold. `runN` is the same
loop with a step budget; whenever it finishes it agrees with `run` (`runN_sound`), so concrete
witnesses can be evaluated by `decide`. It is used for examples and counterexamples only. -/

def runN (ds : DescSet) : Nat → St → Option (Outcome Reg)
  | 0, _ => none
  | n + 1, st =>
    match step ds st with
    | .done reg => some (.ok reg)
    | .fail e => some (.err e)
    | .crash w => some (.panic w)
    | .cont st' => runN ds n st'

theorem runN_sound (ds : DescSet) (n : Nat) (st : St) (r : Outcome Reg)
    (h : runN ds n st = some r) : run ds st = r := by
  induction n generalizing st with
  | zero => cases h
  | succ n ih =>
    unfold runN at h
    split at h
    · rename_i reg hs; cases h; exact run_done ds st reg hs
    · rename_i e hs; cases h; exact run_fail ds st e hs
    · rename_i w hs; cases h; exact run_crash ds st w hs
    · rename_i st' hs; rw [run_cont ds st st' hs]; exact ih st' h

def buildMessageN (ds : DescSet) (n : Nat) (reg : Reg) (m : Msg) : Option (Outcome Reg) :=
  let reg1 := reg.apply (.add m.pkg m.split m.full)
  match enter m reg1 with
  | .ok (fr, ops) => runN ds n ⟨reg1.applyAll ops, [fr]⟩
  | .err x => some (.err x)
  | .panic w => some (.panic w)

theorem buildMessageN_sound (ds : DescSet) (n : Nat) (reg : Reg) (m : Msg) (r : Outcome Reg)
    (h : buildMessageN ds n reg m = some r) : buildMessage ds reg m = r := by
  unfold buildMessageN at h
  unfold buildMessage
  simp only at h ⊢
  split at h
  · rename_i fr ops he; simp only [he]; exact runN_sound ds n _ r h
  · rename_i x he; simp only [he]; cases h; rfl
  · rename_i w he; simp only [he]; cases h; rfl

def messageSchemaN (ds : DescSet) (n : Nat) (reg : Reg) (m : Msg) : Option (Outcome Reg) :=
  match reg.find m.pkg m.split with
  | some e =>
    if e.src != m.full then some (.err "schema name is used by two descriptors")
    else
      match e.to with
      | some _ => some (.ok reg)
      | none => some (.err "unlinked ref")
  | none => buildMessageN ds n reg m

theorem messageSchemaN_sound (ds : DescSet) (n : Nat) (reg : Reg) (m : Msg) (r : Outcome Reg)
    (h : messageSchemaN ds n reg m = some r) : messageSchema ds reg m = r := by
  unfold messageSchemaN at h
  unfold messageSchema
  split at h
  · rename_i e hf
    simp only [hf]
    split at h
    · rename_i hs; simp only [hs, ↓reduceIte]; cases h; rfl
    · rename_i hs
      simp only [hs, Bool.false_eq_true, ↓reduceIte]
      split at h
      · rename_i x hx; simp only [hx]; cases h; rfl
      · rename_i hx; simp only [hx]; cases h; rfl
  · rename_i hf
    simp only [hf]
    exact buildMessageN_sound ds n reg m r h

def messagesLoopN (ds : DescSet) (n : Nat) (reg : Reg) : List String → Option (Outcome Reg)
  | [] => some (.ok reg)
  | full :: rest =>
    match ds.msg? full with
    | none => some (.panic "message descriptor not in the set")
    | some m =>
      match messageSchemaN ds n reg m with
      | some (.ok reg') => messagesLoopN ds n reg' rest
      | some (.err x) => some (.err x)
      | some (.panic w) => some (.panic w)
      | none => none

theorem messagesLoopN_sound (ds : DescSet) (n : Nat) (names : List String) (reg : Reg)
    (r : Outcome Reg) (h : messagesLoopN ds n reg names = some r) : messagesLoop ds reg names = r := by
  induction names generalizing reg with
  | nil => simp only [messagesLoopN] at h; cases h; rfl
  | cons full rest ih =>
    unfold messagesLoopN at h
    unfold messagesLoop
    split at h
    · rename_i hm; simp only [hm]; cases h; rfl
    · rename_i m hm
      simp only [hm]
      split at h
      · rename_i reg' hs
        rw [messageSchemaN_sound ds n reg m _ hs]
        exact ih reg' h
      · rename_i x hs
        rw [messageSchemaN_sound ds n reg m _ hs]
        cases h; rfl
      · rename_i w hs
        rw [messageSchemaN_sound ds n reg m _ hs]
        cases h; rfl
      · cases h

end J5V.Schema.Reader
