import J5V.Schema.PropSetModel
import J5V.Codec.Schema
/-!
# The reflected registry as the codec model's `Env` (definitions only, core Lean)

`toEnv ds reg` renders a reflected registry in the form the codec cluster's model takes as input
(`J5V.Codec.Env`, PROTOCOL-codec.md §3). Used by the driver (the `env=` part of the `schema.reflect`
result, compared with what the harness computes from the real j5schema structs and descriptors
the way the codec harness does) and by `CodecBridge.lean` / `CodecEmpty.lean` (theorems).
-/
namespace J5V.Schema.Bridge
open J5V.Go J5V.Schema J5V.Schema.Reader J5V.Json

def rootName (p k : String) : String := p ++ "." ++ k

def scalarKind (tag : STag) (fmt : Nat) : Codec.ScalarKind :=
  match tag with
  | .string => .string
  | .key => .key
  | .bool => .bool
  | .bytes => .bytes
  | .timestamp => .timestamp
  | .date => .date
  | .decimal => .decimal
  | .integer => if fmt == 1 then .int32 else if fmt == 2 then .int64 else if fmt == 3 then .uint32 else .uint64
  | .float => if fmt == 1 then .float32 else .float64

/-- `pb`: the final field's message is `google.protobuf.Any` (as opposed to `j5.types.any.v1.Any`) -/
def toField (pb : Bool) : RField → Codec.Field
  | .scalar tag fmt _ _ => .scalar (scalarKind tag fmt)
  | .any => .any pb
  | .enum ref => .enum (rootName ref.pkg ref.schema)
  | .object ref _ => .object (rootName ref.pkg ref.schema)
  | .oneof ref => .oneof (rootName ref.pkg ref.schema)
  | .array i => .array (toField pb i)
  | .map i => .map (toField pb i)

/-- the walk of `resolvePath`, also returning the message that contains the final field -/
def resolveIn (ds : DescSet) (m : Msg) : List Int → Option (Msg × FieldD)
  | [] => none
  | [n] => (m.fields.find? fun f => f.number == n).map fun f => (m, f)
  | n :: rest =>
    match m.fields.find? fun f => f.number == n with
    | none => none
    | some f =>
      if f.kind != .message then none
      else
        match ds.msg? (targetFull f.target) with
        | some m' => resolveIn ds m' rest
        | none => none

/-- the field is a member of a real (non-synthetic) proto oneof of its message: its index -/
def realOneof (m : Msg) (f : FieldD) : Option Nat :=
  if f.oneofIdx < 0 then none
  else
    match m.oneofs[f.oneofIdx.toNat]? with
    | some o => if o.synthetic then none else some f.oneofIdx.toNat
    | none => none

/-- how `protoreflect.Message.Has` behaves on the field -/
def presOf (m : Msg) (f : FieldD) : Codec.Pres :=
  match f.card with
  | .list => .list
  | .map => .map
  | .single =>
    if f.kind == .message then .msg
    else if f.optionalKw || (realOneof m f).isSome then .opt
    else .imp

def toProp (ds : DescSet) (m : Msg) (p : RProp) : Codec.PropDef :=
  match resolveIn ds m p.path with
  | some (mc, g) =>
    { jsonName := ascii p.json, path := p.path.map Int.toNat, pres := presOf mc g,
      field := toField (targetFull (itemTarget g) == "google.protobuf.Any") p.schema,
      group := realOneof mc g }
  | none =>
    -- the wrapper of an exposed oneof (empty path)
    { jsonName := ascii p.json, path := p.path.map Int.toNat, pres := .none,
      field := toField false p.schema }

/-- the message whose fields the props of the entry registered for `src` are relative to: the
message itself, or (exposed oneof) the message that declares the oneof -/
def ownerMsg (ds : DescSet) (src : String) : Option Msg :=
  ds.msgs.find? fun m => m.full == src || m.oneofs.any fun o => m.full ++ "." ++ o.name == src

def entryRoot (ds : DescSet) (reg : Reg) (e : REntry) : Codec.Root :=
  match e.to with
  | some (.object _ _ _ _ ps) =>
    match ds.msg? e.src with
    | some m =>
      match clientProps reg [⟨e.pkg, e.key⟩] ps with
      | .ok cps => .object (cps.map (toProp ds m))
      | _ => .noschema
    | none => .noschema
  | some (.oneof _ _ ps) =>
    match ownerMsg ds e.src with
    | some m => .oneof (ps.map (toProp ds m))
    | none => .noschema
  | some (.enum _ _ pfx opts) => .enum (ascii pfx) (opts.map fun (n, i) => (ascii n, i))
  | none => .noschema

/-- the reflected registry as the codec model's environment -/
def toEnv (ds : DescSet) (reg : Reg) : Codec.Env :=
  { defs := reg.map fun e => (rootName e.pkg e.key, entryRoot ds reg e),
    res := ds.msgs.map fun m => (ascii m.full, rootName m.pkg m.split) }

end J5V.Schema.Bridge
