import J5V.Schema.Export
/-!
# Lemmas for C15 (export / import loop)

`normField / normProp / normRoot` describe what import ∘ export does to a schema: `Kind` and
`WellKnownTypeName` of a scalar are recomputed from the J5 type, every reference is the registered
entry of the new set, `ReadOnly` / `WriteOnly` (never exported — commented out in schema.proto)
are false, and a root belongs to the package it is imported into. Everything else is untouched.
-/
namespace J5V.Schema
open J5V.Go

/-- the scalar formats `schemaFromDesc` accepts (`intKinds`, `floatKinds`) -/
def wfField : SField → Bool
  | .scalar .integer fmt _ _ _ => (intKind fmt).isSome
  | .scalar .float fmt _ _ _ => (floatKind fmt).isSome
  | .scalar _ _ _ _ _ => true
  | .map item _ _ => wfField item
  | .array item _ _ => wfField item
  | _ => true

def wfRoot (r : SRoot) : Bool := r.props.all fun p => wfField p.schema

def normScalar (tag : STag) (fmt : Nat) (pay : String) : SField :=
  match tag with
  | .timestamp => .scalar tag fmt kindMessage "" pay
  | .bool => .scalar tag fmt kindBool "" pay
  | .string => .scalar tag fmt kindString "" pay
  | .key => .scalar tag fmt kindString "" pay
  | .integer => .scalar tag fmt ((intKind fmt).getD 0) "" pay
  | .float => .scalar tag fmt ((floatKind fmt).getD 0) "" pay
  | .bytes => .scalar tag fmt kindBytes "" pay
  | .decimal => .scalar tag fmt kindMessage "j5.types.decimal.v1" pay
  | .date => .scalar tag fmt kindMessage "j5.types.date.v1" pay

def SRef.reg (r : SRef) : SRef := ⟨r.pkg, r.schema, true⟩

def normField : SField → SField
  | .scalar tag fmt _ _ pay => normScalar tag fmt pay
  | .any od types lr => .any od types lr
  | .enum ref rules lr ext => .enum ref.reg rules lr ext
  | .object ref flatten rules ext => .object ref.reg flatten rules ext
  | .oneof ref rules lr ext => .oneof ref.reg rules lr ext
  | .map item rules ext => .map (normField item) rules ext
  | .array item rules ext => .array (normField item) rules ext

def normProp (p : SProp) : SProp :=
  { p with readOnly := false, writeOnly := false, schema := normField p.schema }

def normRoot (pkg : String) : SRoot → SRoot
  | .object _ name desc entity anyMember props =>
    .object pkg name desc entity anyMember (props.map normProp)
  | .oneof _ name desc props => .oneof pkg name desc (props.map normProp)
  | .enum _ name desc pfx options info => .enum pkg name desc pfx options info

theorem scalarFromDesc_norm (tag : STag) (fmt k : Nat) (w pay : String)
    (h : wfField (.scalar tag fmt k w pay) = true) :
    scalarFromDesc tag fmt pay = .ok (normScalar tag fmt pay) := by
  cases tag <;> simp [scalarFromDesc, normScalar]
  · -- integer
    simp only [wfField] at h
    cases hk : intKind fmt with
    | none => simp [hk] at h
    | some v => simp
  · -- float
    simp only [wfField] at h
    cases hk : floatKind fmt with
    | none => simp [hk] at h
    | some v => simp

/-- import ∘ export on a field schema -/
theorem fieldFromDesc_toJ5Field (pkg : String) (f : SField) (h : wfField f = true) :
    fieldFromDesc pkg (toJ5Field f) = .ok (normField f) := by
  induction f with
  | scalar tag fmt k w pay =>
    simp only [toJ5Field, fieldFromDesc, normField]
    exact scalarFromDesc_norm tag fmt k w pay h
  | any od types lr => simp [toJ5Field, fieldFromDesc, normField]
  | enum ref rules lr ext => simp [toJ5Field, fieldFromDesc, normField, SRef.toRef, SRef.reg]
  | object ref fl rules ext => simp [toJ5Field, fieldFromDesc, normField, SRef.toRef, SRef.reg]
  | oneof ref rules lr ext => simp [toJ5Field, fieldFromDesc, normField, SRef.toRef, SRef.reg]
  | map item rules ext ih =>
    simp only [wfField] at h
    simp [toJ5Field, fieldFromDesc, normField, ih h]
  | array item rules ext ih =>
    simp only [wfField] at h
    simp [toJ5Field, fieldFromDesc, normField, ih h]

theorem normScalar_export (tag : STag) (fmt : Nat) (pay : String) :
    toJ5Field (normScalar tag fmt pay) = .scalar tag fmt pay := by
  cases tag <;> simp [normScalar, toJ5Field]

/-- export does not see what `normField` changes -/
theorem toJ5Field_norm (f : SField) : toJ5Field (normField f) = toJ5Field f := by
  induction f with
  | scalar tag fmt k w pay => simp [normField, normScalar_export, toJ5Field]
  | any od types lr => rfl
  | enum ref rules lr ext => simp [normField, toJ5Field, SRef.toRef, SRef.reg]
  | object ref fl rules ext => simp [normField, toJ5Field, SRef.toRef, SRef.reg]
  | oneof ref rules lr ext => simp [normField, toJ5Field, SRef.toRef, SRef.reg]
  | map item rules ext ih => simp [normField, toJ5Field, ih]
  | array item rules ext ih => simp [normField, toJ5Field, ih]

theorem toJ5Prop_norm (p : SProp) : toJ5Prop (normProp p) = toJ5Prop p := by
  simp [toJ5Prop, normProp, toJ5Field_norm]

theorem propFromDesc_toJ5Prop (pkg : String) (p : SProp) (h : wfField p.schema = true) :
    propFromDesc pkg (toJ5Prop p) = .ok (normProp p) := by
  simp [toJ5Prop, propFromDesc, fieldFromDesc_toJ5Field pkg p.schema h, normProp]

theorem propsFromDesc_map (pkg : String) (ps : List SProp)
    (h : ps.all (fun p => wfField p.schema) = true) :
    propsFromDesc pkg (ps.map toJ5Prop) = .ok (ps.map normProp) := by
  induction ps with
  | nil => simp [propsFromDesc]
  | cons p ps ih =>
    simp only [List.all_cons, Bool.and_eq_true] at h
    simp [propsFromDesc, propFromDesc_toJ5Prop pkg p h.1, ih h.2]

/-- import ∘ export on a root schema, imported into package `pkg` -/
theorem rootFromDesc_toJ5Root (pkg : String) (r : SRoot) (h : wfRoot r = true) :
    rootFromDesc pkg (toJ5Root r) = .ok (normRoot pkg r) := by
  cases r with
  | object p name desc entity am props =>
    simp only [wfRoot, SRoot.props] at h
    simp [toJ5Root, rootFromDesc, objectFromDesc, propsFromDesc_map pkg props h, normRoot]
  | oneof p name desc props =>
    simp only [wfRoot, SRoot.props] at h
    simp [toJ5Root, rootFromDesc, oneofFromDesc, propsFromDesc_map pkg props h, normRoot]
  | enum p name desc pfx options info =>
    simp [toJ5Root, rootFromDesc, enumFromDesc, normRoot]

theorem toJ5Root_norm (pkg : String) (r : SRoot) : toJ5Root (normRoot pkg r) = toJ5Root r := by
  cases r <;> simp [normRoot, toJ5Root, List.map_map, Function.comp_def, toJ5Prop_norm]

end J5V.Schema
