import J5V.Schema.PropSetModel
import J5V.Schema.ReaderPaths
/-!
# Lemmas about the property-set checks (C18, codec side)
-/
namespace J5V.Schema.Reader
open J5V.Go J5V.Schema

/-- a schema that describes a field passes every check of the property-set layer -/
theorem reflectField_ok (ds : DescSet) (f : FieldD) (s : RField) (h : describes ds f s = true) :
    reflectField f s = .ok () := by
  have item : ∀ kind t i, describesItem ds kind t i = true → itemFactory i kind t = .ok () := by
    intro kind t i hi
    unfold itemFactory
    cases i with
    | scalar tag fmt k wkt =>
      simp only [mutableSchema, Bool.false_eq_true, ↓reduceIte, leafFactory]
      simp only [describesItem] at hi
      by_cases hw : (wkt == "") = true
      · simp only [hw, ↓reduceIte, Bool.and_eq_true, beq_iff_eq] at hi
        have hw' : (wkt != "") = false := by simpa using hw
        simp [hw', hi.1]
      · simp only [hw, Bool.false_eq_true, ↓reduceIte, Bool.and_eq_true, beq_iff_eq] at hi
        have hw' : (wkt != "") = true := by simpa using hw
        obtain ⟨hk, ht⟩ := hi
        cases t with
        | msg full p k' =>
          simp only [Bool.and_eq_true, beq_iff_eq] at ht
          simp [hw', hk, targetFull, ht.1]
        | enum full p k' => cases ht
        | none => cases ht
    | any => rfl
    | enum ref =>
      simp only [mutableSchema, Bool.false_eq_true, ↓reduceIte, leafFactory]
      simp only [describesItem, Bool.and_eq_true, beq_iff_eq] at hi
      simp [hi.1]
    | object ref fl => rfl
    | oneof ref => rfl
    | map i => simp [describesItem] at hi
    | array i => simp [describesItem] at hi
  have coll : ∀ kind t i, i ≠ .any → describesItem ds kind t i = true → collectionItem i = .ok () := by
    intro kind t i hne hi
    cases i with
    | any => exact absurd rfl hne
    | map i => simp [describesItem] at hi
    | array i => simp [describesItem] at hi
    | _ => rfl
  unfold describes at h
  unfold reflectField
  cases hc : f.card with
  | list =>
    simp only [hc] at h
    cases s with
    | array i =>
      simp only [Bool.and_eq_true, bne_iff_ne, ne_eq] at h
      simp only [hc]
      simp [item _ _ _ h.2, coll _ _ _ h.1 h.2, Outcome.bind]
    | _ => cases h
  | map =>
    simp only [hc] at h
    cases s with
    | map i =>
      simp only [hc]
      cases hmv : f.mapVal with
      | none => simp [hmv] at h
      | some x =>
        obtain ⟨vk, vt, vkey⟩ := x
        simp only [hmv, Bool.and_eq_true, bne_iff_ne, ne_eq] at h
        simp [item _ _ _ h.2, coll _ _ _ h.1 h.2, Outcome.bind]
    | _ => cases h
  | single =>
    simp only [hc] at h
    cases s with
    | array i => simp [describesItem] at h
    | map i => simp [describesItem] at h
    | scalar tag fmt k wkt => exact item _ _ _ h
    | any => exact item _ _ _ h
    | enum ref => exact item _ _ _ h
    | object ref fl => exact item _ _ _ h
    | oneof ref => exact item _ _ _ h

/-- a one-element path naming a field of the message resolves to a field with that number -/
theorem resolvePath_single (ds : DescSet) (m : Msg) (f : FieldD) (hf : f ∈ m.fields) :
    ∃ g, resolvePath ds m [f.number] = .ok (some g) ∧ g ∈ m.fields ∧ g.number = f.number := by
  unfold resolvePath
  cases hfind : m.fields.find? (fun g => g.number == f.number) with
  | none =>
    have := List.find?_eq_none.mp hfind f hf
    simp at this
  | some g =>
    refine ⟨g, rfl, List.mem_of_find?_eq_some hfind, ?_⟩
    have := List.find?_some hfind
    simpa using this

end J5V.Schema.Reader
