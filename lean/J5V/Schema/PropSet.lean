import J5V.Schema.PropSetModel
import J5V.Schema.ReaderLinks
/-!
# Lemmas about the property-set checks (C18, codec side)
-/
namespace J5V.Schema.Reader
open J5V.Go J5V.Schema

/-- a schema that describes a field passes every check of the property-set layer (a list / map
of `Any` excepted: open finding `any-in-collection`) -/
theorem reflectField_ok (ds : DescSet) (f : FieldD) (s : RField) (h : describes ds f s = true)
    (hany : anyInCollection s = false) : reflectField f s = .ok () := by
  have item : ∀ kind t i, describesItem ds kind t i = true → itemFactory i kind t = .ok () := by
    intro kind t i hi
    unfold itemFactory
    cases i with
    | scalar tag fmt k wkt =>
      simp only [mutableSchema, Bool.false_eq_true, ↓reduceIte, leafFactory]
      simp only [describesItem] at hi
      by_cases hw : (wkt == "") = true
      · simp only [hw, ↓reduceIte, Bool.and_eq_true, beq_iff_eq] at hi
        have hw' : (wkt != "") = false := by simpa using hw
        simp [hw', hi.1]
      · simp only [hw, Bool.false_eq_true, ↓reduceIte, Bool.and_eq_true, beq_iff_eq] at hi
        have hw' : (wkt != "") = true := by simpa using hw
        obtain ⟨hk, ht⟩ := hi
        cases t with
        | msg full p k' =>
          simp only [Bool.and_eq_true, beq_iff_eq] at ht
          simp [hw', hk, targetFull, ht.1]
        | enum full p k' => cases ht
        | none => cases ht
    | any => rfl
    | enum ref =>
      simp only [mutableSchema, Bool.false_eq_true, ↓reduceIte, leafFactory]
      simp only [describesItem, Bool.and_eq_true, beq_iff_eq] at hi
      simp [hi.1]
    | object ref fl => rfl
    | oneof ref => rfl
    | map i => simp [describesItem] at hi
    | array i => simp [describesItem] at hi
  have coll : ∀ kind t i, i ≠ .any → describesItem ds kind t i = true → collectionItem i = .ok () := by
    intro kind t i hne hi
    cases i with
    | any => exact absurd rfl hne
    | map i => simp [describesItem] at hi
    | array i => simp [describesItem] at hi
    | _ => rfl
  unfold describes at h
  unfold reflectField
  cases hc : f.card with
  | list =>
    simp only [hc] at h
    cases s with
    | array i =>
      have hne : i ≠ .any := by intro hi; subst hi; simp [anyInCollection] at hany
      simp only [hc]
      simp [item _ _ _ h, coll _ _ _ hne h, Outcome.bind]
    | _ => cases h
  | map =>
    simp only [hc] at h
    cases s with
    | map i =>
      have hne : i ≠ .any := by intro hi; subst hi; simp [anyInCollection] at hany
      simp only [hc]
      cases hmv : f.mapVal with
      | none => simp [hmv] at h
      | some x =>
        obtain ⟨vk, vt, vkey⟩ := x
        simp only [hmv] at h
        simp [item _ _ _ h, coll _ _ _ hne h, Outcome.bind]
    | _ => cases h
  | single =>
    simp only [hc] at h
    cases s with
    | array i => simp [describesItem] at h
    | map i => simp [describesItem] at h
    | scalar tag fmt k wkt => exact item _ _ _ h
    | any => exact item _ _ _ h
    | enum ref => exact item _ _ _ h
    | object ref fl => exact item _ _ _ h
    | oneof ref => exact item _ _ _ h

/-- a one-element path naming a field of the message resolves to a field with that number -/
theorem resolvePath_single (ds : DescSet) (m : Msg) (f : FieldD) (hf : f ∈ m.fields) :
    ∃ g, resolvePath ds m [f.number] = .ok (some g) ∧ g ∈ m.fields ∧ g.number = f.number := by
  unfold resolvePath
  cases hfind : m.fields.find? (fun g => g.number == f.number) with
  | none =>
    have := List.find?_eq_none.mp hfind f hf
    simp at this
  | some g =>
    refine ⟨g, rfl, List.mem_of_find?_eq_some hfind, ?_⟩
    have := List.find?_some hfind
    simpa using this



/-! ## client properties: flatten chains resolve

`ClientProperties()` of an object replaces each flattened field by the client properties of the
field's object, with the field's number in front of their paths. On a settled registry of a
linked set every such property still leads — through `newPropSet`'s walk, message by message — to
a field its schema describes, or (the wrapper of an exposed oneof of a flattened message) to the
message field whose message has that oneof. -/

/-- with distinct field numbers `find?` by number finds the field itself -/
theorem find_number (l : List FieldD) (hn : (l.map (·.number)).Nodup) (f : FieldD) (hf : f ∈ l) :
    l.find? (fun g => g.number == f.number) = some f := by
  induction l with
  | nil => cases hf
  | cons x xs ih =>
    simp only [List.map_cons, List.nodup_cons] at hn
    rcases List.mem_cons.mp hf with rfl | hmem
    · simp
    · have hne : x.number ≠ f.number := by
        intro heq
        apply hn.1
        rw [heq]
        exact List.mem_map.mpr ⟨f, hmem, rfl⟩
      rw [List.find?_cons]
      have : (x.number == f.number) = false := by simpa using hne
      rw [this]
      exact ih hn.2 hmem

theorem resolvePath_one (ds : DescSet) (m : Msg) (hn : (m.fields.map (·.number)).Nodup) (f : FieldD)
    (hf : f ∈ m.fields) : resolvePath ds m [f.number] = .ok (some f) := by
  unfold resolvePath
  rw [find_number m.fields hn f hf]

/-- one step of the walk: through message field `f` of `m` into its message `m'` -/
theorem resolvePath_step (ds : DescSet) (m : Msg) (hn : (m.fields.map (·.number)).Nodup) (f : FieldD)
    (hf : f ∈ m.fields) (hk : f.kind = .message) (m' : Msg)
    (hm' : ds.msg? (targetFull f.target) = some m') (n : Int) (rest : List Int) :
    resolvePath ds m (f.number :: n :: rest) = resolvePath ds m' (n :: rest) := by
  rw [resolvePath]
  · simp [find_number m.fields hn f hf, hk, hm']
  · intro h; cases h

/-- where the wrapper property of an exposed oneof of message `mo` sits, seen from `m`: in `m`
itself (`mo = m`, empty path), or behind the message field the path leads to -/
def ExposedAt (ds : DescSet) (m : Msg) (path : List Int) (mo : Msg) : Prop :=
  (path = [] ∧ mo = m) ∨
  (∃ g, resolvePath ds m path = .ok (some g) ∧ g.kind = .message ∧ g.card = .single ∧
    ds.msg? (targetFull g.target) = some mo)

/-- a client property of a schema built from `m` is usable by `lib/j5reflect` -/
def ClientOK (ds : DescSet) (m : Msg) (p : RProp) : Prop :=
  (∃ g, resolvePath ds m p.path = .ok (some g) ∧ describes ds g p.schema = true) ∨
  (∃ mo o, ExposedAt ds m p.path mo ∧ o ∈ mo.oneofs ∧ p.schema = .oneof ⟨mo.pkg, o.split⟩)

/-- a client property of the flattened message, seen through the flattening field -/
theorem ClientOK.lift (ds : DescSet) (m : Msg) (hn : (m.fields.map (·.number)).Nodup) (f : FieldD)
    (hf : f ∈ m.fields) (hk : f.kind = .message) (hc : f.card = .single) (m' : Msg)
    (hm' : ds.msg? (targetFull f.target) = some m') (p : RProp) (h : ClientOK ds m' p) :
    ClientOK ds m (nestedClone [f.number] p) := by
  rcases h with ⟨g, hg, hd⟩ | ⟨mo, o, hex, ho, hs⟩
  · left
    refine ⟨g, ?_, hd⟩
    simp only [nestedClone, List.singleton_append]
    cases hp : p.path with
    | nil => rw [hp] at hg; simp [resolvePath] at hg
    | cons n rest =>
      rw [hp] at hg
      rw [resolvePath_step ds m hn f hf hk m' hm']
      exact hg
  · right
    refine ⟨mo, o, ?_, ho, hs⟩
    simp only [nestedClone, List.singleton_append]
    right
    rcases hex with ⟨hp, hmo⟩ | ⟨g, hg, h1, h2, h3⟩
    · subst hmo
      rw [hp]
      exact ⟨f, resolvePath_one ds m hn f hf, hk, hc, hm'⟩
    · cases hp : p.path with
      | nil => rw [hp] at hg; simp [resolvePath] at hg
      | cons n rest =>
        rw [hp] at hg
        exact ⟨g, by rw [resolvePath_step ds m hn f hf hk m' hm']; exact hg, h1, h2, h3⟩

theorem PropLink.clientOK (ds : DescSet) (hl : linked ds = true) (reg : Reg) (m : Msg) (hc : Canon ds m)
    (p : RProp) (h : PropLink ds reg m p) : ClientOK ds m p := by
  rcases h with ⟨f, hf, hp, hd, _⟩ | ⟨hp, o, ho, hs, _⟩
  · left
    exact ⟨f, by rw [hp]; exact resolvePath_one ds m (linked_numbers hl m hc.mem) f hf, hd⟩
  · right
    exact ⟨m, o, Or.inl ⟨hp, rfl⟩, ho, hs⟩

/-- **`ClientProperties()` succeeds and every client property is usable** — for the properties
`props` of an object schema built from message `m`, whatever is on the flattening stack -/
theorem clientProps_ok (ds : DescSet) (hl : linked ds = true) (reg : Reg) (hs : Settled ds reg)
    (fl : List Ref) (props : List RProp) :
    ∀ m, Canon ds m → (∀ prop ∈ props, PropLink ds reg m prop) →
      ∃ cps, clientProps reg fl props = .ok cps ∧ ∀ p ∈ cps, ClientOK ds m p := by
  induction fl, props using clientProps.induct reg with
  | case1 fl => intro m _ _; exact ⟨[], by simp [clientProps], by intro p hp; cases hp⟩
  | case2 fl prop rest ih1 ih2 =>
    intro m hc hprops
    obtain ⟨cps2, hcps2, hok2⟩ := ih2 m hc (fun q hq => hprops q (List.mem_cons_of_mem _ hq))
    have hplink := hprops prop (List.mem_cons_self ..)
    have hself : ClientOK ds m prop := hplink.clientOK ds hl reg m hc prop
    have hkeep : ∀ here : Outcome (List RProp), here = .ok [prop] →
        ∃ cps, (here.bind fun a => (clientProps reg fl rest).map fun b => a ++ b) = .ok cps ∧
          ∀ p ∈ cps, ClientOK ds m p := by
      intro here hh
      subst hh
      refine ⟨prop :: cps2, by simp [Outcome.bind, hcps2, Outcome.map], ?_⟩
      intro p hp
      rcases List.mem_cons.mp hp with rfl | hp'
      · exact hself
      · exact hok2 p hp'
    rw [clientProps]
    split
    · rename_i ref hsch
      split
      · exact hkeep _ rfl
      · rename_i hst
        -- descend into the flattened object
        rcases hplink with ⟨f, hf, hpath, hd, hr⟩ | ⟨_, o, _, hso, _⟩
        · rw [hsch] at hd hr
          obtain ⟨hcard, hkind, m', hm', href, hw, hit⟩ := describes_object hd
          obtain ⟨hfull, hcanon'⟩ := canon_of_find hm'
          have hown := hr ref rfl
          rw [hit, ← hfull] at hown
          obtain ⟨e', p', k', en', am', ps', h1, h2, _, _, _, hprops', _⟩ :=
            objRef_resolves ds hl reg hs ref m' hcanon' hw hown
          split
          · rename_i hnone; rw [h1] at hnone; cases hnone
          · rename_i e2 hf2
            have he2 : e2 = e' := by rw [h1] at hf2; cases hf2; rfl
            subst he2
            split
            · rename_i p2 k2 en2 am2 ps2 hto2
              rw [h2] at hto2
              cases hto2
              obtain ⟨cps1, hcps1, hok1⟩ := ih1 ref hst e2 hf2 ps' m' hcanon' hprops'
              refine ⟨cps1.map (nestedClone prop.path) ++ cps2, by
                simp [Outcome.bind, hcps1, hcps2, Outcome.map], ?_⟩
              intro p hp
              rcases List.mem_append.mp hp with hp1 | hp2
              · obtain ⟨q, hq, rfl⟩ := List.mem_map.mp hp1
                rw [hpath]
                exact ClientOK.lift ds m (linked_numbers hl m hc.mem) f hf hkind hcard m' hm' q (hok1 q hq)
              · exact hok2 p hp2
            · rename_i r hno hto2
              rw [h2] at hto2
              cases hto2
              exact absurd rfl (hno _ _ _ _ _)
            · rename_i hto2
              rw [h2] at hto2
              cases hto2
        · rw [hsch] at hso
          cases hso
    · exact hkeep _ rfl

/-- `newPropSet`'s walk succeeds on usable client properties -/
theorem resolveAll_ok (ds : DescSet) (m : Msg) (cps : List RProp) (h : ∀ p ∈ cps, ClientOK ds m p) :
    resolveAll ds m cps = .ok () := by
  induction cps with
  | nil => rfl
  | cons p ps ih =>
    unfold resolveAll
    have hp : ∃ r, resolvePath ds m p.path = .ok r := by
      rcases h p (List.mem_cons_self ..) with ⟨g, hg, _⟩ | ⟨mo, o, hex, _, _⟩
      · exact ⟨_, hg⟩
      · rcases hex with ⟨hpe, _⟩ | ⟨g, hg, _⟩
        · exact ⟨none, by rw [hpe]; rfl⟩
        · exact ⟨_, hg⟩
    obtain ⟨r, hr⟩ := hp
    simp only [hr, Outcome.bind]
    exact ih (fun q hq => h q (List.mem_cons_of_mem _ hq))

/-! ## a fuel-bounded evaluator of `clientProps`, for `decide`-able witnesses

`clientProps` is defined by well-founded recursion, which neither `decide` nor the kernel unfolds.
`clientPropsN` is the same function with a budget; whenever it finishes it agrees with
`clientProps`. Used for examples and counterexamples only. -/

def clientPropsN (reg : Reg) : Nat → List Ref → List RProp → Option (Outcome (List RProp))
  | 0, _, _ => none
  | _ + 1, _, [] => some (.ok [])
  | n + 1, fl, prop :: rest =>
    let here : Option (Outcome (List RProp)) :=
      match prop.schema with
      | .object ref true =>
        if onStack fl ref then some (.ok [prop])
        else
          match reg.find ref.pkg ref.schema with
          | none => some (.panic "unregistered reference")
          | some e =>
            match e.to with
            | some (.object _ _ _ _ ps) =>
              (clientPropsN reg n (fl ++ [ref]) ps).map fun o => o.map fun cs => cs.map (nestedClone prop.path)
            | some _ => some (.panic "interface conversion: RootSchema is not *ObjectSchema")
            | none => some (.panic "interface conversion: RootSchema is nil, not *ObjectSchema")
      | _ => some (.ok [prop])
    match here, clientPropsN reg n fl rest with
    | some h, some r => some (h.bind fun a => r.map fun b => a ++ b)
    | _, _ => none

theorem clientPropsN_sound (reg : Reg) (n : Nat) (fl : List Ref) (ps : List RProp)
    (r : Outcome (List RProp)) (h : clientPropsN reg n fl ps = some r) : clientProps reg fl ps = r := by
  induction n generalizing fl ps r with
  | zero => simp [clientPropsN] at h
  | succ n ih =>
    cases ps with
    | nil => simp only [clientPropsN, Option.some.injEq] at h; subst h; simp [clientProps]
    | cons prop rest =>
      simp only [clientPropsN] at h
      split at h
      · rename_i hh rr hhere hrest
        simp only [Option.some.injEq] at h
        subst h
        have hr := ih fl rest rr hrest
        rw [clientProps, hr]
        congr 1
        -- the property itself
        split at hhere
        · rename_i ref hsch
          simp only [hsch]
          split at hhere
          · rename_i hs
            simp only [Option.some.injEq] at hhere
            simp [hs, hhere]
          · rename_i hs
            simp only [hs, Bool.false_eq_true, ↓reduceDIte]
            split at hhere
            · rename_i hnone
              simp only [Option.some.injEq] at hhere
              subst hhere
              split
              · rfl
              · rename_i e hf; rw [hnone] at hf; cases hf
            · rename_i e hf
              split
              · rename_i hnone; rw [hf] at hnone; cases hnone
              · rename_i e2 hf2
                have : e2 = e := by rw [hf] at hf2; cases hf2; rfl
                subst this
                split at hhere
                · rename_i p k en am ps' hto
                  simp only [hto]
                  cases hn : clientPropsN reg n (fl ++ [ref]) ps' with
                  | none => simp [hn] at hhere
                  | some o =>
                    simp only [hn, Option.map_some, Option.some.injEq] at hhere
                    subst hhere
                    rw [ih _ _ o hn]
                · rename_i x hno hto
                  simp only [Option.some.injEq] at hhere
                  subst hhere
                  split
                  · rename_i p k en am ps' hto'
                    rw [hto'] at hto
                    cases hto
                    exact absurd rfl (hno _ _ _ _ _)
                  · rfl
                  · rename_i hto'; rw [hto'] at hto; cases hto
                · rename_i hto
                  simp only [Option.some.injEq] at hhere
                  subst hhere
                  simp [hto]
        · rename_i hnot
          simp only [Option.some.injEq] at hhere
          subst hhere
          split
          · rename_i ref hsch; exact absurd hsch (hnot ref)
          · rfl
      · cases h

end J5V.Schema.Reader
