/-!
# Schema cluster: the two record families of the export / import loop (C15)

* **S side** — the Go structs of `lib/j5schema` (`ObjectSchema`, `OneofSchema`, `EnumSchema`,
  `ObjectProperty`, the seven `FieldSchema` implementations). References between schemas are
  `*RefSchema` pointers in Go; here a reference is the pair (package, schema) it was registered
  under plus a flag telling whether the pointer is the registered entry of the set (`refTo`) or a
  detached one (`AsRef()` on a freshly built inline schema, whose `To` is never filled in).
* **D side** — the messages of `j5.schema.v1` (`RootSchema`, `Field`, `Object`, `Oneof`, `Enum`,
  `ObjectProperty`), i.e. the serialisable source-API form.

Sub-messages that both directions copy by pointer (rules, ext, list rules, entity marker, the
whole scalar `Field`) are opaque payloads: `none` = nil pointer, `some bytes` = present.
Only wire-possible D values are represented: a oneof member message is never nil, a singular
message field may be absent.
-/
namespace J5V.Schema

/-- an optional, opaque sub-message (deterministic wire bytes as text) -/
abbrev Pay := Option String

structure Ref where
  pkg : String
  schema : String
  deriving DecidableEq, Repr, Inhabited

/-- the scalar arms of `schema_j5pb.Field.type` -/
inductive STag where
  | string | integer | float | bool | bytes | decimal | date | timestamp | key
  deriving DecidableEq, Repr, Inhabited

/-! ## S side -/

structure SRef where
  pkg : String
  schema : String
  /-- the pointer is the entry of the set under (pkg, schema) -/
  registered : Bool
  deriving DecidableEq, Repr, Inhabited

inductive SField where
  /-- `ScalarSchema{Proto, Kind, WellKnownTypeName}`; `tag`/`fmt` are the oneof arm and the
  integer / float format of `Proto`, `pay` is `Proto` itself -/
  | scalar (tag : STag) (fmt : Nat) (kind : Nat) (wkt : String) (pay : String)
  | any (onlyDefined : Bool) (types : List String) (listRules : Pay)
  | enum (ref : SRef) (rules listRules ext : Pay)
  | object (ref : SRef) (flatten : Bool) (rules ext : Pay)
  | oneof (ref : SRef) (rules listRules ext : Pay)
  | map (item : SField) (rules ext : Pay)
  | array (item : SField) (rules ext : Pay)
  deriving DecidableEq, Repr, Inhabited

structure SProp where
  jsonName : String
  required : Bool
  explicitlyOptional : Bool
  readOnly : Bool
  writeOnly : Bool
  description : String
  protoField : List Int
  schema : SField
  deriving DecidableEq, Repr, Inhabited

structure EnumOption where
  name : String
  number : Int
  description : String
  /-- `map[string]string`, sorted by key on the wire -/
  info : List (String × String)
  deriving DecidableEq, Repr, Inhabited

structure InfoField where
  name : String
  label : String
  description : String
  deriving DecidableEq, Repr, Inhabited

inductive SRoot where
  | object (pkg name description : String) (entity : Pay) (anyMember : List String)
      (props : List SProp)
  | oneof (pkg name description : String) (props : List SProp)
  | enum (pkg name description pfx : String) (options : List EnumOption)
      (infoFields : List InfoField)
  deriving DecidableEq, Repr, Inhabited

/-! ## D side -/

structure DEnum where
  name : String
  description : String
  pfx : String
  options : List EnumOption
  info : List InfoField
  deriving DecidableEq, Repr, Inhabited

mutual
inductive DField where
  /-- `Field.type` not set -/
  | unset
  | scalar (tag : STag) (fmt : Nat) (pay : String)
  | any (onlyDefined : Bool) (types : List String) (listRules : Pay)
  | oneofRef (r : Ref) (rules listRules ext : Pay)
  | oneofInline (o : DOneof) (rules listRules ext : Pay)
  | oneofNone (rules listRules ext : Pay)
  | objectRef (r : Ref) (flatten : Bool) (rules ext entity : Pay)
  | objectInline (o : DObject) (flatten : Bool) (rules ext entity : Pay)
  | objectNone (flatten : Bool) (rules ext entity : Pay)
  | enumRef (r : Ref) (rules listRules ext : Pay)
  | enumInline (e : DEnum) (rules listRules ext : Pay)
  | enumNone (rules listRules ext : Pay)
  | array (items : Option DField) (rules ext : Pay)
  | map (item : Option DField) (key : Option DField) (rules ext : Pay)
inductive DProp where
  | mk (name : String) (required explicitlyOptional : Bool) (description : String)
      (protoField : List Int) (schema : Option DField)
inductive DObject where
  | mk (name description : String) (entity : Pay) (anyMember : List String) (props : List DProp)
inductive DOneof where
  | mk (name description : String) (props : List DProp)
end

instance : Inhabited DField := ⟨.unset⟩

inductive DRoot where
  | object (o : DObject)
  | oneof (o : DOneof)
  | enum (e : DEnum)
  | unset

instance : Inhabited DRoot := ⟨.unset⟩

end J5V.Schema
