import J5V.Go.Outcome
import J5V.Schema.Types
/-!
# Model of the schema reader (`lib/j5schema/schema_from_proto.go`, `schema_cache.go`) — C18

Input: an **abstract descriptor set** — exactly the facts of a linked proto3 descriptor set that
the control flow of the reader depends on (names, kinds, cardinalities, oneofs, and the *type
cases* and flags of the three annotation families; rule values themselves never steer control
flow and are left out). Output: the *shape* of the reflected schema set (root kinds, names,
entity marker, any-membership, enum options, per property JSON name / required / optional /
proto path / field shape), an error, or a panic.

Mirrors `SchemaSetFromFiles`, `SchemaSet.messageSchema`, `SchemaCache.Schema` (placeholder
first, roll-back on failure — c032eab), `RefSchema.claim` (af1da62: a schema name registered for
one descriptor cannot be taken by another), `isOneofWrapper`, `buildOneofSchema`,
`buildObjectSchema`, `findPSMOptions`, `messageProperties` (with `assertUniquePropertyNames`,
c679d0c), `getProtoFieldExtensions`, `buildSchemaProperty`, `buildSchema`, `buildScalarType`
(after 2b9baca, 1c09ecf), `buildFromStringProto`, `wktSchema`, `buildMessageFieldSchema`,
`buildEnumFieldSchema`, `buildEnum`.

**Recursion.** The Go reader recurses from a message field into the referenced message after
registering a placeholder. The model is the same depth-first traversal written as an explicit
stack machine (`Frame` = one activation of `messageProperties`): `run` takes one `step` at a
time and terminates by the lexicographic measure (messages of the set whose schema name is not
yet registered, work left on the stack) — no fuel.

Go's partial operations are explicit `.panic` arms: `sourceValues.Get(0)` on an enum without
values, the unchecked type assertion `ref.To.(*EnumSchema)` in `buildEnumFieldSchema`, and the
lookup of a message / enum descriptor that the set does not contain (impossible for a linked
set: trusted protodesc).
-/
namespace J5V.Schema.Reader
open J5V.Go J5V.Schema

/-! ## the abstract descriptor set -/

inductive PKind where
  | bool | int32 | sint32 | uint32 | int64 | sint64 | uint64 | fixed32 | fixed64 | sfixed32
  | sfixed64 | float | double | string | bytes | message | enum | group
  deriving DecidableEq, Repr, Inhabited

/-- protoreflect.Kind numbers -/
def PKind.num : PKind → Nat
  | .bool => 8 | .enum => 14 | .int32 => 5 | .sint32 => 17 | .uint32 => 13 | .int64 => 3
  | .sint64 => 18 | .uint64 => 4 | .sfixed32 => 15 | .fixed32 => 7 | .float => 2
  | .sfixed64 => 16 | .fixed64 => 6 | .double => 1 | .string => 9 | .bytes => 12
  | .message => 11 | .group => 10

inductive Card where
  | single | list | map
  deriving DecidableEq, Repr, Inhabited

mutual
/-- `(buf.validate.field)`: required, ignore, and the type case with the flags the reader tests -/
inductive Validate where
  | mk (required : Option Bool) (ignore : Option Nat) (type : VType)
inductive VType where
  | none
  /-- well-known case (`none`, `uuid`, `email`, `hostname`, `ipv4`, `ipv6`, `uri`, `other`) with
  its bool, and the class of the pattern (`none`, `date`, `number`, `id62`, `other`) -/
  | string (wk : String) (wkVal : Bool) (pat : String)
  | bool (hasConst : Bool)
  /-- numeric rules: which case (`int32`, `sint32`, … `double`), const / in / not_in present -/
  | num (case : String) (hasConst hasIn hasNotIn : Bool)
  | bytes
  | enum (ins notIns : List Int)
  | repeated (minItems : Nat) (items : Option Validate)
  | map (values : Option Validate)
  | timestamp (hasConst hasWithin : Bool)
  | duration
  | any
  | other
end

instance : Inhabited Validate := ⟨.mk none none .none⟩

def Validate.required : Validate → Option Bool | .mk r _ _ => r
def Validate.ignore : Validate → Option Nat | .mk _ i _ => i
def Validate.type : Validate → VType | .mk _ _ t => t

/-- `(j5.list.v1.field)`: type case; for strings the well-known case (`open_text`, `date`,
`foreign_key`) and the foreign-key type (`unique_string`, `uuid`, `id62`) -/
structure ListSum where
  case : String
  sw : String
  fk : String
  deriving DecidableEq, Repr, Inhabited

/-- `(j5.ext.v1.field)`: type case, flatten (message / object), key type and format number -/
structure J5Sum where
  case : String
  flatten : Bool
  keyType : String
  keyFormat : Int
  deriving DecidableEq, Repr, Inhabited

/-- `(j5.ext.v1.key)` -/
structure KeySum where
  primary : Bool
  hasFk : Bool
  deriving DecidableEq, Repr, Inhabited

inductive Target where
  | none
  | msg (full pkg split : String)
  | enum (full pkg split : String)
  deriving DecidableEq, Repr, Inhabited

structure FieldD where
  name : String
  jsonName : String
  number : Int
  kind : PKind
  card : Card
  /-- index of the containing oneof, -1 for none -/
  oneofIdx : Int
  target : Target
  optionalKw : Bool
  validate : Option Validate
  list : Option ListSum
  j5 : Option J5Sum
  key : Option KeySum
  /-- map fields: key kind, value kind, value target, `(j5.ext.v1.key)` of the value field -/
  mapKey : Option PKind
  mapVal : Option (PKind × Target × Option KeySum)
  deriving Inhabited

structure OneofD where
  name : String
  split : String
  /-- `strcase.ToLowerCamel(name)` (shipped by the harness; iancoleman/strcase is trusted) -/
  jsonName : String
  synthetic : Bool
  /-- `none` (no `(j5.ext.v1.oneof)`), `expose`, `hide` -/
  ext : String
  deriving DecidableEq, Repr, Inhabited

structure PsmSum where
  entityName : String
  part : Option Int
  deriving DecidableEq, Repr, Inhabited

structure MOpt where
  isOneofWrapper : Bool
  /-- `none`, `object`, `oneof` -/
  typeCase : String
  anyMember : List String
  deriving DecidableEq, Repr, Inhabited

structure EnumD where
  full : String
  pkg : String
  name : String
  split : String
  noDefault : Bool
  values : List (String × Int)
  deriving DecidableEq, Repr, Inhabited

structure Msg where
  full : String
  pkg : String
  name : String
  split : String
  mopt : Option MOpt
  psm : Option PsmSum
  /-- the field called `keys`: `nofield`, `nomsg` (not a message), `msg` -/
  legacyKind : String
  legacy : Option PsmSum
  oneofs : List OneofD
  fields : List FieldD
  deriving Inhabited

structure DescSet where
  /-- file-level messages / enums of the included files, in `SchemaSetFromFiles` order -/
  topMsgs : List String
  topEnums : List String
  /-- every message (nested ones too, map entries excluded), in declaration order -/
  allMsgs : List String
  msgs : List Msg
  enums : List EnumD
  deriving Inhabited

def DescSet.msg? (ds : DescSet) (full : String) : Option Msg := ds.msgs.find? (·.full == full)
def DescSet.enum? (ds : DescSet) (full : String) : Option EnumD := ds.enums.find? (·.full == full)

/-! ## the reflected shape -/

inductive RField where
  | scalar (tag : STag) (fmt : Nat) (kind : Nat) (wkt : String)
  | any
  | enum (ref : Ref)
  | object (ref : Ref) (flatten : Bool)
  | oneof (ref : Ref)
  | map (item : RField)
  | array (item : RField)
  deriving DecidableEq, Repr, Inhabited

structure RProp where
  json : String
  required : Bool
  optional : Bool
  path : List Int
  schema : RField
  deriving DecidableEq, Repr, Inhabited

inductive RRoot where
  | object (pkg name : String) (entity : Option (String × Int)) (anyMember : List String)
      (props : List RProp)
  | oneof (pkg name : String) (props : List RProp)
  | enum (pkg name pfx : String) (options : List (String × Int))
  deriving DecidableEq, Repr, Inhabited

/-- a `RefSchema` of the package set; `src` is the full proto name of the descriptor it was
registered for (bookkeeping of the model, used by the theorems only) -/
structure REntry where
  pkg : String
  key : String
  to : Option RRoot
  src : String
  deriving DecidableEq, Repr, Inhabited

abbrev Reg := List REntry

def Reg.find (reg : Reg) (p k : String) : Option REntry :=
  List.find? (fun e => e.pkg == p && e.key == k) reg

def Reg.has (reg : Reg) (p k : String) : Bool := (reg.find p k).isSome

/-- registry updates, applied in order -/
inductive RegOp where
  /-- `refTo` on a missing key: register an unlinked placeholder -/
  | add (p k src : String)
  /-- `ref.To = root` -/
  | set (p k : String) (root : RRoot)
  /-- `refTo` on a missing key immediately followed by `ref.To = root` (enums, exposed oneofs) -/
  | link (p k src : String) (root : RRoot)
  deriving DecidableEq, Repr, Inhabited

def Reg.apply (reg : Reg) : RegOp → Reg
  | .add p k src => if reg.has p k then reg else reg ++ [⟨p, k, none, src⟩]
  | .set p k root => reg.map fun e => if e.pkg == p && e.key == k then { e with to := some root } else e
  | .link p k src root => if reg.has p k then reg else reg ++ [⟨p, k, some root, src⟩]

def Reg.applyAll (reg : Reg) (ops : List RegOp) : Reg := ops.foldl Reg.apply reg

/-! ## annotations -/

/-- `getProtoFieldExtensions`: with `ignore` set to anything but ALWAYS (3) a repeated
constraint is replaced by its items; a missing constraint is the empty one -/
def effective (v : Option Validate) : Validate :=
  match v with
  | none => .mk none none .none
  | some (.mk req (some ig) ty) =>
    if ig ≠ 3 then
      match ty with
      | .repeated _ items => items.getD (.mk none none .none)
      | _ => .mk req (some ig) ty
    else .mk req (some ig) ty
  | some v => v

/-- the extensions handed to `buildSchema` -/
structure Ext where
  validate : Option Validate
  list : Option ListSum
  j5 : Option J5Sum
  deriving Inhabited

def Ext.vtype (e : Ext) : VType :=
  match e.validate with
  | some v => v.type
  | none => .none

def isRequired (v : Validate) : Bool := v.required == some true

/-! ## outcome plumbing -/

theorem bind_eq_ok {α β} {x : Outcome α} {f : α → Outcome β} {b : β} (h : x.bind f = .ok b) :
    ∃ a, x = .ok a ∧ f a = .ok b := by
  cases x with
  | ok a => exact ⟨a, rfl, h⟩
  | err e => cases h
  | panic w => cases h

theorem bind_noPanic {α β} {x : Outcome α} {f : α → Outcome β} (hx : ∀ w, x ≠ .panic w)
    (hf : ∀ a, x = .ok a → ∀ w, f a ≠ .panic w) : ∀ w, x.bind f ≠ .panic w := by
  intro w
  cases x with
  | ok a => exact hf a rfl w
  | err e => simp [Outcome.bind]
  | panic w' => exact absurd rfl (hx w')

theorem map_eq_ok {α β} {x : Outcome α} {f : α → β} {b : β} (h : x.map f = .ok b) :
    ∃ a, x = .ok a ∧ f a = b := by
  cases x with
  | ok a => simp only [Outcome.map, Outcome.ok.injEq] at h; exact ⟨a, rfl, h⟩
  | err e => cases h
  | panic w => cases h

theorem map_noPanic {α β} {x : Outcome α} {f : α → β} (hx : ∀ w, x ≠ .panic w) :
    ∀ w, x.map f ≠ .panic w := by
  intro w
  cases x with
  | ok a => simp [Outcome.map]
  | err e => simp [Outcome.map]
  | panic w' => exact absurd rfl (hx w')

/-! ## scalars -/

/-- the `const` / `in` / `not_in` rejections of the numeric arms; `getter` is the rule case the
arm looks at (`ext.validate.GetInt32()` for int32 *and* sint32, …) -/
def numRules (e : Ext) (getter : String) : Outcome Unit :=
  match e.vtype with
  | .num c hc hi hn =>
    if c == getter then
      if hc then .err "'const' not supported"
      else if hi then .err "'in' not supported"
      else if hn then .err "'notIn' not supported"
      else .ok ()
    else .ok ()
  | _ => .ok ()

/-- the format a pattern stands for (`wellKnownStringPatterns`) -/
def patternFormat (pat : String) : Option String :=
  if pat == "date" then some "date" else if pat == "number" then some "number"
  else if pat == "id62" then some "id62" else none

/-- `hasOwnPattern` of `buildFromStringProto` (b1eebc1): the field names its J5 type in
`(j5.ext.v1.field)` — a string, or a key with its own pattern — so its validate pattern is not
re-read through `wellKnownStringPatterns` -/
def ownPattern (j5 : Option J5Sum) : Bool :=
  match j5 with
  | some j => j.case == "string" || (j.case == "key" && j.keyType == "pattern")
  | none => false

/-- `buildFromStringProto`, validate part: (format, looksLikeKey) -/
def stringValidate (v : Option Validate) (own : Bool) : Outcome (Option String × Bool) :=
  match v with
  | none => .ok (none, false)
  | some val =>
    match val.type with
    | .none => .ok (none, false)
    | .string wk wkVal pat =>
      let fmt0 := if own then none else patternFormat pat
      if wk == "none" then .ok (fmt0, false)
      else if wk == "uuid" then .ok (if wkVal then some "uuid" else fmt0, true)
      else if wk == "email" then .ok (if wkVal then some "email" else fmt0, false)
      else if wk == "hostname" then .ok (if wkVal then some "hostname" else fmt0, false)
      else if wk == "ipv4" then .ok (if wkVal then some "ipv4" else fmt0, false)
      else if wk == "ipv6" then .ok (if wkVal then some "ipv6" else fmt0, false)
      else if wk == "uri" then .ok (if wkVal then some "uri" else fmt0, false)
      else .err "unknown string constraint"
    | _ => .err "constraint for string is of another type"

/-- `buildFromStringProto`, `(j5.list.v1.field).string.foreign_key` part: the format afterwards -/
def stringForeignKey (fmt1 : Option String) (sw fk : String) : Outcome (Option String) :=
  if sw == "foreign_key" then
    if fk == "unique_string" then
      (match fmt1 with
        | some _ => .err "format not compatible with list.unique_string"
        | none => .ok (some "natural_key"))
    else if fk == "id62" then
      (match fmt1 with
        | some f => if f == "id62" then .ok fmt1 else .err "format not compatible with list.id62"
        | none => .ok (some "id62"))
    else if fk == "uuid" then
      (match fmt1 with
        | some f => if f == "uuid" then .ok fmt1 else .err "format not compatible with list.uuid"
        | none => .ok (some "uuid"))
    else .ok fmt1
  else .ok fmt1

/-- `buildFromStringProto`, open_text part -/
def stringOpenText (sw : String) (fmt2 : Option String) (key : Option KeySum) : Outcome Unit :=
  if sw == "open_text" then
    if fmt2.isSome then .err "open_text and format do not match"
    else if key.isSome then .err "open_text and key constraint do not match"
    else .ok ()
  else .ok ()

/-- `buildFromStringProto`, the final decision string / key -/
def stringKind (like : Bool) (keyOpt : Option J5Sum) : Outcome STag :=
  if !like then .ok .string
  else
    match keyOpt with
    | some j =>
      if j.keyType == "format" then
        if j.keyFormat == 3 || j.keyFormat == 2 then .ok .key else .err "unknown key format"
      else .ok .key
    | none => .ok .key

/-- `buildFromStringProto`: string or key, or an error -/
def buildString (e : Ext) (key : Option KeySum) : Outcome STag :=
  (stringValidate e.validate (ownPattern e.j5)).bind fun (fmt1, like1) =>
    let (sw, fk) : String × String :=
      match e.list with
      | some l => if l.case == "string" then (l.sw, l.fk) else ("none", "none")
      | none => ("none", "none")
    let fkKnown := sw == "foreign_key" && (fk == "unique_string" || fk == "id62" || fk == "uuid")
    (stringForeignKey fmt1 sw fk).bind fun fmt2 =>
      (stringOpenText sw fmt2 key).bind fun _ =>
        let keyOpt : Option J5Sum :=
          match e.j5 with
          | some j => if j.case == "key" then some j else none
          | none => none
        stringKind (like1 || fkKnown || key.isSome || fmt2 == some "id62" || keyOpt.isSome) keyOpt

/-- `buildScalarType` (shape: the J5 scalar arm and its integer / float format) -/
def buildScalar (kind : PKind) (e : Ext) (key : Option KeySum) : Outcome (STag × Nat) :=
  match kind with
  | .string => (buildString e key).map fun t => (t, 0)
  | .bool => .ok (.bool, 0)
  | .int32 | .sint32 => (numRules e "int32").map fun _ => (.integer, 1)
  | .uint32 => (numRules e "uint32").map fun _ => (.integer, 3)
  | .int64 | .sint64 => (numRules e "int64").map fun _ => (.integer, 2)
  | .uint64 => (numRules e "uint64").map fun _ => (.integer, 4)
  | .float => (numRules e "float").map fun _ => (.float, 1)
  | .double => (numRules e "double").map fun _ => (.float, 2)
  | .bytes => .ok (.bytes, 0)
  | _ => .err "unsupported field type"

/-- the full names `wktSchema` knows -/
def isWkt (full : String) : Bool :=
  full == "google.protobuf.Timestamp" ||
  full == "j5.types.date.v1.Date" || full == "j5.types.decimal.v1.Decimal" ||
  full == "j5.types.any.v1.Any" || full == "google.protobuf.Any"

/-- `wktSchema`: `none` = not a well-known type. `google.protobuf.Duration` (was: a string scalar
over a message field) and `google.protobuf.Struct` (was: a map of any over a message field) have
no case any more: like every other `google.protobuf.*` message they are "unsupported google type"
in `referenceMessage`. -/
def wktSchema (full : String) (e : Ext) : Outcome (Option RField) :=
  if full == "google.protobuf.Timestamp" then
    match e.vtype with
    | .timestamp hc hw =>
      if hc then .err "'const' not supported for Timestamp"
      else if hw then .err "'within' not supported for Timestamp"
      else .ok (some (.scalar .timestamp 0 0 full))
    | _ => .ok (some (.scalar .timestamp 0 0 full))
  else if full == "j5.types.date.v1.Date" then .ok (some (.scalar .date 0 11 full))
  else if full == "j5.types.decimal.v1.Decimal" then .ok (some (.scalar .decimal 0 11 full))
  else if full == "j5.types.any.v1.Any" || full == "google.protobuf.Any" then .ok (some .any)
  else .ok none

/-- a message-kind field whose target is neither well-known nor an (unsupported) google type:
the reader looks the descriptor up and builds its schema -/
def needsLookup (full : String) : Bool := !isWkt full && !full.startsWith "google.protobuf."

/-! ## enums -/

/-- `strings.TrimPrefix` -/
def trimPrefix (s pfx : String) : String := if s.startsWith pfx then (s.drop pfx.length).toString else s

/-- `buildEnum` -/
def buildEnum (en : EnumD) : Outcome RRoot :=
  match en.values with
  | [] => .panic "index out of range: enum without values"
  | (first, _) :: _ =>
    if !first.endsWith "UNSPECIFIED" then .err "enum does not have an unspecified value"
    else
      let pfx := (first.dropEnd "UNSPECIFIED".length).toString
      let opts := en.values.map fun (n, i) => (trimPrefix n pfx, i)
      let opts := if en.noDefault then opts.drop 1 else opts
      .ok (.enum en.pkg en.split pfx opts)

/-- `OptionByNumber` -/
def optionByNumber (opts : List (String × Int)) (n : Int) : Bool := opts.any fun (_, i) => i == n

/-- the `in` / `not_in` translation of `buildEnumFieldSchema` -/
def enumRules (opts : List (String × Int)) (ins notIns : List Int) : Outcome Unit :=
  if ins.any fun n => !optionByNumber opts n then .err "enum value not found"
  else if notIns.any fun n => !optionByNumber opts n && n != 0 then .err "enum value not found"
  else .ok ()

/-- `ref, didExist := newRefPlaceholder(…); if !didExist { built, err := buildEnum(…); ref.To = built }`:
the target the reference has afterwards, and the registry update -/
def enumTarget (reg : Reg) (full : String) (en : EnumD) : Outcome (Option RRoot × List RegOp) :=
  match reg.find en.pkg en.split with
  | some ent =>
    -- ref.claim(descriptor)
    if ent.src != en.full then .err "schema name is used by two descriptors"
    else .ok (ent.to, [])
  | none => (buildEnum en).map fun r => (some r, [.link en.pkg en.split en.full r])

/-- `enumSchema := ref.To.(*EnumSchema)` and the rule translation -/
def enumCheck (to : Option RRoot) (vt : VType) : Outcome Unit :=
  match vt with
  | .enum ins notIns =>
    match to with
    | some (.enum _ _ _ opts) => enumRules opts ins notIns
    | some _ => .panic "interface conversion: RootSchema is not *EnumSchema"
    | none => .panic "interface conversion: RootSchema is nil, not *EnumSchema"
  | _ => .ok ()

/-- `buildEnumFieldSchema`: the registry updates and the field shape. The schema name is that of
the enum descriptor (`splitDescriptorName(src.Enum())`). -/
def buildEnumField (ds : DescSet) (reg : Reg) (full : String) (e : Ext) :
    Outcome (RField × List RegOp) :=
  match ds.enum? full with
  | none => .panic "enum descriptor not in the set"
  | some en =>
    (enumTarget reg full en).bind fun (to, ops) =>
      (enumCheck to e.vtype).map fun _ => (.enum ⟨en.pkg, en.split⟩, ops)

/-! ## messages -/

/-- `isOneofWrapper` -/
def isOneofWrapper (m : Msg) : Bool :=
  let byOpt : Option Bool :=
    match m.mopt with
    | some o =>
      if o.isOneofWrapper then some true
      else if o.typeCase == "oneof" then some true
      else if o.typeCase == "object" then some false
      else none
    | none => none
  match byOpt with
  | some b => b
  | none =>
    match m.oneofs with
    | [o] =>
      if o.synthetic then false
      else if o.name != "type" then false
      else if o.ext != "none" then false
      else m.fields.all fun f => f.oneofIdx == 0 && f.kind == .message
    | _ => false

/-- `findPSMOptions` -/
def findPSM (m : Msg) : Outcome (Option (String × Int)) :=
  let psm : Option PsmSum :=
    match m.psm with
    | some p => some p
    | none => if m.legacyKind == "msg" then m.legacy else none
  match psm with
  | none => .ok none
  | some p =>
    match p.part with
    | some part => .ok (some (p.entityName, part))
    | none =>
      if m.name.endsWith "Keys" then .ok (some (p.entityName, 1))
      else if m.name.endsWith "State" then .ok (some (p.entityName, 2))
      else if m.name.endsWith "Event" then .ok (some (p.entityName, 3))
      else if m.name.endsWith "Data" then .ok (some (p.entityName, 4))
      else .err "unknown PSM type suffix"

/-- the outcome of building one field schema: the shape, registry updates, and the message whose
schema must be built next (`buildMessageFieldSchema` on a name not yet registered) -/
structure Built where
  schema : RField
  ops : List RegOp
  push : Option Msg
  deriving Inhabited

/-- the part of `buildMessageFieldSchema` after the well-known types: look the message up and
reference it, registering a placeholder (and asking for its schema) when the name is free. The
schema name is that of the descriptor itself (`splitDescriptorName(msg)`). -/
def referenceMessage (ds : DescSet) (reg : Reg) (full : String) (flatten : Bool) : Outcome Built :=
  if full.startsWith "google.protobuf." then .err "unsupported google type"
  else
    match ds.msg? full with
    | none => .panic "message descriptor not in the set"
    | some m =>
      let f : RField :=
        if isOneofWrapper m then .oneof ⟨m.pkg, m.split⟩ else .object ⟨m.pkg, m.split⟩ flatten
      match reg.find m.pkg m.split with
      | some ent =>
        -- ref.claim(descriptor)
        if ent.src != m.full then .err "schema name is used by two descriptors"
        else .ok ⟨f, [], none⟩
      | none => .ok ⟨f, [.add m.pkg m.split m.full], some m⟩

/-- `buildMessageFieldSchema` -/
def buildMessageField (ds : DescSet) (reg : Reg) (full : String) (e : Ext) : Outcome Built :=
  let flatten : Bool :=
    match e.j5 with
    | some j => (j.case == "message" || j.case == "object") && j.flatten
    | none => false
  (wktSchema full e).bind fun w =>
    match w with
    | some f => .ok ⟨f, [], none⟩
    | none => referenceMessage ds reg full flatten

/-- `buildSchema` -/
def buildSchema (ds : DescSet) (reg : Reg) (kind : PKind) (target : Target) (e : Ext)
    (key : Option KeySum) : Outcome Built :=
  match kind with
  | .message =>
    match target with
    | .msg full _ _ => buildMessageField ds reg full e
    | _ => .panic "message field without message descriptor"
  | .enum =>
    match target with
    | .enum full _ _ => (buildEnumField ds reg full e).map fun (f, ops) => ⟨f, ops, none⟩
    | _ => .panic "enum field without enum descriptor"
  | _ => (buildScalar kind e key).map fun (tag, fmt) => ⟨.scalar tag fmt kind.num "", [], none⟩

/-- the arguments of the `buildSchema` call for one field of `messageProperties`, and how the
property is assembled from the resulting schema; `none` = "map keys must be strings" -/
def propertyPlan (f : FieldD) :
    Outcome (PKind × Target × Ext × Option KeySum × (RField → RProp)) :=
  let ev := effective f.validate
  match f.card with
  | .list =>
    let childV : Option Validate :=
      match ev.type with
      | .repeated _ items => items
      | _ => none
    .ok (f.kind, f.target, ⟨childV, f.list, none⟩, f.key,
      fun s => ⟨f.jsonName, isRequired ev, false, [f.number], .array s⟩)
  | .map =>
    if f.mapKey != some .string then .err "map keys must be strings for J5"
    else
      match f.mapVal with
      | none => .panic "map field without value descriptor"
      | some (vk, vt, vkey) =>
        let childV : Option Validate :=
          match ev.type with
          | .map values => values
          | _ => none
        .ok (vk, vt, ⟨childV, none, none⟩, vkey,
          fun s => ⟨f.jsonName, isRequired ev, false, [f.number], .map s⟩)
  | .single =>
    let req := isRequired ev
    .ok (f.kind, f.target, ⟨some ev, f.list, f.j5⟩, f.key,
      fun s => ⟨f.jsonName, req, !req && f.optionalKw, [f.number], s⟩)

/-- one field of `messageProperties`: the property and what `buildSchema` asked for -/
def buildProperty (ds : DescSet) (reg : Reg) (f : FieldD) : Outcome (RProp × Built) :=
  (propertyPlan f).bind fun (kind, target, ext, key, mk) =>
    (buildSchema ds reg kind target ext key).map fun b => (mk b.schema, b)

/-- what a successful `buildProperty` went through -/
theorem buildProperty_ok {ds : DescSet} {reg : Reg} {f : FieldD} {prop : RProp} {b : Built}
    (h : buildProperty ds reg f = .ok (prop, b)) :
    ∃ kind target ext key mk, propertyPlan f = .ok (kind, target, ext, key, mk) ∧
      buildSchema ds reg kind target ext key = .ok b ∧ prop = mk b.schema := by
  unfold buildProperty at h
  obtain ⟨⟨kind, target, ext, key, mk⟩, hplan, h2⟩ := bind_eq_ok h
  obtain ⟨b', hb, h3⟩ := map_eq_ok h2
  cases h3
  exact ⟨kind, target, ext, key, mk, hplan, hb, rfl⟩

/-! ## the stack machine -/

/-- one activation of `buildObjectSchema` / `buildOneofSchema` + `messageProperties` -/
structure Frame where
  msg : Msg
  asOneof : Bool
  rest : List FieldD
  props : List RProp
  /-- exposed oneofs (by index in `msg.oneofs`) with the properties collected so far -/
  expose : List (Nat × OneofD × List RProp)
  /-- exposed oneofs whose wrapper property has not been added yet -/
  pending : List Nat
  deriving Inhabited

structure St where
  reg : Reg
  stack : List Frame
  deriving Inhabited

def namesUnique (ps : List RProp) : Bool := (ps.map (·.json)).Nodup

instance : DecidablePred fun (l : List String) => l.Nodup := fun _ => inferInstance

/-- the first loop of `messageProperties`: register every exposed oneof -/
def exposeOneofs (m : Msg) (reg : Reg) : Nat → List OneofD →
    Outcome (List (Nat × OneofD × List RProp) × List RegOp)
  | _, [] => .ok ([], [])
  | i, o :: os =>
    if o.synthetic || o.ext != "expose" then exposeOneofs m reg (i + 1) os
    else if reg.has m.pkg o.split then .err "placeholder already exists for oneof wrapper"
    else
      let op := RegOp.link m.pkg o.split (m.full ++ "." ++ o.name) (.oneof m.pkg o.split [])
      match exposeOneofs m (reg.apply op) (i + 1) os with
      | .ok (ex, ops) => .ok ((i, o, []) :: ex, op :: ops)
      | .err x => .err x
      | .panic w => .panic w

/-- enter a message whose placeholder has just been registered -/
def enter (m : Msg) (reg : Reg) : Outcome (Frame × List RegOp) :=
  match exposeOneofs m reg 0 m.oneofs with
  | .ok (ex, ops) => .ok (⟨m, isOneofWrapper m, m.fields, [], ex, ex.map (·.1)⟩, ops)
  | .err x => .err x
  | .panic w => .panic w

/-- `ObjectProperty.checkValid` -/
def propsValid (ps : List RProp) : Bool := ps.all fun p => p.json != ""

/-- the end of `messageProperties` and of `buildObjectSchema` / `buildOneofSchema` -/
def finish (fr : Frame) : Outcome (List RegOp) :=
  if !fr.pending.isEmpty then .err "oneof has not been added"
  else if !namesUnique fr.props then .err "duplicate property name"
  else if fr.expose.any fun (_, _, ps) => !namesUnique ps then .err "duplicate property name"
  else if !propsValid fr.props then .err "property has no JSON name"
  else
    let exposeOps := fr.expose.map fun (_, o, ps) => RegOp.set fr.msg.pkg o.split (.oneof fr.msg.pkg o.split ps)
    if fr.asOneof then
      .ok (exposeOps ++ [.set fr.msg.pkg fr.msg.split (.oneof fr.msg.pkg fr.msg.split fr.props)])
    else
      match findPSM fr.msg with
      | .err x => .err x
      | .panic w => .panic w
      | .ok entity =>
        let anyMember : List String :=
          match fr.msg.mopt with
          | some o => if o.typeCase == "object" then o.anyMember else []
          | none => []
        .ok (exposeOps ++
          [.set fr.msg.pkg fr.msg.split (.object fr.msg.pkg fr.msg.split entity anyMember fr.props)])

/-- where a freshly built property goes: into an exposed oneof (adding the oneof's own property
on the first member) or straight into the message -/
def place (fr : Frame) (f : FieldD) (prop : RProp) : Frame :=
  let inExposed : Option (Nat × OneofD × List RProp) :=
    if f.card == .single && f.oneofIdx ≥ 0 then
      fr.expose.find? fun (i, _, _) => (i : Int) == f.oneofIdx
    else none
  match inExposed with
  | none => { fr with props := fr.props ++ [prop] }
  | some (i, o, _) =>
    let expose := fr.expose.map fun (j, o', ps) => if j == i then (j, o', ps ++ [prop]) else (j, o', ps)
    if fr.pending.contains i then
      { fr with expose := expose, pending := fr.pending.erase i,
                props := fr.props ++ [⟨o.jsonName, false, false, [], .oneof ⟨fr.msg.pkg, o.split⟩⟩] }
    else { fr with expose := expose }

inductive StepR where
  | cont (st : St)
  | done (reg : Reg)
  | fail (e : String)
  | crash (w : String)

/-- one transition of the reader -/
def step (ds : DescSet) (st : St) : StepR :=
  match st.stack with
  | [] => .done st.reg
  | fr :: below =>
    match fr.rest with
    | [] =>
      match finish fr with
      | .ok ops => .cont ⟨st.reg.applyAll ops, below⟩
      | .err x => .fail x
      | .panic w => .crash w
    | f :: fs =>
      match buildProperty ds st.reg f with
      | .err x => .fail x
      | .panic w => .crash w
      | .ok (prop, b) =>
        let fr' := place { fr with rest := fs } f prop
        let reg' := st.reg.applyAll b.ops
        match b.push with
        | none => .cont ⟨reg', fr' :: below⟩
        | some m =>
          match enter m reg' with
          | .ok (child, ops) => .cont ⟨reg'.applyAll ops, child :: fr' :: below⟩
          | .err x => .fail x
          | .panic w => .crash w

/-! ### termination: messages not yet placeholdered, then work left on the stack -/

def unregistered (ds : DescSet) (reg : Reg) : Nat :=
  (ds.msgs.filter fun m => !reg.has m.pkg m.split).length

def work (stack : List Frame) : Nat := (stack.map fun fr => fr.rest.length + 1).sum

theorem filter_length_le {α} (p q : α → Bool) (l : List α) (h : ∀ x, p x = true → q x = true) :
    (l.filter p).length ≤ (l.filter q).length := by
  induction l with
  | nil => simp
  | cons x xs ih =>
    simp only [List.filter_cons]
    cases hp : p x <;> cases hq : q x <;> simp <;> try omega
    have := h x hp
    simp [hq] at this

theorem filter_length_lt {α} (p q : α → Bool) (l : List α) (h : ∀ x, p x = true → q x = true)
    (x0 : α) (hm : x0 ∈ l) (hq0 : q x0 = true) (hp0 : p x0 = false) :
    (l.filter p).length < (l.filter q).length := by
  induction l with
  | nil => cases hm
  | cons x xs ih =>
    simp only [List.filter_cons]
    rcases List.mem_cons.mp hm with rfl | hmem
    · have := filter_length_le p q xs h
      simp [hq0, hp0]; omega
    · have ih' := ih hmem
      cases hp : p x <;> cases hq : q x <;> simp <;> try omega
      have := h x hp
      simp [hq] at this

/-- `reg'` knows every name `reg` knows -/
def Reg.le (reg reg' : Reg) : Prop := ∀ p k, reg.has p k = true → reg'.has p k = true

theorem Reg.le_refl (reg : Reg) : reg.le reg := fun _ _ h => h
theorem Reg.le_trans {a b c : Reg} (h1 : a.le b) (h2 : b.le c) : a.le c :=
  fun p k h => h2 p k (h1 p k h)

theorem Reg.has_append (reg : Reg) (e : REntry) (p k : String) (h : reg.has p k = true) :
    Reg.has (reg ++ [e]) p k = true := by
  unfold Reg.has Reg.find at *
  rw [List.find?_append]
  cases hf : List.find? (fun e => e.pkg == p && e.key == k) reg with
  | none => simp [hf] at h
  | some x => simp

theorem Reg.has_map_set (reg : Reg) (p0 k0 : String) (root : RRoot) (p k : String) :
    Reg.has (reg.map fun e => if e.pkg == p0 && e.key == k0 then { e with to := some root } else e) p k
      = reg.has p k := by
  unfold Reg.has Reg.find
  rw [List.find?_map]
  have hcomp : ((fun e : REntry => e.pkg == p && e.key == k) ∘ fun e : REntry =>
      if e.pkg == p0 && e.key == k0 then { e with to := some root } else e) =
      (fun e : REntry => e.pkg == p && e.key == k) := by
    funext e
    simp only [Function.comp]
    split <;> rfl
  rw [hcomp]
  simp

theorem Reg.le_apply (reg : Reg) (op : RegOp) : reg.le (reg.apply op) := by
  intro p k h
  cases op with
  | add p0 k0 src =>
    simp only [Reg.apply]
    split
    · exact h
    · exact Reg.has_append reg _ p k h
  | set p0 k0 root => simp only [Reg.apply]; rw [Reg.has_map_set]; exact h
  | link p0 k0 src root =>
    simp only [Reg.apply]
    split
    · exact h
    · exact Reg.has_append reg _ p k h

theorem Reg.le_applyAll (reg : Reg) (ops : List RegOp) : reg.le (reg.applyAll ops) := by
  induction ops generalizing reg with
  | nil => exact Reg.le_refl reg
  | cons op ops ih =>
    simp only [Reg.applyAll, List.foldl_cons]
    exact Reg.le_trans (Reg.le_apply reg op) (ih (reg.apply op))

theorem Reg.has_add (reg : Reg) (p k src : String) : (reg.apply (.add p k src)).has p k = true := by
  simp only [Reg.apply]
  split
  · assumption
  · unfold Reg.has Reg.find
    rw [List.find?_append]
    cases hf : List.find? (fun e => e.pkg == p && e.key == k) reg with
    | none => simp
    | some x => simp

theorem unregistered_le (ds : DescSet) (reg reg' : Reg) (h : reg.le reg') :
    unregistered ds reg' ≤ unregistered ds reg := by
  unfold unregistered
  apply filter_length_le
  intro m hm
  simp only [Bool.not_eq_eq_eq_not, Bool.not_true] at *
  cases hh : reg.has m.pkg m.split with
  | false => rfl
  | true => rw [h _ _ hh] at hm; cases hm

theorem unregistered_lt (ds : DescSet) (reg reg' : Reg) (h : reg.le reg') (m : Msg)
    (hm : m ∈ ds.msgs) (h0 : reg.has m.pkg m.split = false) (h1 : reg'.has m.pkg m.split = true) :
    unregistered ds reg' < unregistered ds reg := by
  unfold unregistered
  apply filter_length_lt _ _ _ _ m hm
  · simp [h0]
  · simp [h1]
  · intro x hx
    simp only [Bool.not_eq_eq_eq_not, Bool.not_true] at *
    cases hh : reg.has x.pkg x.split with
    | false => rfl
    | true => rw [h _ _ hh] at hx; cases hx

/-- a message is pushed only when its name was not registered, and the updates register it -/
theorem referenceMessage_push (ds : DescSet) (reg : Reg) (full : String) (fl : Bool) (b : Built)
    (m : Msg) (h : referenceMessage ds reg full fl = .ok b) (hp : b.push = some m) :
    m ∈ ds.msgs ∧ reg.has m.pkg m.split = false ∧ (reg.applyAll b.ops).has m.pkg m.split = true := by
  unfold referenceMessage at h
  split at h
  · cases h
  · split at h
    · cases h
    · rename_i m' hm'
      simp only at h
      split at h
      · split at h
        · cases h
        · cases h; cases hp
      · rename_i hfind
        cases h
        simp only [Option.some.injEq] at hp
        subst hp
        refine ⟨?_, by simp [Reg.has, hfind], ?_⟩
        · unfold DescSet.msg? at hm'
          exact List.mem_of_find?_eq_some hm'
        · simp only [Reg.applyAll, List.foldl_cons, List.foldl_nil]
          exact Reg.has_add reg _ _ _

theorem buildSchema_push (ds : DescSet) (reg : Reg) (kind : PKind) (target : Target) (e : Ext)
    (key : Option KeySum) (b : Built) (m : Msg)
    (h : buildSchema ds reg kind target e key = .ok b) (hp : b.push = some m) :
    m ∈ ds.msgs ∧ reg.has m.pkg m.split = false ∧ (reg.applyAll b.ops).has m.pkg m.split = true := by
  unfold buildSchema at h
  split at h
  · -- message
    split at h
    · rename_i full p k
      unfold buildMessageField at h
      simp only at h
      obtain ⟨w, _, hw⟩ := bind_eq_ok h
      split at hw
      · cases hw; cases hp
      · exact referenceMessage_push ds reg full _ b m hw hp
    · cases h
  · -- enum
    split at h
    · obtain ⟨x, _, hx⟩ := map_eq_ok h
      subst hx; cases hp
    · cases h
  · obtain ⟨x, _, hx⟩ := map_eq_ok h
    subst hx; cases hp

theorem buildProperty_push (ds : DescSet) (reg : Reg) (f : FieldD) (prop : RProp) (b : Built)
    (m : Msg) (h : buildProperty ds reg f = .ok (prop, b)) (hp : b.push = some m) :
    m ∈ ds.msgs ∧ reg.has m.pkg m.split = false ∧ (reg.applyAll b.ops).has m.pkg m.split = true := by
  obtain ⟨kind, target, ext, key, mk, _, hb', _⟩ := buildProperty_ok h
  exact buildSchema_push ds reg kind target ext key b m hb' hp

theorem place_rest (fr : Frame) (f : FieldD) (prop : RProp) : (place fr f prop).rest = fr.rest := by
  unfold place
  simp only
  split
  · rfl
  · split <;> rfl

theorem enter_rest (m : Msg) (reg : Reg) (fr : Frame) (ops : List RegOp)
    (h : enter m reg = .ok (fr, ops)) : fr.rest = m.fields := by
  unfold enter at h
  split at h
  · cases h; rfl
  · cases h
  · cases h

/-- every transition that continues makes the measure smaller -/
theorem step_decreases (ds : DescSet) (st st' : St) (h : step ds st = .cont st') :
    Prod.Lex (· < ·) (· < ·) (unregistered ds st'.reg, work st'.stack)
      (unregistered ds st.reg, work st.stack) := by
  unfold step at h
  split at h
  · cases h
  · rename_i fr below hstack
    split at h
    · -- frame finished
      rename_i hrest
      split at h
      · rename_i ops hfin
        cases h
        apply Prod.Lex.right'
        · exact unregistered_le ds _ _ (Reg.le_applyAll _ _)
        · simp [hstack, work]
      · cases h
      · cases h
    · rename_i f fs hrest
      split at h
      · cases h
      · cases h
      · rename_i prop b hb
        simp only at h
        split at h
        · -- no descent
          cases h
          apply Prod.Lex.right'
          · exact unregistered_le ds _ _ (Reg.le_applyAll _ _)
          · simp [hstack, work, place_rest, hrest]
        · rename_i m hpush
          obtain ⟨hmem, h0, h1⟩ := buildProperty_push ds st.reg f prop b m hb hpush
          split at h
          · rename_i child ops hent
            cases h
            apply Prod.Lex.left
            exact unregistered_lt ds st.reg _
              (Reg.le_trans (Reg.le_applyAll _ _) (Reg.le_applyAll _ _)) m hmem h0
              (Reg.le_applyAll _ ops _ _ h1)
          · cases h
          · cases h

/-- run the machine to completion -/
def run (ds : DescSet) (st : St) : Outcome Reg :=
  match h : step ds st with
  | .done reg => .ok reg
  | .fail e => .err e
  | .crash w => .panic w
  | .cont st' => run ds st'
termination_by (unregistered ds st.reg, work st.stack)
decreasing_by exact step_decreases ds st st' h

/-! ## ClientProperties (`lib/j5schema/root_schema.go`, after 595283b)

Flattened object fields are replaced by the client properties of their object, paths
concatenated, **unless** the object is already being flattened (the guard that ended the infinite
recursion). Defined by well-founded recursion on (registered names not on the flattening stack,
properties left). -/

/-- `ObjectField.Schema()`: `s.Ref.To.(*ObjectSchema)` -/
def objectProps (reg : Reg) (r : Ref) : Outcome (List RProp) :=
  match reg.find r.pkg r.schema with
  | some e =>
    match e.to with
    | some (.object _ _ _ _ ps) => .ok ps
    | some _ => .panic "interface conversion: RootSchema is not *ObjectSchema"
    | none => .panic "interface conversion: RootSchema is nil, not *ObjectSchema"
  | none => .panic "unregistered reference"

def onStack (fl : List Ref) (r : Ref) : Bool := fl.contains r

/-- registered names not on the flattening stack -/
def unflattened (reg : Reg) (fl : List Ref) : Nat :=
  (reg.filter fun e => !onStack fl ⟨e.pkg, e.key⟩).length

theorem unflattened_lt (reg : Reg) (fl : List Ref) (r : Ref) (e : REntry)
    (hf : reg.find r.pkg r.schema = some e) (hn : onStack fl r = false) :
    unflattened reg (fl ++ [r]) < unflattened reg fl := by
  unfold unflattened
  have hpk : e.pkg = r.pkg ∧ e.key = r.schema := by
    have h := hf
    unfold Reg.find at h
    simpa using List.find?_some h
  obtain ⟨hp, hk⟩ := hpk
  have hmem : e ∈ reg := by
    unfold Reg.find at hf
    exact List.mem_of_find?_eq_some hf
  have he : (⟨e.pkg, e.key⟩ : Ref) = r := by cases r; simp_all
  apply filter_length_lt _ _ _ _ e hmem
  · simp [he, hn]
  · simp [onStack, he]
  · intro x hx
    simp only [onStack, List.contains_append, Bool.not_or, Bool.and_eq_true, Bool.not_eq_eq_eq_not,
      Bool.not_true] at hx ⊢
    exact hx.1

/-- `nestedClone`: the child's path is appended to the flattened field's path -/
def nestedClone (inParent : List Int) (p : RProp) : RProp := { p with path := inParent ++ p.path }

/-- `clientProperties(flattening)` over the properties of the object on top of the stack `fl` -/
def clientProps (reg : Reg) (fl : List Ref) (props : List RProp) : Outcome (List RProp) :=
  match props with
  | [] => .ok []
  | prop :: rest =>
    let here : Outcome (List RProp) :=
      match prop.schema with
      | .object ref true =>
        if hs : onStack fl ref then .ok [prop]
        else
          match hf : reg.find ref.pkg ref.schema with
          | none => .panic "unregistered reference"
          | some e =>
            match e.to with
            | some (.object _ _ _ _ ps) =>
              (clientProps reg (fl ++ [ref]) ps).map fun cs => cs.map (nestedClone prop.path)
            | some _ => .panic "interface conversion: RootSchema is not *ObjectSchema"
            | none => .panic "interface conversion: RootSchema is nil, not *ObjectSchema"
      | _ => .ok [prop]
    here.bind fun a => (clientProps reg fl rest).map fun b => a ++ b
termination_by (unflattened reg fl, props.length)
decreasing_by
  · apply Prod.Lex.left
    exact unflattened_lt reg fl ref e hf (by simpa using hs)
  · apply Prod.Lex.right
    simp

/-- `ObjectSchema.ClientProperties()` of the object registered under `self` -/
def clientProperties (reg : Reg) (self : Ref) : Outcome (List RProp) :=
  (objectProps reg self).bind fun ps => clientProps reg [self] ps

/-- an object's client properties (its own and those its flattened fields bring) have pairwise
distinct JSON names. The reader does **not** check this (open finding
`duplicate-client-property-name`; the repair `assertUniqueClientPropertyNames` — this very check
after every build — is written down in notes/schema.md but not applied: the j5s compiler accepts
such packages, see there); it is the hypothesis of `C18_codec_ok`. -/
def clientNamesOK (reg : Reg) (e : REntry) : Outcome Unit :=
  match e.to with
  | some (.object _ _ _ _ ps) =>
    (clientProps reg [⟨e.pkg, e.key⟩] ps).bind fun cps =>
      if namesUnique cps then .ok () else .err "duplicate property name"
  | _ => .ok ()

/-- the same over a list of entries -/
def clientNamesAll (reg : Reg) : List REntry → Outcome Unit
  | [] => .ok ()
  | e :: es => (clientNamesOK reg e).bind fun _ => clientNamesAll reg es

/-! ## entry points -/

/-- build the schema of message `m` when its name is not registered yet
(`SchemaSet.messageSchema` / `SchemaCache.schema` after the lookup) -/
def buildMessage (ds : DescSet) (reg : Reg) (m : Msg) : Outcome Reg :=
  let reg1 := reg.apply (.add m.pkg m.split m.full)
  match enter m reg1 with
  | .ok (fr, ops) => run ds ⟨reg1.applyAll ops, [fr]⟩
  | .err x => .err x
  | .panic w => .panic w

/-- `SchemaSet.messageSchema` -/
def messageSchema (ds : DescSet) (reg : Reg) (m : Msg) : Outcome Reg :=
  match reg.find m.pkg m.split with
  | some e =>
    -- built.claim(src)
    if e.src != m.full then .err "schema name is used by two descriptors"
    else
      match e.to with
      | some _ => .ok reg
      | none => .err "unlinked ref"
  | none => buildMessage ds reg m

def messagesLoop (ds : DescSet) (reg : Reg) : List String → Outcome Reg
  | [] => .ok reg
  | full :: rest =>
    match ds.msg? full with
    | none => .panic "message descriptor not in the set"
    | some m =>
      match messageSchema ds reg m with
      | .ok reg' => messagesLoop ds reg' rest
      | .err x => .err x
      | .panic w => .panic w

/-- the enum loop of `SchemaSetFromFiles` -/
def enumsLoop (ds : DescSet) (reg : Reg) : List String → Outcome Reg
  | [] => .ok reg
  | full :: rest =>
    match ds.enum? full with
    | none => .panic "enum descriptor not in the set"
    | some en =>
      match reg.find en.pkg en.split with
      | some e =>
        -- ref.claim(descriptor), then `didExist`: referenced by an earlier message
        if e.src != en.full then .err "schema name is used by two descriptors"
        else enumsLoop ds reg rest
      | none =>
        match buildEnum en with
        | .ok r => enumsLoop ds (reg.apply (.link en.pkg en.split en.full r)) rest
        | .err x => .err x
        | .panic w => .panic w

/-- `SchemaSetFromFiles` -/
def schemaSetFromFiles (ds : DescSet) : Outcome Reg :=
  match messagesLoop ds [] ds.topMsgs with
  | .ok reg => enumsLoop ds reg ds.topEnums
  | .err x => .err x
  | .panic w => .panic w

/-- `SchemaCache.Schema`: like `messageSchema`; a failed build (error or panic) leaves the cache
as it was (the deferred roll-back of c032eab) -/
def cacheSchema (ds : DescSet) (reg : Reg) (m : Msg) : Outcome Reg × Reg :=
  match messageSchema ds reg m with
  | .ok reg' => (.ok reg', reg')
  | .err x => (.err x, reg)
  | .panic w => (.panic w, reg)

end J5V.Schema.Reader
