import J5V.Schema.CodecBridge
import J5V.Codec.Encode
/-!
# C18 → codec: the empty message of a reflected object root

On the codec cluster's model (`J5V.Codec.encodeBytes` / `decodeBytes`, imported read-only; the
codec builder keeps `hasProp`, `encField`, `encObjectBody`, `encRoot`, `encodeTree`, `getPath`,
`decodeBytes`, `decRootTree`, `decObjMembers`, `finishObject` stable) with the env `toEnv` renders
from a reflected registry: the empty message of every reflected object encodes to `{}`, and `{}`
decodes to the empty message. What this needs from reflection: the object's def is found under
its name, every client property has a proto path (so nothing is populated) or is the wrapper of
an exposed oneof whose own def is in the env — which `RegLinks` + `AllLinked` provide.
-/
namespace J5V.Schema.Bridge
open J5V.Go J5V.Schema J5V.Schema.Reader J5V.Json J5V.Codec

/-- the tokenizer / tree builder on the two bytes `{}` -/
theorem readDoc_empty : readDoc (ascii "{}") = .obj (.nil .closed) := by rfl

theorem getPath_nil (path : List Nat) : getPath [] path = none := by
  cases path with
  | nil => rfl
  | cons k rest =>
    cases rest with
    | nil => rfl
    | cons k2 r2 => simp [getPath, aget]

theorem hasProp_empty (env : Env) (f : Nat) (p : PropDef) : hasProp env f p [] = false := by
  induction f generalizing p with
  | zero => rfl
  | succ f ih =>
    rw [hasProp]
    split
    · split
      · split
        · rename_i ops _
          suffices h : ∀ (l : List PropDef) (pr : PropDef → Bool), (∀ q ∈ l, pr q = false) →
              ((l.filter pr).length == 1) = false by
            apply h
            intro q _
            split
            · exact ih _
            · rfl
          intro l pr hpr
          have : l.filter pr = [] := List.filter_eq_nil_iff.mpr (by intro q hq; simp [hpr q hq])
          simp [this]
        · rfl
      · rfl
    · simp [getPath_nil]

/-- a property that contributes nothing to the encoding of the empty message: it has a proto
path (nothing is populated), or it is an exposed oneof whose def the env holds -/
def EmptyOK (env : Env) (q : PropDef) : Prop :=
  q.path ≠ [] ∨ ∃ ref ops, q.field = .oneof ref ∧ env.find ref = some (.oneof ops)

theorem encField_empty (env : Env) (O : Oracle) (f : Nat) (q : PropDef) (h : EmptyOK env q) :
    encField env O (f + 1) q [] = .ok none := by
  rw [encField]
  rcases h with hp | ⟨ref, ops, hf, he⟩
  · split
    · rename_i hnil; exact absurd hnil hp
    · simp [getPath_nil]
  · split
    · simp only [hf, he, hasProp_empty]
      rfl
    · simp [getPath_nil]

theorem findProp_isSome (props : List PropDef) (p : PropDef) (hp : p ∈ props) :
    ∃ q, findProp props p.jsonName = some q ∧ q ∈ props := by
  unfold findProp
  cases h : props.reverse.find? (fun q => q.jsonName == p.jsonName) with
  | none =>
    have := List.find?_eq_none.mp h p (by simpa using hp)
    simp at this
  | some q =>
    exact ⟨q, rfl, by simpa using List.mem_of_find?_eq_some h⟩

theorem foldr_consMember_none (g : PropDef → Outcome (Option (Bytes × Bytes × PTree)))
    (l : List PropDef) (h : ∀ p ∈ l, g p = .ok none) :
    l.foldr (fun p acc => consMember (g p) acc) (.ok (.nil .closed)) = .ok (.nil .closed) := by
  induction l with
  | nil => rfl
  | cons p ps ih =>
    simp only [List.foldr_cons]
    rw [ih (fun x hx => h x (List.mem_cons_of_mem _ hx)), h p (List.mem_cons_self ..)]
    rfl

theorem encObjectBody_empty (env : Env) (O : Oracle) (f : Nat) (props : List PropDef)
    (h : ∀ q ∈ props, EmptyOK env q) :
    encObjectBody env O (f + 2) props [] = .ok (.obj (.nil .closed)) := by
  rw [encObjectBody]
  rw [foldr_consMember_none]
  intro p hp
  obtain ⟨q, hq, hqm⟩ := findProp_isSome props p hp
  simp only [hq, encField_empty env O f q (h q hqm)]

theorem encodeTree_empty (env : Env) (O : Oracle) (root : String) (props : List PropDef)
    (hfind : env.find root = some (.object props)) (h : ∀ q ∈ props, EmptyOK env q) :
    encodeTree env O root (.msg []) = .ok (.obj (.nil .closed)) := by
  unfold encodeTree encFuel
  have hd : (PVal.msg []).depth = 1 := by simp [PVal.depth, depthFields]
  rw [hd]
  show encRoot env O (14 + 2) root (.msg []) = _
  rw [encRoot]
  · exact encObjectBody_empty env O 13 props h
  · exact hfind

theorem decodeBytes_empty (c : Cfg) (root : String) (props : List PropDef)
    (hfind : c.env.find root = some (.object props)) :
    decodeBytes c root (ascii "{}") = .ok [] := by
  unfold decodeBytes
  rw [readDoc_empty, decRootTree]
  simp only [hfind]
  rw [decObjMembers]
  rfl

/-! ## through `toEnv` -/

/-- def names are distinct: `package.Name` determines (package, name). True of real schema names
(a name is proto identifiers joined by `_`, it contains no dot); kept as a decidable hypothesis -/
def nameInj (reg : Reg) : Bool :=
  reg.all fun a => reg.all fun b =>
    rootName a.pkg a.key != rootName b.pkg b.key || (a.pkg == b.pkg && a.key == b.key)

theorem find?_unique {α} (l : List α) (pr : α → Bool) (x : α) (hx : x ∈ l) (hp : pr x = true)
    (hu : ∀ y ∈ l, pr y = true → y = x) : l.find? pr = some x := by
  cases h : l.find? pr with
  | none => have := List.find?_eq_none.mp h x hx; simp [hp] at this
  | some y =>
    have hy := List.mem_of_find?_eq_some h
    have hpy := List.find?_some h
    rw [hu y hy hpy]

theorem toEnv_find (ds : DescSet) (reg : Reg) (hf : Found reg) (hinj : nameInj reg = true)
    (e : REntry) (he : e ∈ reg) :
    (toEnv ds reg).find (rootName e.pkg e.key) = some (entryRoot ds reg e) := by
  unfold Env.find toEnv
  simp only [List.find?_map]
  have : reg.find? ((fun d : String × Root => d.1 == rootName e.pkg e.key) ∘
      fun e => (rootName e.pkg e.key, entryRoot ds reg e)) = some e := by
    apply find?_unique _ _ e he (by simp)
    intro y hy hpy
    simp only [Function.comp, beq_iff_eq] at hpy
    unfold nameInj at hinj
    simp only [List.all_eq_true, Bool.or_eq_true, bne_iff_ne, ne_eq, Bool.and_eq_true, beq_iff_eq] at hinj
    rcases hinj y hy e he with h1 | h1
    · exact absurd hpy h1
    · have hy' := hf y hy
      have he' := hf e he
      rw [h1.1, h1.2, he'] at hy'
      cases hy'
      rfl
  simp [this]

/-! ## def names are distinct: `nameInj` follows from `linked` -/

theorem list_dot_split {a a' b b' : List Char} (hb : '.' ∉ b) (hb' : '.' ∉ b')
    (h : a ++ '.' :: b = a' ++ '.' :: b') : a = a' ∧ b = b' := by
  rcases List.append_eq_append_iff.mp h with ⟨c, h1, h2⟩ | ⟨c, h1, h2⟩
  · cases c with
    | nil => simp at h1 h2; exact ⟨h1.symm, h2⟩
    | cons x c' =>
      simp only [List.cons_append, List.cons.injEq] at h2
      exact absurd (by rw [h2.2]; simp) hb
  · cases c with
    | nil => simp at h1 h2; exact ⟨h1, h2.symm⟩
    | cons x c' =>
      simp only [List.cons_append, List.cons.injEq] at h2
      exact absurd (by rw [h2.2]; simp) hb'

theorem rootName_inj {p k p' k' : String} (hk : dotFree k = true) (hk' : dotFree k' = true)
    (h : rootName p k = rootName p' k') : p = p' ∧ k = k' := by
  have hl : (rootName p k).toList = (rootName p' k').toList := by rw [h]
  simp only [rootName, String.toList_append] at hl
  have hd : ".".toList = ['.'] := rfl
  rw [hd] at hl
  simp only [List.append_assoc, List.singleton_append] at hl
  unfold dotFree at hk hk'
  simp only [Bool.not_eq_eq_eq_not, Bool.not_true, List.contains_eq_mem, decide_eq_false_iff_not] at hk hk'
  obtain ⟨h1, h2⟩ := list_dot_split hk hk' hl
  exact ⟨String.toList_inj.mp h1, String.toList_inj.mp h2⟩

/-- every key of a settled registry of a linked set is a schema name of the set: no dot -/
theorem keys_dotFree (ds : DescSet) (hl : linked ds = true) (reg : Reg) (hs : Settled ds reg)
    (e : REntry) (he : e ∈ reg) : dotFree e.key = true := by
  have hsp := linked_splits hl
  unfold splitsDotFree at hsp
  simp only [Bool.and_eq_true, List.all_eq_true] at hsp
  cases hto : e.to with
  | none => exact absurd hto (hs.2.2 e he)
  | some root =>
    have hr := hs.2.1 e he root hto
    cases root with
    | enum _ _ _ _ =>
      obtain ⟨_, en, hen, hk⟩ := hr
      rw [hk]; exact hsp.2 en hen
    | object _ _ _ _ _ =>
      obtain ⟨m, hc, _, _, _, hk, _⟩ := hr
      rw [hk]; exact (hsp.1 m hc.mem).1
    | oneof _ _ _ =>
      rcases hr with ⟨m, hc, _, _, _, hk, _⟩ | ⟨m, o, hc, ho, _, _, hk, _⟩
      · rw [hk]; exact (hsp.1 m hc.mem).1
      · rw [hk]; exact (hsp.1 m hc.mem).2 o ho

theorem nameInj_of_settled (ds : DescSet) (hl : linked ds = true) (reg : Reg) (hs : Settled ds reg) :
    nameInj reg = true := by
  unfold nameInj
  simp only [List.all_eq_true, Bool.or_eq_true, bne_iff_ne, ne_eq, Bool.and_eq_true, beq_iff_eq]
  intro a ha b hb
  by_cases h : rootName a.pkg a.key = rootName b.pkg b.key
  · exact Or.inr (rootName_inj (keys_dotFree ds hl reg hs a ha) (keys_dotFree ds hl reg hs b hb) h)
  · exact Or.inl h

/-- a client property with an empty path is one of the object's own properties: a flattened
field has a path, and prefixes it to what it brings -/
theorem clientProps_emptyPath (reg : Reg) (fl : List Ref) (props : List RProp) :
    (∀ prop ∈ props, ∀ ref, prop.schema = .object ref true → prop.path ≠ []) →
    ∀ cps, clientProps reg fl props = .ok cps → ∀ q ∈ cps, q.path = [] → q ∈ props := by
  induction fl, props using clientProps.induct reg with
  | case1 fl =>
    intro _ cps h q hq
    simp only [clientProps] at h
    cases h
    cases hq
  | case2 fl prop rest ih1 ih2 =>
    intro hne cps h q hq hqp
    rw [clientProps] at h
    obtain ⟨a, ha, h2⟩ := bind_eq_ok h
    obtain ⟨b, hb, hab⟩ := map_eq_ok h2
    subst hab
    rcases List.mem_append.mp hq with hqa | hqb
    · split at ha
      · rename_i ref hsch
        split at ha
        · cases ha
          simp only [List.mem_singleton] at hqa
          subst hqa
          exact List.mem_cons_self ..
        · split at ha
          · cases ha
          · split at ha
            · obtain ⟨cs, _, hx⟩ := map_eq_ok ha
              subst hx
              obtain ⟨q0, _, rfl⟩ := List.mem_map.mp hqa
              exfalso
              simp only [nestedClone, List.append_eq_nil_iff] at hqp
              exact hne prop (List.mem_cons_self ..) ref hsch hqp.1
            · cases ha
            · cases ha
      · cases ha
        simp only [List.mem_singleton] at hqa
        subst hqa
        exact List.mem_cons_self ..
    · exact List.mem_cons_of_mem _
        (ih2 (fun x hx => hne x (List.mem_cons_of_mem _ hx)) b hb q hqb hqp)

theorem toProp_path (ds : DescSet) (m : Msg) (p : RProp) :
    (toProp ds m p).path = p.path.map Int.toNat := by
  unfold toProp
  split <;> rfl

theorem resolveIn_nil (ds : DescSet) (m : Msg) : resolveIn ds m [] = none := by
  simp [resolveIn]

/-- **the empty message of every reflected object encodes to `{}` and `{}` decodes to the empty
message — on the codec cluster's model, through `toEnv`** -/
theorem reflected_empty_message (ds : DescSet) (hl : linked ds = true) (reg : Reg)
    (h : schemaSetFromFiles ds = .ok reg) (e : REntry) (he : e ∈ reg)
    (p k : String) (en : Option (String × Int)) (am : List String) (ps : List RProp)
    (hto : e.to = some (.object p k en am ps)) (O : Oracle) (c : Cfg) (hc : c.env = toEnv ds reg) :
    encodeBytes (toEnv ds reg) O (rootName e.pkg e.key) (.msg []) = .ok (ascii "{}") ∧
    decodeBytes c (rootName e.pkg e.key) (ascii "{}") = .ok [] := by
  have hs := (schemaSetFromFiles_safe ds hl).2 reg h
  have hinj := nameInj_of_settled ds hl reg hs
  obtain ⟨hregOK, hlinks, hall⟩ := hs
  obtain ⟨m, hcan, hsrc, _, _, _, hprops, _⟩ := hlinks e he _ hto
  obtain ⟨cps, hcps, hok⟩ := clientProps_ok ds hl reg ⟨hregOK, hlinks, hall⟩ [⟨e.pkg, e.key⟩] ps m hcan hprops
  have hmsg : ds.msg? e.src = some m := by rw [hsrc]; exact hcan
  have hroot : entryRoot ds reg e = .object (cps.map (toProp ds m)) := by
    unfold entryRoot
    simp only [hto, hmsg, hcps]
  have hfind := toEnv_find ds reg hregOK.1 hinj e he
  rw [hroot] at hfind
  -- every property is silent on the empty message
  have hempty : ∀ q ∈ cps.map (toProp ds m), EmptyOK (toEnv ds reg) q := by
    intro q hq
    obtain ⟨cp, hcp, rfl⟩ := List.mem_map.mp hq
    by_cases hpath : cp.path = []
    · right
      have hown : cp ∈ ps := by
        apply clientProps_emptyPath reg _ ps _ cps hcps cp hcp hpath
        intro prop hprop ref hsch
        rcases hprops prop hprop with ⟨f, _, hp, _⟩ | ⟨_, o, _, hso, _⟩
        · rw [hp]; simp
        · rw [hsch] at hso; cases hso
      rcases hprops cp hown with ⟨f, _, hp, _⟩ | ⟨_, o, ho, hso, hown'⟩
      · rw [hp] at hpath; cases hpath
      · obtain ⟨e', hf', hsrc'⟩ := hown'
        have he' := mem_of_find reg _ _ e' hf'
        obtain ⟨hp', hk'⟩ := Reg.find_pred reg _ _ e' hf'
        have hroot' : ∃ ops, entryRoot ds reg e' = .oneof ops := by
          cases hto' : e'.to with
          | none => exact absurd hto' (hall e' he')
          | some root' =>
            have hr := hlinks e' he' root' hto'
            rw [hsrc'] at hr
            cases root' with
            | enum _ _ _ _ =>
              exfalso
              have h1 := hr.1
              rw [(linked_names ds (linked_base hl) m hcan.mem).2 o ho] at h1
              cases h1
            | object _ _ _ _ _ =>
              exfalso
              obtain ⟨m0, hc0, h0, _⟩ := hr
              have := linked_oneofName hl m hcan.mem o ho
              rw [h0] at this
              unfold Canon at hc0
              rw [hc0] at this
              cases this
            | oneof _ _ ops =>
              unfold entryRoot
              simp only [hto']
              have : (ownerMsg ds e'.src).isSome = true := by
                unfold ownerMsg
                rw [List.find?_isSome]
                refine ⟨m, hcan.mem, ?_⟩
                simp only [Bool.or_eq_true, beq_iff_eq, List.any_eq_true]
                right
                exact ⟨o, ho, hsrc'.symm⟩
              cases hom : ownerMsg ds e'.src with
              | none => simp [hom] at this
              | some mo => exact ⟨_, rfl⟩
        obtain ⟨ops, hops⟩ := hroot'
        refine ⟨rootName m.pkg o.split, ops, ?_, ?_⟩
        · unfold toProp
          rw [hpath, resolveIn_nil]
          simp only [hso, toField]
        · have := toEnv_find ds reg hregOK.1 hinj e' he'
          rw [hp', hk', hops] at this
          exact this
    · left
      rw [toProp_path]
      intro hnil
      apply hpath
      cases hcpp : cp.path with
      | nil => rfl
      | cons a b => rw [hcpp] at hnil; simp at hnil
  constructor
  · unfold encodeBytes
    rw [encodeTree_empty (toEnv ds reg) O _ _ hfind hempty]
    rfl
  · apply decodeBytes_empty c _ (cps.map (toProp ds m))
    rw [hc]
    exact hfind

/-! ## oneof roots (a oneof wrapper message, an exposed oneof) -/

theorem encOneofBody_empty (env : Env) (O : Oracle) (f : Nat) (ops : List PropDef) :
    encOneofBody env O (f + 1) ops [] = .ok (.obj (.nil .closed)) := by
  rw [encOneofBody]
  have : ops.filter (oneofSet env (f + 1) ops []) = [] := by
    apply List.filter_eq_nil_iff.mpr
    intro q _
    unfold oneofSet
    split
    · simp [hasProp_empty]
    · simp
  rw [this]

theorem encodeTree_empty_oneof (env : Env) (O : Oracle) (root : String) (ops : List PropDef)
    (hfind : env.find root = some (.oneof ops)) :
    encodeTree env O root (.msg []) = .ok (.obj (.nil .closed)) := by
  unfold encodeTree encFuel
  have hd : (PVal.msg []).depth = 1 := by simp [PVal.depth, depthFields]
  rw [hd]
  show encRoot env O (14 + 2) root (.msg []) = _
  simp only [encRoot, hfind]
  exact encOneofBody_empty env O 14 ops

theorem decodeBytes_empty_oneof (c : Cfg) (root : String) (ops : List PropDef)
    (hfind : c.env.find root = some (.oneof ops)) :
    decodeBytes c root (ascii "{}") = .ok [] := by
  unfold decodeBytes
  rw [readDoc_empty, decRootTree]
  simp only [hfind]
  rw [decOneofMembers]
  simp [finishOneof, oneofPost, applyPost, closeOk]

/-- the same for every reflected **oneof** schema: no member set ⇒ `{}`, and `{}` decodes to the
message with no member set -/
theorem reflected_empty_message_oneof (ds : DescSet) (hl : linked ds = true) (reg : Reg)
    (h : schemaSetFromFiles ds = .ok reg) (e : REntry) (he : e ∈ reg)
    (p k : String) (ps : List RProp) (hto : e.to = some (.oneof p k ps)) (O : Oracle) (c : Cfg)
    (hc : c.env = toEnv ds reg) :
    encodeBytes (toEnv ds reg) O (rootName e.pkg e.key) (.msg []) = .ok (ascii "{}") ∧
    decodeBytes c (rootName e.pkg e.key) (ascii "{}") = .ok [] := by
  have hs := (schemaSetFromFiles_safe ds hl).2 reg h
  have hinj := nameInj_of_settled ds hl reg hs
  have hown : (ownerMsg ds e.src).isSome = true := by
    unfold ownerMsg
    rw [List.find?_isSome]
    rcases hs.2.1 e he _ hto with ⟨m, hc0, hsrc, _⟩ | ⟨m, o, hc0, ho, hsrc, _⟩
    · exact ⟨m, hc0.mem, by simp [hsrc]⟩
    · refine ⟨m, hc0.mem, ?_⟩
      simp only [Bool.or_eq_true, beq_iff_eq, List.any_eq_true]
      exact Or.inr ⟨o, ho, hsrc.symm⟩
  obtain ⟨ops, hroot⟩ : ∃ ops, entryRoot ds reg e = .oneof ops := by
    unfold entryRoot
    simp only [hto]
    cases hom : ownerMsg ds e.src with
    | none => simp [hom] at hown
    | some mo => exact ⟨_, rfl⟩
  have hfind := toEnv_find ds reg hs.1.1 hinj e he
  rw [hroot] at hfind
  constructor
  · unfold encodeBytes
    rw [encodeTree_empty_oneof (toEnv ds reg) O _ ops hfind]
    rfl
  · apply decodeBytes_empty_oneof c _ ops
    rw [hc]
    exact hfind

end J5V.Schema.Bridge
