import J5V.Go.Outcome
import J5V.Schema.Types
/-!
# Model of the export / import loop of `lib/j5schema` (property C15)

Mirrors (as the code is after the `fix:` commits 622a251 and 729e9c2):

* export — `ToJ5Field` of the seven field schemas (`field_schema.go`), `ObjectProperty.ToJ5Proto`,
  `ObjectSchema/OneofSchema/EnumSchema.ToJ5Root` (`root_schema.go`);
* import — `schemaFromDesc`, `objectPropertyFromDesc`, `objectSchemaFromDesc`,
  `oneofSchemaFromDesc`, `enumSchemaFromDesc`, `buildRoot`, `buildSchemas`,
  `PackageSetFromSourceAPI` (`schema_from_desc.go`), `refTo` / `referencePackage` and
  `assertRefsLink` (`schema_set.go`).

The value an import function returns does not depend on the package set: `refTo` only registers
a placeholder under (package, schema) and hands back the pointer registered there. The model
therefore splits every import function into its pure result (`fieldFromDesc` …) and the list of
references it registers (`fieldRefs` …); `importSet` replays the registrations on the `Env`.

Go's partial operations are explicit `.panic` arms. `schemaFromDesc` used to dereference its
argument (`schema.Type`) unchecked, so an absent `ArrayField.items`, `MapField.item_schema` or
`ObjectProperty.schema` panicked; since the nil check it is the error "missing field schema", and
the only `.panic` arms left are the provably unreachable ones after `objectFromDesc` /
`oneofFromDesc` (`C15_importer_never_panics`).
-/
namespace J5V.Schema
open J5V.Go

/-! ## export -/

/-- `&schema_j5pb.Field{Type: &schema_j5pb.Field_String_{}}` on the wire: field 30, length 0 -/
def stringKeyPay : String := "f20100"

def stringKey : DField := .scalar .string 0 stringKeyPay

def SRef.toRef (r : SRef) : Ref := ⟨r.pkg, r.schema⟩

def toJ5Field : SField → DField
  | .scalar tag fmt _ _ pay => .scalar tag fmt pay
  | .any od types lr => .any od types lr
  | .enum ref rules lr ext => .enumRef ref.toRef rules lr ext
  | .object ref flatten rules ext => .objectRef ref.toRef flatten rules ext none
  | .oneof ref rules lr ext => .oneofRef ref.toRef rules lr ext
  | .map item rules ext => .map (some (toJ5Field item)) (some stringKey) rules ext
  | .array item rules ext => .array (some (toJ5Field item)) rules ext

def toJ5Prop (p : SProp) : DProp :=
  .mk p.jsonName p.required p.explicitlyOptional p.description p.protoField
    (some (toJ5Field p.schema))

def toJ5Root : SRoot → DRoot
  | .object _ name desc entity anyMember props =>
    .object (.mk name desc entity anyMember (props.map toJ5Prop))
  | .oneof _ name desc props => .oneof (.mk name desc (props.map toJ5Prop))
  | .enum _ name desc pfx options info => .enum ⟨name, desc, pfx, options, info⟩

/-! ## import: pure results -/

/-- protoreflect.Kind numbers -/
def kindBool := 8
def kindString := 9
def kindBytes := 12
def kindMessage := 11
def kindInt32 := 5
def kindInt64 := 3
def kindUint32 := 13
def kindUint64 := 4
def kindFloat := 2
def kindDouble := 1

/-- `intKinds` -/
def intKind : Nat → Option Nat
  | 1 => some kindInt32
  | 2 => some kindInt64
  | 3 => some kindUint32
  | 4 => some kindUint64
  | _ => none

/-- `floatKinds` -/
def floatKind : Nat → Option Nat
  | 1 => some kindFloat
  | 2 => some kindDouble
  | _ => none

/-- the scalar arms of `schemaFromDesc`: (Kind, WellKnownTypeName) -/
def scalarFromDesc (tag : STag) (fmt : Nat) (pay : String) : Outcome SField :=
  match tag with
  | .timestamp => .ok (.scalar tag fmt kindMessage "" pay)
  | .bool => .ok (.scalar tag fmt kindBool "" pay)
  | .string => .ok (.scalar tag fmt kindString "" pay)
  | .key => .ok (.scalar tag fmt kindString "" pay)
  | .integer =>
    match intKind fmt with
    | some k => .ok (.scalar tag fmt k "" pay)
    | none => .err "unsupported integer format"
  | .float =>
    match floatKind fmt with
    | some k => .ok (.scalar tag fmt k "" pay)
    | none => .err "unsupported float format"
  | .bytes => .ok (.scalar tag fmt kindBytes "" pay)
  | .decimal => .ok (.scalar tag fmt kindMessage "j5.types.decimal.v1" pay)
  | .date => .ok (.scalar tag fmt kindMessage "j5.types.date.v1" pay)

def enumFromDesc (pkg : String) (e : DEnum) : SRoot :=
  .enum pkg e.name e.description e.pfx e.options e.info

mutual
/-- `schemaFromDesc` (result only) in package `pkg` -/
def fieldFromDesc (pkg : String) : DField → Outcome SField
  | .unset => .err "unsupported descriptor schema type"
  | .scalar tag fmt pay => scalarFromDesc tag fmt pay
  | .any od types lr => .ok (.any od types lr)
  | .objectRef r flatten rules ext _ => .ok (.object ⟨r.pkg, r.schema, true⟩ flatten rules ext)
  | .objectInline o flatten rules ext _ =>
    match objectFromDesc pkg o with
    | .ok (.object p name _ _ _ _) => .ok (.object ⟨p, name, false⟩ flatten rules ext)
    | .ok _ => .panic "unreachable"
    | .err e => .err e
    | .panic w => .panic w
  | .objectNone _ _ _ _ => .err "unsupported object schema type"
  | .oneofRef r rules lr ext => .ok (.oneof ⟨r.pkg, r.schema, true⟩ rules lr ext)
  | .oneofInline o rules lr ext =>
    match oneofFromDesc pkg o with
    | .ok (.oneof p name _ _) => .ok (.oneof ⟨p, name, false⟩ rules lr ext)
    | .ok _ => .panic "unreachable"
    | .err e => .err e
    | .panic w => .panic w
  | .oneofNone _ _ _ => .err "unsupported oneof schema type"
  | .enumRef r rules lr ext => .ok (.enum ⟨r.pkg, r.schema, true⟩ rules lr ext)
  | .enumInline e rules lr ext => .ok (.enum ⟨pkg, e.name, false⟩ rules lr ext)
  | .enumNone _ _ _ => .err "unsupported enum schema type"
  | .array none _ _ => .err "missing field schema"
  | .array (some items) rules ext =>
    match fieldFromDesc pkg items with
    | .ok f => .ok (.array f rules ext)
    | .err e => .err e
    | .panic w => .panic w
  | .map none _ _ _ => .err "missing field schema"
  | .map (some item) _ rules ext =>
    match fieldFromDesc pkg item with
    | .ok f => .ok (.map f rules ext)
    | .err e => .err e
    | .panic w => .panic w

/-- `objectPropertyFromDesc` -/
def propFromDesc (pkg : String) : DProp → Outcome SProp
  | .mk _ _ _ _ _ none => .err "missing field schema"
  | .mk name required explicitlyOptional description protoField (some schema) =>
    match fieldFromDesc pkg schema with
    | .ok f => .ok ⟨name, required, explicitlyOptional, false, false, description, protoField, f⟩
    | .err e => .err e
    | .panic w => .panic w

def propsFromDesc (pkg : String) : List DProp → Outcome (List SProp)
  | [] => .ok []
  | p :: ps =>
    match propFromDesc pkg p with
    | .ok sp =>
      match propsFromDesc pkg ps with
      | .ok sps => .ok (sp :: sps)
      | .err e => .err e
      | .panic w => .panic w
    | .err e => .err e
    | .panic w => .panic w

/-- `objectSchemaFromDesc` -/
def objectFromDesc (pkg : String) : DObject → Outcome SRoot
  | .mk name description entity anyMember props =>
    match propsFromDesc pkg props with
    | .ok sps => .ok (.object pkg name description entity anyMember sps)
    | .err e => .err e
    | .panic w => .panic w

/-- `oneofSchemaFromDesc` -/
def oneofFromDesc (pkg : String) : DOneof → Outcome SRoot
  | .mk name description props =>
    match propsFromDesc pkg props with
    | .ok sps => .ok (.oneof pkg name description sps)
    | .err e => .err e
    | .panic w => .panic w
end

/-- `buildRoot` -/
def rootFromDesc (pkg : String) : DRoot → Outcome SRoot
  | .object o => objectFromDesc pkg o
  | .oneof o => oneofFromDesc pkg o
  | .enum e => .ok (enumFromDesc pkg e)
  | .unset => .err "expected root schema"

/-! ## import: the references registered through `refTo` -/

mutual
def fieldRefs : DField → List Ref
  | .objectRef r _ _ _ _ => [r]
  | .oneofRef r _ _ _ => [r]
  | .enumRef r _ _ _ => [r]
  | .objectInline o _ _ _ _ => objectRefs o
  | .oneofInline o _ _ _ => oneofRefs o
  | .array (some items) _ _ => fieldRefs items
  | .map (some item) _ _ _ => fieldRefs item
  | _ => []
def propRefs : DProp → List Ref
  | .mk _ _ _ _ _ (some schema) => fieldRefs schema
  | .mk _ _ _ _ _ none => []
def propsRefs : List DProp → List Ref
  | [] => []
  | p :: ps => propRefs p ++ propsRefs ps
def objectRefs : DObject → List Ref
  | .mk _ _ _ _ props => propsRefs props
def oneofRefs : DOneof → List Ref
  | .mk _ _ props => propsRefs props
end

def rootRefs : DRoot → List Ref
  | .object o => objectRefs o
  | .oneof o => oneofRefs o
  | _ => []

/-! ## the package set -/

/-- one `RefSchema` of the set: registered under (pkg, key); `to = none` is an unlinked placeholder -/
structure Entry where
  pkg : String
  key : String
  to : Option SRoot
  deriving DecidableEq, Repr, Inhabited

/-- `SchemaSet`: the packages that exist (possibly without schemas) and all registered refs -/
structure Env where
  pkgs : List String
  entries : List Entry
  deriving DecidableEq, Repr, Inhabited

def Env.empty : Env := ⟨[], []⟩

def lookupE (es : List Entry) (p k : String) : Option Entry :=
  es.find? (fun e => e.pkg == p && e.key == k)

def Env.lookup (env : Env) (p k : String) : Option Entry := lookupE env.entries p k

/-- `referencePackage` -/
def Env.ensurePkg (env : Env) (p : String) : Env :=
  if env.pkgs.contains p then env else { env with pkgs := env.pkgs ++ [p] }

/-- `refTo`: the registered entry, created unlinked when missing -/
def Env.refTo (env : Env) (p k : String) : Env :=
  let env := env.ensurePkg p
  match env.lookup p k with
  | some _ => env
  | none => { env with entries := env.entries ++ [⟨p, k, none⟩] }

def Env.refAll (env : Env) : List Ref → Env
  | [] => env
  | r :: rs => (env.refTo r.pkg r.schema).refAll rs

/-- `refSchema.To = to` -/
def Env.setTo (env : Env) (p k : String) (r : SRoot) : Env :=
  { env with entries := env.entries.map fun e =>
      if e.pkg == p && e.key == k then { e with to := some r } else e }

/-- one iteration of the loop of `buildSchemas` -/
def buildSchema (env : Env) (p k : String) (d : DRoot) : Outcome Env :=
  let env := env.refTo p k
  match env.lookup p k with
  | some ⟨_, _, some _⟩ => .err "schema already exists"
  | _ =>
    match rootFromDesc p d with
    | .ok r => .ok ((env.refAll (rootRefs d)).setTo p k r)
    | .err e => .err e
    | .panic w => .panic w

def buildSchemas (env : Env) (p : String) : List (String × DRoot) → Outcome Env
  | [] => .ok env
  | (k, d) :: rest =>
    match buildSchema env p k d with
    | .ok env' => buildSchemas env' p rest
    | .err e => .err e
    | .panic w => .panic w

/-- the source API, sub-packages flattened to their full name -/
abbrev Api := List (String × List (String × DRoot))

def buildPackages (env : Env) : Api → Outcome Env
  | [] => .ok env
  | (p, schemas) :: rest =>
    match buildSchemas (env.ensurePkg p) p schemas with
    | .ok env' => buildPackages env' rest
    | .err e => .err e
    | .panic w => .panic w

/-! ## `assertRefsLink` -/

def SRoot.fullName : SRoot → String
  | .object pkg name _ _ _ _ => pkg ++ "." ++ name
  | .oneof pkg name _ _ => pkg ++ "." ++ name
  | .enum pkg name _ _ _ _ => pkg ++ "." ++ name

/-- the references a field schema holds (`walkFieldSchema`) -/
def SField.refs : SField → List SRef
  | .object ref _ _ _ => [ref]
  | .oneof ref _ _ _ => [ref]
  | .enum ref _ _ _ => [ref]
  | .map item _ _ => item.refs
  | .array item _ _ => item.refs
  | _ => []

def SRoot.props : SRoot → List SProp
  | .object _ _ _ _ _ props => props
  | .oneof _ _ _ props => props
  | .enum .. => []

def SRoot.refs (r : SRoot) : List SRef := r.props.flatMap fun p => p.schema.refs

/-- `RefSchema.To` of a reference held by a field: the registered entry's target, nothing for a
detached reference (its `To` is never assigned) -/
def Env.target (env : Env) (r : SRef) : Option SRoot :=
  if r.registered then (env.lookup r.pkg r.schema).bind (·.to) else none

/-- an entry whose root has not been entered yet -/
def isUnseen (seen : List String) (e : Entry) : Bool :=
  match e.to with
  | some r => !seen.contains r.fullName
  | none => false

/-- roots of the set whose full name has not been seen: the measure of the walk -/
def unseen (env : Env) (seen : List String) : Nat := (env.entries.filter (isUnseen seen)).length

theorem filter_length_le {α} (p q : α → Bool) (l : List α) (h : ∀ x, p x = true → q x = true) :
    (l.filter p).length ≤ (l.filter q).length := by
  induction l with
  | nil => simp
  | cons x xs ih =>
    simp only [List.filter_cons]
    cases hp : p x <;> cases hq : q x <;> simp <;> try omega
    have := h x hp
    simp [hq] at this

theorem filter_length_lt {α} (p q : α → Bool) (l : List α) (h : ∀ x, p x = true → q x = true)
    (x0 : α) (hm : x0 ∈ l) (hq0 : q x0 = true) (hp0 : p x0 = false) :
    (l.filter p).length < (l.filter q).length := by
  induction l with
  | nil => cases hm
  | cons x xs ih =>
    simp only [List.filter_cons]
    rcases List.mem_cons.mp hm with rfl | hmem
    · have := filter_length_le p q xs h
      simp [hq0, hp0]; omega
    · have ih' := ih hmem
      cases hp : p x <;> cases hq : q x <;> simp <;> try omega
      have := h x hp
      simp [hq] at this

theorem unseen_lt (env : Env) (seen : List String) (e : Entry) (r : SRoot)
    (he : e ∈ env.entries) (hr : e.to = some r) (hn : seen.contains r.fullName = false) :
    unseen env (r.fullName :: seen) < unseen env seen := by
  unfold unseen
  apply filter_length_lt _ _ _ _ e he
  · simpa [isUnseen, hr] using hn
  · simp [isUnseen, hr]
  · intro x
    unfold isUnseen
    cases x.to with
    | none => simp
    | some rx =>
      simp only [List.contains_cons, Bool.not_or, Bool.and_eq_true, Bool.not_eq_true',
        and_imp]
      intro _ h2
      simpa using h2

/-- The walk of `assertRefsLink` as a work list: `stack` holds the references still to visit,
`seen` the full names of the roots already entered (`seenSchemas`). A reference without target is
the error "unresolved reference"; a root already seen is skipped; otherwise its references are
pushed. Same visited-set discipline as the recursive closures of the Go code, so the same set of
references is examined; which unresolved reference is reported first is not observable
(errors are compared by class). -/
def linkWalk (env : Env) (seen : List String) (stack : List SRef) : Outcome Unit :=
  match stack with
  | [] => .ok ()
  | ref :: rest =>
    if hreg : ref.registered then
      match hl : env.lookup ref.pkg ref.schema with
      | none => .err "unresolved reference"
      | some e =>
        match ht : e.to with
        | none => .err "unresolved reference"
        | some r =>
          if hs : seen.contains r.fullName then linkWalk env seen rest
          else linkWalk env (r.fullName :: seen) (r.refs ++ rest)
    else .err "unresolved reference"
termination_by (unseen env seen, stack.length)
decreasing_by
  · exact Prod.Lex.right _ (by simp)
  · apply Prod.Lex.left
    have hmem : e ∈ env.entries := by
      unfold Env.lookup lookupE at hl
      exact List.mem_of_find?_eq_some hl
    exact unseen_lt env seen e r hmem ht (by simpa using hs)

/-- `Package.assertRefsLink`: every entry of the package, with a fresh `seenSchemas` -/
def assertRefsLink (env : Env) (p : String) : Outcome Unit :=
  linkWalk env [] ((env.entries.filter (·.pkg == p)).map fun e => ⟨e.pkg, e.key, true⟩)

def assertAll (env : Env) : List String → Outcome Unit
  | [] => .ok ()
  | p :: ps =>
    match assertRefsLink env p with
    | .ok () => assertAll env ps
    | .err e => .err e
    | .panic w => .panic w

/-- `PackageSetFromSourceAPI` -/
def packageSetFromSourceAPI (api : Api) : Outcome Env :=
  match buildPackages Env.empty api with
  | .ok env =>
    match assertAll env env.pkgs with
    | .ok () => .ok env
    | .err e => .err e
    | .panic w => .panic w
  | .err e => .err e
  | .panic w => .panic w

/-! ## exporting a whole set -/

/-- `ToJ5Root` of every linked entry, grouped by package in the set's order -/
def exportEnv (env : Env) : Api :=
  env.pkgs.map fun p =>
    (p, (env.entries.filter (·.pkg == p)).filterMap fun e => e.to.map fun r => (e.key, toJ5Root r))

/-- the exported form of one schema of the set, if it is linked -/
def exportLookup (env : Env) (p k : String) : Option DRoot :=
  ((env.lookup p k).bind (·.to)).map toJ5Root

end J5V.Schema
