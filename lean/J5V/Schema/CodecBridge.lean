import J5V.Schema.PropSet
import J5V.Codec.DecodeProofs
/-!
# C18 → codec: the reflected schema as the codec model's `Env`

`toEnv ds reg` renders a reflected registry in the form the codec cluster's model takes as input
(`J5V.Codec.Env`, PROTOCOL-codec.md §3: one def per schema, named `package.Name`; an object's
props are its **client** properties with the full proto path, the presence class of the final
field and the index of the real proto oneof containing it; a oneof's props are its members; enum
options are the short names). The codec modules are imported read-only.

What is proved (`reflected_itemsOk`): for **every** descriptor set, if `SchemaSetFromFiles`
succeeds then the env satisfies `Env.itemsOk` — array / map items are never arrays or maps — which
is the hypothesis of the codec cluster's no-panic theorems (C06). So for reflected schemas that
hypothesis holds by construction (before 98dc738 it did not: `repeated google.protobuf.Struct` was
reflected as an array of maps).

Not validated by a stream: `toEnv` itself (the codec harness dumps the env from the real
j5schema structs; the presence class / oneof group come from the descriptor there). `itemsOk`
only depends on the field shapes, which are the reader model's, validated by `schema.reflect`.
-/
namespace J5V.Schema.Bridge
open J5V.Go J5V.Schema J5V.Schema.Reader J5V.Json

def rootName (p k : String) : String := p ++ "." ++ k

def scalarKind (tag : STag) (fmt : Nat) : Codec.ScalarKind :=
  match tag with
  | .string => .string
  | .key => .key
  | .bool => .bool
  | .bytes => .bytes
  | .timestamp => .timestamp
  | .date => .date
  | .decimal => .decimal
  | .integer => if fmt == 1 then .int32 else if fmt == 2 then .int64 else if fmt == 3 then .uint32 else .uint64
  | .float => if fmt == 1 then .float32 else .float64

/-- `pb`: the final field's message is `google.protobuf.Any` (as opposed to `j5.types.any.v1.Any`) -/
def toField (pb : Bool) : RField → Codec.Field
  | .scalar tag fmt _ _ => .scalar (scalarKind tag fmt)
  | .any => .any pb
  | .enum ref => .enum (rootName ref.pkg ref.schema)
  | .object ref _ => .object (rootName ref.pkg ref.schema)
  | .oneof ref => .oneof (rootName ref.pkg ref.schema)
  | .array i => .array (toField pb i)
  | .map i => .map (toField pb i)

/-- the walk of `resolvePath`, also returning the message that contains the final field -/
def resolveIn (ds : DescSet) (m : Msg) : List Int → Option (Msg × FieldD)
  | [] => none
  | [n] => (m.fields.find? fun f => f.number == n).map fun f => (m, f)
  | n :: rest =>
    match m.fields.find? fun f => f.number == n with
    | none => none
    | some f =>
      if f.kind != .message then none
      else
        match ds.msg? (targetFull f.target) with
        | some m' => resolveIn ds m' rest
        | none => none

/-- the field is a member of a real (non-synthetic) proto oneof of its message: its index -/
def realOneof (m : Msg) (f : FieldD) : Option Nat :=
  if f.oneofIdx < 0 then none
  else
    match m.oneofs[f.oneofIdx.toNat]? with
    | some o => if o.synthetic then none else some f.oneofIdx.toNat
    | none => none

/-- how `protoreflect.Message.Has` behaves on the field -/
def presOf (m : Msg) (f : FieldD) : Codec.Pres :=
  match f.card with
  | .list => .list
  | .map => .map
  | .single =>
    if f.kind == .message then .msg
    else if f.optionalKw || (realOneof m f).isSome then .opt
    else .imp

def toProp (ds : DescSet) (m : Msg) (p : RProp) : Codec.PropDef :=
  match resolveIn ds m p.path with
  | some (mc, g) =>
    { jsonName := ascii p.json, path := p.path.map Int.toNat, pres := presOf mc g,
      field := toField (targetFull (itemTarget g) == "google.protobuf.Any") p.schema,
      group := realOneof mc g }
  | none =>
    -- the wrapper of an exposed oneof (empty path)
    { jsonName := ascii p.json, path := p.path.map Int.toNat, pres := .none,
      field := toField false p.schema }

/-- the message whose fields the props of the entry registered for `src` are relative to: the
message itself, or (exposed oneof) the message that declares the oneof -/
def ownerMsg (ds : DescSet) (src : String) : Option Msg :=
  ds.msgs.find? fun m => m.full == src || m.oneofs.any fun o => m.full ++ "." ++ o.name == src

def entryRoot (ds : DescSet) (reg : Reg) (e : REntry) : Codec.Root :=
  match e.to with
  | some (.object _ _ _ _ ps) =>
    match ds.msg? e.src with
    | some m =>
      match clientProps reg [⟨e.pkg, e.key⟩] ps with
      | .ok cps => .object (cps.map (toProp ds m))
      | _ => .noschema
    | none => .noschema
  | some (.oneof _ _ ps) =>
    match ownerMsg ds e.src with
    | some m => .oneof (ps.map (toProp ds m))
    | none => .noschema
  | some (.enum _ _ pfx opts) => .enum (ascii pfx) (opts.map fun (n, i) => (ascii n, i))
  | none => .noschema

/-- the reflected registry as the codec model's environment -/
def toEnv (ds : DescSet) (reg : Reg) : Codec.Env :=
  { defs := reg.map fun e => (rootName e.pkg e.key, entryRoot ds reg e),
    res := ds.msgs.map fun m => (ascii m.full, rootName m.pkg m.split) }

/-! ## array / map items are never arrays or maps -/

def shapeOK : RField → Bool
  | .array (.array _) | .array (.map _) | .map (.array _) | .map (.map _) => false
  | _ => true

theorem fieldOk_of_shape (pb : Bool) (s : RField) (h : shapeOK s = true) :
    Codec.fieldOk (toField pb s) = true := by
  cases s with
  | array i => cases i <;> simp_all [shapeOK, toField, Codec.fieldOk]
  | map i => cases i <;> simp_all [shapeOK, toField, Codec.fieldOk]
  | _ => simp [toField, Codec.fieldOk]

theorem describes_shapeOK {ds : DescSet} {f : FieldD} {s : RField} (h : describes ds f s = true) :
    shapeOK s = true := by
  unfold describes at h
  cases hc : f.card with
  | list =>
    simp only [hc] at h
    cases s with
    | array i => cases i <;> simp_all [describesItem, shapeOK]
    | _ => cases h
  | map =>
    simp only [hc] at h
    cases s with
    | map i =>
      cases hmv : f.mapVal with
      | none => simp [hmv] at h
      | some x =>
        obtain ⟨vk, vt, vkey⟩ := x
        simp only [hmv] at h
        cases i <;> simp_all [describesItem, shapeOK]
    | _ => cases h
  | single =>
    simp only [hc] at h
    cases s with
    | array i => simp [describesItem] at h
    | map i => simp [describesItem] at h
    | _ => rfl

def rootProps : RRoot → List RProp
  | .object _ _ _ _ ps => ps
  | .oneof _ _ ps => ps
  | .enum .. => []

/-- every property schema of a registry the reader produced has a well-formed shape -/
theorem regShapes {ds : DescSet} {reg : Reg} (h : RegDescribes ds reg) :
    ∀ e ∈ reg, ∀ root, e.to = some root → ∀ prop ∈ rootProps root, shapeOK prop.schema = true := by
  intro e he root hto prop hprop
  have hd := h e he root hto
  have key : ∀ m, propDescribes ds m prop → shapeOK prop.schema = true := by
    intro m hp
    rcases hp with ⟨f, _, _, hdesc⟩ | ⟨_, o, _, hs⟩
    · exact describes_shapeOK hdesc
    · rw [hs]; rfl
  cases root with
  | enum _ _ _ _ => cases hprop
  | object _ _ _ _ ps =>
    obtain ⟨⟨m, _, _, _, hps⟩, _⟩ := hd
    exact key m (hps prop hprop)
  | oneof _ _ ps =>
    obtain ⟨⟨m, _, _, _, hps⟩, _⟩ := hd
    exact key m (hps prop hprop)

/-- `ClientProperties` only re-roots paths: every client property carries the schema of a
registered property -/
theorem clientProps_forall (reg : Reg) (P : RField → Prop)
    (hreg : ∀ e ∈ reg, ∀ p k en am ps, e.to = some (.object p k en am ps) → ∀ prop ∈ ps, P prop.schema)
    (fl : List Ref) (props : List RProp) :
    (∀ prop ∈ props, P prop.schema) → ∀ cps, clientProps reg fl props = .ok cps →
      ∀ q ∈ cps, P q.schema := by
  induction fl, props using clientProps.induct reg with
  | case1 fl =>
    intro _ cps h q hq
    simp only [clientProps] at h
    cases h
    cases hq
  | case2 fl prop rest ih1 ih2 =>
    intro hprops cps h q hq
    rw [clientProps] at h
    obtain ⟨a, ha, h2⟩ := bind_eq_ok h
    obtain ⟨b, hb, hab⟩ := map_eq_ok h2
    subst hab
    have hrest := ih2 (fun x hx => hprops x (List.mem_cons_of_mem _ hx)) b hb
    have hself : P prop.schema := hprops prop (List.mem_cons_self ..)
    rcases List.mem_append.mp hq with hqa | hqb
    · -- from the property itself
      split at ha
      · rename_i ref hsch
        split at ha
        · cases ha
          simp only [List.mem_singleton] at hqa
          subst hqa
          exact hself
        · rename_i hst
          split at ha
          · cases ha
          · rename_i e2 hf2
            split at ha
            · rename_i p2 k2 en2 am2 ps2 hto2
              obtain ⟨cs, hcs, hx⟩ := map_eq_ok ha
              subst hx
              obtain ⟨q0, hq0, rfl⟩ := List.mem_map.mp hqa
              have he2 := mem_of_find reg _ _ e2 hf2
              exact ih1 ref hst e2 hf2 ps2 (hreg e2 he2 p2 k2 en2 am2 ps2 hto2) cs hcs q0 hq0
            · cases ha
            · cases ha
      · cases ha
        simp only [List.mem_singleton] at hqa
        subst hqa
        exact hself
    · exact hrest q hqb

theorem propsOk_map (ds : DescSet) (m : Msg) (ps : List RProp)
    (h : ∀ q ∈ ps, shapeOK q.schema = true) : Codec.propsOk (ps.map (toProp ds m)) = true := by
  unfold Codec.propsOk
  simp only [List.all_eq_true, List.mem_map]
  rintro _ ⟨q, hq, rfl⟩
  unfold toProp
  split <;> exact fieldOk_of_shape _ _ (h q hq)

theorem entryRoot_ok (ds : DescSet) (reg : Reg) (hd : RegDescribes ds reg) (e : REntry) (he : e ∈ reg) :
    Codec.rootOk (entryRoot ds reg e) = true := by
  have hshapes := regShapes hd
  unfold entryRoot
  split
  · rename_i p k en am ps hto
    split
    · rename_i m hm
      split
      · rename_i cps hcps
        apply propsOk_map
        apply clientProps_forall reg (fun s => shapeOK s = true) _ _ ps
          (fun prop hp => hshapes e he _ hto prop hp) cps hcps
        intro e' he' p' k' en' am' ps' hto' prop hp
        exact hshapes e' he' _ hto' prop hp
      · rfl
    · rfl
  · rename_i p k ps hto
    split
    · exact propsOk_map ds _ ps (fun prop hp => hshapes e he _ hto prop hp)
    · rfl
  · rfl
  · rfl

/-- **the env of a reflected schema set satisfies the codec model's `itemsOk`** -/
theorem reflected_itemsOk (ds : DescSet) (reg : Reg) (h : schemaSetFromFiles ds = .ok reg) :
    (toEnv ds reg).itemsOk = true := by
  have hd := schemaSetFromFiles_describes ds reg h
  unfold Codec.Env.itemsOk toEnv
  simp only [List.all_eq_true, List.mem_map]
  rintro _ ⟨e, he, rfl⟩
  exact entryRoot_ok ds reg hd e he

end J5V.Schema.Bridge
