import J5V.Schema.PropSet
import J5V.Schema.EnvModel
import J5V.Codec.DecodeProofs
/-!
# C18 → codec: the reflected schema as the codec model's `Env`

`toEnv ds reg` renders a reflected registry in the form the codec cluster's model takes as input
(`J5V.Codec.Env`, PROTOCOL-codec.md §3: one def per schema, named `package.Name`; an object's
props are its **client** properties with the full proto path, the presence class of the final
field and the index of the real proto oneof containing it; a oneof's props are its members; enum
options are the short names). The codec modules are imported read-only.

What is proved (`reflected_itemsOk`): for **every** descriptor set, if `SchemaSetFromFiles`
succeeds then the env satisfies `Env.itemsOk` — array / map items are never arrays or maps — which
is the hypothesis of the codec cluster's no-panic theorems (C06). So for reflected schemas that
hypothesis holds by construction (before 98dc738 it did not: `repeated google.protobuf.Struct` was
reflected as an array of maps).

`toEnv` itself (definitions in `EnvModel.lean`) is validated per root def by the `env=` part of
the `schema.reflect` result (Go side: `envdump.go`, the codec harness's prop / field / presence dump
over the real j5schema structs and descriptors).
-/
namespace J5V.Schema.Bridge
open J5V.Go J5V.Schema J5V.Schema.Reader J5V.Json

/-! ## array / map items are never arrays or maps -/

def shapeOK : RField → Bool
  | .array (.array _) | .array (.map _) | .map (.array _) | .map (.map _) => false
  | _ => true

theorem fieldOk_of_shape (pb : Bool) (s : RField) (h : shapeOK s = true) :
    Codec.fieldOk (toField pb s) = true := by
  cases s with
  | array i => cases i <;> simp_all [shapeOK, toField, Codec.fieldOk]
  | map i => cases i <;> simp_all [shapeOK, toField, Codec.fieldOk]
  | _ => simp [toField, Codec.fieldOk]

theorem describes_shapeOK {ds : DescSet} {f : FieldD} {s : RField} (h : describes ds f s = true) :
    shapeOK s = true := by
  unfold describes at h
  cases hc : f.card with
  | list =>
    simp only [hc] at h
    cases s with
    | array i => cases i <;> simp_all [describesItem, shapeOK]
    | _ => cases h
  | map =>
    simp only [hc] at h
    cases s with
    | map i =>
      cases hmv : f.mapVal with
      | none => simp [hmv] at h
      | some x =>
        obtain ⟨vk, vt, vkey⟩ := x
        simp only [hmv] at h
        cases i <;> simp_all [describesItem, shapeOK]
    | _ => cases h
  | single =>
    simp only [hc] at h
    cases s with
    | array i => simp [describesItem] at h
    | map i => simp [describesItem] at h
    | _ => rfl

def rootProps : RRoot → List RProp
  | .object _ _ _ _ ps => ps
  | .oneof _ _ ps => ps
  | .enum .. => []

/-- every property schema of a registry the reader produced has a well-formed shape -/
theorem regShapes {ds : DescSet} {reg : Reg} (h : RegDescribes ds reg) :
    ∀ e ∈ reg, ∀ root, e.to = some root → ∀ prop ∈ rootProps root, shapeOK prop.schema = true := by
  intro e he root hto prop hprop
  have hd := h e he root hto
  have key : ∀ m, propDescribes ds m prop → shapeOK prop.schema = true := by
    intro m hp
    rcases hp with ⟨f, _, _, hdesc⟩ | ⟨_, o, _, hs⟩
    · exact describes_shapeOK hdesc
    · rw [hs]; rfl
  cases root with
  | enum _ _ _ _ => cases hprop
  | object _ _ _ _ ps =>
    obtain ⟨⟨m, _, _, _, hps⟩, _⟩ := hd
    exact key m (hps prop hprop)
  | oneof _ _ ps =>
    obtain ⟨⟨m, _, _, _, hps⟩, _⟩ := hd
    exact key m (hps prop hprop)

/-- `ClientProperties` only re-roots paths: every client property carries the schema of a
registered property -/
theorem clientProps_forall (reg : Reg) (P : RField → Prop)
    (hreg : ∀ e ∈ reg, ∀ p k en am ps, e.to = some (.object p k en am ps) → ∀ prop ∈ ps, P prop.schema)
    (fl : List Ref) (props : List RProp) :
    (∀ prop ∈ props, P prop.schema) → ∀ cps, clientProps reg fl props = .ok cps →
      ∀ q ∈ cps, P q.schema := by
  induction fl, props using clientProps.induct reg with
  | case1 fl =>
    intro _ cps h q hq
    simp only [clientProps] at h
    cases h
    cases hq
  | case2 fl prop rest ih1 ih2 =>
    intro hprops cps h q hq
    rw [clientProps] at h
    obtain ⟨a, ha, h2⟩ := bind_eq_ok h
    obtain ⟨b, hb, hab⟩ := map_eq_ok h2
    subst hab
    have hrest := ih2 (fun x hx => hprops x (List.mem_cons_of_mem _ hx)) b hb
    have hself : P prop.schema := hprops prop (List.mem_cons_self ..)
    rcases List.mem_append.mp hq with hqa | hqb
    · -- from the property itself
      split at ha
      · rename_i ref hsch
        split at ha
        · cases ha
          simp only [List.mem_singleton] at hqa
          subst hqa
          exact hself
        · rename_i hst
          split at ha
          · cases ha
          · rename_i e2 hf2
            split at ha
            · rename_i p2 k2 en2 am2 ps2 hto2
              obtain ⟨cs, hcs, hx⟩ := map_eq_ok ha
              subst hx
              obtain ⟨q0, hq0, rfl⟩ := List.mem_map.mp hqa
              have he2 := mem_of_find reg _ _ e2 hf2
              exact ih1 ref hst e2 hf2 ps2 (hreg e2 he2 p2 k2 en2 am2 ps2 hto2) cs hcs q0 hq0
            · cases ha
            · cases ha
      · cases ha
        simp only [List.mem_singleton] at hqa
        subst hqa
        exact hself
    · exact hrest q hqb

theorem propsOk_map (ds : DescSet) (m : Msg) (ps : List RProp)
    (h : ∀ q ∈ ps, shapeOK q.schema = true) : Codec.propsOk (ps.map (toProp ds m)) = true := by
  unfold Codec.propsOk
  simp only [List.all_eq_true, List.mem_map]
  rintro _ ⟨q, hq, rfl⟩
  unfold toProp
  split <;> exact fieldOk_of_shape _ _ (h q hq)

theorem entryRoot_ok (ds : DescSet) (reg : Reg) (hd : RegDescribes ds reg) (e : REntry) (he : e ∈ reg) :
    Codec.rootOk (entryRoot ds reg e) = true := by
  have hshapes := regShapes hd
  unfold entryRoot
  split
  · rename_i p k en am ps hto
    split
    · rename_i m hm
      split
      · rename_i cps hcps
        apply propsOk_map
        apply clientProps_forall reg (fun s => shapeOK s = true) _ _ ps
          (fun prop hp => hshapes e he _ hto prop hp) cps hcps
        intro e' he' p' k' en' am' ps' hto' prop hp
        exact hshapes e' he' _ hto' prop hp
      · rfl
    · rfl
  · rename_i p k ps hto
    split
    · exact propsOk_map ds _ ps (fun prop hp => hshapes e he _ hto prop hp)
    · rfl
  · rfl
  · rfl

/-- **the env of a reflected schema set satisfies the codec model's `itemsOk`** -/
theorem reflected_itemsOk (ds : DescSet) (reg : Reg) (h : schemaSetFromFiles ds = .ok reg) :
    (toEnv ds reg).itemsOk = true := by
  have hd := schemaSetFromFiles_describes ds reg h
  unfold Codec.Env.itemsOk toEnv
  simp only [List.all_eq_true, List.mem_map]
  rintro _ ⟨e, he, rfl⟩
  exact entryRoot_ok ds reg hd e he

end J5V.Schema.Bridge
