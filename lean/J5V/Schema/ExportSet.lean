import J5V.Schema.ExportProofs
/-!
# C15 at the level of whole schema sets: import ∘ export of a set, and `assertRefsLink`
-/
namespace J5V.Schema
open J5V.Go

/-- the schema linked under (p, k), if any -/
def Env.linkedAt (env : Env) (p k : String) : Option SRoot := (env.lookup p k).bind (·.to)

def Entry.is (e : Entry) (p k : String) : Bool := e.pkg == p && e.key == k

theorem lookupE_pred (es : List Entry) (p k : String) (e : Entry) (h : lookupE es p k = some e) :
    e.pkg = p ∧ e.key = k := by
  unfold lookupE at h
  have := List.find?_some h
  simpa using this

theorem lookupE_append (es : List Entry) (x : Entry) (p k : String) :
    lookupE (es ++ [x]) p k =
      match lookupE es p k with
      | some e => some e
      | none => if x.pkg == p && x.key == k then some x else none := by
  unfold lookupE
  rw [List.find?_append]
  cases List.find? (fun e => e.pkg == p && e.key == k) es with
  | some e => rfl
  | none =>
    simp only [List.find?_cons, List.find?_nil, Option.none_or]
    cases (x.pkg == p && x.key == k) <;> rfl

theorem lookupE_map_set (es : List Entry) (p0 k0 : String) (r : SRoot) (p k : String) :
    lookupE (es.map fun e => if e.pkg == p0 && e.key == k0 then { e with to := some r } else e) p k
      = (lookupE es p k).map fun e => if e.pkg == p0 && e.key == k0 then { e with to := some r } else e := by
  unfold lookupE
  rw [List.find?_map]
  have hcomp : ((fun e : Entry => e.pkg == p && e.key == k) ∘ fun e : Entry =>
      if e.pkg == p0 && e.key == k0 then { e with to := some r } else e) =
      (fun e : Entry => e.pkg == p && e.key == k) := by
    funext e
    simp only [Function.comp]
    split <;> rfl
  rw [hcomp]

@[simp] theorem ensurePkg_entries (env : Env) (p : String) : (env.ensurePkg p).entries = env.entries := by
  unfold Env.ensurePkg; split <;> rfl

@[simp] theorem ensurePkg_lookup (env : Env) (p p' k' : String) :
    (env.ensurePkg p).lookup p' k' = env.lookup p' k' := by
  simp [Env.lookup]

/-- `refTo` keeps every existing entry and guarantees one under (p, k) -/
theorem refTo_lookup (env : Env) (p k p' k' : String) :
    (env.refTo p k).lookup p' k' =
      match env.lookup p' k' with
      | some e => some e
      | none => if p == p' && k == k' then some ⟨p, k, none⟩ else none := by
  unfold Env.refTo
  simp only [ensurePkg_lookup]
  cases hl : env.lookup p k with
  | some e =>
    simp only [ensurePkg_lookup]
    cases hl' : env.lookup p' k' with
    | some e' => rfl
    | none =>
      simp only
      by_cases hk : (p == p' && k == k') = true
      · simp only [Bool.and_eq_true, beq_iff_eq] at hk
        obtain ⟨rfl, rfl⟩ := hk
        rw [hl] at hl'; cases hl'
      · simp [hk]
  | none =>
    simp only [Env.lookup, ensurePkg_entries]
    rw [lookupE_append]

theorem refTo_linkedAt (env : Env) (p k p' k' : String) :
    (env.refTo p k).linkedAt p' k' = env.linkedAt p' k' := by
  unfold Env.linkedAt
  rw [refTo_lookup]
  cases env.lookup p' k' with
  | some e => rfl
  | none => simp only; split <;> rfl

theorem refTo_has (env : Env) (p k : String) : ((env.refTo p k).lookup p k).isSome = true := by
  rw [refTo_lookup]
  cases env.lookup p k with
  | some e => rfl
  | none => simp

theorem refTo_keeps (env : Env) (p k p' k' : String) (h : (env.lookup p' k').isSome = true) :
    ((env.refTo p k).lookup p' k').isSome = true := by
  rw [refTo_lookup]
  cases hl : env.lookup p' k' with
  | some e => rfl
  | none => simp [hl] at h

theorem refAll_linkedAt (env : Env) (refs : List Ref) (p' k' : String) :
    (env.refAll refs).linkedAt p' k' = env.linkedAt p' k' := by
  induction refs generalizing env with
  | nil => rfl
  | cons r rs ih => simp only [Env.refAll]; rw [ih, refTo_linkedAt]

theorem refAll_keeps (env : Env) (refs : List Ref) (p' k' : String)
    (h : (env.lookup p' k').isSome = true) : ((env.refAll refs).lookup p' k').isSome = true := by
  induction refs generalizing env with
  | nil => exact h
  | cons r rs ih => simp only [Env.refAll]; exact ih _ (refTo_keeps env _ _ _ _ h)

theorem setTo_lookup (env : Env) (p k : String) (r : SRoot) (p' k' : String) :
    (env.setTo p k r).lookup p' k' =
      (env.lookup p' k').map fun e => if e.pkg == p && e.key == k then { e with to := some r } else e := by
  unfold Env.setTo Env.lookup
  exact lookupE_map_set env.entries p k r p' k'

theorem setTo_linkedAt (env : Env) (p k : String) (r : SRoot) (p' k' : String) :
    (env.setTo p k r).linkedAt p' k' =
      if p == p' && k == k' then (if (env.lookup p k).isSome then some r else none)
      else env.linkedAt p' k' := by
  unfold Env.linkedAt
  rw [setTo_lookup]
  cases hl : env.lookup p' k' with
  | none =>
    simp only [Option.map_none, Option.bind_none]
    split
    · rename_i hk
      simp only [Bool.and_eq_true, beq_iff_eq] at hk
      obtain ⟨rfl, rfl⟩ := hk
      simp [hl]
    · rfl
  | some e =>
    obtain ⟨hp, hk⟩ := lookupE_pred env.entries p' k' e hl
    simp only [Option.map_some, Option.bind_some]
    by_cases hc : (p == p' && k == k') = true
    · simp only [Bool.and_eq_true, beq_iff_eq] at hc
      obtain ⟨rfl, rfl⟩ := hc
      simp [hl, hp, hk]
    · have : (e.pkg == p && e.key == k) = false := by
        rw [hp, hk]
        simp only [Bool.and_eq_true, beq_iff_eq, not_and] at hc
        simp only [Bool.and_eq_false_imp, beq_iff_eq, beq_eq_false_iff_ne, ne_eq]
        intro h1 h2
        exact hc h1.symm h2.symm
      simp [this, hc]

/-- importing the export of root `r` under a free name links the normalised root there and
changes no other link -/
theorem buildSchema_export (env : Env) (p k : String) (r : SRoot) (hwf : wfRoot r = true)
    (hfree : env.linkedAt p k = none) :
    ∃ env', buildSchema env p k (toJ5Root r) = .ok env' ∧
      ∀ p' k', env'.linkedAt p' k' =
        if p == p' && k == k' then some (normRoot p r) else env.linkedAt p' k' := by
  unfold buildSchema
  simp only
  have hfree' : (env.refTo p k).linkedAt p k = none := by rw [refTo_linkedAt]; exact hfree
  have hhas := refTo_has env p k
  cases hl : (env.refTo p k).lookup p k with
  | none => simp [hl] at hhas
  | some e =>
    have hto : e.to = none := by
      unfold Env.linkedAt at hfree'
      simpa [hl] using hfree'
    obtain ⟨ep, ek, eto⟩ := e
    simp only at hto
    subst hto
    simp only [rootFromDesc_toJ5Root p r hwf]
    refine ⟨_, rfl, ?_⟩
    intro p' k'
    rw [setTo_linkedAt]
    have hkeep := refAll_keeps (env.refTo p k) (rootRefs (toJ5Root r)) p k (by simp [hl])
    simp only [hkeep, ↓reduceIte]
    split
    · rfl
    · rw [refAll_linkedAt, refTo_linkedAt]

/-- the root linked under key `k'` by a list of (key, root) items imported into package `p` -/
def itemsAt (p : String) (items : List (String × SRoot)) (p' k' : String) : Option SRoot :=
  if p == p' then (items.find? fun x => x.1 == k').map fun x => normRoot p x.2 else none

theorem itemsAt_cons_self (p k : String) (r : SRoot) (rest : List (String × SRoot)) :
    itemsAt p ((k, r) :: rest) p k = some (normRoot p r) := by
  simp [itemsAt]

theorem buildSchemas_export (p : String) (items : List (String × SRoot)) (env : Env)
    (hkeys : (items.map (·.1)).Nodup) (hwf : ∀ x ∈ items, wfRoot x.2 = true)
    (hfree : ∀ x ∈ items, env.linkedAt p x.1 = none) :
    ∃ env', buildSchemas env p (items.map fun x => (x.1, toJ5Root x.2)) = .ok env' ∧
      ∀ p' k', env'.linkedAt p' k' = (itemsAt p items p' k').or (env.linkedAt p' k') := by
  induction items generalizing env with
  | nil =>
    refine ⟨env, rfl, ?_⟩
    intro p' k'
    simp [itemsAt]
  | cons x rest ih =>
    obtain ⟨k, r⟩ := x
    simp only [List.map_cons, List.nodup_cons] at hkeys
    obtain ⟨hk, hrest⟩ := hkeys
    obtain ⟨env1, h1, hl1⟩ := buildSchema_export env p k r (hwf (k, r) (List.mem_cons_self ..))
      (hfree (k, r) (List.mem_cons_self ..))
    have hfree1 : ∀ x ∈ rest, env1.linkedAt p x.1 = none := by
      intro x hx
      rw [hl1]
      have hne : k ≠ x.1 := by
        intro h
        apply hk
        exact List.mem_map.mpr ⟨x, hx, h.symm⟩
      simp only [beq_self_eq_true, Bool.true_and, beq_iff_eq, hne, ↓reduceIte]
      exact hfree x (List.mem_cons_of_mem _ hx)
    obtain ⟨env2, h2, hl2⟩ := ih env1 hrest (fun x hx => hwf x (List.mem_cons_of_mem _ hx)) hfree1
    refine ⟨env2, ?_, ?_⟩
    · simp only [List.map_cons, buildSchemas, h1]
      exact h2
    · intro p' k'
      rw [hl2, hl1]
      unfold itemsAt
      by_cases hp : (p == p') = true
      · simp only [hp, ↓reduceIte, Bool.true_and, List.find?_cons]
        by_cases hkk : (k == k') = true
        · have hnot : (rest.find? fun x => x.1 == k') = none := by
            rw [List.find?_eq_none]
            intro x hx
            simp only [beq_iff_eq] at hkk ⊢
            intro h
            apply hk
            exact List.mem_map.mpr ⟨x, hx, h.trans hkk.symm⟩
          simp [hkk, hnot]
        · simp only [hkk, Bool.false_eq_true, ↓reduceIte]
      · simp [hp]

/-- the roots linked by a list of packages -/
def pkgsAt (pkgs : List (String × List (String × SRoot))) (p' k' : String) : Option SRoot :=
  match pkgs with
  | [] => none
  | (p, items) :: rest => (itemsAt p items p' k').or (pkgsAt rest p' k')

def toApi (pkgs : List (String × List (String × SRoot))) : Api :=
  pkgs.map fun x => (x.1, x.2.map fun y => (y.1, toJ5Root y.2))

theorem itemsAt_other (p : String) (items : List (String × SRoot)) (p' k' : String) (h : p ≠ p') :
    itemsAt p items p' k' = none := by
  simp [itemsAt, h]

theorem pkgsAt_other (pkgs : List (String × List (String × SRoot))) (p' k' : String)
    (h : p' ∉ pkgs.map (·.1)) : pkgsAt pkgs p' k' = none := by
  induction pkgs with
  | nil => rfl
  | cons x rest ih =>
    simp only [List.map_cons, List.mem_cons, not_or] at h
    simp only [pkgsAt]
    rw [itemsAt_other _ _ _ _ (fun e => h.1 e.symm), ih h.2]
    rfl

theorem buildPackages_export (pkgs : List (String × List (String × SRoot))) (env : Env)
    (hpk : (pkgs.map (·.1)).Nodup)
    (hkeys : ∀ x ∈ pkgs, (x.2.map (·.1)).Nodup)
    (hwf : ∀ x ∈ pkgs, ∀ y ∈ x.2, wfRoot y.2 = true)
    (hfree : ∀ x ∈ pkgs, ∀ y ∈ x.2, env.linkedAt x.1 y.1 = none) :
    ∃ env', buildPackages env (toApi pkgs) = .ok env' ∧
      ∀ p' k', env'.linkedAt p' k' = (pkgsAt pkgs p' k').or (env.linkedAt p' k') := by
  induction pkgs generalizing env with
  | nil =>
    refine ⟨env, rfl, ?_⟩
    intro p' k'; simp [pkgsAt]
  | cons x rest ih =>
    obtain ⟨p, items⟩ := x
    simp only [List.map_cons, List.nodup_cons] at hpk
    obtain ⟨hp, hrest⟩ := hpk
    have hfreeP : ∀ y ∈ items, (env.ensurePkg p).linkedAt p y.1 = none := by
      intro y hy
      have := hfree (p, items) (List.mem_cons_self ..) y hy
      simpa [Env.linkedAt] using this
    obtain ⟨env1, h1, hl1⟩ := buildSchemas_export p items (env.ensurePkg p)
      (hkeys (p, items) (List.mem_cons_self ..)) (hwf (p, items) (List.mem_cons_self ..)) hfreeP
    have hfree1 : ∀ x ∈ rest, ∀ y ∈ x.2, env1.linkedAt x.1 y.1 = none := by
      intro x hx y hy
      rw [hl1]
      have hne : p ≠ x.1 := by
        intro h
        apply hp
        exact List.mem_map.mpr ⟨x, hx, h.symm⟩
      rw [itemsAt_other _ _ _ _ hne]
      have := hfree x (List.mem_cons_of_mem _ hx) y hy
      simpa [Env.linkedAt] using this
    obtain ⟨env2, h2, hl2⟩ := ih env1 hrest (fun x hx => hkeys x (List.mem_cons_of_mem _ hx))
      (fun x hx => hwf x (List.mem_cons_of_mem _ hx)) hfree1
    refine ⟨env2, ?_, ?_⟩
    · simp only [toApi, List.map_cons, buildPackages]
      simp only [toApi] at h2
      rw [h1]
      exact h2
    · intro p' k'
      rw [hl2, hl1]
      simp only [pkgsAt]
      have hens : (env.ensurePkg p).linkedAt p' k' = env.linkedAt p' k' := by simp [Env.linkedAt]
      rw [hens]
      by_cases hpp : p = p'
      · subst hpp
        rw [pkgsAt_other rest p k' hp]
        cases itemsAt p items p k' <;> rfl
      · rw [itemsAt_other _ _ _ _ hpp]
        cases pkgsAt rest p' k' <;> rfl

/-! ## a schema set as Go holds it: packages by name, schemas by key -/

abbrev SSet := List (String × List (String × SRoot))

/-- `set.Packages[p].Schemas[k].To` -/
def lookupSet (pkgs : SSet) (p k : String) : Option SRoot :=
  (pkgs.find? fun x => x.1 == p).bind fun x => (x.2.find? fun y => y.1 == k).map (·.2)

/-- map keys are unique, scalars carry importable formats -/
structure SetWF (pkgs : SSet) : Prop where
  pkgsNodup : (pkgs.map (·.1)).Nodup
  keysNodup : ∀ x ∈ pkgs, (x.2.map (·.1)).Nodup
  rootsWf : ∀ x ∈ pkgs, ∀ y ∈ x.2, wfRoot y.2 = true

theorem pkgsAt_eq (pkgs : SSet) (h : (pkgs.map (·.1)).Nodup) (p k : String) :
    pkgsAt pkgs p k = (lookupSet pkgs p k).map (normRoot p) := by
  induction pkgs with
  | nil => rfl
  | cons x rest ih =>
    obtain ⟨q, items⟩ := x
    simp only [List.map_cons, List.nodup_cons] at h
    simp only [pkgsAt, lookupSet, List.find?_cons]
    by_cases hq : q = p
    · subst hq
      rw [pkgsAt_other rest q k h.1]
      simp only [beq_self_eq_true, Option.bind_some, itemsAt, ↓reduceIte]
      cases items.find? fun x => x.1 == k <;> rfl
    · have hb : (q == p) = false := by simpa using hq
      rw [itemsAt_other _ _ _ _ hq]
      simp only [hb]
      have := ih h.2
      simp only [lookupSet] at this
      simpa using this

theorem linkedAt_empty (p k : String) : Env.empty.linkedAt p k = none := rfl

/-- import ∘ export of a whole set: every package is built, and each schema exports to what it
exported to before -/
theorem buildPackages_toApi (pkgs : SSet) (hwf : SetWF pkgs) :
    ∃ env', buildPackages Env.empty (toApi pkgs) = .ok env' ∧
      (∀ p k, env'.linkedAt p k = (lookupSet pkgs p k).map (normRoot p)) ∧
      (∀ p k, exportLookup env' p k = (lookupSet pkgs p k).map toJ5Root) := by
  obtain ⟨env', h1, h2⟩ := buildPackages_export pkgs Env.empty hwf.pkgsNodup hwf.keysNodup hwf.rootsWf
    (fun _ _ _ _ => rfl)
  have hl : ∀ p k, env'.linkedAt p k = (lookupSet pkgs p k).map (normRoot p) := by
    intro p k
    rw [h2, pkgsAt_eq pkgs hwf.pkgsNodup, linkedAt_empty]
    cases lookupSet pkgs p k <;> rfl
  refine ⟨env', h1, hl, ?_⟩
  intro p k
  have : exportLookup env' p k = (env'.linkedAt p k).map toJ5Root := rfl
  rw [this, hl]
  cases lookupSet pkgs p k with
  | none => rfl
  | some r => simp [toJ5Root_norm]

/-! ## `assertRefsLink` on the imported set -/

theorem fieldRefs_toJ5Field (f : SField) : fieldRefs (toJ5Field f) = f.refs.map SRef.toRef := by
  induction f with
  | scalar tag fmt k w pay => rfl
  | any od types lr => rfl
  | enum ref rules lr ext => rfl
  | object ref fl rules ext => rfl
  | oneof ref rules lr ext => rfl
  | map item rules ext ih => simpa [toJ5Field, fieldRefs, SField.refs] using ih
  | array item rules ext ih => simpa [toJ5Field, fieldRefs, SField.refs] using ih

theorem propsRefs_map (ps : List SProp) :
    propsRefs (ps.map toJ5Prop) = (ps.flatMap fun p => p.schema.refs).map SRef.toRef := by
  induction ps with
  | nil => rfl
  | cons p ps ih =>
    simp only [List.map_cons, propsRefs, propRefs, toJ5Prop, fieldRefs_toJ5Field, ih,
      List.flatMap_cons, List.map_append]

theorem rootRefs_toJ5Root (r : SRoot) : rootRefs (toJ5Root r) = r.refs.map SRef.toRef := by
  cases r with
  | object p name desc entity am props =>
    simp [toJ5Root, rootRefs, objectRefs, propsRefs_map, SRoot.refs, SRoot.props]
  | oneof p name desc props =>
    simp [toJ5Root, rootRefs, oneofRefs, propsRefs_map, SRoot.refs, SRoot.props]
  | enum p name desc pfx options info => rfl

/-- every registered entry has a key with property `S` -/
def KeysIn (S : String → String → Prop) (env : Env) : Prop := ∀ e ∈ env.entries, S e.pkg e.key

theorem KeysIn.refTo {S} {env : Env} (h : KeysIn S env) (p k : String) (hs : S p k) :
    KeysIn S (env.refTo p k) := by
  unfold Env.refTo
  simp only
  split
  · simpa [KeysIn] using h
  · intro e he
    simp only [ensurePkg_entries, List.mem_append, List.mem_singleton] at he
    rcases he with he | rfl
    · exact h e he
    · exact hs

theorem KeysIn.refAll {S} {env : Env} (h : KeysIn S env) (refs : List Ref)
    (hs : ∀ r ∈ refs, S r.pkg r.schema) : KeysIn S (env.refAll refs) := by
  induction refs generalizing env with
  | nil => exact h
  | cons r rs ih =>
    simp only [Env.refAll]
    exact ih (h.refTo r.pkg r.schema (hs r (List.mem_cons_self ..)))
      (fun r' hr' => hs r' (List.mem_cons_of_mem _ hr'))

theorem KeysIn.setTo {S} {env : Env} (h : KeysIn S env) (p k : String) (r : SRoot) :
    KeysIn S (env.setTo p k r) := by
  intro e he
  simp only [Env.setTo, List.mem_map] at he
  obtain ⟨e0, he0, rfl⟩ := he
  split
  · exact h e0 he0
  · exact h e0 he0

theorem buildSchema_keys {S} (env env' : Env) (p k : String) (d : DRoot) (h : KeysIn S env)
    (hs : S p k) (hr : ∀ r ∈ rootRefs d, S r.pkg r.schema)
    (hb : buildSchema env p k d = .ok env') : KeysIn S env' := by
  unfold buildSchema at hb
  simp only at hb
  split at hb
  · cases hb
  · split at hb
    · cases hb
      exact ((h.refTo p k hs).refAll _ hr).setTo p k _
    · cases hb
    · cases hb

theorem buildSchemas_keys {S} (p : String) (items : List (String × DRoot)) (env env' : Env)
    (h : KeysIn S env) (hs : ∀ x ∈ items, S p x.1 ∧ ∀ r ∈ rootRefs x.2, S r.pkg r.schema)
    (hb : buildSchemas env p items = .ok env') : KeysIn S env' := by
  induction items generalizing env with
  | nil => simp only [buildSchemas] at hb; cases hb; exact h
  | cons x rest ih =>
    obtain ⟨k, d⟩ := x
    simp only [buildSchemas] at hb
    split at hb
    · rename_i env1 h1
      have hx := hs (k, d) (List.mem_cons_self ..)
      exact ih env1 (buildSchema_keys env env1 p k d h hx.1 hx.2 h1)
        (fun y hy => hs y (List.mem_cons_of_mem _ hy)) hb
    · cases hb
    · cases hb

theorem buildPackages_keys {S} (api : Api) (env env' : Env) (h : KeysIn S env)
    (hs : ∀ x ∈ api, ∀ y ∈ x.2, S x.1 y.1 ∧ ∀ r ∈ rootRefs y.2, S r.pkg r.schema)
    (hb : buildPackages env api = .ok env') : KeysIn S env' := by
  induction api generalizing env with
  | nil => simp only [buildPackages] at hb; cases hb; exact h
  | cons x rest ih =>
    obtain ⟨p, items⟩ := x
    simp only [buildPackages] at hb
    split at hb
    · rename_i env1 h1
      have h0 : KeysIn S (env.ensurePkg p) := by simpa [KeysIn] using h
      exact ih env1 (buildSchemas_keys p items _ env1 h0 (hs (p, items) (List.mem_cons_self ..)) h1)
        (fun y hy => hs y (List.mem_cons_of_mem _ hy)) hb
    · cases hb
    · cases hb

/-- a reference resolves: it is the registered pointer and its target is linked -/
def Resolves (env : Env) (ref : SRef) : Prop :=
  ref.registered = true ∧ (env.linkedAt ref.pkg ref.schema).isSome = true

/-- the walk succeeds when every reference it can meet resolves -/
theorem linkWalk_ok (env : Env)
    (hroots : ∀ p k r, env.linkedAt p k = some r → ∀ ref ∈ r.refs, Resolves env ref)
    (seen : List String) (stack : List SRef) (hstack : ∀ ref ∈ stack, Resolves env ref) :
    linkWalk env seen stack = .ok () := by
  induction seen, stack using linkWalk.induct env with
  | case1 seen => simp [linkWalk]
  | case2 seen ref rest hreg hl =>
    have := (hstack ref (List.mem_cons_self ..)).2
    simp [Env.linkedAt, hl] at this
  | case3 seen ref rest hreg e hl ht =>
    have := (hstack ref (List.mem_cons_self ..)).2
    simp [Env.linkedAt, hl, ht] at this
  | case4 seen ref rest hreg e hl r ht hs ih =>
    rw [linkWalk]
    simp only [hreg, ↓reduceDIte]
    split
    · rename_i hl'; rw [hl] at hl'; cases hl'
    · rename_i e' hl'
      rw [hl] at hl'; cases hl'
      split
      · rename_i ht'; rw [ht] at ht'; cases ht'
      · rename_i r' ht'
        rw [ht] at ht'; cases ht'
        simp only [hs, ↓reduceDIte]
        exact ih (fun ref' h' => hstack ref' (List.mem_cons_of_mem _ h'))
  | case5 seen ref rest hreg e hl r ht hs ih =>
    rw [linkWalk]
    simp only [hreg, ↓reduceDIte]
    split
    · rename_i hl'; rw [hl] at hl'; cases hl'
    · rename_i e' hl'
      rw [hl] at hl'; cases hl'
      split
      · rename_i ht'; rw [ht] at ht'; cases ht'
      · rename_i r' ht'
        rw [ht] at ht'; cases ht'
        simp only [hs, ↓reduceDIte]
        apply ih
        intro ref' h'
        rcases List.mem_append.mp h' with h1 | h2
        · exact hroots ref.pkg ref.schema r (by simp [Env.linkedAt, hl, ht]) ref' h1
        · exact hstack ref' (List.mem_cons_of_mem _ h2)
  | case6 seen ref rest hreg =>
    have := (hstack ref (List.mem_cons_self ..)).1
    exact absurd this hreg

theorem assertAll_ok (env : Env)
    (hroots : ∀ p k r, env.linkedAt p k = some r → ∀ ref ∈ r.refs, Resolves env ref)
    (hentries : ∀ e ∈ env.entries, (env.linkedAt e.pkg e.key).isSome = true) (ps : List String) :
    assertAll env ps = .ok () := by
  induction ps with
  | nil => rfl
  | cons p ps ih =>
    simp only [assertAll]
    have : assertRefsLink env p = .ok () := by
      unfold assertRefsLink
      apply linkWalk_ok env hroots
      intro ref href
      obtain ⟨e, he, rfl⟩ := List.mem_map.mp href
      exact ⟨rfl, hentries e (List.mem_filter.mp he).1⟩
    rw [this]
    exact ih

theorem normField_refs (f : SField) : (normField f).refs = f.refs.map SRef.reg := by
  induction f with
  | scalar tag fmt k w pay => cases tag <;> rfl
  | any od types lr => rfl
  | enum ref rules lr ext => rfl
  | object ref fl rules ext => rfl
  | oneof ref rules lr ext => rfl
  | map item rules ext ih => simpa [normField, SField.refs] using ih
  | array item rules ext ih => simpa [normField, SField.refs] using ih

theorem normRoot_refs (p : String) (r : SRoot) : (normRoot p r).refs = r.refs.map SRef.reg := by
  cases r with
  | object q name desc entity am props =>
    simp only [normRoot, SRoot.refs, SRoot.props, List.flatMap_map, List.map_flatMap]
    congr 1
    funext x
    simp [normProp, normField_refs]
  | oneof q name desc props =>
    simp only [normRoot, SRoot.refs, SRoot.props, List.flatMap_map, List.map_flatMap]
    congr 1
    funext x
    simp [normProp, normField_refs]
  | enum q name desc pfx options info => rfl

/-- every reference held by a schema of the set names a schema of the set -/
def Closed (pkgs : SSet) : Prop :=
  ∀ x ∈ pkgs, ∀ y ∈ x.2, ∀ ref ∈ y.2.refs, (lookupSet pkgs ref.pkg ref.schema).isSome = true

theorem lookupSet_mem (pkgs : SSet) (h : (pkgs.map (·.1)).Nodup) (x : String × List (String × SRoot))
    (hx : x ∈ pkgs) (y : String × SRoot) (hy : y ∈ x.2) :
    (lookupSet pkgs x.1 y.1).isSome = true := by
  induction pkgs with
  | nil => cases hx
  | cons z rest ih =>
    simp only [List.map_cons, List.nodup_cons] at h
    simp only [lookupSet, List.find?_cons]
    rcases List.mem_cons.mp hx with rfl | hx'
    · simp only [beq_self_eq_true, Option.bind_some, Option.isSome_map]
      rw [List.find?_isSome]
      exact ⟨y, hy, by simp⟩
    · have hne : (z.1 == x.1) = false := by
        simp only [beq_eq_false_iff_ne, ne_eq]
        intro he
        apply h.1
        exact List.mem_map.mpr ⟨x, hx', he.symm⟩
      simp only [hne]
      exact ih h.2 hx'

theorem lookupSet_some_mem (pkgs : SSet) (p k : String) (r : SRoot)
    (h : lookupSet pkgs p k = some r) : ∃ x ∈ pkgs, ∃ y ∈ x.2, y.2 = r := by
  unfold lookupSet at h
  cases hf : pkgs.find? (fun x => x.1 == p) with
  | none => simp [hf] at h
  | some x =>
    simp only [hf, Option.bind_some] at h
    cases hg : x.2.find? (fun y => y.1 == k) with
    | none => simp [hg] at h
    | some y =>
      simp only [hg, Option.map_some, Option.some.injEq] at h
      exact ⟨x, List.mem_of_find?_eq_some hf, y, List.mem_of_find?_eq_some hg, h⟩

/-- **export ∘ import on a whole set**: `PackageSetFromSourceAPI` accepts the export of every
well-formed, closed schema set — all references link — and every schema of the result exports to
what it exported to before. -/
theorem packageSet_roundtrip (pkgs : SSet) (hwf : SetWF pkgs) (hc : Closed pkgs) :
    ∃ env', packageSetFromSourceAPI (toApi pkgs) = .ok env' ∧
      (∀ p k, exportLookup env' p k = (lookupSet pkgs p k).map toJ5Root) ∧
      (∀ e ∈ env'.entries, (env'.linkedAt e.pkg e.key).isSome = true) := by
  obtain ⟨env', hb, hl, hx⟩ := buildPackages_toApi pkgs hwf
  have hkeys : KeysIn (fun p k => (lookupSet pkgs p k).isSome = true) env' := by
    refine buildPackages_keys (S := fun p k => (lookupSet pkgs p k).isSome = true) (toApi pkgs)
      Env.empty env' (by intro e he; cases he) ?_ hb
    intro x hx' y hy
    simp only [toApi, List.mem_map] at hx'
    obtain ⟨x0, hx0, rfl⟩ := hx'
    simp only [List.mem_map] at hy
    obtain ⟨y0, hy0, rfl⟩ := hy
    refine ⟨lookupSet_mem pkgs hwf.pkgsNodup x0 hx0 y0 hy0, ?_⟩
    intro r hr
    simp only [rootRefs_toJ5Root, List.mem_map] at hr
    obtain ⟨ref, href, rfl⟩ := hr
    exact hc x0 hx0 y0 hy0 ref href
  have hentries : ∀ e ∈ env'.entries, (env'.linkedAt e.pkg e.key).isSome = true := by
    intro e he
    rw [hl]
    simpa using hkeys e he
  have hroots : ∀ p k r, env'.linkedAt p k = some r → ∀ ref ∈ r.refs, Resolves env' ref := by
    intro p k r hr ref href
    rw [hl] at hr
    cases hs : lookupSet pkgs p k with
    | none => simp [hs] at hr
    | some r0 =>
      simp only [hs, Option.map_some, Option.some.injEq] at hr
      subst hr
      rw [normRoot_refs] at href
      obtain ⟨ref0, href0, rfl⟩ := List.mem_map.mp href
      obtain ⟨x, hx', y, hy, rfl⟩ := lookupSet_some_mem pkgs p k r0 hs
      refine ⟨rfl, ?_⟩
      rw [hl]
      simpa [SRef.reg] using hc x hx' y hy ref0 href0
  refine ⟨env', ?_, hx, hentries⟩
  unfold packageSetFromSourceAPI
  rw [hb]
  simp only [assertAll_ok env' hroots hentries env'.pkgs]

/-! ## the `Env` view of a set (what the driver exports) -/

def envItems (env : Env) (p : String) : List (String × SRoot) :=
  (env.entries.filter (·.pkg == p)).filterMap fun e => e.to.map fun r => (e.key, r)

def envSet (env : Env) : SSet := env.pkgs.map fun p => (p, envItems env p)

theorem exportEnv_eq (env : Env) : exportEnv env = toApi (envSet env) := by
  unfold exportEnv toApi envSet envItems
  rw [List.map_map]
  apply List.map_congr_left
  intro p _
  simp only [Function.comp, Prod.mk.injEq, true_and]
  rw [List.map_filterMap]
  congr 1
  funext e
  cases e.to <;> rfl

end J5V.Schema
