import J5V.Go.Hex
import J5V.Schema.Export
/-!
# Line-protocol plumbing of the schema cluster (driver only — nothing here is used by theorems)

Token grammar: see /verif/harness/PROTOCOL-schema.md. Strings travel as hex of their bytes
(`-` = empty) and are decoded byte-per-character (code points < 256), so concatenation and
comparison in the model agree with Go's byte strings. Payload tokens are kept verbatim
(`~` = nil pointer).
-/
namespace J5V.Schema.Wire
open J5V.Go J5V.Schema

def decStr (tok : String) : Option String :=
  match fromHex tok with
  | some bs => some (String.ofList (bs.map Char.ofNat))
  | none => none

def encStr (s : String) : String := toHexW (s.toList.map Char.toNat)

def decPay (tok : String) : Pay := if tok == "~" then none else some tok
def encPay : Pay → String
  | none => "~"
  | some t => t

def encBool (b : Bool) : String := if b then "1" else "0"

def tagOf : String → Option STag
  | "string" => some .string | "integer" => some .integer | "float" => some .float
  | "bool" => some .bool | "bytes" => some .bytes | "decimal" => some .decimal
  | "date" => some .date | "timestamp" => some .timestamp | "key" => some .key
  | _ => none

def tagStr : STag → String
  | .string => "string" | .integer => "integer" | .float => "float" | .bool => "bool"
  | .bytes => "bytes" | .decimal => "decimal" | .date => "date" | .timestamp => "timestamp"
  | .key => "key"

/-! ## parser combinators over a token list -/

abbrev P (α : Type) := List String → Option (α × List String)

def tok (t : String) : P Unit
  | x :: rest => if x == t then some ((), rest) else none
  | [] => none

def anyTok : P String
  | x :: rest => some (x, rest)
  | [] => none

def pStr : P String := fun ts =>
  match ts with
  | x :: rest => (decStr x).map fun s => (s, rest)
  | [] => none

def pBool : P Bool
  | "0" :: rest => some (false, rest)
  | "1" :: rest => some (true, rest)
  | _ => none

def pInt : P Int
  | x :: rest => x.toInt?.map fun i => (i, rest)
  | [] => none

def pNat : P Nat
  | x :: rest => x.toNat?.map fun i => (i, rest)
  | [] => none

def pPay : P Pay
  | x :: rest => some (decPay x, rest)
  | [] => none

/-- `[ item* ]` -/
partial def pList {α} (item : P α) : P (List α) := fun ts =>
  match ts with
  | "[" :: rest =>
    let rec go (acc : List α) (ts : List String) : Option (List α × List String) :=
      match ts with
      | "]" :: rest => some (acc.reverse, rest)
      | _ => match item ts with
        | some (a, rest) => go (a :: acc) rest
        | none => none
    go [] rest
  | _ => none

def pSRef : P SRef := fun ts => do
  let (_, ts) ← tok "(" ts
  let (p, ts) ← pStr ts
  let (s, ts) ← pStr ts
  let (r, ts) ← pBool ts
  let (_, ts) ← tok ")" ts
  pure (⟨p, s, r⟩, ts)

partial def pSField : P SField := fun ts => do
  let (_, ts) ← tok "(" ts
  let (kind, ts) ← anyTok ts
  match kind with
  | "scalar" =>
    let (t, ts) ← anyTok ts
    let tag ← tagOf t
    let (fmt, ts) ← pNat ts
    let (k, ts) ← pNat ts
    let (w, ts) ← pStr ts
    let (pay, ts) ← anyTok ts
    let (_, ts) ← tok ")" ts
    pure (.scalar tag fmt k w pay, ts)
  | "any" =>
    let (od, ts) ← pBool ts
    let (types, ts) ← pList pStr ts
    let (lr, ts) ← pPay ts
    let (_, ts) ← tok ")" ts
    pure (.any od types lr, ts)
  | "enum" =>
    let (r, ts) ← pSRef ts
    let (a, ts) ← pPay ts
    let (b, ts) ← pPay ts
    let (c, ts) ← pPay ts
    let (_, ts) ← tok ")" ts
    pure (.enum r a b c, ts)
  | "object" =>
    let (r, ts) ← pSRef ts
    let (fl, ts) ← pBool ts
    let (a, ts) ← pPay ts
    let (b, ts) ← pPay ts
    let (_, ts) ← tok ")" ts
    pure (.object r fl a b, ts)
  | "oneof" =>
    let (r, ts) ← pSRef ts
    let (a, ts) ← pPay ts
    let (b, ts) ← pPay ts
    let (c, ts) ← pPay ts
    let (_, ts) ← tok ")" ts
    pure (.oneof r a b c, ts)
  | "map" =>
    let (f, ts) ← pSField ts
    let (a, ts) ← pPay ts
    let (b, ts) ← pPay ts
    let (_, ts) ← tok ")" ts
    pure (.map f a b, ts)
  | "array" =>
    let (f, ts) ← pSField ts
    let (a, ts) ← pPay ts
    let (b, ts) ← pPay ts
    let (_, ts) ← tok ")" ts
    pure (.array f a b, ts)
  | _ => none

def pSProp : P SProp := fun ts => do
  let (_, ts) ← tok "(" ts
  let (j, ts) ← pStr ts
  let (req, ts) ← pBool ts
  let (opt, ts) ← pBool ts
  let (ro, ts) ← pBool ts
  let (wo, ts) ← pBool ts
  let (d, ts) ← pStr ts
  let (pf, ts) ← pList pInt ts
  let (f, ts) ← pSField ts
  let (_, ts) ← tok ")" ts
  pure (⟨j, req, opt, ro, wo, d, pf, f⟩, ts)

def pKV : P (String × String) := fun ts => do
  let (k, ts) ← pStr ts
  let (v, ts) ← pStr ts
  pure ((k, v), ts)

def pOption : P EnumOption := fun ts => do
  let (_, ts) ← tok "(" ts
  let (n, ts) ← pStr ts
  let (i, ts) ← pInt ts
  let (d, ts) ← pStr ts
  let (info, ts) ← pList pKV ts
  let (_, ts) ← tok ")" ts
  pure (⟨n, i, d, info⟩, ts)

def pInfoField : P InfoField := fun ts => do
  let (_, ts) ← tok "(" ts
  let (n, ts) ← pStr ts
  let (l, ts) ← pStr ts
  let (d, ts) ← pStr ts
  let (_, ts) ← tok ")" ts
  pure (⟨n, l, d⟩, ts)

/-- `nil` (unlinked) or a root -/
def pSRootOpt : P (Option SRoot) := fun ts =>
  match ts with
  | "nil" :: rest => some (none, rest)
  | _ => do
    let (_, ts) ← tok "(" ts
    let (kind, ts) ← anyTok ts
    match kind with
    | "obj" =>
      let (p, ts) ← pStr ts
      let (n, ts) ← pStr ts
      let (d, ts) ← pStr ts
      let (e, ts) ← pPay ts
      let (am, ts) ← pList pStr ts
      let (props, ts) ← pList pSProp ts
      let (_, ts) ← tok ")" ts
      pure (some (.object p n d e am props), ts)
    | "oneof" =>
      let (p, ts) ← pStr ts
      let (n, ts) ← pStr ts
      let (d, ts) ← pStr ts
      let (props, ts) ← pList pSProp ts
      let (_, ts) ← tok ")" ts
      pure (some (.oneof p n d props), ts)
    | "enum" =>
      let (p, ts) ← pStr ts
      let (n, ts) ← pStr ts
      let (d, ts) ← pStr ts
      let (pf, ts) ← pStr ts
      let (opts, ts) ← pList pOption ts
      let (info, ts) ← pList pInfoField ts
      let (_, ts) ← tok ")" ts
      pure (some (.enum p n d pf opts info), ts)
    | _ => none

def pEntry : P (String × Option SRoot) := fun ts => do
  let (_, ts) ← tok "(" ts
  let (k, ts) ← pStr ts
  let (r, ts) ← pSRootOpt ts
  let (_, ts) ← tok ")" ts
  pure ((k, r), ts)

def pPkg : P (String × List (String × Option SRoot)) := fun ts => do
  let (_, ts) ← tok "(" ts
  let (p, ts) ← pStr ts
  let (es, ts) ← pList pEntry ts
  let (_, ts) ← tok ")" ts
  pure ((p, es), ts)

/-- a whole S-side set dump → `Env` -/
def parseSet (ts : List String) : Option Env :=
  match pList pPkg ts with
  | some (pkgs, []) =>
    some ⟨pkgs.map (·.1), pkgs.flatMap fun (p, es) => es.map fun (k, r) => ⟨p, k, r⟩⟩
  | _ => none

/-! ## printers -/

def spaced (xs : List String) : String := " ".intercalate xs

def prList (xs : List String) : String := spaced (["["] ++ xs ++ ["]"])

def prStrs (xs : List String) : String := prList (xs.map encStr)

def prSRef (r : SRef) : String := spaced ["(", encStr r.pkg, encStr r.schema, encBool r.registered, ")"]

def prSField : SField → String
  | .scalar tag fmt k w pay =>
    spaced ["(", "scalar", tagStr tag, toString fmt, toString k, encStr w, pay, ")"]
  | .any od types lr => spaced ["(", "any", encBool od, prStrs types, encPay lr, ")"]
  | .enum r a b c => spaced ["(", "enum", prSRef r, encPay a, encPay b, encPay c, ")"]
  | .object r fl a b => spaced ["(", "object", prSRef r, encBool fl, encPay a, encPay b, ")"]
  | .oneof r a b c => spaced ["(", "oneof", prSRef r, encPay a, encPay b, encPay c, ")"]
  | .map f a b => spaced ["(", "map", prSField f, encPay a, encPay b, ")"]
  | .array f a b => spaced ["(", "array", prSField f, encPay a, encPay b, ")"]

def prInts (xs : List Int) : String := prList (xs.map toString)

def prSProp (p : SProp) : String :=
  spaced ["(", encStr p.jsonName, encBool p.required, encBool p.explicitlyOptional,
    encBool p.readOnly, encBool p.writeOnly, encStr p.description, prInts p.protoField,
    prSField p.schema, ")"]

def prOption (o : EnumOption) : String :=
  spaced ["(", encStr o.name, toString o.number, encStr o.description,
    prList (o.info.flatMap fun (k, v) => [encStr k, encStr v]), ")"]

def prInfoField (f : InfoField) : String :=
  spaced ["(", encStr f.name, encStr f.label, encStr f.description, ")"]

def prSRoot : SRoot → String
  | .object p n d e am props =>
    spaced ["(", "obj", encStr p, encStr n, encStr d, encPay e, prStrs am,
      prList (props.map prSProp), ")"]
  | .oneof p n d props =>
    spaced ["(", "oneof", encStr p, encStr n, encStr d, prList (props.map prSProp), ")"]
  | .enum p n d pf opts info =>
    spaced ["(", "enum", encStr p, encStr n, encStr d, encStr pf, prList (opts.map prOption),
      prList (info.map prInfoField), ")"]

/-- insertion sort by key (Go's `sort.Strings` on byte strings) -/
def insertBy {α} (key : α → String) (x : α) : List α → List α
  | [] => [x]
  | y :: ys => if key x < key y then x :: y :: ys else y :: insertBy key x ys

def sortBy {α} (key : α → String) (xs : List α) : List α := xs.foldr (insertBy key) []

/-- the S-side dump of a set: packages and entries sorted by name, packages without entries
dropped (they carry nothing) -/
def prSet (env : Env) : String :=
  let pkgs := sortBy id env.pkgs.eraseDups
  prList (pkgs.filterMap fun p =>
    let es := sortBy (·.key) (env.entries.filter (·.pkg == p))
    if es.isEmpty then none
    else some (spaced ["(", encStr p, prList (es.map fun e =>
      spaced ["(", encStr e.key, match e.to with | some r => prSRoot r | none => "nil", ")"]), ")"]))

def prRef (r : Ref) : String := spaced ["(", encStr r.pkg, encStr r.schema, ")"]

def prDEnum (e : DEnum) : String :=
  spaced ["(", "enum", encStr e.name, encStr e.description, encStr e.pfx,
    prList (e.options.map prOption), prList (e.info.map prInfoField), ")"]

mutual
partial def prDField : DField → String
  | .unset => "unset"
  | .scalar tag fmt pay => spaced ["(", "scalar", tagStr tag, toString fmt, pay, ")"]
  | .any od types lr => spaced ["(", "any", encBool od, prStrs types, encPay lr, ")"]
  | .oneofRef r a b c => spaced ["(", "oneof", "ref", prRef r, encPay a, encPay b, encPay c, ")"]
  | .oneofInline o a b c =>
    spaced ["(", "oneof", "inline", prDOneof o, encPay a, encPay b, encPay c, ")"]
  | .oneofNone a b c => spaced ["(", "oneof", "noschema", encPay a, encPay b, encPay c, ")"]
  | .objectRef r fl a b c =>
    spaced ["(", "object", "ref", prRef r, encBool fl, encPay a, encPay b, encPay c, ")"]
  | .objectInline o fl a b c =>
    spaced ["(", "object", "inline", prDObject o, encBool fl, encPay a, encPay b, encPay c, ")"]
  | .objectNone fl a b c =>
    spaced ["(", "object", "noschema", encBool fl, encPay a, encPay b, encPay c, ")"]
  | .enumRef r a b c => spaced ["(", "enum", "ref", prRef r, encPay a, encPay b, encPay c, ")"]
  | .enumInline e a b c =>
    spaced ["(", "enum", "inline", prDEnum e, encPay a, encPay b, encPay c, ")"]
  | .enumNone a b c => spaced ["(", "enum", "noschema", encPay a, encPay b, encPay c, ")"]
  | .array items a b => spaced ["(", "array", prDFieldOpt items, encPay a, encPay b, ")"]
  | .map item key a b =>
    spaced ["(", "map", prDFieldOpt item, prDFieldOpt key, encPay a, encPay b, ")"]
partial def prDFieldOpt : Option DField → String
  | none => "nil"
  | some f => prDField f
partial def prDProp : DProp → String
  | .mk n req opt d pf f =>
    spaced ["(", encStr n, encBool req, encBool opt, encStr d, prInts pf, prDFieldOpt f, ")"]
partial def prDObject : DObject → String
  | .mk n d e am props =>
    spaced ["(", "obj", encStr n, encStr d, encPay e, prStrs am, prList (props.map prDProp), ")"]
partial def prDOneof : DOneof → String
  | .mk n d props => spaced ["(", "oneof", encStr n, encStr d, prList (props.map prDProp), ")"]
end

def prDRoot : DRoot → String
  | .object o => prDObject o
  | .oneof o => prDOneof o
  | .enum e => prDEnum e
  | .unset => "unset"

/-- the D-side dump of an API: sorted, packages without schemas dropped -/
def prApi (api : Api) : String :=
  let pkgs := sortBy (·.1) api
  prList (pkgs.filterMap fun (p, ss) =>
    if ss.isEmpty then none
    else some (spaced ["(", encStr p, prList ((sortBy (·.1) ss).map fun (k, r) =>
      spaced ["(", encStr k, prDRoot r, ")"]), ")"]))

/-! ## D-side parser (op `import`) -/

def pRef : P Ref := fun ts => do
  let (_, ts) ← tok "(" ts
  let (p, ts) ← pStr ts
  let (s, ts) ← pStr ts
  let (_, ts) ← tok ")" ts
  pure (⟨p, s⟩, ts)

def pDEnumBody : P DEnum := fun ts => do
  let (n, ts) ← pStr ts
  let (d, ts) ← pStr ts
  let (pf, ts) ← pStr ts
  let (opts, ts) ← pList pOption ts
  let (info, ts) ← pList pInfoField ts
  let (_, ts) ← tok ")" ts
  pure (⟨n, d, pf, opts, info⟩, ts)

mutual
partial def pDFieldOpt : P (Option DField) := fun ts =>
  match ts with
  | "nil" :: rest => some (none, rest)
  | _ => (pDField ts).map fun (f, r) => (some f, r)
partial def pDField : P DField := fun ts =>
  match ts with
  | "unset" :: rest => some (.unset, rest)
  | _ => do
    let (_, ts) ← tok "(" ts
    let (kind, ts) ← anyTok ts
    match kind with
    | "scalar" =>
      let (t, ts) ← anyTok ts
      let tag ← tagOf t
      let (fmt, ts) ← pNat ts
      let (pay, ts) ← anyTok ts
      let (_, ts) ← tok ")" ts
      pure (.scalar tag fmt pay, ts)
    | "any" =>
      let (od, ts) ← pBool ts
      let (types, ts) ← pList pStr ts
      let (lr, ts) ← pPay ts
      let (_, ts) ← tok ")" ts
      pure (.any od types lr, ts)
    | "oneof" =>
      let (form, ts) ← anyTok ts
      match form with
      | "ref" =>
        let (r, ts) ← pRef ts
        let (a, ts) ← pPay ts; let (b, ts) ← pPay ts; let (c, ts) ← pPay ts
        let (_, ts) ← tok ")" ts
        pure (.oneofRef r a b c, ts)
      | "inline" =>
        let (_, ts) ← tok "(" ts
        let (_, ts) ← tok "oneof" ts
        let (o, ts) ← pDOneofBody ts
        let (a, ts) ← pPay ts; let (b, ts) ← pPay ts; let (c, ts) ← pPay ts
        let (_, ts) ← tok ")" ts
        pure (.oneofInline o a b c, ts)
      | "noschema" =>
        let (a, ts) ← pPay ts; let (b, ts) ← pPay ts; let (c, ts) ← pPay ts
        let (_, ts) ← tok ")" ts
        pure (.oneofNone a b c, ts)
      | _ => none
    | "object" =>
      let (form, ts) ← anyTok ts
      match form with
      | "ref" =>
        let (r, ts) ← pRef ts
        let (fl, ts) ← pBool ts
        let (a, ts) ← pPay ts; let (b, ts) ← pPay ts; let (c, ts) ← pPay ts
        let (_, ts) ← tok ")" ts
        pure (.objectRef r fl a b c, ts)
      | "inline" =>
        let (_, ts) ← tok "(" ts
        let (_, ts) ← tok "obj" ts
        let (o, ts) ← pDObjectBody ts
        let (fl, ts) ← pBool ts
        let (a, ts) ← pPay ts; let (b, ts) ← pPay ts; let (c, ts) ← pPay ts
        let (_, ts) ← tok ")" ts
        pure (.objectInline o fl a b c, ts)
      | "noschema" =>
        let (fl, ts) ← pBool ts
        let (a, ts) ← pPay ts; let (b, ts) ← pPay ts; let (c, ts) ← pPay ts
        let (_, ts) ← tok ")" ts
        pure (.objectNone fl a b c, ts)
      | _ => none
    | "enum" =>
      let (form, ts) ← anyTok ts
      match form with
      | "ref" =>
        let (r, ts) ← pRef ts
        let (a, ts) ← pPay ts; let (b, ts) ← pPay ts; let (c, ts) ← pPay ts
        let (_, ts) ← tok ")" ts
        pure (.enumRef r a b c, ts)
      | "inline" =>
        let (_, ts) ← tok "(" ts
        let (_, ts) ← tok "enum" ts
        let (e, ts) ← pDEnumBody ts
        let (a, ts) ← pPay ts; let (b, ts) ← pPay ts; let (c, ts) ← pPay ts
        let (_, ts) ← tok ")" ts
        pure (.enumInline e a b c, ts)
      | "noschema" =>
        let (a, ts) ← pPay ts; let (b, ts) ← pPay ts; let (c, ts) ← pPay ts
        let (_, ts) ← tok ")" ts
        pure (.enumNone a b c, ts)
      | _ => none
    | "array" =>
      let (items, ts) ← pDFieldOpt ts
      let (a, ts) ← pPay ts; let (b, ts) ← pPay ts
      let (_, ts) ← tok ")" ts
      pure (.array items a b, ts)
    | "map" =>
      let (item, ts) ← pDFieldOpt ts
      let (key, ts) ← pDFieldOpt ts
      let (a, ts) ← pPay ts; let (b, ts) ← pPay ts
      let (_, ts) ← tok ")" ts
      pure (.map item key a b, ts)
    | _ => none
partial def pDProp : P DProp := fun ts => do
  let (_, ts) ← tok "(" ts
  let (n, ts) ← pStr ts
  let (req, ts) ← pBool ts
  let (opt, ts) ← pBool ts
  let (d, ts) ← pStr ts
  let (pf, ts) ← pList pInt ts
  let (f, ts) ← pDFieldOpt ts
  let (_, ts) ← tok ")" ts
  pure (.mk n req opt d pf f, ts)
/-- after `( obj` -/
partial def pDObjectBody : P DObject := fun ts => do
  let (n, ts) ← pStr ts
  let (d, ts) ← pStr ts
  let (e, ts) ← pPay ts
  let (am, ts) ← pList pStr ts
  let (props, ts) ← pList pDProp ts
  let (_, ts) ← tok ")" ts
  pure (.mk n d e am props, ts)
/-- after `( oneof` -/
partial def pDOneofBody : P DOneof := fun ts => do
  let (n, ts) ← pStr ts
  let (d, ts) ← pStr ts
  let (props, ts) ← pList pDProp ts
  let (_, ts) ← tok ")" ts
  pure (.mk n d props, ts)
end

def pDRoot : P DRoot := fun ts =>
  match ts with
  | "unset" :: rest => some (.unset, rest)
  | "(" :: "obj" :: rest => (pDObjectBody rest).map fun (o, r) => (.object o, r)
  | "(" :: "oneof" :: rest => (pDOneofBody rest).map fun (o, r) => (.oneof o, r)
  | "(" :: "enum" :: rest => (pDEnumBody rest).map fun (e, r) => (.enum e, r)
  | _ => none

def parseApi (ts : List String) : Option Api :=
  match pList (fun ts => do
      let (_, ts) ← tok "(" ts
      let (p, ts) ← pStr ts
      let (ss, ts) ← pList (fun ts => do
        let (_, ts) ← tok "(" ts
        let (k, ts) ← pStr ts
        let (r, ts) ← pDRoot ts
        let (_, ts) ← tok ")" ts
        pure ((k, r), ts)) ts
      let (_, ts) ← tok ")" ts
      pure ((p, ss), ts)) ts with
  | some (api, []) => some api
  | _ => none

end J5V.Schema.Wire
