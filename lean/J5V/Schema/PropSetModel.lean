import J5V.Schema.Reader
/-!
# Model of the kind checks of `lib/j5reflect` (property set construction) — C18, codec side

Mirrors, on the reflected *shape*:

* `ObjectSchema.ClientProperties` (`lib/j5schema/root_schema.go`, after 595283b): flattened object
  fields are replaced by the client properties of their object, paths concatenated, **unless** the
  object is already being flattened (the guard that ended the infinite recursion). Defined by
  well-founded recursion on (registered names not on the flattening stack, properties left).
* `newPropSet` (`property_set.go`): each property's proto path is walked through the message
  descriptors; a missing number or a non-message on the way is an error.
* `buildProperty` / `newMessageFieldFactory` / `newFieldFactory`: array ↔ list, map ↔ map,
  mutable schemas (object, oneof, any, and — by `Mutable()` — array and map) go to the message
  factory, which **panics** on anything but object / oneof / any; leaf schemas are checked
  against the proto kind (`EnumField is kind …`, `ScalarField is proto kind …`).

Only the checks are modelled (what makes `NewRoot` / the codec fail before any value is touched);
values are the codec cluster's model.
-/
namespace J5V.Schema.Reader
open J5V.Go J5V.Schema

/-! ## ClientProperties

`objectProps`, `clientProps`, `clientProperties` (the model of `ObjectSchema.ClientProperties`) live
in `Reader.lean`: since the reader checks the client property names of every object it builds,
they are part of the reader model. -/

/-! ## newPropSet and the field factories -/

def targetFull : Target → String
  | .msg full _ _ => full
  | .enum full _ _ => full
  | .none => ""

/-- the descriptor the element of the field refers to -/
def itemTarget (f : FieldD) : Target :=
  match f.card with
  | .map =>
    match f.mapVal with
    | some (_, vt, _) => vt
    | none => .none
  | _ => f.target

/-- the walk of `newPropSet` along one proto path: the last field, or an error -/
def resolvePath (ds : DescSet) (m : Msg) : List Int → Outcome (Option FieldD)
  | [] => .ok none
  | [n] =>
    match m.fields.find? fun f => f.number == n with
    | some f => .ok (some f)
    | none => .err "newPropSet: field not found"
  | n :: rest =>
    match m.fields.find? fun f => f.number == n with
    | none => .err "newPropSet: field not found"
    | some f =>
      if f.kind != .message then .err "field is not a message but has nested types"
      else
        match ds.msg? (targetFull f.target) with
        | some m' => resolvePath ds m' rest
        -- a message of a dependency file (well-known / j5 type): its fields are not in the
        -- summary; reached only when a flattened path is walked in a message other than the one
        -- it was built from (colliding schema names), where Go answers "field not found"
        | none => .err "newPropSet: field not found"

/-- every path of a property list resolves (`newPropSet`) -/
def resolveAll (ds : DescSet) (m : Msg) : List RProp → Outcome Unit
  | [] => .ok ()
  | p :: ps => (resolvePath ds m p.path).bind fun _ => resolveAll ds m ps

/-- `Reflector.NewRoot` on an (empty) message of type `m`, after `SchemaCache.Schema` succeeded:
`buildObject` / `buildOneof` → `newPropSet(schema.ClientProperties(), descriptor)` -/
def newRoot (ds : DescSet) (reg : Reg) (m : Msg) : Outcome Unit :=
  match reg.find m.pkg m.split with
  | some e =>
    match e.to with
    | some (.object _ _ _ _ ps) =>
      (clientProps reg [⟨m.pkg, m.split⟩] ps).bind fun cps => resolveAll ds m cps
    | some (.oneof _ _ ps) => resolveAll ds m ps
    | some (.enum ..) => .err "unsupported root schema type"
    | none => .err "unlinked ref"
  | none => .err "no schema"

/-- `Mutable()` -/
def mutableSchema : RField → Bool
  | .scalar .. => false
  | .enum _ => false
  | _ => true

/-- `newMessageFieldFactory` -/
def messageFactory : RField → Outcome Unit
  | .object _ _ => .ok ()
  | .oneof _ => .ok ()
  | .any => .ok ()
  | _ => .panic "invalid schema for message field"

/-- `newFieldFactory` -/
def leafFactory (s : RField) (kind : PKind) (t : Target) : Outcome Unit :=
  match s with
  | .enum _ => if kind != .enum then .err "EnumField is kind …" else .ok ()
  | .scalar _ _ k wkt =>
    if wkt != "" then
      if kind != .message then .err "ScalarField is proto kind …, want message"
      else if targetFull t != wkt then .err "ScalarField message is …"
      else .ok ()
    else if kind.num != k then .err "ScalarField is proto kind …"
    else .ok ()
  | _ => .panic "invalid schema for leaf field"

def itemFactory (s : RField) (kind : PKind) (t : Target) : Outcome Unit :=
  if mutableSchema s then messageFactory s else leafFactory s kind t

/-- the type switches of `newMessageArrayField` / `newLeafArrayField` and `newMessageMapField` /
`newLeafMapField`: arrays and maps exist of objects, oneofs, scalars and enums only -/
def collectionItem : RField → Outcome Unit
  | .object _ _ => .ok ()
  | .oneof _ => .ok ()
  | .scalar .. => .ok ()
  | .enum _ => .ok ()
  | _ => .err "unsupported array item schema / unsupported schema type"

/-- `j5reflect.buildProperty`: the checks made when a value of the property is built -/
def reflectField (f : FieldD) (s : RField) : Outcome Unit :=
  match s with
  | .array item =>
    if f.card != .list then .err "Reflection Bug: ArrayField is not a list"
    else (itemFactory item f.kind f.target).bind fun _ => collectionItem item
  | .map item =>
    if f.card != .map then .err "MapField is not a map"
    else
      match f.mapVal with
      | some (vk, vt, _) => (itemFactory item vk vt).bind fun _ => collectionItem item
      | none => .panic "map field without value descriptor"
  | _ => itemFactory s f.kind f.target

end J5V.Schema.Reader
