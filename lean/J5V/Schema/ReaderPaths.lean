import J5V.Schema.ReaderProofs
/-!
# C18: every property's proto path resolves to a field of the matching kind
-/
namespace J5V.Schema.Reader
open J5V.Go J5V.Schema

/-- the proto kinds a J5 scalar type can describe (what the codec can read and write through
protoreflect without a type mismatch) -/
def scalarFits (tag : STag) (fmt : Nat) (kind : PKind) : Bool :=
  match tag, fmt, kind with
  | .string, _, .string => true
  | .key, _, .string => true
  | .bool, _, .bool => true
  | .bytes, _, .bytes => true
  | .integer, 1, .int32 => true
  | .integer, 1, .sint32 => true
  | .integer, 3, .uint32 => true
  | .integer, 2, .int64 => true
  | .integer, 2, .sint64 => true
  | .integer, 4, .uint64 => true
  | .float, 1, .float => true
  | .float, 2, .double => true
  | _, _, _ => false

/-- the well-known message a J5 scalar type stands for -/
def wktFits (tag : STag) (full : String) : Bool :=
  (tag == .timestamp && full == "google.protobuf.Timestamp") ||
  (tag == .date && full == "j5.types.date.v1.Date") ||
  (tag == .decimal && full == "j5.types.decimal.v1.Decimal")

/-- schema `s` describes a single value of proto kind `kind` (with descriptor `t`) -/
def describesItem (ds : DescSet) (kind : PKind) (t : Target) (s : RField) : Bool :=
  match s with
  | .scalar tag fmt k wkt =>
    if wkt == "" then k == kind.num && scalarFits tag fmt kind
    else kind == .message &&
      match t with
      | .msg full _ _ => full == wkt && wktFits tag full
      | _ => false
  | .any =>
    kind == .message &&
      match t with
      | .msg full _ _ => full == "j5.types.any.v1.Any" || full == "google.protobuf.Any"
      | _ => false
  | .enum ref =>
    kind == .enum &&
      match t with
      | .enum full _ _ =>
        match ds.enum? full with
        | some en => ref == ⟨en.pkg, en.split⟩
        | none => false
      | _ => false
  | .object ref _ =>
    kind == .message &&
      match t with
      | .msg full _ _ =>
        match ds.msg? full with
        | some m => ref == ⟨m.pkg, m.split⟩ && !isOneofWrapper m
        | none => false
      | _ => false
  | .oneof ref =>
    kind == .message &&
      match t with
      | .msg full _ _ =>
        match ds.msg? full with
        | some m => ref == ⟨m.pkg, m.split⟩ && isOneofWrapper m
        | none => false
      | _ => false
  | .map _ => false
  | .array _ => false

/-- schema `s` describes field `f`: cardinality and element kind agree -/
def describes (ds : DescSet) (f : FieldD) (s : RField) : Bool :=
  match f.card with
  | .list =>
    match s with
    | .array i => describesItem ds f.kind f.target i
    | _ => false
  | .map =>
    match s with
    | .map i =>
      match f.mapVal with
      | some (vk, vt, _) => describesItem ds vk vt i
      | none => false
    | _ => false
  | .single => describesItem ds f.kind f.target s

/-- the recorded exception on the codec side (open finding `any-in-collection`): the reader
accepts a list / map of `Any`, `lib/j5reflect` has no array / map of Any -/
def anyInCollection : RField → Bool
  | .array .any => true
  | .map .any => true
  | _ => false

theorem stringKind_tag (like : Bool) (k : Option J5Sum) (t : STag) (h : stringKind like k = .ok t) :
    t = .string ∨ t = .key := by
  unfold stringKind at h
  repeat' split at h
  all_goals first
    | (cases h; simp)
    | cases h

theorem buildScalar_fits (kind : PKind) (e : Ext) (key : Option KeySum) (tag : STag) (fmt : Nat)
    (h : buildScalar kind e key = .ok (tag, fmt)) : scalarFits tag fmt kind = true := by
  unfold buildScalar at h
  split at h
  · -- string
    obtain ⟨t, ht, hx⟩ := map_eq_ok h
    cases hx
    unfold buildString at ht
    obtain ⟨a, _, h2⟩ := bind_eq_ok ht
    obtain ⟨b, _, h3⟩ := bind_eq_ok h2
    obtain ⟨c, _, h4⟩ := bind_eq_ok h3
    rcases stringKind_tag _ _ _ h4 with rfl | rfl <;> rfl
  · cases h; rfl
  all_goals first
    | (obtain ⟨_, _, hx⟩ := map_eq_ok h; cases hx; rfl)
    | (cases h; rfl)
    | cases h

theorem wktSchema_describes (ds : DescSet) (full p k : String) (e : Ext) (f : RField)
    (h : wktSchema full e = .ok (some f)) :
    describesItem ds .message (.msg full p k) f = true := by
  unfold wktSchema at h
  split at h
  · rename_i hf
    simp only [beq_iff_eq] at hf
    subst hf
    have : f = .scalar .timestamp 0 0 "google.protobuf.Timestamp" := by
      split at h
      · split at h
        · cases h
        · split at h
          · cases h
          · cases h; rfl
      · cases h; rfl
    subst this
    simp [describesItem, wktFits]
  · split at h
    · rename_i hf; simp only [beq_iff_eq] at hf; subst hf; cases h; simp [describesItem, wktFits]
    · split at h
      · rename_i hf; simp only [beq_iff_eq] at hf; subst hf; cases h; simp [describesItem, wktFits]
      · split at h
        · rename_i hf
          cases h
          simp only [Bool.or_eq_true, beq_iff_eq] at hf
          simp only [describesItem, beq_self_eq_true, Bool.true_and, Bool.or_eq_true, beq_iff_eq]
          exact hf
        · cases h

theorem referenceMessage_describes (ds : DescSet) (reg : Reg) (full p k : String) (fl : Bool)
    (b : Built) (h : referenceMessage ds reg full fl = .ok b) :
    describesItem ds .message (.msg full p k) b.schema = true := by
  unfold referenceMessage at h
  split at h
  · cases h
  · split at h
    · cases h
    · rename_i m hm
      simp only at h
      have key : ∀ b : Built, b.schema =
          (if isOneofWrapper m = true then RField.oneof ⟨m.pkg, m.split⟩
           else RField.object ⟨m.pkg, m.split⟩ fl) →
          describesItem ds .message (.msg full p k) b.schema = true := by
        intro b hb
        rw [hb]
        by_cases hw : isOneofWrapper m = true
        · simp [hw, describesItem, hm]
        · simp [hw, describesItem, hm]
      split at h
      · split at h
        · cases h
        · cases h; exact key _ rfl
      · cases h; exact key _ rfl

theorem buildSchema_describes (ds : DescSet) (reg : Reg) (kind : PKind) (t : Target) (e : Ext)
    (key : Option KeySum) (b : Built) (h : buildSchema ds reg kind t e key = .ok b) :
    describesItem ds kind t b.schema = true := by
  unfold buildSchema at h
  split at h
  · -- message
    split at h
    · rename_i full p k
      unfold buildMessageField at h
      simp only at h
      obtain ⟨w, hw, h2⟩ := bind_eq_ok h
      cases w with
      | some f =>
        cases h2
        exact wktSchema_describes ds full p k e f hw
      | none => exact referenceMessage_describes ds reg full p k _ b h2
    · cases h
  · -- enum
    split at h
    · rename_i full p k
      obtain ⟨⟨f, ops⟩, hf, hx⟩ := map_eq_ok h
      cases hx
      unfold buildEnumField at hf
      split at hf
      · cases hf
      · rename_i en hen
        obtain ⟨⟨to, ops'⟩, _, h2⟩ := bind_eq_ok hf
        obtain ⟨_, _, hx⟩ := map_eq_ok h2
        cases hx
        simp [describesItem, hen]
    · cases h
  · rename_i hk1 hk2
    obtain ⟨⟨tag, fmt⟩, hs, hx⟩ := map_eq_ok h
    cases hx
    simp only [describesItem, beq_self_eq_true, ↓reduceIte, Bool.true_and]
    exact buildScalar_fits kind e key tag fmt hs

/-- **the property a field produces points at that field and describes it**: its proto path is
the field's number, and the schema matches the field's cardinality and kind — for every field of
every message, whatever annotations it carries -/
theorem buildProperty_describes (ds : DescSet) (reg : Reg) (f : FieldD) (prop : RProp) (b : Built)
    (h : buildProperty ds reg f = .ok (prop, b)) :
    prop.path = [f.number] ∧ prop.json = f.jsonName ∧ describes ds f prop.schema = true := by
  obtain ⟨kind, t, e, key, mk, hplan, hb, hprop⟩ := buildProperty_ok h
  subst hprop
  unfold propertyPlan at hplan
  unfold describes
  cases hc : f.card with
  | list =>
    simp only [hc] at hplan ⊢
    cases hplan
    exact ⟨rfl, rfl, buildSchema_describes ds reg _ _ _ _ b hb⟩
  | single =>
    simp only [hc] at hplan ⊢
    cases hplan
    exact ⟨rfl, rfl, buildSchema_describes ds reg _ _ _ _ b hb⟩
  | map =>
    simp only [hc] at hplan ⊢
    split at hplan
    · cases hplan
    · cases hmv : f.mapVal with
      | none => simp [hmv] at hplan
      | some x =>
        obtain ⟨vk, vt, vkey⟩ := x
        simp only [hmv] at hplan ⊢
        cases hplan
        exact ⟨rfl, rfl, buildSchema_describes ds reg _ _ _ _ b hb⟩

/-! ## the same at the level of the machine and of the resulting schema set -/

/-- property `prop` of a schema built from message `m` points into `m`: either its path is the
number of a field of `m` that the schema describes, or it is the wrapper property of one of `m`'s
exposed oneofs (empty path, members resolved in `m` itself) -/
def propDescribes (ds : DescSet) (m : Msg) (prop : RProp) : Prop :=
  (∃ f ∈ m.fields, prop.path = [f.number] ∧ describes ds f prop.schema = true) ∨
  (prop.path = [] ∧ ∃ o ∈ m.oneofs, prop.schema = .oneof ⟨m.pkg, o.split⟩)

/-- an object / oneof schema registered under (p, k) was built from a message of the set whose
name (or whose oneof's name) is (p, k), and all its properties point into that message -/
def RootDesc (ds : DescSet) (p k : String) : RRoot → Prop
  | .enum _ _ _ _ => True
  | .object _ _ _ _ ps => (∃ m ∈ ds.msgs, m.pkg = p ∧ (m.split = k ∨ ∃ o ∈ m.oneofs, o.split = k) ∧
      ∀ prop ∈ ps, propDescribes ds m prop) ∧ (ps.map (·.json)).Nodup
  | .oneof _ _ ps => (∃ m ∈ ds.msgs, m.pkg = p ∧ (m.split = k ∨ ∃ o ∈ m.oneofs, o.split = k) ∧
      ∀ prop ∈ ps, propDescribes ds m prop) ∧ (ps.map (·.json)).Nodup

def RegDescribes (ds : DescSet) (reg : Reg) : Prop :=
  ∀ e ∈ reg, ∀ root, e.to = some root → RootDesc ds e.pkg e.key root

def OpDesc (ds : DescSet) : RegOp → Prop
  | .add _ _ _ => True
  | .set p k root => RootDesc ds p k root
  | .link p k _ root => RootDesc ds p k root

theorem RegDescribes.apply {ds : DescSet} {reg : Reg} (h : RegDescribes ds reg) (op : RegOp)
    (ho : OpDesc ds op) : RegDescribes ds (reg.apply op) := by
  intro e he root hr
  cases op with
  | add p k src =>
    simp only [Reg.apply] at he
    split at he
    · exact h e he root hr
    · rcases List.mem_append.mp he with he' | he'
      · exact h e he' root hr
      · simp only [List.mem_singleton] at he'
        subst he'
        cases hr
  | set p k r =>
    simp only [Reg.apply, List.mem_map] at he
    obtain ⟨e0, he0, rfl⟩ := he
    by_cases hm : (e0.pkg == p && e0.key == k) = true
    · simp only [hm, ↓reduceIte, Option.some.injEq] at hr ⊢
      subst hr
      simp only [Bool.and_eq_true, beq_iff_eq] at hm
      rw [hm.1, hm.2]
      exact ho
    · simp only [hm, Bool.false_eq_true, ↓reduceIte] at hr ⊢
      exact h e0 he0 root hr
  | link p k src r =>
    simp only [Reg.apply] at he
    split at he
    · exact h e he root hr
    · rcases List.mem_append.mp he with he' | he'
      · exact h e he' root hr
      · simp only [List.mem_singleton] at he'
        subst he'
        simp only [Option.some.injEq] at hr
        subst hr
        exact ho

theorem RegDescribes.applyAll {ds : DescSet} {reg : Reg} (h : RegDescribes ds reg)
    (ops : List RegOp) (ho : ∀ op ∈ ops, OpDesc ds op) : RegDescribes ds (reg.applyAll ops) := by
  induction ops generalizing reg with
  | nil => exact h
  | cons op ops ih =>
    simp only [Reg.applyAll, List.foldl_cons]
    exact ih (h.apply op (ho op (List.mem_cons_self ..)))
      (fun op' h' => ho op' (List.mem_cons_of_mem _ h'))

def FrameDescribes (ds : DescSet) (fr : Frame) : Prop :=
  (∀ prop ∈ fr.props, propDescribes ds fr.msg prop) ∧
  (∀ x ∈ fr.expose, ∀ prop ∈ x.2.2, propDescribes ds fr.msg prop)

/-- the frame's bookkeeping is about its own message -/
def FrameIn (ds : DescSet) (fr : Frame) : Prop :=
  fr.msg ∈ ds.msgs ∧ (∀ f ∈ fr.rest, f ∈ fr.msg.fields) ∧ (∀ x ∈ fr.expose, x.2.1 ∈ fr.msg.oneofs)

theorem referenceMessage_opDesc (ds : DescSet) (reg : Reg) (full : String) (fl : Bool) (b : Built)
    (h : referenceMessage ds reg full fl = .ok b) : ∀ op ∈ b.ops, OpDesc ds op := by
  unfold referenceMessage at h
  split at h
  · cases h
  · split at h
    · cases h
    · simp only at h
      split at h
      · split at h
        · cases h
        · cases h; intro op hop; cases hop
      · cases h
        intro op hop
        simp only [List.mem_singleton] at hop
        subst hop
        trivial

theorem buildEnum_rootDesc (ds : DescSet) (en : EnumD) (r : RRoot) (p k : String)
    (h : buildEnum en = .ok r) : RootDesc ds p k r := by
  unfold buildEnum at h
  split at h
  · cases h
  · split at h
    · cases h
    · cases h; trivial

theorem buildSchema_opDesc (ds : DescSet) (reg : Reg) (kind : PKind) (t : Target) (e : Ext)
    (key : Option KeySum) (b : Built) (h : buildSchema ds reg kind t e key = .ok b) :
    ∀ op ∈ b.ops, OpDesc ds op := by
  unfold buildSchema at h
  split at h
  · split at h
    · unfold buildMessageField at h
      simp only at h
      obtain ⟨w, _, h2⟩ := bind_eq_ok h
      cases w with
      | some f => cases h2; intro op hop; cases hop
      | none => exact referenceMessage_opDesc ds reg _ _ b h2
    · cases h
  · split at h
    · obtain ⟨⟨f, ops⟩, hf, hx⟩ := map_eq_ok h
      cases hx
      unfold buildEnumField at hf
      split at hf
      · cases hf
      · rename_i en hen
        obtain ⟨⟨to, ops'⟩, ht, h2⟩ := bind_eq_ok hf
        obtain ⟨_, _, hx⟩ := map_eq_ok h2
        cases hx
        unfold enumTarget at ht
        split at ht
        · split at ht
          · cases ht
          · cases ht; intro op hop; cases hop
        · obtain ⟨r, hr, hx⟩ := map_eq_ok ht
          cases hx
          intro op hop
          simp only [List.mem_singleton] at hop
          subst hop
          exact buildEnum_rootDesc ds en r _ _ hr
    · cases h
  · obtain ⟨x, _, hx⟩ := map_eq_ok h
    cases hx
    intro op hop; cases hop

theorem buildProperty_opDesc (ds : DescSet) (reg : Reg) (f : FieldD) (prop : RProp) (b : Built)
    (h : buildProperty ds reg f = .ok (prop, b)) : ∀ op ∈ b.ops, OpDesc ds op := by
  obtain ⟨kind, t, e, key, mk, _, hb, _⟩ := buildProperty_ok h
  exact buildSchema_opDesc ds reg kind t e key b hb

theorem exposeOneofs_desc (ds : DescSet) (m : Msg) (hm : m ∈ ds.msgs) (os : List OneofD)
    (hos : ∀ o ∈ os, o ∈ m.oneofs) (reg : Reg) (i : Nat) (ex : List (Nat × OneofD × List RProp))
    (ops : List RegOp) (h : exposeOneofs m reg i os = .ok (ex, ops)) :
    (∀ op ∈ ops, OpDesc ds op) ∧ (∀ x ∈ ex, x.2.1 ∈ m.oneofs ∧ x.2.2 = []) := by
  induction os generalizing reg i ex ops with
  | nil =>
    simp only [exposeOneofs] at h
    cases h
    exact ⟨(by intro op hop; cases hop), (by intro x hx; cases hx)⟩
  | cons o os ih =>
    have hos' : ∀ o' ∈ os, o' ∈ m.oneofs := fun o' h => hos o' (List.mem_cons_of_mem _ h)
    have ho : o ∈ m.oneofs := hos o (List.mem_cons_self ..)
    unfold exposeOneofs at h
    split at h
    · exact ih hos' reg (i + 1) ex ops h
    · split at h
      · cases h
      · simp only at h
        split at h
        · rename_i ex' ops' hrec
          obtain ⟨h1, h2⟩ := ih hos' _ (i + 1) ex' ops' hrec
          cases h
          constructor
          · intro op hop
            rcases List.mem_cons.mp hop with rfl | hop'
            · exact ⟨⟨m, hm, rfl, Or.inr ⟨o, ho, rfl⟩, (by intro prop hp; cases hp)⟩, List.nodup_nil⟩
            · exact h1 op hop'
          · intro x hx
            rcases List.mem_cons.mp hx with rfl | hx'
            · exact ⟨ho, rfl⟩
            · exact h2 x hx'
        · cases h
        · cases h

theorem enter_desc (ds : DescSet) (m : Msg) (hm : m ∈ ds.msgs) (reg : Reg) (fr : Frame)
    (ops : List RegOp) (h : enter m reg = .ok (fr, ops)) :
    (∀ op ∈ ops, OpDesc ds op) ∧ FrameIn ds fr ∧ FrameDescribes ds fr := by
  unfold enter at h
  split at h
  · rename_i ex ops' hex
    obtain ⟨h1, h2⟩ := exposeOneofs_desc ds m hm m.oneofs (fun _ h => h) reg 0 ex ops' hex
    cases h
    refine ⟨h1, ⟨hm, fun _ h => h, fun x hx => (h2 x hx).1⟩, ?_, ?_⟩
    · intro prop hp; cases hp
    · intro x hx prop hp
      rw [(h2 x hx).2] at hp
      cases hp
  · cases h
  · cases h

theorem finish_desc (ds : DescSet) (fr : Frame) (hin : FrameIn ds fr) (hd : FrameDescribes ds fr)
    (ops : List RegOp) (h : finish fr = .ok ops) : ∀ op ∈ ops, OpDesc ds op := by
  obtain ⟨hm, _, hex⟩ := hin
  obtain ⟨hprops, hexp⟩ := hd
  unfold finish at h
  split at h
  · cases h
  · split at h
    · cases h
    · rename_i hu
      split at h
      · cases h
      · rename_i hue
        have hu' : (fr.props.map (·.json)).Nodup := by simpa [namesUnique] using hu
        have hue' : ∀ x ∈ fr.expose, (x.2.2.map (·.json)).Nodup := by
          intro x hx
          simp only [List.any_eq_true, Bool.not_eq_true', not_exists, not_and] at hue
          simpa [namesUnique] using hue x hx
        have hexpose : ∀ op ∈ (fr.expose.map fun (x : Nat × OneofD × List RProp) =>
            RegOp.set fr.msg.pkg x.2.1.split (.oneof fr.msg.pkg x.2.1.split x.2.2)), OpDesc ds op := by
          intro op hop
          obtain ⟨x, hx, rfl⟩ := List.mem_map.mp hop
          exact ⟨⟨fr.msg, hm, rfl, Or.inr ⟨x.2.1, hex x hx, rfl⟩, hexp x hx⟩, hue' x hx⟩
        split at h
        · cases h
        · simp only at h
          split at h
          · cases h
            intro op hop
            rcases List.mem_append.mp hop with h1 | h1
            · exact hexpose op h1
            · simp only [List.mem_singleton] at h1
              subst h1
              exact ⟨⟨fr.msg, hm, rfl, Or.inl rfl, hprops⟩, hu'⟩
          · split at h
            · cases h
            · cases h
            · cases h
              intro op hop
              rcases List.mem_append.mp hop with h1 | h1
              · exact hexpose op h1
              · simp only [List.mem_singleton] at h1
                subst h1
                exact ⟨⟨fr.msg, hm, rfl, Or.inl rfl, hprops⟩, hu'⟩

theorem place_in (ds : DescSet) (fr : Frame) (f : FieldD) (prop : RProp) (h : FrameIn ds fr) :
    FrameIn ds (place fr f prop) := by
  have := place_frameOK ds fr f prop h
  exact this

theorem place_desc (ds : DescSet) (fr : Frame) (f : FieldD) (prop : RProp) (hin : FrameIn ds fr)
    (hd : FrameDescribes ds fr) (hp : propDescribes ds fr.msg prop) :
    FrameDescribes ds (place fr f prop) := by
  obtain ⟨hprops, hexp⟩ := hd
  unfold place
  simp only
  split
  · refine ⟨?_, hexp⟩
    intro q hq
    rcases List.mem_append.mp hq with h1 | h1
    · exact hprops q h1
    · simp only [List.mem_singleton] at h1; subst h1; exact hp
  · rename_i i o ps hfind
    have ho : o ∈ fr.msg.oneofs := by
      split at hfind
      · exact hin.2.2 _ (List.mem_of_find?_eq_some hfind)
      · cases hfind
    have hmap : ∀ x ∈ (fr.expose.map fun (x : Nat × OneofD × List RProp) =>
        if x.1 == i then (x.1, x.2.1, x.2.2 ++ [prop]) else (x.1, x.2.1, x.2.2)),
        ∀ q ∈ x.2.2, propDescribes ds fr.msg q := by
      intro x hx q hq
      obtain ⟨y, hy, rfl⟩ := List.mem_map.mp hx
      split at hq
      · rcases List.mem_append.mp hq with h1 | h1
        · exact hexp y hy q h1
        · simp only [List.mem_singleton] at h1; subst h1; exact hp
      · exact hexp y hy q hq
    split
    · refine ⟨?_, hmap⟩
      intro q hq
      rcases List.mem_append.mp hq with h1 | h1
      · exact hprops q h1
      · simp only [List.mem_singleton] at h1
        subst h1
        exact Or.inr ⟨rfl, o, ho, rfl⟩
    · exact ⟨hprops, hmap⟩

def Good2 (ds : DescSet) (st : St) : Prop :=
  RegDescribes ds st.reg ∧ ∀ fr ∈ st.stack, FrameIn ds fr ∧ FrameDescribes ds fr

theorem step_describes (ds : DescSet) (st : St) (hg : Good2 ds st) :
    (∀ st', step ds st = .cont st' → Good2 ds st') ∧
    (∀ reg, step ds st = .done reg → RegDescribes ds reg) := by
  obtain ⟨hreg, hframes⟩ := hg
  unfold step
  split
  · refine ⟨(by intro _ h; cases h), ?_⟩
    intro reg h; cases h; exact hreg
  · rename_i fr below hstack
    have hfr := hframes fr (by simp [hstack])
    have hbelow : ∀ fr' ∈ below, FrameIn ds fr' ∧ FrameDescribes ds fr' :=
      fun fr' h => hframes fr' (by simp [hstack, h])
    split
    · refine ⟨?_, (by intro reg h; split at h <;> cases h)⟩
      intro st' h
      split at h
      · rename_i ops hfin
        cases h
        exact ⟨hreg.applyAll ops (finish_desc ds fr hfr.1 hfr.2 ops hfin), hbelow⟩
      · cases h
      · cases h
    · rename_i f fs hrest
      have hf : f ∈ fr.msg.fields := hfr.1.2.1 f (by simp [hrest])
      have hin' : FrameIn ds { fr with rest := fs } := by
        refine ⟨hfr.1.1, ?_, hfr.1.2.2⟩
        intro g hg
        exact hfr.1.2.1 g (by simp [hrest, hg])
      have hd' : FrameDescribes ds { fr with rest := fs } := hfr.2
      refine ⟨?_, ?_⟩
      · intro st' h
        split at h
        · cases h
        · cases h
        · rename_i prop b hb
          obtain ⟨hpath, _, hdesc⟩ := buildProperty_describes ds st.reg f prop b hb
          have hp : propDescribes ds fr.msg prop := Or.inl ⟨f, hf, hpath, hdesc⟩
          have hfr' : FrameIn ds (place { fr with rest := fs } f prop) ∧
              FrameDescribes ds (place { fr with rest := fs } f prop) :=
            ⟨place_in ds _ f prop hin', place_desc ds _ f prop hin' hd' hp⟩
          have hreg' : RegDescribes ds (st.reg.applyAll b.ops) :=
            hreg.applyAll b.ops (buildProperty_opDesc ds st.reg f prop b hb)
          simp only at h
          split at h
          · cases h
            refine ⟨hreg', ?_⟩
            intro fr' hfr''
            rcases List.mem_cons.mp hfr'' with rfl | hb'
            · exact hfr'
            · exact hbelow fr' hb'
          · rename_i m hpush
            have hm := (buildProperty_push ds st.reg f prop b m hb hpush).1
            split at h
            · rename_i child ops hchild
              cases h
              obtain ⟨hops, hcin, hcd⟩ := enter_desc ds m hm _ child ops hchild
              refine ⟨hreg'.applyAll ops hops, ?_⟩
              intro fr' hfr''
              rcases List.mem_cons.mp hfr'' with rfl | hb'
              · exact ⟨hcin, hcd⟩
              · rcases List.mem_cons.mp hb' with rfl | hb''
                · exact hfr'
                · exact hbelow fr' hb''
            · cases h
            · cases h
      · intro reg h
        split at h
        · cases h
        · cases h
        · simp only at h
          split at h
          · cases h
          · split at h <;> cases h

theorem run_describes (ds : DescSet) (st : St) :
    Good2 ds st → ∀ reg, run ds st = .ok reg → RegDescribes ds reg := by
  induction st using run.induct ds with
  | case1 x reg h =>
    intro hg reg' h'
    rw [run_done ds x reg h] at h'
    cases h'
    exact (step_describes ds x hg).2 reg h
  | case2 x e h => intro _ reg' h'; rw [run_fail ds x e h] at h'; cases h'
  | case3 x w h => intro _ reg' h'; rw [run_crash ds x w h] at h'; cases h'
  | case4 x st' h ih =>
    intro hg reg' h'
    rw [run_cont ds x st' h] at h'
    exact ih ((step_describes ds x hg).1 st' h) reg' h'

theorem buildMessage_describes (ds : DescSet) (reg : Reg) (m : Msg)
    (hm : m ∈ ds.msgs) (hreg : RegDescribes ds reg) (reg' : Reg)
    (h : buildMessage ds reg m = .ok reg') : RegDescribes ds reg' := by
  unfold buildMessage at h
  simp only at h
  split at h
  · rename_i fr ops hen
    obtain ⟨hops, hin, hd⟩ := enter_desc ds m hm _ fr ops hen
    apply run_describes ds _ _ reg' h
    refine ⟨(hreg.apply (.add m.pkg m.split m.full) trivial).applyAll ops hops, ?_⟩
    intro fr' hfr'
    simp only [List.mem_singleton] at hfr'
    subst hfr'
    exact ⟨hin, hd⟩
  · cases h
  · cases h

theorem messagesLoop_describes (ds : DescSet) (names : List String)
    (reg : Reg) (hreg : RegDescribes ds reg) (reg' : Reg)
    (h : messagesLoop ds reg names = .ok reg') : RegDescribes ds reg' := by
  induction names generalizing reg with
  | nil => simp only [messagesLoop] at h; cases h; exact hreg
  | cons full rest ih =>
    unfold messagesLoop at h
    split at h
    · cases h
    · rename_i m hm
      split at h
      · rename_i reg1 hms
        apply ih reg1 _ h
        unfold messageSchema at hms
        split at hms
        · split at hms
          · cases hms
          · split at hms
            · cases hms; exact hreg
            · cases hms
        · exact buildMessage_describes ds reg m (msg?_mem ds full m hm) hreg reg1 hms
      · cases h
      · cases h

theorem enumsLoop_describes (ds : DescSet) (names : List String) (reg : Reg)
    (hreg : RegDescribes ds reg) (reg' : Reg) (h : enumsLoop ds reg names = .ok reg') :
    RegDescribes ds reg' := by
  induction names generalizing reg with
  | nil => simp only [enumsLoop] at h; cases h; exact hreg
  | cons full rest ih =>
    unfold enumsLoop at h
    split at h
    · cases h
    · rename_i en hen
      split at h
      · split at h
        · cases h
        · exact ih reg hreg h
      · split at h
        · rename_i r hb
          apply ih _ _ h
          exact hreg.apply (.link en.pkg en.split en.full r) (buildEnum_rootDesc ds en r _ _ hb)
        · cases h
        · cases h

/-- every object / oneof schema of a reflected set points into the message it was built from -/
theorem schemaSetFromFiles_describes (ds : DescSet) (reg : Reg)
    (h : schemaSetFromFiles ds = .ok reg) : RegDescribes ds reg := by
  unfold schemaSetFromFiles at h
  split at h
  · rename_i reg1 hm
    exact enumsLoop_describes ds ds.topEnums reg1
      (messagesLoop_describes ds ds.topMsgs [] (by intro e he; cases he) reg1 hm) reg h
  · cases h
  · cases h

end J5V.Schema.Reader
