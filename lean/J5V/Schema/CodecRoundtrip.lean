import J5V.Schema.CodecBridge
import J5V.Codec.EncTreeProofs
import J5V.Codec.AnyPbProofs
/-!
# C18 → C01: the codec round trip on reflected schemas

`toEnv ds reg` (EnvModel.lean, validated by the `env=` part of the `schema.reflect`
correspondence) is the codec model's view of a reflected registry. The codec cluster proves the
byte-level round trip (`Codec.roundtrip_bytes` = `C01_roundtrip_partial`) for every environment in
`Env.flat`. Here the two are composed: for a reflected environment that lies in `Env.flat`, every
representable message of every reflected root round-trips. The codec modules are imported
read-only.

`Env.flat` on a reflected environment says: every client property has a non-empty proto path and a
simple field schema or is an exposed oneof, client property names are pairwise distinct (the open
finding `duplicate-client-property-name` is exactly a reflected set outside `Env.flat`), leaf paths
are distinct and prefix-free, names are valid UTF-8. It is decidable, and evaluated on the
witnesses below; that it follows from `clientNamesOK` for every reflected set is not proved.
-/
namespace J5V.Schema.Bridge
open J5V.Go J5V.Schema J5V.Schema.Reader J5V.Json

/-- **reflected round trip**: reflection succeeded, the reflected environment is flat ⇒ for every
codec over it (any oracle satisfying the laws, with or without `WithProtoToAny`, any `Any`
nesting depth), every root and every representable message `m` the codec can decode:
`ProtoToJSON` succeeds and `JSONToProto` maps the bytes back to `m`. -/
theorem reflected_roundtrip (ds : DescSet) (reg : Reg) (_h : schemaSetFromFiles ds = .ok reg)
    (c : Codec.Cfg) (hc : c.env = toEnv ds reg) (hflat : (toEnv ds reg).flat = true)
    (L : Codec.OracleLaws c.O) (hC : (toEnv ds reg).noAny = true ∨ Codec.ChunkLaws c.O)
    (root : String) (m : Codec.Fields)
    (hok : Codec.valOk (toEnv ds reg) c.O (.object root) (.msg m) = true ∨
      Codec.valOk (toEnv ds reg) c.O (.oneof root) (.msg m) = true)
    (hM : c.canDecode m) :
    ∃ bs, Codec.encodeBytes (toEnv ds reg) c.O root (.msg m) = .ok bs ∧
      Codec.decodeBytes c root bs = .ok m := by
  rw [← hc] at hflat hC hok ⊢
  exact Codec.roundtrip_bytes c hflat L hC root m hok hM

/-- without `Any` fields in the reflected environment nothing is asked of the codec
configuration (`canDecode` is void, `ChunkLaws` not needed) -/
theorem reflected_roundtrip_noAny (ds : DescSet) (reg : Reg) (h : schemaSetFromFiles ds = .ok reg)
    (c : Codec.Cfg) (hc : c.env = toEnv ds reg) (hflat : (toEnv ds reg).flat = true)
    (hna : (toEnv ds reg).noAny = true) (L : Codec.OracleLaws c.O)
    (root : String) (m : Codec.Fields)
    (hok : Codec.valOk (toEnv ds reg) c.O (.object root) (.msg m) = true ∨
      Codec.valOk (toEnv ds reg) c.O (.oneof root) (.msg m) = true) :
    ∃ bs, Codec.encodeBytes (toEnv ds reg) c.O root (.msg m) = .ok bs ∧
      Codec.decodeBytes c root bs = .ok m := by
  refine reflected_roundtrip ds reg h c hc hflat L (Or.inl hna) root m hok ?_
  have hna' : c.env.noAny = true := by rw [hc]; exact hna
  have hok' : Codec.valOk c.env c.O (.object root) (.msg m) = true ∨
      Codec.valOk c.env c.O (.oneof root) (.msg m) = true := by rw [hc]; exact hok
  exact Codec.canDecode_of_noAny c hna' root m hok'

/-! ## a kernel-evaluable `toEnv` (fuel version, sound) — for the non-vacuity witnesses

`toEnv` goes through `clientProps` (well-founded recursion, not evaluated by the kernel);
`toEnvN n` uses `clientPropsN n` and returns `none` when the fuel runs out. -/

def entryRootN (n : Nat) (ds : DescSet) (reg : Reg) (e : REntry) : Option Codec.Root :=
  match e.to with
  | some (.object _ _ _ _ ps) =>
    match ds.msg? e.src with
    | some m =>
      match clientPropsN reg n [⟨e.pkg, e.key⟩] ps with
      | some (.ok cps) => some (.object (cps.map (toProp ds m)))
      | some (.err _) => some .noschema
      | some (.panic _) => some .noschema
      | none => none
    | none => some .noschema
  | some (.oneof _ _ ps) =>
    match ownerMsg ds e.src with
    | some m => some (.oneof (ps.map (toProp ds m)))
    | none => some .noschema
  | some (.enum _ _ pfx opts) => some (.enum (ascii pfx) (opts.map fun (n, i) => (ascii n, i)))
  | none => some .noschema

theorem entryRootN_sound (n : Nat) (ds : DescSet) (reg : Reg) (e : REntry) (r : Codec.Root)
    (h : entryRootN n ds reg e = some r) : entryRoot ds reg e = r := by
  unfold entryRootN at h
  unfold entryRoot
  split at h
  · rename_i ps hto
    split at h
    · rename_i m hm
      split at h
      · rename_i cps hc
        simp only [hto, hm, clientPropsN_sound _ _ _ _ _ hc]
        simpa using h
      · rename_i t hc
        simp only [hto, hm, clientPropsN_sound _ _ _ _ _ hc]
        simpa using h
      · rename_i t hc
        simp only [hto, hm, clientPropsN_sound _ _ _ _ _ hc]
        simpa using h
      · cases h
    · rename_i hm
      simp only [hto, hm]
      simpa using h
  · rename_i ps hto
    simp only [hto]
    split at h <;> rename_i hm <;> simp only [hm] <;> simpa using h
  · rename_i hto
    simp only [hto]
    simpa using h
  · rename_i hto
    simp only [hto]
    simpa using h

def defsN (n : Nat) (ds : DescSet) (reg : Reg) : List REntry → Option (List (String × Codec.Root))
  | [] => some []
  | e :: es =>
    match entryRootN n ds reg e, defsN n ds reg es with
    | some r, some rest => some ((rootName e.pkg e.key, r) :: rest)
    | _, _ => none

theorem defsN_sound (n : Nat) (ds : DescSet) (reg : Reg) (es : List REntry)
    (out : List (String × Codec.Root)) (h : defsN n ds reg es = some out) :
    es.map (fun e => (rootName e.pkg e.key, entryRoot ds reg e)) = out := by
  induction es generalizing out with
  | nil => simp [defsN] at h; simp [h]
  | cons e es ih =>
    simp only [defsN] at h
    split at h
    · rename_i r rest hr hrest
      simp only [Option.some.injEq] at h
      subst h
      simp [entryRootN_sound _ _ _ _ _ hr, ih _ hrest]
    · cases h

def toEnvN (n : Nat) (ds : DescSet) (reg : Reg) : Option Codec.Env :=
  (defsN n ds reg reg).map fun defs =>
    { defs := defs, res := ds.msgs.map fun m => (ascii m.full, rootName m.pkg m.split) }

theorem toEnvN_sound (n : Nat) (ds : DescSet) (reg : Reg) (env : Codec.Env)
    (h : toEnvN n ds reg = some env) : toEnv ds reg = env := by
  unfold toEnvN at h
  cases hd : defsN n ds reg reg with
  | none => simp [hd] at h
  | some defs =>
    simp only [hd, Option.map_some, Option.some.injEq] at h
    subst h
    simp [toEnv, defsN_sound _ _ _ _ _ hd]

end J5V.Schema.Bridge
