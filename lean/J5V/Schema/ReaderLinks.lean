import J5V.Schema.ReaderPaths
import J5V.Schema.PropSetModel
/-!
# C18: every reference of a reflected schema set is registered for the right descriptor and linked

The invariant behind `ClientProperties` (flatten chains) and the client-property-name check:

* `RegLinks`: an object / oneof schema registered for descriptor `src` was built from **the**
  message the set finds under that full name (`Canon`), is an object exactly when that message is
  not a oneof wrapper, each of its properties describes a field of that message (`describes`), and
  the schema name a message-kind property refers to is registered for the field's own target
  (`RefOwned` — the effect of `RefSchema.claim`, af1da62);
* `AllLinked`: between top-level calls no placeholder is left unlinked (`Pending`: while the
  reader runs, every unlinked entry belongs to a frame on the stack, which links it in `finish`).

From these: a flattened field's reference resolves, in the registry, to the **object** schema built
from the field's target message (`objRef_resolves`), so `ClientProperties` cannot panic (nor could a client-name check inside the
reader: `clientNamesAll_noPanic`, ready for the repair of `duplicate-client-property-name`).
-/
namespace J5V.Schema.Reader
open J5V.Go J5V.Schema

/-! ## `linked`: `linkedBase` plus two more name facts protodesc guarantees -/

/-- no message has the full name of a oneof of a message (one namespace per scope), and field
numbers are distinct within a message -/
def namesDistinct (ds : DescSet) : Bool :=
  ds.msgs.all fun m =>
    (m.oneofs.all fun o => (ds.msg? (m.full ++ "." ++ o.name)).isNone) &&
    decide ((m.fields.map (·.number)).Nodup)

/-- a schema name (`splitDescriptorName`: proto identifiers joined by `_`) contains no dot -/
def dotFree (s : String) : Bool := !s.toList.contains '.'

def splitsDotFree (ds : DescSet) : Bool :=
  (ds.msgs.all fun m => dotFree m.split && m.oneofs.all fun o => dotFree o.split) &&
  ds.enums.all fun en => dotFree en.split

/-- what `protodesc` guarantees about a descriptor set (trusted; evaluated by the driver on every
generated set: the harness answers `linked=1` for every set that links) -/
def linked (ds : DescSet) : Bool := linkedBase ds && namesDistinct ds && splitsDotFree ds

theorem linked_base {ds : DescSet} (h : linked ds = true) : linkedBase ds = true := by
  unfold linked at h
  simp only [Bool.and_eq_true] at h
  exact h.1.1

theorem linked_splits {ds : DescSet} (h : linked ds = true) : splitsDotFree ds = true := by
  unfold linked at h
  simp only [Bool.and_eq_true] at h
  exact h.2

theorem linked_oneofName {ds : DescSet} (h : linked ds = true) (m : Msg) (hm : m ∈ ds.msgs)
    (o : OneofD) (ho : o ∈ m.oneofs) : ds.msg? (m.full ++ "." ++ o.name) = none := by
  unfold linked namesDistinct at h
  simp only [Bool.and_eq_true, List.all_eq_true, Option.isNone_iff_eq_none] at h
  exact (h.1.2 m hm).1 o ho

theorem linked_numbers {ds : DescSet} (h : linked ds = true) (m : Msg) (hm : m ∈ ds.msgs) :
    (m.fields.map (·.number)).Nodup := by
  unfold linked namesDistinct at h
  simp only [Bool.and_eq_true, List.all_eq_true, decide_eq_true_eq] at h
  exact (h.1.2 m hm).2

/-! ## canonical messages -/

/-- `m` is the message the set finds under its own full name -/
def Canon (ds : DescSet) (m : Msg) : Prop := ds.msg? m.full = some m

theorem canon_of_find {ds : DescSet} {full : String} {m : Msg} (h : ds.msg? full = some m) :
    m.full = full ∧ Canon ds m := by
  have hf : m.full = full := by
    unfold DescSet.msg? at h
    have := List.find?_some h
    simpa using this
  exact ⟨hf, by unfold Canon; rw [hf]; exact h⟩

theorem Canon.mem {ds : DescSet} {m : Msg} (h : Canon ds m) : m ∈ ds.msgs :=
  msg?_mem ds m.full m h

/-! ## references -/

def itemOf : RField → RField
  | .array i => i
  | .map i => i
  | s => s

/-- the schema name a message-kind field schema refers to -/
def refOf : RField → Option Ref
  | .object r _ => some r
  | .oneof r => some r
  | _ => none

/-- the schema name an object / oneof field (or list / map of such) refers to is registered for
the field's own target descriptor -/
def RefOwned (reg : Reg) (s : RField) (t : Target) : Prop :=
  ∀ r, refOf (itemOf s) = some r → Owns reg r.pkg r.schema (targetFull t)

/-- `reg'` registers everything `reg` does, for the same descriptors -/
def RegExt (reg reg' : Reg) : Prop := ∀ p k src, Owns reg p k src → Owns reg' p k src

theorem RegExt.refl (reg : Reg) : RegExt reg reg := fun _ _ _ h => h
theorem RegExt.trans {a b c : Reg} (h1 : RegExt a b) (h2 : RegExt b c) : RegExt a c :=
  fun p k s h => h2 p k s (h1 p k s h)
theorem RegExt.apply (reg : Reg) (op : RegOp) : RegExt reg (reg.apply op) :=
  fun _ _ _ h => h.apply op
theorem RegExt.applyAll (reg : Reg) (ops : List RegOp) : RegExt reg (reg.applyAll ops) :=
  fun _ _ _ h => h.applyAll ops

theorem RefOwned.mono {reg reg' : Reg} (hx : RegExt reg reg') {s : RField} {t : Target}
    (h : RefOwned reg s t) : RefOwned reg' s t := fun r hr => hx _ _ _ (h r hr)

/-- property `prop` of a schema built from message `m`: it describes a field of `m` and its
reference is registered for that field's target; or it is the wrapper of an exposed oneof of `m`,
registered for that oneof -/
def PropLink (ds : DescSet) (reg : Reg) (m : Msg) (prop : RProp) : Prop :=
  (∃ f ∈ m.fields, prop.path = [f.number] ∧ describes ds f prop.schema = true ∧
      RefOwned reg prop.schema (itemTarget f)) ∨
  (prop.path = [] ∧ ∃ o ∈ m.oneofs, prop.schema = .oneof ⟨m.pkg, o.split⟩ ∧
      Owns reg m.pkg o.split (m.full ++ "." ++ o.name))

theorem PropLink.mono {ds : DescSet} {reg reg' : Reg} (hx : RegExt reg reg') {m : Msg} {prop : RProp}
    (h : PropLink ds reg m prop) : PropLink ds reg' m prop := by
  rcases h with ⟨f, hf, hp, hd, hr⟩ | ⟨hp, o, ho, hs, hown⟩
  · exact Or.inl ⟨f, hf, hp, hd, hr.mono hx⟩
  · exact Or.inr ⟨hp, o, ho, hs, hx _ _ _ hown⟩

/-- the root registered under (p, k) for descriptor `src` -/
def RootLink (ds : DescSet) (reg : Reg) (p k src : String) : RRoot → Prop
  | .enum _ _ _ _ => srcIsEnum ds src = true ∧ ∃ en ∈ ds.enums, k = en.split
  | .object _ _ _ _ ps =>
    ∃ m, Canon ds m ∧ src = m.full ∧ isOneofWrapper m = false ∧ p = m.pkg ∧ k = m.split ∧
      (∀ prop ∈ ps, PropLink ds reg m prop) ∧ (ps.map (·.json)).Nodup
  | .oneof _ _ ps =>
    (∃ m, Canon ds m ∧ src = m.full ∧ isOneofWrapper m = true ∧ p = m.pkg ∧ k = m.split ∧
      (∀ prop ∈ ps, PropLink ds reg m prop) ∧ (ps.map (·.json)).Nodup) ∨
    (∃ m o, Canon ds m ∧ o ∈ m.oneofs ∧ src = m.full ++ "." ++ o.name ∧ p = m.pkg ∧ k = o.split ∧
      (∀ prop ∈ ps, PropLink ds reg m prop) ∧ (ps.map (·.json)).Nodup)

theorem RootLink.mono {ds : DescSet} {reg reg' : Reg} (hx : RegExt reg reg') {p k src : String}
    {root : RRoot} (h : RootLink ds reg p k src root) : RootLink ds reg' p k src root := by
  cases root with
  | enum _ _ _ _ => exact h
  | object _ _ _ _ ps =>
    obtain ⟨m, h1, h2, h3, h4, h5, h6, h7⟩ := h
    exact ⟨m, h1, h2, h3, h4, h5, fun prop hp => (h6 prop hp).mono hx, h7⟩
  | oneof _ _ ps =>
    rcases h with ⟨m, h1, h2, h3, h4, h5, h6, h7⟩ | ⟨m, o, h1, h2, h3, h4, h5, h6, h7⟩
    · exact Or.inl ⟨m, h1, h2, h3, h4, h5, fun prop hp => (h6 prop hp).mono hx, h7⟩
    · exact Or.inr ⟨m, o, h1, h2, h3, h4, h5, fun prop hp => (h6 prop hp).mono hx, h7⟩

def RegLinks (ds : DescSet) (reg : Reg) : Prop :=
  ∀ e ∈ reg, ∀ root, e.to = some root → RootLink ds reg e.pkg e.key e.src root

/-- what an update must satisfy to keep `RegLinks` -/
def OpLink (ds : DescSet) (reg : Reg) : RegOp → Prop
  | .add _ _ _ => True
  | .link p k src root => RootLink ds reg p k src root
  | .set p k root => ∃ src, Owns reg p k src ∧ RootLink ds reg p k src root

theorem OpLink.mono {ds : DescSet} {reg reg' : Reg} (hx : RegExt reg reg') {op : RegOp}
    (h : OpLink ds reg op) : OpLink ds reg' op := by
  cases op with
  | add _ _ _ => trivial
  | link p k src root => exact RootLink.mono hx h
  | set p k root =>
    obtain ⟨src, ho, hr⟩ := h
    exact ⟨src, hx _ _ _ ho, RootLink.mono hx hr⟩

theorem Found.applyOp {reg : Reg} (h : Found reg) (op : RegOp) : Found (reg.apply op) := by
  cases op with
  | add p k src =>
    simp only [Reg.apply]
    split
    · exact h
    · rename_i hhas
      apply h.append
      cases hf : reg.find p k with
      | none => rfl
      | some x => simp [Reg.has, hf] at hhas
  | set p k r => exact h.set p k r
  | link p k src r =>
    simp only [Reg.apply]
    split
    · exact h
    · rename_i hhas
      apply h.append
      cases hf : reg.find p k with
      | none => rfl
      | some x => simp [Reg.has, hf] at hhas

theorem Found.applyAll {reg : Reg} (h : Found reg) (ops : List RegOp) : Found (reg.applyAll ops) := by
  induction ops generalizing reg with
  | nil => exact h
  | cons op ops ih => simp only [Reg.applyAll, List.foldl_cons]; exact ih (h.applyOp op)

theorem RegLinks.apply {ds : DescSet} {reg : Reg} (h : RegLinks ds reg) (hf : Found reg) (op : RegOp)
    (ho : OpLink ds reg op) : RegLinks ds (reg.apply op) := by
  have hx := RegExt.apply reg op
  intro e he root hr
  cases op with
  | add p k src =>
    by_cases hhas : reg.has p k = true
    · simp only [Reg.apply, hhas, ↓reduceIte] at he ⊢
      exact h e he root hr
    · simp only [Reg.apply, hhas, Bool.false_eq_true, ↓reduceIte] at he hx ⊢
      rcases List.mem_append.mp he with he' | he'
      · exact RootLink.mono hx (h e he' root hr)
      · simp only [List.mem_singleton] at he'
        subst he'
        cases hr
  | set p k r =>
    simp only [Reg.apply, List.mem_map] at he
    obtain ⟨e0, he0, rfl⟩ := he
    by_cases hm : (e0.pkg == p && e0.key == k) = true
    · simp only [hm, ↓reduceIte, Option.some.injEq] at hr ⊢
      subst hr
      simp only [Bool.and_eq_true, beq_iff_eq] at hm
      obtain ⟨src, hown, hroot⟩ := ho
      obtain ⟨e1, hf1, hs1⟩ := hown
      have hfe0 := hf e0 he0
      rw [hm.1, hm.2, hf1] at hfe0
      cases hfe0
      rw [hm.1, hm.2, hs1]
      exact RootLink.mono hx hroot
    · simp only [hm, Bool.false_eq_true, ↓reduceIte] at hr ⊢
      exact RootLink.mono hx (h e0 he0 root hr)
  | link p k src r =>
    by_cases hhas : reg.has p k = true
    · simp only [Reg.apply, hhas, ↓reduceIte] at he ⊢
      exact h e he root hr
    · simp only [Reg.apply, hhas, Bool.false_eq_true, ↓reduceIte] at he hx ⊢
      rcases List.mem_append.mp he with he' | he'
      · exact RootLink.mono hx (h e he' root hr)
      · simp only [List.mem_singleton] at he'
        subst he'
        simp only [Option.some.injEq] at hr
        subst hr
        exact RootLink.mono hx ho

theorem RegLinks.applyAll {ds : DescSet} {reg : Reg} (h : RegLinks ds reg) (hf : Found reg)
    (ops : List RegOp) (ho : ∀ op ∈ ops, OpLink ds reg op) : RegLinks ds (reg.applyAll ops) := by
  induction ops generalizing reg with
  | nil => exact h
  | cons op ops ih =>
    simp only [Reg.applyAll, List.foldl_cons]
    apply ih (h.apply hf op (ho op (List.mem_cons_self ..))) (hf.applyOp op)
    intro op' hop'
    exact OpLink.mono (RegExt.apply reg op) (ho op' (List.mem_cons_of_mem _ hop'))

/-! ## what one field contributes -/

theorem referenceMessage_link (ds : DescSet) (reg : Reg) (full : String) (fl : Bool) (b : Built)
    (h : referenceMessage ds reg full fl = .ok b) :
    (∀ r, refOf b.schema = some r → Owns (reg.applyAll b.ops) r.pkg r.schema full) ∧
    ((b.push = none ∧ b.ops = []) ∨
      (∃ m, b.push = some m ∧ b.ops = [.add m.pkg m.split m.full] ∧ ds.msg? full = some m ∧
        reg.find m.pkg m.split = none)) := by
  unfold referenceMessage at h
  split at h
  · cases h
  · split at h
    · cases h
    · rename_i m hm
      obtain ⟨hfull, _⟩ := canon_of_find hm
      simp only at h
      have hrefs : ∀ (s : RField), s = (if isOneofWrapper m = true then RField.oneof ⟨m.pkg, m.split⟩
          else RField.object ⟨m.pkg, m.split⟩ fl) → ∀ r, refOf s = some r → r = ⟨m.pkg, m.split⟩ := by
        intro s hs r hr
        subst hs
        split at hr <;> (simp only [refOf, Option.some.injEq] at hr; exact hr.symm)
      split at h
      · rename_i ent hfind
        split at h
        · cases h
        · rename_i hsrc
          cases h
          simp only [bne_iff_ne, ne_eq, Decidable.not_not] at hsrc
          refine ⟨?_, Or.inl ⟨rfl, rfl⟩⟩
          intro r hr
          have := hrefs _ rfl r hr
          subst this
          simp only [Reg.applyAll, List.foldl_nil]
          exact ⟨ent, hfind, by rw [hsrc, hfull]⟩
      · rename_i hfind
        cases h
        refine ⟨?_, Or.inr ⟨m, rfl, rfl, hm, hfind⟩⟩
        intro r hr
        have := hrefs _ rfl r hr
        subst this
        simp only [Reg.applyAll, List.foldl_cons, List.foldl_nil]
        rw [← hfull]
        exact Owns.add_new reg _ _ _ hfind

theorem wktSchema_noRef (full : String) (e : Ext) (f : RField) (h : wktSchema full e = .ok (some f)) :
    refOf f = none := by
  unfold wktSchema at h
  repeat' split at h
  all_goals first
    | (cases h; rfl)
    | cases h

/-- the shape of what `buildSchema` returns: the reference is registered for the target, and the
updates are enum links, or the placeholder of the message that is entered next -/
theorem buildSchema_link (ds : DescSet) (reg : Reg) (kind : PKind) (t : Target) (e : Ext)
    (key : Option KeySum) (b : Built) (h : buildSchema ds reg kind t e key = .ok b) :
    (∀ r, refOf b.schema = some r → Owns (reg.applyAll b.ops) r.pkg r.schema (targetFull t)) ∧
    ((b.push = none ∧ ∀ op ∈ b.ops, ∃ en r, en ∈ ds.enums ∧ op = .link en.pkg en.split en.full r ∧
        enumRoot (some r) = true) ∨
      (∃ m full, b.push = some m ∧ b.ops = [.add m.pkg m.split m.full] ∧ ds.msg? full = some m ∧
        reg.find m.pkg m.split = none)) := by
  unfold buildSchema at h
  split at h
  · split at h
    · rename_i full p k
      unfold buildMessageField at h
      simp only at h
      obtain ⟨w, hw, h2⟩ := bind_eq_ok h
      cases w with
      | some f =>
        cases h2
        refine ⟨?_, Or.inl ⟨rfl, (by intro op hop; cases hop)⟩⟩
        intro r hr
        simp only at hr
        rw [wktSchema_noRef full e f hw] at hr
        cases hr
      | none =>
        obtain ⟨h1, h3⟩ := referenceMessage_link ds reg full _ b h2
        refine ⟨h1, ?_⟩
        rcases h3 with ⟨hp, ho⟩ | ⟨m, hp, ho, hm, hn⟩
        · exact Or.inl ⟨hp, (by rw [ho]; intro op hop; cases hop)⟩
        · exact Or.inr ⟨m, full, hp, ho, hm, hn⟩
    · cases h
  · split at h
    · rename_i full p k
      obtain ⟨⟨f, ops⟩, hf, hx⟩ := map_eq_ok h
      cases hx
      unfold buildEnumField at hf
      split at hf
      · cases hf
      · rename_i en hen
        obtain ⟨⟨to, ops'⟩, ht, h2⟩ := bind_eq_ok hf
        obtain ⟨_, _, hx⟩ := map_eq_ok h2
        cases hx
        refine ⟨(by intro r hr; cases hr), Or.inl ⟨rfl, ?_⟩⟩
        unfold enumTarget at ht
        split at ht
        · split at ht
          · cases ht
          · cases ht; intro op hop; cases hop
        · obtain ⟨r, hr, hx⟩ := map_eq_ok ht
          cases hx
          intro op hop
          simp only [List.mem_singleton] at hop
          subst hop
          exact ⟨en, r, enum?_mem ds full en hen, rfl, buildEnum_enumRoot en r hr⟩
    · cases h
  · obtain ⟨x, _, hx⟩ := map_eq_ok h
    cases hx
    exact ⟨(by intro r hr; cases hr), Or.inl ⟨rfl, (by intro op hop; cases hop)⟩⟩

theorem buildProperty_link (ds : DescSet) (reg : Reg) (f : FieldD) (prop : RProp) (b : Built)
    (h : buildProperty ds reg f = .ok (prop, b)) :
    RefOwned (reg.applyAll b.ops) prop.schema (itemTarget f) ∧
    ((b.push = none ∧ ∀ op ∈ b.ops, ∃ en r, en ∈ ds.enums ∧ op = .link en.pkg en.split en.full r ∧
        enumRoot (some r) = true) ∨
      (∃ m full, b.push = some m ∧ b.ops = [.add m.pkg m.split m.full] ∧ ds.msg? full = some m ∧
        reg.find m.pkg m.split = none)) := by
  obtain ⟨kind, t, e, key, mk, hplan, hb, hprop⟩ := buildProperty_ok h
  subst hprop
  obtain ⟨h1, h2⟩ := buildSchema_link ds reg kind t e key b hb
  refine ⟨?_, h2⟩
  unfold propertyPlan at hplan
  unfold RefOwned itemTarget
  cases hc : f.card with
  | list =>
    simp only [hc] at hplan ⊢
    cases hplan
    exact h1
  | single =>
    simp only [hc] at hplan ⊢
    cases hplan
    intro r hr
    apply h1 r
    have hd := buildSchema_describes ds reg _ _ _ _ b hb
    cases hs : b.schema with
    | array i => simp [hs, describesItem] at hd
    | map i => simp [hs, describesItem] at hd
    | _ => simpa [hs, itemOf] using hr
  | map =>
    simp only [hc] at hplan ⊢
    split at hplan
    · cases hplan
    · cases hmv : f.mapVal with
      | none => simp [hmv] at hplan
      | some x =>
        obtain ⟨vk, vt, vkey⟩ := x
        simp only [hmv] at hplan ⊢
        cases hplan
        exact h1

/-! ## frames -/

def FrameLinks (ds : DescSet) (reg : Reg) (fr : Frame) : Prop :=
  Canon ds fr.msg ∧ fr.asOneof = isOneofWrapper fr.msg ∧
  (∀ prop ∈ fr.props, PropLink ds reg fr.msg prop) ∧
  (∀ x ∈ fr.expose, ∀ prop ∈ x.2.2, PropLink ds reg fr.msg prop)

theorem FrameLinks.mono {ds : DescSet} {reg reg' : Reg} (hx : RegExt reg reg') {fr : Frame}
    (h : FrameLinks ds reg fr) : FrameLinks ds reg' fr :=
  ⟨h.1, h.2.1, fun p hp => (h.2.2.1 p hp).mono hx, fun x hxx p hp => (h.2.2.2 x hxx p hp).mono hx⟩

/-- every unlinked entry is the placeholder of a frame on the stack -/
def Pending (reg : Reg) (stack : List Frame) : Prop :=
  ∀ e ∈ reg, e.to = none → ∃ fr ∈ stack, fr.msg.pkg = e.pkg ∧ fr.msg.split = e.key

def AllLinked (reg : Reg) : Prop := ∀ e ∈ reg, e.to ≠ none

def Links (ds : DescSet) (st : St) : Prop :=
  RegLinks ds st.reg ∧ (∀ fr ∈ st.stack, FrameLinks ds st.reg fr) ∧ Pending st.reg st.stack

/-- an update that is not an `add` creates no unlinked entry -/
theorem apply_none_of {reg : Reg} {op : RegOp} (hop : ∀ p k s, op ≠ .add p k s) (e : REntry)
    (he : e ∈ reg.apply op) (hn : e.to = none) : ∃ e0 ∈ reg, e0.to = none ∧ e0.pkg = e.pkg ∧ e0.key = e.key := by
  cases op with
  | add p k s => exact absurd rfl (hop p k s)
  | set p k r =>
    simp only [Reg.apply, List.mem_map] at he
    obtain ⟨e0, he0, rfl⟩ := he
    by_cases hm : (e0.pkg == p && e0.key == k) = true
    · simp [hm] at hn
    · simp only [hm, Bool.false_eq_true, ↓reduceIte] at hn ⊢
      exact ⟨e0, he0, hn, rfl, rfl⟩
  | link p k s r =>
    simp only [Reg.apply] at he
    split at he
    · exact ⟨e, he, hn, rfl, rfl⟩
    · rcases List.mem_append.mp he with he' | he'
      · exact ⟨e, he', hn, rfl, rfl⟩
      · simp only [List.mem_singleton] at he'
        subst he'
        cases hn

theorem applyAll_none_of {reg : Reg} {ops : List RegOp} (hops : ∀ op ∈ ops, ∀ p k s, op ≠ .add p k s)
    (e : REntry) (he : e ∈ reg.applyAll ops) (hn : e.to = none) :
    ∃ e0 ∈ reg, e0.to = none ∧ e0.pkg = e.pkg ∧ e0.key = e.key := by
  induction ops generalizing reg with
  | nil => exact ⟨e, he, hn, rfl, rfl⟩
  | cons op ops ih =>
    simp only [Reg.applyAll, List.foldl_cons] at he
    obtain ⟨e1, he1, hn1, hp1, hk1⟩ := ih (fun o ho => hops o (List.mem_cons_of_mem _ ho)) he
    obtain ⟨e0, he0, hn0, hp0, hk0⟩ := apply_none_of (hops op (List.mem_cons_self ..)) e1 he1 hn1
    exact ⟨e0, he0, hn0, hp0.trans hp1, hk0.trans hk1⟩

/-- after a `set` under (p, k) every entry of that name is linked -/
theorem apply_set_linked (reg : Reg) (p k : String) (r : RRoot) (e : REntry)
    (he : e ∈ reg.apply (.set p k r)) (hp : e.pkg = p) (hk : e.key = k) : e.to = some r := by
  simp only [Reg.apply, List.mem_map] at he
  obtain ⟨e0, he0, rfl⟩ := he
  by_cases hm : (e0.pkg == p && e0.key == k) = true
  · simp [hm]
  · simp only [hm, Bool.false_eq_true, ↓reduceIte] at hp hk
    simp [hp, hk] at hm

theorem applyAll_append (reg : Reg) (a b : List RegOp) :
    reg.applyAll (a ++ b) = (reg.applyAll a).applyAll b := by
  simp [Reg.applyAll, List.foldl_append]

/-- the updates of `finish`: sets only, the last one under the frame's own name -/
theorem finish_shape (fr : Frame) (ops : List RegOp) (h : finish fr = .ok ops) :
    ∃ pre root, ops = pre ++ [.set fr.msg.pkg fr.msg.split root] ∧
      (∀ op ∈ pre, ∃ p k r, op = .set p k r) := by
  unfold finish at h
  have hpre : ∀ op ∈ (fr.expose.map fun (x : Nat × OneofD × List RProp) =>
      RegOp.set fr.msg.pkg x.2.1.split (.oneof fr.msg.pkg x.2.1.split x.2.2)), ∃ p k r, op = .set p k r := by
    intro op hop
    obtain ⟨x, _, rfl⟩ := List.mem_map.mp hop
    exact ⟨_, _, _, rfl⟩
  split at h
  · cases h
  · split at h
    · cases h
    · split at h
      · cases h
      · split at h
        · cases h
        · simp only at h
          split at h
          · cases h; exact ⟨_, _, rfl, hpre⟩
          · split at h
            · cases h
            · cases h
            · cases h; exact ⟨_, _, rfl, hpre⟩

/-- `finish`: each update links a name the frame owns to a root built from the frame's message -/
theorem finish_links (ds : DescSet) (reg : Reg) (fr : Frame) (hin : FrameOK ds fr)
    (hown : FrameOwns reg fr) (hl : FrameLinks ds reg fr) (ops : List RegOp)
    (h : finish fr = .ok ops) : ∀ op ∈ ops, OpLink ds reg op := by
  obtain ⟨hcanon, hwrap, hprops, hexp⟩ := hl
  obtain ⟨_, _, hex⟩ := hin
  unfold finish at h
  split at h
  · cases h
  · split at h
    · cases h
    · rename_i hu
      split at h
      · cases h
      · rename_i hue
        have hu' : (fr.props.map (·.json)).Nodup := by simpa [namesUnique] using hu
        have hue' : ∀ x ∈ fr.expose, (x.2.2.map (·.json)).Nodup := by
          intro x hx
          simp only [List.any_eq_true, Bool.not_eq_true', not_exists, not_and] at hue
          simpa [namesUnique] using hue x hx
        have hexpose : ∀ op ∈ (fr.expose.map fun (x : Nat × OneofD × List RProp) =>
            RegOp.set fr.msg.pkg x.2.1.split (.oneof fr.msg.pkg x.2.1.split x.2.2)), OpLink ds reg op := by
          intro op hop
          obtain ⟨x, hx, rfl⟩ := List.mem_map.mp hop
          exact ⟨_, hown.2 x hx, Or.inr ⟨fr.msg, x.2.1, hcanon, hex x hx, rfl, rfl, rfl, hexp x hx, hue' x hx⟩⟩
        split at h
        · cases h
        · simp only at h
          split at h
          · rename_i has
            cases h
            intro op hop
            rcases List.mem_append.mp hop with h1 | h1
            · exact hexpose op h1
            · simp only [List.mem_singleton] at h1
              subst h1
              exact ⟨_, hown.1, Or.inl ⟨fr.msg, hcanon, rfl, by rw [← hwrap]; exact has, rfl, rfl, hprops, hu'⟩⟩
          · rename_i has
            split at h
            · cases h
            · cases h
            · cases h
              intro op hop
              rcases List.mem_append.mp hop with h1 | h1
              · exact hexpose op h1
              · simp only [List.mem_singleton] at h1
                subst h1
                refine ⟨_, hown.1, fr.msg, hcanon, rfl, ?_, rfl, rfl, hprops, hu'⟩
                rw [← hwrap]
                simpa using has

theorem place_links (ds : DescSet) (reg : Reg) (fr : Frame) (f : FieldD) (prop : RProp)
    (hin : FrameOK ds fr) (hown : FrameOwns reg fr) (hl : FrameLinks ds reg fr)
    (hp : PropLink ds reg fr.msg prop) : FrameLinks ds reg (place fr f prop) := by
  obtain ⟨hcanon, hwrap, hprops, hexp⟩ := hl
  unfold place
  simp only
  split
  · refine ⟨hcanon, hwrap, ?_, hexp⟩
    intro q hq
    rcases List.mem_append.mp hq with h1 | h1
    · exact hprops q h1
    · simp only [List.mem_singleton] at h1; subst h1; exact hp
  · rename_i i o ps hfind
    have hmem : (i, o, ps) ∈ fr.expose := by
      split at hfind
      · exact List.mem_of_find?_eq_some hfind
      · cases hfind
    have ho : o ∈ fr.msg.oneofs := hin.2.2 _ hmem
    have hoown : Owns reg fr.msg.pkg o.split (fr.msg.full ++ "." ++ o.name) := hown.2 _ hmem
    have hmap : ∀ x ∈ (fr.expose.map fun (x : Nat × OneofD × List RProp) =>
        if x.1 == i then (x.1, x.2.1, x.2.2 ++ [prop]) else (x.1, x.2.1, x.2.2)),
        ∀ q ∈ x.2.2, PropLink ds reg fr.msg q := by
      intro x hx q hq
      obtain ⟨y, hy, rfl⟩ := List.mem_map.mp hx
      split at hq
      · rcases List.mem_append.mp hq with h1 | h1
        · exact hexp y hy q h1
        · simp only [List.mem_singleton] at h1; subst h1; exact hp
      · exact hexp y hy q hq
    split
    · refine ⟨hcanon, hwrap, ?_, hmap⟩
      intro q hq
      rcases List.mem_append.mp hq with h1 | h1
      · exact hprops q h1
      · simp only [List.mem_singleton] at h1
        subst h1
        exact Or.inr ⟨rfl, o, ho, rfl, hoown⟩
    · exact ⟨hcanon, hwrap, hprops, hmap⟩

theorem place_msg (fr : Frame) (f : FieldD) (prop : RProp) : (place fr f prop).msg = fr.msg := by
  unfold place
  simp only
  split
  · rfl
  · split <;> rfl

/-- the updates of `enter` link the exposed oneofs of `m` (empty so far) -/
theorem exposeOneofs_links (ds : DescSet) (m : Msg) (hc : Canon ds m) (os : List OneofD)
    (hos : ∀ o ∈ os, o ∈ m.oneofs) (reg : Reg) (i : Nat) (ex : List (Nat × OneofD × List RProp))
    (ops : List RegOp) (h : exposeOneofs m reg i os = .ok (ex, ops)) :
    (∀ reg0, ∀ op ∈ ops, OpLink ds reg0 op) ∧ (∀ op ∈ ops, ∀ p k s, op ≠ .add p k s) ∧
    (∀ x ∈ ex, x.2.2 = []) := by
  induction os generalizing reg i ex ops with
  | nil =>
    simp only [exposeOneofs] at h
    cases h
    exact ⟨(by intro _ op hop; cases hop), (by intro op hop; cases hop), (by intro x hx; cases hx)⟩
  | cons o os ih =>
    have hos' : ∀ o' ∈ os, o' ∈ m.oneofs := fun o' h => hos o' (List.mem_cons_of_mem _ h)
    have ho : o ∈ m.oneofs := hos o (List.mem_cons_self ..)
    unfold exposeOneofs at h
    split at h
    · exact ih hos' reg (i + 1) ex ops h
    · split at h
      · cases h
      · simp only at h
        split at h
        · rename_i ex' ops' hrec
          obtain ⟨h1, h2, h3⟩ := ih hos' _ (i + 1) ex' ops' hrec
          cases h
          refine ⟨?_, ?_, ?_⟩
          · intro reg0 op hop
            rcases List.mem_cons.mp hop with rfl | hop'
            · exact Or.inr ⟨m, o, hc, ho, rfl, rfl, rfl, (by intro p hp; cases hp), List.nodup_nil⟩
            · exact h1 reg0 op hop'
          · intro op hop
            rcases List.mem_cons.mp hop with rfl | hop'
            · intro p k s hh; cases hh
            · exact h2 op hop'
          · intro x hx
            rcases List.mem_cons.mp hx with rfl | hx'
            · rfl
            · exact h3 x hx'
        · cases h
        · cases h

theorem enter_links (ds : DescSet) (m : Msg) (hc : Canon ds m) (reg : Reg) (fr : Frame)
    (ops : List RegOp) (h : enter m reg = .ok (fr, ops)) :
    (∀ reg0, ∀ op ∈ ops, OpLink ds reg0 op) ∧ (∀ op ∈ ops, ∀ p k s, op ≠ .add p k s) ∧
    fr.msg = m ∧ ∀ reg0, FrameLinks ds reg0 fr := by
  unfold enter at h
  split at h
  · rename_i ex ops' hex
    obtain ⟨h1, h2, h3⟩ := exposeOneofs_links ds m hc m.oneofs (fun _ h => h) reg 0 ex ops' hex
    cases h
    refine ⟨h1, h2, rfl, fun reg0 => ⟨hc, rfl, (by intro p hp; cases hp), ?_⟩⟩
    intro x hx p hp
    rw [h3 x hx] at hp
    cases hp
  · cases h
  · cases h

/-! ## the machine keeps the invariant -/

theorem step_links (ds : DescSet) (st : St) (hg : Good ds st) (hk : Links ds st) :
    (∀ st', step ds st = .cont st' → Links ds st') ∧
    (∀ reg, step ds st = .done reg → RegLinks ds reg ∧ AllLinked reg) := by
  obtain ⟨hregOK, hframesOK⟩ := hg
  obtain ⟨hreg, hframes, hpend⟩ := hk
  have hfound : Found st.reg := hregOK.1
  unfold step
  split
  · rename_i hstack
    refine ⟨(by intro _ h; cases h), ?_⟩
    intro reg h
    cases h
    refine ⟨hreg, ?_⟩
    intro e he hn
    obtain ⟨fr, hfr, _⟩ := hpend e he hn
    rw [hstack] at hfr
    cases hfr
  · rename_i fr below hstack
    have hfrOK := hframesOK fr (by simp [hstack])
    have hfrL := hframes fr (by simp [hstack])
    have hbelowL : ∀ fr' ∈ below, FrameLinks ds st.reg fr' := fun fr' h => hframes fr' (by simp [hstack, h])
    split
    · -- the frame is finished
      refine ⟨?_, (by intro reg h; split at h <;> cases h)⟩
      intro st' h
      split at h
      · rename_i ops hfin
        cases h
        have hx := RegExt.applyAll st.reg ops
        refine ⟨hreg.applyAll hfound ops (finish_links ds st.reg fr hfrOK.1 hfrOK.2 hfrL ops hfin),
          fun fr' h' => (hbelowL fr' h').mono hx, ?_⟩
        obtain ⟨pre, root, hops, hpre⟩ := finish_shape fr ops hfin
        intro e he hn
        have hnoadd : ∀ op ∈ ops, ∀ p k s, op ≠ .add p k s := by
          intro op hop p k s hh
          rw [hops] at hop
          rcases List.mem_append.mp hop with h1 | h1
          · obtain ⟨_, _, _, h2⟩ := hpre op h1; rw [h2] at hh; cases hh
          · simp only [List.mem_singleton] at h1; rw [h1] at hh; cases hh
        obtain ⟨e0, he0, hn0, hp0, hk0⟩ := applyAll_none_of hnoadd e he hn
        obtain ⟨fr', hfr', hp', hk'⟩ := hpend e0 he0 hn0
        rw [hstack] at hfr'
        rcases List.mem_cons.mp hfr' with rfl | hb
        · -- the frame's own placeholder: linked by the last update
          exfalso
          rw [hops, applyAll_append] at he
          simp only [Reg.applyAll, List.foldl_cons, List.foldl_nil] at he
          have := apply_set_linked _ _ _ root e he (by rw [← hp0, hp']) (by rw [← hk0, hk'])
          rw [hn] at this
          cases this
        · exact ⟨fr', hb, hp'.trans hp0, hk'.trans hk0⟩
      · cases h
      · cases h
    · rename_i f fs hrest
      have hf : f ∈ fr.msg.fields := hfrOK.1.2.1 f (by simp [hrest])
      have hin' : FrameOK ds { fr with rest := fs } := by
        refine ⟨hfrOK.1.1, ?_, hfrOK.1.2.2⟩
        intro g hg
        exact hfrOK.1.2.1 g (by simp [hrest, hg])
      have hown' : FrameOwns st.reg { fr with rest := fs } := hfrOK.2
      have hL' : FrameLinks ds st.reg { fr with rest := fs } := hfrL
      refine ⟨?_, ?_⟩
      · intro st' h
        split at h
        · cases h
        · cases h
        · rename_i prop b hb
          obtain ⟨hpath, _, hdesc⟩ := buildProperty_describes ds st.reg f prop b hb
          obtain ⟨hrefown, hshape⟩ := buildProperty_link ds st.reg f prop b hb
          have hx1 := RegExt.applyAll st.reg b.ops
          have hplink : PropLink ds (st.reg.applyAll b.ops) fr.msg prop :=
            Or.inl ⟨f, hf, hpath, hdesc, hrefown⟩
          have hfound1 : Found (st.reg.applyAll b.ops) := hfound.applyAll _
          have hopl : ∀ op ∈ b.ops, OpLink ds st.reg op := by
            intro op hop
            rcases hshape with ⟨_, hlinks⟩ | ⟨m, full, _, hops, _, _⟩
            · obtain ⟨en, r, hen, rfl, hr⟩ := hlinks op hop
              have : ∃ a b c d, r = RRoot.enum a b c d := by
                cases r <;> simp_all [enumRoot]
              obtain ⟨a, b', c, d, rfl⟩ := this
              exact ⟨srcIsEnum_of_mem ds en hen, en, hen, rfl⟩
            · rw [hops] at hop
              simp only [List.mem_singleton] at hop
              subst hop
              trivial
          have hreg1 : RegLinks ds (st.reg.applyAll b.ops) := hreg.applyAll hfound b.ops hopl
          have hfr1 : FrameLinks ds (st.reg.applyAll b.ops) (place { fr with rest := fs } f prop) :=
            place_links ds _ _ f prop hin' (hown'.applyAll _) (hL'.mono hx1) hplink
          simp only at h
          split at h
          · rename_i hpush
            cases h
            refine ⟨hreg1, ?_, ?_⟩
            · intro fr' hfr''
              rcases List.mem_cons.mp hfr'' with rfl | hb'
              · exact hfr1
              · exact (hbelowL fr' hb').mono hx1
            · intro e he hn
              have hnoadd : ∀ op ∈ b.ops, ∀ p k s, op ≠ .add p k s := by
                intro op hop p k s hh
                rcases hshape with ⟨_, hlinks⟩ | ⟨m, full, hp, _, _, _⟩
                · obtain ⟨_, _, _, h2, _⟩ := hlinks op hop; rw [h2] at hh; cases hh
                · rw [hpush] at hp; cases hp
              obtain ⟨e0, he0, hn0, hp0, hk0⟩ := applyAll_none_of hnoadd e he hn
              obtain ⟨fr', hfr', hp', hk'⟩ := hpend e0 he0 hn0
              rw [hstack] at hfr'
              rcases List.mem_cons.mp hfr' with rfl | hb'
              · exact ⟨_, List.mem_cons_self .., by rw [place_msg]; exact hp'.trans hp0,
                  by rw [place_msg]; exact hk'.trans hk0⟩
              · exact ⟨fr', List.mem_cons_of_mem _ hb', hp'.trans hp0, hk'.trans hk0⟩
          · rename_i m hpush
            rcases hshape with ⟨hp, _⟩ | ⟨m', full, hp, hops, hm', hnone⟩
            · rw [hpush] at hp; cases hp
            · rw [hpush] at hp
              cases hp
              obtain ⟨_, hcanon⟩ := canon_of_find hm'
              split at h
              · rename_i child ops hchild
                cases h
                obtain ⟨hol, hnoadd, hcm, hcl⟩ := enter_links ds m hcanon _ child ops hchild
                have hx2 := RegExt.applyAll (st.reg.applyAll b.ops) ops
                refine ⟨hreg1.applyAll hfound1 ops (hol _), ?_, ?_⟩
                · intro fr' hfr''
                  rcases List.mem_cons.mp hfr'' with rfl | hb'
                  · exact hcl _
                  · rcases List.mem_cons.mp hb' with rfl | hb''
                    · exact hfr1.mono hx2
                    · exact ((hbelowL fr' hb'').mono hx1).mono hx2
                · intro e he hn
                  obtain ⟨e1, he1, hn1, hp1, hk1⟩ := applyAll_none_of hnoadd e he hn
                  -- e1 is in reg.apply (.add m…): an old unlinked entry or the new placeholder
                  rw [hops] at he1
                  simp only [Reg.applyAll, List.foldl_cons, List.foldl_nil, Reg.apply] at he1
                  have hhas : st.reg.has m.pkg m.split = false := by simp [Reg.has, hnone]
                  simp only [hhas, Bool.false_eq_true, ↓reduceIte] at he1
                  rcases List.mem_append.mp he1 with he1' | he1'
                  · obtain ⟨fr', hfr', hp', hk'⟩ := hpend e1 he1' hn1
                    rw [hstack] at hfr'
                    rcases List.mem_cons.mp hfr' with rfl | hb'
                    · exact ⟨_, List.mem_cons_of_mem _ (List.mem_cons_self ..),
                        by rw [place_msg]; exact hp'.trans hp1, by rw [place_msg]; exact hk'.trans hk1⟩
                    · exact ⟨fr', List.mem_cons_of_mem _ (List.mem_cons_of_mem _ hb'), hp'.trans hp1,
                        hk'.trans hk1⟩
                  · simp only [List.mem_singleton] at he1'
                    subst he1'
                    exact ⟨child, List.mem_cons_self .., by rw [hcm]; exact hp1, by rw [hcm]; exact hk1⟩
              · cases h
              · cases h
      · intro reg h
        split at h
        · cases h
        · cases h
        · simp only at h
          split at h
          · cases h
          · split at h <;> cases h

theorem run_links (ds : DescSet) (hl : linkedBase ds = true) (st : St) :
    Good ds st → Links ds st → ∀ reg, run ds st = .ok reg → RegLinks ds reg ∧ AllLinked reg := by
  induction st using run.induct ds with
  | case1 x reg h =>
    intro hg hk reg' h'
    rw [run_done ds x reg h] at h'
    cases h'
    exact (step_links ds x hg hk).2 reg h
  | case2 x e h => intro _ _ reg' h'; rw [run_fail ds x e h] at h'; cases h'
  | case3 x w h => intro _ _ reg' h'; rw [run_crash ds x w h] at h'; cases h'
  | case4 x st' h ih =>
    intro hg hk reg' h'
    rw [run_cont ds x st' h] at h'
    exact ih ((step_safe ds hl x hg).2.1 st' h) ((step_links ds x hg hk).1 st' h) reg' h'

/-- the state of a registry between top-level calls -/
def Settled (ds : DescSet) (reg : Reg) : Prop := RegOK ds reg ∧ RegLinks ds reg ∧ AllLinked reg

theorem Settled.nil (ds : DescSet) : Settled ds [] :=
  ⟨RegOK.nil ds, (by intro e he; cases he), (by intro e he; cases he)⟩

theorem buildMessage_settled (ds : DescSet) (hl : linkedBase ds = true) (reg : Reg) (m : Msg)
    (hc : Canon ds m) (hs : Settled ds reg) (hnone : reg.find m.pkg m.split = none) (reg' : Reg)
    (h : buildMessage ds reg m = .ok reg') : Settled ds reg' := by
  obtain ⟨hregOK, hlinks, hall⟩ := hs
  have hm := hc.mem
  have hok := (buildMessage_safe ds hl reg m hm hregOK hnone).2 reg' h
  refine ⟨hok, ?_⟩
  unfold buildMessage at h
  simp only at h
  have hk := (linked_names ds hl m hm).1
  have hreg1 : RegOK ds (reg.apply (.add m.pkg m.split m.full)) := hregOK.apply _ hk
  have hown := Owns.add_new reg m.pkg m.split m.full hnone
  split at h
  · rename_i fr ops hen
    obtain ⟨hsafe, hfr, hfo⟩ := (enter_spec ds m hm hl (reg.apply (.add m.pkg m.split m.full)) hown).2 fr ops hen
    obtain ⟨hol, hnoadd, hcm, hcl⟩ := enter_links ds m hc _ fr ops hen
    have hgood : Good ds ⟨(reg.apply (.add m.pkg m.split m.full)).applyAll ops, [fr]⟩ := by
      refine ⟨hreg1.applyAll ops (opsSafe_of_free ds _ _ hsafe), ?_⟩
      intro fr' h'
      simp only [List.mem_singleton] at h'
      subst h'
      exact ⟨hfr, hfo⟩
    have hlinks1 : RegLinks ds (reg.apply (.add m.pkg m.split m.full)) :=
      hlinks.apply hregOK.1 _ trivial
    apply run_links ds hl _ hgood _ reg' h
    refine ⟨hlinks1.applyAll hreg1.1 ops (hol _), ?_, ?_⟩
    · intro fr' h'
      simp only [List.mem_singleton] at h'
      subst h'
      exact hcl _
    · intro e he hn
      obtain ⟨e1, he1, hn1, hp1, hk1⟩ := applyAll_none_of hnoadd e he hn
      simp only [Reg.apply] at he1
      have hhas : reg.has m.pkg m.split = false := by simp [Reg.has, hnone]
      simp only [hhas, Bool.false_eq_true, ↓reduceIte] at he1
      rcases List.mem_append.mp he1 with he1' | he1'
      · exact absurd hn1 (hall e1 he1')
      · simp only [List.mem_singleton] at he1'
        subst he1'
        exact ⟨fr, List.mem_singleton.mpr rfl, by rw [hcm]; exact hp1, by rw [hcm]; exact hk1⟩
  · cases h
  · cases h

theorem messageSchema_settled (ds : DescSet) (hl : linkedBase ds = true) (reg : Reg) (m : Msg)
    (hc : Canon ds m) (hs : Settled ds reg) (reg' : Reg) (h : messageSchema ds reg m = .ok reg') :
    Settled ds reg' := by
  unfold messageSchema at h
  split at h
  · split at h
    · cases h
    · split at h
      · cases h; exact hs
      · cases h
  · rename_i hnone
    exact buildMessage_settled ds hl reg m hc hs hnone reg' h

theorem messagesLoop_settled (ds : DescSet) (hl : linkedBase ds = true) (names : List String)
    (reg : Reg) (hs : Settled ds reg) (reg' : Reg) (h : messagesLoop ds reg names = .ok reg') :
    Settled ds reg' := by
  induction names generalizing reg with
  | nil => simp only [messagesLoop] at h; cases h; exact hs
  | cons full rest ih =>
    unfold messagesLoop at h
    split at h
    · cases h
    · rename_i m hm
      split at h
      · rename_i reg1 hms
        exact ih reg1 (messageSchema_settled ds hl reg m (canon_of_find hm).2 hs reg1 hms) h
      · cases h
      · cases h

/-! ## a flattened reference resolves to the object built from the field's target -/

/-- in a settled registry, a name registered for message `m'` (not a oneof wrapper) holds the
object schema built from `m'` -/
theorem objRef_resolves (ds : DescSet) (hl : linked ds = true) (reg : Reg) (hs : Settled ds reg)
    (ref : Ref) (m' : Msg) (hm' : Canon ds m') (hw : isOneofWrapper m' = false)
    (hown : Owns reg ref.pkg ref.schema m'.full) :
    ∃ e p k en am ps, reg.find ref.pkg ref.schema = some e ∧ e.to = some (.object p k en am ps) ∧
      e.src = m'.full ∧ ref.pkg = m'.pkg ∧ ref.schema = m'.split ∧
      (∀ prop ∈ ps, PropLink ds reg m' prop) ∧ (ps.map (·.json)).Nodup := by
  obtain ⟨hregOK, hlinks, hall⟩ := hs
  obtain ⟨e, hfind, hsrc⟩ := hown
  have he := mem_of_find reg _ _ e hfind
  obtain ⟨hep, hek⟩ := Reg.find_pred reg _ _ e hfind
  cases hto : e.to with
  | none => exact absurd hto (hall e he)
  | some root =>
    have hroot := hlinks e he root hto
    rw [hsrc] at hroot
    cases root with
    | enum _ _ _ _ =>
      have := (linked_names ds (linked_base hl) m' hm'.mem).1
      have h1 := hroot.1
      rw [this] at h1
      cases h1
    | object p k en am ps =>
      obtain ⟨m, hc, hfull, _, hp, hk, hprops, hnd⟩ := hroot
      have hmm : m = m' := by
        unfold Canon at hc hm'
        rw [← hfull] at hc
        rw [hm'] at hc
        cases hc
        rfl
      subst hmm
      exact ⟨e, p, k, en, am, ps, hfind, hto, hsrc, (by rw [← hep]; exact hp), (by rw [← hek]; exact hk),
        hprops, hnd⟩
    | oneof p k ps =>
      exfalso
      rcases hroot with ⟨m, hc, hfull, hwm, _⟩ | ⟨m, o, hc, ho, hfull, _⟩
      · have hmm : m = m' := by
          unfold Canon at hc hm'
          rw [← hfull] at hc
          rw [hm'] at hc
          cases hc
          rfl
        subst hmm
        rw [hw] at hwm
        cases hwm
      · have := linked_oneofName hl m hc.mem o ho
        rw [← hfull] at this
        unfold Canon at hm'
        rw [hm'] at this
        cases this

/-- what `describes` says about an object field schema at the top of a property -/
theorem describes_object {ds : DescSet} {f : FieldD} {ref : Ref} {fl : Bool}
    (h : describes ds f (.object ref fl) = true) :
    f.card = .single ∧ f.kind = .message ∧ ∃ m', ds.msg? (targetFull f.target) = some m' ∧
      ref = ⟨m'.pkg, m'.split⟩ ∧ isOneofWrapper m' = false ∧ itemTarget f = f.target := by
  unfold describes at h
  cases hc : f.card with
  | list => simp [hc] at h
  | map => simp [hc] at h
  | single =>
    simp only [hc, describesItem, Bool.and_eq_true, beq_iff_eq] at h
    obtain ⟨hk, ht⟩ := h
    refine ⟨rfl, hk, ?_⟩
    cases htg : f.target with
    | none => simp [htg] at ht
    | enum a b c => simp [htg] at ht
    | msg full p k =>
      simp only [htg] at ht
      cases hm : ds.msg? full with
      | none => simp [hm] at ht
      | some m' =>
        simp only [hm, Bool.and_eq_true, beq_iff_eq, Bool.not_eq_eq_eq_not, Bool.not_true] at ht
        exact ⟨m', by simp [targetFull, hm], ht.1, ht.2, by simp [itemTarget, hc, htg]⟩

/-- the flattened fields of a registered object resolve (what `clientProps` needs not to panic) -/
def FlatOK (reg : Reg) : Prop :=
  ∀ e ∈ reg, ∀ p k en am ps, e.to = some (.object p k en am ps) → ∀ prop ∈ ps, ∀ ref,
    prop.schema = .object ref true →
      ∃ e' p' k' en' am' ps', reg.find ref.pkg ref.schema = some e' ∧
        e'.to = some (.object p' k' en' am' ps')

theorem flatOK_of_settled (ds : DescSet) (hl : linked ds = true) (reg : Reg) (hs : Settled ds reg) :
    FlatOK reg := by
  intro e he p k en am ps hto prop hprop ref hschema
  obtain ⟨m, hc, _, _, _, _, hprops, _⟩ := hs.2.1 e he _ hto
  rcases hprops prop hprop with ⟨f, _, _, hd, hr⟩ | ⟨_, o, _, hso, _⟩
  · rw [hschema] at hd hr
    obtain ⟨_, _, m', hm', href, hw, hit⟩ := describes_object hd
    obtain ⟨hfull, hcanon⟩ := canon_of_find hm'
    have hown := hr ref rfl
    rw [hit, ← hfull] at hown
    obtain ⟨e', p', k', en', am', ps', h1, h2, _⟩ := objRef_resolves ds hl reg hs ref m' hcanon hw hown
    exact ⟨e', p', k', en', am', ps', h1, h2⟩
  · rw [hschema] at hso
    cases hso

/-! ## `ClientProperties` and the client-name check never panic on a settled registry -/

theorem clientProps_noPanic (reg : Reg) (hf : FlatOK reg) (fl : List Ref) (props : List RProp) :
    (∃ e ∈ reg, ∃ p k en am ps, e.to = some (.object p k en am ps) ∧ ∀ prop ∈ props, prop ∈ ps) →
    ∀ w, clientProps reg fl props ≠ .panic w := by
  induction fl, props using clientProps.induct reg with
  | case1 fl => intro _ w; simp [clientProps]
  | case2 fl prop rest ih1 ih2 =>
    intro hp w
    obtain ⟨e, he, p, k, en, am, ps, hto, hsub⟩ := hp
    have ih2' := ih2 ⟨e, he, p, k, en, am, ps, hto, fun q hq => hsub q (List.mem_cons_of_mem _ hq)⟩
    have hflat := hf e he p k en am ps hto prop (hsub prop (List.mem_cons_self ..))
    rw [clientProps]
    apply bind_noPanic
    · -- the property itself
      split
      · rename_i ref hsch
        split
        · simp
        · rename_i hs
          obtain ⟨e', p', k', en', am', ps', h1, h2⟩ := hflat ref hsch
          split
          · rename_i hnone; rw [h1] at hnone; cases hnone
          · rename_i e2 hf2
            have he2 : e2 = e' := by rw [h1] at hf2; cases hf2; rfl
            subst he2
            split
            · rename_i p2 k2 en2 am2 ps2 hto2
              exact map_noPanic (ih1 ref hs e2 hf2 ps2
                ⟨e2, mem_of_find reg _ _ e2 hf2, p2, k2, en2, am2, ps2, hto2, fun _ h => h⟩)
            · rename_i r hno hto2
              rw [h2] at hto2
              cases hto2
              exact absurd rfl (hno _ _ _ _ _)
            · rename_i hto2
              rw [h2] at hto2
              cases hto2
      · simp
    · intro a _
      exact map_noPanic ih2'

theorem clientNamesOK_noPanic (reg : Reg) (hf : FlatOK reg) (e : REntry) (he : e ∈ reg) :
    ∀ w, clientNamesOK reg e ≠ .panic w := by
  unfold clientNamesOK
  split
  · rename_i p k en am ps hto
    apply bind_noPanic (clientProps_noPanic reg hf _ ps ⟨e, he, p, k, en, am, ps, hto, fun _ h => h⟩)
    intro a _ w
    split <;> simp
  · simp

theorem clientNamesAll_noPanic (reg : Reg) (hf : FlatOK reg) (es : List REntry)
    (hes : ∀ e ∈ es, e ∈ reg) : ∀ w, clientNamesAll reg es ≠ .panic w := by
  induction es with
  | nil => intro w; simp [clientNamesAll]
  | cons e es ih =>
    unfold clientNamesAll
    apply bind_noPanic (clientNamesOK_noPanic reg hf e (hes e (List.mem_cons_self ..)))
    intro _ _
    exact ih (fun e' h => hes e' (List.mem_cons_of_mem _ h))

/-! ## the entry points -/

theorem enumsLoop_settled (ds : DescSet) (names : List String) (reg : Reg) (hs : Settled ds reg)
    (reg' : Reg) (h : enumsLoop ds reg names = .ok reg') : RegLinks ds reg' ∧ AllLinked reg' := by
  induction names generalizing reg with
  | nil => simp only [enumsLoop] at h; cases h; exact hs.2
  | cons full rest ih =>
    unfold enumsLoop at h
    split at h
    · cases h
    · rename_i en hen
      split at h
      · split at h
        · cases h
        · exact ih reg hs h
      · rename_i hnone
        split at h
        · rename_i r hb
          apply ih _ _ h
          obtain ⟨hregOK, hlinks, hall⟩ := hs
          have hr : ∃ a b c d, r = RRoot.enum a b c d := by
            have := buildEnum_enumRoot en r hb
            cases r <;> simp_all [enumRoot]
          obtain ⟨a, b, c, d, rfl⟩ := hr
          refine ⟨hregOK.apply _ (Or.inr rfl), hlinks.apply hregOK.1 _ ⟨srcIsEnum_of_mem ds en (enum?_mem ds full en hen), en, enum?_mem ds full en hen, rfl⟩, ?_⟩
          intro e he hn
          obtain ⟨e0, he0, hn0, _, _⟩ := apply_none_of (by intro p k s hh; cases hh) e he hn
          exact hall e0 he0 hn0
        · cases h
        · cases h

/-- **`SchemaSetFromFiles` never panics**, and a result is a settled registry -/
theorem schemaSetFromFiles_safe (ds : DescSet) (hl : linked ds = true) :
    (∀ w, schemaSetFromFiles ds ≠ .panic w) ∧
    (∀ reg, schemaSetFromFiles ds = .ok reg → Settled ds reg) := by
  have hb := linked_base hl
  have hl' := hb
  unfold linkedBase at hl'
  simp only [Bool.and_eq_true, List.all_eq_true] at hl'
  have htop := hl'.1.1.1.1.2
  have htopE := hl'.1.1.2
  obtain ⟨hnp, hok⟩ := messagesLoop_safe ds hb ds.topMsgs htop [] (RegOK.nil ds)
  unfold schemaSetFromFiles
  split
  · rename_i reg hm
    have hs := messagesLoop_settled ds hb ds.topMsgs [] (Settled.nil ds) reg hm
    obtain ⟨h1, h2⟩ := enumsLoop_safe ds ds.topEnums htopE reg hs.1
    refine ⟨h1, ?_⟩
    intro reg' h'
    obtain ⟨h3, h4⟩ := enumsLoop_settled ds ds.topEnums reg hs reg' h'
    exact ⟨h2 reg' h', h3, h4⟩
  · exact ⟨by simp, by intro _ h; cases h⟩
  · rename_i w hm
    exact absurd hm (hnp w)

/-- **`SchemaCache.Schema` never panics** and keeps the cache settled (a failed build is rolled
back) -/
theorem cacheSchema_safe (ds : DescSet) (hl : linked ds = true) (reg : Reg) (m : Msg)
    (hc : Canon ds m) (hs : Settled ds reg) :
    (∀ w, (cacheSchema ds reg m).1 ≠ .panic w) ∧ Settled ds (cacheSchema ds reg m).2 := by
  have hb := linked_base hl
  obtain ⟨hnp, _⟩ := messageSchema_safe ds hb reg m hc.mem hs.1
  unfold cacheSchema
  split
  · rename_i reg' h
    exact ⟨by simp, messageSchema_settled ds hb reg m hc hs reg' h⟩
  · exact ⟨by simp, hs⟩
  · rename_i w h
    exact absurd h (hnp w)

/-! ## fuel-bounded evaluation of the entry point (for `decide`-able witnesses) -/

def schemaSetFromFilesN (ds : DescSet) (n : Nat) : Option (Outcome Reg) :=
  match messagesLoopN ds n [] ds.topMsgs with
  | some (.ok reg) => some (enumsLoop ds reg ds.topEnums)
  | some (.err x) => some (.err x)
  | some (.panic w) => some (.panic w)
  | none => none

theorem schemaSetFromFilesN_sound (ds : DescSet) (n : Nat) (r : Outcome Reg)
    (h : schemaSetFromFilesN ds n = some r) : schemaSetFromFiles ds = r := by
  unfold schemaSetFromFilesN at h
  unfold schemaSetFromFiles
  split at h
  · rename_i reg hs; rw [messagesLoopN_sound ds n _ _ _ hs]; cases h; rfl
  · rename_i x hs; rw [messagesLoopN_sound ds n _ _ _ hs]; cases h; rfl
  · rename_i w hs; rw [messagesLoopN_sound ds n _ _ _ hs]; cases h; rfl
  · cases h

end J5V.Schema.Reader
