import J5V.Schema.Wire
import J5V.Schema.Reader
/-!
# Line-protocol plumbing of the Reader model (driver only)

Parser of the descriptor summary and printer of the reflected shape; grammar in
/verif/harness/PROTOCOL-schema.md.
-/
namespace J5V.Schema.ReaderWire
open J5V.Go J5V.Schema J5V.Schema.Wire J5V.Schema.Reader

def kindOf : String → Option PKind
  | "bool" => some .bool | "int32" => some .int32 | "sint32" => some .sint32
  | "uint32" => some .uint32 | "int64" => some .int64 | "sint64" => some .sint64
  | "uint64" => some .uint64 | "fixed32" => some .fixed32 | "fixed64" => some .fixed64
  | "sfixed32" => some .sfixed32 | "sfixed64" => some .sfixed64 | "float" => some .float
  | "double" => some .double | "string" => some .string | "bytes" => some .bytes
  | "message" => some .message | "enum" => some .enum | "group" => some .group
  | _ => none

def pKind : P PKind
  | x :: rest => (kindOf x).map fun k => (k, rest)
  | [] => none

def pOptBool : P (Option Bool)
  | "~" :: rest => some (none, rest)
  | "0" :: rest => some (some false, rest)
  | "1" :: rest => some (some true, rest)
  | _ => none

def pOptNat : P (Option Nat)
  | "~" :: rest => some (none, rest)
  | x :: rest => x.toNat?.map fun n => (some n, rest)
  | [] => none

def pOptInt : P (Option Int)
  | "~" :: rest => some (none, rest)
  | x :: rest => x.toInt?.map fun n => (some n, rest)
  | [] => none

mutual
partial def pValidate : P (Option Validate) := fun ts =>
  match ts with
  | "~" :: rest => some (none, rest)
  | _ => do
    let (_, ts) ← tok "(" ts
    let (req, ts) ← pOptBool ts
    let (ig, ts) ← pOptNat ts
    let (ty, ts) ← pVType ts
    let (_, ts) ← tok ")" ts
    pure (some (.mk req ig ty), ts)
partial def pVType : P VType := fun ts =>
  match ts with
  | "none" :: rest => some (.none, rest)
  | _ => do
    let (_, ts) ← tok "(" ts
    let (c, ts) ← anyTok ts
    match c with
    | "string" =>
      let (wk, ts) ← anyTok ts
      let (wb, ts) ← pBool ts
      let (pat, ts) ← anyTok ts
      let (_, ts) ← tok ")" ts
      pure (.string wk wb pat, ts)
    | "bool" =>
      let (b, ts) ← pBool ts
      let (_, ts) ← tok ")" ts
      pure (.bool b, ts)
    | "bytes" => let (_, ts) ← tok ")" ts; pure (.bytes, ts)
    | "enum" =>
      let (a, ts) ← pList pInt ts
      let (b, ts) ← pList pInt ts
      let (_, ts) ← tok ")" ts
      pure (.enum a b, ts)
    | "repeated" =>
      let (n, ts) ← pNat ts
      let (v, ts) ← pValidate ts
      let (_, ts) ← tok ")" ts
      pure (.repeated n v, ts)
    | "map" =>
      let (v, ts) ← pValidate ts
      let (_, ts) ← tok ")" ts
      pure (.map v, ts)
    | "timestamp" =>
      let (a, ts) ← pBool ts
      let (b, ts) ← pBool ts
      let (_, ts) ← tok ")" ts
      pure (.timestamp a b, ts)
    | "duration" => let (_, ts) ← tok ")" ts; pure (.duration, ts)
    | "any" => let (_, ts) ← tok ")" ts; pure (.any, ts)
    | "other" => let (_, ts) ← tok ")" ts; pure (.other, ts)
    | num =>
      let (a, ts) ← pBool ts
      let (b, ts) ← pBool ts
      let (c, ts) ← pBool ts
      let (_, ts) ← tok ")" ts
      pure (.num num a b c, ts)
end

def pListSum : P (Option ListSum) := fun ts =>
  match ts with
  | "~" :: rest => some (none, rest)
  | _ => do
    let (_, ts) ← tok "(" ts
    let (c, ts) ← anyTok ts
    let (sw, ts) ← anyTok ts
    let (fk, ts) ← anyTok ts
    let (_, ts) ← tok ")" ts
    pure (some ⟨c, sw, fk⟩, ts)

def pJ5 : P (Option J5Sum) := fun ts =>
  match ts with
  | "~" :: rest => some (none, rest)
  | _ => do
    let (_, ts) ← tok "(" ts
    let (c, ts) ← anyTok ts
    let (fl, ts) ← pBool ts
    let (kt, ts) ← anyTok ts
    let (kf, ts) ← pInt ts
    let (_, ts) ← tok ")" ts
    pure (some ⟨c, fl, kt, kf⟩, ts)

def pKeySum : P (Option KeySum) := fun ts =>
  match ts with
  | "~" :: rest => some (none, rest)
  | _ => do
    let (_, ts) ← tok "(" ts
    let (a, ts) ← pBool ts
    let (b, ts) ← pBool ts
    let (_, ts) ← tok ")" ts
    pure (some ⟨a, b⟩, ts)

def pTarget : P Target := fun ts =>
  match ts with
  | "-" :: rest => some (.none, rest)
  | _ => do
    let (_, ts) ← tok "(" ts
    let (c, ts) ← anyTok ts
    let (full, ts) ← pStr ts
    let (p, ts) ← pStr ts
    let (s, ts) ← pStr ts
    let (_, ts) ← tok ")" ts
    match c with
    | "m" => pure (.msg full p s, ts)
    | "e" => pure (.enum full p s, ts)
    | _ => none

def pCard : P Card
  | "single" :: rest => some (.single, rest)
  | "list" :: rest => some (.list, rest)
  | "map" :: rest => some (.map, rest)
  | _ => none

def pField : P FieldD := fun ts => do
  let (_, ts) ← tok "(" ts
  let (name, ts) ← pStr ts
  let (json, ts) ← pStr ts
  let (num, ts) ← pInt ts
  let (kind, ts) ← pKind ts
  let (card, ts) ← pCard ts
  let (oi, ts) ← pInt ts
  let (target, ts) ← pTarget ts
  let (okw, ts) ← pBool ts
  let (v, ts) ← pValidate ts
  let (l, ts) ← pListSum ts
  let (j, ts) ← pJ5 ts
  let (k, ts) ← pKeySum ts
  if card == .map then
    let (mk, ts) ← pKind ts
    let (_, ts) ← tok "(" ts
    let (vk, ts) ← pKind ts
    let (vt, ts) ← pTarget ts
    let (vkey, ts) ← pKeySum ts
    let (_, ts) ← tok ")" ts
    let (_, ts) ← tok ")" ts
    pure (⟨name, json, num, kind, card, oi, target, okw, v, l, j, k, some mk, some (vk, vt, vkey)⟩, ts)
  else
    let (_, ts) ← tok ")" ts
    pure (⟨name, json, num, kind, card, oi, target, okw, v, l, j, k, none, none⟩, ts)

def pOneof : P OneofD := fun ts => do
  let (_, ts) ← tok "(" ts
  let (n, ts) ← pStr ts
  let (s, ts) ← pStr ts
  let (j, ts) ← pStr ts
  let (syn, ts) ← pBool ts
  let (ext, ts) ← anyTok ts
  let (_, ts) ← tok ")" ts
  pure (⟨n, s, j, syn, ext⟩, ts)

def pPsm : P (Option PsmSum) := fun ts =>
  match ts with
  | "~" :: rest => some (none, rest)
  | _ => do
    let (_, ts) ← tok "(" ts
    let (n, ts) ← pStr ts
    let (part, ts) ← pOptInt ts
    let (_, ts) ← tok ")" ts
    pure (some ⟨n, part⟩, ts)

def pMOpt : P (Option MOpt) := fun ts =>
  match ts with
  | "~" :: rest => some (none, rest)
  | _ => do
    let (_, ts) ← tok "(" ts
    let (w, ts) ← pBool ts
    let (tc, ts) ← anyTok ts
    let (am, ts) ← pList pStr ts
    let (_, ts) ← tok ")" ts
    pure (some ⟨w, tc, am⟩, ts)

def pEnumD (pkg : String) : P EnumD := fun ts => do
  let (_, ts) ← tok "(" ts
  let (full, ts) ← pStr ts
  let (name, ts) ← pStr ts
  let (split, ts) ← pStr ts
  let (nd, ts) ← pBool ts
  let (vals, ts) ← pList (fun ts => do
    let (_, ts) ← tok "(" ts
    let (n, ts) ← pStr ts
    let (i, ts) ← pInt ts
    let (_, ts) ← tok ")" ts
    pure ((n, i), ts)) ts
  let (_, ts) ← tok ")" ts
  pure (⟨full, pkg, name, split, nd, vals⟩, ts)

/-- a message with everything nested in it, flattened in declaration (pre-) order -/
partial def pMsgTree (pkg : String) : P (List Msg × List EnumD) := fun ts => do
  let (_, ts) ← tok "(" ts
  let (full, ts) ← pStr ts
  let (name, ts) ← pStr ts
  let (split, ts) ← pStr ts
  let (mopt, ts) ← pMOpt ts
  let (psm, ts) ← pPsm ts
  let (lk, ts) ← anyTok ts
  let (legacy, ts) ← pPsm ts
  let (oneofs, ts) ← pList pOneof ts
  let (fields, ts) ← pList pField ts
  let (nested, ts) ← pList (pMsgTree pkg) ts
  let (enums, ts) ← pList (pEnumD pkg) ts
  let (_, ts) ← tok ")" ts
  let m : Msg := ⟨full, pkg, name, split, mopt, psm, lk, legacy, oneofs, fields⟩
  pure ((m :: nested.flatMap (·.1), enums ++ nested.flatMap (·.2)), ts)

structure FileSum where
  pkg : String
  trees : List (List Msg × List EnumD)
  enums : List EnumD

def pFile : P FileSum := fun ts => do
  let (_, ts) ← tok "(" ts
  let (pkg, ts) ← pStr ts
  let (trees, ts) ← pList (pMsgTree pkg) ts
  let (enums, ts) ← pList (pEnumD pkg) ts
  let (_, ts) ← tok ")" ts
  pure (⟨pkg, trees, enums⟩, ts)

def parseSummary (ts : List String) : Option DescSet :=
  match pList pFile ts with
  | some (files, []) =>
    let top := files.flatMap fun f => f.trees.filterMap fun t => t.1.head?.map (·.full)
    let topEnums := files.flatMap fun f => f.enums.map (·.full)
    let msgs := files.flatMap fun f => f.trees.flatMap (·.1)
    -- Go's allEnums order does not matter for the model; keep file enums then nested
    let enums := files.flatMap fun f => f.enums ++ f.trees.flatMap (·.2)
    some ⟨top, topEnums, msgs.map (·.full), msgs, enums⟩
  | _ => none

/-! ## shape printer -/

def prRField : RField → String
  | .scalar tag fmt k w => spaced ["(", "scalar", tagStr tag, toString fmt, toString k, encStr w, ")"]
  | .any => spaced ["(", "any", ")"]
  | .enum r => spaced ["(", "enum", prRef r, ")"]
  | .object r fl => spaced ["(", "object", prRef r, encBool fl, ")"]
  | .oneof r => spaced ["(", "oneof", prRef r, ")"]
  | .map f => spaced ["(", "map", prRField f, ")"]
  | .array f => spaced ["(", "array", prRField f, ")"]

def prRProp (p : RProp) : String :=
  spaced ["(", encStr p.json, encBool p.required, encBool p.optional, prInts p.path,
    prRField p.schema, ")"]

def prRRoot : RRoot → String
  | .object p n entity am props =>
    spaced ["(", "obj", encStr p, encStr n,
      match entity with
      | none => "~"
      | some (e, part) => spaced ["(", encStr e, toString part, ")"],
      prStrs am, prList (props.map prRProp), ")"]
  | .oneof p n props => spaced ["(", "oneof", encStr p, encStr n, prList (props.map prRProp), ")"]
  | .enum p n pfx opts =>
    spaced ["(", "enum", encStr p, encStr n, encStr pfx,
      prList (opts.map fun (o, i) => spaced ["(", encStr o, toString i, ")"]), ")"]

def prShape (reg : Reg) : String :=
  let pkgs := sortBy id (reg.map (·.pkg)).eraseDups
  prList (pkgs.map fun p =>
    let es := sortBy (·.key) (reg.filter (·.pkg == p))
    spaced ["(", encStr p, prList (es.map fun e =>
      spaced ["(", encStr e.key, match e.to with | some r => prRRoot r | none => "nil", ")"]), ")"])

/-- two descriptors of the set (messages, real oneofs, enums) share a schema name -/
def collides (ds : DescSet) : Bool :=
  let keys := ds.msgs.flatMap (fun m =>
      (m.pkg, m.split) :: (m.oneofs.filter (!·.synthetic)).map fun o => (m.pkg, o.split))
    ++ ds.enums.map fun e => (e.pkg, e.split)
  !keys.Nodup

end J5V.Schema.ReaderWire
