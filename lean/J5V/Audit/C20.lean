import J5V.Props.C20
#print axioms J5V.Props.C20.C20_render_no_panic
#print axioms J5V.Props.C20.C20_length
#print axioms J5V.Props.C20.C20_pattern
#print axioms J5V.Props.C20.C20_roundtrip
#print axioms J5V.Props.C20.C20_injective
#print axioms J5V.Props.C20.C20_parse_no_panic
#print axioms J5V.Props.C20.C20_rejects_wide
#print axioms J5V.Props.C20.C20_parse_exact
#print axioms J5V.Props.C20.C20_hash_pure
#print axioms J5V.Props.C20.C20_hash_length
#print axioms J5V.Props.C20.C20_src_pattern
#print axioms J5V.Props.C20.C20_src_bases
#print axioms J5V.Props.C20.C20_src_padding
#print axioms J5V.Props.C20.C20_src_parse_guards
#print axioms J5V.Props.C20.C20_src_hash_closed
#print axioms J5V.Props.C20.C20_src_pattern_shared
