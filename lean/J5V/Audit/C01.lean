import J5V.Props.C01
#print axioms J5V.Props.C01.C01_scalar_roundtrip
#print axioms J5V.Props.C01.C01_base64_inv
#print axioms J5V.Props.C01.C01_int64_quoted_inv
#print axioms J5V.Props.C01.C01_uint64_quoted_inv
#print axioms J5V.Props.C01.C01_date_inv
#print axioms J5V.Props.C01.C01_roundtrip_tree_partial
#print axioms J5V.Props.C01.C01_roundtrip_bytes_partial
#print axioms J5V.Props.C01.C01_roundtrip_partial
#print axioms J5V.Props.C01.C01_encode_succeeds_partial
#print axioms J5V.Props.C01.C01_any_j5_partial
#print axioms J5V.Props.C01.C01_own_output_is_chunk
#print axioms J5V.Props.C01.C01_src_inverse_pair_coverage
#print axioms J5V.Props.C01.C01_src_timestamp_layouts
#print axioms J5V.Props.C01.C01_src_extractor_ok
