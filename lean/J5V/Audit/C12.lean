import J5V.Props.C12
#print axioms J5V.Props.C12.C12_equiv
#print axioms J5V.Props.C12.C12_required_equiv
#print axioms J5V.Props.C12.C12_array_equiv
#print axioms J5V.Props.C12.C12_map_equiv
#print axioms J5V.Props.C12.C12_int_inclusivity
#print axioms J5V.Props.C12.C12_int_out_of_range_rejected
#print axioms J5V.Props.C12.C12_enum_rejected_iff_inadmissible
#print axioms J5V.Props.C12.C12_int_reversed_counterexample
#print axioms J5V.Props.C12.C12_unique_message_counterexample
#print axioms J5V.Props.C12.C12_optional_presence_counterexample
#print axioms J5V.Props.C12.C12_presence_as_declared
#print axioms J5V.Props.C12.C12_equiv_repaired
#print axioms J5V.Props.C12.C12_driver_matcher_ok
