import J5V.Props.C11
#print axioms J5V.Props.C11.C11_render_total
#print axioms J5V.Props.C11.C11_render_one_total
