import J5V.Props.C13
#print axioms J5V.Props.C13.C13_append_field
#print axioms J5V.Props.C13.C13_append_field_ctx
#print axioms J5V.Props.C13.C13_append_field_nested
#print axioms J5V.Props.C13.C13_append_field_numbers
#print axioms J5V.Props.C13.C13_append_option
#print axioms J5V.Props.C13.C13_enum_zero_stable
#print axioms J5V.Props.C13.C13_append_option_seq
#print axioms J5V.Props.C13.C13_append_field_seq
#print axioms J5V.Props.C13.C13_append_decl
#print axioms J5V.Props.C13.C13_append_decl_pkg
#print axioms J5V.Props.C13.C13_append_decl_fresh
#print axioms J5V.Props.C13.C13_append_field_pkg
#print axioms J5V.Props.C13.C13_append_field_method_pkg
#print axioms J5V.Props.C13.C13_append_field_topic_pkg
#print axioms J5V.Props.C13.C13_append_option_pkg
#print axioms J5V.Props.C13.C13_convert_congr
#print axioms J5V.Props.C13.C13_addMessage_prefix
