import J5V.Props.C18
#print axioms J5V.Props.C18.C18_terminates
#print axioms J5V.Props.C18.C18_placeholder_first
#print axioms J5V.Props.C18.C18_names_unique
#print axioms J5V.Props.C18.C18_total
#print axioms J5V.Props.C18.C18_cache_total
#print axioms J5V.Props.C18.C18_collision_is_an_error
#print axioms J5V.Props.C18.C18_unsupported_are_errors
#print axioms J5V.Props.C18.C18_paths_resolve
#print axioms J5V.Props.C18.C18_property_describes_field
#print axioms J5V.Props.C18.C18_reader_formats_importable
#print axioms J5V.Props.C18.C18_flatten_terminates
#print axioms J5V.Props.C18.C18_codec_ok_partial
#print axioms J5V.Props.C18.anyListWitness_reflects
#print axioms J5V.Props.C18.C18_codec_ok_counterexample
#print axioms J5V.Props.C18.C18_src_kind_switches
#print axioms J5V.Props.C18.C18_model_kind_table
