import J5V.Props.C18
#print axioms J5V.Props.C18.C18_terminates
#print axioms J5V.Props.C18.C18_placeholder_first
#print axioms J5V.Props.C18.C18_names_unique
#print axioms J5V.Props.C18.collisionWitness_linked
#print axioms J5V.Props.C18.collisionWitness_panics
#print axioms J5V.Props.C18.C18_total_counterexample
#print axioms J5V.Props.C18.C18_total_partial
#print axioms J5V.Props.C18.C18_cache_total_partial
#print axioms J5V.Props.C18.structWitness_reflects
#print axioms J5V.Props.C18.C18_paths_resolve_counterexample
#print axioms J5V.Props.C18.C18_paths_resolve_partial
#print axioms J5V.Props.C18.C18_property_describes_field
#print axioms J5V.Props.C18.C18_flatten_terminates
#print axioms J5V.Props.C18.C18_codec_ok_partial
#print axioms J5V.Props.C18.C18_src_kind_switches
#print axioms J5V.Props.C18.C18_model_kind_table
