import J5V.Props.C07
#print axioms J5V.Props.C07.C07_convert_no_panic
#print axioms J5V.Props.C07.C07_field_no_panic
#print axioms J5V.Props.C07.C07_convertFile_no_panic
#print axioms J5V.Props.C07.C07_compile_no_panic
#print axioms J5V.Props.C07.C07_uses_imported
#print axioms J5V.Props.C07.C07_uses_imported_pkg
#print axioms J5V.Props.C07.emptyCtx_wf
#print axioms J5V.Props.C07.C07_literal_exact
#print axioms J5V.Props.C07.C07_literal_range_rejected
#print axioms J5V.Props.C07.C07_literal_no_panic
#print axioms J5V.Props.C07.C07_src_setext_types
#print axioms J5V.Props.C07.C07_src_setext_count
#print axioms J5V.Props.C07.C07_src_branch_imports
