import J5V.Props.C17
#print axioms J5V.Props.C17.C17_name_prefix_compat_counterexample
#print axioms J5V.Props.C17.C17_name_prefix_compat_iff
#print axioms J5V.Props.C17.C17_name_routes
#print axioms J5V.Props.C17.C17_components
#print axioms J5V.Props.C17.C17_annotation
#print axioms J5V.Props.C17.C17_state_event_shape
#print axioms J5V.Props.C17.C17_event_oneof
#print axioms J5V.Props.C17.C17_primary_keys
#print axioms J5V.Props.C17.C17_primary_key_required
#print axioms J5V.Props.C17.C17_status_numbering
#print axioms J5V.Props.C17.C17_state_skeleton
#print axioms J5V.Props.C17.C17_event_skeleton
#print axioms J5V.Props.C17.C17_event_oneof_skeleton
#print axioms J5V.Props.C17.C17_src_strcase_calls
#print axioms J5V.Props.C17.C17_src_component_name
#print axioms J5V.Props.C17.C17_src_suffixes
