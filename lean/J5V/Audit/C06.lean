import J5V.Props.C06
#print axioms J5V.Props.C06.C06_decode_no_panic
#print axioms J5V.Props.C06.C06_decode_tree_no_panic
#print axioms J5V.Props.C06.C06_query_no_panic
#print axioms J5V.Props.C06.C06_tokenize_fuel_ok
#print axioms J5V.Props.C06.C06_scalar_no_panic
#print axioms J5V.Props.C06.C06_oneof_post_no_panic
#print axioms J5V.Props.C06.C06_linear_tree
#print axioms J5V.Props.C06.C06_linear
#print axioms J5V.Props.C06.C06_depth_le_size
#print axioms J5V.Props.C06.C06_itemsOk_needed
#print axioms J5V.Props.C06.C06_query_steps
#print axioms J5V.Props.C06.C06_query_linear
#print axioms J5V.Props.C06.C06_src_decode_switch_coverage
#print axioms J5V.Props.C06.C06_src_scalar_kinds_covered
#print axioms J5V.Props.C06.C06_src_any_depth_bound
#print axioms J5V.Props.C06.C06_src_root_and_map_switches
#print axioms J5V.Props.C06.C06_src_extractor_ok
