import J5V.Props.C08
#print axioms J5V.Props.C08.C08_escape_valid
#print axioms J5V.Props.C08.C08_escape_total
#print axioms J5V.Props.C08.C08_integer_forms
#print axioms J5V.Props.C08.C08_float_forms
#print axioms J5V.Props.C08.C08_scalar_conforms
#print axioms J5V.Props.C08.C08_wellformed_partial
#print axioms J5V.Props.C08.C08_parse_is_encoder_tree
#print axioms J5V.Props.C08.C08_chunk_bytes_verbatim
#print axioms J5V.Props.C08.C08_any_j5json_unchecked
#print axioms J5V.Props.C08.C08_conforms_partial
#print axioms J5V.Props.C08.C08_any_shape
#print axioms J5V.Props.C08.C08_src_formats
#print axioms J5V.Props.C08.C08_src_encode_switch_coverage
#print axioms J5V.Props.C08.C08_src_extractor_ok
