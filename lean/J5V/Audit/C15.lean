import J5V.Props.C15
#print axioms J5V.Props.C15.C15_fixpoint_field
#print axioms J5V.Props.C15.C15_fixpoint
#print axioms J5V.Props.C15.C15_import_total
#print axioms J5V.Props.C15.C15_nothing_lost_field
#print axioms J5V.Props.C15.fieldContent_norm
#print axioms J5V.Props.C15.C15_nothing_lost
#print axioms J5V.Props.C15.C15_enum_info_kept
#print axioms J5V.Props.C15.C15_list_rules_kept
