import J5V.Props.C15
#print axioms J5V.Props.C15.C15_fixpoint_field
#print axioms J5V.Props.C15.C15_fixpoint
#print axioms J5V.Props.C15.C15_import_total
#print axioms J5V.Props.C15.C15_nothing_lost_field
#print axioms J5V.Props.C15.fieldContent_norm
#print axioms J5V.Props.C15.C15_nothing_lost
#print axioms J5V.Props.C15.C15_enum_info_kept
#print axioms J5V.Props.C15.C15_list_rules_kept
#print axioms J5V.Props.C15.C15_src_exported_fields_paired
#print axioms J5V.Props.C15.C15_src_importers_copy
#print axioms J5V.Props.C15.C15_src_importers_exist
#print axioms J5V.Props.C15.C15_src_later_reads
#print axioms J5V.Props.C15.C15_src_switch_field
#print axioms J5V.Props.C15.C15_src_switch_root
#print axioms J5V.Props.C15.C15_src_switch_inner
#print axioms J5V.Props.C15.C15_src_field_impls
