import J5V.Props.C07Walker
#print axioms J5V.Props.C07Walker.C07W_src_facts_complete
