import J5V.Props.C07Walker
#print axioms J5V.Props.C07Walker.C07W_src_facts_complete
#print axioms J5V.Props.C07Walker.C07W_src_spec_wf
#print axioms J5V.Props.C07Walker.C07W_walk_no_panic
#print axioms J5V.Props.C07Walker.C07W_parse_walk_no_panic
#print axioms J5V.Props.C07Walker.C07W_parse_types_ok
#print axioms J5V.Props.C07Walker.C07W_walk_counterexample
#print axioms J5V.Props.C07Walker.C07W_error_positions
#print axioms J5V.Props.C07Walker.C07W_j5_root_builds
#print axioms J5V.Props.C07Walker.C07W_parse_error_positions
#print axioms J5V.Props.C07Walker.C07W_parse_body_positions
#print axioms J5V.Props.C07Walker.C07W_walk_ok
#print axioms J5V.Props.C07Walker.C07W_parse_walk_ok
#print axioms J5V.Props.C07Walker.C07W_terminates
#print axioms J5V.Props.C07Walker.C07W_parse_walk_terminates
#print axioms J5V.Props.C07Walker.C07W_parse_walk_total
