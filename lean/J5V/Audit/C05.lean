import J5V.Props.C05
#print axioms J5V.Props.C05.C05_order_irrefl
