import J5V.Props.C14
#print axioms J5V.Props.C14.C14_fold_perm_invariant
#print axioms J5V.Props.C14.C14_fold_idempotent
#print axioms J5V.Props.C14.C14_exports_perm
#print axioms J5V.Props.C14.C14_resolve_perm
#print axioms J5V.Props.C14.C14_ctx_perm
#print axioms J5V.Props.C14.C14_convertFile_perm
