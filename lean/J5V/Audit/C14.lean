import J5V.Props.C14
#print axioms J5V.Props.C14.C14_fold_perm_invariant
#print axioms J5V.Props.C14.C14_fold_idempotent
#print axioms J5V.Props.C14.C14_exports_perm
#print axioms J5V.Props.C14.C14_resolve_perm
#print axioms J5V.Props.C14.C14_ctx_perm
#print axioms J5V.Props.C14.C14_convertFile_perm
#print axioms J5V.Props.C14.C14_perm_files
#print axioms J5V.Props.C14.C14_sorted_files_perm
#print axioms J5V.Props.C14.C14_deps_independent
#print axioms J5V.Props.C14.C14_order_calls
#print axioms J5V.Props.C14.C14_order_calls_pair
#print axioms J5V.Props.C14.C14_load_indep
#print axioms J5V.Props.C14.C14_perm_packages
#print axioms J5V.Props.C14.C14_link_perm_others
#print axioms J5V.Props.C14.C14_src_map_ranges_classified
