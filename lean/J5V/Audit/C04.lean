import J5V.Props.C04
#print axioms J5V.Props.C04.C04_field_roundtrip
#print axioms J5V.Props.C04.C04_reader_total
#print axioms J5V.Props.C04.C04_properties_roundtrip
#print axioms J5V.Props.C04.C04_root_roundtrip
#print axioms J5V.Props.C04.C04_names_order_paths
#print axioms J5V.Props.C04.C04_root_entity_invented_counterexample
#print axioms J5V.Props.C04.C04_norm_int_meaning
#print axioms J5V.Props.C04.C04_reflected_same_meaning
#print axioms J5V.Props.C04.C04_norm_int_idem
#print axioms J5V.Props.C04.C04_string_format_counterexample
#print axioms J5V.Props.C04.C04_full_counterexample
#print axioms J5V.Props.C04.C04_array_key_counterexample
#print axioms J5V.Props.C04.C04_string_id62_pattern_counterexample
#print axioms J5V.Props.C04.C04_custom_id62_key_lr_counterexample
#print axioms J5V.Props.C04.C04_map_value_annotations_counterexample
#print axioms J5V.Props.C04.C04_enum_decl_normal_form
