import J5V.Props.C10
#print axioms J5V.Props.C10.C10_guarded_race_free
#print axioms J5V.Props.C10.C10_no_deadlock
#print axioms J5V.Props.C10.C10_enabled_progress
#print axioms J5V.Props.C10.C10_serialisable_prefix
#print axioms J5V.Props.C10.C10_serialisable
#print axioms J5V.Props.C10.C10_cache_transparent
#print axioms J5V.Props.C10.C10_calls_as_alone
#print axioms J5V.Props.C10.C10_no_unlinked_visible
#print axioms J5V.Props.C10.C10_failed_build_leaves_no_trace
#print axioms J5V.Props.C10.C10_published_frozen
#print axioms J5V.Props.C10.C10_fuel_never_exhausted
#print axioms J5V.Props.C10.C10_code_extracted
#print axioms J5V.Props.C10.C10_code_guarded
#print axioms J5V.Props.C10.C10_code_locksites
#print axioms J5V.Props.C10.C10_code_no_unknown
#print axioms J5V.Props.C10.codeThread_guarded
#print axioms J5V.Props.C10.C10_code_race_free
