import J5V.Props.C09
#print axioms J5V.Props.C09.C09_token_inv_string
#print axioms J5V.Props.C09.C09_token_inv_regex
