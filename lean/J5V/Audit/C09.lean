import J5V.Props.C09
#print axioms J5V.Props.C09.C09_token_inv_string
#print axioms J5V.Props.C09.C09_token_inv_regex
#print axioms J5V.Props.C09.C09_token_inv_ident
#print axioms J5V.Props.C09.C09_token_inv_int
#print axioms J5V.Props.C09.C09_token_inv_decimal
#print axioms J5V.Props.C09.C09_token_inv_comment
#print axioms J5V.Props.C09.C09_token_inv_blockComment
#print axioms J5V.Props.C09.C09_token_inv_description
#print axioms J5V.Props.C09.C09_token_inv_operator
#print axioms J5V.Props.C09.C09_lexed_tokens_wf
#print axioms J5V.Props.C09.C09_token_inv
#print axioms J5V.Props.C09.C09_description_words
#print axioms J5V.Props.C09.C09_description_reflow_stable
#print axioms J5V.Props.C09.C09_src_tokenSource
#print axioms J5V.Props.C09.C09_src_quoteString
#print axioms J5V.Props.C09.C09_src_space_class
#print axioms J5V.Props.C09.C09_src_description
