import J5V.Props.C16
#print axioms J5V.Props.C16.C16_swagger_total
#print axioms J5V.Props.C16.C16_src_field_members
#print axioms J5V.Props.C16.C16_src_arms_known
#print axioms J5V.Props.C16.C16_src_consumer_names
#print axioms J5V.Props.C16.C16_src_producer_names
#print axioms J5V.Props.C16.C16_src_client
#print axioms J5V.Props.C16.C16_src_walk_guards
