import J5V.Props.C02
#print axioms J5V.Props.C02.C02_field_numbering
#print axioms J5V.Props.C02.C02_mapProperties
#print axioms J5V.Props.C02.C02_enum_numbering
#print axioms J5V.Props.C02.C02_enum_numbering_explicit_zero
#print axioms J5V.Props.C02.C02_enum_prefix_default
#print axioms J5V.Props.C02.C02_nested_naming
#print axioms J5V.Props.C02.C02_path_param
#print axioms J5V.Props.C02.C02_path_rewrite
