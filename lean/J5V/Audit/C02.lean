import J5V.Props.C02
#print axioms J5V.Props.C02.C02_field_numbering
#print axioms J5V.Props.C02.C02_mapProperties
#print axioms J5V.Props.C02.C02_enum_numbering
#print axioms J5V.Props.C02.C02_enum_numbering_explicit_zero
#print axioms J5V.Props.C02.C02_enum_prefix_default
#print axioms J5V.Props.C02.C02_nested_naming
#print axioms J5V.Props.C02.C02_path_param
#print axioms J5V.Props.C02.C02_path_rewrite
#print axioms J5V.Props.C02.C02_service_shape
#print axioms J5V.Props.C02.C02_service_messages
#print axioms J5V.Props.C02.C02_subpackage_file
#print axioms J5V.Props.C02.C02_topic_shape
#print axioms J5V.Props.C02.C02_topic_roles
#print axioms J5V.Props.C02.C02_src_import_consts
#print axioms J5V.Props.C02.C02_src_implicit_imports
#print axioms J5V.Props.C02.C02_src_suffixes
