import J5V.Props.C19
#print axioms J5V.Props.C19.C19_frag_ranges_wf
#print axioms J5V.Props.C19.C19_never_panics
#print axioms J5V.Props.C19.C19_no_panic
#print axioms J5V.Props.C19.C19_wellformed
#print axioms J5V.Props.C19.C19_fmtDiffs_wellformed
#print axioms J5V.Props.C19.C19_trailing_blank
#print axioms J5V.Props.C19.C19_apply_eq_fmt
#print axioms J5V.Props.C19.C19_apply_eq_fmt_partial
#print axioms J5V.Props.C19.C19_fmtDiffs_apply
#print axioms J5V.Props.C19.C19_apply_document
#print axioms J5V.Props.C19.trailingBlankB_sound
#print axioms J5V.Props.C19.C19_src_fmtDiffs_conds
#print axioms J5V.Props.C19.C19_src_newline_class
#print axioms J5V.Props.C19.C19_src_rangeLines
