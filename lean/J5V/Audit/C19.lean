import J5V.Props.C19
#print axioms J5V.Props.C19.C19_no_panic_partial
#print axioms J5V.Props.C19.C19_wellformed_partial
#print axioms J5V.Props.C19.C19_fmtDiffs_wellformed
#print axioms J5V.Props.C19.fragRangesOK_sound
