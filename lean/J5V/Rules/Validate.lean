import J5V.Rules.Types
/-!
# Semantics of the protovalidate subset the compiler emits (`pvField`)

Transcribed from protovalidate-go v0.9.2 (`field.go`: required / ignore-empty / evaluate) and the
CEL expressions of the standard rules in `buf/validate/validate.proto` (quoted below). CEL
evaluation itself and RE2 are trusted: the pattern matcher is a parameter (`Matcher`).
-/
namespace J5V.Rules

/-- `this.matches(pattern)` (RE2 search semantics) as a parameter. -/
structure Matcher where
  run : String → List Char → Bool

def isHexChar (c : Char) : Bool :=
  (c.toNat ≥ 48 && c.toNat ≤ 57) || (c.toNat ≥ 97 && c.toNat ≤ 102) || (c.toNat ≥ 65 && c.toNat ≤ 70)

def isAlnumChar (c : Char) : Bool :=
  (c.toNat ≥ 48 && c.toNat ≤ 57) || (c.toNat ≥ 97 && c.toNat ≤ 122) || (c.toNat ≥ 65 && c.toNat ≤ 90)

/-- `^[0-9A-Za-z]{22}$` -/
def id62Shape (s : List Char) : Bool := s.length == 22 && s.all isAlnumChar

def uuidShapeAux : Nat → List Char → Bool
  | _, [] => true
  | i, c :: rest =>
    (if i == 8 || i == 13 || i == 18 || i == 23 then c == '-' else isHexChar c) && uuidShapeAux (i + 1) rest

/-- `string.uuid` + `string.uuid_empty`:
`this.matches('^[0-9a-fA-F]{8}-[0-9a-fA-F]{4}-[0-9a-fA-F]{4}-[0-9a-fA-F]{4}-[0-9a-fA-F]{12}$')`, empty rejected -/
def uuidShape (s : List Char) : Bool := s.length == 36 && uuidShapeAux 0 s

def optAll {α} (o : Option α) (p : α → Bool) : Bool :=
  match o with
  | none => true
  | some a => p a

/-- `string.min_len`: `uint(this.size()) < rules.min_len` (code points), `max_len`, `pattern`, `uuid` -/
def evalString (M : Matcher) (c : StringC) (s : List Char) : Bool :=
  optAll c.minLen (fun n => decide (n ≤ s.length)) &&
  optAll c.maxLen (fun n => decide (s.length ≤ n)) &&
  optAll c.pattern (fun p => M.run p s) &&
  (!c.uuid || uuidShape s)

/-- The eight `int.g*_l*` / `*_exclusive` rules plus the four single-bound rules. When the upper
bound is strictly below the lower bound protovalidate means "outside the range". -/
def evalInt (ub : UpperB) (lb : LowerB) (v : Int) : Bool :=
  match ub, lb with
  | .none, .none => true
  | .lt a, .none => decide (v < a)
  | .lte a, .none => decide (v ≤ a)
  | .none, .gt b => decide (b < v)
  | .none, .gte b => decide (b ≤ v)
  | .lt a, .gt b => if b ≤ a then decide (b < v) && decide (v < a) else decide (v < a) || decide (b < v)
  | .lte a, .gt b => if b ≤ a then decide (b < v) && decide (v ≤ a) else decide (v ≤ a) || decide (b < v)
  | .lt a, .gte b => if b ≤ a then decide (b ≤ v) && decide (v < a) else decide (v < a) || decide (b ≤ v)
  | .lte a, .gte b => if b ≤ a then decide (b ≤ v) && decide (v ≤ a) else decide (v ≤ a) || decide (b ≤ v)

/-- `enum.defined_only` (value is a declared number), `enum.in` (`this in rules.in`, skipped when
empty), `enum.not_in`. `defined` is the list of declared numbers of the compiled enum. -/
def evalEnum (defined : List Int) (definedOnly : Option Bool) (inn notIn : List Int) (v : Int) : Bool :=
  (!(definedOnly == some true) || defined.contains v) &&
  (inn.isEmpty || inn.contains v) &&
  !notIn.contains v

/-- one (item) value against the type rules; a value of the wrong kind never arises for a
well-typed message and is rejected here. -/
def evalItem (M : Matcher) (defined : List Int) (c : ItemC) (v : Scalar) : Bool :=
  match c, v with
  | .none, _ => true
  | .timestamp, _ => true
  | .string c, .str s => evalString M c s
  | .int _ ub lb, .int n => evalInt ub lb n
  | .bool const, .bool b => optAll const (fun k => k == b)
  | .bytes mn mx, .bytes b => optAll mn (fun n => decide (n ≤ b.length)) && optAll mx (fun n => decide (b.length ≤ n))
  | .enum d i n, .enum x => evalEnum defined d i n x
  | _, _ => false

def allDistinct : List Scalar → Bool
  | [] => true
  | x :: rest => !rest.contains x && allDistinct rest

def isMsgScalar : Scalar → Bool
  | .msg => true
  | _ => false

/-- `repeated.min_items / max_items / unique / items`. `unique` on message items is a CEL
run-time error ("no such overload: unique(list)") as soon as the list is non-empty. -/
def evalRepeated (M : Matcher) (defined : List Int) (r : RepeatedC) (vs : List Scalar) : Verdict :=
  if r.unique == some true && vs.any isMsgScalar then .error
  else if
    optAll r.minItems (fun n => decide (n ≤ vs.length)) &&
    optAll r.maxItems (fun n => decide (vs.length ≤ n)) &&
    (!(r.unique == some true) || allDistinct vs) &&
    optAll r.items (fun c => vs.all (evalItem M defined c))
  then .accept else .reject

def ofBool (b : Bool) : Verdict := if b then .accept else .reject

/-- `map.min_pairs` (`uint(this.size()) < rules.min_pairs`), `map.max_pairs`, `map.values`: every
value against the value rules. `vs` are the values of the map (keys carry no rules). -/
def evalMap (M : Matcher) (defined : List Int) (m : MapC) (vs : List Scalar) : Bool :=
  optAll m.minPairs (fun n => decide (n ≤ vs.length)) &&
  optAll m.maxPairs (fun n => decide (vs.length ≤ n)) &&
  optAll m.values (fun c => vs.all (evalItem M defined c))

/-- `msg.Has(field)`: presence-tracking fields are set or not; fields without presence "have" a
value iff it is not the zero value; lists iff non-empty. -/
def fieldHas (pres : Bool) : FieldVal → Bool
  | .absent => false
  | .single v => pres || !v.isZero
  | .list vs => !vs.isEmpty

/-- protovalidate-go `field.EvaluateMessage`:
```
if f.Required && !msg.Has(fd)        -> violation "required"
if f.IgnoreEmpty && !msg.Has(fd)     -> ok            (IgnoreEmpty = fd.HasPresence())
return f.Value.Evaluate(msg.Get(fd))
```
`pres` = the compiled field has presence; `defined` = declared numbers of the field's enum type
(empty for other kinds). For a field without presence `.absent` is not a distinct message; callers
pass the zero value instead (see `WellTyped`). -/
def pvField (M : Matcher) (defined : List Int) (c : Option FieldC) (pres : Bool) (v : FieldVal) : Verdict :=
  match c with
  | none => .accept
  | some c =>
    if c.required == some true && !fieldHas pres v then .reject
    else if pres && !fieldHas pres v then .accept
    else
      match c.typ, v with
      | .item ic, .single s => ofBool (evalItem M defined ic s)
      | .repeated r, .list vs => evalRepeated M defined r vs
      | .map m, .list vs => ofBool (evalMap M defined m vs)
      | .item .none, _ => .accept
      | _, _ => .reject

end J5V.Rules
