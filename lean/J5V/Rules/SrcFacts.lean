import J5V.Generated.RulesFacts
import J5V.Rules.Compile
import J5V.Rules.Reader
/-!
# Rules cluster (C04, C12): checkers over the regenerated source facts

`J5V/Generated/RulesFacts.lean` is rewritten by `extract/rules.go` from the current source of
`internal/j5s/j5convert/fields.go` (writer: `buildProperty` / `buildField`) and
`lib/j5schema/schema_from_proto.go` (reader) on every `./check C04` / `./check C12`:

* `fieldTypeMembers` — the members of the `schema.Field.type` oneof,
* `schemaMsgFields` — the fields of every j5 field / rules / ext message,
* `writerReads` / `readerReads` — per branch ("unit"), the j5-schema fields / option fields read,
* `rootWriterReads` / `rootWriterCopies` — the same for `visitObjectNode` / `visitOneofNode` (conversion.go),
* `writerCopies` / `readerCopies` — per branch, every `(target, source, value text, guards)`:
  a key of a composite literal, an assignment through a selector, a `proto.SetExtension`, a
  `setJ5Ext` call, a plain assignment to a local; `guards` are the enclosing conditions and case
  clauses, outermost first, with aliases expanded.

This file holds the hand-written side: the slot tables (which option field carries which schema
field, and where the reader picks it up) and Bool-valued checkers. The obligations themselves
(`… = true := by decide`) are theorems of `Props/C04.lean` and `Props/C12.lean`. Anything the
extractor does not recognise, or a changed guard / cast / slot, yields a text these tables do not
contain, so the obligation fails.
-/
namespace J5V.Rules.Src
open J5V.Generated.Rules

abbrev Copy := String × String × String × String × List String

def cUnit (c : Copy) : String := c.1
def cTarget (c : Copy) : String := c.2.1
def cSrc (c : Copy) : String := c.2.2.1
def cText (c : Copy) : String := c.2.2.2.1
def cGuards (c : Copy) : List String := c.2.2.2.2

def readsOf (tbl : List (String × List String)) (unit : String) : List String :=
  (tbl.find? fun (u, _) => u == unit).map (·.2) |>.getD []

def fieldsOf (msg : String) : Option (List String) :=
  (schemaMsgFields.find? fun (m, _) => m == msg).map (·.2)

/-! ## branches: every member of `Field.type` has a writer branch and a reader producer -/

/-- the literal key by which the reader produces each member (a `schema_j5pb.Field_X` wrapper for
scalars, a j5schema struct for the others) -/
def readerProducer : String → String
  | "Field_Any" => "AnyField.ListRules"
  | "Field_Array" => "ArrayField.Schema"
  | "Field_Map" => "MapField.Schema"
  | "Field_Object" => "ObjectField.Ref"
  | "Field_Oneof" => "OneofField.Ref"
  | "Field_Enum" => "EnumField.Ref"
  | "Field_Bool" => "Field_Bool.Bool"
  | "Field_Bytes" => "Field_Bytes.Bytes"
  | "Field_Date" => "Field_Date.Date"
  | "Field_Decimal" => "Field_Decimal.Decimal"
  | "Field_Float" => "Field_Float.Float"
  | "Field_Integer" => "Field_Integer.Integer"
  | "Field_Key" => "Field_Key.Key"
  | "Field_String_" => "Field_String_.String_"
  | "Field_Timestamp" => "Field_Timestamp.Timestamp"
  | _ => "<no producer>"

/-- the writer unit of a member: containers in `buildProperty`, the rest in `buildField` -/
def writerUnitOf (m : String) : String :=
  if m == "Field_Array" || m == "Field_Map" then "buildProperty/" ++ m else "buildField/" ++ m

def everyMemberHasWriterBranch : Bool :=
  fieldTypeMembers.all fun m => writerUnits.contains (writerUnitOf m)

def everyMemberHasReaderProducer : Bool :=
  fieldTypeMembers.all fun m => readerCopies.any fun c => (cTarget c) == readerProducer m

/-- both switches end in an error `default` (an unknown member is an error, not a silent drop) -/
def writerDefaultsPresent : Bool :=
  writerUnits.contains "buildField/default" && writerUnits.contains "buildProperty/default"

/-! ## schema coverage: which declared fields the writer reads at all -/

/-- (member, kind name inside `st.<Kind>.…`, message name) -/
def memberTable : List (String × String × String) := [
  ("Field_Any", "Any", "AnyField"), ("Field_Array", "Array", "ArrayField"), ("Field_Bool", "Bool", "BoolField"),
  ("Field_Bytes", "Bytes", "BytesField"), ("Field_Date", "Date", "DateField"), ("Field_Decimal", "Decimal", "DecimalField"),
  ("Field_Enum", "Enum", "EnumField"), ("Field_Float", "Float", "FloatField"), ("Field_Integer", "Integer", "IntegerField"),
  ("Field_Key", "Key", "KeyField"), ("Field_Map", "Map", "MapField"), ("Field_Object", "Object", "ObjectField"),
  ("Field_Oneof", "Oneof", "OneofField"), ("Field_String_", "String_", "StringField"),
  ("Field_Timestamp", "Timestamp", "TimestampField") ]
def kindOf (m : String) : String :=
  (memberTable.find? fun (x, _, _) => x == m).map (·.2.1) |>.getD "<unknown member>"
def msgOf (m : String) : String :=
  (memberTable.find? fun (x, _, _) => x == m).map (·.2.2) |>.getD "<unknown member>"

/-- Fields of the j5 field messages the writer does NOT read: the explicit list. `open` = recorded
open finding of C04; the others are outside the property (reason given). The obligation demands
that every listed field is indeed unread, so a repair has to shorten this list. -/
def schemaExceptions : List (String × String × String) := [
  ("StringField", "Format", "open: schema-diff:str:sfmt:dropped (+array, +map) — ext StringField has no slot for it"),
  ("IntegerField_Rules", "MultipleOf", "observation: accepted by the parser, ignored by the compiler; not a rule the property lists"),
  ("FloatField_Rules", "ExclusiveMaximum", "float rules are a compile error (C07 finding of the compile cluster)"),
  ("FloatField_Rules", "ExclusiveMinimum", "float rules are a compile error"),
  ("FloatField_Rules", "Minimum", "float rules are a compile error"),
  ("FloatField_Rules", "Maximum", "float rules are a compile error"),
  ("FloatField_Rules", "MultipleOf", "float rules are a compile error"),
  ("TimestampField_Rules", "Minimum", "not expressible: j5s text cannot set a Timestamp scalar (SetAttribute: unsupported scalar type)"),
  ("TimestampField_Rules", "Maximum", "not expressible in j5s text"),
  ("TimestampField_Rules", "ExclusiveMinimum", "inadmissible without its bound"),
  ("TimestampField_Rules", "ExclusiveMaximum", "inadmissible without its bound"),
  ("ObjectField_Rules", "MinProperties", "observation: accepted by the parser, ignored by the compiler; not a rule the property lists"),
  ("ObjectField_Rules", "MaxProperties", "observation: as MinProperties"),
  ("MapField", "KeySchema", "by reading: keys are always strings, `keySchema` is ignored"),
  ("ObjectField", "Schema", "resolved by sourcewalk (`node.Ref`)"),
  ("ObjectField", "Entity", "root-level annotation, written by visitObjectNode (Root.lean)"),
  ("OneofField", "Schema", "resolved by sourcewalk (`node.Ref`)"),
  ("EnumField", "Schema", "resolved by sourcewalk (`node.Ref`)"),
  ("KeyField", "Rules", "empty message"),
  ("DateField", "Ext", "empty message; (j5.ext.v1.field).date carries the rules instead"),
  ("DecimalField", "Ext", "empty message; (j5.ext.v1.field).decimal carries the rules instead") ]

def isException (msg f : String) : Bool := schemaExceptions.any fun (m, g, _) => m == msg && g == f

/-- is `st.<kind>.<path>` read in the member's writer unit -/
def writerReadsPath (m path : String) : Bool :=
  (readsOf writerReads (writerUnitOf m)).contains ("st." ++ kindOf m ++ "." ++ path)

/-- (message, field, is it read) for every field of the member's message and of its `Rules` message -/
def coverageRows (m : String) : List (String × String × Bool) :=
  let msg := msgOf m
  match fieldsOf msg with
  | none => [(msg, "<unknown message>", false)]
  | some fs =>
    fs.map (fun f => (msg, f, writerReadsPath m f)) ++
    (if fs.contains "Rules" then
      match fieldsOf (msg ++ "_Rules") with
      | none => [(msg ++ "_Rules", "<unknown message>", false)]
      | some gs => gs.map fun g => (msg ++ "_Rules", g, writerReadsPath m ("Rules." ++ g))
     else [])

def allCoverageRows : List (String × String × Bool) := fieldTypeMembers.flatMap coverageRows

/-- every declared field is read by the writer, or is a listed exception -/
def everySchemaFieldIsReadOrListed : Bool :=
  allCoverageRows.all fun (msg, f, read) => read || isException msg f

/-- the exception list is exact: every listed field exists and is unread -/
def exceptionsAreExact : Bool :=
  schemaExceptions.all fun (msg, f, _) => allCoverageRows.any fun (m, g, read) => m == msg && g == f && !read

/-- the open-finding family among the exceptions -/
def openSchemaExceptions : List (String × String) := [("StringField", "Format")]

/-! ## slots: every schema field the writer copies has a reader slot that copies it back -/

structure Slot where
  /-- writer: option field written -/
  wTarget : String
  /-- writer: schema field it comes from -/
  wSrc : String
  /-- reader: schema field set -/
  rTarget : String
  /-- reader: option field it comes from (`""`: not a direct copy, see `rGuard`) -/
  rSrc : String
  /-- reader: a guard the copy must sit under (`""`: none required) -/
  rGuard : String := ""
  deriving Repr

/-- integer formats: (validate rules message prefix, getter, IntegerField_FORMAT suffix, model format, Go cast) -/
def intFormats : List (String × String × String × IntFormat × String) := [
  ("Int32", "GetInt32", "INT32", .i32, "int32"),
  ("Int64", "GetInt64", "INT64", .i64, ""),
  ("UInt32", "GetUint32", "UINT32", .u32, "uint32"),
  ("UInt64", "GetUint64", "UINT64", .u64, "uint64") ]

/-- bound kinds: (oneof member, oneof slot, schema bound) -/
def boundKinds : List (String × String × String) := [
  ("Lte", "LessThan", "Maximum"), ("Lt", "LessThan", "Maximum"),
  ("Gte", "GreaterThan", "Minimum"), ("Gt", "GreaterThan", "Minimum") ]

def intSlots : List Slot :=
  intFormats.flatMap fun (p, getter, _, _, _) =>
    boundKinds.map fun (k, slot, bound) =>
      { wTarget := p ++ "Rules_" ++ k ++ "." ++ k, wSrc := "st.Integer.Rules." ++ bound,
        rTarget := "IntegerField_Rules." ++ bound,
        rSrc := "ext.validate." ++ getter ++ "()." ++ slot ++ ".(" ++ p ++ "Rules_" ++ k ++ ")." ++ k }

def textBoundSlots (kind getter : String) : List Slot :=
  ["Minimum", "Maximum", "ExclusiveMinimum", "ExclusiveMaximum"].map fun b =>
    { wTarget := kind ++ "Field_Rules." ++ b, wSrc := "st." ++ kind ++ ".Rules." ++ b,
      rTarget := kind ++ "Field_Rules." ++ b, rSrc := "ext.j5." ++ getter ++ "().Rules." ++ b }

def slots : List Slot := [
  -- containers
  ⟨"MapRules.MinPairs", "st.Map.Rules.MinPairs", "MapField_Rules.MinPairs", "ext.validate.GetMap().MinPairs", ""⟩,
  ⟨"MapRules.MaxPairs", "st.Map.Rules.MaxPairs", "MapField_Rules.MaxPairs", "ext.validate.GetMap().MaxPairs", ""⟩,
  ⟨"ArrayField.SingleForm", "st.Array.Ext.SingleForm", "ArrayField_Ext.SingleForm", "ext.j5.GetArray().SingleForm", ""⟩,
  ⟨"RepeatedRules.MinItems", "st.Array.Rules.MinItems", "ArrayField_Rules.MinItems", "ext.validate.GetRepeated().MinItems", ""⟩,
  ⟨"RepeatedRules.MaxItems", "st.Array.Rules.MaxItems", "ArrayField_Rules.MaxItems", "ext.validate.GetRepeated().MaxItems", ""⟩,
  ⟨"RepeatedRules.Unique", "st.Array.Rules.UniqueItems", "ArrayField_Rules.UniqueItems", "ext.validate.GetRepeated().Unique", ""⟩,
  -- list rules
  ⟨"FieldConstraint_Oneof.Oneof", "st.Oneof.ListRules", "OneofField.ListRules", "ext.list.GetOneof()", ""⟩,
  ⟨"FieldConstraint_Enum.Enum", "st.Enum.ListRules", "EnumField.ListRules", "ext.list.GetEnum()", ""⟩,
  ⟨"FieldConstraint_Bool.Bool", "st.Bool.ListRules", "BoolField.ListRules", "ext.list.GetBool()", ""⟩,
  ⟨"FieldConstraint_Date.Date", "st.Date.ListRules", "DateField.ListRules", "ext.list.GetDate()", ""⟩,
  ⟨"FieldConstraint_Decimal.Decimal", "st.Decimal.ListRules", "DecimalField.ListRules", "ext.list.GetDecimal()", ""⟩,
  ⟨"FieldConstraint_Double.Double", "st.Float.ListRules", "FloatField.ListRules", "ext.list.GetDouble()", ""⟩,
  ⟨"FieldConstraint_Float.Float", "st.Float.ListRules", "FloatField.ListRules", "ext.list.GetFloat()", ""⟩,
  ⟨"FieldConstraint_Int32.Int32", "st.Integer.ListRules", "IntegerField.ListRules", "ext.list.GetInt32()", ""⟩,
  ⟨"FieldConstraint_Int64.Int64", "st.Integer.ListRules", "IntegerField.ListRules", "ext.list.GetInt64()", ""⟩,
  ⟨"FieldConstraint_Uint32.Uint32", "st.Integer.ListRules", "IntegerField.ListRules", "ext.list.GetUint32()", ""⟩,
  ⟨"FieldConstraint_Uint64.Uint64", "st.Integer.ListRules", "IntegerField.ListRules", "ext.list.GetUint64()", ""⟩,
  ⟨"FieldConstraint_Timestamp.Timestamp", "st.Timestamp.ListRules", "TimestampField.ListRules", "ext.list.GetTimestamp()", ""⟩,
  ⟨"FieldConstraint_Any.Any", "st.Any.ListRules", "AnyField.ListRules", "ext.list.GetAny()", ""⟩,
  ⟨"StringRules_OpenText.OpenText", "st.String_.ListRules", "StringField.ListRules", "ext.list.GetString_().GetOpenText()", ""⟩,
  ⟨"ForeignKeyRules_UniqueString.UniqueString", "st.Key.ListRules", "var fkRules",
    "ext.list.GetString_().GetForeignKey().Type.(ForeignKeyRules_UniqueString).UniqueString", ""⟩,
  ⟨"ForeignKeyRules_Id62.Id62", "st.Key.ListRules", "var fkRules",
    "ext.list.GetString_().GetForeignKey().Type.(ForeignKeyRules_Id62).Id62", ""⟩,
  ⟨"ForeignKeyRules_Uuid.Uuid", "st.Key.ListRules", "var fkRules",
    "ext.list.GetString_().GetForeignKey().Type.(ForeignKeyRules_Uuid).Uuid", ""⟩,
  -- validation rules
  ⟨"EnumRules.In", "st.Enum.Rules.In", "EnumField_Rules.In", "", "ext.validate.GetEnum().In != nil"⟩,
  ⟨"EnumRules.NotIn", "st.Enum.Rules.NotIn", "EnumField_Rules.NotIn", "", "ext.validate.GetEnum().NotIn != nil"⟩,
  ⟨"BoolRules.Const", "st.Bool.Rules.Const", "BoolField_Rules.Const", "ext.validate.GetBool().Const", ""⟩,
  ⟨"BytesRules.MinLen", "st.Bytes.Rules.MinLength", "BytesField_Rules.MinLength", "ext.validate.GetBytes().MinLen", ""⟩,
  ⟨"BytesRules.MaxLen", "st.Bytes.Rules.MaxLength", "BytesField_Rules.MaxLength", "ext.validate.GetBytes().MaxLen", ""⟩,
  ⟨"StringRules.MinLen", "st.String_.Rules.MinLength", "StringField.Rules.MinLength", "ext.validate.GetString().MinLen", ""⟩,
  ⟨"StringRules.MaxLen", "st.String_.Rules.MaxLength", "StringField.Rules.MaxLength", "ext.validate.GetString().MaxLen", ""⟩,
  ⟨"StringRules.Pattern", "st.String_.Rules.Pattern", "StringField.Rules.Pattern", "ext.validate.GetString().Pattern", ""⟩,
  -- keys
  ⟨"StringRules.Pattern", "st.Key.Format.Type.(KeyFormat_Custom_).Custom.Pattern", "StringField.Rules.Pattern",
    "ext.validate.GetString().Pattern", ""⟩,
  ⟨"KeyField_Pattern.Pattern", "st.Key.Format.Type.(KeyFormat_Custom_).Custom.Pattern", "KeyFormat_Custom.Pattern",
    "ext.j5.GetKey().Type.(KeyField_Pattern).Pattern", ""⟩,
  ⟨"PSMKeyFieldOptions.ForeignKey", "st.Key.Entity.Type.(EntityKey_ForeignKey).ForeignKey", "EntityKey_ForeignKey.ForeignKey",
    "GetExtension(ext_j5pb.E_Key).ForeignKey", ""⟩,
  ⟨"PSMKeyFieldOptions.TenantType", "st.Key.Entity.TenantKey", "EntityKey.TenantKey", "GetExtension(ext_j5pb.E_Key).TenantType", ""⟩,
  -- any
  ⟨"AnyField.OnlyDefined", "st.Any.OnlyDefined", "AnyField.OnlyDefined", "ext.j5.GetAny().OnlyDefined", ""⟩,
  ⟨"AnyField.Types", "st.Any.Types", "AnyField.Types", "ext.j5.GetAny().Types", ""⟩ ]
  ++ intSlots ++ textBoundSlots "Date" "GetDate" ++ textBoundSlots "Decimal" "GetDecimal"

/-- `setJ5Ext(<member of (j5.ext.v1.field)>)` copies the typed `Ext` message field by field (by
reflection): (call, source, the Ext message, the reader's getter). Every field of the Ext message
needs a reader copy `<Ext message>.<f> := ext.j5.<getter>().<f>`. -/
def extCalls : List (String × String × String × String) := [
  ("setJ5Ext(\"map\")", "st.Map.Ext", "MapField_Ext", "ext.j5.GetMap()"),
  ("setJ5Ext(\"array\")", "st.Array.Ext", "ArrayField_Ext", "ext.j5.GetArray()"),
  ("setJ5Ext(\"object\")", "st.Object.Ext", "ObjectField_Ext", "ext.j5.GetObject()"),
  ("setJ5Ext(\"oneof\")", "st.Oneof.Ext", "OneofField_Ext", "ext.j5.GetOneof()"),
  ("setJ5Ext(\"enum\")", "st.Enum.Ext", "EnumField_Ext", "ext.j5.GetEnum()"),
  ("setJ5Ext(\"bool\")", "st.Bool.Ext", "BoolField_Ext", "ext.j5.GetBool()"),
  ("setJ5Ext(\"bytes\")", "st.Bytes.Ext", "BytesField_Ext", "ext.j5.GetBytes()"),
  ("setJ5Ext(\"float\")", "st.Float.Ext", "FloatField_Ext", "ext.j5.GetFloat()"),
  ("setJ5Ext(\"integer\")", "st.Integer.Ext", "IntegerField_Ext", "ext.j5.GetInteger()"),
  ("setJ5Ext(\"key\")", "st.Key.Ext", "KeyField_Ext", "ext.j5.GetKey()"),
  ("setJ5Ext(\"string\")", "st.String_.Ext", "StringField_Ext", "ext.j5.GetString_()"),
  ("setJ5Ext(\"timestamp\")", "st.Timestamp.Ext", "TimestampField_Ext", "ext.j5.GetTimestamp()") ]

/-- sources of a writer copy that are not fields of the declared field schema -/
def nonSchemaSrcs : List String :=
  ["", "GetExtension(validate.E_Field)", "GetExtension(ext_j5pb.E_Key)", "node.Schema.Name"]
def isSchemaSrc (s : String) : Bool := !nonSchemaSrcs.contains s

/-- A: every option field the writer fills from the declared schema is a known slot -/
def everyWriterCopyHasSlot : Bool :=
  writerCopies.all fun c =>
    !isSchemaSrc (cSrc c) ||
    slots.any (fun s => s.wTarget == (cTarget c) && s.wSrc == (cSrc c)) ||
    extCalls.any (fun (call, src, _, _) => call == (cTarget c) && src == (cSrc c))

/-- the converse: every slot is still written (no stale table rows) -/
def everySlotIsWritten : Bool :=
  slots.all (fun s => writerCopies.any fun c => (cTarget c) == s.wTarget && (cSrc c) == s.wSrc) &&
  extCalls.all (fun (call, src, _, _) => writerCopies.any fun c => (cTarget c) == call && (cSrc c) == src)

/-- B: every slot is read back by the reader into the paired schema field -/
def everySlotIsReadBack : Bool :=
  slots.all fun s =>
    readerCopies.any fun c =>
      (cTarget c) == s.rTarget && (s.rSrc == "" || (cSrc c) == s.rSrc) && (s.rGuard == "" || (cGuards c).contains s.rGuard)

/-- B (ext messages): every field of a typed Ext message is read back -/
def everyExtFieldIsReadBack : Bool :=
  extCalls.all fun (_, _, msg, getter) =>
    match fieldsOf msg with
    | none => false
    | some fs => fs.all fun f => readerCopies.any fun c => (cTarget c) == msg ++ "." ++ f && (cSrc c) == getter ++ "." ++ f

/-- the members of `(j5.ext.v1.field)` written by a container branch (after the item's own
`buildField`): the array branch replaces the item's annotation on the same field (open findings
`array:*`), the map branch annotates the map field while the item's annotations stay on the
entry's value field (open findings `map:*`). No other branch wraps an item. -/
def leafUnits : List String := fieldTypeMembers.map fun m => "buildField/" ++ m
def containerExtCalls : List (String × String) :=
  writerCopies.filterMap fun c =>
    if extCalls.any (fun (call, _, _, _) => call == cTarget c) &&
       !(leafUnits.contains (cUnit c)) then some (cUnit c, cTarget c) else none

/-! ## inclusivity: the writer's choice of lt/lte, gt/gte and the reader's inverse -/

def exclGuard (bound : String) : String :=
  "st.Integer.Rules.Exclusive" ++ bound ++ " == nil || !*st.Integer.Rules.Exclusive" ++ bound

/-- meaning of the innermost guard of an integer bound copy, as a function of the exclusive flag;
`none` = not one of the two recognised spellings -/
def guardFires (bound g : String) (e : Option Bool) : Option Bool :=
  if g == exclGuard bound then some (e != some true)
  else if g == "!(" ++ exclGuard bound ++ ")" then some (e == some true)
  else none

/-- which member the model's `compileInt` picks for a bound with exclusive flag `e` -/
def modelPicks (fmt : IntFormat) (k : String) (e : Option Bool) : Bool :=
  match k with
  | "Lte" => (match compileInt fmt { maximum := some 1, exclusiveMaximum := e } with | .ok (.int _ (.lte _) _) => true | _ => false)
  | "Lt" => (match compileInt fmt { maximum := some 1, exclusiveMaximum := e } with | .ok (.int _ (.lt _) _) => true | _ => false)
  | "Gte" => (match compileInt fmt { minimum := some 1, exclusiveMinimum := e } with | .ok (.int _ _ (.gte _)) => true | _ => false)
  | "Gt" => (match compileInt fmt { minimum := some 1, exclusiveMinimum := e } with | .ok (.int _ _ (.gt _)) => true | _ => false)
  | _ => false

def flags : List (Option Bool) := [none, some false, some true]

/-- for every integer format and every member of the `less_than` / `greater_than` oneofs: exactly
one writer copy; it takes the declared bound, cast to the field's type; it sits under
`Rules != nil`, the format's case, `<bound> != nil` and one of the two recognised spellings of the
exclusivity test; and for each value of the flag it fires exactly when the model picks that member -/
def writerInclusivityMatchesModel : Bool :=
  intFormats.all fun (p, _, fcase, fmt, cast) =>
    boundKinds.all fun (k, _, bound) =>
      match writerCopies.filter (fun c => (cTarget c) == p ++ "Rules_" ++ k ++ "." ++ k) with
      | [c] =>
        (cUnit c) == "buildField/Field_Integer" &&
        (cSrc c) == "st.Integer.Rules." ++ bound &&
        (cText c) == (if cast == "" then "*st.Integer.Rules." ++ bound else cast ++ "(*st.Integer.Rules." ++ bound ++ ")") &&
        (match (cGuards c) with
         | [g1, g2, g3, g4] =>
           g1 == "st.Integer.Rules != nil" && g2 == "case IntegerField_FORMAT_" ++ fcase &&
           g3 == "st.Integer.Rules." ++ bound ++ " != nil" &&
           flags.all fun e => guardFires bound g4 e == some (modelPicks fmt k e)
         | _ => false)
      | _ => false

/-- the oneof slot each member is stored in: `rules.Get<fmt>().LessThan = &…_Lt{…}` -/
def writerSlotsMatch : Bool :=
  intFormats.all fun (p, getter, _, _, _) =>
    boundKinds.all fun (k, slot, _) =>
      writerCopies.any fun c =>
        (cTarget c) == "FieldConstraints." ++ getter ++ "()." ++ slot && (cText c) == p ++ "Rules_" ++ k ++ "{…}"

/-- what the model's reader makes of a member: (bound set, exclusive flag set to true) -/
def modelReads (k : String) : Bool × Bool :=
  let r := match k with
    | "Lte" => readIntRules (.lte 1) .none
    | "Lt" => readIntRules (.lt 1) .none
    | "Gte" => readIntRules .none (.gte 1)
    | _ => readIntRules .none (.gt 1)
  if k == "Lte" || k == "Lt" then (r.maximum.isSome, r.exclusiveMaximum == some true)
  else (r.minimum.isSome, r.exclusiveMinimum == some true)

/-- reader: for every format and member, the bound is read from that member into the paired
schema bound under `case <member>`, and `Exclusive<bound> = Ptr(true)` is set in that same case
exactly when the model's `readIntRules` sets the flag -/
def readerInclusivityMatchesModel : Bool :=
  intFormats.all fun (p, getter, _, _, _) =>
    boundKinds.all fun (k, slot, bound) =>
      let caseG := "case " ++ p ++ "Rules_" ++ k
      let src := "ext.validate." ++ getter ++ "()." ++ slot ++ ".(" ++ p ++ "Rules_" ++ k ++ ")." ++ k
      let boundCopy := readerCopies.any fun c =>
        (cTarget c) == "IntegerField_Rules." ++ bound && (cSrc c) == src && (cGuards c).getLast? == some caseG
      let flagCopy := readerCopies.any fun c =>
        (cTarget c) == "IntegerField_Rules.Exclusive" ++ bound && (cText c) == "Ptr(true)" &&
        (cGuards c).getLast? == some caseG && (cGuards c).contains ("ext.validate." ++ getter ++ "() != nil")
      (boundCopy, flagCopy) == modelReads k

/-! ## required / optional -/

/-- writer (`buildProperty`): `required := node.Schema.Required`, forced to true for a primary key;
when set, `(buf.validate.field).required = true` is written on whatever constraint is there -/
def writerRequiredFacts : Bool :=
  let rs := readsOf writerReads "buildProperty"
  rs.contains "node.Schema.Required" && rs.contains "node.Schema.ExplicitlyOptional" &&
  rs.contains "GetExtension(ext_j5pb.E_Key).PrimaryKey" &&
  (writerCopies.filter fun c => cTarget c == "var required") ==
    [("buildProperty", "var required", "", "true",
      ["GetExtension(ext_j5pb.E_Key) != nil", "GetExtension(ext_j5pb.E_Key).PrimaryKey"])] &&
  writerCopies.contains ("buildProperty", "ext.Required", "", "gl.Ptr(true)", ["required"]) &&
  writerCopies.contains ("buildProperty", "SetExtension(validate.E_Field)", "", "ext", ["required"]) &&
  writerCopies.contains ("buildProperty", "fieldDesc.Proto3Optional", "", "gl.Ptr(true)", ["node.Schema.ExplicitlyOptional"])

def requiredExpr : String := "ext.validate.Required != nil && *ext.validate.Required"

/-- reader: `Required` of a property is `(buf.validate.field).required` — in the array and map
branches nothing else, in `buildSchemaProperty` (never reached for a repeated field from
`messageProperties`) also `min_items > 0`; `ExplicitlyOptional` only when not required and the field
has the optional keyword. These are all the places that set `Required`. -/
def readerRequiredFacts : Bool :=
  (readerCopies.filter fun c => cTarget c == "ObjectProperty.Required").map (fun c => (cUnit c, cText c)) ==
    [("Package.messageProperties/list", requiredExpr),
     ("Package.messageProperties/map", requiredExpr),
     ("Package.buildSchemaProperty",
      "(" ++ requiredExpr ++ ") || (src.IsList() && ext.validate.GetRepeated().GetMinItems() > 0)")] &&
  (readerCopies.filter fun c => cTarget c == "ObjectProperty.ExplicitlyOptional") ==
    [("Package.buildSchemaProperty", "ObjectProperty.ExplicitlyOptional", "", "true",
      ["!ObjectProperty.Required && src.HasOptionalKeyword()"])]

/-- reader: property names come from `json_name` in all three property builders -/
def readerNameFacts : Bool :=
  (readerCopies.filter fun c => cTarget c == "ObjectProperty.JSONName").map (fun c => (cUnit c, cText c)) ==
    [("Package.messageProperties", "jsonFieldName(oneof.Name())"),
     ("Package.messageProperties/list", "string(field.JSONName())"),
     ("Package.messageProperties/map", "string(field.JSONName())"),
     ("Package.buildSchemaProperty", "string(src.JSONName())")]

/-! ## container rules and key formats (C12) -/

def guardsOf (unit target : String) : List (List String) :=
  (writerCopies.filter fun c => cUnit c == unit && cTarget c == target).map cGuards

/-- array / map: the item's (value's) constraint is attached whenever it or the container rules
exist — not only when there are no container rules — and each container rule is copied under
`Rules != nil` alone (the model's `wrapArray` / `wrapMap`) -/
def containerGuardFacts : Bool :=
  let ga := "GetExtension(validate.E_Field) != nil || st.Array.Rules != nil"
  let gm := "GetExtension(validate.E_Field) != nil || st.Map.Rules != nil"
  let u := "buildProperty/Field_Array"
  let m := "buildProperty/Field_Map"
  guardsOf u "RepeatedRules.Items" == [[ga]] &&
  guardsOf u "RepeatedRules.MinItems" == [[ga, "st.Array.Rules != nil"]] &&
  guardsOf u "RepeatedRules.MaxItems" == [[ga, "st.Array.Rules != nil"]] &&
  guardsOf u "RepeatedRules.Unique" == [[ga, "st.Array.Rules != nil"]] &&
  guardsOf u "SetExtension(validate.E_Field)" == [[ga]] &&
  guardsOf m "MapRules.Values" == [[gm]] &&
  guardsOf m "MapRules.MinPairs" == [[gm, "st.Map.Rules != nil"]] &&
  guardsOf m "MapRules.MaxPairs" == [[gm, "st.Map.Rules != nil"]] &&
  guardsOf m "SetExtension(validate.E_Field)" == [[gm]]

/-- key formats: uuid -> well-known uuid, id62 -> the id62 pattern constant, custom -> the declared
pattern, informal -> no rule; the constraint is written exactly when a format is declared
(the model's `keyStringC`) -/
def keyFormatFacts : Bool :=
  let u := "buildField/Field_Key"
  (writerCopies.filter fun c => cUnit c == u && cTarget c == "StringRules.Pattern").map (fun c => (cText c, cGuards c)) ==
    [("gl.Ptr(id62.PatternString)", ["st.Key.Format != nil", "case KeyFormat_Id62"]),
     ("&st.Key.Format.Type.(KeyFormat_Custom_).Custom.Pattern", ["st.Key.Format != nil", "case KeyFormat_Custom_"])] &&
  (writerCopies.filter fun c => cUnit c == u && cTarget c == "StringRules_Uuid.Uuid").map (fun c => (cText c, cGuards c)) ==
    [("true", ["st.Key.Format != nil", "case KeyFormat_Uuid"])] &&
  guardsOf u "StringRules.WellKnown" == [["st.Key.ListRules != nil"], ["st.Key.Format != nil", "case KeyFormat_Uuid"]] &&
  guardsOf u "SetExtension(validate.E_Field)" == [["st.Key.Format != nil"]] &&
  (writerCopies.filter fun c => cUnit c == u && cTarget c == "FieldConstraints_String_.String_").map cText == ["StringRules"]

/-! ## list-rule slots (C04): which member of `(j5.list.v1.field)` each format is written to -/

/-- the `foreign_key` member the source picks per key format, read off the guards of the copies -/
def srcFkSlot (f : Option KeyFormat) : Option FkSlot :=
  let g : List String :=
    match f with
    | none => ["st.Key.ListRules != nil", "st.Key.Format == nil"]
    | some .id62 => ["st.Key.ListRules != nil", "!(st.Key.Format == nil)", "case KeyFormat_Id62"]
    | some .uuid => ["st.Key.ListRules != nil", "!(st.Key.Format == nil)", "case KeyFormat_Uuid"]
    | some (.custom _) => ["st.Key.ListRules != nil", "!(st.Key.Format == nil)", "case KeyFormat_Custom_,KeyFormat_Informal_"]
    | some .informal => ["st.Key.ListRules != nil", "!(st.Key.Format == nil)", "case KeyFormat_Custom_,KeyFormat_Informal_"]
  match (writerCopies.filter fun c =>
      cUnit c == "buildField/Field_Key" && cSrc c == "st.Key.ListRules" && cGuards c == g).map cTarget with
  | ["ForeignKeyRules_UniqueString.UniqueString"] => some .uniqueString
  | ["ForeignKeyRules_Id62.Id62"] => some .id62
  | ["ForeignKeyRules_Uuid.Uuid"] => some .uuid
  | _ => none

def keyFormatsSample : List (Option KeyFormat) := [none, some .informal, some (.custom "^a$"), some .uuid, some .id62]

/-- the key list-rules slot per format is the model's `keyListExt`; float list rules go to `double`
for FLOAT64 and to `float` otherwise; integer list rules to the member of their format -/
def listSlotFacts : Bool :=
  (keyFormatsSample.all fun f =>
    match srcFkSlot f, keyListExt f ⟨"x", []⟩ with
    | some s, .ok (.foreignKey s' _) => s == s'
    | _, _ => false) &&
  guardsOf "buildField/Field_Float" "FieldConstraint_Double.Double" ==
    [["st.Float.ListRules != nil", "case FloatField_FORMAT_FLOAT64"]] &&
  guardsOf "buildField/Field_Float" "FieldConstraint_Float.Float" == [["st.Float.ListRules != nil", "default"]] &&
  ([("Int32", "INT32"), ("Int64", "INT64"), ("Uint32", "UINT32"), ("Uint64", "UINT64")].all fun (p, f) =>
    guardsOf "buildField/Field_Integer" ("FieldConstraint_" ++ p ++ "." ++ p) ==
      [["st.Integer.ListRules != nil", "case IntegerField_FORMAT_" ++ f]])

/-! ## roots (C04): object / oneof message options, entity annotation, any-membership -/

def rootSlots : List Slot := [
  ⟨"PSMOptions.EntityName", "node.Entity.Entity", "EntityObject.Entity", "psmExt.EntityName", ""⟩,
  ⟨"PSMOptions.EntityPart", "node.Entity.Part.Enum()", "var part", "psmExt.EntityPart", ""⟩,
  ⟨"ObjectMessageOptions.AnyMember", "node.AnyMember", "ObjectSchema.AnyMember", "opts.AnyMember", ""⟩ ]

/-- `visitObjectNode` / `visitOneofNode` (conversion.go) against `buildObjectSchema`, `findPSMOptions`,
`isOneofWrapper`: the three things an object root carries into its message options are exactly
entity name, entity part and any-membership, each is read back from that very option field; the
message is marked `object` / `oneof` in `(j5.ext.v1.message).type` and `isOneofWrapper` decides by
that mark first (`Root.lean`: `writeRoot` / `readRoot`) -/
def rootFacts : Bool :=
  ((rootWriterCopies.filter fun c => cUnit c == "conversionVisitor.visitObjectNode" && cSrc c != "").map
      fun c => (cTarget c, cSrc c)) ==
    rootSlots.map (fun s => (s.wTarget, s.wSrc)) ++
      [("comment([]int32{})", "node.Description"),
       ("comment([]int32{2,int32(len(message.descriptor.Field))})", "node.Schema.Description")] &&
  rootSlots.all (fun s => readerCopies.any fun c => cTarget c == s.rTarget && cSrc c == s.rSrc) &&
  readerCopies.contains ("findPSMOptions", "EntityObject.Part", "", "part", []) &&
  readerCopies.contains ("Package.buildObjectSchema", "ObjectSchema.Entity", "", "entity", ["entity != nil"]) &&
  rootWriterCopies.contains ("conversionVisitor.visitObjectNode", "MessageOptions.Type", "", "MessageOptions_Object{…}", []) &&
  rootWriterCopies.contains ("conversionVisitor.visitOneofNode", "MessageOptions.Type", "", "MessageOptions_Oneof{…}", []) &&
  ((readerCopies.filter fun c => cUnit c == "isOneofWrapper" && (cGuards c).head? == some "options != nil").map
      fun c => (cText c, cGuards c)) ==
    [("true", ["options != nil", "options.IsOneofWrapper"]),
     ("true", ["options != nil", "case MessageOptions_Oneof"]),
     ("false", ["options != nil", "case MessageOptions_Object"])]

/-- the reader's 'legacy' entity lookup — when the message has no `(j5.ext.v1.psm)` option, the
option of the message type of its field `keys` is taken instead — is still there, and is the only
re-assignment of the options: the open finding `schema-diff:root:entity:invented[keys-field]`
(`C04_root_entity_invented_counterexample`). Removing it (the repair) changes this fact. -/
def legacyKeysLookupFacts : Bool :=
  (readerCopies.filter fun c => cTarget c == "var psmExt") ==
    [("findPSMOptions", "var psmExt", "GetExtension(ext_j5pb.E_Psm)", "GetExtension(ext_j5pb.E_Psm)",
      ["GetExtension(ext_j5pb.E_Psm) == nil"])]

/-! ## integer bound range check (C12): `checkIntegerBound` = the model's `boundFits` -/

/-- the interval each spelled test allows (`none` = unbounded on that side) -/
def rangeOfText : String → Option (Option Int × Option Int)
  | "*bound >= math.MinInt32 && *bound <= math.MaxInt32" => some (some (-(2 ^ 31)), some (2 ^ 31 - 1))
  | "*bound >= 0 && *bound <= math.MaxUint32" => some (some 0, some (2 ^ 32 - 1))
  | "*bound >= 0" => some (some 0, none)
  | "true" => some (none, none)
  | _ => none

def inRangeOpt (r : Option Int × Option Int) (v : Int) : Bool :=
  (match r.1 with | some lo => decide (lo ≤ v) | none => true) &&
  (match r.2 with | some hi => decide (v ≤ hi) | none => true)

def boundSamples : List Int :=
  [-(2 ^ 63), -(2 ^ 31) - 1, -(2 ^ 31), -1, 0, 1, 2 ^ 31 - 1, 2 ^ 31, 2 ^ 32 - 1, 2 ^ 32, 2 ^ 63 - 1]

/-- `checkIntegerBound` assigns `ok` in exactly four places (three format cases and `default`),
each a recognised interval test, and for every format the test of its case (or `default`) agrees
with the model's `boundFits` on every sample around every boundary -/
def boundCheckFacts : Bool :=
  let rows := (writerCopies.filter fun c => cUnit c == "checkIntegerBound" && cTarget c == "var ok").map
    fun c => (cGuards c, cText c)
  rows.length == 4 &&
  intFormats.all fun (_, _, fcase, fmt, _) =>
    let row := (rows.find? fun (g, _) => g == ["case IntegerField_FORMAT_" ++ fcase]).orElse
      fun _ => rows.find? fun (g, _) => g == ["default"]
    match row.bind fun (_, t) => rangeOfText t with
    | some r => boundSamples.all fun v => inRangeOpt r v == boundFits fmt (some v)
    | none => false

/-! ## enums and descriptions (C04): `visitEnumNode`, `enumBuilder.addValue`, comment locations -/

/-- the writer's enum declaration: default prefix `ScreamingSnake(name) ++ "_"` when none is
declared; the implicit zero value `<prefix>UNSPECIFIED = 0`; an explicit leading UNSPECIFIED takes
number 0 and the others are numbered from 1 in order (`EnumDecl.values`); option names get the prefix
unless they have it (`addPrefix`); an option's description is filed under **its number**
(`[2, number]`, the model's `EnumDecl.comments`; seeded C04-m6 filed it under `len(Value)`), the
enum's own under `[]`; a property's description is filed under the property's **index**
(`[2, len(Field)]` taken before the append) in both root visitors -/
def enumWriterFacts : Bool :=
  let v := "conversionVisitor.visitEnumNode"
  let a := "enumBuilder.addValue"
  let explicitZero := "len(node.Schema.Options) > 0 && isExplicitUnspecified(prefix,node.Schema.Options[0])"
  rootWriterCopies.contains (v, "var prefix", "node.Schema.Name", "strcase.ToScreamingSnake(node.Schema.Name) + \"_\"",
    ["node.Schema.Prefix == \"\""]) &&
  rootWriterCopies.contains (v, "EnumValueDescriptorProto.Name", "", "gl.Ptr(fmt.Sprintf(\"%sUNSPECIFIED\",prefix))", []) &&
  rootWriterCopies.contains (v, "EnumValueDescriptorProto.Number", "", "gl.Ptr(int32(0))", []) &&
  rootWriterCopies.contains (v, "addValue(0)", "", "node.Schema.Options[0]", [explicitZero]) &&
  rootWriterCopies.contains (v, "var optionsToSet", "", "node.Schema.Options[1:]", [explicitZero]) &&
  rootWriterCopies.contains (v, "addValue(int32(idx + 1))", "", "value", []) &&
  rootWriterCopies.contains (v, "comment([]int32{})", "node.Schema.Description", "node.Schema.Description",
    ["node.Schema.Description != \"\""]) &&
  rootWriterCopies.contains (a, "var name", "schema.Name", "e.prefix + schema.Name", ["!strings.HasPrefix(schema.Name,e.prefix)"]) &&
  rootWriterCopies.contains (a, "EnumValueDescriptorProto.Name", "", "gl.Ptr(name)", []) &&
  rootWriterCopies.contains (a, "EnumValueDescriptorProto.Number", "", "gl.Ptr(number)", []) &&
  (rootWriterCopies.filter fun c => cUnit c == a && cSrc c == "schema.Description") ==
    [(a, "comment([]int32{2,number})", "schema.Description", "schema.Description", ["schema.Description != \"\""])] &&
  (rootWriterCopies.filter fun c => cUnit c == "conversionVisitor.visitOneofNode" && cSrc c == "node.Schema.Description").map cTarget ==
    ["comment([]int32{})", "comment([]int32{2,int32(len(message.descriptor.Field))})"]

end J5V.Rules.Src
