import J5V.Go.Outcome
import J5V.Compile.Strcase
import J5V.Rules.Types
/-!
# The writer: `internal/j5s/j5convert/fields.go` `buildField` / `buildProperty`

`writeField` produces the annotation record of one compiled field; `compileRules` is its
`(buf.validate.field)` component. The model follows the code as repaired by the `fix:` commits
listed in `/verif/known_findings.d/rules.json` (inclusivity, array rules, custom key pattern,
timestamp / any / FLOAT64 list rules). Type resolution (`ww.resolveType`) and imports are outside
this cluster: references are assumed to resolve.
-/
namespace J5V.Rules
open J5V.Go

/-! ## Go integer conversions of the bounds (`int32(x)`, `uint32(x)`, `uint64(x)` on an int64) -/

/-- two's-complement wrap of `x` to a signed `bits`-bit integer -/
def wrapSigned (bits : Nat) (x : Int) : Int :=
  let m : Int := 2 ^ bits
  let r := x % m          -- 0 ≤ r < m (Int.emod)
  if r < m / 2 then r else r - m

def castTo (f : IntFormat) (x : Int) : Int :=
  match f with
  | .i32 => wrapSigned 32 x
  | .i64 => x
  | .u32 => x % (2 ^ 32)
  | .u64 => x % (2 ^ 64)

/-! ## enum numbering (`visitEnumNode`) and name → number mapping (`enumTypeRef`, `mapValues`) -/

def hasPrefix (pre s : String) : Bool := pre.toList.isPrefixOf s.toList
def hasSuffix (suf s : String) : Bool := suf.toList.reverse.isPrefixOf s.toList.reverse

/-- `strings.TrimPrefix` -/
def trimPrefix (pre s : String) : String :=
  if hasPrefix pre s then String.ofList (s.toList.drop pre.length) else s

/-- `if !strings.HasPrefix(name, prefix) { name = prefix + name }` -/
def addPrefix (pre name : String) : String := if hasPrefix pre name then name else pre ++ name

def EnumDecl.pfx (e : EnumDecl) : String :=
  match e.declPrefix with
  | some p => if p = "" then e.defaultPrefix else p
  | none => e.defaultPrefix

def numberFrom (pre : String) : Nat → List String → List (String × Int)
  | _, [] => []
  | k, o :: rest => (addPrefix pre o, (k : Int)) :: numberFrom pre (k + 1) rest

/-- The values of the compiled enum in descriptor order: (full name, number). Option numbers of the
source are all zero for j5s text (the language has no way to set them short of `number = n`,
which the compiler ignores except for recognising an explicit first `UNSPECIFIED`). -/
def EnumDecl.values (e : EnumDecl) : List (String × Int) :=
  let pre := e.pfx
  match e.options with
  | [] => [(pre ++ "UNSPECIFIED", 0)]
  | o :: rest =>
    -- `isExplicitUnspecified`: only UNSPECIFIED itself (with or without the prefix) declared first
    -- replaces the implicit zero value
    if trimPrefix pre o == "UNSPECIFIED" then (addPrefix pre o, 0) :: numberFrom pre 1 rest
    else (pre ++ "UNSPECIFIED", 0) :: numberFrom pre 1 (o :: rest)

/-! ### descriptions of the options: leading comments in SourceCodeInfo (`enumBuilder.addValue`) -/

/-- the description declared for the `i`-th option -/
def EnumDecl.descOf (e : EnumDecl) (i : Nat) : String := (e.descs[i]?).getD ""

/-- one description per declared option (padded with `""`) -/
def EnumDecl.optDescs (e : EnumDecl) : List String := (List.range e.options.length).map e.descOf

/-- `isExplicitUnspecified(prefix, options[0])` -/
def EnumDecl.isExplicit (e : EnumDecl) : Bool :=
  match e.options with
  | o :: _ => trimPrefix e.pfx o == "UNSPECIFIED"
  | [] => false

/-- `e.comment([]int32{2, number}, schema.Description)` for every added value with a description:
the comment is filed under the value's NUMBER -/
def commentsFrom : Nat → List String → List (Nat × String)
  | _, [] => []
  | k, d :: rest => (if d = "" then [] else [(k, d)]) ++ commentsFrom (k + 1) rest

/-- the explicit zero option is value number 0, the others count from 1 -/
def EnumDecl.comments (e : EnumDecl) : List (Nat × String) :=
  commentsFrom (if e.isExplicit then 0 else 1) e.optDescs

/-- `EnumRef.ValMap` as built by the repaired `enumTypeRef`: the implicit `prefix+"UNSPECIFIED" → 0`
entry first, then the values. -/
def EnumDecl.valMap (e : EnumDecl) : List (String × Int) :=
  (e.pfx ++ "UNSPECIFIED", 0) :: e.values

def lookupName (m : List (String × Int)) (name : String) : Option Int :=
  match m.find? (fun kv => kv.1 == name) with
  | some kv => some kv.2
  | none => none

/-- `EnumRef.mapValues` -/
def mapValues (e : EnumDecl) : List String → Outcome (List Int)
  | [] => .ok []
  | n :: rest =>
    match lookupName e.valMap (addPrefix e.pfx n) with
    | none => .err "enum value not found"
    | some v =>
      match mapValues e rest with
      | .ok vs => .ok (v :: vs)
      | .err t => .err t
      | .panic w => .panic w

/-! ## buildField -/

def id62Pattern : String := "^[0-9A-Za-z]{22}$"

structure ItemAnnot where
  kind : ProtoKind
  validate : Option ItemC
  j5 : Option J5Ext
  list : Option ListExt
  psmKey : Option PsmKey
  deriving DecidableEq, Repr

/-- `checkIntegerBound`: a bound (an int64 in the source) must be representable in the field's type -/
def boundFits (fmt : IntFormat) (b : Option Int) : Bool :=
  match b with
  | none => true
  | some v =>
    match fmt with
    | .i32 => decide (-(2 ^ 31) ≤ v) && decide (v ≤ 2 ^ 31 - 1)
    | .u32 => decide (0 ≤ v) && decide (v ≤ 2 ^ 32 - 1)
    | .u64 => decide (0 ≤ v)
    | .i64 => true

/-- the integer rules branch: the two pre-checks, the range checks, then lt/lte and gt/gte chosen
by the flags -/
def compileInt (fmt : IntFormat) (r : IntRules) : Outcome ItemC :=
  if r.exclusiveMinimum = some false ∧ r.minimum = none then
    .err "exclusive minimum requires minimum to be set"
  else if r.exclusiveMaximum = some false ∧ r.maximum = none then
    .err "exclusive maximum requires maximum to be set"
  else if !boundFits fmt r.minimum then .err "minimum is out of range"
  else if !boundFits fmt r.maximum then .err "maximum is out of range"
  else
    let ub : UpperB :=
      match r.maximum with
      | none => .none
      | some m => if r.exclusiveMaximum = some true then .lt (castTo fmt m) else .lte (castTo fmt m)
    let lb : LowerB :=
      match r.minimum with
      | none => .none
      | some m => if r.exclusiveMinimum = some true then .gt (castTo fmt m) else .gte (castTo fmt m)
    .ok (.int fmt ub lb)

def keyStringC : KeyFormat → StringC
  | .uuid => { uuid := true }
  | .id62 => { pattern := some id62Pattern }
  | .custom p => { pattern := some p }
  | .informal => {}

/-- the custom pattern is also recorded in `(j5.ext.v1.field).key.pattern` -/
def keyExtPattern : Option KeyFormat → Option String
  | some (.custom p) => some p
  | _ => none

def keyListExt (format : Option KeyFormat) (p : LRPayload) : Outcome ListExt :=
  match format with
  | none => .ok (.foreignKey .uniqueString p)
  | some .id62 => .ok (.foreignKey .id62 p)
  | some .uuid => .ok (.foreignKey .uuid p)
  | some (.custom _) => .ok (.foreignKey .uniqueString p)
  | some .informal => .ok (.foreignKey .uniqueString p)

def entityPsm (e : EntityKey) : PsmKey :=
  match e.typ with
  | .primary b => { primaryKey := b, tenantType := e.tenantKey }
  | .foreign r => { foreignKey := some r, tenantType := e.tenantKey }
  | .none => { tenantType := e.tenantKey }

/-- `st.Enum.ListRules.GetFiltering().GetDefaultFilters()` (nil-safe: absent messages give `[]`) -/
def lrDefaultFilters (lr : ListRules) : List String :=
  match lr with
  | some p => p.defaultFilters
  | none => []

def buildField : Schema → Outcome ItemAnnot
  | .object ref flatten hasRules =>
    .ok { kind := .message (.object ref), j5 := some (.object flatten), list := none, psmKey := none,
          validate := if hasRules then some .none else none }
  | .oneof ref hasRules lr =>
    .ok { kind := .message (.oneof ref), j5 := some .oneof, list := lr.map .oneof, psmKey := none,
          validate := if hasRules then some .none else none }
  | .enum decl rules lr =>
    match (match rules with
           | none => (Outcome.ok ([], []) : Outcome (List Int × List Int))
           | some r =>
             match mapValues decl r.inn with
             | .ok a =>
               (match mapValues decl r.notIn with
                | .ok b => .ok (a, b)
                | .err t => .err t
                | .panic w => .panic w)
             | .err t => .err t
             | .panic w => .panic w) with
    | .ok (a, b) =>
      -- b6c593a: `filtering.defaultFilters` of the list rules must name options of the enum
      -- (same spellings as in / notIn: with or without the prefix, case-sensitive)
      match mapValues decl (lrDefaultFilters lr) with
      | .ok _ =>
        .ok { kind := .enum decl, j5 := some .enum, list := lr.map .enum, psmKey := none,
              validate := some (.enum (some true) a b) }
      | .err t => .err t
      | .panic w => .panic w
    | .err t => .err t
    | .panic w => .panic w
  | .bool rules lr =>
    .ok { kind := .bool, j5 := some .bool, list := lr.map .bool, psmKey := none,
          validate := rules.map fun r => .bool r.const }
  | .bytes rules =>
    .ok { kind := .bytes, j5 := some .bytes, list := none, psmKey := none,
          validate := rules.map fun r => .bytes r.minLength r.maxLength }
  | .date rules lr =>
    .ok { kind := .message .date, j5 := rules.map .date, list := lr.map .date, psmKey := none, validate := none }
  | .decimal rules lr =>
    .ok { kind := .message .decimal, j5 := rules.map .decimal, list := lr.map .decimal, psmKey := none, validate := none }
  | .float is64 lr =>
    .ok { kind := if is64 then .double else .float, j5 := some .float, psmKey := none, validate := none,
          list := lr.map fun p => if is64 then .double p else .float p }
  | .integer fmt rules lr =>
    match rules with
    | none => .ok { kind := .int fmt, j5 := some .integer, list := lr.map (.int fmt), psmKey := none, validate := none }
    | some r =>
      match compileInt fmt r with
      | .ok c => .ok { kind := .int fmt, j5 := some .integer, list := lr.map (.int fmt), psmKey := none, validate := some c }
      | .err t => .err t
      | .panic w => .panic w
  | .key format entity lr =>
    let j5 : J5Ext := .key (keyExtPattern format)
    let validate := format.map fun f => ItemC.string (keyStringC f)
    let psm := entity.map entityPsm
    match lr with
    | none => .ok { kind := .string, j5 := some j5, list := none, psmKey := psm, validate := validate }
    | some p =>
      match keyListExt format p with
      | .ok l => .ok { kind := .string, j5 := some j5, list := some l, psmKey := psm, validate := validate }
      | .err t => .err t
      | .panic w => .panic w
  | .string _format rules lr =>
    .ok { kind := .string, j5 := some .string, list := lr.map .openText, psmKey := none,
          validate := rules.map fun r => .string { minLen := r.minLength, maxLen := r.maxLength, pattern := r.pattern } }
  | .timestamp hasRules lr =>
    .ok { kind := .message .timestamp, j5 := some .timestamp, list := lr.map .timestamp, psmKey := none,
          validate := if hasRules then some .timestamp else none }
  | .any od types lr =>
    .ok { kind := .message .any, j5 := some (.any od types), list := lr.map .any, psmKey := none, validate := none }

/-! ## buildProperty -/

/-- `strcase.ToSnake(node.Schema.Name)`: the proto field name (strcase as modelled, byte level, by
`J5V/Compile/Strcase.lean`; j5s names are ASCII identifiers) -/
def snakeName (s : String) : String :=
  J5V.Compile.Str.toString (J5V.Compile.toSnake (s.toList.map Char.toNat))


def wrapArray (v : Option ItemC) (rules : Option ArrayRules) : Option FieldC :=
  if v.isSome || rules.isSome then
    some { required := none,
           typ := .repeated {
             minItems := rules.bind (·.minItems), maxItems := rules.bind (·.maxItems),
             unique := rules.bind (·.uniqueItems), items := v } }
  else none

/-- 5d… (map fix): like arrays, the rules of the map and of its values go on the map field -/
def wrapMap (v : Option ItemC) (rules : Option MapRules) : Option FieldC :=
  if v.isSome || rules.isSome then
    some { required := none,
           typ := .map { minPairs := rules.bind (·.minPairs), maxPairs := rules.bind (·.maxPairs), values := v } }
  else none

def setRequired (c : Option FieldC) : Option FieldC :=
  match c with
  | none => some { required := some true, typ := .item .none }
  | some c => some { c with required := some true }

def psmPrimaryKey (k : Option PsmKey) : Bool :=
  match k with
  | some k => k.primaryKey
  | none => false

/-- `(buf.validate.field)` of the property: the item constraint (wrapped under `repeated` for an
array), plus `required` -/
def fieldValidate (schema : FieldSchema) (v : Option ItemC) (required : Bool) : Option FieldC :=
  let base : Option FieldC :=
    match schema with
    | .single _ => v.map fun c => { required := none, typ := .item c }
    | .array _ rules _ => wrapArray v rules
    | .map _ rules _ => wrapMap v rules
  if required then setRequired base else base

/-- `(j5.ext.v1.field)`: for an array the `array` annotation replaces the item's -/
def fieldJ5 (schema : FieldSchema) (item : Option J5Ext) : Option J5Ext :=
  match schema with
  | .single _ => item
  | .array _ _ sf => some (.array sf)
  | .map _ _ sf => some (.map sf)

def writeField (p : Property) : Outcome Annot :=
  match buildField p.schema.item with
  | .err t => .err t
  | .panic w => .panic w
  | .ok a =>
    -- even if not explicitly set, a primary key is required (`(j5.ext.v1.key)` of the field itself:
    -- for a map that annotation sits on the entry's value field and is not consulted)
    let required := p.required || (!p.schema.isMap && psmPrimaryKey a.psmKey)
    if p.explicitlyOptional && required then .err "cannot be both required and optional"
    else .ok {
      jsonName := p.name, protoName := snakeName p.name, number := p.number, description := p.description,
      kind := a.kind, repeated := p.schema.isArray, isMap := p.schema.isMap,
      proto3Optional := p.explicitlyOptional,
      validate := fieldValidate p.schema a.validate required, j5 := fieldJ5 p.schema a.j5,
      -- the value's list rules are written on the entry's value field, where nothing reads them
      list := if p.schema.isMap then none else a.list, psmKey := a.psmKey }

/-- C12's view of the compiler: the emitted `(buf.validate.field)` -/
def compileRules (p : Property) : Outcome (Option FieldC) :=
  match writeField p with
  | .ok a => .ok a.validate
  | .err t => .err t
  | .panic w => .panic w

end J5V.Rules
