/-!
# Rules cluster (C12, C04): data types

Core-only. Mirrors of
* the j5 schema rule messages of `proto/j5/j5/schema/v1/schema.proto` (`Schema`, `Property`),
* the subset of `buf.validate.FieldConstraints` that `internal/j5s/j5convert/fields.go` emits (`FieldC`),
* the annotation record of one compiled field as seen by `lib/j5schema/schema_from_proto.go` (`Annot`),
* candidate field values of the compiled message type (`FieldVal`).
-/
namespace J5V.Rules

/-! ## j5 schema side -/

inductive IntFormat where
  | i32 | i64 | u32 | u64
  deriving DecidableEq, Repr, Inhabited

def IntFormat.lo : IntFormat → Int
  | .i32 => -(2 ^ 31)
  | .i64 => -(2 ^ 63)
  | .u32 => 0
  | .u64 => 0

def IntFormat.hi : IntFormat → Int
  | .i32 => 2 ^ 31 - 1
  | .i64 => 2 ^ 63 - 1
  | .u32 => 2 ^ 32 - 1
  | .u64 => 2 ^ 64 - 1

def IntFormat.inRange (f : IntFormat) (v : Int) : Bool := decide (f.lo ≤ v) && decide (v ≤ f.hi)

/-- `schema.IntegerField.Rules` (multiple_of is ignored by the compiler and not modelled). -/
structure IntRules where
  minimum : Option Int := none
  maximum : Option Int := none
  exclusiveMinimum : Option Bool := none
  exclusiveMaximum : Option Bool := none
  deriving DecidableEq, Repr, Inhabited

structure StringRules where
  minLength : Option Nat := none
  maxLength : Option Nat := none
  pattern : Option String := none
  deriving DecidableEq, Repr, Inhabited

structure BytesRules where
  minLength : Option Nat := none
  maxLength : Option Nat := none
  deriving DecidableEq, Repr, Inhabited

structure BoolRules where
  const : Option Bool := none
  deriving DecidableEq, Repr, Inhabited

structure EnumRules where
  inn : List String := []
  notIn : List String := []
  deriving DecidableEq, Repr, Inhabited

/-- `schema.DateField.Rules` / `schema.DecimalField.Rules`: bounds as text -/
structure TextBoundRules where
  minimum : Option String := none
  maximum : Option String := none
  exclusiveMinimum : Option Bool := none
  exclusiveMaximum : Option Bool := none
  deriving DecidableEq, Repr, Inhabited

structure ArrayRules where
  minItems : Option Nat := none
  maxItems : Option Nat := none
  uniqueItems : Option Bool := none
  deriving DecidableEq, Repr, Inhabited

/-- `schema.MapField.Rules` -/
structure MapRules where
  minPairs : Option Nat := none
  maxPairs : Option Nat := none
  deriving DecidableEq, Repr, Inhabited

inductive KeyFormat where
  | informal
  | custom (pattern : String)
  | uuid
  | id62
  deriving DecidableEq, Repr, Inhabited

/-- `schema.EntityKey.type` oneof -/
inductive EntityKeyType where
  | none
  | primary (b : Bool)
  | foreign (ref : String)
  deriving DecidableEq, Repr, Inhabited

structure EntityKey where
  typ : EntityKeyType := .none
  tenantKey : Option String := none
  deriving DecidableEq, Repr, Inhabited

/-- A j5s enum declaration. `defaultPrefix` is `strcase.ToScreamingSnake(name) ++ "_"`, shipped
with the op (strcase is a parameter of this cluster, modelled by the compile cluster). -/
structure EnumDecl where
  name : String
  declPrefix : Option String := none
  defaultPrefix : String
  options : List String
  /-- description of the enum -/
  description : String := ""
  /-- descriptions of the options, by position (`""` / missing = none) -/
  descs : List String := []
  deriving DecidableEq, Repr, Inhabited

/-- The list-rules message of a field (filter / sort / search settings). `text` is the whole
message in the canonical spelling of the line protocol, opaque to writer and reader (both copy it
verbatim); `defaultFilters` is the one member the writer inspects: for an enum field
`filtering.defaultFilters` must name options of the enum (`[]` when `filtering` is absent). -/
structure LRPayload where
  text : String
  defaultFilters : List String := []
  deriving DecidableEq, Repr, Inhabited

/-- `none` = list-rules message absent -/
abbrev ListRules := Option LRPayload

/-- The schema of a non-array field (`schema.Field` minus array/map). -/
inductive Schema where
  | string (format : Option String) (rules : Option StringRules) (lr : ListRules)
  | integer (fmt : IntFormat) (rules : Option IntRules) (lr : ListRules)
  | float (is64 : Bool) (lr : ListRules)
  | bool (rules : Option BoolRules) (lr : ListRules)
  | bytes (rules : Option BytesRules)
  | key (format : Option KeyFormat) (entity : Option EntityKey) (lr : ListRules)
  | enum (decl : EnumDecl) (rules : Option EnumRules) (lr : ListRules)
  | object (ref : String) (flatten : Bool) (hasRules : Bool)
  | oneof (ref : String) (hasRules : Bool) (lr : ListRules)
  | timestamp (hasRules : Bool) (lr : ListRules)
  | date (rules : Option TextBoundRules) (lr : ListRules)
  | decimal (rules : Option TextBoundRules) (lr : ListRules)
  | any (onlyDefined : Bool) (types : List String) (lr : ListRules)
  deriving DecidableEq, Repr, Inhabited

inductive FieldSchema where
  | single (s : Schema)
  | array (items : Schema) (rules : Option ArrayRules) (singleForm : Option String)
  /-- `map:<type>`: string keys (no key schema in j5s text), values of the item schema -/
  | map (values : Schema) (rules : Option MapRules) (singleForm : Option String)
  deriving DecidableEq, Repr, Inhabited

def FieldSchema.item : FieldSchema → Schema
  | .single s => s
  | .array s _ _ => s
  | .map s _ _ => s

def FieldSchema.isArray : FieldSchema → Bool
  | .array _ _ _ => true
  | _ => false

def FieldSchema.isMap : FieldSchema → Bool
  | .map _ _ _ => true
  | _ => false

/-- `schema.ObjectProperty` (+ the proto field number the walker assigns). -/
structure Property where
  name : String
  number : Nat
  required : Bool := false
  explicitlyOptional : Bool := false
  description : String := ""
  schema : FieldSchema
  deriving DecidableEq, Repr, Inhabited

/-- message-typed kinds (fields with presence, no scalar zero value) -/
def Schema.isMessage : Schema → Bool
  | .object _ _ _ | .oneof _ _ _ | .timestamp _ _ | .date _ _ | .decimal _ _ | .any _ _ _ => true
  | _ => false

/-! ## protovalidate side: the subset of `buf.validate.FieldConstraints` the compiler emits -/

inductive UpperB where
  | none | lt (n : Int) | lte (n : Int)
  deriving DecidableEq, Repr, Inhabited

inductive LowerB where
  | none | gt (n : Int) | gte (n : Int)
  deriving DecidableEq, Repr, Inhabited

structure StringC where
  minLen : Option Nat := none
  maxLen : Option Nat := none
  pattern : Option String := none
  uuid : Bool := false
  deriving DecidableEq, Repr, Inhabited

/-- `FieldConstraints.type` for a non-repeated field -/
inductive ItemC where
  | none
  | string (c : StringC)
  | int (fmt : IntFormat) (ub : UpperB) (lb : LowerB)
  | bool (const : Option Bool)
  | bytes (minLen maxLen : Option Nat)
  | enum (definedOnly : Option Bool) (inn notIn : List Int)
  | timestamp
  deriving DecidableEq, Repr, Inhabited

structure RepeatedC where
  minItems : Option Nat := none
  maxItems : Option Nat := none
  unique : Option Bool := none
  /-- `items`: a nested FieldConstraints (its `required` is never set by the compiler) -/
  items : Option ItemC := none
  deriving DecidableEq, Repr, Inhabited

/-- `buf.validate.MapRules` (keys are never constrained by the compiler) -/
structure MapC where
  minPairs : Option Nat := none
  maxPairs : Option Nat := none
  values : Option ItemC := none
  deriving DecidableEq, Repr, Inhabited

inductive TypeC where
  | item (c : ItemC)
  | repeated (r : RepeatedC)
  | map (m : MapC)
  deriving DecidableEq, Repr, Inhabited

structure FieldC where
  required : Option Bool := none
  typ : TypeC := .item .none
  deriving DecidableEq, Repr, Inhabited

/-! ## candidate values of the compiled field -/

inductive Scalar where
  | str (s : List Char)
  | bytes (b : List Nat)
  | bool (b : Bool)
  | int (n : Int)
  | enum (n : Int)
  | float (nonzero : Bool)
  | msg
  deriving DecidableEq, Repr, Inhabited

inductive FieldVal where
  | absent
  | single (v : Scalar)
  | list (vs : List Scalar)
  deriving DecidableEq, Repr, Inhabited

def Scalar.isZero : Scalar → Bool
  | .str s => s.isEmpty
  | .bytes b => b.isEmpty
  | .bool b => !b
  | .int n => n == 0
  | .enum n => n == 0
  | .float nz => !nz
  | .msg => false

inductive Verdict where
  | accept | reject | error
  deriving DecidableEq, Repr, Inhabited

/-! ## the annotation record of a compiled field (what the schema reader consumes) -/

inductive MsgRef where
  | timestamp | date | decimal | any
  | object (name : String)
  | oneof (name : String)
  deriving DecidableEq, Repr, Inhabited

inductive ProtoKind where
  | string | bool | bytes | float | double
  | int (fmt : IntFormat)
  | enum (decl : EnumDecl)
  | message (m : MsgRef)
  deriving DecidableEq, Repr, Inhabited

/-- `(j5.ext.v1.field)`: the type oneof with the members the compiler sets -/
inductive J5Ext where
  | string | integer | float | bool | bytes | timestamp | enum | oneof
  | object (flatten : Bool)
  | key (pattern : Option String)
  | array (singleForm : Option String)
  | map (singleForm : Option String)
  | any (onlyDefined : Bool) (types : List String)
  | date (rules : TextBoundRules)
  | decimal (rules : TextBoundRules)
  deriving DecidableEq, Repr, Inhabited

inductive FkSlot where
  | uniqueString | id62 | uuid
  deriving DecidableEq, Repr, Inhabited

/-- `(j5.list.v1.field)`: slot + payload -/
inductive ListExt where
  | int (fmt : IntFormat) (p : LRPayload)
  | float (p : LRPayload)
  | double (p : LRPayload)
  | bool (p : LRPayload)
  | openText (p : LRPayload)
  | foreignKey (slot : FkSlot) (p : LRPayload)
  | enum (p : LRPayload)
  | oneof (p : LRPayload)
  | timestamp (p : LRPayload)
  | date (p : LRPayload)
  | decimal (p : LRPayload)
  | any (p : LRPayload)
  deriving DecidableEq, Repr, Inhabited

/-- `(j5.ext.v1.key)` PSMKeyFieldOptions -/
structure PsmKey where
  primaryKey : Bool := false
  foreignKey : Option String := none
  tenantType : Option String := none
  deriving DecidableEq, Repr, Inhabited

structure Annot where
  /-- `json_name`: the declared j5s name -/
  jsonName : String
  /-- the proto field name: `strcase.ToSnake` of the declared name -/
  protoName : String
  number : Nat
  description : String
  kind : ProtoKind
  repeated : Bool
  /-- `map<string, kind>`: the annotations below are those of the map field itself; of the entry's
  `value` field only the proto kind and `(j5.ext.v1.key)` are visible to the reader -/
  isMap : Bool := false
  proto3Optional : Bool
  validate : Option FieldC
  j5 : Option J5Ext
  list : Option ListExt
  psmKey : Option PsmKey
  deriving DecidableEq, Repr, Inhabited

end J5V.Rules
