import J5V.Rules.Norm
/-!
# C04, root level: objects and oneofs as a whole

Writer: `internal/j5s/j5convert/conversion.go` `visitObjectNode` / `visitOneofNode` (message options
`(j5.ext.v1.message)`, `(j5.ext.v1.psm)`, leading comment, one field per property).
Reader: `lib/j5schema/schema_from_proto.go` `messageSchema` (`isOneofWrapper` by the message
option), `buildObjectSchema` / `buildOneofSchema`, `schemaRootFromProto`, `findPSMOptions`
(including its legacy branch through a field called `keys`).
Core-only (used by the driver).
-/
namespace J5V.Rules
open J5V.Go

inductive RootKind where
  | object | oneof
  deriving DecidableEq, Repr, Inhabited

/-- `schema.EntityObject`; `part` is the number of `schema.EntityPart` -/
structure EntityObject where
  entity : String
  part : Nat
  deriving DecidableEq, Repr, Inhabited

/-- an `object` or `oneof` declaration of a j5s file -/
structure RootDecl where
  kind : RootKind := .object
  name : String
  description : String := ""
  entity : Option EntityObject := none
  anyMember : List String := []
  properties : List Property
  deriving DecidableEq, Repr

/-- `(j5.ext.v1.psm)` -/
structure PsmOpt where
  entityName : String
  entityPart : Option Nat
  deriving DecidableEq, Repr, Inhabited

/-- the compiled message as the reader sees it -/
structure RootAnnot where
  name : String
  comment : String
  /-- `(j5.ext.v1.message).oneof` (else `.object`) -/
  isOneof : Bool
  anyMember : List String
  psm : Option PsmOpt
  fields : List Annot
  /-- `(j5.ext.v1.psm)` of the message type of the field whose proto name is `keys`, if any -/
  keysPsm : Option PsmOpt
  deriving Repr

/-- `(j5.ext.v1.psm)` of the object types a property may refer to (by full name) -/
abbrev RefPsm := String → Option PsmOpt

def writeAll : List Property → Outcome (List Annot)
  | [] => .ok []
  | p :: rest =>
    match writeField p with
    | .ok a =>
      (match writeAll rest with
       | .ok as => .ok (a :: as)
       | .err t => .err t
       | .panic w => .panic w)
    | .err t => .err t
    | .panic w => .panic w

def readAll : List Annot → Outcome (List Property)
  | [] => .ok []
  | a :: rest =>
    match readField a with
    | .ok p =>
      (match readAll rest with
       | .ok ps => .ok (p :: ps)
       | .err t => .err t
       | .panic w => .panic w)
    | .err t => .err t
    | .panic w => .panic w

/-- `srcMsg.Fields().ByName("keys")` … `.Message()` … `(j5.ext.v1.psm)` of that message: the field
whose PROTO name (`snakeName` of the declared name) is `keys`. A map field's message is its entry
message, which has no annotation. -/
def keysLookup (env : RefPsm) (ps : List Property) : Option PsmOpt :=
  match ps.find? (fun p => snakeName p.name == "keys") with
  | some p =>
    (match p.schema with
     | .map _ _ _ => none
     | _ =>
       match p.schema.item with
       | .object ref _ _ => env ref
       | .oneof ref _ _ => env ref
       | _ => none)
  | none => none

def writeRoot (env : RefPsm) (r : RootDecl) : Outcome RootAnnot :=
  match writeAll r.properties with
  | .err t => .err t
  | .panic w => .panic w
  | .ok fields =>
    .ok { name := r.name, comment := r.description,
          isOneof := r.kind == .oneof,
          -- `visitOneofNode` writes neither entity nor any-membership
          anyMember := if r.kind == .oneof then [] else r.anyMember,
          psm := if r.kind == .oneof then none
                 else r.entity.map fun e => { entityName := e.entity, entityPart := some e.part },
          fields := fields, keysPsm := keysLookup env r.properties }

/-- the part a legacy annotation (no `entity_part`) gets from the message name -/
def partBySuffix (name : String) : Option Nat :=
  if hasSuffix "Keys" name then some 1
  else if hasSuffix "State" name then some 2
  else if hasSuffix "Event" name then some 3
  else if hasSuffix "Data" name then some 4
  else none

/-- `findPSMOptions` -/
def findPsm (a : RootAnnot) : Outcome (Option EntityObject) :=
  let ext := match a.psm with | some e => some e | none => a.keysPsm
  match ext with
  | none => .ok none
  | some e =>
    match e.entityPart with
    | some p => .ok (some { entity := e.entityName, part := p })
    | none =>
      match partBySuffix a.name with
      | some p => .ok (some { entity := e.entityName, part := p })
      | none => .err "unknown PSM type suffix"

def readRoot (a : RootAnnot) : Outcome RootDecl :=
  match readAll a.fields with
  | .err t => .err t
  | .panic w => .panic w
  | .ok ps =>
    if a.isOneof then
      .ok { kind := .oneof, name := a.name, description := a.comment, properties := ps }
    else
      match findPsm a with
      | .err t => .err t
      | .panic w => .panic w
      | .ok ent =>
        .ok { kind := .object, name := a.name, description := a.comment, entity := ent,
              anyMember := a.anyMember, properties := ps }

def rootRoundtrip (env : RefPsm) (r : RootDecl) : Outcome RootDecl :=
  match writeRoot env r with
  | .ok a => readRoot a
  | .err t => .err t
  | .panic w => .panic w

/-- The roots `C04_root_roundtrip` quantifies over: covered properties; a oneof carries neither
entity nor any-membership (j5s has no syntax for them); and — open finding
`schema-diff:root:entity:invented[keys-field]` — an object without entity annotation has no field
`keys` whose type is an entity-annotated object. -/
def WFRoot (env : RefPsm) (r : RootDecl) : Bool :=
  r.properties.all WFField &&
  (match r.kind with
   | .oneof => r.entity.isNone && r.anyMember.isEmpty
   | .object => r.entity.isSome || (keysLookup env r.properties).isNone)

end J5V.Rules
