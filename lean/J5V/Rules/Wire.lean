import J5V.Go.Hex
import J5V.Rules.Meaning
import J5V.Rules.Reader
import J5V.Rules.Root
/-!
# Line protocol of the rules cluster: op decoding, canonical printers, the small regex class

Core-only (used by `Driver/Rules.lean`). See `/verif/harness/PROTOCOL-rules.md`.
-/
namespace J5V.Rules.Wire
open J5V.Go J5V.Rules

/-! ## hex / utf-8 -/

def unhexStr (h : String) : Option String :=
  match fromHex h with
  | none => none
  | some bs => String.fromUTF8? (ByteArray.mk (bs.map (·.toUInt8)).toArray)

def hexStr (s : String) : String := toHexW (s.toUTF8.toList.map (·.toNat))

/-! ## k=v tokens -/

abbrev KV := List (String × String)

def parseKV (toks : List String) : Option KV :=
  toks.mapM fun t =>
    match t.splitOn "=" with
    | k :: v :: rest => some (k, String.intercalate "=" (v :: rest))
    | _ => none

def KV.get (m : KV) (k : String) : String := (m.lookup k).getD "~"

def optStr (v : String) : Option (Option String) :=
  if v == "~" then some none else (unhexStr v).map some

def optNat (v : String) : Option (Option Nat) :=
  if v == "~" then some none else v.toNat?.map some

def optInt (v : String) : Option (Option Int) :=
  if v == "~" then some none else v.toInt?.map some

def optBool (v : String) : Option (Option Bool) :=
  if v == "~" then some none else if v == "1" then some (some true) else if v == "0" then some (some false) else none

def strList (v : String) : Option (List String) :=
  if v == "~" then some [] else (v.splitOn ",").mapM unhexStr

/-! ## spec → Property -/

def zeroLR : String := "f0/df/s0/ds0/q0/qi-"

def capitalize (s : String) : String :=
  match s.toList with
  | [] => s
  | c :: rest => String.ofList (c.toUpper :: rest)

/-- `f<0/1>/df<hex+hex..>/s<0/1>/ds<0/1>/q<0/1>/qi<hex>`: the whole token is the payload text, the
`df` member is also decoded (the writer checks it for enum fields) -/
def decodeLR (tok : String) : Option LRPayload :=
  match tok.splitOn "/" with
  | [_, df, _, _, _, _] =>
    if df.startsWith "df" then
      let body := (df.drop 2).toString
      if body.isEmpty then some { text := tok, defaultFilters := [] }
      else ((body.splitOn "+").mapM unhexStr).map fun l => { text := tok, defaultFilters := l }
    else none
  | _ => none

def showNamesList (l : List String) : String :=
  if l.isEmpty then "~" else String.intercalate "," (l.map hexStr)

def screamingSnakeName (s : String) : String :=
  J5V.Compile.Str.toString (J5V.Compile.toScreamingSnake (s.toList.map Char.toNat))

def decodeSpec (num : Nat) (toks : List String) : Option Property := do
  let m ← parseKV toks
  let name ← unhexStr (m.get "name")
  let desc ← optStr (m.get "desc")
  let lrTok := m.get "lr"
  let lr : ListRules ← if lrTok == "~" then pure none else (decodeLR lrTok).map some
  let r := m.get "r" == "1"
  let item : Schema ←
    match m.get "kind" with
    | "str" => do
      let mn ← optNat (m.get "minl"); let mx ← optNat (m.get "maxl"); let pat ← optStr (m.get "pat")
      let sfmt ← optStr (m.get "sfmt")
      pure (Schema.string sfmt (if r then some { minLength := mn, maxLength := mx, pattern := pat } else none) lr)
    | "bytes" => do
      let mn ← optNat (m.get "minl"); let mx ← optNat (m.get "maxl")
      pure (Schema.bytes (if r then some { minLength := mn, maxLength := mx } else none))
    | "int" => do
      let fmt ← (match m.get "fmt" with | "i32" => some IntFormat.i32 | "i64" => some .i64 | "u32" => some .u32 | "u64" => some .u64 | _ => none)
      let mn ← optInt (m.get "min"); let mx ← optInt (m.get "max")
      let emn ← optBool (m.get "emin"); let emx ← optBool (m.get "emax")
      pure (Schema.integer fmt (if r then some { minimum := mn, maximum := mx, exclusiveMinimum := emn, exclusiveMaximum := emx } else none) lr)
    | "bool" => do
      let c ← optBool (m.get "const")
      pure (Schema.bool (if r then some { const := c } else none) lr)
    | "key" => do
      let pat ← optStr (m.get "pat")
      let fmt : Option KeyFormat ←
        (match m.get "kf" with
         | "~" => some none
         | "inf" => some (some .informal)
         | "uuid" => some (some .uuid)
         | "id62" => some (some .id62)
         | "cus" => some (some (.custom (pat.getD "")))
         | _ => none)
      let pk ← optBool (m.get "pk"); let fk ← optStr (m.get "fk"); let tk ← optStr (m.get "tk")
      let entity : Option EntityKey :=
        if pk.isNone && fk.isNone && tk.isNone then none
        else some { tenantKey := tk,
                    typ := match fk, pk with
                      | some f, _ => .foreign f     -- the j5s text sets `foreign` after `primaryKey`: last one wins in the oneof
                      | none, some b => .primary b
                      | none, none => .none }
      pure (Schema.key fmt entity lr)
    | "enum" => do
      let opts ← strList (m.get "eopts")
      let epre ← optStr (m.get "epre")
      let inn ← strList (m.get "in"); let nin ← strList (m.get "nin")
      let eodesc ← strList (m.get "eodesc"); let edesc ← optStr (m.get "edesc")
      let tn := "E" ++ capitalize name
      -- `strcase.ToScreamingSnake(name) + "_"` (strcase as modelled by J5V/Compile/Strcase.lean)
      let decl : EnumDecl := { name := tn, declPrefix := epre, defaultPrefix := screamingSnakeName tn ++ "_", options := opts,
                                  description := edesc.getD "", descs := eodesc }
      pure (Schema.enum decl (if r then some { inn := inn, notIn := nin } else none) lr)
    | "obj" => pure (Schema.object "foo.v1.Bar" (m.get "flat" == "1") r)
    | "oneof" => pure (Schema.oneof "foo.v1.On" r lr)
    | "ts" => pure (Schema.timestamp r lr)
    | "f32" => pure (Schema.float false lr)
    | "f64" => pure (Schema.float true lr)
    | "date" => do
      let dmn ← optStr (m.get "dmin"); let dmx ← optStr (m.get "dmax")
      let emn ← optBool (m.get "emin"); let emx ← optBool (m.get "emax")
      pure (Schema.date (if r then some { minimum := dmn, maximum := dmx, exclusiveMinimum := emn, exclusiveMaximum := emx } else none) lr)
    | "dec" => do
      let dmn ← optStr (m.get "dmin"); let dmx ← optStr (m.get "dmax")
      let emn ← optBool (m.get "emin"); let emx ← optBool (m.get "emax")
      pure (Schema.decimal (if r then some { minimum := dmn, maximum := dmx, exclusiveMinimum := emn, exclusiveMaximum := emx } else none) lr)
    | "any" => pure (Schema.any false [] lr)
    | _ => none
  let schema : FieldSchema ←
    if m.get "arr" == "m" then do
      -- map:<kind>; `ar` = map rules message present, amin / amax = minPairs / maxPairs
      let amin ← optNat (m.get "amin"); let amax ← optNat (m.get "amax")
      let asf ← optStr (m.get "asf")
      pure (FieldSchema.map item (if m.get "ar" == "1" then some { minPairs := amin, maxPairs := amax } else none) asf)
    else if m.get "arr" == "1" then do
      let amin ← optNat (m.get "amin"); let amax ← optNat (m.get "amax"); let auniq ← optBool (m.get "auniq")
      let asf ← optStr (m.get "asf")
      pure (FieldSchema.array item (if m.get "ar" == "1" then some { minItems := amin, maxItems := amax, uniqueItems := auniq } else none) asf)
    else pure (FieldSchema.single item)
  pure { name := name, number := num, required := m.get "req" == "1", explicitlyOptional := m.get "opt" == "1",
         description := desc.getD "", schema := schema }

/-! ## the root segment of a schema op -/

structure RootSeg where
  decl : RootDecl            -- without properties
  barEntity : Option String  -- entity annotation put on the fixed object `foo.v1.Bar` (part KEYS)

/-- `root=<obj|oneof> desc=<hex|~> ent=<hex|~> part=<n|~> anym=<hex,..|~> barent=<hex|~>`; the old
forms `~` / `<hex description>` denote a plain object -/
def decodeRoot (seg : String) : Option RootSeg :=
  if seg == "~" then some { decl := { name := "Foo", properties := [] }, barEntity := none }
  else if !seg.contains '=' then
    (unhexStr seg).map fun d => { decl := { name := "Foo", description := d, properties := [] }, barEntity := none }
  else do
    let m ← parseKV (seg.splitOn " " |>.filter (· ≠ ""))
    let kind ← (match m.get "root" with | "obj" => some RootKind.object | "oneof" => some .oneof | _ => none)
    let desc ← optStr (m.get "desc")
    let ent ← optStr (m.get "ent")
    let part ← optNat (m.get "part")
    let anym ← strList (m.get "anym")
    let barent ← optStr (m.get "barent")
    -- `entity.part` not written = ENTITY_PART_UNSPECIFIED; `entity.entity` not written = ""
    let entity : Option EntityObject :=
      if ent.isNone && part.isNone then none else some { entity := ent.getD "", part := part.getD 0 }
    pure { decl := { kind := kind, name := "Foo", description := desc.getD "", entity := entity, anyMember := anym,
                     properties := [] },
           barEntity := barent }

def showRoot (r : RootDecl) : String :=
  let kind := match r.kind with | .object => "obj" | .oneof => "oneof"
  let desc := if r.description.isEmpty then "~" else hexStr r.description
  let (ent, part) := match r.entity with | some e => (hexStr e.entity, toString e.part) | none => ("~", "~")
  s!"root={kind} name={hexStr r.name} desc={desc} ent={ent} part={part} anym={showNamesList r.anyMember}"

/-! ## canonical dump of the emitted constraint (same text as the harness's `dumpFC`) -/

def showOptNat : Option Nat → String
  | none => "~"
  | some n => toString n

def showOptHex : Option String → String
  | none => "~"
  | some s => hexStr s

def showOptB : Option Bool → String
  | none => "~"
  | some true => "1"
  | some false => "0"

def b01 (b : Bool) : String := if b then "1" else "0"

def showIntList (l : List Int) : String :=
  if l.isEmpty then "~" else String.intercalate "," (l.map toString)

def showFmt : IntFormat → String
  | .i32 => "i32" | .i64 => "i64" | .u32 => "u32" | .u64 => "u64"

def showItemC : ItemC → String
  | .none => "t=none"
  | .string c => s!"t=str(min={showOptNat c.minLen},max={showOptNat c.maxLen},pat={showOptHex c.pattern},uuid={b01 c.uuid})"
  | .bytes mn mx => s!"t=bytes(min={showOptNat mn},max={showOptNat mx})"
  | .bool c => s!"t=bool(const={showOptB c})"
  | .int f ub lb =>
    let u := match ub with | .none => "~" | .lt a => s!"lt:{a}" | .lte a => s!"lte:{a}"
    let l := match lb with | .none => "~" | .gt a => s!"gt:{a}" | .gte a => s!"gte:{a}"
    s!"t=int({showFmt f},{u},{l})"
  | .enum d i n => s!"t=enum(def={showOptB d},in={showIntList i},nin={showIntList n})"
  | .timestamp => "t=ts"

def showFC : Option FieldC → String
  | none => "none"
  | some c =>
    let t := match c.typ with
      | .item ic => showItemC ic
      | .repeated r =>
        let items := match r.items with | none => "~" | some ic => "(" ++ showItemC ic ++ ")"
        s!"t=rep(min={showOptNat r.minItems},max={showOptNat r.maxItems},uniq={showOptB r.unique},items={items})"
      | .map m =>
        let values := match m.values with | none => "~" | some ic => "(" ++ showItemC ic ++ ")"
        s!"t=map(min={showOptNat m.minPairs},max={showOptNat m.maxPairs},values={values})"
    s!"fc(req={showOptB c.required},{t})"

/-! ## candidate values -/

def parseScalar (s : Schema) (tok : String) : Option Scalar :=
  match s with
  | .string _ _ _ | .key _ _ _ => (unhexStr tok).map fun x => Scalar.str x.toList
  | .bytes _ => (fromHex tok).map Scalar.bytes
  | .bool _ _ => if tok == "1" then some (.bool true) else if tok == "0" then some (.bool false) else none
  | .integer _ _ _ => tok.toInt?.map Scalar.int
  | .enum _ _ _ => tok.toInt?.map Scalar.enum
  | .float _ _ => if tok == "1" then some (.float true) else if tok == "0" then some (.float false) else none
  | _ => if tok == "P" then some .msg else none

def zeroScalar : Schema → Scalar
  | .string _ _ _ | .key _ _ _ => .str []
  | .bytes _ => .bytes []
  | .bool _ _ => .bool false
  | .integer _ _ _ => .int 0
  | .enum _ _ _ => .enum 0
  | .float _ _ => .float false
  | _ => .msg

/-- `~` denotes the unset field: for a field without presence that is the zero value / empty list -/
def parseVal (optPres : Bool) (p : Property) (tok : String) : Option FieldVal :=
  match p.schema with
  | .array s _ _ =>
    if tok == "~" then some (.list [])
    else if tok.startsWith "[" && tok.endsWith "]" then
      let inner := ((tok.drop 1).dropRight 1).toString
      if inner.isEmpty then some (.list []) else ((inner.splitOn ",").mapM (parseScalar s)).map FieldVal.list
    else none
  -- a map is given by its values (the harness uses the keys k0, k1, …)
  | .map s _ _ =>
    if tok == "~" then some (.list [])
    else if tok.startsWith "[" && tok.endsWith "]" then
      let inner := ((tok.drop 1).dropRight 1).toString
      if inner.isEmpty then some (.list []) else ((inner.splitOn ",").mapM (parseScalar s)).map FieldVal.list
    else none
  | .single s =>
    if tok == "~" then (if p.hasPresence optPres then some .absent else some (.single (zeroScalar s)))
    else (parseScalar s tok).map FieldVal.single

/-! ## the small regex class (the same class the harness's oracle implements) -/

structure SmallRe where
  anchorL : Bool
  anchorR : Bool
  isClass : Bool
  lit : List Char
  ranges : List (Char × Char)
  min : Nat
  max : Option Nat
  deriving Repr, DecidableEq

def reMeta : List Char := "\\.+*?()|[]{}^$".toList

/-- `fuel` bounds the recursion (the input length suffices) -/
def parseRangesAux : Nat → List Char → List (Char × Char) → Option (List (Char × Char) × List Char)
  | 0, _, _ => none
  | _ + 1, [], _ => none
  | _ + 1, ']' :: rest, acc => if acc.isEmpty then none else some (acc.reverse, rest)
  | fuel + 1, c :: '-' :: d :: rest, acc =>
    if c == '\\' || c == '^' || c == '[' then none
    else if d == ']' then parseRangesAux fuel ('-' :: d :: rest) ((c, c) :: acc)
    else parseRangesAux fuel rest ((c, d) :: acc)
  | fuel + 1, c :: rest, acc =>
    if c == '\\' || c == '^' || c == '[' then none else parseRangesAux fuel rest ((c, c) :: acc)

def parseRanges (cs : List Char) (acc : List (Char × Char)) : Option (List (Char × Char) × List Char) :=
  parseRangesAux (cs.length + 1) cs acc

def digitVal (c : Char) : Option Nat :=
  if c.toNat ≥ 48 && c.toNat ≤ 57 then some (c.toNat - 48) else none

def digitsToNat : List Char → Option Nat → Option Nat
  | [], acc => acc
  | c :: rest, acc =>
    match digitVal c with
    | none => none
    | some d => digitsToNat rest (some ((acc.getD 0) * 10 + d))

/-- split at the first comma -/
def splitComma : List Char → List Char × Option (List Char)
  | [] => ([], none)
  | ',' :: rest => ([], some rest)
  | c :: rest => let (a, b) := splitComma rest; (c :: a, b)

/-- quantifier after a bracket class: nothing, `+`, `*`, `{n}`, `{n,m}` → (min, max) -/
def parseQuant (q : List Char) : Option (Nat × Option Nat) :=
  match q with
  | [] => some (1, some 1)
  | ['+'] => some (1, none)
  | ['*'] => some (0, none)
  | '{' :: rest =>
    match rest.reverse with
    | '}' :: r =>
      let (a, b) := splitComma r.reverse
      match digitsToNat a none, b with
      | some n, none => some (n, some n)
      | some n, some b' =>
        (match digitsToNat b' none with
         | some k => if k < n then none else some (n, some k)
         | none => none)
      | none, _ => none
    | _ => none
  | _ => none

def parseSmallRe (p : String) : Option SmallRe :=
  let cs := p.toList
  let (aL, cs) := match cs with | '^' :: r => (true, r) | _ => (false, cs)
  let (aR, cs) := match cs.reverse with | '$' :: r => (true, r.reverse) | _ => (false, cs)
  match cs with
  | '[' :: rest =>
    match parseRanges rest [] with
    | none => none
    | some (ranges, q) =>
      match parseQuant q with
      | some (mn, mx) => some { anchorL := aL, anchorR := aR, isClass := true, lit := [], ranges := ranges, min := mn, max := mx }
      | none => none
  | _ =>
    if cs.any (fun c => reMeta.contains c) then none
    else some { anchorL := aL, anchorR := aR, isClass := false, lit := cs, ranges := [], min := 0, max := none }

def SmallRe.inClass (re : SmallRe) (c : Char) : Bool := re.ranges.any fun (a, b) => a ≤ c && c ≤ b

def runLen (re : SmallRe) : List Char → Nat
  | [] => 0
  | c :: rest => if re.inClass c then 1 + runLen re rest else 0

def isInfix (l s : List Char) : Bool :=
  match s with
  | [] => l.isEmpty
  | _ :: rest => l.isPrefixOf s || isInfix l rest

def anyRun (re : SmallRe) : List Char → Bool
  | [] => false
  | c :: rest => decide (runLen re (c :: rest) ≥ re.min) || anyRun re rest

def SmallRe.matches (re : SmallRe) (s : List Char) : Bool :=
  if !re.isClass then
    match re.anchorL, re.anchorR with
    | true, true => s == re.lit
    | true, false => re.lit.isPrefixOf s
    | false, true => re.lit.reverse.isPrefixOf s.reverse
    | false, false => isInfix re.lit s
  else
    let okLen (k : Nat) : Bool := decide (k ≥ re.min) && (match re.max with | none => true | some m => decide (k ≤ m))
    match re.anchorL, re.anchorR with
    | true, true => runLen re s == s.length && okLen s.length
    | true, false => decide (runLen re s ≥ re.min)
    | false, true => decide (runLen re s.reverse ≥ re.min)
    | false, false => re.min == 0 || anyRun re s

/-- The driver's matcher. `none` = pattern outside the class (the driver then prints `skip`). -/
def smallMatcher : Matcher :=
  { run := fun p s => match parseSmallRe p with | some re => re.matches s | none => false }

def patternsOf (p : Property) : List String :=
  match p.schema.item with
  | .string _ (some r) _ => r.pattern.toList
  | .key (some (.custom pat)) _ _ => [pat]
  | _ => []

/-! ## canonical flat rendering of a property (same text as the harness's `Flat`) -/

def showLR (lr : ListRules) : String :=
  match lr with
  | none => "~"
  | some p => if p.text == zeroLR then "~" else p.text

def showNames (l : List String) : String :=
  if l.isEmpty then "~" else String.intercalate "," (l.map hexStr)

def showOptInt : Option Int → String
  | none => "~"
  | some n => toString n

def showExcl : Option Bool → String
  | some true => "1"
  | _ => "~"

structure FlatRow where
  kind : String := "~"
  fmt : String := "~"
  min : String := "~"
  max : String := "~"
  emin : String := "~"
  emax : String := "~"
  minl : String := "~"
  maxl : String := "~"
  pat : String := "~"
  const : String := "~"
  inn : String := "~"
  nin : String := "~"
  sfmt : String := "~"
  kf : String := "~"
  kpat : String := "~"
  pk : String := "~"
  fk : String := "~"
  tk : String := "~"
  ref : String := "~"
  flat : String := "~"
  od : String := "~"
  types : String := "~"
  lr : String := "~"
  epfx : String := "~"
  edesc : String := "~"
  eopts : String := "~"

def flatOfSchema : Schema → FlatRow
  | .string fmt rules lr =>
    { kind := "str", sfmt := showOptHex fmt, lr := showLR lr,
      minl := showOptNat (rules.bind (·.minLength)), maxl := showOptNat (rules.bind (·.maxLength)),
      pat := showOptHex (rules.bind (·.pattern)) }
  | .bytes rules =>
    { kind := "bytes", minl := showOptNat (rules.bind (·.minLength)), maxl := showOptNat (rules.bind (·.maxLength)) }
  | .integer fmt rules lr =>
    { kind := "int", fmt := showFmt fmt, lr := showLR lr,
      min := showOptInt (rules.bind (·.minimum)), max := showOptInt (rules.bind (·.maximum)),
      emin := showExcl (rules.bind (·.exclusiveMinimum)), emax := showExcl (rules.bind (·.exclusiveMaximum)) }
  | .float is64 lr => { kind := "float", fmt := if is64 then "f64" else "f32", lr := showLR lr }
  | .bool rules lr => { kind := "bool", const := showOptB (rules.bind (·.const)), lr := showLR lr }
  | .enum decl rules lr =>
    -- reader's view: canonical declaration (short names), numbers from the compiled values
    { kind := "enum", ref := hexStr ("foo.v1." ++ decl.name), lr := showLR lr,
      inn := showNames ((rules.map (·.inn)).getD []), nin := showNames ((rules.map (·.notIn)).getD []),
      epfx := hexStr decl.pfx,
      edesc := if decl.description.isEmpty then "~" else hexStr decl.description,
      -- the canonical declaration lists UNSPECIFIED explicitly: values and descriptions are aligned
      eopts := String.intercalate "," ((decl.values.zip decl.optDescs).map fun ((n, k), d) =>
        s!"{hexStr (trimPrefix decl.pfx n)}:{k}:{hexStr d}") }
  | .key format entity lr =>
    let (kf, kpat) := match format with
      | none => ("inf", "~") | some .informal => ("inf", "~")
      | some (.custom p) => ("cus", hexStr p) | some .uuid => ("uuid", "~") | some .id62 => ("id62", "~")
    let (pk, fk) := match entity.map (·.typ) with
      | some (.primary b) => (b01 b, "~")
      | some (.foreign r) => ("0", hexStr r)
      | _ => ("0", "~")
    { kind := "key", kf := kf, kpat := kpat, pk := pk, fk := fk,
      tk := showOptHex (entity.bind (·.tenantKey)), lr := showLR lr }
  | .object ref flatten _ => { kind := "obj", ref := hexStr ref, flat := b01 flatten }
  | .oneof ref _ lr => { kind := "oneof", ref := hexStr ref, lr := showLR lr }
  | .timestamp _ lr => { kind := "ts", lr := showLR lr }
  | .date rules lr =>
    { kind := "date", lr := showLR lr,
      min := showOptHex (rules.bind (·.minimum)), max := showOptHex (rules.bind (·.maximum)),
      emin := showExcl (rules.bind (·.exclusiveMinimum)), emax := showExcl (rules.bind (·.exclusiveMaximum)) }
  | .decimal rules lr =>
    { kind := "dec", lr := showLR lr,
      min := showOptHex (rules.bind (·.minimum)), max := showOptHex (rules.bind (·.maximum)),
      emin := showExcl (rules.bind (·.exclusiveMinimum)), emax := showExcl (rules.bind (·.exclusiveMaximum)) }
  | .any od types lr => { kind := "any", od := b01 od, types := showNames types, lr := showLR lr }

/-- `pname` = the proto name of the compiled field (not part of the reflected schema; shown so
that the correspondence also ties `proto name = snake(declared name)`) -/
def showFlat (pname : String) (p : Property) : String :=
  let r := flatOfSchema p.schema.item
  let (arr, amin, amax, auniq, single) :=
    match p.schema with
    | .single _ => ("0", "~", "~", "~", "~")
    | .array _ rules sf =>
      ("1", showOptNat (rules.bind (·.minItems)), showOptNat (rules.bind (·.maxItems)),
       showOptB (rules.bind (·.uniqueItems)), showOptHex sf)
    | .map _ rules sf =>
      ("m", showOptNat (rules.bind (·.minPairs)), showOptNat (rules.bind (·.maxPairs)), "~", showOptHex sf)
  let desc := if p.description.isEmpty then "~" else hexStr p.description
  String.intercalate " " [
    s!"name={hexStr p.name}", s!"pname={hexStr pname}", s!"num={p.number}", s!"req={b01 p.required}", s!"opt={b01 p.explicitlyOptional}", s!"desc={desc}",
    s!"arr={arr}", s!"amin={amin}", s!"amax={amax}", s!"auniq={auniq}", s!"single={single}",
    s!"kind={r.kind}", s!"fmt={r.fmt}",
    s!"min={r.min}", s!"max={r.max}", s!"emin={r.emin}", s!"emax={r.emax}", s!"minl={r.minl}", s!"maxl={r.maxl}",
    s!"pat={r.pat}", s!"const={r.const}", s!"in={r.inn}", s!"nin={r.nin}",
    s!"sfmt={r.sfmt}", s!"kf={r.kf}", s!"kpat={r.kpat}", s!"pk={r.pk}", s!"fk={r.fk}", s!"tk={r.tk}",
    s!"ref={r.ref}", s!"flat={r.flat}", s!"od={r.od}", s!"types={r.types}", s!"lr={r.lr}",
    s!"epfx={r.epfx}", s!"edesc={r.edesc}", s!"eopts={r.eopts}" ]

end J5V.Rules.Wire
