import J5V.Rules.Meaning
import J5V.Rules.Reader
/-!
# C04: the normal form the reader returns (`normField`) and the declarations covered (`WFField`)

`normField` applies exactly the normalisations N1–N6 of `/verif/harness/PROTOCOL-rules.md`; each is a
semantic no-op of the schema language (`norm_preserves_accepts` in `Props/C04.lean` proves it for
validation). `WFField` excludes the inadmissible declarations and, explicitly, the recorded open
findings (string format, well-known string patterns, arrays of keys without a recognisable format).
-/
namespace J5V.Rules
open J5V.Go

def roundtrip (p : Property) : Outcome Property :=
  match writeField p with
  | .ok a => readField a
  | .err t => .err t
  | .panic w => .panic w

/-! ## normal form -/

def normExcl : Option Bool → Option Bool
  | some true => some true
  | _ => none

def normIntRules (r : IntRules) : IntRules :=
  { r with exclusiveMinimum := normExcl r.exclusiveMinimum, exclusiveMaximum := normExcl r.exclusiveMaximum }

def normKeyFormat (format : Option KeyFormat) (lr : ListRules) : Option KeyFormat :=
  match format with
  | none | some .informal => if lr.isSome then some .informal else none
  | some (.custom p) => if p = id62Pattern then some .id62 else some (.custom p)
  | some .uuid => some .uuid
  | some .id62 => some .id62

def normEntity (e : EntityKey) : EntityKey :=
  match e.typ with
  | .primary false => { e with typ := .none }
  | _ => e

/-- canonical enum declaration: effective prefix, short option names, explicit UNSPECIFIED -/
def normDecl (d : EnumDecl) : EnumDecl :=
  { name := d.name, declPrefix := some d.pfx, defaultPrefix := d.pfx,
    options := d.values.map fun v => trimPrefix d.pfx v.1 }

def normEnumName (d : EnumDecl) (n : String) : String := trimPrefix d.pfx (addPrefix d.pfx n)

def normSchema : Schema → Schema
  | .string fmt rules lr => .string fmt rules lr
  | .integer fmt rules lr => .integer fmt (rules.map normIntRules) lr
  | .float is64 lr => .float is64 lr
  | .bool rules lr => .bool (match rules with | some { const := some k } => some { const := some k } | _ => none) lr
  | .bytes rules => .bytes (some (rules.getD {}))
  | .key format entity lr => .key (normKeyFormat format lr) (entity.map normEntity) lr
  | .enum d rules lr =>
    .enum (normDecl d)
      (some (match rules with
             | some r => { inn := r.inn.map (normEnumName d), notIn := r.notIn.map (normEnumName d) }
             | none => {})) lr
  | .object ref flatten _ => .object ref flatten false
  | .oneof ref _ lr => .oneof ref false lr
  | .timestamp hasRules lr => .timestamp hasRules lr
  | .date rules lr => .date rules lr
  | .decimal rules lr => .decimal rules lr
  | .any od types lr => .any od types lr

/-- does `buildField` attach a validate constraint to this item type? (decides whether an array
without rules still gets a `repeated` wrapper, which the reader shows as empty array rules) -/
def hasItemConstraint : Schema → Bool
  | .string _ rules _ => rules.isSome
  | .integer _ rules _ => rules.isSome
  | .bool rules _ => rules.isSome
  | .bytes rules => rules.isSome
  | .key format _ _ => format.isSome
  | .enum _ _ _ => true
  | .object _ _ hasRules => hasRules
  | .oneof _ hasRules _ => hasRules
  | .timestamp hasRules _ => hasRules
  | _ => false

def normFieldSchema : FieldSchema → FieldSchema
  | .single s => .single (normSchema s)
  | .array s rules sf =>
    .array (normSchema s)
      (match rules with
       | some r => some r
       | none => if hasItemConstraint s then some {} else none) sf

def normField (p : Property) : Property :=
  { p with required := p.effRequired, schema := normFieldSchema p.schema }

/-! ## covered declarations -/

def int64Range (v : Int) : Bool := decide (-(2 ^ 63) ≤ v) && decide (v ≤ 2 ^ 63 - 1)

/-- plain enum declarations: no option is written with the prefix, none is `UNSPECIFIED` itself
(the implicit zero value is used) -/
def enumDeclWF (d : EnumDecl) : Bool :=
  d.options.all (fun o => !hasPrefix d.pfx o && o != "UNSPECIFIED") &&
  !hasPrefix d.pfx "UNSPECIFIED"

def schemaWFField (inArray : Bool) : Schema → Bool
  | .string fmt rules _ =>
    -- open findings: StringField.format is dropped; well-known patterns turn into formats / keys
    fmt.isNone &&
    (match rules with
     | some r => (match r.pattern with | some p => (wellKnownStringPattern p).isNone | none => true)
     | none => true)
  | .integer fmt (some r) _ =>
    intRulesWF fmt r && optAll r.minimum int64Range && optAll r.maximum int64Range
  | .key format entity lr =>
    (match format with
     | some (.custom p) => (wellKnownStringPattern p).isNone || lr.isNone
     | _ => true) &&
    (if inArray then
       -- open finding: the array annotation overwrites the item's key annotation
       entity.isNone &&
       (match format with
        | some .uuid | some .id62 => true
        | some (.custom p) => p = id62Pattern && lr.isNone
        | _ => lr.isSome)
     else true)
  | .enum d rules lr =>
    enumDeclWF d &&
    (match rules with
     | some r => enumRulesWF d r
     | none => true) &&
    -- inadmissible otherwise (compile error): default filters name options of the enum
    enumFiltersWF d lr
  -- open finding class: the array annotation replaces the item's j5 annotation
  | .date rules _ => !(inArray && rules.isSome)
  | .decimal rules _ => !(inArray && rules.isSome)
  | .object _ flatten _ => !(inArray && flatten)
  | .any od types _ => !(inArray && (od || !types.isEmpty))
  | _ => true

/-- The declarations `C04_field_roundtrip` quantifies over. -/
def WFField (p : Property) : Bool :=
  schemaWFField p.schema.isArray p.schema.item &&
  !(p.explicitlyOptional && p.effRequired) &&
  !(p.schema.isArray && p.explicitlyOptional)

end J5V.Rules
