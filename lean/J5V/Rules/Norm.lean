import J5V.Rules.Meaning
import J5V.Rules.Reader
/-!
# C04: the normal form the reader returns (`normField`) and the declarations covered (`WFField`)

`normField` applies exactly the normalisations N1–N6 of `/verif/harness/PROTOCOL-rules.md`; each is a
semantic no-op of the schema language (`norm_preserves_accepts` in `Props/C04.lean` proves it for
validation). `WFField` excludes the inadmissible declarations and, explicitly, the recorded open
findings (string format, well-known string patterns, arrays of keys without a recognisable format).
-/
namespace J5V.Rules
open J5V.Go

def roundtrip (p : Property) : Outcome Property :=
  match writeField p with
  | .ok a => readField a
  | .err t => .err t
  | .panic w => .panic w

/-! ## normal form -/

def normExcl : Option Bool → Option Bool
  | some true => some true
  | _ => none

def normIntRules (r : IntRules) : IntRules :=
  { r with exclusiveMinimum := normExcl r.exclusiveMinimum, exclusiveMaximum := normExcl r.exclusiveMaximum }

/-- N6 applies to array items only: there the key annotation with the custom pattern is replaced
by the array annotation and the reader recognises the id62 pattern as the id62 format. -/
def normKeyFormat (inArray : Bool) (format : Option KeyFormat) (lr : ListRules) : Option KeyFormat :=
  match format with
  | none | some .informal => if lr.isSome then some .informal else none
  | some (.custom p) => if inArray && p = id62Pattern then some .id62 else some (.custom p)
  | some .uuid => some .uuid
  | some .id62 => some .id62

def normEntity (e : EntityKey) : EntityKey :=
  match e.typ with
  | .primary false => { e with typ := .none }
  | _ => e

/-- one description per compiled value: the zero value has one only when it was declared explicitly -/
def EnumDecl.valueDescs (d : EnumDecl) : List String :=
  if d.isExplicit then d.optDescs else "" :: d.optDescs

/-- canonical enum declaration: effective prefix, short option names, explicit UNSPECIFIED, one
description per option -/
def normDecl (d : EnumDecl) : EnumDecl :=
  { name := d.name, declPrefix := some d.pfx, defaultPrefix := d.pfx,
    options := d.values.map fun v => trimPrefix d.pfx v.1,
    description := d.description, descs := d.valueDescs }

def normEnumName (d : EnumDecl) (n : String) : String := trimPrefix d.pfx (addPrefix d.pfx n)

def normSchema (inArray : Bool) : Schema → Schema
  | .string fmt rules lr => .string fmt rules lr
  | .integer fmt rules lr => .integer fmt (rules.map normIntRules) lr
  | .float is64 lr => .float is64 lr
  | .bool rules lr => .bool (match rules with | some { const := some k } => some { const := some k } | _ => none) lr
  | .bytes rules => .bytes (some (rules.getD {}))
  | .key format entity lr => .key (normKeyFormat inArray format lr) (entity.map normEntity) lr
  | .enum d rules lr =>
    .enum (normDecl d)
      (some (match rules with
             | some r => { inn := r.inn.map (normEnumName d), notIn := r.notIn.map (normEnumName d) }
             | none => {})) lr
  | .object ref flatten _ => .object ref flatten false
  | .oneof ref _ lr => .oneof ref false lr
  | .timestamp hasRules lr => .timestamp hasRules lr
  | .date rules lr => .date rules lr
  | .decimal rules lr => .decimal rules lr
  | .any od types lr => .any od types lr

/-- does `buildField` attach a validate constraint to this item type? (decides whether an array
without rules still gets a `repeated` wrapper, which the reader shows as empty array rules) -/
def hasItemConstraint : Schema → Bool
  | .string _ rules _ => rules.isSome
  | .integer _ rules _ => rules.isSome
  | .bool rules _ => rules.isSome
  | .bytes rules => rules.isSome
  | .key format _ _ => format.isSome
  | .enum _ _ _ => true
  | .object _ _ hasRules => hasRules
  | .oneof _ hasRules _ => hasRules
  | .timestamp hasRules _ => hasRules
  | _ => false

def normFieldSchema : FieldSchema → FieldSchema
  | .single s => .single (normSchema false s)
  | .array s rules sf =>
    .array (normSchema true s)
      (match rules with
       | some r => some r
       | none => if hasItemConstraint s then some {} else none) sf
  | .map s rules sf =>
    .map (normSchema true s)
      (match rules with
       | some r => some r
       | none => if hasItemConstraint s then some {} else none) sf

def normField (p : Property) : Property :=
  { p with required := p.effRequired, schema := normFieldSchema p.schema }

/-! ## covered declarations -/

def int64Range (v : Int) : Bool := decide (-(2 ^ 63) ≤ v) && decide (v ≤ 2 ^ 63 - 1)

/-- the declared options after an explicit leading `UNSPECIFIED` (written with or without the
prefix), which is the implicit zero value itself -/
def EnumDecl.rest (d : EnumDecl) : List String :=
  match d.options with
  | [] => []
  | o :: r => if trimPrefix d.pfx o == "UNSPECIFIED" then r else o :: r

def schemaWFField (inArray : Bool) : Schema → Bool
  | .string fmt rules _ =>
    -- open findings: StringField.format is dropped; well-known patterns turn into formats / keys
    -- (well-known patterns: only array items are still affected, their string annotation is
    -- replaced by the array annotation)
    fmt.isNone &&
    (match rules with
     | some r => (match r.pattern with | some p => !inArray || (wellKnownStringPattern p).isNone | none => true)
     | none => true)
  | .integer fmt (some r) _ =>
    intRulesWF fmt r && optAll r.minimum int64Range && optAll r.maximum int64Range
  | .key format entity lr =>
    (if inArray then
       -- open finding: the array annotation overwrites the item's key annotation
       entity.isNone &&
       (match format with
        | some .uuid | some .id62 => true
        | some (.custom p) => p = id62Pattern && lr.isNone
        | _ => lr.isSome)
     else true)
  | .enum d rules lr =>
    -- every enum declaration is covered: options written with or without the prefix, implicit or
    -- explicit UNSPECIFIED, declared or default prefix
    (match rules with
     | some r => enumRulesWF d r
     | none => true) &&
    -- inadmissible otherwise (compile error): default filters name options of the enum
    enumFiltersWF d lr
  -- open finding class: the array annotation replaces the item's j5 annotation
  | .date rules _ => !(inArray && rules.isSome)
  | .decimal rules _ => !(inArray && rules.isSome)
  | .object _ flatten _ => !(inArray && flatten)
  | .any od types _ => !(inArray && (od || !types.isEmpty))
  | _ => true

/-- the list rules of the (item) schema -/
def Schema.listRules : Schema → ListRules
  | .string _ _ lr | .integer _ _ lr | .float _ lr | .bool _ lr | .key _ _ lr | .enum _ _ lr
  | .oneof _ _ lr | .timestamp _ lr | .date _ lr | .decimal _ lr | .any _ _ lr => lr
  | .bytes _ | .object _ _ _ => none

/-- The declarations `C04_field_roundtrip_partial` quantifies over. Excluded (each with a counterexample
theorem in `Props/C04.lean`, each confirmed on the real code): `StringField.format`; in arrays and
maps the item annotations that the array annotation replaces / that sit on the map entry's value
field — keys without uuid / id62 format or with an entity, strings with a well-known pattern,
date / decimal rules, `flatten` objects, `any` with `onlyDefined` / `types`; for maps also the
values' list rules; `?` on arrays and maps (accepted by the compiler, not carried by the
descriptor); and the inadmissible declarations (compile errors). -/
def WFField (p : Property) : Bool :=
  schemaWFField (p.schema.isArray || p.schema.isMap) p.schema.item &&
  !(p.schema.isMap && p.schema.item.listRules.isSome) &&
  !(p.explicitlyOptional && p.effRequired) &&
  !((p.schema.isArray || p.schema.isMap) && p.explicitlyOptional)

end J5V.Rules
